/-
  M-STORE (log part): the reference log store and models of the two real log stores, as coded.

  * `Ref`   — the specification: a finite map index ↦ entry, `last_index` = greatest key (0 if none), purge boundary =
              cutoff of the last `purge`. Reopen is the identity.
  * `FileStore` — `FileLogStore` (d-engine-server/src/storage/adaptors/file/file_storage_engine.rs) at *record*
              granularity: `recs` = the length-prefixed records of `log.data` in file order (volatile view), `dur` = the
              records as of the last `sync_all`, `entries` = the in-memory `BTreeMap`, `endPos` = `index_end_pos`
              (offset after the record of that index, in records), `last` = the cached `last_index` atomic.
              `persist_entries` (append each record, `last := max(last, max index of the batch)` — before /repo 1dcc2fa
              it was the max of the batch alone, F19), `truncate`/`replace_range`
              (`set_len(end_pos_before(from))`, drop keys ≥ from, `last := greatest key`), `purge` (`set_len(0)`, rewrite
              the kept entries, `sync_all`, then the cutoff is written to `purge_boundary.bin`; `last` untouched), `reset`, `flush`, `load_from_file`
              (last record of an index wins, `last := greatest index read`), `load_purge_boundary` = content of
              `purge_boundary.bin` (kept by `reset`, like RocksDB keeps its boundary key).
              Offsets are in records: exact as long as all records have the same byte length (the `store` generator
              keeps index, term < 128 and a 1-byte payload) and no `set_len` *extends* the file; a state in which a stale
              offset extended the file is flagged `hole` for the rest of the run (observed as `unmodelled` on both sides).
  * `RocksStore` — `RocksDBLogStore` (…/rocksdb/rocksdb_storage_engine.rs) at key level: `persist_entries` (one batch of
              puts, `last := max(last, max index of the batch)`), `truncate` (delete keys from `from` upwards *until the first
              key ≥ the cached last_index*, then `last := from − 1`), `replace_range` (range tombstone [from, ∞) + puts
              in one batch, `last := index of the last new entry` or `from − 1`), `purge` (delete keys ≤ cutoff, boundary
              key := cutoff; `last` untouched), `reset` (delete all, `last := 0`, boundary kept), reopen (`last :=`
              greatest key).
-/
namespace DEngine.LogStore

structure Ent where
  idx : Nat
  term : Nat
  tag : Nat
deriving Repr, DecidableEq

/-- A finite map index ↦ entry, kept in ascending key order (`BTreeMap` / RocksDB key order). -/
abbrev Map := List Ent

def insert : Map → Ent → Map
  | [], e => [e]
  | x :: r, e =>
    if e.idx < x.idx then e :: x :: r
    else if e.idx = x.idx then e :: r
    else x :: insert r e

def insertAll (m : Map) (es : List Ent) : Map := es.foldl insert m

def get (m : Map) (i : Nat) : Option Ent := m.find? (·.idx == i)

/-- Greatest key, 0 for the empty map (`keys().next_back().unwrap_or(0)`). -/
def maxKey (m : Map) : Nat := m.foldl (fun a e => max a e.idx) 0

def below (m : Map) (from_ : Nat) : Map := m.filter (·.idx < from_)      -- keys < from
def above (m : Map) (cut : Nat) : Map := m.filter (cut < ·.idx)          -- keys > cut

/-- Max index of a batch, starting from 0 (`max_index = max_index.max(entry.index)`). -/
def batchMax (es : List Ent) : Nat := es.foldl (fun a e => max a e.idx) 0

inductive Op where
  | persist (es : List Ent)
  | truncate (from_ : Nat)
  | replace (from_ : Nat) (es : List Ent)
  | purge (idx term : Nat)
  | reset
  | flush
  | reopen          -- graceful: drop (flushes) + open
  | crash           -- process crash + open
deriving Repr, DecidableEq

/-! ## Reference store -/

structure Ref where
  m : Map
  boundary : Option (Nat × Nat)
deriving Repr, DecidableEq

def Ref.empty : Ref := { m := [], boundary := none }

def Ref.step (r : Ref) : Op → Ref
  | .persist es => { r with m := insertAll r.m es }
  | .truncate f => { r with m := below r.m f }
  | .replace f es => { r with m := insertAll (below r.m f) es }
  | .purge i t => { m := above r.m i, boundary := some (i, t) }
  | .reset => { r with m := [] }
  | .flush => r
  | .reopen => r
  | .crash => r

def Ref.last (r : Ref) : Nat := maxKey r.m

/-! ## File log store -/

structure FileStore where
  entries : Map
  recs : List Ent
  endPos : List (Nat × Nat)     -- ascending by index
  last : Nat
  dur : List Ent
  hole : Bool                    -- a stale offset extended the file: bytes matter from here on (not modelled)
  boundary : Option (Nat × Nat)  -- content of `purge_boundary.bin` (since /repo aab5543; before: never stored, F26)
deriving Repr, DecidableEq

def FileStore.empty : FileStore :=
  { entries := [], recs := [], endPos := [], last := 0, dur := [], hole := false, boundary := none }

def posInsert : List (Nat × Nat) → Nat × Nat → List (Nat × Nat)
  | [], e => [e]
  | x :: r, e =>
    if e.1 < x.1 then e :: x :: r
    else if e.1 = x.1 then e :: r
    else x :: posInsert r e

/-- `index_end_pos.range(..from).next_back().map(pos).unwrap_or(0)`. -/
def endPosBefore (ep : List (Nat × Nat)) (from_ : Nat) : Nat :=
  (((ep.filter (·.1 < from_)).getLast?).map (·.2)).getD 0

/-- Append one record and register it (`write_encoded` + the two inserts). -/
def FileStore.append (s : FileStore) (e : Ent) : FileStore :=
  { s with recs := s.recs ++ [e], entries := insert s.entries e,
           endPos := posInsert s.endPos (e.idx, s.recs.length + 1) }

/-- `set_len(end_pos_before(from))` + `remove_from_index(from)`. -/
def FileStore.cut (s : FileStore) (from_ : Nat) : FileStore :=
  let to := endPosBefore s.endPos from_
  { s with recs := s.recs.take to, hole := s.hole || decide (s.recs.length < to),
           entries := below s.entries from_, endPos := s.endPos.filter (·.1 < from_) }

/-- `load_from_file` on a record list: fresh maps, last record of an index wins. -/
def loadRecs (recs : List Ent) : FileStore :=
  let s := recs.foldl FileStore.append { FileStore.empty with recs := [] }
  { s with last := batchMax recs, dur := [] }

/-- Offsets after a rewrite: the `j`-th kept entry ends at record offset `k + j`. -/
def enumAux : Nat → Map → List (Nat × Nat)
  | _, [] => []
  | k, e :: r => (e.idx, k + 1) :: enumAux (k + 1) r

def enumFrom1 (m : Map) : List (Nat × Nat) := enumAux 0 m

def FileStore.step (s : FileStore) : Op → FileStore
  | .persist es =>
    if es.isEmpty then s else
    { es.foldl FileStore.append s with last := max s.last (batchMax es) }   -- `fetch_max` (since /repo 1dcc2fa)
  | .truncate f =>
    let s1 := s.cut f
    { s1 with last := maxKey s1.entries }
  | .replace f es =>
    let s1 := es.foldl FileStore.append (s.cut f)
    { s1 with last := maxKey s1.entries }
  | .purge i t =>
    let keep := above s.entries i
    { s with recs := keep, dur := keep, endPos := enumFrom1 keep, entries := keep, boundary := some (i, t) }
  | .reset => { s with recs := [], entries := [], endPos := [], last := 0 }
  | .flush => { s with dur := s.recs }
  | .reopen => { loadRecs s.recs with dur := s.recs, hole := s.hole, boundary := s.boundary }
  | .crash => { loadRecs s.recs with dur := s.dur, hole := s.hole, boundary := s.boundary }

/-- Crash points *inside* one op: (hook name, records of `log.data` at that point), in order. -/
def appendPoints (name : String) (recs : List Ent) (es : List Ent) : List (String × List Ent) :=
  (List.range es.length).map fun k => (name, recs ++ es.take (k + 1))

def FileStore.crashPoints (s : FileStore) : Op → List (String × List Ent)
  | .persist es =>
    if es.isEmpty then [] else appendPoints "persist:entry" s.recs es ++ [("persist:flushed", s.recs ++ es)]
  | .truncate f => [("truncate:truncated", (s.cut f).recs)]
  | .replace f es =>
    let base := (s.cut f).recs
    [("replace:truncated", base)] ++ appendPoints "replace:entry" base es ++ [("replace:done", base ++ es)]
  | .purge i _ =>
    let keep := above s.entries i
    [("purge:truncated", [])] ++ appendPoints "purge:entry" [] keep ++ [("purge:synced", keep)]
  | .reset => [("reset:truncated", [])]
  | .flush => [("flush:synced", s.recs)]
  | .reopen => []
  | .crash => []

/-! ## RocksDB log store -/

structure RocksStore where
  db : Map
  last : Nat
  boundary : Option (Nat × Nat)
deriving Repr, DecidableEq

def RocksStore.empty : RocksStore := { db := [], last := 0, boundary := none }

/-- Keys deleted by `truncate(from)`: from `from` upwards, stopping after the first key ≥ the cached last index. -/
def truncKeys (cur : Nat) : Map → List Nat
  | [] => []
  | e :: r => if e.idx ≥ cur then [e.idx] else e.idx :: truncKeys cur r

def RocksStore.step (s : RocksStore) : Op → RocksStore
  | .persist es =>
    let mx := batchMax es
    { s with db := insertAll s.db es, last := max s.last mx }               -- `fetch_max` (since /repo 1dcc2fa)
  | .truncate f =>
    let del := truncKeys s.last (s.db.filter (f ≤ ·.idx))
    { s with db := s.db.filter (fun e => !del.contains e.idx), last := f - 1 }
  | .replace f es =>
    { s with db := insertAll (below s.db f) es, last := (es.getLast?.map (·.idx)).getD (f - 1) }
  | .purge i t => { s with db := above s.db i, boundary := some (i, t) }
  | .reset => { s with db := [], last := 0 }
  | .flush => s
  | .reopen => { s with last := maxKey s.db }
  | .crash => { s with last := maxKey s.db }

/-- Crash images of the key space around one op: every RocksDB op changes the log column family with ONE write batch
    (`persist_entries`, `truncate`, `replace_range`, `purge`, `reset` each call `db.write(&batch)` once), so a crash
    shows the keys before or after it. -/
def RocksStore.crashImages (s : RocksStore) (op : Op) : List Map := [s.db, (s.step op).db]

/-! ## The storage contract (what a caller may issue) and the append-only discipline of the refinement theorems -/

def ascending : List Ent → Bool
  | a :: b :: r => decide (a.idx < b.idx) && ascending (b :: r)
  | _ => true

def hasKey (m : Map) (i : Nat) : Bool := m.any (·.idx == i)

/-- Truncation point adjacent to the kept part: `from = 1` or `from − 1` is an existing index. -/
def adjacent (m : Map) (f : Nat) : Bool := decide (f = 1) || (decide (f ≥ 1) && hasKey m (f - 1))

/-- Preconditions of the documented contract (storage_engine.rs + storage_engine_test.rs): indexes ≥ 1, batches
    strictly ascending, truncation adjacent to an existing entry, a replacement starts at `from`, purge keeps at least
    one entry (or the log is empty). Re-written and lower indexes in `persist_entries` ARE allowed here. -/
def contract (r : Ref) : Op → Bool
  | .persist es => ascending es && es.all (·.idx ≥ 1)
  | .truncate f => adjacent r.m f
  | .replace f es =>
    ascending es && (match es with | [] => adjacent r.m f | e :: _ => decide (f ≥ 1) && decide (e.idx = f))
  | .purge i _ => r.m.isEmpty || decide (i < maxKey r.m)
  | _ => true

/-- The discipline under which both engines refine `Ref`: the contract, and `persist_entries` only appends beyond the
    current end (re-writing goes through `replace_range`). -/
def appendOnly (r : Ref) : Op → Bool
  | .persist es => contract r (.persist es) && (match es with | [] => true | e :: _ => decide (maxKey r.m < e.idx))
  | op => contract r op

end DEngine.LogStore
