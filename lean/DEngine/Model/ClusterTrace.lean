/-
  Line protocol of the `cluster` family: event parsing, canonical printing of the observable cluster state (same
  format as harness/src/bin/cluster/sim.rs `Cluster::observe`), parsing of the implementation's trace, and the
  decidable monitors evaluated on it (C04 log matching, C05 committed-never-lost, C10, C32).
-/
import DEngine.Model.Proto
import DEngine.Model.Cluster
namespace DEngine.Cluster
open DEngine.Proto

-- ------------------------------------------------------------------------------------------ events
def parseEvent (s : String) : Event :=
  let p := s.splitOn ":"
  let num (i : Nat) : Option Nat := (p[i]?).bind String.toNat?
  match p.head?, num 1, num 2 with
  | some "t", some n, _ => .tick n
  | some "vq", some c, some q => .voteReq c q
  | some "vr", some c, some q => .voteResp c q
  | some "ve", some c, _ => .voteEnd c
  | some "w", some n, some x => .write n x
  | some "a", some m, _ => .deliverAe m
  | some "r", some m, _ => .deliverResp m
  | some "d", some m, _ => .drop m
  | some "u", some m, _ => .dup m
  | some "se", some l, some q => .streamErr l q
  | some "lf", some n, _ => .logFlushed n
  | some "ac", some n, some i => .applyCompleted n i
  | some "x", some n, some k => .crash n k
  | some "g", some n, _ => .stop n
  | some "up", some n, _ => .start n
  | _, _, _ => .nop

/-- `n=3 cap=2|ev;ev;...` -/
def parseCase (line : String) : Option (Nat × Nat × List Event) :=
  match line.splitOn "|" with
  | [head, evs] => do
    let fs := fields head
    let n ← natField fs "n"
    let cap ← natField fs "cap"
    if !(n == 3 || n == 5) || cap == 0 then none
    else pure (n, cap, ((evs.splitOn ";").filter (fun s => !s.isEmpty)).map parseEvent)
  | _ => none

-- ------------------------------------------------------------------------------------------ printing
def showPayload (p : Nat) : String := if p == 0 then "n" else toString (p - 1)

def showEntries (es : Log) (sep fsep : String) : String :=
  if es.isEmpty then "-"
  else sep.intercalate (es.map fun e => s!"{e.index}{fsep}{e.term}{fsep}{showPayload e.payload}")

def showVote : Option Vote → String
  | none => "-"
  | some v => s!"{v.id}@{v.term}{if v.committed then "c" else "u"}"

def showNode (nd : Node) : String :=
  if !nd.up then "D"
  else match nd.election with
    | some el => s!"E,{el.req.term}"
    | none =>
      let r := match nd.role with | .follower => "F" | .candidate => "C" | .leader => "L"
      let base := s!"{r},{nd.term},{showVote nd.vote},{nd.commit},{showEntries nd.log "+" "."}"
      if nd.role == .leader && !nd.peers.isEmpty then
        base ++ "," ++ "+".intercalate (nd.peers.map fun p => s!"{p.id}.{p.next}.{p.mtch}")
      else base

def showOptNat : Option Nat → String
  | none => "-"
  | some x => toString x

def showMsg (id : Nat) : Msg → String
  | .ae src dst _ r _ =>
    s!"A{id}.{src}.{dst}.{r.term}.{r.prevI}.{r.prevT}.{r.commit}.{showEntries r.entries ":" "_"}"
  | .resp src dst _ term res =>
    let k := match res with
      | .success (some (i, t)) => s!"s{i}_{t}"
      | .success none => "s-"
      | .conflict t i => s!"c{showOptNat t}_{showOptNat i}"
      | .higher t => s!"h{t}"
    s!"R{id}.{src}.{dst}.{term}.{k}"

/-- state after an event; `fromMsg` = `nextMsg` before the event (messages created by it and still in the bag) -/
def showState (c : Cluster) (fromMsg : Nat) : String :=
  let nodes := "/".intercalate (((List.range (c.n + 1)).filter (· != 0)).map fun i => showNode (c.nodes i))
  let newMsgs := c.msgs.filter (fun x => x.1 ≥ fromMsg)
  if newMsgs.isEmpty then nodes else nodes ++ "~" ++ "+".intercalate (newMsgs.map fun x => showMsg x.1 x.2)

/-- all states + branch tags of a schedule -/
def runTrace (c : Cluster) : List Event → List String → List String → Cluster × List String × List String
  | [], states, tags => (c, states.reverse, tags)
  | e :: es, states, tags =>
    let (c', t) := step c e
    runTrace c' es (showState c' c.nextMsg :: states) (t ++ tags)

def dedup (l : List String) : List String := l.foldl (fun acc x => if acc.contains x then acc else acc ++ [x]) []

def modelLine (line : String) : String :=
  match parseCase line with
  | none => "bad-case\t-"
  | some (n, cap, evs) =>
    let (_, states, tags) := runTrace (Cluster.init n cap) evs [] []
    let out := if states.isEmpty then "-" else "|".intercalate states
    out ++ "\t" ++ ",".intercalate (dedup tags)

-- ------------------------------------------------------------------------------------------ implementation trace
/-- What the monitors see of one node in one state of the IMPLEMENTATION's trace. -/
structure ObsNode where
  up : Bool
  visible : Bool          -- false while blocked in an election (only the term is printed)
  role : String
  term : Nat
  commit : Nat
  log : Log
deriving Repr

def parseEntry (s : String) : Option Entry :=
  match s.splitOn "." with
  | [i, t, p] => do
    let i ← i.toNat?
    let t ← t.toNat?
    let p := if p == "n" then some 0 else p.toNat?.map (· + 1)
    pure ⟨i, t, ← p⟩
  | _ => none

def parseLog (s : String) : Option Log :=
  if s == "-" then some [] else (s.splitOn "+").mapM parseEntry

def parseObsNode (s : String) : Option ObsNode :=
  match s.splitOn "," with
  | ["D"] => some ⟨false, false, "D", 0, 0, []⟩
  | ["E", t] => do pure ⟨true, false, "E", ← t.toNat?, 0, []⟩
  | role :: t :: _vote :: c :: lg :: _ => do
    pure ⟨true, true, role, ← t.toNat?, ← c.toNat?, ← parseLog lg⟩
  | _ => none

def parseObsState (s : String) : Option (List ObsNode) :=
  match s.splitOn "~" with
  | nodes :: _ => (nodes.splitOn "/").mapM parseObsNode
  | [] => none

def parseImplTrace (out : String) : Option (List (List ObsNode)) :=
  if out == "-" then some [] else (out.splitOn "|").mapM parseObsState

-- ------------------------------------------------------------------------------------------ C04 monitor
/-- Log matching between two logs (decidable form of `LogMatching`, see Props/C04.lean). -/
def logMatchingB (a b : Log) : Bool :=
  a.all fun e1 => b.all fun e2 =>
    if e1.index == e2.index && e1.term == e2.term then
      e1 == e2 && a.filter (fun e => e.index ≤ e1.index) == b.filter (fun e => e.index ≤ e1.index)
    else true

def pairwise (logs : List Log) : Bool :=
  match logs with
  | [] => true
  | a :: rest => rest.all (logMatchingB a) && pairwise rest

/-- (term, node) of every leadership that starts in the trace: node is `L` with a term it was not leading
    in the previous state. -/
def leaderships : List (List ObsNode) → List ObsNode → List (Nat × Nat)
  | [], _ => []
  | st :: rest, prev =>
    let now := (st.zipIdx).filterMap fun (nd, i) =>
      if nd.visible && nd.role == "L" then
        match prev[i]? with
        | some p => if p.visible && p.role == "L" && p.term == nd.term then none else some (nd.term, i + 1)
        | none => some (nd.term, i + 1)
      else none
    now ++ leaderships rest st

def hasDupTerm (ls : List (Nat × Nat)) : Bool :=
  match ls with
  | [] => false
  | (t, _) :: rest => rest.any (fun x => x.1 == t) || hasDupTerm rest

def monitorC04 (_case out : String) : String :=
  match parseImplTrace out with
  | none => "bad unparsable-trace"
  | some [] => "skip"
  | some states =>
    if states.all fun st => pairwise ((st.filter (·.visible)).map (·.log)) then "ok"
    else if hasDupTerm (leaderships states []) then "bad two-leaderships-one-term"
    else "bad log-mismatch"

end DEngine.Cluster
