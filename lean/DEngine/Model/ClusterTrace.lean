/-
  Line protocol of the `cluster` family: event parsing, canonical printing of the observable cluster state (same
  format as harness/src/bin/cluster/sim.rs `Cluster::observe`), parsing of the implementation's trace, and the
  decidable monitors evaluated on it (C04 log matching, C05 committed-never-lost, C10, C32).
-/
import DEngine.Model.Proto
import DEngine.Model.Cluster
import DEngine.Model.ClusterHeal
namespace DEngine.Cluster
open DEngine.Proto

-- ------------------------------------------------------------------------------------------ events
def parseEvent (s : String) : Event :=
  let p := s.splitOn ":"
  let num (i : Nat) : Option Nat := (p[i]?).bind String.toNat?
  match p.head?, num 1, num 2 with
  | some "t", some n, _ => .tick n
  | some "vq", some c, some q => .voteReq c q
  | some "vr", some c, some q => .voteResp c q
  | some "ve", some c, _ => .voteEnd c
  | some "w", some n, some x => .write n x
  | some "a", some m, _ => .deliverAe m
  | some "r", some m, _ => .deliverResp m
  | some "d", some m, _ => .drop m
  | some "u", some m, _ => .dup m
  | some "se", some l, some q => .streamErr l q
  | some "sc", some l, some q => .streamClosed l q
  | some "lf", some n, _ => .logFlushed n
  | some "ac", some n, some i => .applyCompleted n i
  | some "x", some n, some k => .crash n k
  | some "g", some n, _ => .stop n
  | some "up", some n, _ => .start n
  | _, _, _ => .nop

/-- a schedule item: a primitive event, or `h:K` = K heal rounds (C32) -/
def parseItem (s : String) : Event ⊕ Nat :=
  match s.splitOn ":" with
  | ["h", k] => match k.toNat? with
    | some k => .inr k
    | none => .inl .nop
  | _ => .inl (parseEvent s)

/-- `n=3 cap=2|ev;ev;...` -/
def parseCase (line : String) : Option (Nat × Nat × List (Event ⊕ Nat)) :=
  match line.splitOn "|" with
  | [head, evs] => do
    let fs := fields head
    let n ← natField fs "n"
    let cap ← natField fs "cap"
    if !(n == 3 || n == 5) || cap == 0 then none
    else pure (n, cap, ((evs.splitOn ";").filter (fun s => !s.isEmpty)).map parseItem)
  | _ => none

-- ------------------------------------------------------------------------------------------ printing
def showPayload (p : Nat) : String := if p == 0 then "n" else toString (p - 1)

def showEntries (es : Log) (sep fsep : String) : String :=
  if es.isEmpty then "-"
  else sep.intercalate (es.map fun e => s!"{e.index}{fsep}{e.term}{fsep}{showPayload e.payload}")

def showVote : Option Vote → String
  | none => "-"
  | some v => s!"{v.id}@{v.term}{if v.committed then "c" else "u"}"

def showNode (nd : Node) : String :=
  if !nd.up then "D"
  else match nd.election with
    | some el => s!"E,{el.req.term}"
    | none =>
      let r := match nd.role with | .follower => "F" | .candidate => "C" | .leader => "L"
      let base := s!"{r},{nd.term},{showVote nd.vote},{nd.commit},{showEntries nd.log "+" "."}"
      if nd.role == .leader && !nd.peers.isEmpty then
        base ++ "," ++ "+".intercalate (nd.peers.map fun p => s!"{p.id}.{p.next}.{p.mtch}")
      else base

def showOptNat : Option Nat → String
  | none => "-"
  | some x => toString x

def showMsg (id : Nat) : Msg → String
  | .ae src dst _ r _ =>
    s!"A{id}.{src}.{dst}.{r.term}.{r.prevI}.{r.prevT}.{r.commit}.{showEntries r.entries ":" "_"}"
  | .resp src dst _ term res =>
    let k := match res with
      | .success (some (i, t)) => s!"s{i}_{t}"
      | .success none => "s-"
      | .conflict t i => s!"c{showOptNat t}_{showOptNat i}"
      | .higher t => s!"h{t}"
    s!"R{id}.{src}.{dst}.{term}.{k}"

/-- state after an event; `fromMsg` = `nextMsg` before the event (messages created by it and still in the bag) -/
def showState (c : Cluster) (fromMsg fromAck : Nat) : String :=
  let nodes := "/".intercalate (((List.range (c.n + 1)).filter (· != 0)).map fun i => showNode (c.nodes i))
  let newMsgs := c.msgs.filter (fun x => x.1 ≥ fromMsg)
  let s := if newMsgs.isEmpty then nodes else nodes ++ "~" ++ "+".intercalate (newMsgs.map fun x => showMsg x.1 x.2)
  let newAcks := c.acked.drop fromAck
  if newAcks.isEmpty then s else s ++ "!" ++ "+".intercalate (newAcks.map fun a => showPayload a.1.payload)

/-- suffix of the state of a heal event: `^i+j` = the nodes to which a prev=(0,0) request was delivered inside it -/
def showResets (n : Nat) (resets : List NodeId) : String :=
  let ids := ((List.range (n + 1)).filter fun i => i != 0 && resets.contains i)
  if ids.isEmpty then "" else "^" ++ "+".intercalate (ids.map toString)

/-- all states + branch tags of a schedule -/
def runTrace (c : Cluster) : List (Event ⊕ Nat) → List String → List String → Cluster × List String × List String
  | [], states, tags => (c, states.reverse, tags)
  | .inl e :: es, states, tags =>
    let (c', t) := step c e
    runTrace c' es (showState c' c.nextMsg c.acked.length :: states) (t ++ tags)
  | .inr k :: es, states, tags =>
    let (c', resets) := healR k 0 c []
    runTrace c' es ((showState c' c.nextMsg c.acked.length ++ showResets c.n resets) :: states)
      ((if recovered c' then "heal:recovered" else "heal:not-recovered") :: tags)

def dedup (l : List String) : List String := l.foldl (fun acc x => if acc.contains x then acc else acc ++ [x]) []

def modelLine (line : String) : String :=
  match parseCase line with
  | none => "bad-case\t-"
  | some (n, cap, evs) =>
    let (_, states, tags) := runTrace (Cluster.init n cap) evs [] []
    let out := if states.isEmpty then "-" else "|".intercalate states
    out ++ "\t" ++ ",".intercalate (dedup tags)

-- ------------------------------------------------------------------------------------------ implementation trace
/-- What the monitors see of one node in one state of the IMPLEMENTATION's trace. -/
structure ObsNode where
  up : Bool
  visible : Bool          -- false while blocked in an election (only the term is printed)
  role : String
  term : Nat
  commit : Nat
  log : Log
  peers : List (Nat × Nat × Nat) := []      -- leader only: (peer, next_index, match_index)
deriving Repr

def parseEntry (s : String) : Option Entry :=
  match s.splitOn "." with
  | [i, t, p] => do
    let i ← i.toNat?
    let t ← t.toNat?
    let p := if p == "n" then some 0 else p.toNat?.map (· + 1)
    pure ⟨i, t, ← p⟩
  | _ => none

def parseLog (s : String) : Option Log :=
  if s == "-" then some [] else (s.splitOn "+").mapM parseEntry

def parseObsNode (s : String) : Option ObsNode :=
  match s.splitOn "," with
  | ["D"] => some ⟨false, false, "D", 0, 0, [], []⟩
  | ["E", t] => do pure ⟨true, false, "E", ← t.toNat?, 0, [], []⟩
  | role :: t :: _vote :: c :: lg :: rest => do
    let peers := match rest with
      | [ps] => (ps.splitOn "+").filterMap fun p => match p.splitOn "." with
          | [a, b, c] => do pure (← a.toNat?, ← b.toNat?, ← c.toNat?)
          | _ => none
      | _ => []
    pure ⟨true, true, role, ← t.toNat?, ← c.toNat?, ← parseLog lg, peers⟩
  | _ => none

/-- a state string without the `^resets` suffix of heal events -/
def stripMark (s : String) : String := (s.splitOn "^").headD ""

/-- the nodes listed in the `^resets` suffix of a heal state -/
def parseResetMark (s : String) : List Nat :=
  match s.splitOn "^" with
  | [_, m] => (m.splitOn "+").filterMap String.toNat?
  | _ => []

def parseObsState (s : String) : Option (List ObsNode) :=
  match (((stripMark s).splitOn "!").headD "").splitOn "~" with
  | nodes :: _ => (nodes.splitOn "/").mapM parseObsNode
  | [] => none

def parseImplTrace (out : String) : Option (List (List ObsNode)) :=
  if out == "-" then some [] else (out.splitOn "|").mapM parseObsState

-- ------------------------------------------------------------------------------------------ C04 monitor
/-- Log matching between two logs (decidable form of `LogMatching`, see Props/C04.lean). -/
def logMatchingB (a b : Log) : Bool :=
  a.all fun e1 => b.all fun e2 =>
    if e1.index == e2.index && e1.term == e2.term then
      e1 == e2 && a.filter (fun e => e.index ≤ e1.index) == b.filter (fun e => e.index ≤ e1.index)
    else true

def pairwise (logs : List Log) : Bool :=
  match logs with
  | [] => true
  | a :: rest => rest.all (logMatchingB a) && pairwise rest

/-- (term, node) of every leadership that starts in the trace: node is `L` with a term it was not leading
    in the previous state. -/
def leaderships : List (List ObsNode) → List ObsNode → List (Nat × Nat)
  | [], _ => []
  | st :: rest, prev =>
    let now := (st.zipIdx).filterMap fun (nd, i) =>
      if nd.visible && nd.role == "L" then
        match prev[i]? with
        | some p => if p.visible && p.role == "L" && p.term == nd.term then none else some (nd.term, i + 1)
        | none => some (nd.term, i + 1)
      else none
    now ++ leaderships rest st

def hasDupTerm (ls : List (Nat × Nat)) : Bool :=
  match ls with
  | [] => false
  | (t, _) :: rest => rest.any (fun x => x.1 == t) || hasDupTerm rest

def monitorC04 (_case out : String) : String :=
  match parseImplTrace out with
  | none => "bad unparsable-trace"
  | some [] => "skip"
  | some states =>
    if states.all fun st => pairwise ((st.filter (·.visible)).map (·.log)) then "ok"
    else if hasDupTerm (leaderships states []) then "bad two-leaderships-one-term"
    else "bad log-mismatch"

-- ------------------------------------------------------------------------------------------ C05 monitor
/-- (id, prevI, prevT) of every AppendEntries request printed in the trace -/
def parseAeMsgs (out : String) : List (Nat × Nat × Nat) :=
  (out.splitOn "|").flatMap fun st =>
    match (((stripMark st).splitOn "!").headD "").splitOn "~" with
    | [_, ms] => (ms.splitOn "+").filterMap fun m =>
        if m.startsWith "A" then
          match (m.drop 1).toString.splitOn "." with
          | id :: _ :: _ :: _ :: pi :: pt :: _ => do pure (← id.toNat?, ← pi.toNat?, ← pt.toNat?)
          | _ => none
        else none
    | _ => []

structure C05State where
  lastVis : List (Option Log)          -- per node: last visible log
  crashed : List Bool                  -- per node: crashed (no Drop) since it was last visible
  committed : List (Entry × Nat)       -- entry, term of the leader whose commit index covered it
  lostReset : List Entry               -- entries some node dropped when it executed a prev=(0,0) request
  lostCrash : List Entry               -- entries some node no longer had after a crash
  prev : List ObsNode
  lships : List (Nat × Nat)

def setAt {α} (l : List α) (i : Nat) (x : α) : List α := l.set i x

def isResetDelivery (ev : String) (aes : List (Nat × Nat × Nat)) : Bool :=
  match ev.splitOn ":" with
  | ["a", m] => match m.toNat? with
    | some id => aes.any fun x => x.1 == id && x.2.1 == 0 && x.2.2 == 0
    | none => false
  | _ => false

def crashTarget (ev : String) : Option Nat :=
  match ev.splitOn ":" with
  | ["x", n, _] => n.toNat?
  | _ => none

/-- one event of the implementation's trace; returns the new monitor state or the signature of the violation -/
def c05Step (s : C05State) (ev : String) (st : List ObsNode) (aes : List (Nat × Nat × Nat))
    (acks : Option (List Nat)) (mark : List Nat := []) : Except String C05State := do
  let resetEv := isResetDelivery ev aes
  -- what every visible node lost since it was last visible
  let mut lostReset := s.lostReset
  let mut lostCrash := s.lostCrash
  let mut direct : Option String := none
  let mut lastVis := s.lastVis
  let mut crashed := s.crashed
  for (nd, i) in st.zipIdx do
    if nd.visible then
      -- a prev=(0,0) request reached this node: the event itself, or (heal events) the `^` list of the state
      let reset := resetEv || mark.contains (i + 1)
      match (s.lastVis[i]?).join with
      | some old =>
        let gone := old.filter fun e => !nd.log.contains e
        if !gone.isEmpty then
          if (s.crashed[i]?).getD false then lostCrash := lostCrash ++ gone
          else if reset then lostReset := lostReset ++ gone
          if direct.isNone && gone.any (fun e => s.committed.any fun c => c.1 == e) then
            direct := some (if (s.crashed[i]?).getD false then "lost-in-crash"
                            else if reset then "wiped-by-reset" else "discarded-committed")
      | none => pure ()
      lastVis := setAt lastVis i (some nd.log)
      crashed := setAt crashed i false
  match crashTarget ev with
  | some n => crashed := setAt crashed (n - 1) true
  | none => pure ()
  -- leader completeness
  let mut missing : Option Entry := none
  for nd in st do
    if nd.visible && nd.role == "L" then
      for c in s.committed do
        if c.2 < nd.term && !nd.log.contains c.1 && missing.isNone then missing := some c.1
  let lships := s.lships ++ leaderships [st] s.prev
  let rootCause (e : Option Entry) : Option String :=
    if hasDupTerm lships then some "two-leaderships-one-term"
    else match e with
      | some e => if lostReset.contains e then some "wiped-by-reset"
                  else if lostCrash.contains e then some "lost-in-crash" else none
      | none => none
  match direct with
  | some d =>
    let lostNow := (st.zipIdx).flatMap fun (nd, i) =>
      if nd.visible then match (s.lastVis[i]?).join with
        | some old => old.filter fun e => !nd.log.contains e && s.committed.any fun c => c.1 == e
        | none => []
      else []
    throw ((rootCause lostNow.head?).getD d)
  | none => pure ()
  match missing with
  | some e => throw ((rootCause (some e)).getD "leader-missing-committed")
  | none => pure ()
  -- new commits (C05: whatever a leader's commit index covers; C10: the writes answered with success in this event)
  let mut committed := s.committed
  for nd in st do
    if nd.visible && nd.role == "L" then
      for e in nd.log do
        let covered := match acks with
          | none => e.index ≤ nd.commit
          | some tags => e.index ≤ nd.commit && e.term == nd.term && e.payload != 0 && tags.contains (e.payload - 1)
        if covered && !(committed.any fun c => c.1 == e) then committed := committed ++ [(e, nd.term)]
  -- C10: an answered write must be covered by the answering leader's commit index
  match acks with
  | some tags =>
    if !(tags.all fun t => committed.any fun c => c.1.payload == t + 1) then throw "acked-but-not-committed"
  | none => pure ()
  pure { lastVis := lastVis, crashed := crashed, committed := committed, lostReset := lostReset, lostCrash := lostCrash,
         prev := st, lships := lships }

/-- tags of the writes answered with success in one state string -/
def parseAcks (st : String) : List Nat :=
  match (stripMark st).splitOn "!" with
  | [_, a] => (a.splitOn "+").filterMap String.toNat?
  | _ => []

def c05Run (s : C05State) : List String → List (List ObsNode) → List (Nat × Nat × Nat) → Option (List (List Nat)) →
    List (List Nat) → Except String C05State
  | ev :: evs, st :: sts, aes, acks, marks => do
    let s' ← c05Step s ev st aes (acks.map fun a => a.headD []) (marks.headD [])
    c05Run s' evs sts aes (acks.map fun a => a.drop 1) (marks.drop 1)
  | _, _, _, _, _ => pure s

/-- C05 on the implementation's trace: committed entries (covered by a leader's commit index) are never discarded by
    a node that held them, and every later-term leader holds them.  `skip` when nothing was ever committed. -/
def monitorC05 (case out : String) : String :=
  match parseImplTrace out, case.splitOn "|" with
  | some states, [_, evs] =>
    let n := (states.head?.map List.length).getD 0
    let init : C05State := { lastVis := List.replicate n (some []), crashed := List.replicate n false, committed := [],
                             lostReset := [], lostCrash := [], prev := [], lships := [] }
    match c05Run init ((evs.splitOn ";").filter (fun s => !s.isEmpty)) states (parseAeMsgs out) none
        ((out.splitOn "|").map parseResetMark) with
    | .ok s => if s.committed.isEmpty then "skip" else "ok"
    | .error sig => "bad " ++ sig
  | none, _ => "bad unparsable-trace"
  | _, _ => "skip"

/-- C10 on the implementation's trace: a write answered with success is covered by the answering leader's commit
    index, is never discarded by a node that holds it, and is held by every later-term leader; a graceful stop + start
    gives back the same log.  `skip` when no write was answered. -/
def monitorC10 (case out : String) : String :=
  match parseImplTrace out, case.splitOn "|" with
  | some states, [_, evs] =>
    let n := (states.head?.map List.length).getD 0
    let evl := (evs.splitOn ";").filter (fun s => !s.isEmpty)
    -- graceful restart keeps the log: compare the state before `g:N` with the state after the next `up:N`
    let graceful := (evl.zipIdx).all fun (ev, k) =>
      match ev.splitOn ":" with
      | ["g", nn] => match nn.toNat? with
        | some nid =>
          let before := if k == 0 then some [] else ((states[k - 1]?).bind fun st => st[nid - 1]?).bind fun nd => if nd.visible then some nd.log else none
          let crashedLater := ((evl.drop (k + 1)).takeWhile fun e => e != s!"up:{nid}").any fun e => e.startsWith s!"x:{nid}:"
          let upIdx := ((evl.drop (k + 1)).findIdx? fun e => e == s!"up:{nid}").map (· + k + 1)
          match before, upIdx, ((states[k]?).bind fun st => st[nid - 1]?) with
          | some lg, some u, some ndg =>
            if ndg.up || crashedLater then true
            else match (states[u]?).bind fun st => st[nid - 1]? with
              | some nd => !nd.visible || nd.log == lg
              | none => true
          | _, _, _ => true
        | none => true
      | _ => true
    if !graceful then "bad graceful-restart-lost-entries"
    else
      let init : C05State := { lastVis := List.replicate n (some []), crashed := List.replicate n false, committed := [],
                               lostReset := [], lostCrash := [], prev := [], lships := [] }
      match c05Run init evl states (parseAeMsgs out) (some ((out.splitOn "|").map parseAcks))
          ((out.splitOn "|").map parseResetMark) with
      | .ok s => if s.committed.isEmpty then "skip" else "ok"
      | .error sig => "bad " ++ sig
  | none, _ => "bad unparsable-trace"
  | _, _ => "skip"

-- ------------------------------------------------------------------------------------------ C32 monitor
/-- rounds granted for recovery: elections (2n+6) + twice the catch-up distance ((longest log before the heal + 1) / cap, rounded up) -/
def healBound (n cap longest : Nat) : Nat := 2 * n + 6 + 2 * ((longest + cap) / cap)

/-- the recovered predicate (`recovered` of Model/ClusterHeal.lean) on an observed state -/
def obsRecovered (st : List ObsNode) : Bool :=
  let leaders := st.filter fun nd => nd.visible && nd.role == "L"
  match leaders.foldl (fun best nd => match best with
      | none => some nd
      | some b => if nd.term > b.term then some nd else some b) (none : Option ObsNode) with
  | some l => l.commit == lastIndex l.log &&
      st.all fun nd => !nd.up || (nd.visible && nd.log == l.log && nd.term == l.term)
  | none => false

/-- a follower that is up holds less than what the leader believes it has matched: `update_next_index` never goes
    below match_index+1, so the leader can never send it a request it accepts -/
def obsStuckBehindMatch (st : List ObsNode) : Bool :=
  st.any fun l => l.visible && l.role == "L" &&
    l.peers.any fun p => match st[p.1 - 1]? with
      | some f => f.visible && f.role != "L" && f.term == l.term && lastIndex f.log < p.2.2
      | none => false

/-- C32 on the implementation's trace: after `h:K` with K >= 2n+4 fair rounds and a majority of nodes up, the cluster
    has recovered (a leader, every live node has its log, everything committed).  `skip` without such an event. -/
def monitorC32 (case out : String) : String :=
  match parseImplTrace out, case.splitOn "|" with
  | some states, [_, evs] =>
    let evl := (evs.splitOn ";").filter (fun s => !s.isEmpty)
    let n := (states.head?.map List.length).getD 0
    let cap := (natField (fields ((case.splitOn "|").headD "")) "cap").getD 1
    let verdicts := ((evl.zip states).zipIdx).filterMap fun ((ev, st), idx) =>
      match ev.splitOn ":" with
      | ["h", k] => match k.toNat? with
        | some k =>
          let before := if idx == 0 then [] else (states[idx - 1]?).getD []
          let longest := (before.map fun nd => nd.log.length).foldl max 0
          if k ≥ healBound n cap longest && (st.filter (·.up)).length * 2 > n then
            some (if obsRecovered st then "ok"
                  else if obsStuckBehindMatch st then "bad stuck-behind-match-floor" else "bad not-recovered")
          else none
        | none => none
      | _ => none
    match verdicts.find? (· != "ok") with
    | some v => v
    | none => if verdicts.isEmpty then "skip" else "ok"
  | none, _ => "bad unparsable-trace"
  | _, _ => "skip"

end DEngine.Cluster
