/-
  M-BUF + reference M-STORE: executable model of `BufferedRaftLog`
  (d-engine-core/src/storage/buffered_raft_log.rs) over an abstract reference `LogStore`
  (map + purge boundary, volatile copy / durable copy), and the plain-log specification it is compared to.

  Rust function                                   → definition here
  ------------------------------------------------------------------------------------------------
  TermSegments::{get,on_append,clear}             → Segs.get / Segs.push,onAppend / (Segs := {})
  update_term_indexes                             → updTermIdx
  remove_range                                    → Buf.removeRange  (+ fixFirst / fixLast)
  insert_to_memory                                → Buf.insertToMemory
  RaftLog::{first_entry_id,last_entry_id,last_log_id,entry_term,first_index_for_term,
            last_index_for_term,get_entries_range,entry,last_entry,is_empty,durable_index}
                                                  → Buf.minIdx/maxIdx, lastLogId, entryTerm, firstIdxForTerm,
                                                    lastIdxForTerm, getRange, entry, lastEntry, isEmpty, durable
  pre_allocate_id_range                           → Buf.alloc
  append_entries                                  → Sys.append
  filter_out_conflicts_and_append (4 paths)       → fcaDecide (decision) / Sys.fcaMain (+ continuation after reset)
  slice::partition_point (std binary search)      → partitionPoint
  purge_logs_up_to                                → Buf.purgeMem / Sys.purgeMain
  reset / reset_internal                          → Buf.resetMem / Sys.resetMain
  flush (short-circuit)                           → Sys.flushMain
  close                                           → Sys.closeMain
  BufferedRaftLog::new                            → Buf.load / Sys.reopen
  batch_processor (one select! iteration per arm) → Sys.ioArm (.notify | .cmd | .timer)
  handle_non_write_cmd                            → Sys.handleCmd
  advance_durable_after_write (+ fetch_max)       → Sys.fsyncAdvance
  reference LogStore (harness SimLogStore)        → Img.persist / replaceRange / purge / reset, Store.flush
  Each decision emits a branch tag (strings collected by the driver).
-/
namespace DEngine.BufLog

structure Entry where
  index : Nat
  term : Nat
  payload : Nat
deriving DecidableEq, Repr, Inhabited

/-! ## Ordered map `index ↦ entry` as a list sorted by index (crossbeam `SkipMap<u64, Entry>`). -/

def insertE (e : Entry) : List Entry → List Entry
  | [] => [e]
  | x :: xs =>
    if e.index < x.index then e :: x :: xs
    else if e.index = x.index then e :: xs
    else x :: insertE e xs

def insertAll (m : List Entry) : List Entry → List Entry
  | [] => m
  | e :: es => insertAll (insertE e m) es

def lookup (m : List Entry) (i : Nat) : Option Entry := m.find? (fun e => e.index == i)

def inRange (a b : Nat) (e : Entry) : Bool := a ≤ e.index && e.index ≤ b

def rangeE (m : List Entry) (a b : Nat) : List Entry := m.filter (inRange a b)

def removeE (m : List Entry) (a b : Nat) : List Entry := m.filter (fun e => !inRange a b e)

def firstIdx (m : List Entry) : Nat := match m.head? with | some e => e.index | none => 0

def lastIdx (m : List Entry) : Nat := match m.getLast? with | some e => e.index | none => 0

def lastId (es : List Entry) : Option (Nat × Nat) := es.getLast?.map fun e => (e.index, e.term)

/-! ## Association lists `term ↦ index` (`term_first_index`, `term_last_index`). -/

def amGet (m : List (Nat × Nat)) (k : Nat) : Option Nat := (m.find? (fun p => p.1 == k)).map (·.2)

def amErase (m : List (Nat × Nat)) (k : Nat) : List (Nat × Nat) := m.filter (fun p => !(p.1 == k))

def amSet (m : List (Nat × Nat)) (k v : Nat) : List (Nat × Nat) := (k, v) :: amErase m k

/-- `update_term_indexes` for one entry: `fetch_min` on first, `fetch_max` on last. -/
def updTermIdx1 (tf tl : List (Nat × Nat)) (e : Entry) : List (Nat × Nat) × List (Nat × Nat) :=
  let f := match amGet tf e.term with | some v => min v e.index | none => e.index
  let l := match amGet tl e.term with | some v => max v e.index | none => e.index
  (amSet tf e.term f, amSet tl e.term l)

def updTermIdx (tf tl : List (Nat × Nat)) : List Entry → List (Nat × Nat) × List (Nat × Nat)
  | [] => (tf, tl)
  | e :: es => let (tf', tl') := updTermIdx1 tf tl e; updTermIdx tf' tl' es

/-! ## TermSegments -/

def maxSegs : Nat := 1024

structure Segs where
  lastTerm : Nat := 0
  lastStart : Nat := 0
  count : Nat := 0
  /-- archived `(start, term)` in slot order; slots ≥ 1024 are never written -/
  arch : List (Nat × Nat) := []
deriving DecidableEq, Repr, Inhabited

/-- reverse scan of the archived segments: the most recently archived one whose start is ≤ `i`. -/
def scanArch (arch : List (Nat × Nat)) (i : Nat) : Option Nat :=
  (arch.reverse.find? (fun p => p.1 ≤ i)).map (·.2)

/-- `TermSegments::get`; once more segments were archived than the arrays hold (`seg_count > 1024`, the later ones
    were dropped) the cold path answers `None` and `entry_term` falls back to the SkipMap -/
def Segs.get (s : Segs) (i : Nat) : Option Nat :=
  if s.lastTerm = 0 then none
  else if s.lastStart ≤ i then some s.lastTerm
  else if maxSegs < s.count then none
  else scanArch s.arch i

def Segs.push (s : Segs) (e : Entry) : Segs :=
  if e.term = s.lastTerm then
    (if e.index < s.lastStart then { s with lastStart := e.index } else s)
  else if s.lastTerm = 0 then { s with lastStart := e.index, lastTerm := e.term }
  else { lastTerm := e.term, lastStart := e.index, count := s.count + 1,
         arch := if s.count < maxSegs then s.arch ++ [(s.lastStart, s.lastTerm)] else s.arch }

def Segs.onAppend (s : Segs) : List Entry → Segs
  | [] => s
  | e :: es => Segs.onAppend (s.push e) es

/-! ## In-memory part of `BufferedRaftLog` -/

structure Buf where
  mem : List Entry := []
  minIdx : Nat := 0
  maxIdx : Nat := 0
  nextId : Nat := 1
  durable : Nat := 0
  purgedI : Nat := 0
  purgedT : Nat := 0
  tfirst : List (Nat × Nat) := []
  tlast : List (Nat × Nat) := []
  segs : Segs := {}
deriving Repr, Inhabited

namespace Buf

def entry (b : Buf) (i : Nat) : Option Entry := lookup b.mem i

def lastEntry (b : Buf) : Option Entry := if b.maxIdx > 0 then b.entry b.maxIdx else none

def lastLogId (b : Buf) : Option (Nat × Nat) :=
  if b.maxIdx > 0 then (b.entry b.maxIdx).map fun e => (e.index, e.term)
  else if b.purgedI > 0 then some (b.purgedI, b.purgedT) else none

def isEmpty (b : Buf) : Bool := b.mem.isEmpty

def entryTerm (b : Buf) (i : Nat) : Option Nat :=
  if b.maxIdx = 0 ∨ i < b.minIdx ∨ b.maxIdx < i then
    (if b.purgedI > 0 ∧ i = b.purgedI then some b.purgedT else none)
  else match b.segs.get i with
    | some t => some t
    | none => (lookup b.mem i).map (·.term)

def firstIdxForTerm (b : Buf) (t : Nat) : Option Nat := amGet b.tfirst t
def lastIdxForTerm (b : Buf) (t : Nat) : Option Nat := amGet b.tlast t
def getRange (b : Buf) (lo hi : Nat) : List Entry := rangeE b.mem lo hi

/-- `pre_allocate_id_range(count)`: `fetch_add`; `none` is the "empty range" for count 0. -/
def alloc (b : Buf) (n : Nat) : Buf × Option (Nat × Nat) :=
  if n = 0 then (b, none) else ({ b with nextId := b.nextId + n }, some (b.nextId, b.nextId + n - 1))

/-- `insert_to_memory` -/
def insertToMemory (b : Buf) (es : List Entry) : Buf :=
  let mem := insertAll b.mem es
  let (tf, tl) := updTermIdx b.tfirst b.tlast es
  let segs := b.segs.onAppend es
  let maxI := es.foldl (fun a e => max a e.index) 0
  let nextId := if b.nextId ≤ maxI then maxI + 1 else b.nextId
  let minIdx := match es.head? with
    | some f => if f.index < b.minIdx ∨ b.minIdx = 0 then f.index else b.minIdx
    | none => b.minIdx
  let maxIdx := match es.getLast? with
    | some l => if b.maxIdx < l.index then l.index else b.maxIdx
    | none => b.maxIdx
  { b with mem := mem, tfirst := tf, tlast := tl, segs := segs, nextId := nextId, minIdx := minIdx, maxIdx := maxIdx }

/-- the per-term fix-up of `term_first_index` in `remove_range` -/
def fixFirst (mem' removed : List Entry) (tf : List (Nat × Nat)) (t : Nat) : List (Nat × Nat) :=
  match amGet tf t, removed.find? (fun e => e.term == t) with
  | some cur, some rmin =>
    if rmin.index ≤ cur then
      (match mem'.find? (fun e => e.term == t) with
       | some e => amSet tf t e.index
       | none => amErase tf t)
    else tf
  | _, _ => tf

def fixLast (mem' removed : List Entry) (tl : List (Nat × Nat)) (t : Nat) : List (Nat × Nat) :=
  match amGet tl t, removed.reverse.find? (fun e => e.term == t) with
  | some cur, some rmax =>
    if cur ≤ rmax.index then
      (match mem'.reverse.find? (fun e => e.term == t) with
       | some e => amSet tl t e.index
       | none => amErase tl t)
    else tl
  | _, _ => tl

/-- `remove_range`, for an arbitrary set `rm` of keys to remove -/
def removeBy (b : Buf) (rm : Entry → Bool) : Buf :=
  let removed := b.mem.filter rm
  let mem' := b.mem.filter (fun e => !rm e)
  let terms := (removed.map (·.term)).eraseDups
  let tf := terms.foldl (fixFirst mem' removed) b.tfirst
  let tl := terms.foldl (fixLast mem' removed) b.tlast
  { b with mem := mem', tfirst := tf, tlast := tl, minIdx := firstIdx mem', maxIdx := lastIdx mem' }

/-- `remove_range(lo..=hi)` -/
def removeRange (b : Buf) (lo hi : Nat) : Buf := b.removeBy (inRange lo hi)

/-- `remove_range(d..=u64::MAX)`: every key from `d` on (keys are `u64`) -/
def removeFrom (b : Buf) (d : Nat) : Buf := b.removeBy (fun e => d ≤ e.index)

/-- memory part of `purge_logs_up_to` (everything before the `IOTask::Purge` is sent) -/
def purgeMem (b : Buf) (ci ct : Nat) : Buf :=
  let b := b.removeRange 0 ci
  let b := { b with minIdx := firstIdx b.mem, maxIdx := lastIdx b.mem }
  let b := if b.durable ≤ ci then { b with durable := ci } else b
  { b with purgedT := ct, purgedI := ci }

/-- memory part of `reset_internal` -/
def resetMem (b : Buf) : Buf :=
  { b with mem := [], durable := 0, nextId := 1, minIdx := 0, maxIdx := 0, tfirst := [], tlast := [], segs := {} }

end Buf

/-! ## `filter_out_conflicts_and_append`: the decision -/

/-- `slice::partition_point` = `binary_search_by` of std (size-halving loop, then one final probe). -/
def bsLoop (f : Nat → Bool) : Nat → Nat → Nat → Nat
  | 0, _, base => base
  | fuel + 1, size, base =>
    if 1 < size then
      let half := size / 2
      let mid := base + half
      bsLoop f fuel (size - half) (if f mid then mid else base)
    else base

def partitionPoint (es : List Entry) (p : Entry → Bool) : Nat :=
  if es.isEmpty then 0
  else
    let f := fun i => match es[i]? with | some e => p e | none => false
    let base := bsLoop f es.length es.length 0
    base + (if f base then 1 else 0)

inductive FcaPlan where
  | reset                                   -- prev = (0,0): reset, then append everything
  | mismatch                                -- prev does not match: no change, answer last_log_id
  | noop                                    -- nothing to append (fast path with empty tail / slow path all matched)
  | appendTail (tail : List Entry)          -- append_entries(tail)
  | replace (d : Nat) (tail : List Entry)  -- conflict: truncate from `d`, insert tail, ReplaceRange
deriving Repr, DecidableEq

/-- position of the first entry that is beyond the end or whose term differs (slow path scan) -/
def divergePos (b : Buf) : List Entry → Option Nat
  | [] => none
  | e :: es =>
    if b.maxIdx < e.index ∨ b.entryTerm e.index ≠ some e.term then some 0
    else (divergePos b es).map (· + 1)

/-- Step 2 of the source: may the whole overlap be skipped? (two loads from `TermSegments`) -/
def overlapSafe (b : Buf) (overlap : List Entry) : Bool :=
  match overlap.head? with
  | none => true
  | some first =>
    decide (b.segs.lastStart ≤ first.index) && first.term == b.segs.lastTerm &&
    (match overlap.getLast? with | some l => l.term == b.segs.lastTerm | none => true)

/-- slow path: scan for the first entry beyond the end or with a different term -/
def fcaSlow (b : Buf) (es : List Entry) : FcaPlan × String :=
  match divergePos b es with
  | none => (.noop, "fca-slow-all-match")
  | some pos =>
    match es.drop pos with
    | [] => (.noop, "fca-slow-all-match")   -- unreachable: pos < length
    | d :: rest =>
      if d.index ≤ b.maxIdx then (.replace d.index (d :: rest), "fca-slow-conflict")
      else (.appendTail (d :: rest), "fca-slow-append")

/-- prev matched: `partition_point`, overlap test, fast or slow path -/
def fcaMatched (b : Buf) (es : List Entry) : FcaPlan × String :=
  let skip := partitionPoint es (fun e => decide (e.index ≤ b.maxIdx))
  if overlapSafe b (es.take skip) then
    (if (es.drop skip).isEmpty then (.noop, "fca-fast-noop") else (.appendTail (es.drop skip), "fca-fast-append"))
  else fcaSlow b es

def fcaDecide (b : Buf) (prevI prevT : Nat) (es : List Entry) : FcaPlan × String :=
  if prevI = 0 ∧ prevT = 0 then (.reset, "fca-reset")
  else if b.entryTerm prevI ≠ some prevT then (.mismatch, "fca-prev-mismatch")
  else fcaMatched b es

/-- memory part of the conflict branch, in source order -/
def Buf.replaceMem (b : Buf) (d : Nat) (tail : List Entry) : Buf :=
  let b := b.removeFrom d
  let b := { b with nextId := d }
  let b := { b with durable := min b.durable (d - 1) }
  b.insertToMemory tail

/-! ## Reference store -/

structure Img where
  ents : List Entry := []
  boundary : Option (Nat × Nat) := none
deriving Repr, Inhabited, DecidableEq

structure Store where
  v : Img := {}
  d : Img := {}
deriving Repr, Inhabited

def Img.persist (g : Img) (es : List Entry) : Img := { g with ents := insertAll g.ents es }
def Img.replaceRange (g : Img) (d : Nat) (es : List Entry) : Img :=
  { g with ents := insertAll (g.ents.filter (fun e => e.index < d)) es }
def Img.purge (g : Img) (ci ct : Nat) (keepBoundary : Bool) : Img :=
  { ents := g.ents.filter (fun e => ci < e.index), boundary := if keepBoundary then some (ci, ct) else g.boundary }
def Img.reset (g : Img) : Img := { g with ents := [] }
def Img.lastIndex (g : Img) : Nat := lastIdx g.ents

/-! ### `FileLogStore` at record level (d-engine-server/src/storage/adaptors/file/file_storage_engine.rs)
`log.data` is a sequence of records in write order; `index_end_pos` maps an index to the end of its latest record;
`truncate`/`replace_range` cut the file at the end of the last record *before* `from_index`; `load_from_file` replays
the records, the last record of an index wins. Positions are counted in records (all records of a well-formed
stream have the same length). The in-memory `entries` map of the store is the reference image `Store.v`. -/

structure FileImg where
  recs : List Entry := []
  endPos : List (Nat × Nat) := []
deriving Repr, Inhabited, DecidableEq

def FileImg.appendRec (f : FileImg) (e : Entry) : FileImg :=
  let recs := f.recs ++ [e]
  { recs := recs, endPos := amSet f.endPos e.index recs.length }

def FileImg.persist (f : FileImg) : List Entry → FileImg
  | [] => f
  | e :: es => FileImg.persist (f.appendRec e) es

/-- `end_pos_before(from)`: end position of the largest index below `from` (0 if none) -/
def endPosBefore (ep : List (Nat × Nat)) (d : Nat) : Nat :=
  match (ep.filter (fun p => p.1 < d)).foldl (fun (best : Option (Nat × Nat)) p =>
      match best with | some b => if b.1 < p.1 then some p else some b | none => some p) none with
  | some b => b.2
  | none => 0

def FileImg.replaceRange (f : FileImg) (d : Nat) (es : List Entry) : FileImg :=
  let cut := endPosBefore f.endPos d
  FileImg.persist { recs := f.recs.take cut, endPos := f.endPos.filter (fun p => p.1 < d) } es

/-- `purge`: the file is rewritten from the kept entries of the in-memory map, in index order -/
def FileImg.rewrite (kept : List Entry) : FileImg := FileImg.persist {} kept

/-- `load_from_file`: (entries map, rebuilt position index) -/
def FileImg.reload (f : FileImg) : List Entry × FileImg := (insertAll [] f.recs, FileImg.persist {} f.recs)

/-- `BufferedRaftLog::new`: load `1..=last_index`, rebuild the indexes, restore the purge boundary. -/
def Buf.load (g : Img) : Buf :=
  let diskLen := g.lastIndex
  let loaded := if diskLen > 0 then rangeE g.ents 1 diskLen else []
  let mem := insertAll [] loaded
  let (tf, tl) := updTermIdx [] [] loaded
  let segs := ({} : Segs).onAppend loaded
  let (pi, pt) := match g.boundary with | some p => p | none => (0, 0)
  { mem := mem, minIdx := firstIdx mem, maxIdx := lastIdx mem, nextId := diskLen + 1, durable := diskLen,
    purgedI := pi, purgedT := pt, tfirst := tf, tlast := tl, segs := segs }

/-! ## IO task -/

inductive IOCmd where
  | replace (d : Nat) (es : List Entry)
  | purge (ci ct : Nat)
  | reset
  | flush
  | shutdown
deriving Repr, DecidableEq

inductive Arm where | notify | cmd | timer
deriving Repr, DecidableEq

structure Sys where
  buf : Buf := {}
  store : Store := {}
  queue : List IOCmd := []
  notify : Bool := false
  timerDue : Bool := false
  pendingMax : Nat := 0
  alive : Bool := true
  /-- engine flavour: does the store persist the purge boundary (reference store: yes, FileLogStore: no) -/
  keepBoundary : Bool := true
  /-- `some` = the store is the real `FileLogStore` (record-level image of `log.data`) -/
  file : Option FileImg := none
deriving Repr, Inhabited

namespace Sys

def stPersist (s : Sys) (es : List Entry) : Sys :=
  { s with store := { s.store with v := s.store.v.persist es }, file := s.file.map (·.persist es) }
def stReplace (s : Sys) (d : Nat) (es : List Entry) : Sys :=
  { s with store := { s.store with v := s.store.v.replaceRange d es }, file := s.file.map (·.replaceRange d es) }
def stPurge (s : Sys) (ci ct : Nat) : Sys :=
  let v := s.store.v.purge ci ct s.keepBoundary
  { s with store := { s.store with v := v }, file := s.file.map (fun _ => FileImg.rewrite v.ents) }
def stReset (s : Sys) : Sys :=
  { s with store := { s.store with v := s.store.v.reset }, file := s.file.map (fun _ => {}) }

/-- persist `(durable, max]` (the common prologue of the three arms) -/
def persistPending (s : Sys) : Sys :=
  let hi := s.buf.maxIdx
  let lo := s.buf.durable + 1
  if lo ≤ hi then
    let es := s.buf.getRange lo hi
    if es.isEmpty then s
    else { s.stPersist es with pendingMax := max s.pendingMax hi }
  else s

/-- `handle_non_write_cmd` (the reference store never fails) -/
def handleCmd (s : Sys) : IOCmd → Sys
  | .replace d es =>
    -- both watermarks are lowered below the truncation point first (fix 95c6d63), then the store is rewritten
    let below := d - 1
    let s := { s with pendingMax := min s.pendingMax below, buf := { s.buf with durable := min s.buf.durable below } }
    let maxI := match es.getLast? with | some e => e.index | none => 0
    { s.stReplace d es with pendingMax := if maxI > 0 then max s.pendingMax maxI else s.pendingMax }
  | .purge ci ct => s.stPurge ci ct
  | .reset => { s.stReset with pendingMax := 0 }
  | _ => s

/-- `advance_durable_after_write(pending_max)`: `flush()` then `fetch_max`; then `pending_max = 0` -/
def fsyncAdvance (s : Sys) : Sys :=
  if s.pendingMax > 0 then
    { s with store := { s.store with d := s.store.v }, buf := { s.buf with durable := max s.buf.durable s.pendingMax },
             pendingMax := 0 }
  else s

/-- the drain loop `while let Ok(cmd) = receiver.try_recv()`: returns (state, seen_shutdown, saw_flush) -/
def drain : Sys → List IOCmd → Bool → Sys × Bool × Bool
  | s, [], fl => ({ s with queue := [] }, false, fl)
  | s, .shutdown :: rest, fl => ({ s with queue := rest }, true, fl)
  | s, .flush :: rest, _ => drain s rest true
  | s, c :: rest, fl => drain (s.handleCmd c) rest fl

def shutdownTail (s : Sys) (seen : Bool) : Sys :=
  if seen then { s with store := { s.store with d := s.store.v }, alive := false } else s

/-- one iteration of `batch_processor`'s `select!` loop, for the given ready arm -/
def ioArm (s : Sys) : Arm → Sys
  | .notify =>
    let s := { s with notify := false }
    let s := s.persistPending
    let (s, seen, fl) := drain s s.queue false
    -- catch-up persist for Flush callers
    let s := if fl then
        (let cur := s.buf.maxIdx
         if s.pendingMax < cur then
           (let es := s.buf.getRange (s.pendingMax + 1) cur
            if es.isEmpty then s
            else { s.stPersist es with pendingMax := cur })
         else s)
      else s
    let s := s.fsyncAdvance
    s.shutdownTail seen
  | .timer =>
    let s := { s with timerDue := false }
    let s := s.persistPending
    s.fsyncAdvance
  | .cmd =>
    match s.queue with
    | [] => s
    | .shutdown :: rest =>
      let s := { s with queue := rest }
      let s := s.persistPending
      let s := s.fsyncAdvance
      s.shutdownTail true
    | .flush :: rest =>
      let s := { s with queue := rest }
      let s := s.persistPending
      let (s, seen, _) := drain s s.queue false
      let s := s.fsyncAdvance
      s.shutdownTail seen
    | c :: rest => ({ s with queue := rest }).handleCmd c

def armEnabled (s : Sys) : Arm → Bool
  | .notify => s.alive && s.notify
  | .cmd => s.alive && !s.queue.isEmpty
  | .timer => s.alive && s.timerDue

/-- the first arm of `prio` that is ready -/
def pickArm (s : Sys) : List Arm → Option Arm
  | [] => none
  | a :: rest => if s.armEnabled a then some a else pickArm s rest

/-- a notify / timer arm that finds a command queued does nothing but step aside: the notify arm hands its
    wake-up back, the timer arm skips its tick (fixes 5a41097 + 33a6e3d) -/
def bounce (s : Sys) : Arm → Sys
  | .timer => { s with timerDue := false }
  | _ => s

/-- Poll the IO loop: it iterates until no arm is ready. Where several arms are ready `select!` picks at random;
    `prio` says which order is meant (the harness re-runs the case until the real loop took that order). With a
    command queued, a notify / timer arm that wins steps aside and the command arm runs next. -/
def ioRunN : Nat → Sys → List Arm → Sys
  | 0, s, _ => s
  | n + 1, s, prio =>
    match s.pickArm prio with
    | some a =>
      if a ≠ .cmd ∧ s.queue ≠ [] then ioRunN n ((s.bounce a).ioArm .cmd) prio
      else ioRunN n (s.ioArm a) prio
    | none => s

def ioRun (s : Sys) (prio : List Arm) : Sys := ioRunN 8 s prio

/-- `command_sender.send(task)`: fails once the IO loop has exited (receiver dropped) -/
def enqueue (s : Sys) (c : IOCmd) : Option Sys :=
  if s.alive then some { s with queue := s.queue ++ [c] } else none

/-! ### main-thread operations (memory part + enqueue); the caller then waits for the IO loop -/

def append (s : Sys) (es : List Entry) : Sys :=
  if es.isEmpty then s else { s with buf := s.buf.insertToMemory es, notify := true }

/-- `reset()`: memory part, then `IOTask::Reset`. `none` = the send failed. -/
def resetMain (s : Sys) : Option Sys := ({ s with buf := s.buf.resetMem }).enqueue .reset

def purgeMain (s : Sys) (ci ct : Nat) : Option Sys :=
  ({ s with buf := s.buf.purgeMem ci ct }).enqueue (.purge ci ct)

/-- `flush()`: `some (s, waits)`; `none` = send failed -/
def flushMain (s : Sys) : Option (Sys × Bool) :=
  if s.buf.maxIdx = 0 then some (s, false)
  else if s.buf.maxIdx ≤ s.buf.durable then some (s, false)
  else (s.enqueue .flush).map (·, true)

def closeMain (s : Sys) : Sys := match s.enqueue .shutdown with | some s' => s' | none => s

/-- `BufferedRaftLog::new` over the image that survived the crash -/
def reopen (s : Sys) (power : Bool) : Sys :=
  match s.file with
  | none =>
    let img := if power then s.store.d else s.store.v
    -- `new` fsyncs what it finds before reporting it durable (fix 466194e)
    { buf := Buf.load img, store := { v := img, d := if img.lastIndex > 0 then img else s.store.d },
      keepBoundary := s.keepBoundary }
  | some f =>
    let (ents, f') := f.reload
    let img : Img := { ents := ents, boundary := s.store.v.boundary }  -- purge_boundary.bin (fix aab5543)
    { buf := Buf.load img, store := { v := img, d := s.store.d }, keepBoundary := s.keepBoundary, file := some f' }

end Sys

/-! ## Operations of a case (what the harness executes) and their results -/

/-- scheduling annotation of an operation that may poll the IO loop -/
structure Sched where
  /-- the clock is advanced by the idle interval before the operation (a timer tick is due) -/
  clock : Bool := false
  /-- order in which ready arms of the IO loop's `select!` run -/
  prio : List Arm := [.cmd, .notify, .timer]
deriving Repr, DecidableEq

inductive Op where
  | append (es : List Entry)
  | fca (prevI prevT : Nat) (es : List Entry) (sch : Sched)
  | purge (ci ct : Nat) (sch : Sched)
  | reset (sch : Sched)
  | flush (sch : Sched)
  | alloc (n : Nat)
  | get (lo hi : Nat)
  | io (sch : Sched)
  | close (sch : Sched)
  | crash (power : Bool)
deriving Repr, DecidableEq

inductive Res where
  | ok | err
  | fcaRes (r : Option (Nat × Nat))
  | range (r : Option (Nat × Nat))
  | ents (es : List Entry)
deriving Repr, DecidableEq

/-- the clock is advanced before the operation -/
def preClock (s : Sys) (sch : Sched) : Sys := if sch.clock then { s with timerDue := true } else s

/-- when the clock was advanced the harness polls the IO loop at the end of the operation even if the operation did
    not wait, so that the due timer tick never leaks into the next operation -/
def postClock (s : Sys) (sch : Sched) : Sys := if sch.clock then s.ioRun sch.prio else s

/-- Execute one case operation: main-thread part, then (if it waits) the IO loop polled until idle. -/
def execOp (s : Sys) : Op → Sys × Res × String
  | .append es => (s.append es, .ok, if es.isEmpty then "append-empty" else "append")
  | .fca prevI prevT es sch =>
    let s := preClock s sch
    match fcaDecide s.buf prevI prevT es with
    | (.reset, tag) =>
      (match s.resetMain with
       | none => (postClock { s with buf := s.buf.resetMem } sch, .err, tag ++ "-dead")
       | some s1 =>
         let s2 := s1.ioRun sch.prio
         (postClock (s2.append es) sch, .fcaRes (lastId es), tag))
    | (.mismatch, tag) => (postClock s sch, .fcaRes s.buf.lastLogId, tag)
    | (.noop, tag) => (postClock s sch, .fcaRes (lastId es), tag)
    | (.appendTail tail, tag) => (postClock (s.append tail) sch, .fcaRes (lastId tail), tag)
    | (.replace d tail, tag) =>
      let s1 := { s with buf := s.buf.replaceMem d tail }
      (match s1.enqueue (.replace d tail) with
       | none => (postClock s1 sch, .err, tag ++ "-dead")
       | some s2 => (postClock (s2.ioRun sch.prio) sch, .fcaRes (lastId tail), tag))
  | .purge ci ct sch =>
    let s := preClock s sch
    (match s.purgeMain ci ct with
     | none => (postClock { s with buf := s.buf.purgeMem ci ct } sch, .err, "purge-dead")
     | some s1 => (postClock (s1.ioRun sch.prio) sch, .ok, "purge"))
  | .reset sch =>
    let s := preClock s sch
    (match s.resetMain with
     | none => (postClock { s with buf := s.buf.resetMem } sch, .err, "reset-dead")
     | some s1 => (postClock (s1.ioRun sch.prio) sch, .ok, "reset"))
  | .flush sch =>
    let s := preClock s sch
    (match s.flushMain with
     | none => (postClock s sch, .err, "flush-dead")
     | some (s1, false) => (postClock s1 sch, .ok, "flush-short-circuit")
     | some (s1, true) => (postClock (s1.ioRun sch.prio) sch, .ok, "flush-io"))
  | .alloc n => let (b, r) := s.buf.alloc n; ({ s with buf := b }, .range r, "alloc")
  | .get lo hi => (s, .ents (s.buf.getRange lo hi), "get")
  | .io sch =>
    let s1 := preClock s sch
    (s1.ioRun sch.prio, .ok,
      if sch.clock then "io-timer" else if s.armEnabled .notify then "io-notify" else "io-idle")
  | .close sch =>
    let s1 := preClock s sch
    (s1.closeMain.ioRun sch.prio, .ok, if s.alive then "close" else "close-dead")
  | .crash power => (s.reopen power, .ok, if power then "crash-power" else "crash-process")

/-! ## Plain-log specification (L4): a list of entries above an anchor, textbook rules -/

structure Plain where
  anchorI : Nat := 0
  anchorT : Nat := 0
  ents : List Entry := []
deriving Repr, Inhabited, DecidableEq

namespace Plain

def first (p : Plain) : Nat := firstIdx p.ents
def last (p : Plain) : Nat := lastIdx p.ents

def lastLogId (p : Plain) : Option (Nat × Nat) :=
  match p.ents.getLast? with
  | some e => some (e.index, e.term)
  | none => if p.anchorI > 0 then some (p.anchorI, p.anchorT) else none

def entTerm (p : Plain) (i : Nat) : Option Nat := (lookup p.ents i).map (·.term)

def termAt (p : Plain) (i : Nat) : Option Nat :=
  match p.entTerm i with
  | some t => some t
  | none => if p.anchorI > 0 ∧ i = p.anchorI then some p.anchorT else none

def firstIdxForTerm (p : Plain) (t : Nat) : Option Nat := (p.ents.find? (fun e => e.term == t)).map (·.index)
def lastIdxForTerm (p : Plain) (t : Nat) : Option Nat := (p.ents.reverse.find? (fun e => e.term == t)).map (·.index)
def getRange (p : Plain) (lo hi : Nat) : List Entry := rangeE p.ents lo hi

def append (p : Plain) (es : List Entry) : Plain := { p with ents := p.ents ++ es }
def purge (p : Plain) (ci ct : Nat) : Plain :=
  { anchorI := ci, anchorT := ct, ents := p.ents.filter (fun e => ci < e.index) }
def reset (p : Plain) : Plain := { p with ents := [] }

/-- the suffix of the request starting at the first entry that the log does not already hold -/
def firstNew (p : Plain) : List Entry → List Entry
  | [] => []
  | e :: es => if p.entTerm e.index = some e.term then firstNew p es else e :: es

/-- Raft's AppendEntries receiver rule (with the repository's `prev = (0,0)` wipe convention). -/
def fca (p : Plain) (prevI prevT : Nat) (es : List Entry) : Plain × Option (Nat × Nat) :=
  if prevI = 0 ∧ prevT = 0 then ({ p with ents := es }, lastId es)
  else if p.termAt prevI ≠ some prevT then (p, p.lastLogId)
  else match firstNew p es with
    | [] => (p, lastId es)
    | e :: rest => ({ p with ents := p.ents.filter (fun x => x.index < e.index) ++ (e :: rest) }, lastId es)

end Plain

/-! ## Well-formedness of what is handed to the log (decidable, evaluated on the specification state) -/

/-- consecutive indexes starting at `i` -/
def contigFrom : Nat → List Entry → Bool
  | _, [] => true
  | i, e :: es => e.index == i && contigFrom (i + 1) es

def termsPos (es : List Entry) : Bool := es.all (fun e => 0 < e.term)

def termsMono : List Entry → Bool
  | [] => true
  | [_] => true
  | a :: b :: rest => a.term ≤ b.term && termsMono (b :: rest)

/-- next index a contiguous log expects -/
def Plain.next (p : Plain) : Nat := if p.ents.isEmpty then p.anchorI + 1 else p.last + 1

def wfOp (p : Plain) : Op → Bool
  | .append es => contigFrom p.next es && termsPos es
  | .fca prevI prevT es _ =>
    if prevI = 0 ∧ prevT = 0 then contigFrom (p.anchorI + 1) es && termsPos es
    else contigFrom (prevI + 1) es && termsPos es && termsMono es
  | .purge ci _ _ => p.anchorI ≤ ci
  | .crash _ => false
  | .close _ => false
  | _ => true

/-- strictly increasing indexes, the first one above `lo` -/
def incrAbove : Nat → List Entry → Bool
  | _, [] => true
  | lo, e :: es => decide (lo < e.index) && incrAbove e.index es

/-- The weaker reading of "what Raft hands to the log": indexes strictly increasing and above what is there,
    terms ≥ 1 (and non-decreasing inside an AppendEntries request) — gaps between indexes are not excluded. -/
def wfOpWeak (p : Plain) : Op → Bool
  | .append es => incrAbove (if p.ents.isEmpty then p.anchorI else p.last) es && termsPos es
  | .fca prevI prevT es _ =>
    if prevI = 0 ∧ prevT = 0 then incrAbove p.anchorI es && termsPos es
    else incrAbove prevI es && termsPos es && termsMono es
  | .purge ci _ _ => p.anchorI ≤ ci
  | .crash _ => false
  | .close _ => false
  | _ => true

def Plain.exec (p : Plain) : Op → Plain × Res
  | .append es => (p.append es, .ok)
  | .fca prevI prevT es _ => let (p', r) := p.fca prevI prevT es; (p', .fcaRes r)
  | .purge ci ct _ => (p.purge ci ct, .ok)
  | .reset _ => (p.reset, .ok)
  | .get lo hi => (p, .ents (p.getRange lo hi))
  | _ => (p, .ok)

/-! ## Runs -/

/-- every operation is well-formed in the specification state it meets -/
def wfRun : Plain → List Op → Bool
  | _, [] => true
  | p, op :: ops => wfOp p op && wfRun (p.exec op).1 ops

def wfRunWeak : Plain → List Op → Bool
  | _, [] => true
  | p, op :: ops => wfOpWeak p op && wfRunWeak (p.exec op).1 ops

def Sys.run : Sys → List Op → Sys × List Res
  | s, [] => (s, [])
  | s, op :: ops =>
    let (s', r, _) := execOp s op
    let (s'', rs) := Sys.run s' ops
    (s'', r :: rs)

def Plain.run : Plain → List Op → Plain × List Res
  | p, [] => (p, [])
  | p, op :: ops =>
    let (p', r) := p.exec op
    let (p'', rs) := Plain.run p' ops
    (p'', r :: rs)

/-- the results that are observations of the log (conflict-aware append, range read) must be equal -/
def resAgree : Op → Res → Res → Bool
  | .fca .., r, r' => r == r'
  | .get .., r, r' => r == r'
  | _, _, _ => true

def resAgreeAll : List Op → List Res → List Res → Bool
  | [], [], [] => true
  | op :: ops, r :: rs, r' :: rs' => resAgree op r r' && resAgreeAll ops rs rs'
  | _, _, _ => false

end DEngine.BufLog
