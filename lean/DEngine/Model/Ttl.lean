import DEngine.Model.MiniKv
/-
  M-TTL — key expiry (C23), family `ttl`.  Logical clock in whole seconds (hook
  `d_engine_server::storage::verif_clock`, guard `--cfg d_engine_verif`).

  What is modelled (Rust file + fn) — as the code is NOW (with fix F21 in):
  * `St.lease` + `register/unregister`  — d-engine-server/src/storage/lease.rs `TtlLease::{register (overwrite,
        expire_at = now + ttl), unregister}` (`key_to_expiry`; `has_keys` has no observable effect: an empty
        table already yields "nothing expired").
  * `expiredKeys`, `mayHaveExpired`, `cleanup` — lease.rs `get_expired_keys` (`expire_at <= now`, removed from
        the table), `may_have_expired_keys` (since fix F47: scans until the first due entry, i.e.
        "some entry is due"; before, it sampled the first 10 entries of the DashMap iteration),
        `lease_background_cleanup` of both engines
        (fast paths; delete expired keys from the data; File engine then `persist_data_async`).
  * `reload`                            — lease.rs `TtlLease::reload` / `from_snapshot`: table := entries of
        the snapshot with `expire_at > now` (expired entries are dropped; the data is not touched).
  * `step (.put/.del/.cas)`             — `apply_chunk` of file_state_machine.rs and rocksdb_state_machine.rs:
        Insert{ttl: Some t} registers with `t` clamped to `MAX_TTL_SECS` (1000 years; fix F40 — before,
        `now + t` overflowing `SystemTime` panicked inside apply_chunk), Insert{ttl: None} unregisters, Delete unregisters, successful CAS
        unregisters, failed CAS leaves the lease alone; File engine appends a WAL record first
        (`encode_wal_entry`: Insert carries `expire_at` in seconds or 0, successful CAS is written as
        Insert with 0, failed CAS as CasFailed).
  * `replayWal`                         — file_state_machine.rs `replay_wal` as reached from
        `FileStateMachine::new` (i.e. with `self.lease == None`: the lease is injected later by
        `set_lease`): Insert with `expire_at != 0 && now >= expire_at` is skipped (not deleted), other
        Inserts are applied, Delete removes, CasFailed/Noop nothing; then (fix 18b31d1) `checkpoint()`:
        the recovered data is persisted and the WAL cleared (an empty / missing WAL returns early).
  * `step .ckpt`                        — `flush_async` (File: `checkpoint` = persist data + metadata, clear WAL;
        RocksDB: `flush`, no TTL effect).
  * `step .restart`                     — production shutdown path `close_storage()` + `Drop`
        (File: `save_hard_state` → `persist_data`/`persist_metadata`, WAL NOT cleared, ttl_state.bin NOT
        written; RocksDB: `close_db` → `persist_ttl_metadata`), then reopen: `new` (File: `load_data`,
        `replay_wal`), `set_lease(fresh TtlLease)`, `start()` → `load_lease_data` (`reload` of
        ttl_state.bin / TTL_STATE_KEY if present).
  * `step .srestart`                    — same with `StateMachine::stop()` called first (File: writes
        ttl_state.bin; RocksDB: `persist_ttl_metadata`).
  * `step .crash`                       — process exit without Drop (harness: copy of the data directory),
        then reopen as above.
  * `step .snap / .install`             — `generate_snapshot_data` (data + `lease.to_snapshot()`), and
        `apply_snapshot_from_file` on the same engine.  RocksDB: data := snapshot, `lease.reload(ttl_state.bin)`,
        `persist_ttl_metadata`.  File: data := snapshot, persisted, WAL cleared, `lease.reload` of the
        snapshot's lease section (since fix F45: an incomplete record rewinds to its start; before, the
        record loop swallowed the lease section and the reload branch was dead); ttl_state.bin not written.
-/
namespace DEngine.Ttl
open DEngine.MiniKv

inductive Eng where
  | file | rocks
deriving DecidableEq, Repr, Inhabited

inductive Op where
  | put (k v : Nat) (ttl : Option Nat)
  | del (k : Nat)
  | cas (k : Nat) (expected : Option Nat) (v : Nat)
  | adv (n : Nat)
  | cleanup
  | get (k : Nat)
  | ckpt
  | restart
  | srestart
  | crash
  | snap
  | install
deriving DecidableEq, Repr, Inhabited

/-- WAL records of the File engine (outcomes, not intents). `exp = 0` = no TTL. -/
inductive WalRec where
  | ins (k v exp : Nat)
  | del (k : Nat)
  | nop
deriving DecidableEq, Repr, Inhabited

structure St where
  eng : Eng
  now : Nat
  /-- live data (File: in-memory map; RocksDB: the column family — durable as soon as written). -/
  data : AMap
  /-- `TtlLease.key_to_expiry`: key ↦ expiry second. -/
  lease : AMap
  /-- File: `state.data`. -/
  dData : AMap := []
  /-- File: `wal.log`. -/
  wal : List WalRec := []
  /-- File: `ttl_state.bin`; RocksDB: `TTL_STATE_KEY`. -/
  dTtl : Option AMap := none
  /-- last generated snapshot: (data, lease table). -/
  snapImg : Option (AMap × AMap) := none
deriving Repr, Inhabited

def init (e : Eng) (t0 : Nat) : St := { eng := e, now := t0, data := [], lease := [] }

/-- Observation produced by one op. -/
inductive Obs where
  | none
  | val (k : Nat) (v : Option Nat)
  | cas (ok : Bool)
  | removed (ks : List Nat)
  | nosnap
  | panic
deriving DecidableEq, Repr, Inhabited

/-- `MAX_TTL_SECS`: client TTLs are clamped to 1000 years (lease.rs). -/
def maxTtl : Nat := 31536000000

/-- effective TTL. -/
def clampTtl (t : Nat) : Nat := min t maxTtl

/-! ## TtlLease -/

def isExpired (now : Nat) (p : Nat × Nat) : Bool := p.2 ≤ now

/-- `get_expired_keys(now)`: keys whose expiry is `<= now`. -/
def expiredKeys (lease : AMap) (now : Nat) : List Nat :=
  (lease.map (·.1)).filter fun k => match get lease k with | some d => d ≤ now | none => false

/-- table after `get_expired_keys(now)` removed them (`remove_if(key, v <= now)`). -/
def dropExpired (lease : AMap) (now : Nat) : AMap := eraseAll lease (expiredKeys lease now)

/-- `may_have_expired_keys(now)`: some entry is due. -/
def mayHaveExpired (lease : AMap) (now : Nat) : Bool := lease.any (isExpired now)

/-- `reload(snapshot)` at `now`: keep `expire_at > now`. -/
def reload (snapshot : AMap) (now : Nat) : AMap := dropExpired snapshot now

/-- `start()` → `load_lease_data()` into a fresh `TtlLease`. -/
def loadLease (dTtl : Option AMap) (now : Nat) : AMap :=
  match dTtl with
  | some t => reload t now
  | none => []

/-! ## File engine WAL replay (lease = None at that point) -/

def replayRec (now : Nat) (d : AMap) : WalRec → AMap
  | .ins k v exp => if exp ≠ 0 ∧ exp ≤ now then d else set d k v
  | .del k => erase d k
  | .nop => d

def replayWal (now : Nat) (d : AMap) (w : List WalRec) : AMap := w.foldl (replayRec now) d

/-- File engine: append to the WAL (other engines: no WAL). -/
def walAppend (s : St) (r : WalRec) : List WalRec :=
  match s.eng with
  | .file => s.wal ++ [r]
  | .rocks => s.wal

/-- reopen after the on-disk image is fixed: `new` + `set_lease(fresh)` + `start()`. -/
def reopen (s : St) : St :=
  match s.eng with
  | .file =>
    -- since fix 18b31d1 a non-empty WAL is followed by `checkpoint()`: the recovered data is persisted
    let d := replayWal s.now s.dData s.wal
    { s with data := d, wal := [], lease := loadLease s.dTtl s.now
             dData := if s.wal.isEmpty then s.dData else d }
  | .rocks => { s with lease := loadLease s.dTtl s.now }

/-! ## one step -/

def step (s : St) : Op → St × Obs
  | .put k v none =>
    ({ s with data := set s.data k v, lease := erase s.lease k, wal := walAppend s (.ins k v 0) }, .none)
  | .put k v (some t) =>
    ({ s with data := set s.data k v, lease := set s.lease k (s.now + clampTtl t)
              wal := walAppend s (.ins k v (s.now + clampTtl t)) }, .none)
  | .del k =>
    ({ s with data := erase s.data k, lease := erase s.lease k, wal := walAppend s (.del k) }, .none)
  | .cas k e v =>
    if casMatch (get s.data k) e then
      ({ s with data := set s.data k v, lease := erase s.lease k, wal := walAppend s (.ins k v 0) },
        .cas true)
    else ({ s with wal := walAppend s .nop }, .cas false)
  | .adv n => ({ s with now := s.now + n }, .none)
  | .cleanup =>
    if mayHaveExpired s.lease s.now then
      let ks := expiredKeys s.lease s.now
      let d := eraseAll s.data ks
      ({ s with
          lease := dropExpired s.lease s.now
          data := d
          dData := (match s.eng with | .file => d | .rocks => s.dData) }, .removed ks)
    else (s, .removed [])
  | .get k => (s, .val k (get s.data k))
  | .ckpt =>
    match s.eng with
    | .file => ({ s with dData := s.data, wal := [] }, .none)
    | .rocks => (s, .none)
  | .restart =>
    match s.eng with
    | .file => (reopen { s with dData := s.data }, .none)
    | .rocks => (reopen { s with dTtl := some s.lease }, .none)
  | .srestart =>
    match s.eng with
    | .file => (reopen { s with dTtl := some s.lease, dData := s.data }, .none)
    | .rocks => (reopen { s with dTtl := some s.lease }, .none)
  | .crash => (reopen s, .none)
  | .snap => ({ s with snapImg := some (s.data, s.lease) }, .none)
  | .install =>
    match s.snapImg with
    | none => (s, .nosnap)
    | some (d, l) =>
      match s.eng with
      | .file => ({ s with data := d, dData := d, wal := [], lease := reload l s.now }, .none)
      | .rocks =>
        let l' := reload l s.now
        ({ s with data := d, lease := l', dTtl := some l' }, .none)

def run (s : St) : List Op → St × List Obs
  | [] => (s, [])
  | op :: ops =>
    let (s1, o) := step s op
    let (s2, os) := run s1 ops
    (s2, o :: os)

/-- state after a list of ops. -/
def exec (s : St) (ops : List Op) : St := ops.foldl (fun s op => (step s op).1) s

theorem run_fst (s : St) (ops : List Op) : (run s ops).1 = exec s ops := by
  induction ops generalizing s with
  | nil => rfl
  | cons op ops ih => simp [run, exec, List.foldl_cons]; exact ih _

theorem exec_append (s : St) (a b : List Op) : exec s (a ++ b) = exec (exec s a) b := by
  simp [exec, List.foldl_append]

theorem exec_cons (s : St) (op : Op) (ops : List Op) : exec s (op :: ops) = exec (step s op).1 ops := rfl

/-! ## branch tags (coverage) -/

def tagsOf (s : St) : Op → List String
  | .put k _ ttl =>
    match ttl with
    | some _ => [if (get s.lease k).isSome then "put-ttl-replaces-expiry" else "put-ttl"]
    | none => [if (get s.lease k).isSome then "put-plain-cancels-ttl" else "put-plain"]
  | .del k => [if (get s.lease k).isSome then "del-cancels-ttl" else "del"]
  | .cas k e _ =>
    if casMatch (get s.data k) e then
      [if (get s.lease k).isSome then "cas-ok-cancels-ttl" else "cas-ok"]
    else [if (get s.lease k).isSome then "cas-fail-keeps-ttl" else "cas-fail"]
  | .adv _ => []
  | .cleanup =>
    [if s.lease.isEmpty then "cleanup-no-lease"
     else if mayHaveExpired s.lease s.now then "cleanup-removed" else "cleanup-none-due"]
  | .get k =>
    match get s.lease k with
    | some d => [if d ≤ s.now then "get-expired-uncleaned" else "get-live-ttl"]
    | none => [if (get s.data k).isSome then "get-plain" else "get-absent"]
  | .ckpt => ["ckpt"]
  | .restart | .srestart | .crash =>
    let w := match s.eng with | .file => s.wal | .rocks => []
    (if w.any (fun r => match r with | .ins _ _ exp => exp ≠ 0 ∧ exp ≤ s.now | _ => false)
      then ["replay-skip-expired"] else []) ++
    (if w.isEmpty then [] else ["replay-wal"]) ++
    (if (s.lease.any (isExpired s.now)) then ["reopen-with-expired-lease"] else ["reopen"])
  | .snap => ["snap"]
  | .install =>
    match s.snapImg with
    | none => ["install-nosnap"]
    | some (_, l) => [if l.any (isExpired s.now) then "install-drops-expired" else "install"]

def runTags (s : St) : List Op → List String
  | [] => []
  | op :: ops => tagsOf s op ++ runTags (step s op).1 ops

/-! ## the specification the monitor evaluates on the implementation's observations

  Ghost state: per key the value the history says it has, and its absolute deadline (if the last write
  carried a TTL).  Requirements (C23):
  * a key whose last write has no TTL, or whose deadline has not been reached, must read its value
    (`key-lost` / `wrong-value` otherwise);
  * once a cleanup ran at or after the deadline the key must read as absent (`expired-key-not-removed`);
  * between deadline and cleanup either answer is accepted (expiry is lazy);
  * a key that was deleted / never written reads as absent (`absent-key-visible`);
  * restart, crash and snapshot install change none of this (deadlines are absolute) — a failure after
    one of them is reported with the context `…-after-<op>-<engine>`.
-/

structure Ghost where
  val : AMap := []
  dl : AMap := []
  /-- keys removed because their deadline passed and a cleanup ran (for the failure name only). -/
  gone : List Nat := []
  now : Nat
  snapImg : Option (AMap × AMap) := none
  /-- last disruptive op seen. -/
  ctx : Option String := none
deriving Repr, Inhabited

def Ghost.expired (g : Ghost) (k : Nat) : Bool :=
  match get g.dl k with
  | some d => d ≤ g.now
  | none => false

def Ghost.forget (g : Ghost) (k : Nat) : Ghost := { g with val := erase g.val k, dl := erase g.dl k }

/-- judge a read of `k` that returned `r`; returns the failure kind (if any) and the new ghost. -/
def Ghost.read (g : Ghost) (k : Nat) (r : Option Nat) : Option String × Ghost :=
  match get g.val k with
  | none =>
    match r with
    | none => (none, g)
    | some _ => (some (if g.gone.contains k then "expired-key-not-removed" else "absent-key-visible"), g)
  | some v =>
    if g.expired k then
      match r with
      | none => (none, g.forget k)
      | some w => if w = v then (none, g) else (some "wrong-value", g)
    else
      match r with
      | none => (some (if (get g.dl k).isSome then "ttl-key-removed-before-due" else "plain-key-removed"), g)
      | some w => if w = v then (none, g) else (some "wrong-value", g)

def gstep (g : Ghost) (op : Op) (o : Obs) : Option String × Ghost :=
  match op, o with
  | .put k v ttl, _ =>
    (none, { g with val := set g.val k v, gone := g.gone.filter (· != k)
                    dl := (match ttl with | some t => set g.dl k (g.now + clampTtl t) | none => erase g.dl k) })
  | .del k, _ => (none, { (g.forget k) with gone := g.gone.filter (· != k) })
  | .cas k e v, .cas ok =>
    let cur := get g.val k
    let allowed : Bool :=
      if g.expired k then (ok == casMatch cur e) || (ok == casMatch none e) else ok == casMatch cur e
    let g' : Ghost :=
      if ok then { g with val := set g.val k v, dl := erase g.dl k, gone := g.gone.filter (· != k) }
      else if g.expired k && casMatch cur e then g.forget k else g
    (if allowed then none else some "cas-outcome", g')
  | .adv n, _ => (none, { g with now := g.now + n })
  | .cleanup, _ =>
    let ks := expiredKeys g.dl g.now
    (none, { g with val := eraseAll g.val ks, dl := dropExpired g.dl g.now, gone := ks ++ g.gone })
  | .get k, .val _ r => g.read k r
  | .restart, _ => (none, { g with ctx := some "restart" })
  | .srestart, _ => (none, { g with ctx := some "restart" })
  | .crash, _ => (none, { g with ctx := some "crash" })
  | .snap, _ => (none, { g with snapImg := some (g.val, g.dl) })
  | .install, .nosnap => (none, g)
  | .install, _ =>
    match g.snapImg with
    | none => (some "install-without-snapshot", g)
    | some (v, d) => (none, { g with val := v, dl := d, gone := [], ctx := some "install" })
  | _, _ => (none, g)

/-- first failure over the op/observation lists. -/
def judgeOps (g : Ghost) : List Op → List Obs → Option (String × Option String) × Ghost
  | op :: ops, o :: os =>
    match gstep g op o with
    | (some f, g') => (some (f, g'.ctx), g')
    | (none, g') => judgeOps g' ops os
  | _, _ => (none, g)

/-- judge the final dump: every key of `keys` read from `final`. -/
def judgeFinal (g : Ghost) (final : AMap) : List Nat → Option (String × Option String)
  | [] => none
  | k :: ks =>
    match g.read k (get final k) with
    | (some f, g') => some (f, g'.ctx)
    | (none, g') => judgeFinal g' final ks

def opKeys : Op → List Nat
  | .put k _ _ | .del k | .cas k _ _ | .get k => [k]
  | _ => []

def keysOf (ops : List Op) : List Nat := (ops.flatMap opKeys).eraseDups

/-- The monitor: `none` = the observations satisfy C23. -/
def judge (t0 : Nat) (ops : List Op) (obs : List Obs) (final : AMap) : Option (String × Option String) :=
  match judgeOps { now := t0 } ops obs with
  | (some f, _) => some f
  | (none, g) => judgeFinal g final (keysOf ops)

end DEngine.Ttl
