import DEngine.Model.MiniKv
/-
  M-SNAP — snapshot creation / install / replay (C16), family `snap`.

  What is modelled (Rust file + fn):
  * `createSnapshot`  — d-engine-core/src/state_machine_handler/default_state_machine_handler.rs
        `DefaultStateMachineHandler::create_snapshot`: `raw = state_machine.last_applied()`;
        label index = `raw.index.saturating_sub(snapshot_config.retained_log_entries)`;
        label term  = `state_machine.entry_term(label index).unwrap_or(raw.term)`;
        then `generate_snapshot_data(temp, label)` which captures the CURRENT state of the engine
        (File: every `(key, value, term)` of the in-memory map; RocksDB: flush + export of the column
        family), compress, return `SnapshotMetadata{last_included = label}`.
  * `entryTerm`       — `StateMachine::entry_term`.  RocksDB: always `None`.  File:
        `data.values().find(|(_, index)| *index == entry_id).map(|(_, term)| *term)` where the map values
        are `(value, term)`: the closure pattern binds the stored TERM to the name `index`, so the function
        answers `Some(id)` iff some key was last written in term `id` — the answer has nothing to do
        with the log index it is asked about.
  * `install`         — engines' `apply_snapshot_from_file` reached through
        `apply_snapshot_stream_from_leader` (chunks of `load_snapshot_data`, `process_snapshot_stream`,
        decompress): data := snapshot data (whatever the node held before), `last_applied := label`.
  * `applyEntry`      — handler `apply_chunk` → engine `apply_chunk` for one entry (data part, MiniKv),
        File engine also stores the entry's term with the key; lease part (`applyLease`): Insert with TTL
        registers `now + min(ttl, MAX_TTL_SECS)`, Insert without TTL / Delete / successful CAS unregister.
  * lease in snapshots — `generate_snapshot_data` stores `lease.to_snapshot()` (File: trailing section,
        always written; RocksDB: ttl_state.bin), `apply_snapshot_from_file` replaces the node's lease table
        by `reload` of it (entries with `expire_at > now`), whatever the node's table held before.
  * `cleanupAfter`    — `lease_background_cleanup` once the clock has advanced (family `ttl` owns the details).
-/
namespace DEngine.Snap
open DEngine.MiniKv

inductive Eng where
  | file | rocks
deriving DecidableEq, Repr, Inhabited

structure Entry where
  term : Nat
  cmd : Cmd
deriving DecidableEq, Repr, Inhabited

/-- A node's state machine: contents, per-key stored term (File engine only), last applied (index, term). -/
structure Node where
  kv : AMap := []
  terms : AMap := []
  la : Nat := 0
  laTerm : Nat := 0
  /-- `TtlLease` table: key ↦ expiry second. -/
  lease : AMap := []
  /-- logical clock (seconds); every entry of a case is applied at the same instant. -/
  now : Nat := 1000
deriving Repr, Inhabited

def maxTtl : Nat := 31536000000

/-- lease bookkeeping of both engines' `apply_chunk`. -/
def applyLease (now : Nat) (kv : AMap) (lease : AMap) (e : Entry) : AMap :=
  match e.cmd with
  | .noop => lease
  | .put k _ (some t) => set lease k (now + min t maxTtl)
  | .put k _ none => erase lease k
  | .del k => erase lease k
  | .cas k ex _ => if casMatch (get kv k) ex then erase lease k else lease

/-- per-key term bookkeeping of the File engine (`data.insert(key, (value, entry.term))`). -/
def applyTerms (kv : AMap) (terms : AMap) (e : Entry) : AMap :=
  match e.cmd with
  | .noop => terms
  | .put k _ _ => set terms k e.term
  | .del k => erase terms k
  | .cas k ex _ => if casMatch (get kv k) ex then set terms k e.term else terms

/-- one entry with log index `idx` applied. -/
def applyEntry (n : Node) (idx : Nat) (e : Entry) : Node :=
  { kv := (applyCmd n.kv e.cmd).1, terms := applyTerms n.kv n.terms e, la := idx, laTerm := e.term,
    lease := applyLease n.now n.kv n.lease e, now := n.now }

/-- apply `es` as entries `from+1, from+2, …`. -/
def applyFrom (n : Node) (frm : Nat) : List Entry → Node
  | [] => n
  | e :: es => applyFrom (applyEntry n (frm + 1) e) (frm + 1) es

/-- node that applied the first `i` entries of `log` from scratch. -/
def replica (log : List Entry) (i : Nat) : Node := applyFrom {} 0 (log.take i)

/-- `StateMachine::entry_term(id)`. -/
def entryTerm (eng : Eng) (n : Node) (id : Nat) : Option Nat :=
  match eng with
  | .rocks => none
  | .file => if n.terms.any (fun p => p.2 == id) then some id else none

structure Snapshot where
  labelIdx : Nat
  labelTerm : Nat
  kv : AMap
  terms : AMap
  lease : AMap := []
deriving Repr, Inhabited

/-- `create_snapshot` on node `n` with `retained_log_entries = ret`. -/
def createSnapshot (eng : Eng) (ret : Nat) (n : Node) : Snapshot :=
  let idx := n.la - ret
  { labelIdx := idx, labelTerm := (entryTerm eng n idx).getD n.laTerm, kv := n.kv, terms := n.terms,
    lease := n.lease }

/-- `TtlLease::reload` at `now`. -/
def reloadLease (l : AMap) (now : Nat) : AMap := l.filter fun p => now < p.2

/-- `apply_snapshot_from_file`: full state (contents AND lease table) := snapshot, `last_applied := label`. -/
def install (old : Node) (s : Snapshot) : Node :=
  { kv := s.kv, terms := s.terms, la := s.labelIdx, laTerm := s.labelTerm,
    lease := reloadLease s.lease old.now, now := old.now }

/-- `adv` seconds later `lease_background_cleanup` runs: due keys leave the contents and the table. -/
def cleanupAfter (n : Node) (adv : Nat) : Node :=
  let now := n.now + adv
  let due := (n.lease.filter fun p => p.2 ≤ now).map (·.1)
  { n with kv := eraseAll n.kv due, lease := n.lease.filter (fun p => now < p.2), now := now }

/-- Follower/learner after install: the leader sets `next_index := label + 1`, the node appends and applies
entries `label+1 ..`.  (A snapshot that is not ahead of the node is installed all the same: the attempt
to ignore it, 8c628de, was reverted in /repo.) -/
def installAndReplay (old : Node) (s : Snapshot) (log : List Entry) : Node :=
  applyFrom (install old s) s.labelIdx (log.drop s.labelIdx)

/-- The whole scenario of one case: leader applied `n` entries, snapshots, the follower (which had applied
`pb` entries) installs and replays up to the end of `log`. -/
def scenario (eng : Eng) (ret : Nat) (log : List Entry) (n pb : Nat) : Snapshot × Node × Node :=
  let snap := createSnapshot eng ret (replica log n)
  (snap, install (replica log pb) snap, installAndReplay (replica log pb) snap log)

/-- contents equality as seen by reads. -/
def sameKv (a b : AMap) : Prop := ∀ k, get a k = get b k

def sameKvB (a b : AMap) : Bool := sortMap a == sortMap b

end DEngine.Snap
