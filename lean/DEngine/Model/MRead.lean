/-
  M-READ (multi-key part, C35): every path a multi-key read can take, as functions of the state and the
  requested key list.

  What is modelled (Rust file + fn):
  * `engineGetMulti`  — `FileStateMachine::get_multi` (file_state_machine.rs: one read lock, `keys.map(get)`) and
                        `RocksDBStateMachine::get_multi` (rocksdb_state_machine.rs: one snapshot, `keys.map(get)`).
  * `readFromSm`      — d-engine-core/src/state_machine_handler/default_state_machine_handler.rs
                        `read_from_state_machine`: found keys only (`None` when nothing was found; every caller
                        applies `unwrap_or_default()`).
  * `fastPathResp`    — d-engine-server/src/proto_convert.rs `fast_path_batch_read_response`:
                        `keys.zip(values).filter_map(value.map(..))`.
  * `hmGet`/`realign` — the client-side realignment: `HashMap::from_iter(sparse)` (a later entry overwrites an
                        earlier one) then `keys.map(|k| map.get(k).cloned())`
                        (d-engine-client/src/grpc_client.rs `GrpcClient::get_multi_with_policy`,
                        d-engine-server/src/api/embedded_read_handle.rs `cmd_tx_path`).
  * `embFast`         — `EmbeddedReadHandle::get_batch`, Eventual / valid-lease LeaseRead: `sm.get_multi(keys)`.
  * `embCmd`          — `EmbeddedReadHandle::cmd_tx_path` (Linearizable, or fallback): the leader answers with
                        `read_results(read_from_state_machine(keys).unwrap_or_default())`, the handle realigns.
  * `grpcFast`        — gRPC `handle_client_read` fast path (ReadActor → `get_multi` →
                        `fast_path_batch_read_response`) + client realignment; the client rejects an empty key list.
  * `grpcCmd`         — gRPC `handle_client_read` cmd_tx path (`to_proto_response(read_results(..))`) + client
                        `into_read_results` + realignment.
-/
namespace DEngine.MRead

abbrev Bytes := List UInt8
abbrev St := List (Bytes × Bytes)

def get : St → Bytes → Option Bytes
  | [], _ => none
  | (k', v) :: m, k => if k' = k then some v else get m k

def del (st : St) (k : Bytes) : St := st.filter fun p => !(p.1 == k)
def put (st : St) (k v : Bytes) : St := (k, v) :: del st k

def engineGetMulti (st : St) (keys : List Bytes) : List (Option Bytes) := keys.map (get st)

def readFromSm (st : St) (keys : List Bytes) : List (Bytes × Bytes) :=
  keys.filterMap fun k => (get st k).map fun v => (k, v)

def fastPathResp (keys : List Bytes) (values : List (Option Bytes)) : List (Bytes × Bytes) :=
  (keys.zip values).filterMap fun kv => kv.2.map fun v => (kv.1, v)

/-- lookup in `HashMap::from_iter(entries)`: the last entry for a key wins -/
def hmGet (entries : List (Bytes × Bytes)) (k : Bytes) : Option Bytes :=
  (entries.reverse.find? fun e => e.1 == k).map (·.2)

def realign (keys : List Bytes) (sparse : List (Bytes × Bytes)) : List (Option Bytes) := keys.map (hmGet sparse)

def embFast (st : St) (keys : List Bytes) : List (Option Bytes) := engineGetMulti st keys
def embCmd (st : St) (keys : List Bytes) : List (Option Bytes) := realign keys (readFromSm st keys)

/-- `none` = `Err(InvalidRequest)`: the gRPC client refuses an empty key list. -/
def grpcFast (st : St) (keys : List Bytes) : Option (List (Option Bytes)) :=
  if keys.isEmpty then none else some (realign keys (fastPathResp keys (engineGetMulti st keys)))
def grpcCmd (st : St) (keys : List Bytes) : Option (List (Option Bytes)) :=
  if keys.isEmpty then none else some (realign keys (readFromSm st keys))

/-- All paths that hand an aligned vector to the caller. -/
inductive Path where
  | engine | embFast | embCmd | grpcFast | grpcCmd
deriving Repr, DecidableEq

/-- Result of a multi-key read on a path; `none` only for the gRPC client with no keys. -/
def getMulti : Path → St → List Bytes → Option (List (Option Bytes))
  | .engine, st, keys => some (engineGetMulti st keys)
  | .embFast, st, keys => some (embFast st keys)
  | .embCmd, st, keys => some (embCmd st keys)
  | .grpcFast, st, keys => grpcFast st keys
  | .grpcCmd, st, keys => grpcCmd st keys

end DEngine.MRead
