/-
  M-LEASE (single node): model of

  * d-engine-core/src/raft_role/read_lease.rs
      `ReadLease::{pack, unpack, renew, invalidate, revoke, is_valid, is_valid_for_leader}`
      (one `AtomicU64` word = one `UInt64` here; a store replaces the word, a load reads it)
  * d-engine-core/src/raft_role/leader_state.rs
      `update_lease_timestamp`  (= `send_ts.saturating_add(lease)` then `renew(current_term, deadline)`),
      `execute_and_process_raft_rpc` Phase 0 (`last_heartbeat_send_ts = now_ms()`), reached through `tick`,
      `handle_append_result` (stale-term skip, higher-term step-down, success / conflict / embedded higher term /
      no result, `update_peer_index` → monotone `update_match_index`, `calculate_new_commit_index`,
      the `quorum_confirmed` computation and the renewal),
      `handle_inbound_event` branches `ReceiveVoteRequest`, `AppendEntries`, `ClusterConfUpdate` (step-down side),
      `become_follower`, `is_lease_valid`, `init_peers_next_index_and_match_index` (inserts nothing for `0`;
      the quorum vectors are built from `replication_targets` with `unwrap_or(0)` since fixes 6ed8b1f / a5e530a)
  * d-engine-core/src/storage/buffered_raft_log.rs `calculate_majority_matched_index`
  * d-engine-server/src/read_actor.rs `serve_read` / api/embedded_read_handle.rs `get_batch`:
      the lease test of both fast paths is `lease.is_valid(now_ms())`
  * d-engine-core/src/election/election_handler.rs `handle_vote_request` and role_state.rs
      `handle_append_entries_request_workflow` as far as the follower's vote / term / timer are concerned
      (leader stickiness, F29).

  Everything is modelled as coded (same branch order, same arithmetic, same quirks).
-/
namespace DEngine.Lease

/-! ## L0: the packed word -/

def deadlineMask : UInt64 := 0xFFFFFFFFFFFF      -- (1 << 48) - 1
def termShift : UInt64 := 48

/-- `ReadLease::pack`; `none` = the `assert!(deadline_ms <= DEADLINE_MASK)` panics. -/
def pack (term deadline : UInt64) : Option UInt64 :=
  if deadline ≤ deadlineMask then
    some (((term &&& 0xFFFF) <<< termShift) ||| (deadline &&& deadlineMask))
  else none

/-- `ReadLease::unpack` = (term bits, deadline bits). -/
def unpack (v : UInt64) : UInt64 × UInt64 := (v >>> termShift, v &&& deadlineMask)

/-- `ReadLease::is_valid` on the loaded word. -/
def isValid (packed now : UInt64) : Bool := (packed &&& deadlineMask) > now

/-- `ReadLease::is_valid_for_leader` on the loaded word. -/
def isValidForLeader (packed curTerm now : UInt64) : Bool :=
  (unpack packed).1 == (curTerm &&& 0xFFFF) && (unpack packed).2 > now

/-- `ReadLease::revoke`: the stored word. -/
def revoked : UInt64 := 0

/-- `u64::saturating_add`. -/
def satAdd (a b : UInt64) : UInt64 :=
  if a.toNat + b.toNat ≥ 2 ^ 64 then (0xFFFFFFFFFFFFFFFF : UInt64) else a + b

/-! ## L1: the leader's lease-relevant state and its handlers -/

structure Cfg where
  n : Nat                 -- voters including the leader (leader = node 1, voter peers = 2..n)
  learners : List Nat     -- learner peer ids (replication targets that never count)
  leaseDur : UInt64       -- read_consistency.lease_duration_ms
deriving Repr

structure LState where
  term : Nat
  commit : Nat
  logTerms : List Nat               -- terms of entries 1..len (in-memory raft log)
  matchIdx : List (Nat × Nat)       -- `match_index`: only peers that ever reported an index > 0
  lastSend : UInt64                 -- `last_heartbeat_send_ts`
  packed : UInt64                   -- the lease word
  clock : UInt64                    -- `now_ms()`
  stepped : Bool                    -- BecomeFollower processed: the role is Follower
  panicked : Bool                   -- `pack` assertion fired inside `renew`
deriving Repr

def isVoterPeer (c : Cfg) (p : Nat) : Bool := 2 ≤ p && p ≤ c.n && !c.learners.contains p

def lastIdx (s : LState) : Nat := s.logTerms.length

/-- term of entry `i` (`raft_log.entry(i)`), `none` outside `1..=len`. -/
def entryTerm (s : LState) (i : Nat) : Option Nat :=
  if i = 0 then none else s.logTerms[i - 1]?

def matchOf (m : List (Nat × Nat)) (p : Nat) : Nat :=
  match m.find? (·.1 == p) with
  | some (_, i) => i
  | none => 0

/-- `update_match_index`: only advance; inserts only when the new value is larger than the current (absent = 0). -/
def updateMatch (m : List (Nat × Nat)) (p i : Nat) : List (Nat × Nat) :=
  if i > matchOf m p then (p, i) :: m.filter (·.1 != p) else m

/-- insertion into a list sorted in descending order -/
def insertDesc (x : Nat) : List Nat → List Nat
  | [] => [x]
  | y :: ys => if x ≥ y then x :: y :: ys else y :: insertDesc x ys

def sortDesc (l : List Nat) : List Nat := l.foldr insertDesc []

/-- `calculate_majority_matched_index(current_term, commit_index, peer_matched_ids)`. -/
def majorityMatched (s : LState) (matched : List Nat) : Option Nat :=
  let all := sortDesc (matched ++ [lastIdx s])
  let mi := all.getD (all.length / 2) 0
  if mi < s.commit then none
  else match entryTerm s mi with
    | some t => if t = s.term then some mi else none
    | none => none

/-- the vector handed to `calculate_majority_matched_index` by `calculate_new_commit_index` and `quorum_confirmed`
    (after the two `fix:` commits 6ed8b1f / a5e530a): every voter peer of `replication_targets` counts, with 0 when it
    has no `match_index` entry (before the fixes only peers present in the map were counted: F30 / F30-lease). -/
def allVoterMatches (c : Cfg) (s : LState) : List Nat :=
  (((List.range (c.n + 1)).filter (fun p => isVoterPeer c p)).map (matchOf s.matchIdx))

def calcNewCommit (c : Cfg) (s : LState) : Option Nat :=
  match majorityMatched s (allVoterMatches c s) with
  | some i => if i > s.commit then some i else none
  | none => none

/-- `quorum_confirmed` in `handle_append_result` (after `fix: lease/read quorum confirmation must count every voter
    too`): the same vector as `calculate_new_commit_index`. -/
def quorumConfirmed (c : Cfg) (s : LState) : Bool := (majorityMatched s (allVoterMatches c s)).isSome

/-- `update_lease_timestamp(send_ts, lease)` -/
def renewFrom (c : Cfg) (s : LState) (sendTs : UInt64) : LState :=
  match pack (UInt64.ofNat s.term) (satAdd sendTs c.leaseDur) with
  | some w => { s with packed := w }
  | none => { s with panicked := true }

inductive AppendRes where
  | success (matchIdx : Nat)
  | conflict
  | higherTerm (t : Nat)
  | noResult
  | netErr
deriving Repr

/-- `LeaderState::handle_append_result`; returns the new state, `true` iff the handler returned `Ok`, and a branch tag. -/
def handleAppendResult (c : Cfg) (s : LState) (p : Nat) (respTerm : Nat) (r : AppendRes) : LState × Bool × String :=
  match r with
  | .netErr => (s, true, "ar-neterr")
  | _ =>
  if respTerm < s.term then (s, true, "ar-stale-term")
  else if respTerm > s.term then ({ s with term := respTerm, packed := revoked }, false, "ar-higher-resp-term")
  else
    let voter := isVoterPeer c p
    match r with
    | .higherTerm t =>
        if t > s.term then ({ s with term := t, packed := revoked }, false, "ar-higher-term-result")
        else (s, true, "ar-higher-term-result-stale")
    | .noResult => (s, true, "ar-no-result")
    | .netErr => (s, true, "ar-neterr")
    | .conflict => (s, true, "ar-conflict")
    | .success mi =>
        let s1 := { s with matchIdx := updateMatch s.matchIdx p mi }
        if !voter then (s1, true, "ar-success-nonvoter")
        else
          let s2 := match calcNewCommit c s1 with
            | some nc => { s1 with commit := nc }
            | none => s1
          if quorumConfirmed c s2 then
            let sendTs := if s2.lastSend > 0 then s2.lastSend else s2.clock
            (renewFrom c s2 sendTs, true,
              if s2.lastSend > 0 then "ar-success-renew" else "ar-success-renew-fallback-now")
          else (s2, true, "ar-success-no-quorum")

/-- `tick` with the replication timer expired → `send_heartbeat_or_batch(None)` →
    `execute_and_process_raft_rpc` Phase 0. -/
def heartbeat (s : LState) : LState := { s with lastSend := s.clock }

/-- inbound `VoteRequest` at the leader -/
def onVoteRequest (s : LState) (t : Nat) : LState × String :=
  if s.term < t then ({ s with term := t, packed := revoked }, "vote-stepdown") else (s, "vote-reject")

/-- inbound `AppendEntries` at the leader: adopts the request term (since fix 05b4801) and revokes -/
def onAppendEntries (s : LState) (t : Nat) : LState × String :=
  if s.term ≥ t then (s, "ae-reject") else ({ s with term := t, packed := revoked }, "ae-stepdown")

/-- inbound `ClusterConfUpdate` at the leader: adopts the request term and revokes (since the F13/F13b fix) -/
def onConfUpdate (s : LState) (t : Nat) : LState × String :=
  if s.term ≥ t then (s, "cu-reject") else ({ s with term := t, packed := revoked }, "cu-stepdown")

/-- `become_follower` (processing of `InternalEvent::BecomeFollower`) -/
def becomeFollower (s : LState) : LState := { s with packed := revoked, stepped := true }

inductive Op where
  | clock (t : UInt64)
  | hb
  | ack (p respTerm : Nat) (r : AppendRes) (round : Nat)
  | vote (t : Nat)
  | ae (t : Nat)
  | cu (t : Nat)
  | bf
  | read
deriving Repr

/-- Observation after an op: (term, commit, lease term bits, lease deadline bits, `is_valid(now)`). -/
structure Obs where
  term : Nat
  commit : Nat
  lt : UInt64
  ld : UInt64
  valid : Bool
deriving Repr, DecidableEq

def observe (s : LState) : Obs :=
  { term := s.term, commit := s.commit, lt := (unpack s.packed).1, ld := (unpack s.packed).2,
    valid := isValid s.packed s.clock }

inductive Out where
  | state (o : Obs) (ok : Option Bool)      -- ok = handler result (`none` for the clock op)
  | probe (actor embedded leader : Bool)    -- read probe: ReadActor `serve_read`, embedded `get_batch` served locally,
                                            -- leader-internal `is_lease_valid()`
  | gone                                    -- leader op after the role change
deriving Repr, DecidableEq

/-- one step of the op interpreter (same dispatch as harness/src/bin/lease.rs `exec_leader`): after the role change
    only the clock and the read probes still do something (the `LeaderState` no longer exists in the Raft loop). -/
def step (c : Cfg) (s : LState) (op : Op) : LState × Out × String :=
  match op with
  | .clock t => let s' := { s with clock := t }; (s', .state (observe s') none, "clock")
  | .read =>
      (s, .probe (isValid s.packed s.clock) (isValid s.packed s.clock)
            (!s.stepped && isValidForLeader s.packed (UInt64.ofNat s.term) s.clock), "read")
  | .hb =>
      if s.stepped then (s, .gone, "gone") else
      let s' := heartbeat s; (s', .state (observe s') (some true), "hb")
  | .bf =>
      if s.stepped then (s, .gone, "gone") else
      let s' := becomeFollower s; (s', .state (observe s') (some true), "bf")
  | .vote t =>
      if s.stepped then (s, .gone, "gone") else
      ((onVoteRequest s t).1, .state (observe (onVoteRequest s t).1) (some true), (onVoteRequest s t).2)
  | .ae t =>
      if s.stepped then (s, .gone, "gone") else
      ((onAppendEntries s t).1, .state (observe (onAppendEntries s t).1) (some true), (onAppendEntries s t).2)
  | .cu t =>
      if s.stepped then (s, .gone, "gone") else
      ((onConfUpdate s t).1, .state (observe (onConfUpdate s t).1) (some true), (onConfUpdate s t).2)
  | .ack p rt r _ =>
      if s.stepped then (s, .gone, "gone") else
      ((handleAppendResult c s p rt r).1, .state (observe (handleAppendResult c s p rt r).1)
        (some (handleAppendResult c s p rt r).2.1), (handleAppendResult c s p rt r).2.2)

def run (c : Cfg) : LState → List Op → List Out × List String × LState
  | s, [] => ([], [], s)
  | s, op :: ops =>
      let (s', o, tag) := step c s op
      let (os, tags, sf) := run c s' ops
      (o :: os, tag :: tags, sf)

def initState (term commit : Nat) (logTerms : List Nat) : LState :=
  { term, commit, logTerms, matchIdx := [], lastSend := 0, packed := 0, clock := 0, stepped := false,
    panicked := false }

/-! ## Follower side: vote handling vs. leader contact (F29) -/

structure FState where
  term : Nat
  votedFor : Option (Nat × Nat)     -- (id, term)  (the `committed` flag does not influence the vote)
  lastLogIdx : Nat
  lastLogTerm : Nat
deriving Repr

inductive FOp where
  | wait (ms : Nat)
  | ae (t leader : Nat)
  | vote (cand t lli llt : Nat)
deriving Repr

inductive FOut where
  | waited (term : Nat)
  | aeReply (term : Nat) (kind : String)
  | voteReply (term : Nat) (granted : Bool)
deriving Repr, DecidableEq

def logMoreRecent (myIdx myTerm tIdx tTerm : Nat) : Bool :=
  tTerm > myTerm || (tTerm == myTerm && tIdx ≥ myIdx)

/-- `ElectionHandler::handle_vote_request` + the follower's application of the `StateUpdate`. -/
def fVote (s : FState) (cand t lli llt : Nat) : FState × Bool :=
  let vf := if t > s.term then none else s.votedFor
  let grant :=
    if t < s.term then false
    else if !logMoreRecent s.lastLogIdx s.lastLogTerm lli llt then false
    else match vf with
      | some (id, vt) => vt == t && id == cand
      | none => true
  let s1 := if t > s.term then { s with term := t } else s
  let s2 := if grant then { s1 with votedFor := some (cand, t) } else s1
  (s2, grant)

/-- heartbeat AppendEntries whose prev equals the follower's last log id -/
def fAppend (s : FState) (t leader : Nat) : FState × String :=
  if s.term > t then (s, "hterm")
  else ({ s with term := t, votedFor := some (leader, t) }, "ok")

def fStep (s : FState) : FOp → FState × FOut × String
  | .wait _ => (s, .waited s.term, "f-wait")
  | .ae t l => let (s', k) := fAppend s t l; (s', .aeReply s'.term k, "f-ae-" ++ k)
  | .vote c t i lt =>
      let (s', g) := fVote s c t i lt
      (s', .voteReply s'.term g, if g then "f-vote-granted" else "f-vote-refused")

def fRun : FState → List FOp → List FOut × List String
  | _, [] => ([], [])
  | s, op :: ops =>
      let (s', o, tag) := fStep s op
      let (os, tags) := fRun s' ops
      (o :: os, tag :: tags)

end DEngine.Lease

/-! ## Monitors: the decidable predicates of C12, evaluated on observations (of the implementation) -/
namespace DEngine.Lease

/-- ghost record of the acknowledgements the leader has processed: (voter, send time of the acknowledged round) -/
def raiseFresh (f : List (Nat × Nat)) (p : Nat) (ts : Nat) : List (Nat × Nat) := (p, ts) :: f

/-- peers needed besides the leader for a majority of `n` voters -/
def peersNeeded (n : Nat) : Nat := n / 2

/-- voter `v` has acknowledged a heartbeat round that was sent at or after `deadline - lease` -/
def ackedSince (fresh : List (Nat × Nat)) (lease deadline : Nat) (v : Nat) : Bool :=
  fresh.any (fun e => e.1 == v && decide (deadline ≤ e.2 + lease))

/-- **H_freshRound for one renewal** (the decidable predicate shared by the monitor and the timing theorem):
    at least `need` voter peers have acknowledged a heartbeat round whose send time `s` satisfies
    `deadline ≤ s + lease`; with the leader itself that is a majority that was still following this leader at or
    after `deadline - lease`. -/
def renewalFresh (voters : List Nat) (need lease : Nat) (fresh : List (Nat × Nat)) (deadline : Nat) : Bool :=
  decide (voters.countP (ackedSince fresh lease deadline) ≥ need)

/-- the voter peers in the numbering of the `lease` family (leader = 1, peers 2..n, minus learners) -/
def voterPeers (c : Cfg) : List Nat := (List.range (c.n + 1)).filter (isVoterPeer c)

structure MonSt where
  term : Nat
  clock : UInt64
  prevLd : UInt64
  pending : Bool            -- step-down decided, BecomeFollower not yet processed
  revokedSeen : Bool
  stepped : Bool
  sends : List Nat          -- send time of heartbeat round i (1-based)
  fresh : List (Nat × Nat)  -- accepted acks of voter peers: (peer, send time of the acknowledged round)
  ghostOk : Bool            -- every accepted voter ack so far named its round
deriving Repr

def isTrigger (term : Nat) : Op → Bool
  | .vote t => t > term
  | .ae t => t > term
  | .cu t => t > term
  | .ack _ _ .netErr _ => false
  | .ack _ rt (.higherTerm t) _ => rt > term || (rt == term && t > term)
  | .ack _ rt _ _ => rt > term
  | _ => false

/-- one monitor step; `some sig` = the property fails here -/
def monStep (c : Cfg) (m : MonSt) (op : Op) (out : Out) : MonSt × Option String :=
  match out with
  | .gone => (m, if m.stepped then none else some "leader-op-refused-before-role-change")
  | .probe actor embedded _ =>
      let fast := actor || embedded
      if m.stepped then (m, if fast then some "lease-valid-after-role-change" else none)
      else if m.pending && fast then
        (m, some (if m.revokedSeen then "lease-rearmed-after-stepdown" else "stepdown-not-revoked-at-once"))
      else (m, none)
  | .state o _ =>
      let clock := match op with | .clock t => t | _ => m.clock
      let sends := match op with | .hb => m.sends ++ [clock.toNat] | _ => m.sends
      -- ghost bookkeeping of acknowledged rounds (accepted success acks of voter peers)
      let (fresh, ghostOk) := match op with
        | .ack p rt (.success _) round =>
            if rt == m.term && isVoterPeer c p then
              (if round ≥ 1 && round ≤ sends.length then
                (raiseFresh m.fresh p (sends.getD (round - 1) 0), m.ghostOk) else (m.fresh, false))
            else (m.fresh, m.ghostOk)
        | _ => (m.fresh, m.ghostOk)
      let trig := isTrigger m.term op
      let isBf := match op with | .bf => true | _ => false
      let m' : MonSt :=
        { m with term := o.term, clock, prevLd := o.ld, sends, fresh, ghostOk,
                 pending := (m.pending || trig) && !isBf,
                 revokedSeen := if isBf then false else if trig && !m.pending then o.ld == 0
                                else m.revokedSeen || (m.pending && o.ld == 0),
                 stepped := m.stepped || isBf }
      let verdict : Option String :=
        if o.valid != decide (o.ld > clock) then some "lease-valid-flag-mismatch"
        else if isBf then (if o.ld != 0 then some "stepdown-lease-not-revoked" else none)
        else if trig && !m.pending then (if o.valid then some "stepdown-not-revoked-at-once" else none)
        else if m.pending && m.revokedSeen && o.ld != 0 then some "lease-rearmed-after-stepdown"
        else if m.pending && !m.revokedSeen && o.valid then some "stepdown-not-revoked-at-once"
        else
          -- a renewal: the deadline changed to a non-zero value during an ack
          match op with
          | .ack _ _ (.success _) _ =>
              if o.ld != m.prevLd && o.ld != 0 then
                if o.lt.toNat != o.term % 65536 then some "lease-term-bits-wrong"
                else if !ghostOk then none
                else if (voterPeers c).countP (fun v => fresh.any (·.1 == v)) < peersNeeded c.n then
                  some "lease-renewed-with-fewer-than-majority-acks"
                else if renewalFresh (voterPeers c) (peersNeeded c.n) c.leaseDur.toNat fresh o.ld.toNat then none
                else some "lease-renewed-without-fresh-majority-round"
              else none
          | _ => none
      (m', verdict)

def monRun (c : Cfg) : MonSt → List Op → List Out → Option String
  | _, [], _ => none
  | _, _ :: _, [] => some "missing-observation"
  | m, op :: ops, o :: os =>
      match monStep c m op o with
      | (_, some sig) => some sig
      | (m', none) => monRun c m' ops os

def monInit (term : Nat) : MonSt :=
  { term, clock := 0, prevLd := 0, pending := false, revokedSeen := false, stepped := false, sends := [],
    fresh := [], ghostOk := true }

/-- follower monitor (F29 / H_sticky): no vote is granted within `emin` of the last accepted AppendEntries -/
def fMonRun (emin : Nat) : Option Nat → List FOp → List FOut → Option String
  | _, [], _ => none
  | _, _ :: _, [] => some "missing-observation"
  | since, op :: ops, o :: os =>
      match op, o with
      | .wait ms, _ => fMonRun emin (since.map (· + ms)) ops os
      | .ae _ _, .aeReply _ k => fMonRun emin (if k == "ok" then some 0 else since) ops os
      | .vote _ _ _ _, .voteReply _ g =>
          if g then
            match since with
            | some d => if d < emin then some "vote-granted-within-min-election-timeout"
                        else fMonRun emin none ops os
            | none => fMonRun emin none ops os
          else fMonRun emin since ops os
      | _, _ => some "observation-kind-mismatch"

end DEngine.Lease
