import DEngine.Lemmas.Snap
/-!
# C16 — Snapshot install plus log replay reproduces the state

Model: `DEngine.Snap` (`DefaultStateMachineHandler::create_snapshot`, engines' `generate_snapshot_data` /
`apply_snapshot_from_file`, `entry_term`), tied to the real handler + both engines by family `snap`
(real create_snapshot → real chunk stream → real install → real apply of the suffix).

Decided on the real code: **F16 is real.** The snapshot is labelled `last_applied − retained_log_entries`
but contains the state at `last_applied`; the installing node re-applies the entries in
`(label, last_applied]` on top of a state that already contains them.  With CAS in that range the final
state differs (both engines).  With the default `retained_log_entries = 1` the state is still right
(`snapshot_replay_eq_ret_le_one`), from 2 on it is not (`snapshot_replay_eq_false`).
-/
namespace DEngine.C16
open DEngine.MiniKv DEngine.Snap

/-- the commands the installing node applies a second time: entries `(n − ret, n]`. -/
def reapplied (ret : Nat) (log : List Entry) (n : Nat) : List Cmd :=
  ((log.take n).drop (n - ret)).map (·.cmd)

/-- the commands after the snapshot point. -/
def rest (log : List Entry) (n : Nat) : List Cmd := (log.drop n).map (·.cmd)

theorem drop_split (log : List Entry) (l n : Nat) (hl : l ≤ n) (hn : n ≤ log.length) :
    log.drop l = (log.take n).drop l ++ log.drop n := by
  conv => lhs; rw [← List.take_append_drop n log]
  rw [List.drop_append_of_le_length (by rw [List.length_take]; omega)]

/-- What the follower ends with: the snapshot state, then the re-applied range AGAIN, then the rest. -/
theorem follower_kv (eng : Eng) (ret : Nat) (log : List Entry) (n pb : Nat) (hn : n ≤ log.length) :
    (scenario eng ret log n pb).2.2.kv =
      applyAll (applyAll (replica log n).kv (reapplied ret log n)) (rest log n) := by
  simp only [scenario, installAndReplay, install, createSnapshot, applyFrom_kv, replica_la log n hn]
  rw [drop_split log (n - ret) n (by omega) hn, List.map_append, applyAll_append]
  rfl

/-- What the leader (full apply) ends with. -/
theorem leader_kv (log : List Entry) (n : Nat) :
    (replica log log.length).kv = applyAll (replica log n).kv (rest log n) := by
  rw [replica_kv, replica_kv, List.take_length, rest, ← applyAll_append, ← List.map_append,
    List.take_append_drop]

/-- **snapshot_replay_eq, exact condition (`_partial`).** Install + replay equals full apply as soon as
re-applying the range `(label, last_applied]` on the snapshot state is a no-op — for every engine,
retention, log, snapshot point, prior follower state and every continuation of the log. -/
theorem snapshot_replay_eq_partial (eng : Eng) (ret : Nat) (log : List Entry) (n pb : Nat)
    (hn : n ≤ log.length)
    (hidem : sameKv (applyAll (replica log n).kv (reapplied ret log n)) (replica log n).kv) :
    sameKv (scenario eng ret log n pb).2.2.kv (replica log log.length).kv := by
  rw [follower_kv eng ret log n pb hn, leader_kv log n]
  exact applyAll_congr hidem _

/-- The condition is also necessary when the log ends at the snapshot point. -/
theorem snapshot_replay_eq_needs_idem (eng : Eng) (ret : Nat) (log : List Entry) (pb : Nat)
    (h : sameKv (scenario eng ret log log.length pb).2.2.kv (replica log log.length).kv) :
    sameKv (applyAll (replica log log.length).kv (reapplied ret log log.length))
      (replica log log.length).kv := by
  rw [follower_kv eng ret log log.length pb (Nat.le_refl _)] at h
  simpa [rest, applyAll] using h

/-- `retained_log_entries = 0` (label = last_applied): full equality. -/
theorem snapshot_replay_eq_ret_zero (eng : Eng) (log : List Entry) (n pb : Nat) (hn : n ≤ log.length) :
    sameKv (scenario eng 0 log n pb).2.2.kv (replica log log.length).kv := by
  apply snapshot_replay_eq_partial eng 0 log n pb hn
  have : reapplied 0 log n = [] := by
    simp [reapplied]
  rw [this]; exact sameKv_refl _

/-- `retained_log_entries ≤ 1` (the shipped default is 1): re-applying the single last entry is a no-op,
CAS included, so the final state is still right. -/
theorem snapshot_replay_eq_ret_le_one (eng : Eng) (ret : Nat) (hret : ret ≤ 1) (log : List Entry)
    (n pb : Nat) (hn : n ≤ log.length) :
    sameKv (scenario eng ret log n pb).2.2.kv (replica log log.length).kv := by
  apply snapshot_replay_eq_partial eng ret log n pb hn
  rcases Nat.le_one_iff_eq_zero_or_eq_one.mp hret with h | h
  · subst h
    have : reapplied 0 log n = [] := by simp [reapplied]
    rw [this]; exact sameKv_refl _
  · subst h
    cases n with
    | zero => simp [reapplied]; exact sameKv_refl _
    | succ j =>
      have hj : j < log.length := by omega
      have htake : log.take (j + 1) = log.take j ++ [log[j]] := by
        rw [List.take_succ_eq_append_getElem hj]
      have hlen : (log.take j).length = j := by rw [List.length_take]; omega
      have hre : reapplied 1 log (j + 1) = [log[j].cmd] := by
        unfold reapplied
        rw [htake, show j + 1 - 1 = j from rfl,
          List.drop_append_of_le_length (by omega), List.drop_of_length_le (by omega)]
        rfl
      rw [hre, replica_kv, htake, List.map_append, applyAll_append]
      simp only [List.map_cons, List.map_nil]
      show sameKv (applyCmd (applyCmd _ _).1 _).1 (applyCmd _ _).1
      rw [applyCmd_idem]; exact sameKv_refl _

/-- Any retention: if the re-applied range contains no CAS (puts / deletes / noops only) the result is
right. -/
theorem snapshot_replay_eq_no_cas (eng : Eng) (ret : Nat) (log : List Entry) (n pb : Nat)
    (hn : n ≤ log.length) (hw : ∀ c ∈ reapplied ret log n, isWrite c = true) :
    sameKv (scenario eng ret log n pb).2.2.kv (replica log log.length).kv := by
  apply snapshot_replay_eq_partial eng ret log n pb hn
  -- the snapshot state is itself "state at label, then the range"
  have hl : n - ret ≤ n := by omega
  have hsplit : (log.take n).map (·.cmd) =
      ((log.take n).take (n - ret)).map (·.cmd) ++ reapplied ret log n := by
    rw [reapplied, ← List.map_append, List.take_append_drop]
  rw [replica_kv, hsplit, applyAll_append]
  exact applyAll_writes_idem _ hw _

/-- **Full-strength statement** (false as coded). -/
def SnapshotReplayEqStatement : Prop :=
  ∀ (eng : Eng) (ret : Nat) (log : List Entry) (n pb : Nat), n ≤ log.length →
    sameKv (scenario eng ret log n pb).2.2.kv (replica log log.length).kv

def witnessLog : List Entry :=
  [⟨1, .put 1 1 none⟩, ⟨1, .cas 1 (some 2) 3⟩, ⟨1, .cas 1 (some 1) 2⟩]

/-- F16: `retained_log_entries = 2`, log `put k=1; CAS k 2→3 (fails); CAS k 1→2`, snapshot after entry 3:
state `k=2` labelled 1; the follower re-applies 2..3: `CAS 2→3` now succeeds ⇒ `k=3 ≠ 2`. -/
theorem snapshot_replay_eq_false : ¬ SnapshotReplayEqStatement := by
  intro h
  have := h .file 2 witnessLog 3 0 (by decide) 1
  revert this; decide

theorem snapshot_replay_eq_false_rocks :
    get (scenario .rocks 2 witnessLog 3 0).2.2.kv 1 = some 3 ∧ get (replica witnessLog 3).kv 1 = some 2 := by
  decide

/-! ## label_matches_state -/

/-- **Full-strength statement** (false as coded): the label is the applied index the state belongs to. -/
def LabelMatchesStateStatement : Prop :=
  ∀ (eng : Eng) (ret : Nat) (log : List Entry) (n : Nat), n ≤ log.length →
    (createSnapshot eng ret (replica log n)).labelIdx = n

/-- As coded: label = applied − retained, while the captured state is the current one. -/
theorem label_is_applied_minus_retained (eng : Eng) (ret : Nat) (log : List Entry) (n : Nat)
    (hn : n ≤ log.length) :
    (createSnapshot eng ret (replica log n)).labelIdx = n - ret ∧
    (createSnapshot eng ret (replica log n)).kv = (replica log n).kv := by
  simp [createSnapshot, replica_la log n hn]

theorem label_matches_state_false : ¬ LabelMatchesStateStatement := by
  intro h
  have := h .rocks 1 witnessLog 3 (by decide)
  revert this; decide

theorem label_matches_state_partial (eng : Eng) (log : List Entry) (n : Nat) (hn : n ≤ log.length) :
    (createSnapshot eng 0 (replica log n)).labelIdx = n := by
  simp [createSnapshot, replica_la log n hn]

/-- Installing replaces the FULL state — contents and TTL (lease) table — by the snapshot's, whatever the
node held before (in particular its own live leases are gone), and sets `last_applied` to the label. -/
theorem install_replaces_state (old : Node) (s : Snapshot) :
    (install old s).kv = s.kv ∧ (install old s).la = s.labelIdx ∧
      (install old s).lease = reloadLease s.lease old.now := ⟨rfl, rfl, rfl⟩

/-- The installed lease table does not depend on the lease table the node held before. -/
theorem install_forgets_old_leases (old old' : Node) (s : Snapshot) (h : old.now = old'.now) :
    (install old s).lease = (install old' s).lease := by
  simp [install, h]

/-- A snapshot taken from a node without leases leaves the installing node without leases — so no later
cleanup can remove anything there (`cleanupAfter` is then the identity on the contents). -/
theorem install_empty_lease_then_cleanup (old : Node) (s : Snapshot) (hs : s.lease = []) (adv : Nat) :
    (cleanupAfter (install old s) adv).kv = s.kv := by
  simp [cleanupAfter, install, hs, reloadLease, eraseAll]

/-! ## the label's term -/

/-- the label's term should be the term of the entry the label points at. -/
def LabelTermStatement : Prop :=
  ∀ (eng : Eng) (ret : Nat) (log : List Entry) (n : Nat), n ≤ log.length →
    0 < (createSnapshot eng ret (replica log n)).labelIdx →
      (createSnapshot eng ret (replica log n)).labelTerm =
        (log.getD ((createSnapshot eng ret (replica log n)).labelIdx - 1) default).term

/-- F48. RocksDB: `entry_term` is `None`, so the label `applied − retained` gets the term of `applied`.
File: `entry_term(id)` answers `Some(id)` whenever some key was last written in *term* `id`. -/
theorem label_term_false : ¬ LabelTermStatement := by
  intro h
  have := h .rocks 1 [⟨1, .put 1 1 none⟩, ⟨2, .put 1 2 none⟩] 2 (by decide) (by decide)
  revert this; decide

theorem label_term_false_file :
    (createSnapshot .file 0 (replica [⟨2, .put 1 1 none⟩, ⟨3, .put 2 1 none⟩] 2)).labelTerm = 2 := by
  decide

/-! ## Non-vacuity -/

/-- receiver with a live lease for key 1, sender's table empty at snapshot time: key 1 survives the later cleanup -/
example : get (cleanupAfter (scenario .file 0
    [⟨1, .put 1 1 (some 3)⟩, ⟨1, .put 1 2 none⟩] 2 1).2.2 6).kv 1 = some 2 := by decide

example : (3 : Nat) ≤ witnessLog.length := by decide
example : ∀ c ∈ reapplied 2 [⟨1, .put 1 1 none⟩, ⟨1, .del 1⟩, ⟨1, .put 1 2 none⟩] 3, isWrite c = true := by
  decide
example : reapplied 2 witnessLog 3 = [.cas 1 (some 2) 3, .cas 1 (some 1) 2] := by decide

end DEngine.C16
