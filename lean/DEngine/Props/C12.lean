import DEngine.Model.Lease
import DEngine.Lemmas.Lease
import DEngine.Props.C34
/-!
# C12 — Lease reads are served only under a valid leader lease

Part (a): the packed `(term & 0xFFFF, 48-bit deadline)` word — round trip, validity arithmetic, the 16-bit term
wrap, the `pack` assertion. Part (b): revocation — `revoke` invalidates, the role change always revokes and no fast
path read is served afterwards; "revoked from the step-down decision until the role change" is **false as coded**
(F13: the AppendEntries / ClusterConfUpdate step-down branches do not adopt the higher term, so a queued
AppendResult re-arms the lease; the ClusterConfUpdate branch does not even revoke at once) — negation witnesses +
`_partial` theorem for the term-adopting triggers. Part (c) (timing) is in the second half of this file.
Config clause: `DEngine.C34.lease_lt_election` (re-used, not re-modelled).
-/
namespace DEngine.C12
open DEngine.Lease

/-! ## (a) packing -/

/-- `pack` panics (assertion) exactly for deadlines that need more than 48 bits. -/
theorem pack_panics_iff (t d : UInt64) : pack t d = none ↔ d.toNat ≥ 2 ^ 48 := pack_eq_none_iff t d

/-- **pack/unpack round trip incl. the 16-bit term wrap**: the term comes back modulo 2^16, the deadline exactly. -/
theorem pack_roundtrip {t d w : UInt64} (h : pack t d = some w) :
    (unpack w).1.toNat = t.toNat % 65536 ∧ (unpack w).2 = d := DEngine.Lease.pack_roundtrip h
example : pack 65537 1000 = some 281474976711656 ∧ unpack 281474976711656 = (1, 1000) := by decide

/-- validity arithmetic of the ReadActor / embedded fast path test -/
theorem is_valid_iff {t d w : UInt64} (h : pack t d = some w) (now : UInt64) :
    isValid w now = true ↔ now.toNat < d.toNat := by
  rw [isValid_pack h]; simp [UInt64.lt_iff_toNat_lt]

/-- validity arithmetic of the leader-internal test: term compared modulo 2^16 -/
theorem is_valid_for_leader_iff {t d w : UInt64} (h : pack t d = some w) (cur now : UInt64) :
    isValidForLeader w cur now = true ↔ (t.toNat % 65536 = cur.toNat % 65536 ∧ now.toNat < d.toNat) := by
  rw [isValidForLeader_pack h]; simp [UInt64.lt_iff_toNat_lt]

/-- the 16-bit wrap: a lease written in term `t` is accepted for every current term congruent to `t` mod 2^16 -/
theorem term_wrap_alias (w cur cur' now : UInt64) (h : cur.toNat % 65536 = cur'.toNat % 65536) :
    isValidForLeader w cur now = isValidForLeader w cur' now := isValidForLeader_congr_mod w cur cur' now h
/-- concrete collision: a term-1 lease is valid for current term 65537 -/
example : pack 1 1000 = some 281474976711656 ∧ isValidForLeader 281474976711656 65537 0 = true := by decide

/-- the deadline of a renewal is `send_ts.saturating_add(lease)`, over the naturals -/
theorem deadline_arith (sendTs lease : UInt64) :
    (satAdd sendTs lease).toNat = min (sendTs.toNat + lease.toNat) (2 ^ 64 - 1) := satAdd_toNat sendTs lease

/-! ## (b) revocation -/

/-- `revoke()` invalidates both tests at every instant and for every term. -/
theorem revoke_invalidates (cur now : UInt64) :
    isValid revoked now = false ∧ isValidForLeader revoked cur now = false :=
  ⟨isValid_revoked now, isValidForLeader_revoked cur now⟩

/-- invariant of the op machine: once the role is Follower the lease word is the revoked word -/
def WF (s : LState) : Prop := s.stepped = true → s.packed = revoked

def Gone (s : LState) : Prop := s.stepped = true ∧ s.packed = revoked

/-- an observation that shows no usable lease on any path -/
def NoLease : Out → Prop
  | .state o _ => o.valid = false
  | .probe a e l => a = false ∧ e = false ∧ l = false
  | .gone => True

theorem observe_revoked (s : LState) (h : s.packed = revoked) : (observe s).valid = false := by
  simp [observe, h, isValid_revoked]

theorem step_gone (c : Cfg) (s : LState) (op : Op) (h : Gone s) :
    Gone (step c s op).1 ∧ NoLease (step c s op).2.1 := by
  obtain ⟨hs, hp⟩ := h
  cases op <;> simp [step, hs, hp, Gone, NoLease, observe, isValid_revoked]

theorem run_gone (c : Cfg) (ops : List Op) : ∀ (s : LState), Gone s →
    (∀ o ∈ (run c s ops).1, NoLease o) ∧ Gone (run c s ops).2.2 := by
  induction ops with
  | nil => intro s h; simp [run, h]
  | cons op ops ih =>
    intro s h
    obtain ⟨hg, hn⟩ := step_gone c s op h
    obtain ⟨h1, h2⟩ := ih _ hg
    simp only [run]
    refine ⟨?_, h2⟩
    intro o ho
    simp only [List.mem_cons] at ho
    rcases ho with rfl | ho
    · exact hn
    · exact h1 o ho

theorem handleAppendResult_stepped (c : Cfg) (s : LState) (p rt : Nat) (r : AppendRes) :
    (handleAppendResult c s p rt r).1.stepped = s.stepped := by
  unfold handleAppendResult renewFrom
  cases r <;> simp <;> repeat (first | split | rfl | simp)

theorem onVoteRequest_stepped (s : LState) (t : Nat) : (onVoteRequest s t).1.stepped = s.stepped := by
  unfold onVoteRequest; split <;> rfl
theorem onAppendEntries_stepped (s : LState) (t : Nat) : (onAppendEntries s t).1.stepped = s.stepped := by
  unfold onAppendEntries; split <;> rfl
theorem onConfUpdate_stepped (s : LState) (t : Nat) : (onConfUpdate s t).1.stepped = s.stepped := by
  unfold onConfUpdate; split <;> rfl

theorem step_wf (c : Cfg) (s : LState) (op : Op) (h : WF s) : WF (step c s op).1 := by
  by_cases hs : s.stepped = true
  · have := (step_gone c s op ⟨hs, h hs⟩).1
    intro _; exact this.2
  · have hs' : s.stepped = false := by simpa using hs
    cases op with
    | clock t => intro h'; simp [step, hs'] at h'
    | read => intro h'; simp [step, hs'] at h'
    | hb => intro h'; simp [step, hs', heartbeat] at h'
    | bf => intro _; simp [step, hs', becomeFollower]
    | vote t => intro h'; simp [step, hs', onVoteRequest_stepped] at h'
    | ae t => intro h'; simp [step, hs', onAppendEntries_stepped] at h'
    | cu t => intro h'; simp [step, hs', onConfUpdate_stepped] at h'
    | ack p rt r rd => intro h'; simp [step, hs', handleAppendResult_stepped] at h'

theorem run_wf (c : Cfg) (ops : List Op) : ∀ s, WF s → WF (run c s ops).2.2 := by
  induction ops with
  | nil => intro s h; simpa [run] using h
  | cons op ops ih => intro s h; simpa [run] using ih _ (step_wf c s op h)

theorem run_append (c : Cfg) (a b : List Op) : ∀ s,
    (run c s (a ++ b)).1 = (run c s a).1 ++ (run c (run c s a).2.2 b).1 := by
  induction a with
  | nil => intro s; simp [run]
  | cons op a ih => intro s; simp [run, ih]

/-- **Every role change revokes, and nothing is served from the fast paths afterwards**: for every state reachable
    by any op list, processing `BecomeFollower` leaves the revoked word, and every later observation — whatever
    acknowledgements, heartbeats, clock values or inbound events follow — shows no usable lease. -/
theorem role_change_revokes_forever (c : Cfg) (s : LState) (h : WF s) (pre post : List Op) :
    ∀ o ∈ (run c (run c s (pre ++ [.bf])).2.2 post).1, NoLease o := by
  have hwf := run_wf c pre s h
  have hrun : (run c s (pre ++ [.bf])).2.2 = (step c (run c s pre).2.2 .bf).1 := by
    have : ∀ (a : List Op) (s : LState), (run c s (a ++ [.bf])).2.2 = (step c (run c s a).2.2 .bf).1 := by
      intro a; induction a with
      | nil => intro s; simp [run]
      | cons op a ih => intro s; simp [run, ih]
    exact this pre s
  rw [hrun]
  have hg : Gone (step c (run c s pre).2.2 .bf).1 := by
    by_cases hs : (run c s pre).2.2.stepped = true
    · exact (step_gone c _ .bf ⟨hs, hwf hs⟩).1
    · have hs' : (run c s pre).2.2.stepped = false := by simpa using hs
      simp [step, hs', becomeFollower, Gone]
  exact (run_gone c post _ hg).1
/-- non-vacuity: a leader holding a valid lease, then the role change -/
example : (run ⟨3, [], 250⟩ (initState 2 1 [1, 2, 2])
    [.clock 10, .hb, .ack 2 2 (.success 3) 1, .read, .bf, .read]).1.drop 3
    = [.probe true true true, .state ⟨2, 3, 0, 0, false⟩ (some true), .probe false false false] := by decide

/-- the step-down decisions (same definition as the monitor's `isTrigger`) -/
theorem trigger_cases (term : Nat) (op : Op) : isTrigger term op = true →
    (∃ t, op = .vote t ∧ t > term) ∨ (∃ t, op = .ae t ∧ t > term) ∨ (∃ t, op = .cu t ∧ t > term) ∨
    (∃ p rt r rd, op = .ack p rt r rd ∧ r ≠ .netErr) := by
  intro h
  cases op with
  | vote t => left; exact ⟨t, rfl, by simpa [isTrigger] using h⟩
  | ae t => right; left; exact ⟨t, rfl, by simpa [isTrigger] using h⟩
  | cu t => right; right; left; exact ⟨t, rfl, by simpa [isTrigger] using h⟩
  | ack p rt r rd =>
    right; right; right
    refine ⟨p, rt, r, rd, rfl, ?_⟩
    intro hr; subst hr; simp [isTrigger] at h
  | _ => simp [isTrigger] at h

/-- Full-strength statement of "stepping down invalidates the lease at once": from the moment the leader handles an
    event that makes it step down, no observation shows a usable lease. -/
def RevokedFromStepDownStatement : Prop :=
  ∀ (c : Cfg) (s : LState) (op : Op) (ops : List Op),
    s.stepped = false → (∀ x ∈ s.logTerms, x ≤ s.term) → isTrigger s.term op = true →
    NoLease (step c s op).2.1 ∧ ∀ o ∈ (run c (step c s op).1 ops).1, NoLease o

/-- F13 witness: higher-term AppendEntries (revoked, term NOT adopted), then a queued AppendResult of the leader's
    own term re-arms the lease before `BecomeFollower` is processed. -/
def f13Cfg : Cfg := ⟨3, [], 250⟩
def f13State : LState := (run f13Cfg (initState 2 1 [1, 2, 2]) [.clock 10, .hb]).2.2
theorem f13_rearm_witness :
    (run f13Cfg (step f13Cfg f13State (.ae 3)).1 [.ack 2 2 (.success 3) 1, .read]).1
      = [.state ⟨2, 3, 2, 260, true⟩ (some true), .probe true true true] := by decide

/-- F13b witness: the ClusterConfUpdate step-down branch does not revoke at all until the role changes. -/
def f13bState : LState := (run f13Cfg (initState 2 1 [1, 2, 2]) [.clock 10, .hb, .ack 2 2 (.success 3) 1]).2.2
theorem f13b_no_revoke_witness :
    (step f13Cfg f13bState (.cu 3)).2.1 = .state ⟨2, 3, 2, 260, true⟩ (some true) := by decide

theorem revoked_from_stepdown_false : ¬ RevokedFromStepDownStatement := by
  intro h
  have := (h f13Cfg f13State (.ae 3) [.ack 2 2 (.success 3) 1, .read] (by decide) (by decide) (by decide)).2
  rw [f13_rearm_witness] at this
  have h2 := this (.probe true true true) (by simp)
  simp [NoLease] at h2

/-- the triggers in which the leader adopts the higher term before it queues `BecomeFollower` -/
def adopts (term : Nat) : Op → Bool
  | .vote t => t > term
  | .ack _ _ .netErr _ => false
  | .ack _ rt (.higherTerm t) _ => rt > term || (rt == term && t > term)
  | .ack _ rt _ _ => rt > term
  | _ => false

/-- lease revoked and no log entry of the (adopted) current term: no renewal is possible any more -/
def Dead (s : LState) : Prop := s.packed = revoked ∧ ∀ x ∈ s.logTerms, x < s.term

theorem entryTerm_mem (s : LState) (i t : Nat) (h : entryTerm s i = some t) : t ∈ s.logTerms := by
  unfold entryTerm at h
  split at h
  · cases h
  · exact List.mem_of_getElem? h

theorem majorityMatched_none_of_dead (s : LState) (m : List Nat) (h : ∀ x ∈ s.logTerms, x < s.term) :
    majorityMatched s m = none := by
  unfold majorityMatched
  simp only
  split
  · rfl
  · split
    · rename_i t ht
      have := h t (entryTerm_mem s _ t ht)
      have : t ≠ s.term := by omega
      simp [this]
    · rfl

theorem handleAppendResult_dead (c : Cfg) (s : LState) (p rt : Nat) (r : AppendRes) (h : Dead s) :
    Dead (handleAppendResult c s p rt r).1 := by
  obtain ⟨hp, hl⟩ := h
  unfold handleAppendResult
  cases r with
  | netErr => exact ⟨hp, hl⟩
  | noResult =>
    simp only
    split
    · exact ⟨hp, hl⟩
    · split
      · rename_i h1 h2; exact ⟨rfl, fun x hx => by have := hl x hx; simp only; omega⟩
      · exact ⟨hp, hl⟩
  | conflict =>
    simp only
    split
    · exact ⟨hp, hl⟩
    · split
      · rename_i h1 h2; exact ⟨rfl, fun x hx => by have := hl x hx; simp only; omega⟩
      · exact ⟨hp, hl⟩
  | higherTerm t =>
    simp only
    split
    · exact ⟨hp, hl⟩
    · split
      · rename_i h1 h2; exact ⟨rfl, fun x hx => by have := hl x hx; simp only; omega⟩
      · split
        · rename_i h3; exact ⟨rfl, fun x hx => by have := hl x hx; simp only; omega⟩
        · exact ⟨hp, hl⟩
  | success mi =>
    simp only
    split
    · exact ⟨hp, hl⟩
    · split
      · rename_i h1 h2; exact ⟨rfl, fun x hx => by have := hl x hx; simp only; omega⟩
      · -- same term: neither commit nor quorum can be confirmed without an entry of the current term
        have hl1 : ∀ x ∈ ({ s with matchIdx := updateMatch s.matchIdx p mi } : LState).logTerms,
            x < ({ s with matchIdx := updateMatch s.matchIdx p mi } : LState).term := hl
        have hnc : calcNewCommit c { s with matchIdx := updateMatch s.matchIdx p mi } = none := by
          unfold calcNewCommit; rw [majorityMatched_none_of_dead _ _ hl1]
        have hq : quorumConfirmed c { s with matchIdx := updateMatch s.matchIdx p mi } = false := by
          unfold quorumConfirmed; rw [majorityMatched_none_of_dead _ _ hl1]; rfl
        split
        · exact ⟨hp, hl⟩
        · simp only [hnc, hq]
          exact ⟨hp, hl⟩

theorem step_dead (c : Cfg) (s : LState) (op : Op) (h : Dead s) :
    Dead (step c s op).1 ∧ NoLease (step c s op).2.1 := by
  have hv : ∀ s' : LState, Dead s' → (observe s').valid = false := fun s' h' => observe_revoked s' h'.1
  obtain ⟨hp, hl⟩ := h
  cases op with
  | clock t => exact ⟨⟨hp, hl⟩, by simp [step, NoLease, observe, hp, isValid_revoked]⟩
  | read => exact ⟨⟨hp, hl⟩, by simp [step, NoLease, hp, isValid_revoked, isValidForLeader_revoked]⟩
  | hb =>
    simp only [step]; split
    · exact ⟨⟨hp, hl⟩, trivial⟩
    · exact ⟨⟨hp, hl⟩, by simp [NoLease, observe, heartbeat, hp, isValid_revoked]⟩
  | bf =>
    simp only [step]; split
    · exact ⟨⟨hp, hl⟩, trivial⟩
    · exact ⟨⟨rfl, hl⟩, by simp [NoLease, observe, becomeFollower, isValid_revoked]⟩
  | vote t =>
    simp only [step]; split
    · exact ⟨⟨hp, hl⟩, trivial⟩
    · unfold onVoteRequest; split
      · rename_i h1
        exact ⟨⟨rfl, fun x hx => by have := hl x hx; simp only; omega⟩, by simp [NoLease, observe, isValid_revoked]⟩
      · exact ⟨⟨hp, hl⟩, by simp [NoLease, observe, hp, isValid_revoked]⟩
  | ae t =>
    simp only [step]; split
    · exact ⟨⟨hp, hl⟩, trivial⟩
    · unfold onAppendEntries; split
      · exact ⟨⟨hp, hl⟩, by simp [NoLease, observe, hp, isValid_revoked]⟩
      · exact ⟨⟨rfl, hl⟩, by simp [NoLease, observe, isValid_revoked]⟩
  | cu t =>
    simp only [step]; split
    · exact ⟨⟨hp, hl⟩, trivial⟩
    · unfold onConfUpdate; split <;> exact ⟨⟨hp, hl⟩, by simp [NoLease, observe, hp, isValid_revoked]⟩
  | ack p rt r rd =>
    simp only [step]; split
    · exact ⟨⟨hp, hl⟩, trivial⟩
    · have hd := handleAppendResult_dead c s p rt r ⟨hp, hl⟩
      exact ⟨hd, by simpa [NoLease] using hv _ hd⟩

theorem run_dead (c : Cfg) (ops : List Op) : ∀ s, Dead s → ∀ o ∈ (run c s ops).1, NoLease o := by
  induction ops with
  | nil => intro s _ o ho; simp [run] at ho
  | cons op ops ih =>
    intro s h o ho
    obtain ⟨hd, hn⟩ := step_dead c s op h
    simp only [run, List.mem_cons] at ho
    rcases ho with rfl | ho
    · exact hn
    · exact ih _ hd o ho

/-- **Partial theorem (exact excluded trigger: the step-down was decided by a higher-term AppendEntries or
    ClusterConfUpdate, the two branches that do not adopt the term).** For the triggers that adopt the higher term
    — VoteRequest, higher response term, embedded HigherTerm result — the lease is revoked at once and stays
    unusable under every later sequence of acknowledgements, heartbeats, clock values and inbound events. -/
theorem revoked_from_stepdown_partial (c : Cfg) (s : LState) (op : Op) (ops : List Op)
    (hs : s.stepped = false) (hlog : ∀ x ∈ s.logTerms, x ≤ s.term) (htrig : adopts s.term op = true) :
    NoLease (step c s op).2.1 ∧ ∀ o ∈ (run c (step c s op).1 ops).1, NoLease o := by
  have hd : Dead (step c s op).1 ∧ NoLease (step c s op).2.1 := by
    cases op with
    | vote t =>
      have ht : s.term < t := by simpa [adopts] using htrig
      simp only [step, hs, onVoteRequest, ht, if_true]
      exact ⟨⟨rfl, fun x hx => by have := hlog x hx; show x < t; omega⟩, by simp [NoLease, observe, isValid_revoked]⟩
    | ack p rt r rd =>
      simp only [step, hs]
      have key : Dead (handleAppendResult c s p rt r).1 := by
        unfold handleAppendResult
        cases r with
        | netErr => simp [adopts] at htrig
        | noResult =>
          have ht : s.term < rt := by simpa [adopts] using htrig
          have h1 : ¬ rt < s.term := by omega
          simp only [h1, ht, if_true, if_false]
          exact ⟨rfl, fun x hx => by have := hlog x hx; simp only; omega⟩
        | conflict =>
          have ht : s.term < rt := by simpa [adopts] using htrig
          have h1 : ¬ rt < s.term := by omega
          simp only [h1, ht, if_true, if_false]
          exact ⟨rfl, fun x hx => by have := hlog x hx; simp only; omega⟩
        | success mi =>
          have ht : s.term < rt := by simpa [adopts] using htrig
          have h1 : ¬ rt < s.term := by omega
          simp only [h1, ht, if_true, if_false]
          exact ⟨rfl, fun x hx => by have := hlog x hx; simp only; omega⟩
        | higherTerm t =>
          simp only [adopts, Bool.or_eq_true, decide_eq_true_eq, Bool.and_eq_true, beq_iff_eq] at htrig
          rcases htrig with ht | ⟨he, ht⟩
          · have h1 : ¬ rt < s.term := by omega
            simp only [h1, ht, if_true, if_false]
            exact ⟨rfl, fun x hx => by have := hlog x hx; simp only; omega⟩
          · subst he
            simp only [Nat.lt_irrefl, if_false, ht, if_true]
            exact ⟨rfl, fun x hx => by have := hlog x hx; simp only; omega⟩
      exact ⟨key, by simpa [NoLease] using observe_revoked _ key.1⟩
    | _ => simp [adopts] at htrig
  exact ⟨hd.2, run_dead c ops _ hd.1⟩
/-- non-vacuity of the partial theorem's hypotheses: a leader with a valid lease receives a higher-term vote request -/
example : f13bState.stepped = false ∧ (∀ x ∈ f13bState.logTerms, x ≤ f13bState.term) ∧
    adopts f13bState.term (.vote 3) = true ∧ (observe f13bState).valid = true := by decide

end DEngine.C12
