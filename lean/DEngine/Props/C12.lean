import DEngine.Model.Lease
import DEngine.Lemmas.Lease
import DEngine.Props.C34
import DEngine.Lemmas.LeaseTiming
/-!
# C12 — Lease reads are served only under a valid leader lease

Part (a): the packed `(term & 0xFFFF, 48-bit deadline)` word — round trip, validity arithmetic, the 16-bit term
wrap, the `pack` assertion. Part (b): revocation — `revoke` invalidates, the role change always revokes and no fast
path read is served afterwards; `revoked_from_stepdown`: from the moment the leader handles any event that makes
it step down, no observation shows a usable lease (full; it was false before the fixes 05b4801 — AppendEntries
branch — and the F13/F13b fix — ClusterConfUpdate branch —, whose old witnesses are regression cases). Part (c) (timing) is in the second half of this file.
Config clause: `DEngine.C34.lease_lt_election` (re-used, not re-modelled).
-/
namespace DEngine.C12
open DEngine.Lease

/-! ## (a) packing -/

/-- `pack` panics (assertion) exactly for deadlines that need more than 48 bits. -/
theorem pack_panics_iff (t d : UInt64) : pack t d = none ↔ d.toNat ≥ 2 ^ 48 := pack_eq_none_iff t d

/-- **pack/unpack round trip incl. the 16-bit term wrap**: the term comes back modulo 2^16, the deadline exactly. -/
theorem pack_roundtrip {t d w : UInt64} (h : pack t d = some w) :
    (unpack w).1.toNat = t.toNat % 65536 ∧ (unpack w).2 = d := DEngine.Lease.pack_roundtrip h
example : pack 65537 1000 = some 281474976711656 ∧ unpack 281474976711656 = (1, 1000) := by decide

/-- validity arithmetic of the ReadActor / embedded fast path test -/
theorem is_valid_iff {t d w : UInt64} (h : pack t d = some w) (now : UInt64) :
    isValid w now = true ↔ now.toNat < d.toNat := by
  rw [isValid_pack h]; simp [UInt64.lt_iff_toNat_lt]

/-- validity arithmetic of the leader-internal test: term compared modulo 2^16 -/
theorem is_valid_for_leader_iff {t d w : UInt64} (h : pack t d = some w) (cur now : UInt64) :
    isValidForLeader w cur now = true ↔ (t.toNat % 65536 = cur.toNat % 65536 ∧ now.toNat < d.toNat) := by
  rw [isValidForLeader_pack h]; simp [UInt64.lt_iff_toNat_lt]

/-- the 16-bit wrap: a lease written in term `t` is accepted for every current term congruent to `t` mod 2^16 -/
theorem term_wrap_alias (w cur cur' now : UInt64) (h : cur.toNat % 65536 = cur'.toNat % 65536) :
    isValidForLeader w cur now = isValidForLeader w cur' now := isValidForLeader_congr_mod w cur cur' now h
/-- concrete collision: a term-1 lease is valid for current term 65537 -/
example : pack 1 1000 = some 281474976711656 ∧ isValidForLeader 281474976711656 65537 0 = true := by decide

/-- the deadline of a renewal is `send_ts.saturating_add(lease)`, over the naturals -/
theorem deadline_arith (sendTs lease : UInt64) :
    (satAdd sendTs lease).toNat = min (sendTs.toNat + lease.toNat) (2 ^ 64 - 1) := satAdd_toNat sendTs lease

/-! ## (b) revocation -/

/-- `revoke()` invalidates both tests at every instant and for every term. -/
theorem revoke_invalidates (cur now : UInt64) :
    isValid revoked now = false ∧ isValidForLeader revoked cur now = false :=
  ⟨isValid_revoked now, isValidForLeader_revoked cur now⟩

/-- invariant of the op machine: once the role is Follower the lease word is the revoked word -/
def WF (s : LState) : Prop := s.stepped = true → s.packed = revoked

def Gone (s : LState) : Prop := s.stepped = true ∧ s.packed = revoked

/-- an observation that shows no usable lease on any path -/
def NoLease : Out → Prop
  | .state o _ => o.valid = false
  | .probe a e l => a = false ∧ e = false ∧ l = false
  | .gone => True

theorem observe_revoked (s : LState) (h : s.packed = revoked) : (observe s).valid = false := by
  simp [observe, h, isValid_revoked]

theorem step_gone (c : Cfg) (s : LState) (op : Op) (h : Gone s) :
    Gone (step c s op).1 ∧ NoLease (step c s op).2.1 := by
  obtain ⟨hs, hp⟩ := h
  cases op <;> simp [step, hs, hp, Gone, NoLease, observe, isValid_revoked]

theorem run_gone (c : Cfg) (ops : List Op) : ∀ (s : LState), Gone s →
    (∀ o ∈ (run c s ops).1, NoLease o) ∧ Gone (run c s ops).2.2 := by
  induction ops with
  | nil => intro s h; simp [run, h]
  | cons op ops ih =>
    intro s h
    obtain ⟨hg, hn⟩ := step_gone c s op h
    obtain ⟨h1, h2⟩ := ih _ hg
    simp only [run]
    refine ⟨?_, h2⟩
    intro o ho
    simp only [List.mem_cons] at ho
    rcases ho with rfl | ho
    · exact hn
    · exact h1 o ho

theorem handleAppendResult_stepped (c : Cfg) (s : LState) (p rt : Nat) (r : AppendRes) :
    (handleAppendResult c s p rt r).1.stepped = s.stepped := by
  unfold handleAppendResult renewFrom
  cases r <;> simp <;> repeat (first | split | rfl | simp)

theorem onVoteRequest_stepped (s : LState) (t : Nat) : (onVoteRequest s t).1.stepped = s.stepped := by
  unfold onVoteRequest; split <;> rfl
theorem onAppendEntries_stepped (s : LState) (t : Nat) : (onAppendEntries s t).1.stepped = s.stepped := by
  unfold onAppendEntries; split <;> rfl
theorem onConfUpdate_stepped (s : LState) (t : Nat) : (onConfUpdate s t).1.stepped = s.stepped := by
  unfold onConfUpdate; split <;> rfl

theorem step_wf (c : Cfg) (s : LState) (op : Op) (h : WF s) : WF (step c s op).1 := by
  by_cases hs : s.stepped = true
  · have := (step_gone c s op ⟨hs, h hs⟩).1
    intro _; exact this.2
  · have hs' : s.stepped = false := by simpa using hs
    cases op with
    | clock t => intro h'; simp [step, hs'] at h'
    | read => intro h'; simp [step, hs'] at h'
    | hb => intro h'; simp [step, hs', heartbeat] at h'
    | bf => intro _; simp [step, hs', becomeFollower]
    | vote t => intro h'; simp [step, hs', onVoteRequest_stepped] at h'
    | ae t => intro h'; simp [step, hs', onAppendEntries_stepped] at h'
    | cu t => intro h'; simp [step, hs', onConfUpdate_stepped] at h'
    | ack p rt r rd => intro h'; simp [step, hs', handleAppendResult_stepped] at h'

theorem run_wf (c : Cfg) (ops : List Op) : ∀ s, WF s → WF (run c s ops).2.2 := by
  induction ops with
  | nil => intro s h; simpa [run] using h
  | cons op ops ih => intro s h; simpa [run] using ih _ (step_wf c s op h)

theorem run_append (c : Cfg) (a b : List Op) : ∀ s,
    (run c s (a ++ b)).1 = (run c s a).1 ++ (run c (run c s a).2.2 b).1 := by
  induction a with
  | nil => intro s; simp [run]
  | cons op a ih => intro s; simp [run, ih]

/-- **Every role change revokes, and nothing is served from the fast paths afterwards**: for every state reachable
    by any op list, processing `BecomeFollower` leaves the revoked word, and every later observation — whatever
    acknowledgements, heartbeats, clock values or inbound events follow — shows no usable lease. -/
theorem role_change_revokes_forever (c : Cfg) (s : LState) (h : WF s) (pre post : List Op) :
    ∀ o ∈ (run c (run c s (pre ++ [.bf])).2.2 post).1, NoLease o := by
  have hwf := run_wf c pre s h
  have hrun : (run c s (pre ++ [.bf])).2.2 = (step c (run c s pre).2.2 .bf).1 := by
    have : ∀ (a : List Op) (s : LState), (run c s (a ++ [.bf])).2.2 = (step c (run c s a).2.2 .bf).1 := by
      intro a; induction a with
      | nil => intro s; simp [run]
      | cons op a ih => intro s; simp [run, ih]
    exact this pre s
  rw [hrun]
  have hg : Gone (step c (run c s pre).2.2 .bf).1 := by
    by_cases hs : (run c s pre).2.2.stepped = true
    · exact (step_gone c _ .bf ⟨hs, hwf hs⟩).1
    · have hs' : (run c s pre).2.2.stepped = false := by simpa using hs
      simp [step, hs', becomeFollower, Gone]
  exact (run_gone c post _ hg).1
/-- non-vacuity: a leader holding a valid lease, then the role change -/
example : (run ⟨3, [], 250⟩ (initState 2 1 [1, 2, 2])
    [.clock 10, .hb, .ack 2 2 (.success 3) 1, .read, .bf, .read]).1.drop 3
    = [.probe true true true, .state ⟨2, 3, 0, 0, false⟩ (some true), .probe false false false] := by decide

/-- the step-down decisions (same definition as the monitor's `isTrigger`) -/
theorem trigger_cases (term : Nat) (op : Op) : isTrigger term op = true →
    (∃ t, op = .vote t ∧ t > term) ∨ (∃ t, op = .ae t ∧ t > term) ∨ (∃ t, op = .cu t ∧ t > term) ∨
    (∃ p rt r rd, op = .ack p rt r rd ∧ r ≠ .netErr) := by
  intro h
  cases op with
  | vote t => left; exact ⟨t, rfl, by simpa [isTrigger] using h⟩
  | ae t => right; left; exact ⟨t, rfl, by simpa [isTrigger] using h⟩
  | cu t => right; right; left; exact ⟨t, rfl, by simpa [isTrigger] using h⟩
  | ack p rt r rd =>
    right; right; right
    refine ⟨p, rt, r, rd, rfl, ?_⟩
    intro hr; subst hr; simp [isTrigger] at h
  | _ => simp [isTrigger] at h

/-- Full-strength statement of "stepping down invalidates the lease at once": from the moment the leader handles an
    event that makes it step down, no observation shows a usable lease. -/
def RevokedFromStepDownStatement : Prop :=
  ∀ (c : Cfg) (s : LState) (op : Op) (ops : List Op),
    s.stepped = false → (∀ x ∈ s.logTerms, x ≤ s.term) → isTrigger s.term op = true →
    NoLease (step c s op).2.1 ∧ ∀ o ∈ (run c (step c s op).1 ops).1, NoLease o

def f13Cfg : Cfg := ⟨3, [], 250⟩
def f13State : LState := (run f13Cfg (initState 2 1 [1, 2, 2]) [.clock 10, .hb]).2.2
def f13bState : LState := (run f13Cfg (initState 2 1 [1, 2, 2]) [.clock 10, .hb, .ack 2 2 (.success 3) 1]).2.2
/-- the former F13 / F13b witnesses now show a revoked lease -/
example : (run f13Cfg (step f13Cfg f13State (.cu 3)).1 [.ack 2 2 (.success 3) 1, .read]).1
      = [.state ⟨3, 1, 0, 0, false⟩ (some true), .probe false false false] := by decide
example : (step f13Cfg f13bState (.cu 3)).2.1 = .state ⟨3, 3, 0, 0, false⟩ (some true) := by decide

/-- the triggers in which the leader adopts the higher term before it queues `BecomeFollower` -/
def adopts (term : Nat) : Op → Bool
  | .vote t => t > term
  | .ae t => t > term
  | .cu t => t > term
  | .ack _ _ .netErr _ => false
  | .ack _ rt (.higherTerm t) _ => rt > term || (rt == term && t > term)
  | .ack _ rt _ _ => rt > term
  | _ => false

/-- lease revoked and no log entry of the (adopted) current term: no renewal is possible any more -/
def Dead (s : LState) : Prop := s.packed = revoked ∧ ∀ x ∈ s.logTerms, x < s.term

theorem entryTerm_mem (s : LState) (i t : Nat) (h : entryTerm s i = some t) : t ∈ s.logTerms := by
  unfold entryTerm at h
  split at h
  · cases h
  · exact List.mem_of_getElem? h

theorem majorityMatched_none_of_dead (s : LState) (m : List Nat) (h : ∀ x ∈ s.logTerms, x < s.term) :
    majorityMatched s m = none := by
  unfold majorityMatched
  simp only
  split
  · rfl
  · split
    · rename_i t ht
      have := h t (entryTerm_mem s _ t ht)
      have : t ≠ s.term := by omega
      simp [this]
    · rfl

theorem handleAppendResult_dead (c : Cfg) (s : LState) (p rt : Nat) (r : AppendRes) (h : Dead s) :
    Dead (handleAppendResult c s p rt r).1 := by
  obtain ⟨hp, hl⟩ := h
  unfold handleAppendResult
  cases r with
  | netErr => exact ⟨hp, hl⟩
  | noResult =>
    simp only
    split
    · exact ⟨hp, hl⟩
    · split
      · rename_i h1 h2; exact ⟨rfl, fun x hx => by have := hl x hx; simp only; omega⟩
      · exact ⟨hp, hl⟩
  | conflict =>
    simp only
    split
    · exact ⟨hp, hl⟩
    · split
      · rename_i h1 h2; exact ⟨rfl, fun x hx => by have := hl x hx; simp only; omega⟩
      · exact ⟨hp, hl⟩
  | higherTerm t =>
    simp only
    split
    · exact ⟨hp, hl⟩
    · split
      · rename_i h1 h2; exact ⟨rfl, fun x hx => by have := hl x hx; simp only; omega⟩
      · split
        · rename_i h3; exact ⟨rfl, fun x hx => by have := hl x hx; simp only; omega⟩
        · exact ⟨hp, hl⟩
  | success mi =>
    simp only
    split
    · exact ⟨hp, hl⟩
    · split
      · rename_i h1 h2; exact ⟨rfl, fun x hx => by have := hl x hx; simp only; omega⟩
      · -- same term: neither commit nor quorum can be confirmed without an entry of the current term
        have hl1 : ∀ x ∈ ({ s with matchIdx := updateMatch s.matchIdx p mi } : LState).logTerms,
            x < ({ s with matchIdx := updateMatch s.matchIdx p mi } : LState).term := hl
        have hnc : calcNewCommit c { s with matchIdx := updateMatch s.matchIdx p mi } = none := by
          unfold calcNewCommit; rw [majorityMatched_none_of_dead _ _ hl1]
        have hq : quorumConfirmed c { s with matchIdx := updateMatch s.matchIdx p mi } = false := by
          unfold quorumConfirmed; rw [majorityMatched_none_of_dead _ _ hl1]; rfl
        split
        · exact ⟨hp, hl⟩
        · simp only [hnc, hq]
          exact ⟨hp, hl⟩

theorem step_dead (c : Cfg) (s : LState) (op : Op) (h : Dead s) :
    Dead (step c s op).1 ∧ NoLease (step c s op).2.1 := by
  have hv : ∀ s' : LState, Dead s' → (observe s').valid = false := fun s' h' => observe_revoked s' h'.1
  obtain ⟨hp, hl⟩ := h
  cases op with
  | clock t => exact ⟨⟨hp, hl⟩, by simp [step, NoLease, observe, hp, isValid_revoked]⟩
  | read => exact ⟨⟨hp, hl⟩, by simp [step, NoLease, hp, isValid_revoked, isValidForLeader_revoked]⟩
  | hb =>
    simp only [step]; split
    · exact ⟨⟨hp, hl⟩, trivial⟩
    · exact ⟨⟨hp, hl⟩, by simp [NoLease, observe, heartbeat, hp, isValid_revoked]⟩
  | bf =>
    simp only [step]; split
    · exact ⟨⟨hp, hl⟩, trivial⟩
    · exact ⟨⟨rfl, hl⟩, by simp [NoLease, observe, becomeFollower, isValid_revoked]⟩
  | vote t =>
    simp only [step]; split
    · exact ⟨⟨hp, hl⟩, trivial⟩
    · unfold onVoteRequest; split
      · rename_i h1
        exact ⟨⟨rfl, fun x hx => by have := hl x hx; simp only; omega⟩, by simp [NoLease, observe, isValid_revoked]⟩
      · exact ⟨⟨hp, hl⟩, by simp [NoLease, observe, hp, isValid_revoked]⟩
  | ae t =>
    simp only [step]; split
    · exact ⟨⟨hp, hl⟩, trivial⟩
    · unfold onAppendEntries; split
      · exact ⟨⟨hp, hl⟩, by simp [NoLease, observe, hp, isValid_revoked]⟩
      · rename_i h1
        exact ⟨⟨rfl, fun x hx => by have := hl x hx; simp only; omega⟩, by simp [NoLease, observe, isValid_revoked]⟩
  | cu t =>
    simp only [step]; split
    · exact ⟨⟨hp, hl⟩, trivial⟩
    · unfold onConfUpdate; split
      · exact ⟨⟨hp, hl⟩, by simp [NoLease, observe, hp, isValid_revoked]⟩
      · rename_i h1
        exact ⟨⟨rfl, fun x hx => by have := hl x hx; simp only; omega⟩, by simp [NoLease, observe, isValid_revoked]⟩
  | ack p rt r rd =>
    simp only [step]; split
    · exact ⟨⟨hp, hl⟩, trivial⟩
    · have hd := handleAppendResult_dead c s p rt r ⟨hp, hl⟩
      exact ⟨hd, by simpa [NoLease] using hv _ hd⟩

theorem run_dead (c : Cfg) (ops : List Op) : ∀ s, Dead s → ∀ o ∈ (run c s ops).1, NoLease o := by
  induction ops with
  | nil => intro s _ o ho; simp [run] at ho
  | cons op ops ih =>
    intro s h o ho
    obtain ⟨hd, hn⟩ := step_dead c s op h
    simp only [run, List.mem_cons] at ho
    rcases ho with rfl | ho
    · exact hn
    · exact ih _ hd o ho

/-- **Stepping down invalidates the lease at once and for good** (every trigger adopts the higher term: VoteRequest,
    AppendEntries, ClusterConfUpdate, higher response term, embedded HigherTerm result): the lease is revoked by
    the handler that decides the step-down and stays unusable under every later sequence of acknowledgements,
    heartbeats, clock values and inbound events. -/
theorem revoked_from_stepdown_adopting (c : Cfg) (s : LState) (op : Op) (ops : List Op)
    (hs : s.stepped = false) (hlog : ∀ x ∈ s.logTerms, x ≤ s.term) (htrig : adopts s.term op = true) :
    NoLease (step c s op).2.1 ∧ ∀ o ∈ (run c (step c s op).1 ops).1, NoLease o := by
  have hd : Dead (step c s op).1 ∧ NoLease (step c s op).2.1 := by
    cases op with
    | vote t =>
      have ht : s.term < t := by simpa [adopts] using htrig
      simp only [step, hs, onVoteRequest, ht, if_true]
      exact ⟨⟨rfl, fun x hx => by have := hlog x hx; show x < t; omega⟩, by simp [NoLease, observe, isValid_revoked]⟩
    | ae t =>
      have ht : ¬ s.term ≥ t := by have : t > s.term := by simpa [adopts] using htrig
                                   omega
      simp only [step, hs, onAppendEntries, ht, if_false]
      exact ⟨⟨rfl, fun x hx => by have := hlog x hx; show x < t; omega⟩, by simp [NoLease, observe, isValid_revoked]⟩
    | cu t =>
      have ht : ¬ s.term ≥ t := by have : t > s.term := by simpa [adopts] using htrig
                                   omega
      simp only [step, hs, onConfUpdate, ht, if_false]
      exact ⟨⟨rfl, fun x hx => by have := hlog x hx; show x < t; omega⟩, by simp [NoLease, observe, isValid_revoked]⟩
    | ack p rt r rd =>
      simp only [step, hs]
      have key : Dead (handleAppendResult c s p rt r).1 := by
        unfold handleAppendResult
        cases r with
        | netErr => simp [adopts] at htrig
        | noResult =>
          have ht : s.term < rt := by simpa [adopts] using htrig
          have h1 : ¬ rt < s.term := by omega
          simp only [h1, ht, if_true, if_false]
          exact ⟨rfl, fun x hx => by have := hlog x hx; simp only; omega⟩
        | conflict =>
          have ht : s.term < rt := by simpa [adopts] using htrig
          have h1 : ¬ rt < s.term := by omega
          simp only [h1, ht, if_true, if_false]
          exact ⟨rfl, fun x hx => by have := hlog x hx; simp only; omega⟩
        | success mi =>
          have ht : s.term < rt := by simpa [adopts] using htrig
          have h1 : ¬ rt < s.term := by omega
          simp only [h1, ht, if_true, if_false]
          exact ⟨rfl, fun x hx => by have := hlog x hx; simp only; omega⟩
        | higherTerm t =>
          simp only [adopts, Bool.or_eq_true, decide_eq_true_eq, Bool.and_eq_true, beq_iff_eq] at htrig
          rcases htrig with ht | ⟨he, ht⟩
          · have h1 : ¬ rt < s.term := by omega
            simp only [h1, ht, if_true, if_false]
            exact ⟨rfl, fun x hx => by have := hlog x hx; simp only; omega⟩
          · subst he
            simp only [Nat.lt_irrefl, if_false, ht, if_true]
            exact ⟨rfl, fun x hx => by have := hlog x hx; simp only; omega⟩
      exact ⟨key, by simpa [NoLease] using observe_revoked _ key.1⟩
    | _ => simp [adopts] at htrig
  exact ⟨hd.2, run_dead c ops _ hd.1⟩
/-- non-vacuity: a leader with a valid lease receives a higher-term vote request -/
example : f13bState.stepped = false ∧ (∀ x ∈ f13bState.logTerms, x ≤ f13bState.term) ∧
    adopts f13bState.term (.vote 3) = true ∧ (observe f13bState).valid = true := by decide

theorem adopts_eq_isTrigger (term : Nat) (op : Op) : adopts term op = isTrigger term op := by
  cases op with
  | ack p rt r rd => cases r <;> rfl
  | _ => rfl

/-- **(b), full strength.** -/
theorem revoked_from_stepdown : RevokedFromStepDownStatement := by
  intro c s op ops hs hlog htrig
  exact revoked_from_stepdown_adopting c s op ops hs hlog (by rw [adopts_eq_isTrigger]; exact htrig)

/-! ## (c) timing: a valid lease excludes another leader — under H_sticky and H_freshRound -/
open DEngine.LeaseTiming

/-- the two named hypotheses as one per-step guard -/
def Hyp (P : Params) : TState → Ev → Bool := fun s e => stickyOk P s e && freshOk P s e
/-- the model as coded: no extra guard -/
def AsCoded : TState → Ev → Bool := fun _ _ => true

/-- **Timing theorem.** Premises, all explicit:
    * `hcfg`  lease < election_timeout_min (provided by config validation: `lease_lt_election_of_validated`);
    * `H_sticky` (per step, `stickyOk`): a voter grants a vote to another node only when its own election timer
      has expired — the code does NOT provide this (F29, `h_sticky_needed`);
    * `H_freshRound` (per step, `freshOk` = `renewalFresh`): a renewal's deadline is at most
      (send time of a heartbeat round acknowledged by a majority) + lease — the code does NOT provide this
      (F12, `h_fresh_needed`, `h_fresh_needed_5`);
    * model assumptions: same-rate clocks, election timer restarted at AppendEntries receipt, timeout ≥ emin,
      a node of a higher term rejects the leader's AppendEntries, the leader revokes before voting.
    Conclusion: at every reachable instant (any interleaving, loss, duplication, reordering, delay) at which the
    fast-path lease test succeeds, no other node has won an election of a higher term. -/
theorem lease_excludes_other_leader (P : Params) (s0 s : TState) (evs : List Ev)
    (hcfg : P.lease < P.emin) (h0 : Inv P s0) (hrun : runT P (Hyp P) s0 evs = some s)
    (hvalid : leaseValid s = true) : otherLeader P s = false := by
  have hinv := inv_run P evs s0 s h0 hrun
  have hkey := deadline_before_win P s hinv hcfg
  have hnow : s.now < s.deadline := by simpa [leaseValid] using hvalid
  cases hol : otherLeader P s with
  | false => rfl
  | true =>
    unfold otherLeader at hol
    rw [List.any_eq_true] at hol
    obtain ⟨w, hw, hwt⟩ := hol
    have hwt' : P.T < w.term := by simpa using hwt
    have hle := (hinv.wins_ok w hw).1
    rcases hkey w hw hwt' with h | h <;> omega

/-- the same from the initial state (all nodes in term `T`, nobody has heard from the leader yet) -/
theorem lease_excludes_other_leader_init (P : Params) (s : TState) (evs : List Ev)
    (hcfg : P.lease < P.emin) (hrun : runT P (Hyp P) (init P) evs = some s)
    (hvalid : leaseValid s = true) : otherLeader P s = false :=
  lease_excludes_other_leader P (init P) s evs hcfg (inv_init P) hrun hvalid

/-- the configuration premise is what `ReadConsistencyConfig::validate` enforces (re-used from C34) -/
theorem lease_lt_election_of_validated (c : DEngine.Conf.Cfg) (h : DEngine.Conf.validate c = none) :
    c.lease.toNat < c.emin.toNat := by
  have := DEngine.C34.lease_lt_election c h
  omega

/-- outcome of a schedule: (lease valid, another node has won a higher term) -/
def outcome (P : Params) (hyp : TState → Ev → Bool) (evs : List Ev) : Option (Bool × Bool) :=
  (runT P hyp (init P) evs).map (fun s => (leaseValid s, otherLeader P s))

/-- non-vacuity of the theorem: a schedule satisfying both hypotheses on which the lease is valid -/
def okSchedule : List Ev := [.hb, .recvAE 1 1, .recvAE 2 1, .tick 3, .recvAck 1 1 true, .tick 100]
example : outcome ⟨3, 2, 250, 500⟩ (Hyp ⟨3, 2, 250, 500⟩) okSchedule = some (true, false) := by decide
/-- … and one on which an election happens legitimately after the lease ran out -/
def okElection : List Ev :=
  [.hb, .recvAE 1 1, .recvAck 1 1 true, .tick 501, .grant 1 1 3, .grant 2 1 3, .win 1 3]
example : outcome ⟨3, 2, 250, 500⟩ (Hyp ⟨3, 2, 250, 500⟩) okElection = some (false, true) := by decide

/-- The statement one would like for the code as it is (no extra hypothesis). -/
def LeaseSafeAsCodedStatement : Prop :=
  ∀ (P : Params) (evs : List Ev) (s : TState), P.lease < P.emin →
    runT P AsCoded (init P) evs = some s → leaseValid s = true → otherLeader P s = false

/-- F29 witness (3 voters: L = 0, F = 1, C = 2; asymmetric partition L–F and C–F connected, L–C cut):
    F acknowledges L's heartbeat at time 1 (lease valid until 251) and, at the same instant, votes for C whose
    timer expired long ago; C wins term 3 while L's lease is valid. Every renewal on this schedule is fresh
    (`freshOk` holds at every step): only H_sticky is violated. -/
def f29Schedule : List Ev :=
  [.hb, .recvAE 1 1, .recvAck 1 1 true, .grant 2 2 3, .grant 1 2 3, .win 2 3, .tick 5]
theorem h_sticky_needed :
    outcome ⟨3, 2, 250, 500⟩ (fun s e => freshOk ⟨3, 2, 250, 500⟩ s e) f29Schedule = some (true, true) ∧
    outcome ⟨3, 2, 250, 500⟩ (Hyp ⟨3, 2, 250, 500⟩) f29Schedule = none := by decide

/-- F12 witness (3 voters, every vote respects the voters' timers — `stickyOk` holds at every step): the ack of
    the round sent at 1 reaches L at 402, after the round of 401 was sent; the deadline becomes 651 instead of
    ≤ 251. F's timer (restarted at 1) fires at 501, C votes for it, F wins term 3 at 501 < 651. -/
def f12Schedule : List Ev :=
  [.hb, .recvAE 1 1, .tick 100, .hb, .tick 100, .hb, .tick 100, .hb, .tick 100, .hb, .tick 1,
   .recvAck 1 1 true, .tick 99, .grant 1 1 3, .grant 2 1 3, .win 1 3]
theorem h_fresh_needed :
    outcome ⟨3, 2, 250, 500⟩ (fun s e => stickyOk ⟨3, 2, 250, 500⟩ s e) f12Schedule = some (true, true) ∧
    outcome ⟨3, 2, 250, 500⟩ (Hyp ⟨3, 2, 250, 500⟩) f12Schedule = none := by decide

/-- F12b witness (5 voters, every vote respects the voters' timers): `quorum_confirmed` is computed from the
    monotone `match_index`. Followers 1 and 2 acknowledged the round of time 1; 10 s later only follower 1
    acknowledges the round of 10001, yet the stale match of follower 2 still makes the quorum: deadline 10251.
    Followers 2, 3, 4 (2's timer expired at 501, 3 and 4 never reached) elect 2 while L's lease is valid. -/
def f12bSchedule : List Ev :=
  [.hb, .recvAE 1 1, .recvAE 2 1, .recvAck 1 1 false, .recvAck 2 1 true, .tick 10000, .hb, .recvAE 1 10001,
   .recvAck 1 10001 true, .grant 2 2 3, .grant 3 2 3, .grant 4 2 3, .win 2 3, .tick 5]
theorem h_fresh_needed_5 :
    outcome ⟨5, 2, 250, 500⟩ (fun s e => stickyOk ⟨5, 2, 250, 500⟩ s e) f12bSchedule = some (true, true) ∧
    outcome ⟨5, 2, 250, 500⟩ (Hyp ⟨5, 2, 250, 500⟩) f12bSchedule = none := by
  decide

theorem lease_safe_as_coded_false : ¬ LeaseSafeAsCodedStatement := by
  intro h
  have hw : outcome ⟨3, 2, 250, 500⟩ AsCoded f29Schedule = some (true, true) := by decide
  unfold outcome at hw
  cases hr : runT ⟨3, 2, 250, 500⟩ AsCoded (init ⟨3, 2, 250, 500⟩) f29Schedule with
  | none => rw [hr] at hw; simp at hw
  | some s =>
    rw [hr] at hw
    simp only [Option.map_some, Option.some.injEq, Prod.mk.injEq] at hw
    have := h ⟨3, 2, 250, 500⟩ f29Schedule s (by decide) hr hw.1
    rw [hw.2] at this
    cases this

end DEngine.C12
