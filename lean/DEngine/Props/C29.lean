import DEngine.Lemmas.ClientQ
import DEngine.Lemmas.ClientQOut
import DEngine.Lemmas.ClientQCount
/-!
# C29 — Each write gets one correct response

Model: `DEngine.ClientQ` (M-CLIENTQ), tied to the real `LeaderState` by the `clientq` correspondence (every
response of every request is compared after every event, plus the final image of all queues and the log).

All theorems quantify over **every** configuration, every number `pre` of pre-existing entries and **every**
event sequence (`inv_reachable` is an induction over the event list; the per-step theorems hold in every state
satisfying the invariant).

* `batch_senders_own_entries` — for every in-flight batch of `pending_client_writes`: key = end index =
  `start + #senders − 1`, the batch lies in the log, sender `j` owns entry `start + j` (this is the statement
  "start index = last_entry_id + 1 equals the ids handed out by `pre_allocate_id_range`", which is what F7 broke),
  and the batch waits for apply.
* `commit_alone_answers_no_write` — advancing the commit index answers no client write (success is only sent from
  the apply path).
* `success_after_own_apply` — **full strength**: in every reachable state, for every event, a write answered
  `ok`/`casFail` in that step was answered by an apply event, its own entry (the entry carrying this request's
  command) has an index `i` that is committed and applied after the step, was not applied before it, and the answer
  is `ok` iff the state machine's result for index `i` in this very apply step is `true` (batch answers go to the
  sender whose entry they describe; a CAS answer reports the applied outcome).
* `no_success_without_apply` — no other event emits a success-class answer.
-/
namespace DEngine.C29
open DEngine.ClientQ

/-- indices of the results of `applyRange log kv a n` are exactly `a+1 ..= a+n` -/
theorem applyRange_idx (log : List LogEnt) : ∀ (n a kv : Nat), ∀ r ∈ (applyRange log kv a n).2, a < r.1 ∧ r.1 ≤ a + n := by
  intro n
  induction n with
  | zero => intro a kv r hr; simp [applyRange] at hr
  | succ n ih =>
    intro a kv r hr
    unfold applyRange at hr
    simp only at hr
    rcases List.mem_cons.mp hr with h | h
    · subst h; simp
    · have := ih (a + 1) _ r h
      omega

/-- **Invariant, exposed**: every in-flight batch is index-aligned with the log. -/
theorem batch_senders_own_entries (c : Cfg) (pre : Nat) (evs : List Ev) :
    let s := (run c (init c pre) evs).1
    ∀ e ∈ s.pcw,
      e.2.senders ≠ [] ∧ e.1 + 1 = e.2.start + e.2.senders.length ∧ e.1 ≤ s.log.length ∧ e.2.wait = true ∧
      ∀ j (h : j < e.2.senders.length), ∃ le, s.log[e.2.start + j - 1]? = some le ∧ isWriteOf e.2.senders[j] le := by
  intro s e he
  have m := (inv_reachable c pre evs).pcw e he
  exact ⟨m.nonempty, m.key, m.inLog, m.wait, m.own⟩

/-- every sender parked in `pending_write_apply` owns the (committed) entry it is keyed by -/
theorem apply_waiters_own_committed_entries (c : Cfg) (pre : Nat) (evs : List Ev) :
    let s := (run c (init c pre) evs).1
    ∀ e ∈ s.pwa, 1 ≤ e.1 ∧ e.1 ≤ s.commit ∧ ∃ le, s.log[e.1 - 1]? = some le ∧ isWriteOf e.2 le :=
  fun e he => (inv_reachable c pre evs).pwa e he

/-- a commit advance by itself answers no client write -/
theorem commit_alone_answers_no_write (c : Cfg) (pre : Nat) (evs : List Ev) (nc : Nat) :
    (drainWrites (run c (init c pre) evs).1 nc).2 = [] :=
  drainWrites_out_nil (inv_reachable c pre evs) nc

/-- The apply path: who gets `ok`/`casFail`, for which entry, with which outcome. -/
theorem apply_success_own {R : List Nat} {s : St} (h : Inv R s) (k : Nat) (id : Nat) (r : Resp)
    (hx : (id, r) ∈ (applyUpTo s k).2) (hr : r.grp = .succ) :
    ∃ i, 1 ≤ i ∧ (∃ le, s.log[i - 1]? = some le ∧ isWriteOf id le) ∧ i ≤ s.commit ∧ s.applied < i ∧
      i ≤ (applyUpTo s k).1.applied ∧
      (i, r == .ok) ∈ (applyRange s.log s.kv s.applied ((applyUpTo s k).1.applied - s.applied)).2 := by
  by_cases hk : applyTarget s k ≤ s.applied
  · rw [applyUpTo_noop hk] at hx; simp at hx
  · rcases applyUpTo_fields hk with ⟨ha, _, _, hout⟩
    rw [hout] at hx
    rw [ha]
    rcases List.mem_append.mp hx with hx | hx
    · unfold applyResponses at hx
      rcases List.mem_filterMap.mp hx with ⟨res, hres, hm⟩
      split at hm
      · rename_i e hfind
        have hin := List.mem_of_find?_eq_some hfind
        have hkey := List.find?_some hfind
        simp only [beq_iff_eq] at hkey
        rcases h.pwa e hin with ⟨h1, h2, h3⟩
        have hidx := applyRange_idx s.log _ s.applied s.kv res hres
        simp only [Option.some.injEq, Prod.mk.injEq] at hm
        rcases hm with ⟨hid, hrr⟩
        refine ⟨e.1, h1, by rw [← hid]; exact h3, h2, by rw [hkey]; exact hidx.1, by rw [hkey]; have := hidx.2; omega, ?_⟩
        have : (r == Resp.ok) = res.2 := by
          rw [← hrr]; cases res.2 <;> simp
        rw [this, hkey]
        exact hres
      · simp at hm
    · exact absurd ((Quiet.servePreads _ _) _ hx) (by rw [hr]; simp)

/-- an output without success-class answers -/
def NoSucc (o : Out) : Prop := ∀ x ∈ o, x.2.grp ≠ .succ

theorem NoSucc.of_quiet {o : Out} (h : Quiet o) : NoSucc o := fun x hx => by rw [h x hx]; simp

theorem noSucc_pushWrite (c : Cfg) (s : St) (op : WOp) : NoSucc (pushWrite c s op).2 := by
  unfold pushWrite
  simp only
  repeat' split
  all_goals intro x hx; simp at hx; try (subst hx; simp [Resp.grp])

theorem noSucc_pushRead (c : Cfg) (s : St) (p : Nat) : NoSucc (pushRead c s p).2 := by
  unfold pushRead
  simp only
  repeat' split
  all_goals intro x hx; simp at hx; try (subst hx; simp [Resp.grp, St.readVal])

theorem noSucc_pushScan (c : Cfg) (s : St) : NoSucc (pushScan c s).2 := by
  unfold pushScan
  intro x hx; simp at hx; subst hx
  split <;> simp [Resp.grp]

theorem noSucc_stepDown (s : St) : NoSucc (stepDown s).2 := by
  unfold stepDown
  intro x hx
  simp only [List.mem_append, answerAll, List.mem_map, List.mem_flatMap, List.mem_filterMap] at hx
  rcases hx with ((((((((h | h) | h) | h) | h) | h) | h) | h) | h)
  all_goals first
    | (rcases h with ⟨_, _, rfl⟩; simp [Resp.grp])
    | (rcases h with ⟨_, _, _, _, rfl⟩; simp [Resp.grp])
    | (rcases h with ⟨e, _, he⟩; cases ha : e.2.2 <;> simp [joinAnswer, ha] at he; subst he; simp [Resp.grp])

/-- **No event other than an apply completion emits a success-class answer** (in any state satisfying the
    invariant, hence in every reachable state). -/
theorem no_success_without_apply {R : List Nat} (c : Cfg) {s : St} (h : Inv R s) (e : Ev)
    (hne : ∀ k, e ≠ .apply k) : NoSucc (step c s e).2 := by
  unfold step
  split
  · exact NoSucc.of_quiet Quiet.nil
  · split
    · split
      · exact noSucc_pushWrite c s _
      · exact noSucc_pushRead c s _
      · exact noSucc_pushScan c s
      · exact NoSucc.of_quiet Quiet.nil
    · split
      · exact noSucc_pushWrite c s _
      · exact noSucc_pushRead c s _
      · exact noSucc_pushScan c s
      · exact NoSucc.of_quiet (Quiet.join c s _)
      · exact NoSucc.of_quiet (Quiet.flush c s)
      · exact NoSucc.of_quiet (Quiet.tick c s _)
      · exact NoSucc.of_quiet (Quiet.ackSuccess c h _ _)
      · exact NoSucc.of_quiet Quiet.nil
      · split
        · exact NoSucc.of_quiet (Quiet.ackHigherTerm s _)
        · split
          · exact NoSucc.of_quiet (Quiet.ackSuccess c h _ _)
          · exact NoSucc.of_quiet Quiet.nil
      · exact NoSucc.of_quiet Quiet.nil
      · exact NoSucc.of_quiet (Quiet.logFlushed c h)
      · rename_i k; exact absurd rfl (hne k)
      · exact noSucc_stepDown s
      · exact NoSucc.of_quiet (Quiet.fatalInbound s)
      · exact NoSucc.of_quiet Quiet.nil
      · exact NoSucc.of_quiet (Quiet.initNoop c s)

/-- **C29 (full strength), step form.** In a state satisfying the invariant, whatever the event: a request
    answered `ok` or `casFail` in this step was answered by an apply completion, and there is an index `i` such
    that (1) entry `i` carries this request's own command, (2) `i` is committed, (3) `i` has just been applied
    (not before this step, and it is within the applied prefix after it), (4) the answer is `ok` exactly when the
    state machine's result for index `i` in this apply step is `true`. -/
theorem success_after_own_apply_step {R : List Nat} (c : Cfg) {s : St} (h : Inv R s) (e : Ev) (id : Nat) (r : Resp)
    (hx : (id, r) ∈ (step c s e).2) (hr : r = .ok ∨ r = .casFail) :
    ∃ k, e = .apply k ∧ ∃ i, 1 ≤ i ∧
      (∃ le, (step c s e).1.log[i - 1]? = some le ∧ isWriteOf id le) ∧
      i ≤ (step c s e).1.commit ∧ s.applied < i ∧ i ≤ (step c s e).1.applied ∧
      (i, r == .ok) ∈ (applyRange s.log s.kv s.applied ((step c s e).1.applied - s.applied)).2 := by
  have hg : r.grp = .succ := by rcases hr with rfl | rfl <;> rfl
  by_cases hap : ∃ k, e = .apply k
  · rcases hap with ⟨k, rfl⟩
    refine ⟨k, rfl, ?_⟩
    have hrun : s.phase = .running ∧ c.leader = true := by
      unfold step at hx
      split at hx
      · simp at hx
      · rename_i hp
        split at hx
        · simp at hx
        · rename_i hl
          exact ⟨by simpa using hp, by simpa using hl⟩
    have hstep : step c s (.apply k) = applyUpTo s k := by
      unfold step
      simp [hrun.1, hrun.2]
    rw [hstep] at hx ⊢
    rcases apply_success_own h k id r hx hg with ⟨i, h1, h2, h3, h4, h5, h6⟩
    refine ⟨i, h1, ?_, ?_, h4, h5, h6⟩
    · by_cases hk : applyTarget s k ≤ s.applied
      · rw [applyUpTo_noop hk]; exact h2
      · rw [(applyUpTo_fields hk).2.1]; exact h2
    · by_cases hk : applyTarget s k ≤ s.applied
      · rw [applyUpTo_noop hk]; exact h3
      · rw [(applyUpTo_fields hk).2.2.1]; exact h3
  · exact absurd hg (no_success_without_apply c h e (fun k hk => hap ⟨k, hk⟩) _ hx)

/-- **C29 (full strength), over all histories**: the same statement in every state reachable from the initial
    leader state by any event sequence. -/
theorem success_after_own_apply (c : Cfg) (pre : Nat) (evs : List Ev) (e : Ev) (id : Nat) (r : Resp) :
    let s := (run c (init c pre) evs).1
    (id, r) ∈ (step c s e).2 → (r = .ok ∨ r = .casFail) →
    ∃ k, e = .apply k ∧ ∃ i, 1 ≤ i ∧
      (∃ le, (step c s e).1.log[i - 1]? = some le ∧ isWriteOf id le) ∧
      i ≤ (step c s e).1.commit ∧ s.applied < i ∧ i ≤ (step c s e).1.applied ∧
      (i, r == .ok) ∈ (applyRange s.log s.kv s.applied ((step c s e).1.applied - s.applied)).2 :=
  fun hx hr => success_after_own_apply_step c (inv_reachable c pre evs) e id r hx hr

/-! ### exactly one response -/

/-- **C29 `one_response_per_write` (full strength; holds for every kind of request).** For every configuration,
    pre-existing log length and event sequence, and every natural number `a`: the number of answers `a` has received
    over the whole history plus the number of queue positions (all nine queues) that hold `a` at the end is exactly 1
    if `a` has been issued as a request id, and 0 otherwise. So a request is never answered twice, never answered
    while still queued, never queued twice, and never lost. (Induction over all event sequences; conservation of
    ids per event — `cons_step` — uses the ownership invariant for the apply path.) -/
theorem one_response_per_write (c : Cfg) (pre : Nat) (evs : List Ev) (a : Nat) :
    (run c (init c pre) evs).1.pending.count a + (answeredIds (run c (init c pre) evs).2).count a =
      if a < (run c (init c pre) evs).1.nextId then 1 else 0 := by
  have := (acc_init c pre).run c evs (inv_init c pre) a
  simpa [St.pc] using this

/-- no request is answered twice -/
theorem answered_at_most_once (c : Cfg) (pre : Nat) (evs : List Ev) :
    (answeredIds (run c (init c pre) evs).2).Nodup := by
  rw [List.nodup_iff_count]
  intro a
  have := one_response_per_write c pre evs a
  split at this <;> omega

/-- an answered request is in no queue any more, and a queued one has not been answered -/
theorem answered_not_pending (c : Cfg) (pre : Nat) (evs : List Ev) (a : Nat)
    (h : a ∈ answeredIds (run c (init c pre) evs).2) : a ∉ (run c (init c pre) evs).1.pending := by
  intro hp
  have := one_response_per_write c pre evs a
  have h1 : 0 < (answeredIds (run c (init c pre) evs).2).count a := List.count_pos_iff.mpr h
  have h2 : 0 < (run c (init c pre) evs).1.pending.count a := List.count_pos_iff.mpr hp
  split at this <;> omega

/-- every issued request is queued or answered: none is lost -/
theorem issued_is_pending_or_answered (c : Cfg) (pre : Nat) (evs : List Ev) (a : Nat)
    (h : a < (run c (init c pre) evs).1.nextId) :
    a ∈ (run c (init c pre) evs).1.pending ∨ a ∈ answeredIds (run c (init c pre) evs).2 := by
  have := one_response_per_write c pre evs a
  rw [if_pos h] at this
  by_cases hp : a ∈ (run c (init c pre) evs).1.pending
  · exact Or.inl hp
  · right
    have : (run c (init c pre) evs).1.pending.count a = 0 := List.count_eq_zero.mpr hp
    apply List.count_pos_iff.mp
    omega

/-! Non-vacuity: a history in which a batch of three writes (put, CAS that succeeds, CAS that fails) is
    answered, each answer for the request's own index. -/
def cfg3 : Cfg :=
  { voters := 3, maxW := 0, maxR := 0, timeout := 1000, ptimeout := 2000, lease := 500, hb := 100, leader := true }
def batchTrace : List Ev :=
  [.noop, .ack 2 3 1, .write (.put 5), .write (.cas 5 7), .write (.cas 5 9), .flush, .ack 3 6 2]

set_option maxRecDepth 4000 in
example : (step cfg3 (run cfg3 (init cfg3 2) batchTrace).1 (.apply 6)).2 =
    [(0, .ok), (1, .ok), (2, .casFail)] := by decide
set_option maxRecDepth 4000 in
example : ((run cfg3 (init cfg3 2) batchTrace).1.pwa) = [(4, 0), (5, 1), (6, 2)] := by decide
set_option maxRecDepth 4000 in
example : ((run cfg3 (init cfg3 2) (batchTrace.take 6)).1.pcw.map fun e => (e.1, e.2.start, e.2.senders)) =
    [(6, 4, [0, 1, 2])] := by decide

end DEngine.C29
