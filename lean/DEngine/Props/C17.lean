import DEngine.Model.SnapStream
/-!
# C17 — Snapshot transfers are all-or-nothing

Model: `DEngine.SnapStream` (`process_snapshot_stream` loop + `SnapshotAssembler` + `apply_snapshot_stream_from_leader`).
Tied to the code by the `snapstream` family: the real receive path with a real File state machine, fed mutated chunk
streams of a real snapshot (drops, duplicates, reordering, checksum corruption, leader/term change, header changes,
missing metadata, early close, never-closed channel → timeout).

* `stream_ok_iff` (full, induction over arbitrary chunk lists): `process_snapshot_stream` returns Ok **iff** the stream
  is exactly chunks 0..n−1 of one (term, leader), all checksums valid, n = the announced total, label on the first
  chunk, stream closed; the assembled file is then the concatenation of the payloads.
* `stream_all_or_nothing` / `err_leaves_everything` (full): Ok ⇒ exact stream, archive unpacked, state replaced, final
  file = concatenation; Err of ANY kind ⇒ state machine and final files untouched, no final file (only the temp file).
* `finalize_crash_atomic`: at every process-crash point the final files are untouched or hold the complete, validated
  concatenation.

History: until /repo 814e6ba `finalize` renamed the temp file to its final name *before* the archive was validated, so
"Err ⇒ final files untouched" was false (F33: a truncated transfer whose first chunk announces fewer chunks, or a payload
altered together with its CRC, was reported as failed and still left a corrupt final snapshot file). Fixed; the witness
streams stay in `corpus/snapstream/findings.case` as regression cases.
-/
namespace DEngine.C17
open DEngine.SnapStream

/-- State after accepting all of `cs` (each chunk's seq is the expected one, so the ACKs are determined). -/
def advance (s : St) (cs : List Chunk) : St :=
  { s with expected := s.expected + cs.length, written := s.written ++ cs.map (·.data),
           acks := s.acks ++ cs.map (fun c => ⟨c.seq, .acc, c.seq + 1⟩) }

theorem advance_nil (s : St) : advance s [] = s := by simp [advance]

/-- One iteration with the leader already pinned. -/
theorem step_pinned (s : St) (c : Chunk) (t l : Nat) (hp : s.pin = some (t, l)) (s' : St) :
    stepChunk s c = .ok s' ↔
      ((c.seq == s.expected && c.sumOk && c.term == t && c.leader == l) = true ∧ s' = advance s [c]) := by
  unfold stepChunk
  simp only [hp]
  by_cases h1 : c.term ≠ t ∨ c.leader ≠ l
  · simp only [h1, if_true]
    constructor
    · intro h; cases h
    · rintro ⟨h, _⟩
      simp only [Bool.and_eq_true, beq_iff_eq] at h
      rcases h1 with h1 | h1
      · exact absurd h.1.2 h1
      · exact absurd h.2 h1
  · simp only [h1, if_false]
    have ht : c.term = t := by
      by_cases h : c.term = t
      · exact h
      · exact absurd (Or.inl h) h1
    have hl : c.leader = l := by
      by_cases h : c.leader = l
      · exact h
      · exact absurd (Or.inr h) h1
    by_cases hs : c.sumOk = true
    · by_cases hq : c.seq = s.expected
      · simp [hs, hq, ht, hl, advance, eq_comm]
      · simp [hs, hq, ht, hl]
    · simp [hs]

/-- The loop on the rest of the stream, leader pinned: it completes iff every chunk is well formed. -/
theorem run_pinned (cs : List Chunk) : ∀ (s : St) (t l : Nat), s.pin = some (t, l) → ∀ s',
    run s cs = .ok s' ↔ (wellFormedFrom s.expected t l cs = true ∧ s' = advance s cs) := by
  induction cs with
  | nil =>
    intro s t l _ s'
    simp [run, wellFormedFrom, advance_nil, eq_comm]
  | cons c rest ih =>
    intro s t l hp s'
    simp only [run, wellFormedFrom]
    cases hstep : stepChunk s c with
    | error e =>
      simp only []
      constructor
      · intro h; cases h
      · rintro ⟨h, _⟩
        simp only [Bool.and_eq_true] at h
        have := (step_pinned s c t l hp (advance s [c])).mpr ⟨by simpa [Bool.and_eq_true] using h.1, rfl⟩
        rw [hstep] at this; cases this
    | ok s1 =>
      have h1 := (step_pinned s c t l hp s1).mp hstep
      obtain ⟨hc, rfl⟩ := h1
      have hp1 : (advance s [c]).pin = some (t, l) := by simp [advance, hp]
      simp only []
      rw [ih (advance s [c]) t l hp1 s']
      have he : (advance s [c]).expected = s.expected + 1 := by simp [advance]
      rw [he]
      have hadv : advance (advance s [c]) rest = advance s (c :: rest) := by
        simp [advance, Nat.add_assoc, Nat.add_comm 1]
      rw [hadv]
      simp only [Bool.and_eq_true] at hc ⊢
      constructor
      · rintro ⟨hw, rfl⟩; exact ⟨⟨hc, hw⟩, rfl⟩
      · rintro ⟨⟨_, hw⟩, rfl⟩; exact ⟨hw, rfl⟩

/-- The first chunk pins leader, term, metadata and total. -/
def afterFirst (c : Chunk) : St :=
  { expected := 1, pin := some (c.term, c.leader), md := c.md, total := some c.total, written := [c.data],
    acks := [⟨c.seq, .acc, c.seq + 1⟩] }

theorem step_first (c : Chunk) (s' : St) :
    stepChunk St.init c = .ok s' ↔ (c.md ≠ .none ∧ c.sumOk = true ∧ c.seq = 0 ∧ s' = afterFirst c) := by
  unfold stepChunk
  simp only [St.init]
  by_cases hm : c.md = .none
  · simp [hm]
  · by_cases hs : c.sumOk = true
    · by_cases hq : c.seq = 0
      · simp [hm, hs, hq, afterFirst, eq_comm]
      · simp [hm, hs, hq]
    · simp [hm, hs]

/-- **`process_snapshot_stream` returns Ok iff the stream is exact** (for every chunk list and both ways the stream can
    end), and then label and assembled content are the ones `exact` names. -/
theorem stream_ok_iff (cs : List Chunk) (e : End) (label : Nat × Nat) (content : List Tok) :
    (∃ acks, processStream cs e = .ok label content acks) ↔ exact cs e = some (label, content) := by
  cases cs with
  | nil =>
    cases e <;> simp [processStream, run, finish, St.init, exact]
  | cons c0 rest =>
    simp only [processStream, run]
    cases hstep : stepChunk St.init c0 with
    | error er =>
      have hno : ¬ (c0.md ≠ .none ∧ c0.sumOk = true ∧ c0.seq = 0) := by
        intro h
        have := (step_first c0 (afterFirst c0)).mpr ⟨h.1, h.2.1, h.2.2, rfl⟩
        rw [hstep] at this; cases this
      constructor
      · rintro ⟨acks, h⟩; cases er; cases h
      · intro h
        exfalso; apply hno
        cases e with
        | hold => simp [exact] at h
        | closed =>
          simp only [exact, wellFormedFrom, Bool.and_eq_true, beq_iff_eq] at h
          split at h
          · rename_i hc
            refine ⟨?_, hc.1.1.1.1.2, hc.1.1.1.1.1⟩
            intro hm; rw [hm] at h; cases h
          · cases h
    | ok s1 =>
      obtain ⟨hm, hs, hq, rfl⟩ := (step_first c0 s1).mp hstep
      simp only []
      cases hrun : run (afterFirst c0) rest with
      | error er =>
        have hnw : ¬ wellFormedFrom 1 c0.term c0.leader rest = true := by
          intro hw
          have := (run_pinned rest (afterFirst c0) c0.term c0.leader rfl (advance (afterFirst c0) rest)).mpr ⟨hw, rfl⟩
          rw [hrun] at this; cases this
        constructor
        · rintro ⟨acks, h⟩; cases er; cases h
        · intro h
          exfalso; apply hnw
          cases e with
          | hold => simp [exact] at h
          | closed =>
            simp only [exact, wellFormedFrom, Bool.and_eq_true] at h
            split at h
            · rename_i hc; exact hc.1.2
            · cases h
      | ok s2 =>
        obtain ⟨hw, rfl⟩ := (run_pinned rest (afterFirst c0) c0.term c0.leader rfl s2).mp hrun
        cases e with
        | hold => simp [finish, exact]
        | closed =>
          have hw1 : wellFormedFrom 1 c0.term c0.leader rest = true := hw
          have hwf : wellFormedFrom 0 c0.term c0.leader (c0 :: rest) = true := by
            simp [wellFormedFrom, hq, hs, hw1]
          simp only [finish, advance, afterFirst, exact, hwf, Bool.true_and, List.length_cons, Option.getD_some]
          by_cases hcount : 1 + rest.length = c0.total
          · have h1 : (rest.length + 1 == c0.total) = true := by simp; omega
            simp only [hcount, ne_eq, not_true_eq_false, if_false, h1, if_true]
            cases hmd : c0.md with
            | none => exact absurd hmd hm
            | noLast => simp
            | label i t =>
              simp only [List.map_cons, List.singleton_append]
              constructor
              · rintro ⟨acks, h⟩
                injection h with h1 h2 h3
                simp [h1, h2]
              · intro h
                injection h with h
                injection h with h1 h2
                exact ⟨_, by rw [h1, h2]⟩
          · have h1 : (rest.length + 1 == c0.total) = false := by simp; omega
            simp [hcount, h1]

/-- Index form of the well-formedness condition: chunk `j` carries seq `k + j`, a valid checksum, the pinned term and
    leader. -/
theorem wellFormedFrom_iff (cs : List Chunk) : ∀ (k t l : Nat), wellFormedFrom k t l cs = true ↔
    ∀ (j : Nat) (h : j < cs.length), cs[j].seq = k + j ∧ cs[j].sumOk = true ∧ cs[j].term = t ∧ cs[j].leader = l := by
  induction cs with
  | nil => intro k t l; simp [wellFormedFrom]
  | cons c rest ih =>
    intro k t l
    simp only [wellFormedFrom, Bool.and_eq_true, beq_iff_eq, ih (k + 1) t l, List.length_cons]
    constructor
    · rintro ⟨⟨⟨⟨h1, h2⟩, h3⟩, h4⟩, hr⟩ j hj
      cases j with
      | zero => exact ⟨by simpa using h1, h2, h3, h4⟩
      | succ j =>
        have := hr j (by omega)
        simp only [List.getElem_cons_succ]
        exact ⟨by omega, this.2⟩
    · intro h
      refine ⟨?_, ?_⟩
      · have := h 0 (by omega)
        simp only [List.getElem_cons_zero] at this
        exact ⟨⟨⟨by omega, this.2.1⟩, this.2.2.1⟩, this.2.2.2⟩
      · intro j hj
        have := h (j + 1) (by omega)
        simp only [List.getElem_cons_succ] at this
        exact ⟨by omega, this.2⟩

/-! ## Follower level -/

/-- `run` never reports the error kind `archive` (that kind belongs to the unpack step). -/
theorem run_not_archive : ∀ (cs : List Chunk) (s : St) (a : List Ack), run s cs ≠ .error (.archive, a) := by
  intro cs
  induction cs with
  | nil => intro s a h; cases h
  | cons c rest ih =>
    intro s a h
    simp only [run] at h
    cases hs : stepChunk s c with
    | error y =>
      rw [hs] at h; simp only [] at h
      injection h with h; subst h
      unfold stepChunk at hs
      cases hpin : s.pin with
      | none =>
        simp only [hpin] at hs
        by_cases hm : c.md = .none
        · simp [hm] at hs
        · simp only [hm, if_false] at hs
          by_cases hk : c.sumOk = true
          · simp only [hk, Bool.not_true, Bool.false_eq_true, if_false] at hs
            by_cases hq : c.seq = s.expected <;> simp [hq] at hs
          · simp [hk] at hs
      | some p =>
        obtain ⟨t, l⟩ := p
        simp only [hpin] at hs
        by_cases h1 : c.term ≠ t ∨ c.leader ≠ l
        · simp [h1] at hs
        · simp only [h1, if_false] at hs
          by_cases hk : c.sumOk = true
          · simp only [hk, Bool.not_true, Bool.false_eq_true, if_false] at hs
            by_cases hq : c.seq = s.expected <;> simp [hq] at hs
          · simp [hk] at hs
    | ok s1 => rw [hs] at h; exact ih s1 a h

/-- **All-or-nothing** for `apply_snapshot_stream_from_leader`, every follower state, every chunk stream:
    * Ok ⇒ the stream was exact, the archive unpacked, the state is the snapshot's with `last_applied` = its label, the
      final file of that label is the concatenation, no temp file is left;
    * Err (any kind: order, leader, checksum, nometa, count, timeout, nolast, archive) ⇒ state machine and final files
      untouched — only the temp file exists. -/
theorem stream_all_or_nothing (f : Follower) (n : Nat) (cs : List Chunk) (e : End) :
    let out := receive f n cs e
    (out.2.1 = .ok → ∃ label content, exact cs e = some (label, content) ∧ archiveOk n content = true ∧
        out.1 = { sm := .snapshot label, finals := upsert f.finals label (.toks content), part := false }) ∧
    (∀ er, out.2.1 = .err er → out.1 = { f with part := true }) ∧
    (out.2.1 = .err .archive → ∃ label content, exact cs e = some (label, content) ∧ archiveOk n content = false) := by
  intro out
  cases hp : processStream cs e with
  | err er acks =>
    have hout : out = ({ f with part := true }, .err er, acks) := by simp [out, receive, hp]
    have hne : er ≠ .archive := by
      intro h; subst h
      unfold processStream at hp
      cases hr : run St.init cs with
      | error x =>
        obtain ⟨x1, x2⟩ := x
        rw [hr] at hp; simp only [] at hp
        injection hp with h1 _
        subst h1
        exact run_not_archive cs St.init x2 hr
      | ok s =>
        rw [hr] at hp; simp only [] at hp
        cases e with
        | hold => simp [finish] at hp
        | closed =>
          simp only [finish] at hp
          split at hp
          · cases hp
          · split at hp <;> cases hp
    refine ⟨?_, ?_, ?_⟩
    · intro h; rw [hout] at h; cases h
    · intro er' _; rw [hout]
    · intro h; rw [hout] at h; injection h with h; exact absurd h hne
  | ok label content acks =>
    have hex : exact cs e = some (label, content) := (stream_ok_iff cs e label content).mp ⟨acks, hp⟩
    by_cases hv : archiveOk n content = true
    · have hout : out = ({ sm := .snapshot label, finals := upsert f.finals label (.toks content), part := false }, .ok, acks) := by
        simp [out, receive, hp, hv]
      refine ⟨fun _ => ⟨label, content, hex, hv, by rw [hout]⟩, ?_, ?_⟩
      · intro er h; rw [hout] at h; cases h
      · intro h; rw [hout] at h; cases h
    · have hv' : archiveOk n content = false := by simpa using hv
      have hout : out = ({ f with part := true }, .err .archive, acks) := by
        simp [out, receive, hp, hv']
      refine ⟨?_, ?_, fun _ => ⟨label, content, hex, hv'⟩⟩
      · intro h; rw [hout] at h; cases h
      · intro er _; rw [hout]

/-- **Any failed transfer leaves the state machine and the final snapshot files untouched** (full strength; before
    /repo 814e6ba this was false — F33: `finalize` renamed before the archive was validated; regression witness
    `corpus/snapstream/findings.case`). -/
theorem err_leaves_everything (f : Follower) (n : Nat) (cs : List Chunk) (e : End) (er : Err)
    (h : (receive f n cs e).2.1 = .err er) :
    (receive f n cs e).1.finals = f.finals ∧ (receive f n cs e).1.sm = f.sm := by
  have := (stream_all_or_nothing f n cs e).2.1 er h
  rw [this]; exact ⟨rfl, rfl⟩

/-- The F33 regression stream: one chunk whose payload was replaced together with its CRC. -/
def w33 : List Chunk :=
  [{ seq := 0, total := 1, term := 2, leader := 1, md := .label 3 2, sumLen := 4, sumMatch := true, data := (0, .altered) }]

example : receive { sm := .own, finals := [((1, 1), .old)], part := false } 1 w33 .closed =
    ({ sm := .own, finals := [((1, 1), .old)], part := true }, .err .archive, [⟨0, .acc, 1⟩]) := by decide

/-- **A completed snapshot file appears atomically** (process crash at any point of the receive path): the final files
    are either untouched or contain the complete concatenation of an exact stream whose archive unpacks — never a
    partial or invalid file; and the state machine is replaced only in states where that file is already in place. -/
theorem finalize_crash_atomic (f : Follower) (n : Nat) (cs : List Chunk) (e : End) :
    ∀ s ∈ crashStates f n cs e,
      (s.finals = f.finals ∧ s.sm = f.sm) ∨
      (∃ label content, exact cs e = some (label, content) ∧ archiveOk n content = true ∧
        s.finals = upsert f.finals label (.toks content) ∧ (s.sm = f.sm ∨ s.sm = .snapshot label)) := by
  intro s hs
  unfold crashStates at hs
  cases hp : processStream cs e with
  | err er acks =>
    simp only [hp, List.mem_cons, List.mem_nil_iff, or_false] at hs
    rcases hs with rfl | rfl <;> exact Or.inl ⟨rfl, rfl⟩
  | ok label content acks =>
    have hex : exact cs e = some (label, content) := (stream_ok_iff cs e label content).mp ⟨acks, hp⟩
    by_cases hv : archiveOk n content = true
    · simp only [hp, hv, if_true, List.mem_cons, List.mem_nil_iff, or_false] at hs
      rcases hs with rfl | rfl | rfl | rfl
      · exact Or.inl ⟨rfl, rfl⟩
      · exact Or.inl ⟨rfl, rfl⟩
      · exact Or.inr ⟨label, content, hex, hv, rfl, Or.inl rfl⟩
      · exact Or.inr ⟨label, content, hex, hv, rfl, Or.inr rfl⟩
    · simp only [hp, hv, Bool.false_eq_true, if_false, List.mem_cons, List.mem_nil_iff, or_false] at hs
      rcases hs with rfl | rfl <;> exact Or.inl ⟨rfl, rfl⟩

/-- **A checksum field that is not exactly 4 bytes long never validates** — so a chunk that lost both its payload and
    its checksum (CRC32 of the empty string is 0, an empty field decodes to 0) is rejected, and no stream containing
    such a chunk is accepted. -/
theorem bad_checksum_length_rejected (cs : List Chunk) (e : End) (c : Chunk) (hc : c ∈ cs) (hl : c.sumLen ≠ 4) :
    exact cs e = none ∧ ∀ f n, (receive f n cs e).2.1 ≠ .ok := by
  have hso : c.sumOk = false := by simp [Chunk.sumOk, hl]
  have hwf : ∀ (l : List Chunk) (k t ld : Nat), c ∈ l → wellFormedFrom k t ld l = false := by
    intro l
    induction l with
    | nil => intro k t ld h; cases h
    | cons x r ih =>
      intro k t ld h
      simp only [wellFormedFrom]
      rcases List.mem_cons.mp h with rfl | h
      · simp [hso]
      · simp [ih (k + 1) t ld h]
  have hex : exact cs e = none := by
    cases cs with
    | nil => cases hc
    | cons c0 rest =>
      cases e with
      | hold => rfl
      | closed => simp [exact, hwf (c0 :: rest) 0 c0.term c0.leader hc]
  refine ⟨hex, ?_⟩
  intro f n hok
  obtain ⟨label, content, h, _⟩ := (stream_all_or_nothing f n cs e).1 hok
  rw [hex] at h; cases h

/-- The seeded-regression shape: a complete 2-chunk snapshot announced as 3 chunks, padded with a chunk that has no
    payload and no checksum — rejected with a checksum error, nothing touched. -/
example : (receive { sm := .own, finals := [((1, 1), .old)], part := false } 2
    [{ seq := 0, total := 3, term := 2, leader := 1, md := .label 3 2, sumLen := 4, sumMatch := true, data := (0, .pristine) },
     { seq := 1, total := 3, term := 2, leader := 1, md := .none, sumLen := 4, sumMatch := true, data := (1, .pristine) },
     { seq := 2, total := 3, term := 2, leader := 1, md := .none, sumLen := 0, sumMatch := true, data := (1, .empty) }]
    .closed).2.1 = .err .checksum := by decide

/-! Non-vacuity: a genuine 3-chunk stream is accepted; the same stream with chunks 1 and 2 swapped is rejected. -/
def genuine3 : List Chunk :=
  [{ seq := 0, total := 3, term := 2, leader := 1, md := .label 3 2, sumLen := 4, sumMatch := true, data := (0, .pristine) },
   { seq := 1, total := 3, term := 2, leader := 1, md := .none, sumLen := 4, sumMatch := true, data := (1, .pristine) },
   { seq := 2, total := 3, term := 2, leader := 1, md := .none, sumLen := 4, sumMatch := true, data := (2, .pristine) }]
example : (receive { sm := .own, finals := [((1, 1), .old)], part := false } 3 genuine3 .closed).2.1 = .ok := by decide
example : exact genuine3 .closed = some ((3, 2), [(0, .pristine), (1, .pristine), (2, .pristine)]) := by decide
example : (receive { sm := .own, finals := [((1, 1), .old)], part := false } 3
    [genuine3[0], genuine3[2], genuine3[1]] .closed).2.1 = .err .order := by decide

end DEngine.C17
