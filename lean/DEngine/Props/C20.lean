import DEngine.Lemmas.StoreInv
/-!
# C20 — Log stores honour the storage contract

Models (`DEngine.LogStore`): the reference store `Ref` (finite map, last index = greatest key, purge boundary), the File
log store at record level (`FileStore`: in-memory map, records of `log.data`, offset index, cached `last_index`,
durable records) and the RocksDB log store at key level (`RocksStore`), each *as coded*. Tied to the code by the `store`
family (real `FileLogStore` / `RocksDBLogStore` in temp dirs: live observations, graceful reopen, process-crash reopen,
File: records actually on disk, durable image as of the last `sync_all`, reopen of every crash image taken by the
guarded callbacks between the file operations).

History: until /repo 1dcc2fa both engines set `last_index := max index of the LAST batch` (F19: after persist [1,2];
persist [1'] they answered 1 while entry 2 exists; RocksDB `truncate` then stopped early at the stale value); fixed with
`fetch_max`, witness kept in `corpus/store/findings.case`.

As the code is now:
* **RocksDB** refines the reference store at full strength — every op sequence within the documented contract,
  re-written and lower indexes included, live and across reopen / process crash: `rocks_store_refines_ref`;
  crash images of every op are old-or-new: `rocks_replace_range_atomic`.
* **File**: what a running store answers from memory refines the reference under the whole contract
  (`file_live_refines_ref`). Across reopen the full statement is **false** (kernel-checked negation
  `file_store_refines_ref_fails`, F19b: a re-written index is appended to `log.data`, the offset index then no longer
  follows file order, a later truncate cuts at the wrong place — the truncated entry is back after reopen); the purge
  boundary follows the reference for every op sequence (`file_boundary_refines_ref`; F26 fixed in /repo aab5543);
  `replace_range` (`replace_range_atomic_fails`, F19c)
  and `purge` (`purge_crash_safe_fails`, F18) are not crash-atomic. Partial theorems with the excluded trigger exact:
  under the *append-only discipline* (`appendOnly`: the contract plus "`persist_entries` only appends beyond the current
  end; re-writing goes through `replace_range`") the File store is in lock-step with `Ref` for every op sequence incl.
  reopen / process crash (`file_store_refines_ref_partial`); its crash images of `replace_range` / `purge` are always
  the kept part plus a *prefix* of what is being written (`replace_range_atomic_partial`, `purge_crash_partial`).
-/
namespace DEngine.C20
open DEngine.LogStore

def runRef (r : Ref) (ops : List Op) : Ref := ops.foldl Ref.step r
def runFile (s : FileStore) (ops : List Op) : FileStore := ops.foldl FileStore.step s
def runRocks (s : RocksStore) (ops : List Op) : RocksStore := ops.foldl RocksStore.step s

/-- Every op satisfies `P` in the reference state it is issued in. -/
def conforms (P : Ref → Op → Bool) : Ref → List Op → Bool
  | _, [] => true
  | r, op :: rest => P r op && conforms P (r.step op) rest

/-- What the `LogStore` trait shows: `get_entries`/`entry` (functions of the map), `last_index`,
    `load_purge_boundary`. -/
structure View where
  entries : Map
  last : Nat
  boundary : Option (Nat × Nat)
deriving DecidableEq, Repr

def refView (r : Ref) : View := ⟨r.m, maxKey r.m, r.boundary⟩
def fileView (s : FileStore) : View := ⟨s.entries, s.last, s.boundary⟩
def rocksView (s : RocksStore) : View := ⟨s.db, s.last, s.boundary⟩

/-! ## Full statements and their negations -/

/-- Full strength: for every op sequence within the documented contract (re-written and lower indexes included, reopen
    and crash are ops of the sequence) the File store shows what the reference store shows. -/
def FileStoreRefinesRefStatement : Prop :=
  ∀ ops, conforms contract Ref.empty ops = true → fileView (runFile FileStore.empty ops) = refView (runRef Ref.empty ops)

def RocksStoreRefinesRefStatement : Prop :=
  ∀ ops, conforms contract Ref.empty ops = true → rocksView (runRocks RocksStore.empty ops) = refView (runRef Ref.empty ops)

/-- F19 regression (fixed in /repo 1dcc2fa): persist 1,2 then re-persist 1 — both engines now answer
    `last_index() = 2`. -/
def w19 : List Op := [.persist [⟨1, 1, 1⟩, ⟨2, 1, 1⟩], .persist [⟨1, 2, 2⟩]]

example : conforms contract Ref.empty w19 = true ∧ (runFile FileStore.empty w19).last = 2 ∧
    (runRocks RocksStore.empty w19).last = 2 := by decide

/-- F19b witness (File): persist 1,2,3; re-persist 2,3; truncate(3); reopen — the truncated entry 3 is back. -/
def w19b : List Op :=
  [.persist [⟨1, 1, 1⟩, ⟨2, 1, 1⟩, ⟨3, 1, 1⟩], .persist [⟨2, 2, 2⟩, ⟨3, 2, 2⟩], .truncate 3, .reopen]

theorem file_reopen_differs_witness :
    conforms contract Ref.empty w19b = true ∧
    (runFile FileStore.empty w19b).entries = [⟨1, 1, 1⟩, ⟨2, 2, 2⟩, ⟨3, 1, 1⟩] ∧
    (runRef Ref.empty w19b).m = [⟨1, 1, 1⟩, ⟨2, 2, 2⟩] := by decide

/-- **Negation of the File statement (F19b)**. -/
theorem file_store_refines_ref_fails : ¬ FileStoreRefinesRefStatement := by
  intro h
  have := h w19b (by decide)
  revert this; decide

/-- F26 regression (fixed in /repo aab5543): the File store now reports the purge boundary, live and after reopen. -/
def w26 : List Op := [.persist [⟨1, 1, 1⟩, ⟨2, 1, 1⟩], .purge 1 1, .reopen]

example : (fileView (runFile FileStore.empty w26)).boundary = some (1, 1) := by decide

/-! ## Refinement -/

theorem appendOnly_contract (r : Ref) (op : Op) (h : appendOnly r op = true) : contract r op = true := by
  cases op with
  | persist es => simp only [appendOnly, Bool.and_eq_true] at h; exact h.1
  | _ => exact h

theorem conforms_weaken : ∀ (ops : List Op) (r : Ref), conforms appendOnly r ops = true → conforms contract r ops = true
  | [], _, _ => rfl
  | op :: rest, r, h => by
    simp only [conforms, Bool.and_eq_true] at h ⊢
    exact ⟨appendOnly_contract r op h.1, conforms_weaken rest _ h.2⟩

theorem file_run_inv : ∀ (ops : List Op) (s : FileStore) (r : Ref), FInv s r → conforms appendOnly r ops = true →
    FInv (runFile s ops) (runRef r ops)
  | [], _, _, h, _ => h
  | op :: rest, s, r, h, hc => by
    simp only [conforms, Bool.and_eq_true] at hc
    exact file_run_inv rest _ _ (file_step_inv h hc.1) hc.2

theorem rocks_run_inv : ∀ (ops : List Op) (s : RocksStore) (r : Ref), RInv s r → conforms contract r ops = true →
    RInv (runRocks s ops) (runRef r ops)
  | [], _, _, h, _ => h
  | op :: rest, s, r, h, hc => by
    simp only [conforms, Bool.and_eq_true] at hc
    exact rocks_run_inv rest _ _ (rocks_step_inv h hc.1) hc.2

/-- **RocksDB store refines the reference store — full strength**: every op sequence within the contract (re-written
    and lower indexes included; reopen and process crash are ops of the sequence): entries, `last_index` and purge
    boundary agree. -/
theorem rocks_store_refines_ref : RocksStoreRefinesRefStatement := by
  intro ops hc
  have h := rocks_run_inv ops _ _ rinv_empty hc
  simp [rocksView, refView, h.db, h.last, h.boundary]

/-- No reopen / crash in the sequence. -/
def noReload : List Op → Bool
  | [] => true
  | op :: rest => decide (op ≠ .reopen) && decide (op ≠ .crash) && noReload rest

theorem file_live_run : ∀ (ops : List Op) (s : FileStore) (r : Ref), LInv s r → conforms contract r ops = true →
    noReload ops = true → LInv (runFile s ops) (runRef r ops)
  | [], _, _, h, _, _ => h
  | op :: rest, s, r, h, hc, hn => by
    simp only [conforms, Bool.and_eq_true] at hc
    simp only [noReload, Bool.and_eq_true, decide_eq_true_eq] at hn
    exact file_live_run rest _ _ (file_live_step h hc.1 ⟨hn.1.1, hn.1.2⟩) hc.2 hn.2

theorem file_boundary_run : ∀ (ops : List Op) (s : FileStore) (r : Ref), s.boundary = r.boundary →
    (runFile s ops).boundary = (runRef r ops).boundary
  | [], _, _, h => h
  | op :: rest, s, r, h => file_boundary_run rest _ _ (file_boundary_step s r op h)

/-- **The File store's purge boundary equals the reference's for every op sequence whatsoever** (no contract needed;
    reopen and process crash included; before /repo aab5543 it was never stored — F26). -/
theorem file_boundary_refines_ref (ops : List Op) :
    (runFile FileStore.empty ops).boundary = (runRef Ref.empty ops).boundary :=
  file_boundary_run ops _ _ rfl

/-- **A running File store refines the reference store under the whole contract** (re-written and lower indexes
    included): entries, every lookup and `last_index`. (What a *reopened* store shows is F19b's subject.) -/
theorem file_live_refines_ref (ops : List Op) (hc : conforms contract Ref.empty ops = true)
    (hn : noReload ops = true) :
    (runFile FileStore.empty ops).entries = (runRef Ref.empty ops).m ∧
    (runFile FileStore.empty ops).last = maxKey (runRef Ref.empty ops).m := by
  have h0 : LInv FileStore.empty Ref.empty := ⟨rfl, by simp [FileStore.empty, Ref.empty, maxKey_nil]⟩
  have h := file_live_run ops _ _ h0 hc hn
  exact ⟨h.entries, h.last⟩

/-- **File store refines the reference store** (excluded trigger: a `persist_entries` that re-writes or goes below the
    current end — F19b; the purge boundary is covered separately and unconditionally by `file_boundary_refines_ref`): for every append-only op sequence —
    reopen and process crash are ops of the sequence — entries, every lookup and `last_index` agree with `Ref`, the
    records on disk are exactly the map in key order, and reopening now would again agree. -/
theorem file_store_refines_ref_partial (ops : List Op) (hc : conforms appendOnly Ref.empty ops = true) :
    let s := runFile FileStore.empty ops
    let r := runRef Ref.empty ops
    s.entries = r.m ∧ s.last = maxKey r.m ∧ (∀ i, get s.entries i = get r.m i) ∧ s.recs = r.m ∧ s.hole = false ∧
    (s.step .reopen).entries = r.m ∧ (s.step .reopen).last = maxKey r.m ∧
    (s.step .crash).entries = r.m ∧ (s.step .crash).last = maxKey r.m := by
  intro s r
  have h : FInv s r := file_run_inv ops _ _ finv_empty hc
  have ho := file_step_inv (op := .reopen) h rfl
  have hk := file_step_inv (op := .crash) h rfl
  exact ⟨h.shape.entries, h.last, fun i => by rw [h.shape.entries], h.shape.recs, h.shape.hole,
    ho.shape.entries, ho.last, hk.shape.entries, hk.last⟩

/-- Both engines agree with each other under the discipline. -/
theorem engines_agree (ops : List Op) (hc : conforms appendOnly Ref.empty ops = true) :
    (runFile FileStore.empty ops).entries = (runRocks RocksStore.empty ops).db ∧
    (runFile FileStore.empty ops).last = (runRocks RocksStore.empty ops).last := by
  have hf := file_run_inv ops _ _ finv_empty hc
  have hr := rocks_run_inv ops _ _ rinv_empty (conforms_weaken ops _ hc)
  exact ⟨by rw [hf.shape.entries, hr.db], by rw [hf.last, hr.last]⟩

/-- Non-vacuity: an append-only sequence with replace, purge, reopen and crash; and a contract-conforming one with
    re-written and lower indexes. -/
def demo : List Op :=
  [.persist [⟨1, 1, 1⟩, ⟨2, 1, 2⟩, ⟨3, 1, 3⟩], .replace 3 [⟨3, 2, 1⟩, ⟨4, 2, 1⟩], .purge 1 1, .reopen,
   .persist [⟨5, 2, 2⟩], .truncate 5, .crash]
example : conforms appendOnly Ref.empty demo = true ∧
    (runRef Ref.empty demo).m = [⟨2, 1, 2⟩, ⟨3, 2, 1⟩, ⟨4, 2, 1⟩] := by decide
example : conforms contract Ref.empty (w19 ++ [.truncate 2, .reopen]) = true ∧ noReload w19 = true := by decide

/-! ## Crash atomicity of `replace_range` and `purge` -/

/-- What a crash image of `log.data` reopens to. -/
def imageEntries (recs : List Ent) : Map := (loadRecs recs).entries

/-- Full strength: every crash image inside `replace_range` shows the old or the new log. -/
def ReplaceRangeAtomicStatement : Prop :=
  ∀ (s : FileStore) (r : Ref) (f : Nat) (es : List Ent), FInv s r → contract r (.replace f es) = true →
    ∀ p ∈ s.crashPoints (.replace f es), imageEntries p.2 = r.m ∨ imageEntries p.2 = (r.step (.replace f es)).m

/-- F19c witness: log 1,2; `replace_range(2,[2'])`; crash after `set_len`: the image holds entry 1 only. -/
theorem replace_range_atomic_fails : ¬ ReplaceRangeAtomicStatement := by
  intro h
  have hinv : FInv (runFile FileStore.empty [.persist [⟨1, 1, 1⟩, ⟨2, 1, 1⟩]]) (runRef Ref.empty [.persist [⟨1, 1, 1⟩, ⟨2, 1, 1⟩]]) :=
    file_run_inv _ _ _ finv_empty (by decide)
  have := h _ _ 2 [⟨2, 2, 2⟩] hinv (by decide) ("replace:truncated", [⟨1, 1, 1⟩]) (by decide)
  revert this; decide

theorem ascFrom_take {k : Nat} : ∀ {es : List Ent} (n : Nat), ascFrom k es → ascFrom k (es.take n)
  | [], _, _ => by simp [ascFrom]
  | _ :: _, 0, _ => by simp [ascFrom]
  | _ :: _, n + 1, ⟨h1, h2⟩ => ⟨h1, ascFrom_take n h2⟩

theorem image_of_sorted {m : Map} (hs : Sorted m) (hpos : ∀ x ∈ m, 1 ≤ x.idx) : imageEntries m = m :=
  (shape_load hs hpos).entries

theorem mem_appendPoints {name : String} {base es : List Ent} {p : String × List Ent}
    (h : p ∈ appendPoints name base es) : ∃ k, k ≤ es.length ∧ p.2 = base ++ es.take k := by
  simp only [appendPoints, List.mem_map, List.mem_range] at h
  obtain ⟨k, hk, rfl⟩ := h
  exact ⟨k + 1, by omega, rfl⟩

/-- **Partial theorem (File `replace_range`)**: every crash image is the kept part followed by a *prefix* of the new
    entries, and reopens to exactly that — never garbage, never a mix of the old suffix with new entries; it is the old
    log only if nothing is cut, the new log only once all entries are written. -/
theorem replace_range_atomic_partial (s : FileStore) (r : Ref) (f : Nat) (es : List Ent) (h : FInv s r)
    (hc : contract r (.replace f es) = true) :
    ∀ p ∈ s.crashPoints (.replace f es), ∃ k, k ≤ es.length ∧ p.2 = below r.m f ++ es.take k ∧
      imageEntries p.2 = below r.m f ++ es.take k := by
  have hbase : (s.cut f).recs = below r.m f := (shape_cut h.shape h.sorted f).recs
  have himg : ∀ k, imageEntries (below r.m f ++ es.take k) = below r.m f ++ es.take k := by
    intro k
    simp only [contract, Bool.and_eq_true] at hc
    obtain ⟨hasc, hrest⟩ := hc
    have hbpos : ∀ x ∈ below r.m f, 1 ≤ x.idx := fun x hx => h.pos x (List.mem_filter.mp hx).1
    cases es with
    | nil => simpa using image_of_sorted (below_sorted h.sorted f) hbpos
    | cons e rest =>
      simp only [Bool.and_eq_true, decide_eq_true_eq] at hrest
      have ha : ascFrom (f - 1) (e :: rest) :=
        ascFrom_of_ascending hasc (fun e' he' => by simp at he'; subst he'; omega)
      have hk : ∀ x ∈ below r.m f, x.idx ≤ f - 1 := below_le hrest.1
      have hat := ascFrom_take k ha
      exact image_of_sorted (sorted_append (below_sorted h.sorted f) hk hat) (fun x hx => by
        rcases List.mem_append.mp hx with hx | hx
        · exact hbpos x hx
        · have := ascFrom_gt hat x hx; omega)
  intro p hp
  simp only [FileStore.crashPoints, hbase, List.mem_append, List.mem_singleton] at hp
  rcases hp with (rfl | hp) | rfl
  · exact ⟨0, by omega, by simp, by simpa using himg 0⟩
  · obtain ⟨k, hk, hpk⟩ := mem_appendPoints hp
    exact ⟨k, hk, hpk, hpk ▸ himg k⟩
  · exact ⟨es.length, by omega, by simp, by simpa using himg es.length⟩

/-- RocksDB: one write batch per op — every crash image is the old or the new key space (here: = reference). -/
theorem rocks_replace_range_atomic (s : RocksStore) (r : Ref) (op : Op) (h : RInv s r)
    (hc : contract r op = true) :
    ∀ img ∈ s.crashImages op, img = r.m ∨ img = (r.step op).m := by
  intro img himg
  simp only [RocksStore.crashImages, List.mem_cons, List.mem_nil_iff, or_false] at himg
  rcases himg with rfl | rfl
  · exact Or.inl h.db
  · exact Or.inr (rocks_step_inv h hc).db

/-- Full strength for `purge`: every crash image shows the old log or the purged log. -/
def PurgeCrashSafeStatement : Prop :=
  ∀ (s : FileStore) (r : Ref) (i t : Nat), FInv s r → contract r (.purge i t) = true →
    ∀ p ∈ s.crashPoints (.purge i t), imageEntries p.2 = r.m ∨ imageEntries p.2 = (r.step (.purge i t)).m

/-- F18 witness: log 1,2,3; `purge(1)`; crash after `set_len(0)`: the image is empty — entries 2,3 are gone. -/
theorem purge_crash_safe_fails : ¬ PurgeCrashSafeStatement := by
  intro h
  have hinv : FInv (runFile FileStore.empty [.persist [⟨1, 1, 1⟩, ⟨2, 1, 1⟩, ⟨3, 1, 1⟩]])
      (runRef Ref.empty [.persist [⟨1, 1, 1⟩, ⟨2, 1, 1⟩, ⟨3, 1, 1⟩]]) :=
    file_run_inv _ _ _ finv_empty (by decide)
  have := h _ _ 1 1 hinv (by decide) ("purge:truncated", []) (by decide)
  revert this; decide

/-- **Partial theorem (File `purge`)**: every crash image is a *prefix* of the entries to keep (so entries above the
    cutoff can be missing, entries at or below it never reappear, nothing is fabricated); the last one is complete and
    has been `sync_all`ed. -/
theorem purge_crash_partial (s : FileStore) (r : Ref) (i t : Nat) (h : FInv s r) :
    (∀ p ∈ s.crashPoints (.purge i t), ∃ k, p.2 = (above r.m i).take k ∧ imageEntries p.2 = (above r.m i).take k) ∧
    (s.step (.purge i t)).dur = above r.m i := by
  have hkeep : above s.entries i = above r.m i := by rw [h.shape.entries]
  have himg : ∀ k, imageEntries ((above r.m i).take k) = (above r.m i).take k := fun k =>
    image_of_sorted ((above_sorted h.sorted i).sublist (List.take_sublist _ _))
      (fun x hx => h.pos x (List.mem_filter.mp (List.mem_of_mem_take hx)).1)
  refine ⟨?_, by simp [FileStore.step, hkeep]⟩
  intro p hp
  simp only [FileStore.crashPoints, hkeep, List.mem_append, List.mem_singleton] at hp
  rcases hp with (rfl | hp) | rfl
  · exact ⟨0, by simp, by simpa using himg 0⟩
  · obtain ⟨k, _, hpk⟩ := mem_appendPoints hp
    simp only [List.nil_append] at hpk
    exact ⟨k, hpk, hpk ▸ himg k⟩
  · exact ⟨(above r.m i).length, by simp, by simpa using himg (above r.m i).length⟩

end DEngine.C20
