import DEngine.Model.Memb
/-!
# C28 — Membership survives restart

Model: `DEngine.Memb` — `RaftMembership::new(initial_cluster)` in `NodeBuilder::build`,
`DefaultCommitHandler::process_batch` / `apply_config_change`, `DefaultStateMachineHandler`
(`pending_range` starts at `last_applied + 1`), `FollowerState::new(.., last_applied)`; tied to the
real code by the `memb` correspondence, kind `rs` (the restart itself is the real
`NodeBuilder::build()` on the node's real storage directory).

* `RestartMembershipStatement` — the property as stated: after a restart the node's view equals the
  applied config entries folded over its initial configuration. **Refuted**
  (`restart_membership_false`, defect F25): the view is rebuilt from `initial_cluster` alone and the
  entries at or below `last_applied` are never dispatched again.
* `restart_never_replays` — why: for *every* history, no commit notification after the restart ever
  re-dispatches an entry at or below `last_applied` (so the loss is permanent, not a lag).
* `restart_membership_partial` — the statement holds exactly when the applied config entries leave the
  initial configuration unchanged (the excluded trigger: some applied entry changed the view).
* `applyBatch_eq_fold`, `commit_keeps_fold` — before any restart commit-time application is the
  fold, whatever fails and however commits are batched. `f51_regression` keeps the pre-fix batch rule
  (defect F51, found here, fixed in /repo: after a failing config entry the remaining config entries
  of the same batch were skipped although marked applied) next to its witness.
-/
namespace DEngine.C28
open DEngine.Memb

/-- run a history of the single-node model -/
def rsRunOps (s : RsNode) : List RsOp → RsNode
  | [] => s
  | op :: rest => rsRunOps (rsStep s op).1 rest

def rsInit (initial : List Node) : RsNode := { initial := initial, view := { nodes := initial } }

/-- **The property as stated**: whatever the history, right after a restart the view is the fold of
    the applied config entries over the initial configuration. -/
def RestartMembershipStatement : Prop :=
  ∀ (initial : List Node) (ops : List RsOp),
    let s := rsRunOps (rsInit initial) (ops ++ [.restart])
    s.view.nodes = (rsReference initial s.entries s.lastApplied).nodes

/-- witness (F25): learners 2, 3 promoted by a committed and applied BatchPromote, then restart -/
def f25Initial : List Node := [⟨1, 1, 3⟩, ⟨2, 4, 1⟩, ⟨3, 4, 1⟩]
def f25Ops : List RsOp := [.conf (.batchPromote [2, 3] sActive), .cmd, .commit 2]

/-- **Refutation (defect F25).** -/
theorem restart_membership_false : ¬ RestartMembershipStatement := by
  intro h
  have := h f25Initial f25Ops
  revert this
  decide

/-- the restart step: view := initial configuration, `last_applied` kept, nothing else consulted -/
theorem restart_view (s : RsNode) :
    (rsStep s .restart).1.view = restartView s.initial ∧ (rsStep s .restart).1.lastApplied = s.lastApplied ∧
    (rsStep s .restart).1.entries = s.entries := by
  simp [rsStep]

/-- **No replay, ever**: a commit step only dispatches the entries *after* `last_applied`; the view it
    produces depends on the entries at or below `last_applied` only through the current view. So
    once the restart has reset the view, those entries never reach the membership again. -/
theorem restart_never_replays (s : RsNode) (k : Nat) :
    (rsStep s (.commit k)).1.view =
      applyBatch s.view ((s.entries.drop s.lastApplied).take (max s.pendingCommit (min k s.entries.length) - s.lastApplied)) false ∧
    s.lastApplied ≤ (rsStep s (.commit k)).1.lastApplied := by
  simp only [rsStep]
  split
  · rename_i h
    exact ⟨rfl, by simp only; omega⟩
  · rename_i h
    have : max s.pendingCommit (min k s.entries.length) - s.lastApplied = 0 := by omega
    simp [this, applyBatch]

/-- entries that do not change a view -/
def Inert (v : View) (es : List LogEntry) : Prop := foldConf v es = v

/-- **Partial theorem**: restart is faithful exactly when the applied config entries are inert on the
    initial configuration (e.g. no config entry was applied at all). -/
theorem restart_membership_partial (s : RsNode)
    (h : Inert { nodes := s.initial } (s.entries.take s.lastApplied)) :
    (rsStep s .restart).1.view = rsReference s.initial (rsStep s .restart).1.entries (rsStep s .restart).1.lastApplied := by
  have hr := restart_view s
  rw [hr.1, hr.2.1, hr.2.2]
  unfold rsReference restartView
  unfold Inert at h
  rw [h]

theorem foldConf_cmds (v : View) (es : List LogEntry) (h : ∀ e ∈ es, e = .cmd) : foldConf v es = v := by
  induction es generalizing v with
  | nil => rfl
  | cons e rest ih =>
    have he : e = .cmd := h e List.mem_cons_self
    subst he
    simp only [foldConf, List.foldl_cons]
    exact ih v (fun e he => h e (List.mem_cons_of_mem _ he))

/-- corollary: no config entry applied ⇒ restart keeps the (unchanged) membership -/
theorem restart_membership_no_config (s : RsNode) (h : ∀ e ∈ s.entries.take s.lastApplied, e = .cmd) :
    (rsStep s .restart).1.view = rsReference s.initial (rsStep s .restart).1.entries (rsStep s .restart).1.lastApplied :=
  restart_membership_partial s (foldConf_cmds _ _ h)

example : (rsRunOps (rsInit f25Initial) [.cmd, .cmd, .commit 2, .restart]).view.nodes = f25Initial := by decide

/-! ### before a restart: commit-time application is the fold (defect F51, fixed) -/

/-- **Commit-time application = fold**, for every batch, whatever fails in it: the membership is a
    function of the applied log, not of how commit notifications were batched. -/
theorem applyBatch_eq_fold (es : List LogEntry) : ∀ (v : View) (failed : Bool),
    applyBatch v es failed = foldConf v es := by
  induction es with
  | nil => intro v f; rfl
  | cons e rest ih =>
    intro v f
    cases e with
    | cmd => simp only [applyBatch, foldConf, List.foldl_cons]; exact ih v f
    | conf c =>
      simp only [applyBatch, foldConf, List.foldl_cons]
      exact ih (applyChange v c).1 _

/-- before any restart the view is the fold of the applied entries: one commit step from a state
    whose view is the fold keeps it so -/
theorem commit_keeps_fold (s : RsNode) (k : Nat)
    (h : s.view = foldConf { nodes := s.initial } (s.entries.take s.lastApplied))
    (hla : s.lastApplied ≤ s.entries.length) :
    (rsStep s (.commit k)).1.view =
      foldConf { nodes := s.initial } ((rsStep s (.commit k)).1.entries.take (rsStep s (.commit k)).1.lastApplied) := by
  simp only [rsStep]
  split
  · rename_i hgt
    simp only
    rw [applyBatch_eq_fold, h]
    unfold foldConf
    rw [← List.foldl_append]
    congr 1
    have hpc : max s.pendingCommit (min k s.entries.length) = s.lastApplied + (max s.pendingCommit (min k s.entries.length) - s.lastApplied) := by omega
    generalize hm : max s.pendingCommit (min k s.entries.length) - s.lastApplied = d at hpc
    rw [hpc]
    exact (List.take_add (l := s.entries) (i := s.lastApplied) (j := d)).symm
  · exact h

/-- regression of F51: the old batch rule skipped entry 2 after the failing entry 1; the current one
    applies it, in one batch or two -/
theorem f51_regression :
    let initial : List Node := [⟨1, 1, 3⟩, ⟨2, 1, 3⟩]
    let es : List LogEntry := [.conf (.add 2 sPromotable), .conf (.add 4 sPromotable)]
    applyBatchSkipping { nodes := initial } es false ≠ foldConf { nodes := initial } es ∧
    (rsRunOps (rsInit initial) [.conf (.add 2 sPromotable), .conf (.add 4 sPromotable), .commit 2]).view =
    (rsRunOps (rsInit initial) [.conf (.add 2 sPromotable), .conf (.add 4 sPromotable), .commit 1, .commit 2]).view := by
  decide

end DEngine.C28
