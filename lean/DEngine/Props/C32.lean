/-
  C32 — The cluster recovers once faults stop.

  Statement (properties.jsonl): once network faults heal and a voter majority is up, the cluster elects a leader, accepts
  writes and applies every committed entry on every live voter within a bounded time.

  Bounded progress instead of liveness: `heal k` (Model/ClusterHeal.lean) = k rounds of a FIXED fair schedule (finish
  pending elections; the best leader heartbeats and everything in flight is delivered in id order; without a leader
  the next node in rotation runs an election with everybody).  `HealsWithinStatement`: from every reachable state with
  a majority up, `healBound` = 2n+6 + 2⌈(longest log + 1) / cap⌉ rounds lead to `recovered` (a leader, every live node has its
  log, everything committed).  The same schedule is applied to the real nodes by the harness (`h:K`) and the monitor
  checks `recovered` on the implementation's trace.

  The statement is FALSE for the code as it is — `heals_within_fails` (kernel-checked; real-code witness
  corpus/cluster/f32_stuck_behind_match.case, finding F32): a follower that lost entries it had acknowledged (crash before
  the IO thread wrote them — F8 — or a prev=(0,0) wipe — F9) can never be repaired by the same leader, because
  `update_next_index` never lets next_index go below match_index+1 (`next_above_match_*` below): every request has
  prev_index >= match_index > the follower's last index, is answered with a conflict, and nothing changes.

  Proved: `reachable_heal` (the fair schedule stays inside the reachable states, so C04 / C05 / C10 theorems hold along
  it); the per-step facts behind the finding and behind progress: `next_above_match_response`,
  `next_above_match_round`, `next_above_match_stream_error` (next_index > match_index is kept by every peer update),
  `match_monotone_response` (match_index never decreases), `tally_won` (a majority of grants received first wins the
  election), `conflict_leaves_follower` (a rejected request changes neither log nor commit index).
  Not proved (named gap): `heals_within_partial` — recovery within the bound under H_durableAck ∧ H_noWipe (no live
  follower is shorter than its match index); the measure (rotation position, maximal term, Σ (last − match)) is stated
  in `healBound`, the induction is not done.
-/
import DEngine.Model.ClusterHeal
import DEngine.Props.C04
namespace DEngine.C32
open DEngine.Cluster DEngine.C04

def healBound (c : Cluster) : Nat :=
  2 * c.n + 6 + 2 * ((((nodeIds c).map fun i => (c.nodes i).log.length).foldl max 0 + c.cap) / c.cap)

def HealsWithinStatement : Prop :=
  ∀ n cap c, Reachable n cap c → majorityUp c = true → recovered (heal (healBound c) 0 c) = true

-- ------------------------------------------------------------------------------------------ the schedule is a schedule
theorem reachable_runEvents {n cap : Nat} : ∀ (es : List Event) (c : Cluster), Reachable n cap c → Reachable n cap (runEvents c es) := by
  intro es
  induction es with
  | nil => intro c h; exact h
  | cons e es ih => intro c h; exact ih _ (Reachable.step e h)

theorem reachable_foldl {n cap : Nat} {α : Type} (f : Cluster → α → Cluster)
    (hf : ∀ c a, Reachable n cap c → Reachable n cap (f c a)) :
    ∀ (l : List α) (c : Cluster), Reachable n cap c → Reachable n cap (l.foldl f c) := by
  intro l
  induction l with
  | nil => intro c h; exact h
  | cons a l ih => intro c h; exact ih _ (hf c a h)

theorem reachable_deliverAll {n cap : Nat} : ∀ (fuel : Nat) (c : Cluster), Reachable n cap c → Reachable n cap (deliverAll fuel c) := by
  intro fuel
  induction fuel with
  | zero => intro c h; exact h
  | succ k ih =>
    intro c h
    unfold deliverAll
    split
    · exact h
    · split
      · exact ih _ (Reachable.step _ h)
      · exact ih _ (Reachable.step _ h)
    · exact ih _ (Reachable.step _ h)

theorem reachable_fairRound {n cap : Nat} (c : Cluster) (r : Nat) (h : Reachable n cap c) : Reachable n cap (fairRound c r) := by
  have h1 : Reachable n cap (finishElections c) := by
    unfold finishElections
    apply reachable_foldl _ _ _ _ h
    intro c' a hc'
    split
    · exact reachable_runEvents _ _ hc'
    · exact hc'
  unfold fairRound
  (try dsimp only)
  split
  · exact reachable_deliverAll _ _ (Reachable.step _ h1)
  · split
    · exact reachable_runEvents _ _ h1
    · exact h1

/-- The fair schedule only takes steps of the model: every state it visits is reachable. -/
theorem reachable_heal {n cap : Nat} : ∀ (k r : Nat) (c : Cluster), Reachable n cap c → Reachable n cap (heal k r c) := by
  intro k
  induction k with
  | zero => intro r c h; exact h
  | succ k ih => intro r c h; exact ih _ _ (reachable_fairRound c r h)

-- ------------------------------------------------------------------------------------------ per-step facts
def NextAboveMatch (ps : List Peer) : Prop := ∀ p ∈ ps, p.mtch < p.next

/-- `update_peer_index` / `update_next_index`: after any AppendEntries response next_index stays above match_index -/
theorem next_above_match_response (n : Node) (src rt : Nat) (res : AeResult) (h : NextAboveMatch n.peers) :
    NextAboveMatch (onAppendResponse n src rt res).1.peers := by
  unfold onAppendResponse
  split
  · exact h
  · split
    · exact h
    · split
      · intro p hp; simp [stepDown, becomeFollower] at hp; split at hp <;> simp_all [NextAboveMatch]
      · split
        · rw [show (applyLeaderCommit _).1.peers = _ from by unfold applyLeaderCommit; split <;> rfl]
          intro p hp
          simp only [updatePeer, List.mem_map] at hp
          obtain ⟨q, hq, hqp⟩ := hp
          have := h q hq
          split at hqp <;> (subst hqp; (try dsimp only); (try split) <;> omega)
        · intro p hp
          simp only [updatePeer, List.mem_map] at hp
          obtain ⟨q, hq, hqp⟩ := hp
          have := h q hq
          split at hqp <;> (subst hqp; (try dsimp only); omega)
        · split
          · intro p hp; simp [stepDown, becomeFollower] at hp; split at hp <;> simp_all [NextAboveMatch]
          · exact h

/-- `match_index` never decreases -/
theorem match_monotone_response (n : Node) (src rt : Nat) (res : AeResult) (hl : n.role = .leader) :
    (onAppendResponse n src rt res).1.role = .leader →
      ∀ p ∈ n.peers, ∃ q ∈ (onAppendResponse n src rt res).1.peers, q.id = p.id ∧ p.mtch ≤ q.mtch := by
  unfold onAppendResponse
  split
  · next h => simp [hl] at h
  · split
    · intro _ p hp; exact ⟨p, hp, rfl, Nat.le_refl _⟩
    · split
      · intro h; rw [(stepDown_spec n rt).1] at h; cases h
      · split
        · intro _ p hp
          rw [show (applyLeaderCommit _).1.peers = _ from by unfold applyLeaderCommit; split <;> rfl]
          refine ⟨_, List.mem_map.mpr ⟨p, hp, rfl⟩, ?_, ?_⟩ <;> (split <;> (try dsimp only) <;> (try split) <;> (try rfl) <;> omega)
        · intro _ p hp
          refine ⟨_, List.mem_map.mpr ⟨p, hp, rfl⟩, ?_, ?_⟩ <;> (split <;> (try dsimp only) <;> (try rfl) <;> omega)
        · split
          · next t _ => intro h; rw [(stepDown_spec n t).1] at h; cases h
          · intro _ p hp; exact ⟨p, hp, rfl, Nat.le_refl _⟩

/-- speculative advance in a replication round keeps next_index above match_index -/
theorem next_above_match_round (me : NodeId) (log : Log) (term commit lastBefore cap : Nat) (newEs : Log) :
    ∀ (ps : List Peer) (sid : Nat), NextAboveMatch (replicatePeers me log term commit lastBefore cap newEs ps sid).1 := by
  intro ps
  induction ps with
  | nil => intro sid p hp; simp [replicatePeers] at hp
  | cons q qs ih =>
    intro sid p hp
    simp only [replicatePeers] at hp
    rcases List.mem_cons.mp hp with h | h
    · subst h
      split <;> (try dsimp only) <;> omega
    · exact ih _ p h

/-- `handle_peer_stream_error`: next_index := match_index + 1 -/
theorem next_above_match_stream_error (n : Node) (p : NodeId) (h : NextAboveMatch n.peers) :
    NextAboveMatch (onStreamError n p).peers := by
  intro q hq
  simp only [onStreamError, updatePeer, List.mem_map] at hq
  obtain ⟨r, hr, hrq⟩ := hq
  have := h r hr
  split at hrq <;> (subst hrq; (try dsimp only); omega)

/-- a replication round never touches `match_index` or the peer set: ids and match indexes come out as they went in -/
theorem match_unchanged_round (me : NodeId) (log : Log) (term commit lastBefore cap : Nat) (newEs : Log) :
    ∀ (ps : List Peer) (sid : Nat),
      (replicatePeers me log term commit lastBefore cap newEs ps sid).1.map (fun p => (p.id, p.mtch))
        = ps.map (fun p => (p.id, p.mtch)) := by
  intro ps
  induction ps with
  | nil => intro sid; simp [replicatePeers]
  | cons q qs ih =>
    intro sid
    simp only [replicatePeers, List.map_cons]
    congr 1
    · split <;> rfl
    · exact ih _

/-- `handle_peer_stream_error` never touches `match_index` or the peer set -/
theorem match_unchanged_stream_error (n : Node) (p : NodeId) :
    (onStreamError n p).peers.map (fun q => (q.id, q.mtch)) = n.peers.map (fun q => (q.id, q.mtch)) := by
  simp only [onStreamError, updatePeer, List.map_map]
  apply List.map_congr_left
  intro q _
  simp only [Function.comp]
  split <;> rfl

/-- `handle_peer_stream_error` puts the peer exactly at the floor `match_index + 1` — the value below which no
    response handling can move it (`next_above_match_response`); this is the floor the F32 witness is stuck behind -/
theorem stream_error_floor (n : Node) (p : NodeId) :
    ∀ q ∈ (onStreamError n p).peers, q.id = p → q.next = q.mtch + 1 := by
  intro q hq hid
  simp only [onStreamError, updatePeer, List.mem_map] at hq
  obtain ⟨r, hr, hrq⟩ := hq
  split at hrq
  · subst hrq; rfl
  · next hne => subst hrq; simp [hid] at hne

/-- the whole leader-side replication step (`replicate`: append the new entries, one request per peer) leaves ids and
    match indexes as they were and keeps next_index above match_index for every peer -/
theorem replicate_keeps_match (me : NodeId) (n : Node) (payload : Option Nat) (cap sid : Nat) :
    (replicate me n payload cap sid).1.peers.map (fun p => (p.id, p.mtch)) = n.peers.map (fun p => (p.id, p.mtch))
      ∧ NextAboveMatch (replicate me n payload cap sid).1.peers := by
  unfold replicate
  exact ⟨match_unchanged_round _ _ _ _ _ _ _ _ _, next_above_match_round _ _ _ _ _ _ _ _ _⟩

/-- a majority of grants received first wins the election (`broadcast_vote_requests`) -/
theorem tally_won (n : Nat) (req : VoteReq) : ∀ (grants : List VoteResp) (rest : List VoteResp) (s : Nat),
    (∀ r ∈ grants, r.granted = true) → n - 1 ≠ 0 → s + grants.length > n / 2 →
    (∀ r ∈ rest, r.granted = true) → tally n req (grants ++ rest) s = .won := by
  intro grants rest s hg hn hm hr
  have key : ∀ (l : List VoteResp) (s : Nat), (∀ r ∈ l, r.granted = true) → s + l.length > n / 2 → tally n req l s = .won := by
    intro l
    induction l with
    | nil => intro s _ hs; simp [tally, hn]; simpa using hs
    | cons r l ih =>
      intro s hall hs
      have hrg := hall r (by simp)
      simp only [tally, hrg, if_true]
      exact ih (s + 1) (fun x hx => hall x (by simp [hx])) (by simp at hs; omega)
  apply key
  · intro r hr'; rcases List.mem_append.mp hr' with h | h
    · exact hg r h
    · exact hr r h
  · simp; omega

/-- a request that the follower answers with a conflict changes neither its log nor its commit index -/
theorem conflict_leaves_follower (n : Node) (r : AeReq) (t i : Option Nat)
    (h : checkAppendLegal n.term n.log r = .conflict t i) (ht : ¬ n.term > r.term) :
    (followerAppend n r).1.log = n.log ∧ (followerAppend n r).1.commit = n.commit := by
  unfold followerAppend
  rw [if_neg ht, h]
  exact ⟨rfl, rfl⟩

/-- `broadcast_vote_requests` aborts with LogConflict as soon as it meets a denial from a responder whose log is more up
    to date — before or after the grants that already are a majority (3 nodes: own vote + one grant); had that
    response been lost, the same election would have been won.  With a plain rotation of timeouts this lets terms
    leapfrog forever (observed on the real nodes); the fair schedule therefore lets the node with the most up-to-date
    log time out. -/
theorem tally_aborts_despite_majority :
    tally 3 ⟨27, 1, 2, 5⟩ [⟨26, false, 6, 5⟩, ⟨27, true, 1, 5⟩] 1 = .logConflict ∧
    tally 3 ⟨27, 1, 2, 5⟩ [⟨27, true, 1, 5⟩, ⟨26, false, 6, 5⟩] 1 = .logConflict ∧
    tally 3 ⟨27, 1, 2, 5⟩ [⟨27, true, 1, 5⟩] 1 = .won :=
  ⟨by simp [tally, moreRecent], by simp [tally, moreRecent], by simp [tally]⟩

-- ------------------------------------------------------------------------------------------ negation witness (F32)
/-- Node 2 acknowledges (2, t2) from memory (leader: match_index[2] = 2), crashes before the entry is written and restarts
    with log [1]: from then on every request of leader 1 has prev_index >= 2 and is rejected. -/
def stuckSchedule : List Event :=
  [.tick 1, .tick 1, .voteReq 1 2, .voteResp 1 2, .voteEnd 1, .deliverAe 1, .deliverResp 3, .write 1 7, .deliverAe 4,
   .deliverResp 6, .crash 2 1, .start 2]

theorem heals_within_fails : ¬ HealsWithinStatement := by
  intro h
  have hr := reachable_run 3 2 stuckSchedule _ Reachable.init
  have := h 3 2 _ hr (by decide +kernel)
  revert this
  decide +kernel

/-- non-vacuity: the same fault prefix without the loss of the acknowledged entry recovers within the bound -/
example : recovered (heal 16 0 (run (Cluster.init 3 2)
    [.tick 1, .tick 1, .voteReq 1 2, .voteResp 1 2, .voteEnd 1, .deliverAe 1, .deliverResp 3, .write 1 7, .deliverAe 4,
     .deliverResp 6, .crash 2 0, .start 2, .crash 1 0, .start 1])) = true := by decide +kernel

end DEngine.C32
