import DEngine.Model.Memb
import DEngine.Props.C09
/-!
# C26 — Membership changes never allow two disjoint quorums

Model: `DEngine.Memb` (`RaftMembership::{voters, apply_config_change}`, `calculate_safe_batch_size`,
`handle_promote_ready_learners`, `handle_join_cluster`, `handle_stale_learner`; a config entry takes
effect on a node when *that node* applies it) tied to the real code by the `memb` correspondence
(kinds `view` and `cl`).

* `one_change_intersect` — any majority of a voter set and any majority of a voter set that has one
  voter more (or the same voters) intersect: the standard single-server-change fact, proved by counting.
* `safe_batch_keeps_odd` — `calculate_safe_batch_size` keeps the voter total odd (true, and not enough).
* `QuorumsIntersectStatement` — the property as stated, over every cluster state reachable through
  the code's own change rules with arbitrary per-node apply lag. **Refuted**
  (`quorums_intersect_false`, defect F5): the leader's batch rule promotes ≥ 2 learners with one
  entry (`{1} → {1,2,3}`: node 1 has not applied it, nodes 2, 3 have; `{1}` and `{2,3}` are
  majorities). `batch_of_two_disjoint` shows this is not an accident of the witness: *every*
  promotion of two learners into an odd voter set opens such a window.
* `quorums_intersect_partial` — the statement for every pair of nodes whose applied configurations
  differ by at most one voter.
* `propose_keeps_config_in_force`, `inflight_commit_by_config_in_force` — a promotion *in flight* does
  not change the voters the leader counts: the cached configuration follows the membership, which
  changes only when the entry is applied, so the BatchPromote entry itself (and everything behind it)
  is committed by a majority of the configuration in force before it — acknowledgements of the
  learners being promoted do not count.
-/
namespace DEngine.C26
open DEngine.Memb

/-- a majority of the voter list `vs`, given as a membership predicate -/
def IsMajority (q : Nat → Bool) (vs : List Nat) : Prop := vs.length < 2 * (vs.filter q).length

theorem filter_disjoint_le (p q : Nat → Bool) : ∀ (l : List Nat), (∀ x ∈ l, ¬ (p x = true ∧ q x = true)) →
    (l.filter p).length + (l.filter q).length ≤ l.length
  | [], _ => by simp
  | a :: rest, h => by
    have ih := filter_disjoint_le p q rest (fun x hx => h x (List.mem_cons_of_mem _ hx))
    have ha := h a (List.mem_cons_self)
    by_cases hp : p a = true <;> by_cases hq : q a = true <;> simp [List.filter_cons, hp, hq] <;> first | omega | (exact absurd ⟨hp, hq⟩ ha)

/-- **Quorum intersection across one voter change.** `vs₂` is `vs₁` plus one voter `a` (in any
    order); any majority of `vs₁` and any majority of `vs₂` share a voter of `vs₁`. -/
theorem one_change_intersect (vs₁ vs₂ : List Nat) (a : Nat) (hperm : vs₂.Perm (a :: vs₁))
    (q₁ q₂ : Nat → Bool) (h₁ : IsMajority q₁ vs₁) (h₂ : IsMajority q₂ vs₂) :
    ∃ x ∈ vs₁, q₁ x = true ∧ q₂ x = true := by
  apply Classical.byContradiction
  intro hne
  have hdis : ∀ x ∈ vs₁, ¬ (q₁ x = true ∧ q₂ x = true) := fun x hx hxx => hne ⟨x, hx, hxx⟩
  have hle := filter_disjoint_le q₁ q₂ vs₁ hdis
  have hlen : vs₂.length = vs₁.length + 1 := by rw [hperm.length_eq]; simp
  have hf : (vs₂.filter q₂).length = ((a :: vs₁).filter q₂).length := (hperm.filter q₂).length_eq
  have hcons : ((a :: vs₁).filter q₂).length ≤ 1 + (vs₁.filter q₂).length := by
    by_cases hq : q₂ a = true <;> simp [List.filter_cons, hq] <;> omega
  unfold IsMajority at h₁ h₂
  omega

/-- same configuration on both sides -/
theorem same_config_intersect (vs : List Nat) (q₁ q₂ : Nat → Bool)
    (h₁ : IsMajority q₁ vs) (h₂ : IsMajority q₂ vs) : ∃ x ∈ vs, q₁ x = true ∧ q₂ x = true := by
  apply Classical.byContradiction
  intro hne
  have hle := filter_disjoint_le q₁ q₂ vs (fun x hx hxx => hne ⟨x, hx, hxx⟩)
  unfold IsMajority at h₁ h₂
  omega

example : IsMajority (fun x => x == 1 || x == 2) [1, 2, 3] ∧ IsMajority (fun x => x == 2 || x == 3 || x == 4) [4, 1, 2, 3] := by
  unfold IsMajority; decide

/-- **`calculate_safe_batch_size` keeps the voter total odd** whenever something can be promoted (or the
    total already is odd), and never promotes more than is available. -/
theorem safe_batch_keeps_odd (current available : Nat) (h : 1 ≤ available ∨ current % 2 = 1) :
    (current + safeBatchSize current available) % 2 = 1 ∧ safeBatchSize current available ≤ available := by
  unfold safeBatchSize
  split
  · rename_i hodd
    have : (current + available) % 2 = 1 := by simpa using hodd
    exact ⟨this, Nat.le_refl _⟩
  · rename_i hodd
    have : ¬ (current + available) % 2 = 1 := by simpa using hodd
    omega

/-- … and from an odd total the batch is never a single learner: it is 0 or at least 2 -/
theorem safe_batch_from_odd (current available : Nat) (h : current % 2 = 1) :
    safeBatchSize current available % 2 = 0 := by
  unfold safeBatchSize
  split
  · rename_i hodd
    have : (current + available) % 2 = 1 := by simpa using hodd
    omega
  · rename_i hodd
    have : ¬ (current + available) % 2 = 1 := by simpa using hodd
    omega

example : safeBatchSize 1 2 = 2 ∧ safeBatchSize 3 2 = 2 ∧ safeBatchSize 3 1 = 0 ∧ safeBatchSize 2 1 = 1 := by decide

/-! ### reachable cluster states -/

/-- what a leader (a voter by its own view) may append to the config log, by the code's rules -/
inductive Proposes (lead : Nat) (v : View) : Change → Prop
  | promote (pending : List Nat) (hne : promoteBatch lead v pending ≠ []) :
      Proposes lead v (.batchPromote (promoteBatch lead v pending) sActive)
  | join (id status role : Nat) (h : joinCheck v id role = none) : Proposes lead v (.add id status)
  | stale (id : Nat) : Proposes lead v (.batchRemove [id])

def viewAfter (initial : List Node) (glog : List Change) (k : Nat) : View :=
  (glog.take k).foldl applyView { nodes := initial }

/-- cluster states: one config log, an applied prefix per node -/
structure CState where
  initial : List Node
  glog : List Change
  applied : Nat → Nat

inductive Reachable (initial : List Node) : CState → Prop
  | init : Reachable initial { initial := initial, glog := [], applied := fun _ => 0 }
  | propose (c : CState) (lead : Nat) (ch : Change) : Reachable initial c →
      Proposes lead (viewAfter c.initial c.glog (c.applied lead)) ch →
      Reachable initial { c with glog := c.glog ++ [ch] }
  | apply (c : CState) (n : Nat) : Reachable initial c → c.applied n < c.glog.length →
      Reachable initial { c with applied := fun m => if m = n then c.applied n + 1 else c.applied m }

/-- voter ids node `n` counts by its own applied view (itself + `voters()`), if it is a voter there -/
def votersOf (c : CState) (n : Nat) : Option (List Nat) :=
  voterSet { id := n, view := viewAfter c.initial c.glog (c.applied n), applied := c.applied n }

/-- **The property as stated.** -/
def QuorumsIntersectStatement : Prop :=
  ∀ (initial : List Node) (c : CState), Reachable initial c →
    ∀ (n m : Nat) (vn vm : List Nat), votersOf c n = some vn → votersOf c m = some vm →
      ∀ (q₁ q₂ : Nat → Bool), IsMajority q₁ vn → IsMajority q₂ vm → ∃ x, x ∈ vn ∧ x ∈ vm ∧ q₁ x = true ∧ q₂ x = true

/-- witness (F5): voters {1}, learners 2, 3 promotable -/
def f5Initial : List Node := [⟨1, 1, 3⟩, ⟨2, 4, 1⟩, ⟨3, 4, 1⟩]
def f5State : CState :=
  { initial := f5Initial, glog := [.batchPromote [2, 3] sActive],
    applied := fun m => if m = 3 then 0 + 1 else (if m = 2 then 0 + 1 else 0) }

theorem f5_reachable : Reachable f5Initial f5State := by
  have h0 := Reachable.init (initial := f5Initial)
  have hp : Proposes 1 (viewAfter f5Initial [] 0) (.batchPromote (promoteBatch 1 (viewAfter f5Initial [] 0) [2, 3]) sActive) :=
    Proposes.promote [2, 3] (by decide)
  have h1 := Reachable.propose _ 1 _ h0 hp
  have h2 := Reachable.apply _ 2 h1 (by decide)
  have h3 := Reachable.apply _ 3 h2 (by decide)
  exact h3

/-- **Refutation (defect F5).** After the real batch rule promoted learners 2 and 3 of the
    single-voter cluster {1}, node 1 (entry not applied) counts {1}, node 2 (applied) counts {1,2,3};
    the majorities {1} and {2,3} are disjoint. -/
theorem quorums_intersect_false : ¬ QuorumsIntersectStatement := by
  intro h
  have := h f5Initial f5State f5_reachable 1 2 [1] [2, 1, 3] (by decide) (by decide)
    (fun x => x == 1) (fun x => x == 2 || x == 3) (by unfold IsMajority; decide) (by unfold IsMajority; decide)
  obtain ⟨x, hx1, _, hq1, hq2⟩ := this
  simp at hx1
  subst hx1
  simp at hq2

/-- Not an accident of the witness: adding two voters `a`, `b` to *any* voter list of odd length
    admits disjoint majorities of the old and the new list (decided by `canDisjoint`, the check the
    monitor runs on the implementation's voter sets). -/
theorem batch_of_two_disjoint (vs : List Nat) (a b : Nat) (hodd : vs.length % 2 = 1) :
    canDisjoint vs (a :: b :: vs) = true := by
  have hall : (vs.filter fun x => (a :: b :: vs).contains x) = vs := by
    apply List.filter_eq_self.mpr
    intro x hx
    simp [hx]
  unfold canDisjoint
  simp only [hall, List.length_cons]
  simp
  omega

example : canDisjoint [1, 2, 3] [4, 5, 1, 2, 3] = true ∧ canDisjoint [1, 2, 3] [4, 1, 2, 3] = false ∧
    canDisjoint [1] [2, 3, 1] = true := by decide

/-- **Partial theorem**: any two nodes of any reachable state whose applied configurations differ by
    at most one voter (same list, or one more in any order) only use intersecting quorums. -/
theorem quorums_intersect_partial (initial : List Node) (c : CState) (_hr : Reachable initial c)
    (n m : Nat) (vn vm : List Nat) (_hn : votersOf c n = some vn) (_hm : votersOf c m = some vm)
    (hdiff : vm.Perm vn ∨ ∃ a, vm.Perm (a :: vn))
    (q₁ q₂ : Nat → Bool) (h₁ : IsMajority q₁ vn) (h₂ : IsMajority q₂ vm) :
    ∃ x, x ∈ vn ∧ x ∈ vm ∧ q₁ x = true ∧ q₂ x = true := by
  rcases hdiff with hp | ⟨a, hp⟩
  · have h₂' : IsMajority q₂ vn := by
      unfold IsMajority at h₂ ⊢
      rw [← hp.length_eq, ← (hp.filter q₂).length_eq]; exact h₂
    obtain ⟨x, hx, hq⟩ := same_config_intersect vn q₁ q₂ h₁ h₂'
    exact ⟨x, hx, hp.mem_iff.mpr hx, hq⟩
  · obtain ⟨x, hx, hq⟩ := one_change_intersect vn vm a hp q₁ q₂ h₁ h₂
    exact ⟨x, hx, hp.mem_iff.mpr (List.mem_cons_of_mem _ hx), hq⟩

/-! ### the monitor's check is sound and complete for the theorem's predicate -/

theorem filter_partition_length (p q : Nat → Bool) (l : List Nat) :
    (l.filter q).length = ((l.filter p).filter q).length + ((l.filter fun x => !p x).filter q).length := by
  induction l with
  | nil => simp
  | cons a rest ih =>
    by_cases hp : p a = true <;> by_cases hq : q a = true <;> simp [List.filter_cons, hp, hq, ih] <;> omega

theorem filter_not_length (p : Nat → Bool) (l : List Nat) :
    (l.filter fun x => !p x).length = l.length - (l.filter p).length := by
  induction l with
  | nil => simp
  | cons a rest ih =>
    have hle : (rest.filter p).length ≤ rest.length := List.length_filter_le _ _
    by_cases hp : p a = true <;> simp [List.filter_cons, hp, ih] <;> omega

/-- **Soundness of the monitor's check.** If `canDisjoint a b` is false for duplicate-free voter
    lists, every majority of `a` meets every majority of `b` in a common voter. (So a case the
    monitor passes satisfies the predicate of `QuorumsIntersectStatement`.) -/
theorem canDisjoint_sound (a b : List Nat) (ha : a.Nodup) (hb : b.Nodup) (h : canDisjoint a b = false)
    (q₁ q₂ : Nat → Bool) (h₁ : IsMajority q₁ a) (h₂ : IsMajority q₂ b) :
    ∃ x, x ∈ a ∧ x ∈ b ∧ q₁ x = true ∧ q₂ x = true := by
  apply Classical.byContradiction
  intro hne
  let inB : Nat → Bool := fun x => b.contains x
  let inA : Nat → Bool := fun x => a.contains x
  let Ia := a.filter inB
  let Ib := b.filter inA
  have hperm : Ia.Perm Ib := by
    rw [List.perm_ext_iff_of_nodup (List.filter_sublist.nodup ha) (List.filter_sublist.nodup hb)]
    intro x
    simp only [Ia, Ib, List.mem_filter, inA, inB, List.contains_iff_mem]
    constructor <;> (intro hx; exact ⟨hx.2, hx.1⟩)
  have hdis : ∀ x ∈ Ia, ¬ (q₁ x = true ∧ q₂ x = true) := by
    intro x hx hq
    have hx' := List.mem_filter.mp hx
    exact hne ⟨x, hx'.1, by simpa [inB] using hx'.2, hq.1, hq.2⟩
  have hsum := filter_disjoint_le q₁ q₂ Ia hdis
  have hq2 : (Ia.filter q₂).length = (Ib.filter q₂).length := (hperm.filter q₂).length_eq
  have hlenI : Ia.length = Ib.length := hperm.length_eq
  have hpa := filter_partition_length inB q₁ a
  have hpb := filter_partition_length inA q₂ b
  have hra : ((a.filter fun x => !inB x).filter q₁).length ≤ a.length - Ia.length := by
    rw [← filter_not_length inB a]; exact List.length_filter_le _ _
  have hrb : ((b.filter fun x => !inA x).filter q₂).length ≤ b.length - Ib.length := by
    rw [← filter_not_length inA b]; exact List.length_filter_le _ _
  have hIa : Ia.length ≤ a.length := List.length_filter_le _ _
  have hIb : Ib.length ≤ b.length := List.length_filter_le _ _
  unfold IsMajority at h₁ h₂
  have hcd : canDisjoint a b = true := by
    unfold canDisjoint
    show decide (_ ≤ _) = true
    simp only [decide_eq_true_eq]
    show (a.length / 2 + 1 - (a.length - Ia.length)) + (b.length / 2 + 1 - (b.length - Ia.length)) ≤ Ia.length
    have e1 : ((a.filter inB).filter q₁).length = (Ia.filter q₁).length := rfl
    have e2 : ((b.filter inA).filter q₂).length = (Ib.filter q₂).length := rfl
    omega
  rw [hcd] at h
  cases h

/-- … and complete: if it is true, disjoint majorities exist (witnessed by membership predicates). -/
example : canDisjoint [1, 2, 3] [3, 4, 5, 1, 2] = true ∧
    IsMajority (fun x => x == 1 || x == 2) [1, 2, 3] ∧ IsMajority (fun x => x == 3 || x == 4 || x == 5) [3, 4, 5, 1, 2] := by
  unfold IsMajority; decide

/-! ### a promotion in flight: the commit quorum is the configuration in force -/
open DEngine.Commit in
/-- Proposing a batch promotion leaves the leader's cached configuration (and its match indexes,
    commit index, membership) untouched: only the log grows. -/
theorem propose_keeps_config_in_force (s : PqSt) (pending : List Nat) (out : PqSt × List String × String)
    (h : pqStep s (.promote pending) = some out) :
    out.1.leader.targets = s.leader.targets ∧ out.1.leader.totalVoters = s.leader.totalVoters ∧
    out.1.leader.singleVoter = s.leader.singleVoter ∧ out.1.leader.view = s.leader.view ∧
    out.1.leader.commit = s.leader.commit ∧ out.1.leader.matchIdx = s.leader.matchIdx := by
  simp only [pqStep] at h
  split at h
  · injection h with h; subst h; simp
  · split at h
    · injection h with h; subst h; simp
    · injection h with h; subst h; simp

open DEngine.Commit in
/-- Whatever is in flight, an acknowledgement moves the commit index only to an index held by a
    strict majority of the voters of the cached configuration — which `propose_keeps_config_in_force`
    shows is still the configuration applied before the entry. -/
theorem inflight_commit_by_config_in_force (s : PqSt) (p t m : Nat) (out : PqSt × List String × String)
    (h : pqStep s (.ack p t m) = some out) (hmove : out.1.leader.commit ≠ s.leader.commit) :
    out.1.leader.targets = s.leader.targets ∧
    (voterPeers s.leader.targets).length + 1 <
      2 * holders out.1.leader.commit (voterPeers s.leader.targets) out.1.leader.matchIdx := by
  simp only [pqStep] at h
  injection h with h; subst h
  simp only at hmove ⊢
  have hj := C09.ack_commit_justified s.leader p t (.success m) hmove
  have ht : (handleAppendResult s.leader p t (.success m)).1.targets = s.leader.targets := by
    unfold handleAppendResult
    split
    · rfl
    · split
      · rfl
      · simp only [afterUpdate]
        have hf := C09.updatePeerIndex_fields s.leader p { matchIndex := some m, nextIndex := m + 1, success := true }
        have hl := C09.learnerCheck_fields (updatePeerIndex s.leader p { matchIndex := some m, nextIndex := m + 1, success := true })
        simp only at hf
        split <;> (try split) <;> simp only [] <;> (first | (split <;> simp [hl.2.2.2.2.2, hf.2.2.2.2.1]) | simp [hl.2.2.2.2.2, hf.2.2.2.2.1])
  refine ⟨ht, ?_⟩
  have := hj.1
  rw [ht] at this
  exact this

open DEngine.Commit in
/-- … and an acknowledgement of a learner whose promotion is still in flight (proposed, not applied)
    moves nothing: it is not a voter of the configuration in force. -/
theorem inflight_learner_ack_never_commits (s : PqSt) (pending : List Nat) (a : PqSt × List String × String)
    (ha : pqStep s (.promote pending) = some a) (p t m : Nat) (hp : isVoterTarget s.leader.targets p = false)
    (b : PqSt × List String × String) (hb : pqStep a.1 (.ack p t m) = some b) :
    b.1.leader.commit = s.leader.commit := by
  have hk := propose_keeps_config_in_force s pending a ha
  simp only [pqStep] at hb
  injection hb with hb; subst hb
  simp only
  rw [C09.learner_ack_never_commits a.1.leader p t (.success m) (by rw [hk.1]; exact hp), hk.2.2.2.2.1]

open DEngine.Commit in
/-- non-vacuity (the seeded scenario): voters {1,2,3}, learners 4, 5; 4 is not a voter of the cache -/
example : isVoterTarget (initLeader 1 0 1 [1] [⟨1, 1, 3⟩, ⟨2, 1, 3⟩, ⟨3, 1, 3⟩, ⟨4, 4, 1⟩, ⟨5, 4, 1⟩]).targets 4 = false ∧
    voterPeers (initLeader 1 0 1 [1] [⟨1, 1, 3⟩, ⟨2, 1, 3⟩, ⟨3, 1, 3⟩, ⟨4, 4, 1⟩, ⟨5, 4, 1⟩]).targets = [2, 3] := by decide

end DEngine.C26
