import DEngine.Model.Purge
/-!
# C33 — Log compaction never discards needed entries

* `purge_only_committed_and_snapshotted` (full): in every state reachable by any op sequence (all three roles, both
  engines, restarts, role changes), a purge up to `L` is executed only if `L` is below the commit index the role had
  when it handled `SnapshotCreated` and `L` is covered by the snapshot the node then holds; `can_purge_sound` is
  the purge condition for all argument combinations.
* `lagging_peer_served` (full): after any run on either engine, restarts included, a peer whose `next_index` lies
  below the log start is a snapshot target and the snapshot the node holds covers the log start; a peer exactly at
  the boundary gets an AppendEntries whose `prev_log_term` is known. (It was false after a restart of the File
  engine until the fixes 8997011 / aab5543 — F26a, F26b; the old witness is a regression case.)
-/
namespace DEngine.C33
open DEngine.Purge

/-! ## the purge condition, all argument combinations -/

theorem can_purge_sound (commit : Nat) (lp : Option Nat) (li : Nat) :
    canPurge commit lp li = true ↔ (li < commit ∧ ∀ p, lp = some p → p < li) := by
  unfold canPurge
  cases lp with
  | none => simp
  | some p => simp

/-! ## invariant -/

/-- the label a snapshot taken now would get -/
abbrev label (s : PState) : Nat := s.applied - s.ret

structure PInv (s : PState) : Prop where
  boundary : s.first > 1 → s.bIdx = s.first - 1
  covered : s.first > 1 → ∃ m, s.snap = some m ∧ s.first ≤ m + 1
  below_label : s.first > 1 → s.first - 1 ≤ label s
  snap_label : ∀ m, s.snap = some m → m ≤ label s
  sched_ok : ∀ e, s.sched = some e → s.role = .L ∧ e.1 < s.commit ∧ e.1 ≤ label s
  sched_ge : ∀ e, s.sched = some e → s.first > 1 → s.first - 1 ≤ e.1

/-- the part of the invariant that survives a File-engine restart (the rest is what F26 destroys) -/
structure PInvWeak (s : PState) : Prop where
  below_label : s.first > 1 → s.first - 1 ≤ label s
  snap_label : ∀ m, s.snap = some m → m ≤ label s
  sched_ok : ∀ e, s.sched = some e → s.role = .L ∧ e.1 < s.commit ∧ e.1 ≤ label s
  sched_ge : ∀ e, s.sched = some e → s.first > 1 → s.first - 1 ≤ e.1

theorem PInv.weak {s : PState} (h : PInv s) : PInvWeak s := ⟨h.below_label, h.snap_label, h.sched_ok, h.sched_ge⟩

theorem inv_init (e : Eng) (r : Role) (ret : Nat) : PInv (initState e r ret) := by
  refine ⟨?_, ?_, ?_, ?_, ?_, ?_⟩ <;> simp [initState]

/-- what `purge_logs_up_to(c)` does to the log start and the boundary, when `c` is not below the current boundary -/
theorem purgeLog_spec (s : PState) (c t : Nat) (hge : s.first > 1 → s.first - 1 ≤ c) :
    let s' := purgeLog s c t
    (s'.first > 1 → s'.bIdx = s'.first - 1 ∧ s'.first - 1 = c) ∧
    s'.snap = s.snap ∧ s'.applied = s.applied ∧ s'.ret = s.ret ∧ s'.commit = s.commit ∧ s'.role = s.role ∧
    s'.sched = s.sched ∧ s'.rolePurged = s.rolePurged ∧ s'.eng = s.eng := by
  unfold purgeLog
  simp only
  split
  · simp
  · split
    · rename_i h1 h2
      refine ⟨?_, rfl, rfl, rfl, rfl, rfl, rfl, rfl, rfl⟩
      intro hf
      have := hge hf
      simp only
      omega
    · refine ⟨?_, rfl, rfl, rfl, rfl, rfl, rfl, rfl, rfl⟩
      intro _
      simp only
      omega

/-- facts about the decision taken when `SnapshotCreated(label)` is handled -/
theorem snapDecision_spec (role : Role) (commit : Nat) (rp : Option Nat) (sched : Option (Nat × Nat))
    (lbl lt first : Nat)
    (h_so : ∀ e, sched = some e → role = .L ∧ e.1 < commit ∧ e.1 ≤ lbl)
    (h_sg : ∀ e, sched = some e → first > 1 → first - 1 ≤ e.1)
    (h_bl : first > 1 → first - 1 ≤ lbl) :
    let d := snapDecision role commit rp sched lbl lt
    (∀ e, d.1 = some e → role = .L ∧ e.1 < commit ∧ e.1 ≤ lbl) ∧
    (∀ p, d.2 = some p → p.1 < commit ∧ p.1 ≤ lbl ∧ (first > 1 → first - 1 ≤ p.1)) ∧
    (∀ e p, d.1 = some e → d.2 = some p → e = p) ∧
    (d.2 = none → ∀ e, d.1 = some e → first > 1 → first - 1 ≤ e.1) := by
  unfold snapDecision
  cases role with
  | L =>
    simp only
    by_cases hcp : canPurge commit rp lbl = true
    · have hcp' := (can_purge_sound _ _ _).mp hcp
      simp only [hcp, if_true]
      cases sched with
      | none =>
        simp only
        refine ⟨?_, ?_, ?_, ?_⟩
        · intro e he; cases he; exact ⟨by trivial, hcp'.1, Nat.le_refl _⟩
        · intro p hp; cases hp; exact ⟨hcp'.1, Nat.le_refl _, h_bl⟩
        · intro e p he hp; cases he; cases hp; rfl
        · intro h; cases h
      | some e0 =>
        obtain ⟨_, h2, h3⟩ := h_so e0 rfl
        simp only
        by_cases hel : e0.1 ≥ lbl
        · simp only [hel, if_true]
          refine ⟨?_, ?_, ?_, ?_⟩
          · intro e he; cases he; exact ⟨by trivial, h2, h3⟩
          · intro p hp; cases hp; exact ⟨h2, h3, h_sg e0 rfl⟩
          · intro e p he hp; cases he; cases hp; rfl
          · intro h; cases h
        · simp only [hel, if_false]
          refine ⟨?_, ?_, ?_, ?_⟩
          · intro e he; cases he; exact ⟨by trivial, hcp'.1, Nat.le_refl _⟩
          · intro p hp; cases hp; exact ⟨hcp'.1, Nat.le_refl _, h_bl⟩
          · intro e p he hp; cases he; cases hp; rfl
          · intro h; cases h
    · simp only [hcp, Bool.false_eq_true, if_false]
      refine ⟨fun e he => ⟨by trivial, (h_so e he).2⟩, ?_, ?_, ?_⟩
      · intro p hp; obtain ⟨_, h2, h3⟩ := h_so p hp; exact ⟨h2, h3, h_sg p hp⟩
      · intro e p he hp; rw [he] at hp; cases hp; rfl
      · intro hn e he; rw [hn] at he; cases he
  | F =>
    have hns : sched = none := by
      cases sched with
      | none => rfl
      | some e => have := (h_so e rfl).1; cases this
    subst hns
    simp only
    by_cases hcp : canPurge commit rp lbl = true
    · have hcp' := (can_purge_sound _ _ _).mp hcp
      simp only [hcp, if_true]
      refine ⟨?_, ?_, ?_, ?_⟩
      · intro e he; cases he
      · intro p hp; cases hp; exact ⟨hcp'.1, Nat.le_refl _, h_bl⟩
      · intro e p he; cases he
      · intro h; cases h
    · simp only [hcp, Bool.false_eq_true, if_false]
      refine ⟨?_, ?_, ?_, ?_⟩
      · intro e he; cases he
      · intro p hp; cases hp
      · intro e p he; cases he
      · intro _ e he; cases he
  | N =>
    have hns : sched = none := by
      cases sched with
      | none => rfl
      | some e => have := (h_so e rfl).1; cases this
    subst hns
    simp only
    by_cases hcp : canPurge commit rp lbl = true
    · have hcp' := (can_purge_sound _ _ _).mp hcp
      simp only [hcp, if_true]
      refine ⟨?_, ?_, ?_, ?_⟩
      · intro e he; cases he
      · intro p hp; cases hp; exact ⟨hcp'.1, Nat.le_refl _, h_bl⟩
      · intro e p he; cases he
      · intro h; cases h
    · simp only [hcp, Bool.false_eq_true, if_false]
      refine ⟨?_, ?_, ?_, ?_⟩
      · intro e he; cases he
      · intro p hp; cases hp
      · intro e p he; cases he
      · intro _ e he; cases he

/-- **T1, one step.** Handling `SnapshotCreated` in any role: if a purge up to `L` is executed then `L` is below
    the commit index and covered by the snapshot the node holds afterwards; the invariant is preserved. -/
theorem snapshot_step (s : PState) (h : PInvWeak s) :
    (PInv s → PInv (onSnapshotCreated s).1) ∧ PInvWeak (onSnapshotCreated s).1 ∧
    ∀ L, (onSnapshotCreated s).2 = some L →
      L < s.commit ∧ (onSnapshotCreated s).1.snap = some (label s) ∧ L ≤ label s := by
  obtain ⟨h_bl, h_sl, h_so, h_sg⟩ := h
  have hspec := snapDecision_spec s.role s.commit s.rolePurged s.sched (label s) (labelTerm s (label s)) s.first
    h_so h_sg h_bl
  unfold onSnapshotCreated
  simp only [snapshotLabel]
  generalize hd : snapDecision s.role s.commit s.rolePurged s.sched (s.applied - s.ret)
    (labelTerm s (s.applied - s.ret)) = d at *
  simp only [label] at hspec
  obtain ⟨hd1, hd2, hd3, hd4⟩ := hspec
  cases hp : d.2 with
  | none =>
    simp only
    refine ⟨?_, ⟨h_bl, ?_, ?_, ?_⟩, ?_⟩
    · intro hfullinv
      refine ⟨hfullinv.boundary, ?_, h_bl, ?_, ?_, ?_⟩
      · intro hf
        have hf' : s.first > 1 := hf
        exact ⟨s.applied - s.ret, rfl, by have := h_bl hf'; simp only [label] at this; show s.first ≤ _; omega⟩
      · intro m hm; simp only [Option.some.injEq] at hm; subst hm; exact Nat.le_refl _
      · intro e he; exact hd1 e he
      · intro e he hf; exact hd4 hp e he hf
    · intro m hm; simp only [Option.some.injEq] at hm; subst hm; exact Nat.le_refl _
    · intro e he; exact hd1 e he
    · intro e he hf; exact hd4 hp e he hf
    · intro L hL; cases hL
  | some p =>
    obtain ⟨hp1, hp2, hp3⟩ := hd2 p hp
    simp only
    have hge : ({ s with snap := some (s.applied - s.ret), sched := d.1 } : PState).first > 1 →
        ({ s with snap := some (s.applied - s.ret), sched := d.1 } : PState).first - 1 ≤ p.1 := hp3
    obtain ⟨q1, q2, q3, q4, q5, q6, q7, q8, _⟩ :=
      purgeLog_spec { s with snap := some (s.applied - s.ret), sched := d.1 } p.1 p.2 hge
    have weak : PInvWeak ({ purgeLog { s with snap := some (s.applied - s.ret), sched := d.1 } p.1 p.2 with
        rolePurged := newRolePurged s.role s.rolePurged p.1 } : PState) := by
      refine ⟨?_, ?_, ?_, ?_⟩
      · intro hf; have := (q1 hf).2; simp only [label] at this ⊢; rw [q3, q4]; simp only; omega
      · intro m hm; simp only [label] at hm ⊢; rw [q2] at hm; rw [q3, q4]
        simp only [Option.some.injEq] at hm; subst hm; exact Nat.le_refl _
      · intro e he
        simp only at he; rw [q7] at he
        obtain ⟨r1, r2, r3⟩ := hd1 e he
        simp only [label]; rw [q5, q6, q3, q4]
        exact ⟨r1, r2, r3⟩
      · intro e he hf
        simp only at he; rw [q7] at he
        have := hd3 e p he hp
        subst this
        have := (q1 hf).2; simp only at this ⊢; omega
    refine ⟨?_, weak, ?_⟩
    · intro _
      refine ⟨?_, ?_, weak.below_label, weak.snap_label, weak.sched_ok, weak.sched_ge⟩
      · intro hf; exact (q1 hf).1
      · intro hf
        exact ⟨s.applied - s.ret, by simpa using q2, by have := (q1 hf).2; simp only at this ⊢; omega⟩
    · intro L hL
      simp only [Option.some.injEq] at hL; subst hL
      exact ⟨hp1, by simpa using q2, hp2⟩

/-! ## all ops -/

theorem sched_none_of_not_leader (s : PState) (h : PInvWeak s) (hr : s.role ≠ .L) : s.sched = none := by
  cases hs : s.sched with
  | none => rfl
  | some e => exact absurd (h.sched_ok e hs).1 hr

/-- every op preserves the weak and the full invariant -/
theorem step_inv (s : PState) (op : POp) :
    (PInvWeak s → PInvWeak (step s op).1) ∧
    (PInv s → True → PInv (step s op).1) := by
  cases op with
  | write k t =>
    have hfirst : ∀ f', f' = (if s.last = 0 then (if k = 0 then s.first else 1) else s.first) →
        f' > 1 → f' = s.first := by
      intro f' hf' hgt
      subst hf'
      by_cases hl : s.last = 0
      · by_cases hk : k = 0
        · simp [hl, hk]
        · simp [hl, hk] at hgt
      · simp [hl]
    constructor
    · intro h
      refine ⟨?_, h.snap_label, ?_, ?_⟩
      · intro hf
        have := hfirst _ rfl hf
        simp only [step] at hf this ⊢
        rw [this] at hf ⊢
        exact h.below_label hf
      · intro e he; exact h.sched_ok e he
      · intro e he hf
        have := hfirst _ rfl hf
        simp only [step] at hf this ⊢
        rw [this] at hf ⊢
        exact h.sched_ge e he hf
    · intro h _
      refine ⟨?_, ?_, ?_, h.snap_label, ?_, ?_⟩
      · intro hf
        have := hfirst _ rfl hf
        simp only [step] at hf this ⊢
        rw [this] at hf ⊢
        exact h.boundary hf
      · intro hf
        have := hfirst _ rfl hf
        simp only [step] at hf this ⊢
        rw [this] at hf ⊢
        exact h.covered hf
      · intro hf
        have := hfirst _ rfl hf
        simp only [step] at hf this ⊢
        rw [this] at hf ⊢
        exact h.below_label hf
      · intro e he; exact h.sched_ok e he
      · intro e he hf
        have := hfirst _ rfl hf
        simp only [step] at hf this ⊢
        rw [this] at hf ⊢
        exact h.sched_ge e he hf
  | commit i =>
    have hsame : (step s (.commit i)).1.first = s.first ∧ (step s (.commit i)).1.applied = s.applied ∧
        (step s (.commit i)).1.ret = s.ret ∧ (step s (.commit i)).1.snap = s.snap ∧
        (step s (.commit i)).1.sched = s.sched ∧ (step s (.commit i)).1.bIdx = s.bIdx ∧
        (step s (.commit i)).1.role = s.role ∧ (s.role = .L → s.commit ≤ (step s (.commit i)).1.commit) := by
      simp only [step]
      split
      · split
        · refine ⟨rfl, rfl, rfl, rfl, rfl, rfl, rfl, fun _ => ?_⟩; simp only; omega
        · exact ⟨rfl, rfl, rfl, rfl, rfl, rfl, rfl, fun _ => Nat.le_refl _⟩
      · rename_i hr
        exact ⟨rfl, rfl, rfl, rfl, rfl, rfl, rfl, fun h => absurd h hr⟩
    have hso : ∀ (hw : PInvWeak s) e, (step s (.commit i)).1.sched = some e →
        (step s (.commit i)).1.role = .L ∧ e.1 < (step s (.commit i)).1.commit ∧ e.1 ≤ label (step s (.commit i)).1 := by
      intro hw e he
      obtain ⟨_, e2, e3, _, e5, _, e7, e8⟩ := hsame
      rw [e5] at he
      obtain ⟨h1, h2, h3⟩ := hw.sched_ok e he
      have := e8 h1
      refine ⟨by rw [e7]; exact h1, by omega, ?_⟩
      simp only [label] at h3 ⊢; rw [e2, e3]; exact h3
    obtain ⟨e1, e2, e3, e4, e5, e6, _, _⟩ := hsame
    constructor
    · intro h
      refine ⟨?_, ?_, hso h, ?_⟩
      · intro hf; rw [e1] at hf; simp only [label]; rw [e1, e2, e3]; exact h.below_label hf
      · intro m hm; rw [e4] at hm; simp only [label]; rw [e2, e3]; exact h.snap_label m hm
      · intro e he hf; rw [e5] at he; rw [e1] at hf ⊢; exact h.sched_ge e he hf
    · intro h _
      refine ⟨?_, ?_, ?_, ?_, hso h.weak, ?_⟩
      · intro hf; rw [e1] at hf ⊢; rw [e6]; exact h.boundary hf
      · intro hf; rw [e1] at hf ⊢; rw [e4]; exact h.covered hf
      · intro hf; rw [e1] at hf; simp only [label]; rw [e1, e2, e3]; exact h.below_label hf
      · intro m hm; rw [e4] at hm; simp only [label]; rw [e2, e3]; exact h.snap_label m hm
      · intro e he hf; rw [e5] at he; rw [e1] at hf ⊢; exact h.sched_ge e he hf
  | apply i =>
    by_cases hi : i > s.applied
    · have hmono : s.applied - s.ret ≤ i - s.ret := by omega
      constructor
      · intro h
        simp only [step, hi, if_true]
        refine ⟨?_, ?_, ?_, h.sched_ge⟩
        · intro hf; have := h.below_label hf; simp only [label] at this ⊢; omega
        · intro m hm; have := h.snap_label m hm; simp only [label] at this ⊢; omega
        · intro e he; obtain ⟨h1, h2, h3⟩ := h.sched_ok e he
          exact ⟨h1, h2, by simp only [label] at h3 ⊢; omega⟩
      · intro h _
        simp only [step, hi, if_true]
        refine ⟨h.boundary, h.covered, ?_, ?_, ?_, h.sched_ge⟩
        · intro hf; have := h.below_label hf; simp only [label] at this ⊢; omega
        · intro m hm; have := h.snap_label m hm; simp only [label] at this ⊢; omega
        · intro e he; obtain ⟨h1, h2, h3⟩ := h.sched_ok e he
          exact ⟨h1, h2, by simp only [label] at h3 ⊢; omega⟩
    · simp only [step, hi, if_false]
      exact ⟨fun h => h, fun h _ => h⟩
  | snapshot =>
    simp only [step]
    exact ⟨fun h => (snapshot_step s h).2.1, fun h _ => (snapshot_step s h.weak).1 h⟩
  | query lp li => simp only [step]; exact ⟨fun h => h, fun h _ => h⟩
  | peer n => simp only [step]; exact ⟨fun h => h, fun h _ => h⟩
  | pushDone => simp only [step]; exact ⟨fun h => h, fun h _ => h⟩
  | trans r =>
    simp only [step]
    split
    · exact ⟨fun h => ⟨h.below_label, h.snap_label, (fun _ he => nomatch he), (fun _ he => nomatch he)⟩,
        fun h _ => ⟨h.boundary, h.covered, h.below_label, h.snap_label, (fun _ he => nomatch he),
          (fun _ he => nomatch he)⟩⟩
    · exact ⟨fun h => ⟨h.below_label, h.snap_label, (fun _ he => nomatch he), (fun _ he => nomatch he)⟩,
        fun h _ => ⟨h.boundary, h.covered, h.below_label, h.snap_label, (fun _ he => nomatch he),
          (fun _ he => nomatch he)⟩⟩
    · exact ⟨fun h => ⟨h.below_label, h.snap_label, (fun _ he => nomatch he), (fun _ he => nomatch he)⟩,
        fun h _ => ⟨h.boundary, h.covered, h.below_label, h.snap_label, (fun _ he => nomatch he),
          (fun _ he => nomatch he)⟩⟩
    · exact ⟨fun h => h, fun h _ => h⟩
  | restart r =>
    constructor
    · intro h
      simp only [step, restart]
      exact ⟨h.below_label, h.snap_label, (fun _ he => nomatch he), (fun _ he => nomatch he)⟩
    · intro h _
      simp only [step, restart]
      exact ⟨h.boundary, h.covered, h.below_label, h.snap_label, (fun _ he => nomatch he), (fun _ he => nomatch he)⟩

/-- the purges executed along a run: (purge index, commit index before the op, snapshot held after the op) -/
def purgeEvents : PState → List POp → List (Nat × Nat × Option Nat)
  | _, [] => []
  | s, op :: ops =>
      (match op with
       | .snapshot =>
           (match (onSnapshotCreated s).2 with
            | some L => [(L, s.commit, (onSnapshotCreated s).1.snap)]
            | none => [])
       | _ => []) ++ purgeEvents (step s op).1 ops

theorem purgeEvents_ok (ops : List POp) : ∀ s, PInvWeak s →
    ∀ ev ∈ purgeEvents s ops, ev.1 < ev.2.1 ∧ ∃ m, ev.2.2 = some m ∧ ev.1 ≤ m := by
  induction ops with
  | nil => intro s _ ev hev; simp [purgeEvents] at hev
  | cons op ops ih =>
    intro s h ev hev
    simp only [purgeEvents, List.mem_append] at hev
    rcases hev with hev | hev
    · cases op with
      | snapshot =>
        simp only at hev
        cases hL : (onSnapshotCreated s).2 with
        | none => rw [hL] at hev; simp at hev
        | some L =>
          rw [hL] at hev
          simp only [List.mem_singleton] at hev
          subst hev
          obtain ⟨h1, h2, h3⟩ := (snapshot_step s h).2.2 L hL
          exact ⟨h1, label s, h2, h3⟩
      | _ => simp at hev
    · exact ih _ ((step_inv s op).1 h) ev hev

/-- **C33, first theorem (full strength).** Along every run from the initial state — any engine, any starting
    role, any interleaving of writes, commit / apply progress, snapshots, role changes, restarts — every executed
    purge up to `L` satisfies `L < commit` (the commit index the role had when it handled `SnapshotCreated`) and
    `L ≤` the index covered by the snapshot the node holds when the purge is executed. -/
theorem purge_only_committed_and_snapshotted (eng : Eng) (role : Role) (ret : Nat) (ops : List POp) :
    ∀ ev ∈ purgeEvents (initState eng role ret) ops, ev.1 < ev.2.1 ∧ ∃ m, ev.2.2 = some m ∧ ev.1 ≤ m :=
  purgeEvents_ok ops _ (inv_init eng role ret).weak
/-- non-vacuity: a run in which a purge is executed -/
example : purgeEvents (initState .file .L 1) [.write 6 1, .commit 6, .apply 5, .snapshot] = [(4, 6, some 4)] := by
  decide

/-! ## lagging peers -/

/-- The next heartbeat round serves peer `next`: below the log start it is a snapshot target and the snapshot held
    covers the log start; exactly at the boundary the AppendEntries carries a known `prev_log_term`. -/
def servedB (s : PState) (next : Nat) : Bool :=
  match planPeer s next with
  | .snapshotTarget sn =>
      (match sn with
       | some m => decide (s.first ≤ m + 1)
       | none => false)
  | .append prev _ =>
      (decide (s.first ≤ 1) || decide (s.first ≤ next)) &&
      (decide (s.first ≤ 1) || decide (prev + 1 ≠ s.first) || (entryTerm s prev).isSome)

theorem served_of_inv (s : PState) (h : PInv s) (next : Nat) : servedB s next = true := by
  unfold servedB planPeer
  split
  · rename_i heq
    split at heq
    · rename_i hc
      cases heq
      obtain ⟨m, hm, hle⟩ := h.covered hc.1
      simp [hm, hle]
    · cases heq
  · rename_i prev pt heq
    split at heq
    · cases heq
    · rename_i hc
      simp only [PeerPlan.append.injEq] at heq
      obtain ⟨hprev, _⟩ := heq
      subst hprev
      by_cases hf : s.first ≤ 1
      · simp [hf]
      · have hf' : s.first > 1 := by omega
        have hnext : s.first ≤ next := by
          have : ¬ (s.first > 1 ∧ next < s.first) := hc
          omega
        by_cases hb : next - 1 + 1 = s.first
        · have hbd := h.boundary hf'
          have : (entryTerm s (next - 1)).isSome = true := by
            unfold entryTerm
            have h1 : s.last = 0 ∨ next - 1 < s.first ∨ next - 1 > s.last := Or.inr (Or.inl (by omega))
            have h2 : s.bIdx > 0 ∧ next - 1 = s.bIdx := by omega
            rw [if_pos h1]
            rw [if_pos h2]
            rfl
          simp [hnext, this]
        · simp [hnext, hb]

theorem run_final_inv (ops : List POp) : ∀ s, PInv s → PInv (run s ops).2.2 := by
  induction ops with
  | nil => intro s h; simpa [run] using h
  | cons op ops ih =>
    intro s h
    simp only [run]
    exact ih _ ((step_inv s op).2 h trivial)

/-- The former F26 witness (File engine): 6 entries, commit 6, applied 5, snapshot (label 4, purge to 4), graceful
    restart. Both engines now keep the snapshot metadata and the purge boundary. -/
def f26Ops : List POp := [.write 6 1, .commit 6, .apply 5, .snapshot, .restart .L]
example : planPeer (run (initState .file .L 1) f26Ops).2.2 2 = .snapshotTarget (some 4) ∧
    planPeer (run (initState .file .L 1) f26Ops).2.2 5 = .append 4 1 ∧
    planPeer (run (initState .rocks .L 1) f26Ops).2.2 2 = .snapshotTarget (some 4) := by decide

/-- **C33, second theorem (full strength).** After any run on either engine — restarts and role changes included
    — every peer position is served: a peer below the log start is a snapshot target and the snapshot held covers
    the log start; a peer at the boundary gets a known prev_log_term. -/
theorem lagging_peer_served (eng : Eng) (role : Role) (ret : Nat) (ops : List POp) (next : Nat) :
    servedB (run (initState eng role ret) ops).2.2 next = true :=
  served_of_inv _ (run_final_inv ops _ (inv_init eng role ret)) next
/-- non-vacuity: lagging peers after a purge, and after a restart -/
example : servedB (run (initState .file .F 1) [.write 6 1, .commit 6, .apply 5, .snapshot, .trans .L]).2.2 2 = true ∧
    (run (initState .file .F 1) [.write 6 1, .commit 6, .apply 5, .snapshot, .trans .L]).2.2.first = 5 ∧
    (run (initState .file .L 1) f26Ops).2.2.first = 5 := by decide

/-- after a snapshot push the leader restarts the peer at `last + 1` (raft.rs SnapshotPushCompleted) -/
theorem push_completed_next (s : PState) (h : s.role = .L) :
    (step s .pushDone).2.1 = .next (some (s.last + 1)) := by simp [step, h]

/-! ## lagging peers at the replication-worker level: failed pushes do not strand the peer -/

theorem pushBackoff_le_cap (base cap c : Nat) : pushBackoff base cap c ≤ cap := Nat.min_le_right _ _

/-- the worker / backoff state in which the next heartbeat round (at least `cap` ms later) attempts a push -/
structure WReady (s : WState) : Prop where
  lagging : s.first > 1 ∧ s.next < s.first
  has_snap : ∃ m, s.snap = some m
  idle : s.inProgress = false
  not_broken : s.broken = false
  retry_soon : ∀ r, s.retryAt = some r → r ≤ s.now + s.cap

/-- one round with a failing push keeps the peer servable -/
theorem wStep_fail (s : WState) (dt : Nat) (h : WReady s) (hdt : s.cap ≤ dt) (hk : s.failsLeft > 0) :
    (wStep s dt).2 = [.pushFailed] ∧ WReady (wStep s dt).1 ∧
    (wStep s dt).1.failsLeft = s.failsLeft - 1 ∧ (wStep s dt).1.cap = s.cap ∧ (wStep s dt).1.last = s.last ∧
    (wStep s dt).1.first = s.first := by
  obtain ⟨hl, ⟨m, hm⟩, hi, hb, hr⟩ := h
  have hnb : inBackoff s.retryAt (s.now + dt) = false := by
    unfold inBackoff
    cases hra : s.retryAt with
    | none => rfl
    | some r => have := hr r hra; simp; omega
  have hstep : wStep s dt = (({ s with now := s.now + dt, hasWorker := true, failsLeft := s.failsLeft - 1, inProgress := false, failCount := s.failCount + 1, retryAt := some (s.now + dt + pushBackoff s.base s.cap (s.failCount + 1)) } : WState), [WCall.pushFailed]) := by
    unfold wStep
    simp only [hl, and_self, if_true, hm, hnb, hi, hb, hk, Bool.false_eq_true, if_false]
  rw [hstep]
  refine ⟨rfl, ⟨hl, ⟨m, hm⟩, rfl, hb, ?_⟩, rfl, rfl, rfl, rfl⟩
  intro r hr'
  have : r = s.now + dt + pushBackoff s.base s.cap (s.failCount + 1) := by
    have := hr'; simp only [Option.some.injEq] at this; exact this.symm
  subst this
  have := pushBackoff_le_cap s.base s.cap (s.failCount + 1)
  show _ ≤ s.now + dt + s.cap
  omega

/-- one round with a succeeding push: the snapshot goes out and next_index restarts at last + 1 -/
theorem wStep_ok (s : WState) (dt : Nat) (h : WReady s) (hdt : s.cap ≤ dt) (hk : s.failsLeft = 0) :
    (wStep s dt).2 = [.pushOk] ∧ (wStep s dt).1.next = s.last + 1 ∧ (wStep s dt).1.inProgress = false ∧
    (wStep s dt).1.broken = false ∧ (wStep s dt).1.last = s.last ∧ (wStep s dt).1.first = s.first := by
  obtain ⟨hl, ⟨m, hm⟩, hi, hb, hr⟩ := h
  have hnb : inBackoff s.retryAt (s.now + dt) = false := by
    unfold inBackoff
    cases hra : s.retryAt with
    | none => rfl
    | some r => have := hr r hra; simp; omega
  have hstep : wStep s dt = (({ s with now := s.now + dt, hasWorker := true, inProgress := false, failCount := 0, retryAt := none, next := s.last + 1 } : WState), [WCall.pushOk]) := by
    unfold wStep
    simp only [hl, and_self, if_true, hm, hnb, hi, hb, hk, Bool.false_eq_true, if_false, Nat.lt_irrefl]
  rw [hstep]
  exact ⟨rfl, rfl, rfl, hb, rfl, rfl⟩

/-- a peer that is not below the boundary and whose worker is idle gets an AppendEntries -/
theorem wStep_append (s : WState) (dt : Nat) (hnt : ¬ (s.first > 1 ∧ s.next < s.first))
    (hi : s.inProgress = false) (hb : s.broken = false) : (wStep s dt).2 = [.append (s.next - 1)] := by
  unfold wStep
  simp only [hnt, if_false, hi, hb, Bool.false_eq_true]

/-- **C33 at the worker level.** A peer below the purge boundary, a snapshot held, the transport failing the
    next `k` pushes (any `k`): heartbeat rounds spaced at least one maximal backoff apart make exactly `k` failed
    attempts, then the push succeeds, and the round after that hands the peer an AppendEntries at `last` — the peer
    is never stranded by failed pushes. -/
theorem worker_serves_lagging_peer (k : Nat) : ∀ (s : WState) (dts : List Nat), WReady s → s.failsLeft = k →
    dts.length = k + 2 → (∀ d ∈ dts, s.cap ≤ d) → s.first ≤ s.last + 1 →
    (wRun s (dts.map .hb)).map (·.1) = List.replicate k [.pushFailed] ++ [[.pushOk], [.append s.last]] := by
  induction k with
  | zero =>
    intro s dts h hk hlen hd hfl
    match dts, hlen with
    | [d1, d2], _ =>
      obtain ⟨c1, n1, i1, b1, l1, f1⟩ := wStep_ok s d1 h (hd d1 (by simp)) hk
      simp only [wRun, wApply, List.map, List.replicate, List.nil_append]
      rw [c1]
      -- second round: append at last
      have h2 : (wStep (wStep s d1).1 d2).2 = [.append s.last] := by
        rw [wStep_append _ d2 (by rw [n1, f1]; omega) i1 b1, n1]
        simp
      rw [h2]
  | succ k ih =>
    intro s dts h hk hlen hd hfl
    match dts, hlen with
    | d :: rest, hlen =>
      obtain ⟨c1, r1, fl1, cap1, l1, f1⟩ := wStep_fail s d h (hd d (by simp)) (by omega)
      simp only [wRun, wApply, List.map, List.replicate_succ, List.cons_append]
      rw [c1]
      have := ih (wStep s d).1 rest r1 (by rw [fl1, hk]; rfl) (by simpa using hlen)
        (fun x hx => by rw [cap1]; exact hd x (List.mem_cons_of_mem _ hx)) (by rw [f1, l1]; exact hfl)
      rw [this, l1]
/-- non-vacuity: two failures, then served -/
example : (wRun ⟨5, 8, some 4, 100, 400, 0, 2, 2, 0, none, false, false, false⟩ [.hb 400, .hb 400, .hb 400, .hb 400]).map (·.1)
    = [[.pushFailed], [.pushFailed], [.pushOk], [.append 8]] := by decide

/-- **After a stream break** (the worker drops the task it pops next and re-opens the stream) the peer — reset
    to next_index 1 by `PeerStreamError`, hence below the boundary — is served again: with a healthy transport the
    round after the reconnect round pushes the snapshot and the one after that appends at `last`. -/
theorem worker_serves_after_stream_break (s : WState) (d1 d2 d3 : Nat)
    (hf : s.first > 1) (hfl : s.first ≤ s.last + 1) (hsnap : ∃ m, s.snap = some m) (hi : s.inProgress = false)
    (hr : s.retryAt = none) (hk : s.failsLeft = 0) (hc : s.cap ≤ d2) (hw : s.hasWorker = true)
    (hnb : s.broken = false) :
    (wRun s [.brk, .hb d1, .hb d2, .hb d3]).map (·.1) = [[], [], [.pushOk], [.append s.last]] := by
  obtain ⟨m, hm⟩ := hsnap
  have h1 : wStep (wBreak s) d1 = (({ s with broken := false, next := 1, now := s.now + d1 } : WState), []) := by
    unfold wStep wBreak inBackoff
    have : (1 : Nat) < s.first := hf
    simp [this, hm, hr, hw, hnb]

  have hready : WReady ({ s with broken := false, next := 1, now := s.now + d1 } : WState) :=
    ⟨⟨hf, hf⟩, ⟨m, hm⟩, hi, rfl, fun r h => by simp [hr] at h⟩
  obtain ⟨c2, n2, i2, b2, l2, f2⟩ := wStep_ok _ d2 hready hc hk
  simp only [wRun, wApply, List.map, h1]
  rw [c2]
  have h3 := wStep_append (wStep ({ s with broken := false, next := 1, now := s.now + d1 } : WState) d2).1 d3
    (by rw [n2, f2]; simp only; omega) i2 b2
  rw [h3, n2]
  simp

end DEngine.C33
