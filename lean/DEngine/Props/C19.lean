import DEngine.Model.BufLogMon
import DEngine.Lemmas.BufLogStep
/-!
# C19 — The buffered log behaves like a plain indexed log

`Sys.run` is the model of the real `BufferedRaftLog` (SkipMap entries, min/max atomics, `term_first_index` /
`term_last_index`, `TermSegments`, `filter_out_conflicts_and_append` with its fast path by `partition_point` and its
slow path, `remove_range`, purge, reset, the IO task with every arm order) — the same function the `buflog` driver
runs against the real code. `Plain.run` is a list of entries above an anchor with the textbook rules.

* `buf_refines_plain` (full strength): for **every** operation list whose append / AppendEntries requests are what
  Raft hands to the log — gap-free, starting where Raft starts them, terms ≥ 1, non-decreasing terms inside one
  request (`wfRun`, decidable, evaluated on the specification state) — every observation of the buffered log equals
  that of the plain log: last log id, first / last entry id, `entry_term` at every index, first / last index of
  every term, every range read, `is_empty`, last entry, and the result of every conflict-aware append and range read
  along the way. No bound on length, indexes, terms or the number of term changes (after fix f685456 the
  `TermSegments` cold path falls back to the SkipMap once its 1024 slots are used up; the model does the same).
* `gap_free_is_needed`: contiguity is a real precondition, not a convenience — for a request with an index gap (which
  Raft never builds, cf. fix F6) the log answers `entry_term` for the missing index.
-/
namespace DEngine.C19
open DEngine.BufLog

/-- every query of the log, compared with the plain log -/
structure ObsEq (b : Buf) (p : Plain) : Prop where
  lastLogId : b.lastLogId = p.lastLogId
  first : b.minIdx = p.first
  last : b.maxIdx = p.last
  entryTerm : ∀ i, b.entryTerm i = p.termAt i
  firstIdxForTerm : ∀ t, b.firstIdxForTerm t = p.firstIdxForTerm t
  lastIdxForTerm : ∀ t, b.lastIdxForTerm t = p.lastIdxForTerm t
  range : ∀ lo hi, b.getRange lo hi = p.getRange lo hi
  isEmpty : b.isEmpty = p.ents.isEmpty
  lastEntry : b.lastEntry = p.ents.getLast?

theorem obsEq_of_inv {b : Buf} (h : b.Inv) : ObsEq b b.abs :=
  { lastLogId := h.lastLogId_eq, first := h.first_eq, last := h.last_eq, entryTerm := h.entryTerm_eq,
    firstIdxForTerm := h.firstIdxForTerm_eq, lastIdxForTerm := h.lastIdxForTerm_eq,
    range := fun _ _ => rfl, isEmpty := rfl, lastEntry := h.lastEntry_eq }

/-- the monitor run on the implementation's output is the decidable form of `ObsEq` on the printed grid:
    if the log's queries equal the plain log's, the monitor finds no difference -/
theorem obsDiff_none_of_obsEq {b : Buf} {p : Plain} (h : ObsEq b p) (st : Store) (sim : Bool) :
    obsDiff p (b.snap st sim) = none := by
  have ht : (List.range (gridIdx + 1)).map b.entryTerm = (List.range (gridIdx + 1)).map p.termAt :=
    List.map_congr_left (fun i _ => h.entryTerm i)
  have hf : (List.range (gridTerm + 1)).map b.firstIdxForTerm = (List.range (gridTerm + 1)).map p.firstIdxForTerm :=
    List.map_congr_left (fun i _ => h.firstIdxForTerm i)
  have hl : (List.range (gridTerm + 1)).map b.lastIdxForTerm = (List.range (gridTerm + 1)).map p.lastIdxForTerm :=
    List.map_congr_left (fun i _ => h.lastIdxForTerm i)
  simp [obsDiff, Buf.snap, h.lastLogId, h.first, h.last, ht, hf, hl, h.range, h.isEmpty, h.lastEntry]

/-- induction over the operation list -/
theorem run_refines : ∀ (ops : List Op) (s : Sys), Quiet s → s.buf.Inv → wfRun s.buf.abs ops = true →
    Quiet (Sys.run s ops).1 ∧ (Sys.run s ops).1.buf.Inv ∧ (Sys.run s ops).1.buf.abs = (Plain.run s.buf.abs ops).1 ∧
    resAgreeAll ops (Sys.run s ops).2 (Plain.run s.buf.abs ops).2 = true := by
  intro ops
  induction ops with
  | nil => intro s hq hi _; exact ⟨hq, hi, rfl, rfl⟩
  | cons op ops ih =>
    intro s hq hi hwf
    simp only [wfRun, Bool.and_eq_true] at hwf
    have hstep := execOp_refines hq hi hwf.1
    have hrest := ih (execOp s op).1 hstep.quiet hstep.inv (by rw [hstep.abs]; exact hwf.2)
    simp only [Sys.run, Plain.run]
    refine ⟨hrest.1, hrest.2.1, ?_, ?_⟩
    · rw [hrest.2.2.1, hstep.abs]
    · simp only [resAgreeAll, Bool.and_eq_true]
      refine ⟨hstep.res, ?_⟩
      have := hrest.2.2.2
      rw [hstep.abs] at this
      exact this

/-- **C19 (well-formed streams, full strength).** Whatever the store flavour and whatever the IO schedule chosen by
    the operations' annotations. -/
theorem buf_refines_plain (ops : List Op) (keepBoundary : Bool) (file : Option FileImg)
    (hwf : wfRun {} ops = true) :
    ObsEq (Sys.run { keepBoundary := keepBoundary, file := file } ops).1.buf (Plain.run {} ops).1 ∧
    resAgreeAll ops (Sys.run { keepBoundary := keepBoundary, file := file } ops).2 (Plain.run {} ops).2 = true := by
  have h := run_refines ops { keepBoundary := keepBoundary, file := file } ⟨rfl, by simp⟩ Buf.Inv.init
    (by simpa [Buf.abs] using hwf)
  have hobs := obsEq_of_inv h.2.1
  rw [h.2.2.1] at hobs
  exact ⟨by simpa [Buf.abs] using hobs, by simpa [Buf.abs] using h.2.2.2⟩

/-- the invariant that carries the induction holds after every well-formed run -/
theorem inv_of_run (ops : List Op) (keepBoundary : Bool) (file : Option FileImg)
    (hwf : wfRun {} ops = true) :
    (Sys.run { keepBoundary := keepBoundary, file := file } ops).1.buf.Inv :=
  (run_refines ops { keepBoundary := keepBoundary, file := file } ⟨rfl, by simp⟩ Buf.Inv.init
    (by simpa [Buf.abs] using hwf)).2.1

/-- well-formedness passes to prefixes, so the agreement holds after every operation of the run -/
theorem wfRun_take : ∀ (ops : List Op) (p : Plain) (n : Nat), wfRun p ops = true → wfRun p (ops.take n) = true := by
  intro ops
  induction ops with
  | nil => intro p n h; simp [wfRun]
  | cons op ops ih =>
    intro p n h
    cases n with
    | zero => simp [wfRun]
    | succ n =>
      simp only [wfRun, Bool.and_eq_true] at h
      simp only [List.take_succ_cons, wfRun, Bool.and_eq_true]
      exact ⟨h.1, ih _ n h.2⟩

theorem buf_refines_plain_prefix (ops : List Op) (keepBoundary : Bool) (file : Option FileImg)
    (hwf : wfRun {} ops = true) (n : Nat) :
    ObsEq (Sys.run { keepBoundary := keepBoundary, file := file } (ops.take n)).1.buf (Plain.run {} (ops.take n)).1 :=
  (buf_refines_plain (ops.take n) keepBoundary file (wfRun_take ops {} n hwf)).1

/-! ### non-vacuity: a well-formed stream that goes through every path of the conflict-aware append -/

def e (i t p : Nat) : Entry := { index := i, term := t, payload := p }

def demoOps : List Op :=
  [ .append [e 1 1 0, e 2 1 0, e 3 1 0],                 -- leader-style append
    .fca 3 1 [e 4 1 0, e 5 2 0] {},                      -- fast path, tail appended
    .fca 3 1 [e 4 1 0, e 5 2 0] {},                      -- slow path, everything matches
    .fca 2 1 [e 3 3 7, e 4 3 7] { prio := [.notify, .cmd, .timer] },  -- conflict: truncate from 3, ReplaceRange
    .purge 2 1 { clock := true, prio := [.timer, .cmd, .notify] },
    .fca 2 1 [e 3 3 7, e 4 3 7, e 5 3 7] {},             -- prev = purge boundary
    .get 0 9, .flush {}, .io {},
    .fca 0 0 [e 3 4 1] {} ]                              -- start from scratch (above the purge boundary)

example : wfRun {} demoOps = true := by decide
example : (Sys.run {} demoOps).1.buf.mem = [e 3 4 1] ∧ (Sys.run {} demoOps).1.buf.purgedI = 2 := by decide
example : ObsEq (Sys.run {} demoOps).1.buf (Plain.run {} demoOps).1 := (buf_refines_plain demoOps true none (by decide)).1

/-! ### contiguity is a real precondition

The weaker reading of "what Raft hands to the log" (`wfRunWeak`: increasing indexes, gaps not excluded) does not
suffice: the log never checks contiguity, and after a gapped append `TermSegments` answers for the missing index.
Raft never builds such a request (the leader sends the contiguous run after `prev_log_index`, fix F6), so this is a
precondition of the theorem above, not a defect of the log. -/

def WeakStatement : Prop :=
  ∀ ops : List Op, wfRunWeak {} ops = true → ObsEq (Sys.run {} ops).1.buf (Plain.run {} ops).1

/-- an append that skips index 2 is accepted; `entry_term(2)` then answers term 1 although no entry 2 exists -/
def gapWitness : List Op := [ .append [e 1 1 0], .append [e 3 1 0] ]

theorem gapWitness_weak_wf : wfRunWeak {} gapWitness = true ∧ wfRun {} gapWitness = false := by decide

theorem gapWitness_entryTerm :
    (Sys.run {} gapWitness).1.buf.entryTerm 2 = some 1 ∧ (Plain.run {} gapWitness).1.termAt 2 = none := by decide

theorem gap_free_is_needed : ¬ WeakStatement := by
  intro h
  have := (h gapWitness (by decide)).entryTerm 2
  rw [gapWitness_entryTerm.1, gapWitness_entryTerm.2] at this
  cases this

/-! ### beyond the capacity of `TermSegments` (regression of F71)

1026 entries with 1026 different terms archive 1025 segments; before fix f685456 the cold path of
`TermSegments::get` indexed `seg_starts[1024]` and `entry_term(1)` panicked. Now it answers through the SkipMap
fallback, and the main theorem covers the run like any other. -/

def capWitness : List Op :=
  [ .append ((List.range 1026).map fun i => { index := i + 1, term := i + 1, payload := 0 }) ]

theorem capWitness_wf : wfRun {} capWitness = true := by decide +kernel

theorem capWitness_overflowed : maxSegs < (Sys.run {} capWitness).1.buf.segs.count := by decide +kernel

theorem capWitness_entryTerm : (Sys.run {} capWitness).1.buf.entryTerm 1 = some 1 :=
  ((buf_refines_plain capWitness true none capWitness_wf).1.entryTerm 1).trans (by decide +kernel)

end DEngine.C19
