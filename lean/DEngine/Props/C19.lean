import DEngine.Model.BufLogMon
import DEngine.Lemmas.BufLogStep
/-!
# C19 — The buffered log behaves like a plain indexed log

`Sys.run` is the model of the real `BufferedRaftLog` (SkipMap entries, min/max atomics, `term_first_index` /
`term_last_index`, `TermSegments`, `filter_out_conflicts_and_append` with its fast path by `partition_point` and its
slow path, `remove_range`, purge, reset, the IO task with every arm order) — the same function the `buflog` driver
runs against the real code. `Plain.run` is a list of entries above an anchor with the textbook rules.

* `buf_refines_plain` (full strength for well-formed streams): for **every** operation list whose append /
  AppendEntries requests are gap-free, start where Raft starts them, carry terms ≥ 1 and (inside one request)
  non-decreasing terms — `wfRun`, decidable, evaluated on the specification state — and with at most 1024 entries in
  total (the `TermSegments` capacity), every observation of the buffered log equals that of the plain log:
  last log id, first / last entry id, `entry_term` at every index, first / last index of every term, every range
  read, `is_empty`, last entry, and the result of every conflict-aware append and range read along the way.
* The statement for the weaker reading of "well-formed" (increasing indexes, gaps not excluded) is **false**:
  `weak_statement_false` (the log accepts a gapped append and then answers `entry_term` for the missing index).
* Without the 1024 bound it is false as well: `segment_cap_statement_false` (the cold path of `TermSegments::get`
  indexes past the end of its arrays once more than 1024 segments were archived).
-/
namespace DEngine.C19
open DEngine.BufLog

/-- every query of the log, compared with the plain log -/
structure ObsEq (b : Buf) (p : Plain) : Prop where
  lastLogId : b.lastLogId = p.lastLogId
  first : b.minIdx = p.first
  last : b.maxIdx = p.last
  entryTerm : ∀ i, b.entryTerm i = p.termAt i
  firstIdxForTerm : ∀ t, b.firstIdxForTerm t = p.firstIdxForTerm t
  lastIdxForTerm : ∀ t, b.lastIdxForTerm t = p.lastIdxForTerm t
  range : ∀ lo hi, b.getRange lo hi = p.getRange lo hi
  isEmpty : b.isEmpty = p.ents.isEmpty
  lastEntry : b.lastEntry = p.ents.getLast?

theorem obsEq_of_inv {b : Buf} (h : b.Inv) : ObsEq b b.abs :=
  { lastLogId := h.lastLogId_eq, first := h.first_eq, last := h.last_eq, entryTerm := h.entryTerm_eq,
    firstIdxForTerm := h.firstIdxForTerm_eq, lastIdxForTerm := h.lastIdxForTerm_eq,
    range := fun _ _ => rfl, isEmpty := rfl, lastEntry := h.lastEntry_eq }

/-- the monitor run on the implementation's output is the decidable form of `ObsEq` on the printed grid:
    if the log's queries equal the plain log's, the monitor finds no difference -/
theorem obsDiff_none_of_obsEq {b : Buf} {p : Plain} (h : ObsEq b p) (st : Store) (sim : Bool) :
    obsDiff p (b.snap st sim) = none := by
  have ht : (List.range (gridIdx + 1)).map b.entryTerm = (List.range (gridIdx + 1)).map p.termAt :=
    List.map_congr_left (fun i _ => h.entryTerm i)
  have hf : (List.range (gridTerm + 1)).map b.firstIdxForTerm = (List.range (gridTerm + 1)).map p.firstIdxForTerm :=
    List.map_congr_left (fun i _ => h.firstIdxForTerm i)
  have hl : (List.range (gridTerm + 1)).map b.lastIdxForTerm = (List.range (gridTerm + 1)).map p.lastIdxForTerm :=
    List.map_congr_left (fun i _ => h.lastIdxForTerm i)
  simp [obsDiff, Buf.snap, h.lastLogId, h.first, h.last, ht, hf, hl, h.range, h.isEmpty, h.lastEntry]

/-- induction over the operation list -/
theorem run_refines : ∀ (ops : List Op) (s : Sys), Quiet s → s.buf.Inv → wfRun s.buf.abs ops = true →
    s.buf.segs.arch.length + budget ops ≤ maxSegs →
    Quiet (Sys.run s ops).1 ∧ (Sys.run s ops).1.buf.Inv ∧ (Sys.run s ops).1.buf.abs = (Plain.run s.buf.abs ops).1 ∧
    resAgreeAll ops (Sys.run s ops).2 (Plain.run s.buf.abs ops).2 = true := by
  intro ops
  induction ops with
  | nil => intro s hq hi _ _; exact ⟨hq, hi, rfl, rfl⟩
  | cons op ops ih =>
    intro s hq hi hwf hb
    simp only [wfRun, Bool.and_eq_true] at hwf
    simp only [budget] at hb
    have hstep := execOp_refines hq hi hwf.1 (by omega)
    have hrest := ih (execOp s op).1 hstep.quiet hstep.inv (by rw [hstep.abs]; exact hwf.2)
      (by have := hstep.segs; omega)
    simp only [Sys.run, Plain.run]
    refine ⟨hrest.1, hrest.2.1, ?_, ?_⟩
    · rw [hrest.2.2.1, hstep.abs]
    · simp only [resAgreeAll, Bool.and_eq_true]
      refine ⟨hstep.res, ?_⟩
      have := hrest.2.2.2
      rw [hstep.abs] at this
      exact this

/-- the archive of `TermSegments` stays within the budget -/
theorem run_segs_le : ∀ (ops : List Op) (s : Sys), Quiet s → s.buf.Inv → wfRun s.buf.abs ops = true →
    s.buf.segs.arch.length + budget ops ≤ maxSegs → (Sys.run s ops).1.buf.segs.arch.length ≤ maxSegs := by
  intro ops
  induction ops with
  | nil => intro s _ _ _ hb; simpa [Sys.run, budget] using hb
  | cons op ops ih =>
    intro s hq hi hwf hb
    simp only [wfRun, Bool.and_eq_true] at hwf
    simp only [budget] at hb
    have hstep := execOp_refines hq hi hwf.1 (by omega)
    simp only [Sys.run]
    exact ih (execOp s op).1 hstep.quiet hstep.inv (by rw [hstep.abs]; exact hwf.2) (by have := hstep.segs; omega)

/-- **C19 (well-formed streams, full strength).** Whatever the store flavour and whatever the IO schedule chosen by
    the operations' annotations. -/
theorem buf_refines_plain (ops : List Op) (keepBoundary : Bool) (file : Option FileImg)
    (hwf : wfRun {} ops = true) (hbud : budget ops ≤ maxSegs) :
    ObsEq (Sys.run { keepBoundary := keepBoundary, file := file } ops).1.buf (Plain.run {} ops).1 ∧
    resAgreeAll ops (Sys.run { keepBoundary := keepBoundary, file := file } ops).2 (Plain.run {} ops).2 = true := by
  have h := run_refines ops { keepBoundary := keepBoundary, file := file } ⟨rfl, by simp⟩ Buf.Inv.init
    (by simpa [Buf.abs] using hwf) (by simpa using hbud)
  have hobs := obsEq_of_inv h.2.1
  rw [h.2.2.1] at hobs
  exact ⟨by simpa [Buf.abs] using hobs, by simpa [Buf.abs] using h.2.2.2⟩

/-- the invariant that carries the induction holds after every well-formed run -/
theorem inv_of_run (ops : List Op) (keepBoundary : Bool) (file : Option FileImg)
    (hwf : wfRun {} ops = true) (hbud : budget ops ≤ maxSegs) :
    (Sys.run { keepBoundary := keepBoundary, file := file } ops).1.buf.Inv :=
  (run_refines ops { keepBoundary := keepBoundary, file := file } ⟨rfl, by simp⟩ Buf.Inv.init
    (by simpa [Buf.abs] using hwf) (by simpa using hbud)).2.1

/-- well-formedness and the budget pass to prefixes, so the agreement holds after every operation of the run -/
theorem wfRun_take : ∀ (ops : List Op) (p : Plain) (n : Nat), wfRun p ops = true → wfRun p (ops.take n) = true := by
  intro ops
  induction ops with
  | nil => intro p n h; simp [wfRun]
  | cons op ops ih =>
    intro p n h
    cases n with
    | zero => simp [wfRun]
    | succ n =>
      simp only [wfRun, Bool.and_eq_true] at h
      simp only [List.take_succ_cons, wfRun, Bool.and_eq_true]
      exact ⟨h.1, ih _ n h.2⟩

theorem budget_take : ∀ (ops : List Op) (n : Nat), budget (ops.take n) ≤ budget ops := by
  intro ops
  induction ops with
  | nil => intro n; simp [budget]
  | cons op ops ih =>
    intro n
    cases n with
    | zero => simp [budget]
    | succ n => simp only [List.take_succ_cons, budget]; have := ih n; omega

theorem buf_refines_plain_prefix (ops : List Op) (keepBoundary : Bool) (file : Option FileImg)
    (hwf : wfRun {} ops = true) (hbud : budget ops ≤ maxSegs) (n : Nat) :
    ObsEq (Sys.run { keepBoundary := keepBoundary, file := file } (ops.take n)).1.buf (Plain.run {} (ops.take n)).1 :=
  (buf_refines_plain (ops.take n) keepBoundary file (wfRun_take ops {} n hwf)
    (Nat.le_trans (budget_take ops n) hbud)).1

/-! ### non-vacuity: a well-formed stream that goes through every path of the conflict-aware append -/

def e (i t p : Nat) : Entry := { index := i, term := t, payload := p }

def demoOps : List Op :=
  [ .append [e 1 1 0, e 2 1 0, e 3 1 0],                 -- leader-style append
    .fca 3 1 [e 4 1 0, e 5 2 0] {},                      -- fast path, tail appended
    .fca 3 1 [e 4 1 0, e 5 2 0] {},                      -- slow path, everything matches
    .fca 2 1 [e 3 3 7, e 4 3 7] { prio := [.notify, .cmd, .timer] },  -- conflict: truncate from 3, ReplaceRange
    .purge 2 1 { clock := true, prio := [.timer, .cmd, .notify] },
    .fca 2 1 [e 3 3 7, e 4 3 7, e 5 3 7] {},             -- prev = purge boundary
    .get 0 9, .flush {}, .io {},
    .fca 0 0 [e 3 4 1] {} ]                              -- start from scratch (above the purge boundary)

example : wfRun {} demoOps = true ∧ budget demoOps ≤ maxSegs := by decide
example : (Sys.run {} demoOps).1.buf.mem = [e 3 4 1] ∧ (Sys.run {} demoOps).1.buf.purgedI = 2 := by decide
example : ObsEq (Sys.run {} demoOps).1.buf (Plain.run {} demoOps).1 := (buf_refines_plain demoOps true none (by decide) (by decide)).1

/-! ### the weaker reading of "well-formed" (gaps allowed): the statement is false -/

def WeakStatement : Prop :=
  ∀ ops : List Op, wfRunWeak {} ops = true → budget ops ≤ maxSegs → ObsEq (Sys.run {} ops).1.buf (Plain.run {} ops).1

/-- an append that skips index 2 is accepted; `entry_term(2)` then answers term 1 although no entry 2 exists -/
def gapWitness : List Op := [ .append [e 1 1 0], .append [e 3 1 0] ]

theorem gapWitness_weak_wf : wfRunWeak {} gapWitness = true ∧ wfRun {} gapWitness = false := by decide

theorem gapWitness_entryTerm :
    (Sys.run {} gapWitness).1.buf.entryTerm 2 = some 1 ∧ (Plain.run {} gapWitness).1.termAt 2 = none := by decide

theorem weak_statement_false : ¬ WeakStatement := by
  intro h
  have := (h gapWitness (by decide) (by decide)).entryTerm 2
  rw [gapWitness_entryTerm.1, gapWitness_entryTerm.2] at this
  cases this

/-! ### without the 1024-entry bound: the statement is false (the log panics) -/

/-- the statement without the capacity bound: on a well-formed stream no query of the log ever panics -/
def UnboundedStatement : Prop :=
  ∀ ops : List Op, wfRun {} ops = true → snapPanics (Sys.run {} ops).1.buf = false

/-- 1026 entries with 1026 different terms: 1025 segments get archived, `seg_count` = 1025 > 1024 -/
def capWitness : List Op :=
  [ .append ((List.range 1026).map fun i => { index := i + 1, term := i + 1, payload := 0 }) ]

theorem capWitness_wf : wfRun {} capWitness = true := by decide +kernel

/-- `entry_term(1)` takes the cold path of `TermSegments::get`, which indexes `seg_starts[1024]` -/
theorem capWitness_panics : snapPanics (Sys.run {} capWitness).1.buf = true := by decide +kernel

theorem segment_cap_statement_false : ¬ UnboundedStatement := by
  intro h
  have := h capWitness capWitness_wf
  rw [capWitness_panics] at this
  cases this

/-- under the bound of the main theorem nothing panics: the archive never outgrows its arrays -/
theorem no_panic_of_budget (ops : List Op) (hwf : wfRun {} ops = true) (hbud : budget ops ≤ maxSegs) :
    snapPanics (Sys.run {} ops).1.buf = false := by
  have h := run_refines ops {} ⟨rfl, by simp⟩ Buf.Inv.init (by simpa [Buf.abs] using hwf) (by simpa using hbud)
  -- the invariant says seg_count = number of archived slots; the budget keeps that ≤ 1024 (see `run_segs_le`)
  have hcnt := h.2.1.seg.cnt
  have hlen : (Sys.run {} ops).1.buf.segs.arch.length ≤ maxSegs := run_segs_le ops {} ⟨rfl, by simp⟩ Buf.Inv.init
    (by simpa [Buf.abs] using hwf) (by simpa using hbud)
  simp only [snapPanics, List.any_eq_false, Buf.entryTermPanics, Segs.getPanics, Bool.and_eq_true, not_and, Bool.not_eq_true]
  intros
  rw [hcnt]
  simp only [decide_eq_false_iff_not]
  omega

end DEngine.C19
