import DEngine.Lemmas.Ttl
/-!
# C23 — TTL: keys expire when due and overwrites clear old TTLs

Model: `DEngine.Ttl` (`TtlLease`, the lease call sites of both engines' `apply_chunk`,
`lease_background_cleanup`, WAL `expire_at` replay, the persistence sites, snapshot `to_snapshot/reload`),
over a logical clock in seconds; tied to the real engines by family `ttl`.

Theorems quantify over **every** op list `pre` run from a fresh engine (including restarts, crashes and
snapshot installs inside `pre`) and every *quiet* continuation `post` (any puts / deletes / CAS on other
keys, failing CAS on the key itself, clock advances, cleanups, checkpoints, snapshot generation — no bound
on length).  What is excluded from `post`, and why, is stated below with kernel-checked counterexamples:
restart / crash / snapshot install lose or resurrect TTL state on the code as it is (findings F41–F46).
Fixed in /repo and now proved without side conditions: huge TTLs are clamped (F40), the cleanup looks at
every lease entry (F47), the File engine reloads the lease section of a snapshot (F45).
-/
namespace DEngine.C23
open DEngine.MiniKv DEngine.Ttl

/-- **ttl_visible_until_due.** After `put k v ttl=t` (at time `T`), for every quiet continuation that ends
before `T + t` (`t` clamped to 1000 years, `clampTtl`), the key reads `v` — however many cleanups ran, whatever happened to other keys, whatever
an earlier TTL of the same key was (re-put with a new TTL replaces the expiry), and failed CAS on `k`
do not disturb it. -/
theorem ttl_visible_until_due (e : Eng) (t0 : Nat) (pre post : List Op) (k v t : Nat)
    (hq : ∀ op ∈ post, quiet k v op = true)
    (hdue : (exec (init e t0) (pre ++ .put k v (some t) :: post)).now <
      (exec (init e t0) pre).now + clampTtl t) :
    get (exec (init e t0) (pre ++ .put k v (some t) :: post)).data k = some v := by
  rw [exec_append, exec_cons] at hdue ⊢
  generalize exec (init e t0) pre = s at *
  have hstep : (step s (.put k v (some t))).1 =
      { s with data := set s.data k v, lease := set s.lease k (s.now + clampTtl t)
               wal := walAppend s (.ins k v (s.now + clampTtl t)) } := rfl
  rw [hstep] at hdue ⊢
  exact (exec_live_ttl post _ hq (by simp) (by simp) hdue).1

/-- **ttl_removed_after_cleanup.** After `put k v ttl=t` at time `T`, once a cleanup runs at a time `≥ T + t`
the key reads as absent, and stays absent over every strictly quiet continuation — whatever the size of
the lease table (since fix F47). -/
theorem ttl_removed_after_cleanup (e : Eng) (t0 : Nat) (pre mid post : List Op) (k v t : Nat)
    (hqm : ∀ op ∈ mid, quietStrict k v op = true) (hqp : ∀ op ∈ post, quietStrict k v op = true)
    (hdue : (exec (init e t0) pre).now + clampTtl t ≤
      (exec (init e t0) (pre ++ .put k v (some t) :: mid)).now) :
    get (exec (init e t0) (pre ++ .put k v (some t) :: (mid ++ .cleanup :: post))).data k = none := by
  rw [exec_append, exec_cons] at hdue
  rw [exec_append, exec_cons, exec_append, exec_cons]
  generalize exec (init e t0) pre = s at *
  have hstep : (step s (.put k v (some t))).1 =
      { s with data := set s.data k v, lease := set s.lease k (s.now + clampTtl t)
               wal := walAppend s (.ins k v (s.now + clampTtl t)) } := rfl
  rw [hstep] at hdue ⊢
  have h0 : LiveOrGone { s with data := set s.data k v, lease := set s.lease k (s.now + clampTtl t)
                                wal := walAppend s (.ins k v (s.now + clampTtl t)) } k v
      (s.now + clampTtl t) :=
    Or.inl ⟨by simp, by simp⟩
  have h1 := exec_liveOrGone mid _ hqm h0
  generalize exec _ mid = s1 at *
  have h2 : get (step s1 .cleanup).1.data k = none ∧ get (step s1 .cleanup).1.lease k = none := by
    rcases h1 with ⟨hd, hl⟩ | ⟨hd, hl⟩
    · have hm := mayHaveExpired_of_due hl hdue
      simp only [step, hm, if_true]
      exact ⟨get_eraseAll_of_mem _ _ (mem_expiredKeys.mpr ⟨_, hl, hdue⟩), get_dropExpired_due hl hdue⟩
    · exact step_absent (k := k) (v := v) (op := .cleanup) rfl hd hl
  exact (exec_absent post _ hqp h2.1 h2.2).1

/-- **overwrite_cancels_ttl** (put form). After a put of `k` *without* TTL, no later cleanup removes `k`,
whatever TTL earlier writes of `k` carried (`pre` is arbitrary) — true since fix F21. -/
theorem overwrite_cancels_ttl (e : Eng) (t0 : Nat) (pre post : List Op) (k b : Nat)
    (hq : ∀ op ∈ post, quiet k b op = true) :
    get (exec (init e t0) (pre ++ .put k b none :: post)).data k = some b := by
  rw [exec_append, exec_cons]
  generalize exec (init e t0) pre = s
  exact (exec_live_plain post _ hq (by simp [step]) (by simp [step])).1

/-- **overwrite_cancels_ttl** (CAS form). A *successful* CAS cancels the earlier TTL as well. -/
theorem cas_cancels_ttl (e : Eng) (t0 : Nat) (pre post : List Op) (k b : Nat) (ex : Option Nat)
    (hok : casMatch (get (exec (init e t0) pre).data k) ex = true)
    (hq : ∀ op ∈ post, quiet k b op = true) :
    get (exec (init e t0) (pre ++ .cas k ex b :: post)).data k = some b := by
  rw [exec_append, exec_cons]
  generalize exec (init e t0) pre = s at *
  exact (exec_live_plain post _ hq (by simp [step, hok]) (by simp [step, hok])).1

/-- A delete leaves neither the key nor a lease entry behind (so a later write starts clean). -/
theorem delete_cancels_ttl (e : Eng) (t0 : Nat) (pre post : List Op) (k v : Nat)
    (hq : ∀ op ∈ post, quietStrict k v op = true) :
    get (exec (init e t0) (pre ++ .del k :: post)).data k = none ∧
      get (exec (init e t0) (pre ++ .del k :: post)).lease k = none := by
  rw [exec_append, exec_cons]
  generalize exec (init e t0) pre = s
  exact exec_absent post _ hq (by simp [step]) (by simp [step])

/-- A failed CAS changes neither data nor lease table (in particular it keeps the TTL). -/
theorem failed_cas_keeps_ttl (s : St) (k : Nat) (ex : Option Nat) (b : Nat)
    (hfail : casMatch (get s.data k) ex = false) :
    (step s (.cas k ex b)).1.data = s.data ∧ (step s (.cas k ex b)).1.lease = s.lease := by
  simp [step, hfail]

/-- What an observer sees: the `get` op reports exactly the data map. -/
theorem get_obs (s : St) (k : Nat) : (step s (.get k)).2 = .val k (get s.data k) := rfl

/-! ## `to_snapshot` / `reload` -/

/-- `reload` keeps every entry that is still live, with its absolute deadline … -/
theorem reload_keeps_live (snapshot : AMap) (now k d : Nat) (h : get snapshot k = some d) (hl : now < d) :
    get (reload snapshot now) k = some d := get_dropExpired_live h hl

/-- … and drops every entry that is already due (without touching the data: see F41). -/
theorem reload_drops_due (snapshot : AMap) (now k d : Nat) (h : get snapshot k = some d) (hl : d ≤ now) :
    get (reload snapshot now) k = none := get_dropExpired_due h hl

/-- RocksDB, graceful restart: the data is untouched and the lease table is the reloaded table. -/
theorem rocks_restart (s : St) (h : s.eng = .rocks) :
    (step s .restart).1.data = s.data ∧ (step s .restart).1.lease = reload s.lease s.now := by
  simp [step, h, reopen, loadLease]

/-- RocksDB, snapshot generation then install at a later time: data = snapshot data, lease = reload. -/
theorem rocks_install (s : St) (h : s.eng = .rocks) (d l : AMap) (hs : s.snapImg = some (d, l)) :
    (step s .install).1.data = d ∧ (step s .install).1.lease = reload l s.now := by
  simp [step, h, hs]

/-- `_partial` for "TTL state survives restart" (RocksDB): if no lease entry is due at the moment of a
graceful restart, the restart changes neither the data nor any deadline.  (Excluded trigger = an entry
already due at restart time: F41.) -/
theorem rocks_restart_partial (s : St) (h : s.eng = .rocks)
    (hlive : ∀ k d, get s.lease k = some d → s.now < d) (k : Nat) :
    get (step s .restart).1.data k = get s.data k ∧ get (step s .restart).1.lease k = get s.lease k := by
  obtain ⟨hd, hl⟩ := rocks_restart s h
  rw [hd, hl]
  refine ⟨rfl, ?_⟩
  cases hg : get s.lease k with
  | none => exact get_dropExpired_none hg
  | some d => exact get_dropExpired_live hg (hlive k d hg)

/-- RocksDB install at a time when no entry of the snapshot is due restores exactly the snapshot's table. -/
theorem rocks_install_partial (s : St) (h : s.eng = .rocks) (d l : AMap) (hs : s.snapImg = some (d, l))
    (hlive : ∀ k x, get l k = some x → s.now < x) (k : Nat) :
    get (step s .install).1.lease k = get l k := by
  rw [(rocks_install s h d l hs).2]
  cases hg : get l k with
  | none => exact get_dropExpired_none hg
  | some x => exact get_dropExpired_live hg (hlive k x hg)

/-! ## Non-vacuity -/

example : ∀ k d, get (exec (init .rocks 1000) [.put 1 7 (some 5)]).lease k = some d →
    (exec (init .rocks 1000) [.put 1 7 (some 5)]).now < d := by
  intro k d; simp [exec, step, init, clampTtl, maxTtl, MiniKv.set, MiniKv.erase, MiniKv.get]
  intro h1 h2; omega


example : quiet 1 8 (.cas 1 (some 7) 9) = true ∧ quiet 1 8 (.put 2 5 (some 1)) = true ∧
    quiet 1 8 .cleanup = true ∧ quietStrict 1 8 (.cas 1 (some 7) 9) = true := by decide

/-- the old F21 witness, now fixed: put with TTL, overwrite without, wait past the old deadline, cleanup. -/
example : get (exec (init .file 1000) ([.put 1 7 (some 1)] ++ .put 1 8 none :: [.adv 2, .cleanup])).data 1
    = some 8 := by decide
example : get (exec (init .rocks 1000) ([.put 1 7 (some 1)] ++ .cas 1 (some 7) 8 :: [.adv 2, .cleanup])).data 1
    = some 8 := by decide
/-- visible before, removed after -/
example : get (exec (init .file 1000) ([] ++ .put 1 7 (some 3) :: [.adv 2, .cleanup])).data 1 = some 7 := by
  decide
example : get (exec (init .file 1000) ([] ++ .put 1 7 (some 3) :: ([.adv 3] ++ .cleanup :: []))).data 1 = none := by
  decide

/-! ## What does NOT hold on the code as it is (kernel-checked witnesses; replayed on the real engines by
the corpus `corpus/ttl/*.case`) -/

/-- ops allowed when restarts / crashes are admitted into the continuation. -/
def quietOrRestart (k v : Nat) (op : Op) : Bool :=
  quietStrict k v op || op == .restart || op == .srestart || op == .crash

/-- Full-strength statement "TTL state survives restart": `ttl_removed_after_cleanup` with restarts and
crashes allowed before and after the cleanup. -/
def RemovedAfterCleanupAcrossRestartStatement : Prop :=
  ∀ (e : Eng) (t0 : Nat) (pre mid post : List Op) (k v t : Nat),
    (∀ op ∈ mid, quietOrRestart k v op = true) → (∀ op ∈ post, quietOrRestart k v op = true) →
    (exec (init e t0) pre).now + clampTtl t ≤ (exec (init e t0) (pre ++ .put k v (some t) :: mid)).now →
    get (exec (init e t0) (pre ++ .put k v (some t) :: (mid ++ .cleanup :: post))).data k = none

/-- F41 / F46 (RocksDB restart / install; same root cause on the File `stop()` path): `TtlLease::reload` drops lease entries that are already due but nobody deletes the
data ⇒ a key whose TTL ran out before a restart is never removed.  Witness on RocksDB:
`put k v ttl=1; adv 2; restart; cleanup` ⇒ `k` still reads `v`. -/
theorem removed_across_restart_false : ¬ RemovedAfterCleanupAcrossRestartStatement := by
  intro h
  have := h .rocks 1000 [] [.adv 2, .restart] [] 1 7 1 (by decide) (by decide) (by decide)
  revert this; decide

/-- F42 / F43 (File engine, restart / crash): the lease is injected after `FileStateMachine::new` replayed the WAL and
`ttl_state.bin` is only written by `stop()` (which nothing calls) ⇒ after a crash or a graceful restart
every TTL is forgotten and the key lives forever. -/
theorem file_ttl_lost_on_restart :
    get (exec (init .file 1000) [.put 1 7 (some 1), .restart, .adv 2, .cleanup]).data 1 = some 7 ∧
    get (exec (init .file 1000) [.put 1 7 (some 1), .crash, .adv 2, .cleanup]).data 1 = some 7 := by
  decide

/-- Full-strength statement "a value that was overwritten never comes back". -/
def NoStaleValueAcrossRestartStatement : Prop :=
  ∀ (e : Eng) (t0 : Nat) (pre post : List Op) (k a b : Nat) (ttl : Option Nat), a ≠ b →
    (∀ op ∈ post, quietOrRestart k b op = true) →
    get (exec (init e t0) (pre ++ .put k b ttl :: post)).data k ≠ some a

/-- F42(b) (File engine): `Drop` persists the data but keeps the WAL; `replay_wal` re-applies the whole WAL
over it and *skips* (does not delete) an Insert whose `expire_at` has passed ⇒ an older value of the key
is resurrected, without any TTL. -/
theorem stale_value_after_restart : ¬ NoStaleValueAcrossRestartStatement := by
  intro h
  have := h .file 1000 [.put 1 7 none] [.adv 2, .restart] 1 7 8 (some 1) (by decide) (by decide)
  revert this; decide

/-- F44 (RocksDB): the TTL table is persisted only on close/stop/install, not with the data ⇒ after a
crash a stale table is reloaded: an overwritten key inherits its old deadline and is removed early. -/
theorem rocks_stale_ttl_after_crash :
    get (exec (init .rocks 1000)
      [.put 1 7 (some 1), .restart, .put 1 8 (some 100), .crash, .adv 2, .cleanup]).data 1 = none := by
  decide

/-- F45 (fixed): the File engine reloads the lease section of the snapshot it installs — the snapshot's
table replaces the local one.  (Old behaviour: local table kept, `[(1, 1050)]` in this example.) -/
theorem file_install_reloads_lease :
    (exec (init .file 1000) [.put 1 7 (some 10), .snap, .put 1 8 (some 50), .install]).lease = [(1, 1010)] ∧
    get (exec (init .file 1000) [.put 1 7 (some 1), .snap, .del 1, .install, .adv 2, .cleanup]).data 1
      = none := by
  decide

/-- F45b: after the fix the File install shares F46's residue: an entry already due at install time is
dropped by `reload` while the installed data keeps the key. -/
theorem file_install_after_due :
    get (exec (init .file 1000) [.put 1 7 (some 1), .snap, .adv 2, .install, .cleanup]).data 1 = some 7 := by
  decide

/-- F46 (RocksDB install after the deadline). -/
theorem rocks_install_after_due :
    get (exec (init .rocks 1000) [.put 1 7 (some 1), .snap, .adv 2, .install, .cleanup]).data 1 = some 7 := by
  decide

/-- F40 (fixed): a huge client TTL no longer panics `apply_chunk`; it is clamped to `maxTtl`. -/
theorem huge_ttl_clamped (s : St) (k v t : Nat) :
    (step s (.put k v (some t))).2 = .none ∧
      get (step s (.put k v (some t))).1.lease k = some (s.now + min t maxTtl) := by
  simp [step, clampTtl]

/-- F47 (fixed): with more than 10 lease entries a due key is still removed (the old 10-entry sample
of `may_have_expired_keys` could skip the cleanup; this was the model witness of the miss). -/
theorem cleanup_scans_every_entry :
    let ops := [Op.put 12 1 (some 1)] ++ (List.range 11).map (fun i => Op.put i 1 (some 100)) ++
      [.adv 2, .cleanup]
    get (exec (init .rocks 1000) ops).data 12 = none := by
  decide

end DEngine.C23
