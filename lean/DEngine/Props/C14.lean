import DEngine.Lemmas.ClientQ
import DEngine.Lemmas.ClientQOut
/-!
# C14 — Rejected writes are never applied

"Rejected" = answered `notLeader` (non-leader role, or the step-down drain of the propose buffer),
`exhausted` (back-pressure) or `emptyCmd` (invalid). Such a request never enters the log of the node, in no
later state, whatever events follow — so it can never be replicated or applied, and retrying it elsewhere cannot
apply it twice. A write that *was* appended and is then answered `proposeFailed` / `termOutdated` / `deadline` is
not "rejected" in this sense (its outcome is indeterminate); the model keeps the two classes apart
(`Resp.isRejection`), and so does the monitor.

`rejected_never_logged` is proved by induction over ALL event sequences with the ghost set of rejected ids carried
in the invariant (`Inv.rej`: a rejected id is below the id counter, not in the propose buffer and owns no log
entry; entries are only created from the propose buffer, and the buffer only receives fresh ids).
-/
namespace DEngine.C14
open DEngine.ClientQ

/-- ids answered with a rejection in an output -/
def rejectedIn (o : Out) : List Nat := (o.filter fun x => x.2.isRejection).map (·.1)

theorem isRejection_iff (r : Resp) : r.isRejection = true ↔ r.grp = .rej := by
  cases r <;> simp [Resp.isRejection, Resp.grp]

theorem rejectedIn_quiet {o : Out} (h : Quiet o) : rejectedIn o = [] := by
  unfold rejectedIn
  rw [List.map_eq_nil_iff, List.filter_eq_nil_iff]
  intro x hx
  have := h x hx
  rw [Bool.not_eq_true]
  cases hr : x.2.isRejection
  · rfl
  · rw [isRejection_iff] at hr; rw [hr] at this; simp at this

theorem Inv.add_rejs {R : List Nat} {s : St} (h : Inv R s) (ids : List Nat)
    (hid : ∀ id ∈ ids, id < s.nextId ∧ id ∉ s.propose.map (·.1) ∧ id ∉ s.owners) : Inv (ids ++ R) s :=
  ⟨h.pcw, h.pwa, h.propose_fresh, h.propose_nodup, h.owners_lt, h.commit_le, h.applied_le, h.term_pos,
    fun id hin => by
      rcases List.mem_append.mp hin with h1 | h1
      · exact hid id h1
      · exact h.rej id h1⟩

/-- a freshly issued id that was not put into the propose buffer can be recorded as rejected -/
theorem fresh_ok {R : List Nat} {s : St} (h : Inv R s) :
    s.nextId < s.nextId + 1 ∧ s.nextId ∉ s.propose.map (·.1) ∧ s.nextId ∉ s.owners := by
  refine ⟨by omega, ?_, ?_⟩
  · intro hin
    rcases List.mem_map.mp hin with ⟨p, hp, hpe⟩
    have := (h.propose_fresh p hp).1
    omega
  · intro hin
    have := h.owners_lt _ hin
    omega

theorem step_rej_pushWrite {R : List Nat} (c : Cfg) {s : St} (h : Inv R s) (op : WOp) :
    Inv (rejectedIn (pushWrite c s op).2 ++ R) (pushWrite c s op).1 := by
  have hi := h.pushWrite c op
  have hf := fresh_ok h
  unfold pushWrite at hi ⊢
  simp only at hi ⊢
  split
  · rename_i hl; simp only [hl, ↓reduceIte] at hi
    exact Inv.add_rejs hi _ (by intro id hid; simp [rejectedIn, Resp.isRejection] at hid; subst hid; exact hf)
  · rename_i hl; simp only [hl] at hi
    split
    · rename_i hb; simp only [hb, ↓reduceIte] at hi
      exact Inv.add_rejs hi _ (by intro id hid; simp [rejectedIn, Resp.isRejection] at hid; subst hid; exact hf)
    · rename_i hb; simp only [hb] at hi
      split
      · rename_i he; simp only [he, ↓reduceIte] at hi
        exact Inv.add_rejs hi _ (by intro id hid; simp [rejectedIn, Resp.isRejection] at hid; subst hid; exact hf)
      · rename_i he; simp only [he] at hi
        simpa [rejectedIn] using hi

theorem mem_rejectedIn {o : Out} {id : Nat} : id ∈ rejectedIn o ↔ ∃ r, (id, r) ∈ o ∧ r.isRejection = true := by
  simp only [rejectedIn, List.mem_map, List.mem_filter]
  constructor
  · rintro ⟨x, ⟨hx, hr⟩, rfl⟩; exact ⟨x.2, hx, hr⟩
  · rintro ⟨r, hx, hr⟩; exact ⟨(id, r), ⟨hx, hr⟩, rfl⟩

theorem pushRead_out_ids (c : Cfg) (s : St) (p : Nat) : ∀ x ∈ (pushRead c s p).2, x.1 = s.nextId := by
  unfold pushRead; simp only; repeat' split
  all_goals intro x hx; simp at hx; try (subst hx; rfl)

theorem step_rej_pushRead {R : List Nat} (c : Cfg) {s : St} (h : Inv R s) (p : Nat) :
    Inv (rejectedIn (pushRead c s p).2 ++ R) (pushRead c s p).1 := by
  have hi := h.pushRead c p
  have hf := fresh_ok h
  -- whatever the branch: the state has the same propose buffer / log and `nextId + 1`
  have hprop : (pushRead c s p).1.propose = s.propose ∧ (pushRead c s p).1.log = s.log ∧
      (pushRead c s p).1.nextId = s.nextId + 1 := by
    unfold pushRead; simp only; repeat' split
    all_goals exact ⟨rfl, rfl, rfl⟩
  apply Inv.add_rejs hi
  intro id hid
  rcases mem_rejectedIn.mp hid with ⟨r, hx, _⟩
  have hidn : id = s.nextId := pushRead_out_ids c s p _ hx
  rw [hidn, hprop.1, hprop.2.2]
  refine ⟨hf.1, hf.2.1, ?_⟩
  have : (pushRead c s p).1.owners = s.owners := by simp [St.owners, hprop.2.1]
  rw [this]; exact hf.2.2

theorem step_rej_pushScan {R : List Nat} (c : Cfg) {s : St} (h : Inv R s) :
    Inv (rejectedIn (pushScan c s).2 ++ R) (pushScan c s).1 := by
  have hi := h.pushScan c
  have hf := fresh_ok h
  apply Inv.add_rejs hi
  intro id hid
  rcases mem_rejectedIn.mp hid with ⟨r, hx, _⟩
  have : id = s.nextId := by
    unfold pushScan at hx; simp at hx; exact hx.1
  subst this
  exact hf

/-- the only rejection the step-down drain emits is `notLeader` for the ids of the propose buffer -/
theorem stepDown_rejected_ids (s : St) (id : Nat) (r : Resp) (hx : (id, r) ∈ (stepDown s).2)
    (hr : r.isRejection = true) : id ∈ s.propose.map (·.1) := by
  unfold stepDown at hx
  simp only [List.mem_append] at hx
  have ha : ∀ (ids : List Nat) (q : Resp), (id, r) ∈ answerAll ids q → id ∈ ids ∧ r = q := by
    intro ids q h; simp [answerAll] at h; rcases h with ⟨a, ha, h1, h2⟩; exact ⟨h1 ▸ ha, h2.symm⟩
  have hf : ∀ {α} (l : List α) (f : α → List Nat) (q : Resp),
      (id, r) ∈ (l.flatMap fun e => answerAll (f e) q) → r = q := by
    intro α l f q h; rcases List.mem_flatMap.mp h with ⟨e, _, he⟩; exact (ha _ _ he).2
  rcases hx with ((((((((h | h) | h) | h) | h) | h) | h) | h) | h)
  · have := (ha _ _ h).2; subst this; simp [Resp.isRejection] at hr
  · have := (ha _ _ h).2; subst this; simp [Resp.isRejection] at hr
  · have := (ha _ _ h).2; subst this; simp [Resp.isRejection] at hr
  · have := hf _ _ _ h; subst this; simp [Resp.isRejection] at hr
  · have := (ha _ _ h).2; subst this; simp [Resp.isRejection] at hr
  · exact (ha _ _ h).1
  · have := hf _ _ _ h; subst this; simp [Resp.isRejection] at hr
  · have := (ha _ _ h).2; subst this; simp [Resp.isRejection] at hr
  · rcases List.mem_filterMap.mp h with ⟨e, _, he⟩
    cases hact : e.2.2 <;> simp [joinAnswer, hact] at he
    rcases he with ⟨_, rfl⟩
    simp [Resp.isRejection] at hr

theorem step_rej_stepDown {R : List Nat} {s : St} (h : Inv R s) :
    Inv (rejectedIn (stepDown s).2 ++ R) (stepDown s).1 := by
  have hi := h.stepDown
  apply Inv.add_rejs hi
  intro id hid
  rcases mem_rejectedIn.mp hid with ⟨r, hx, hr⟩
  have hin := stepDown_rejected_ids s id r hx hr
  rcases List.mem_map.mp hin with ⟨p, hp, rfl⟩
  have hfr := h.propose_fresh p hp
  refine ⟨?_, ?_, ?_⟩
  · simpa [stepDown] using hfr.1
  · simp [stepDown]
  · have : (stepDown s).1.owners = s.owners := by simp [St.owners, stepDown]
    rw [this]; exact hfr.2.1

theorem rejectedIn_applyUpTo (s : St) (k : Nat) : rejectedIn (applyUpTo s k).2 = [] := by
  by_cases hk : applyTarget s k ≤ s.applied
  · rw [applyUpTo_noop hk]; rfl
  · rw [(applyUpTo_fields hk).2.2.2]
    unfold rejectedIn
    rw [List.map_eq_nil_iff, List.filter_eq_nil_iff]
    intro x hx
    rw [Bool.not_eq_true]
    rcases List.mem_append.mp hx with hx | hx
    · unfold applyResponses at hx
      rcases List.mem_filterMap.mp hx with ⟨res, _, hm⟩
      split at hm
      · simp only [Option.some.injEq] at hm
        subst hm
        cases res.2 <;> rfl
      · simp at hm
    · have := (Quiet.servePreads _ _) x hx
      cases hr : x.2.isRejection
      · rfl
      · rw [isRejection_iff] at hr; rw [hr] at this; simp at this

/-- **One step**: the invariant is kept with the ids rejected in this step added to the ghost set. -/
theorem step_rej {R : List Nat} (c : Cfg) {s : St} (h : Inv R s) (e : Ev) :
    Inv (rejectedIn (step c s e).2 ++ R) (step c s e).1 := by
  have hq : ∀ {s' : St} {o : Out}, Inv R s' → Quiet o → Inv (rejectedIn o ++ R) s' := by
    intro s' o hi hq; rw [rejectedIn_quiet hq]; exact hi
  unfold step
  split
  · exact hq h Quiet.nil
  · split
    · split
      · exact step_rej_pushWrite c h _
      · exact step_rej_pushRead c h _
      · exact step_rej_pushScan c h
      · exact hq h Quiet.nil
    · split
      · exact step_rej_pushWrite c h _
      · exact step_rej_pushRead c h _
      · exact step_rej_pushScan c h
      · exact hq (h.join c _) (Quiet.join c s _)
      · exact hq (h.flush c) (Quiet.flush c s)
      · exact hq (h.tick c _) (Quiet.tick c s _)
      · exact hq (h.ackSuccess c _ _) (Quiet.ackSuccess c h _ _)
      · exact hq h Quiet.nil
      · split
        · exact hq (h.ackHigherTerm _) (Quiet.ackHigherTerm s _)
        · split
          · exact hq (h.ackSuccess c _ _) (Quiet.ackSuccess c h _ _)
          · exact hq h Quiet.nil
      · exact hq h Quiet.nil
      · exact hq (h.logFlushed c) (Quiet.logFlushed c h)
      · rw [rejectedIn_applyUpTo]; exact h.applyUpTo _
      · exact step_rej_stepDown h
      · exact hq h.fatalInbound (Quiet.fatalInbound s)
      · exact hq (h.frame rfl rfl rfl rfl rfl rfl rfl rfl) Quiet.nil
      · exact hq (h.initNoop c) (Quiet.initNoop c s)

/-- all ids rejected anywhere in a list of per-event outputs (latest first) -/
def rejectedAll : List Out → List Nat
  | [] => []
  | o :: os => rejectedAll os ++ rejectedIn o

theorem run_rej (c : Cfg) (evs : List Ev) : ∀ {R : List Nat} {s : St}, Inv R s →
    Inv (rejectedAll (run c s evs).2 ++ R) (run c s evs).1 := by
  induction evs with
  | nil => intro R s h; simpa [run, rejectedAll] using h
  | cons e es ih =>
    intro R s h
    unfold run
    simp only [rejectedAll]
    have := ih (step_rej c h e)
    simpa [List.append_assoc] using this

theorem mem_rejectedAll {outs : List Out} {id : Nat} :
    id ∈ rejectedAll outs ↔ ∃ o ∈ outs, ∃ r, (id, r) ∈ o ∧ r.isRejection = true := by
  induction outs with
  | nil => simp [rejectedAll]
  | cons o os ih =>
    simp only [rejectedAll, List.mem_append, ih, List.mem_cons, exists_eq_or_imp]
    constructor
    · rintro (h | h)
      · exact Or.inr h
      · refine Or.inl ?_
        simp only [rejectedIn, List.mem_map, List.mem_filter] at h
        rcases h with ⟨x, ⟨hx, hr⟩, rfl⟩
        exact ⟨x.2, hx, hr⟩
    · rintro (⟨r, hx, hr⟩ | h)
      · refine Or.inr ?_
        simp only [rejectedIn, List.mem_map, List.mem_filter]
        exact ⟨(id, r), ⟨hx, hr⟩, rfl⟩
      · exact Or.inl h

/-- **C14 (full strength).** For every configuration (leader or follower role), every number of pre-existing
    entries and every event sequence: a request that was answered with a rejection (`notLeader`, `exhausted`,
    `emptyCmd`) at any point of the history owns no entry of the final log — and is not waiting in the propose
    buffer either, so no later event can append it. -/
theorem rejected_never_logged (c : Cfg) (pre : Nat) (evs : List Ev) (id : Nat) (r : Resp) (o : Out)
    (ho : o ∈ (run c (init c pre) evs).2) (hx : (id, r) ∈ o) (hr : r.isRejection = true) :
    let s := (run c (init c pre) evs).1
    (∀ e ∈ s.log, ∀ op, e.kind ≠ .write id op) ∧ id ∉ s.propose.map (·.1) := by
  intro s
  have hinv := run_rej c evs (inv_init c pre)
  have hin : id ∈ rejectedAll (run c (init c pre) evs).2 ++ [] := by
    simp only [List.append_nil]
    exact mem_rejectedAll.mpr ⟨o, ho, r, hx, hr⟩
  have := hinv.rej id hin
  refine ⟨?_, this.2.1⟩
  intro e he op hk
  exact this.2.2 (mem_owners.mpr ⟨e, he, op, hk⟩)

/-- …and it stays that way: extending the history by any further events keeps the rejected request out of the
    log (the statement above already quantifies over every history; this form makes "no later state" explicit). -/
theorem rejected_never_logged_later (c : Cfg) (pre : Nat) (evs more : List Ev) (id : Nat) (r : Resp) (o : Out)
    (ho : o ∈ (run c (init c pre) evs).2) (hx : (id, r) ∈ o) (hr : r.isRejection = true) :
    ∀ e ∈ (run c (run c (init c pre) evs).1 more).1.log, ∀ op, e.kind ≠ .write id op := by
  have h1 := run_rej c evs (inv_init c pre)
  have h2 := run_rej c more h1
  have hin : id ∈ rejectedAll (run c (run c (init c pre) evs).1 more).2 ++
      (rejectedAll (run c (init c pre) evs).2 ++ []) := by
    apply List.mem_append_right
    simp only [List.append_nil]
    exact mem_rejectedAll.mpr ⟨o, ho, r, hx, hr⟩
  have := h2.rej id hin
  intro e he op hk
  exact this.2.2 (mem_owners.mpr ⟨e, he, op, hk⟩)

/-- The step-down drain answers the buffered (never proposed) writes `notLeader` *before* anything could be
    appended: the buffer is empty afterwards and the log is unchanged. -/
theorem stepdown_buffer_not_appended (s : St) :
    (stepDown s).1.log = s.log ∧ (stepDown s).1.propose = [] ∧
    ∀ p ∈ s.propose, (p.1, Resp.notLeader) ∈ (stepDown s).2 := by
  refine ⟨rfl, rfl, ?_⟩
  intro p hp
  unfold stepDown
  simp only [List.mem_append, answerAll, List.mem_map]
  exact Or.inl (Or.inl (Or.inl (Or.inr ⟨p.1, ⟨p, hp, rfl⟩, rfl⟩)))

/-! Non-vacuity: back-pressure, empty command, follower role and the step-down drain all produce rejections; the
    accepted write is in the log, the rejected ones are not. -/
def cfgBp : Cfg :=
  { voters := 3, maxW := 1, maxR := 0, timeout := 1000, ptimeout := 2000, lease := 0, hb := 100, leader := true }
def rejTrace : List Ev :=
  [.noop, .ack 2 1 1, .write (.put 1), .write (.put 2), .flush, .write .empty, .write (.put 3), .stepDown]

set_option maxRecDepth 4000 in
example : (run cfgBp (init cfgBp 0) rejTrace).2 =
    [[], [], [], [(1, .exhausted)], [], [(2, .emptyCmd)], [], [(3, .notLeader), (0, .proposeFailed)]] := by decide
set_option maxRecDepth 4000 in
example : (run cfgBp (init cfgBp 0) rejTrace).1.log.map (·.kind) = [.noop, .write 0 (.put 1)] := by decide
example : (run { cfgBp with leader := false } (init cfgBp 0) [.write (.put 1)]).2 = [[(0, .notLeader)]] := by decide

end DEngine.C14
