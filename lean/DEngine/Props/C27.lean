import DEngine.Props.C09
/-!
# C27 — Learners never vote or count toward quorums until promoted

Models: `DEngine.Memb` (learner node: `LearnerState::handle_inbound_event(ReceiveVoteRequest)`, `tick`,
`is_timer_expired`, `handle_membership_applied`; `RaftMembership`; `handle_join_cluster` validation)
and `DEngine.Commit` (leader: commit filter, `check_learner_progress` → `find_promotable_learners`,
`handle_join_cluster` + `drain_commit_actions`), tied to the real code by the `memb` (kinds `lr`,
`jn`, `cl`, `view`) and `commit` correspondences.

* `learner_never_grants`, `learner_never_starts_election` — for every operation sequence on a learner.
* `learner_becomes_voter_only_by_config` — `BecomeFollower` is emitted only by a step that applied a
  config entry after which the node's own entry has a non-learner role.
* `learner_not_in_commit_quorum` — from C09: entries / acknowledgements of non-voters never influence
  the commit index.
* `promotion_only_when_caught_up` — a learner enters the promotion queue only if it is a learner of the
  cached configuration, still a member, `Promotable`, and within the catch-up threshold.
* `join_acked_after_commit`, `join_existing_rejected` — a join request is answered successfully only
  once the commit index has reached its `AddNode` entry; a request for an id that is already a member
  is rejected and proposes nothing.
* Q3 (status vs role): `voters()` selects by *status Active*, the commit filter by *role ≠ Learner*.
  `voters_eq_role_voters` shows they agree on consistent configurations; `active_learner_counted_as_voter`
  is the reachable discrepancy (a learner joining with status Active is counted in `total_voters` /
  asked for votes, though never counted for commit) — it makes quorums harder, not easier.
-/
namespace DEngine.C27
open DEngine.Memb DEngine.Commit

/-! ### the learner node -/

/-- **A learner never grants a vote**, whatever the request and its own state. -/
theorem learner_never_grants (s : Learner) (reqTerm : Nat) : (learnerVote s reqTerm).2 = false := rfl

def noElection (ev : List String) : Prop := "BC" ∉ ev ∧ "BL" ∉ ev

theorem learnerStep_no_election (s : Learner) (op : LearnerOp) :
    noElection (learnerStep s op).2.2 ∧ (learnerStep s op).2.1 ≠ some true ∧
      learnerTimerExpired (learnerStep s op).1 = false := by
  cases op with
  | vote t => simp [learnerStep, learnerVote, noElection, learnerTimerExpired]
  | tick => simp [learnerStep, learnerTick, noElection, learnerTimerExpired]
  | change c =>
    simp only [learnerStep, learnerApply, noElection, learnerTimerExpired]
    split
    · rename_i e he
      cases e <;> simp [Err.tag] <;> decide
    · split
      · split <;> simp
      · simp
  | bad => simp [learnerStep, noElection, learnerTimerExpired]

/-- **A learner never starts an election and never grants**, along every operation sequence: no
    `BecomeCandidate` / `BecomeLeader` event, no granted vote, its election timer never expires. -/
theorem learner_never_starts_election (ops : List LearnerOp) : ∀ (s : Learner),
    (∀ r ∈ (learnerRun s ops).2, noElection r.2 ∧ r.1 ≠ some true) ∧
      learnerTimerExpired (learnerRun s ops).1 = false := by
  induction ops with
  | nil => intro s; simp [learnerRun, learnerTimerExpired]
  | cons op rest ih =>
    intro s
    have h1 := learnerStep_no_election s op
    have h2 := ih (learnerStep s op).1
    simp only [learnerRun]
    refine ⟨?_, h2.2⟩
    intro r hr
    rcases List.mem_cons.mp hr with hr | hr
    · subst hr; exact ⟨h1.1, h1.2.1⟩
    · exact h2.1 r hr

/-- **Promotion only through an applied config entry**: `BecomeFollower` appears only in a step that
    applied a change after which the node's own entry is a non-learner. -/
theorem learner_becomes_voter_only_by_config (s : Learner) (op : LearnerOp)
    (h : "BF" ∈ (learnerStep s op).2.2) :
    ∃ c, op = .change c ∧ (applyChange s.view c).2.1 = none ∧
      ∃ me, find? (applyChange s.view c).1.nodes s.self = some me ∧ me.role ≠ rLearner := by
  cases op with
  | vote t => simp [learnerStep] at h
  | tick => simp [learnerStep, learnerTick] at h
  | bad => simp [learnerStep] at h
  | change c =>
    refine ⟨c, rfl, ?_⟩
    simp only [learnerStep, learnerApply] at h
    split at h
    · rename_i e he
      cases e <;> simp [Err.tag] at h <;> exact absurd h (by decide)
    · rename_i hnone
      refine ⟨hnone, ?_⟩
      split at h
      · rename_i me hme
        split at h
        · rename_i hrole
          exact ⟨me, hme, by simpa using hrole⟩
        · simp at h
      · simp at h

example : (learnerRun { self := 3, term := 2, view := { nodes := [⟨1, 1, 3⟩, ⟨2, 1, 3⟩, ⟨3, 4, 1⟩] } }
    [.vote 5, .tick, .change (.promote 3)]).2 = [(some false, []), (none, []), (none, ["BF"])] := by decide

/-! ### the commit quorum -/

/-- **A learner (any non-voter of the cached configuration) is not in the commit quorum**: neither its
    stored match index nor its acknowledgements can move the commit index. -/
theorem learner_not_in_commit_quorum (s : Leader) (id : Nat) (h : isVoterTarget s.targets id = false) :
    (∀ m, calcNewCommit { s with matchIdx := minsert s.matchIdx id m } = calcNewCommit s) ∧
    (∀ t r, (handleAppendResult s id t r).1.commit = s.commit) :=
  ⟨fun m => C09.learners_never_counted s id m h, fun t r => C09.learner_ack_never_commits s id t r h⟩

/-- a node with role Learner in the cached configuration is never a voter target -/
theorem learner_role_not_voter (targets : List Node) (id : Nat)
    (h : ∀ n ∈ targets, n.id = id → n.role = rLearner) : isVoterTarget targets id = false := by
  unfold isVoterTarget
  rw [Bool.eq_false_iff]
  intro hany
  obtain ⟨n, hn, hp⟩ := List.any_eq_true.mp hany
  simp at hp
  exact hp.2 (h n hn hp.1)

/-! ### promotion eligibility -/

/-- **Only caught-up, promotable learners of the configuration are queued for promotion.** -/
theorem promotion_only_when_caught_up (s : Leader) (id : Nat) (h : id ∈ newPromotions s) :
    isLearnerTarget s.targets id = true ∧ contains s.view.nodes id = true ∧
      ∃ m, (id, m) ∈ s.matchIdx ∧ s.commit - m ≤ s.catchup := by
  unfold newPromotions at h
  simp only at h
  have h1 : id ∈ ((s.matchIdx.filter fun e => isLearnerTarget s.targets e.1).filter fun e =>
      contains s.view.nodes e.1 && caughtUp (some e.2) s.commit s.catchup
        && ((find? s.view.nodes e.1).map (·.status)).getD sReadOnly == sPromotable).map (·.1) := by
    have := (List.mergeSort_perm _ _).mem_iff.mp h
    exact (List.mem_filter.mp this).1
  obtain ⟨e, he, hid⟩ := List.mem_map.mp h1
  have he2 := List.mem_filter.mp he
  have he1 := List.mem_filter.mp he2.1
  subst hid
  have hc := he2.2
  simp only [Bool.and_eq_true] at hc
  refine ⟨he1.2, hc.1.1, e.2, he1.1, ?_⟩
  have := hc.1.2
  simpa [caughtUp] using this

/-- the status must be `Promotable` as well -/
theorem promotion_only_promotable (s : Leader) (id : Nat) (h : id ∈ newPromotions s) :
    ((find? s.view.nodes id).map (·.status)).getD sReadOnly = sPromotable := by
  unfold newPromotions at h
  simp only at h
  have h1 := (List.mem_filter.mp ((List.mergeSort_perm _ _).mem_iff.mp h)).1
  obtain ⟨e, he, hid⟩ := List.mem_map.mp h1
  have hc := (List.mem_filter.mp he).2
  subst hid
  simp only [Bool.and_eq_true] at hc
  simpa using hc.2

/-! ### join requests -/

/-- **Joining an existing member is rejected** (and nothing is proposed). -/
theorem join_existing_rejected (v : View) (id role : Nat) (h : contains v.nodes id = true) :
    joinCheck v id role = some "exists" := by
  simp [joinCheck, h]

/-- a join request with a non-learner role is rejected too -/
theorem join_non_learner_rejected (v : View) (id role : Nat) (h : role ≠ rLearner) :
    (joinCheck v id role).isSome = true := by
  unfold joinCheck canRejoin
  split
  · rfl
  · simp [h]

/-- invariant: an answered join has its entry at or below the commit index -/
def JoinsOk (s : JoinSt) : Prop :=
  ∀ j ∈ s.joins, j.state = .ok → j.index ≤ s.leader.commit

theorem resolveJoins_ok (commit : Nat) (js : List JoinReq)
    (h : ∀ j ∈ js, j.state = .ok → j.index ≤ commit) :
    ∀ j ∈ resolveJoins commit js, j.state = .ok → j.index ≤ commit := by
  intro j hj hok
  unfold resolveJoins at hj
  obtain ⟨j0, hj0, heq⟩ := List.mem_map.mp hj
  by_cases hc : (j0.state == .pending && decide (j0.index ≤ commit)) = true
  · simp only [hc, if_true] at heq
    subst heq
    simp only [Bool.and_eq_true, decide_eq_true_eq] at hc
    exact hc.2
  · simp only [hc] at heq
    simp only [Bool.false_eq_true, if_false] at heq
    subst heq
    exact h j0 hj0 hok

theorem jnStep_ok (s : JoinSt) (op : JnOp) (out : JoinSt × List String × String)
    (h : jnStep s op = some out) (hinv : JoinsOk s) : JoinsOk out.1 := by
  cases op with
  | join id role status =>
    simp only [jnStep] at h
    split at h
    · injection h with h; subst h
      intro j hj hok
      rcases List.mem_append.mp hj with hj | hj
      · exact hinv j hj hok
      · simp at hj; subst hj; simp at hok
    · injection h with h; subst h
      intro j hj hok
      rcases List.mem_append.mp hj with hj | hj
      · exact hinv j hj hok
      · simp at hj; subst hj; simp at hok
  | ack p t m =>
    simp only [jnStep] at h
    injection h with h; subst h
    have hmono := (C09.handleAppendResult_ok s.leader p t (.success m)).commitMono
    intro j hj hok
    simp only at hj
    split at hj
    · exact resolveJoins_ok _ _ (fun j hj hok => Nat.le_trans (hinv j hj hok) hmono) j hj hok
    · exact Nat.le_trans (hinv j hj hok) hmono
  | flushed d =>
    simp only [jnStep] at h
    split at h
    · contradiction
    · rename_i r hr
      injection h with h; subst h
      have hmono := (C09.handleLogFlushed_ok s.leader d r hr).commitMono
      intro j hj hok
      simp only at hj
      split at hj
      · exact resolveJoins_ok _ _ (fun j hj hok => Nat.le_trans (hinv j hj hok) hmono) j hj hok
      · exact Nat.le_trans (hinv j hj hok) hmono
  | bad =>
    simp only [jnStep] at h
    injection h with h; subst h; exact hinv

/-- **A join request is answered successfully only after its `AddNode` entry has committed** — for
    every sequence of joins, acknowledgements and flushes. -/
theorem join_acked_after_commit (ops : List JnOp) : ∀ (s s' : JoinSt), JoinsOk s → jnRun s ops = some s' → JoinsOk s' := by
  induction ops with
  | nil => intro s s' hinv h; simp [jnRun] at h; subst h; exact hinv
  | cons op rest ih =>
    intro s s' hinv h
    simp only [jnRun] at h
    split at h
    · contradiction
    · rename_i s1 ev tag hs
      exact ih s1 s' (jnStep_ok s op (s1, ev, tag) hs hinv) h

/-- … and while it is pending its entry index is a real index of the leader's log, above the commit
    index at proposal time -/
theorem join_proposed_above_commit (s : JoinSt) (id role status : Nat) (out : JoinSt × List String × String)
    (h : jnStep s (.join id role status) = some out) (hc : s.leader.commit ≤ s.leader.log.length)
    (hp : joinCheck s.leader.view id role = none) :
    ∃ j ∈ out.1.joins, j.id = id ∧ j.state = .pending ∧ s.leader.commit < j.index ∧ j.index = out.1.leader.log.length := by
  simp only [jnStep, hp] at h
  injection h with h; subst h
  refine ⟨{ id := id, state := .pending, index := (s.leader.log ++ [s.leader.term]).length }, by simp, rfl, rfl, ?_, rfl⟩
  simp; omega

/-- non-vacuity: 3 voters, join of node 4 answered when (and only when) index 2 commits -/
example : ((jnRun { leader := initLeader 1 0 1 [1] [⟨1, 1, 3⟩, ⟨2, 1, 3⟩, ⟨3, 1, 3⟩] }
    [.join 4 4 1, .ack 2 1 1, .ack 2 1 2]).map fun s => (s.leader.commit, s.joins.map (·.state))) = some (2, [.ok]) ∧
  ((jnRun { leader := initLeader 1 0 1 [1] [⟨1, 1, 3⟩, ⟨2, 1, 3⟩, ⟨3, 1, 3⟩] }
    [.join 4 4 1, .ack 2 1 1]).map fun s => (s.leader.commit, s.joins.map (·.state))) = some (1, [.pending]) := by decide

/-! ### Q3: status vs role -/

/-- a configuration in which role and status tell the same story: non-learners are Active, learners are not -/
def Consistent (self : Nat) (ns : List Node) : Prop :=
  ∀ n ∈ ns, n.id ≠ self → (n.role ≠ rLearner ↔ n.status = sActive)

/-- on consistent configurations `voters()` (by status) is exactly the set of non-learner peers (by role) -/
theorem voters_eq_role_voters (self : Nat) (ns : List Node) (h : Consistent self ns) :
    voters self ns = ns.filter fun n => n.id != self && n.role != rLearner := by
  unfold voters
  apply List.filter_congr
  intro n hn
  by_cases hs : n.id = self
  · simp [hs]
  · have := h n hn hs
    by_cases hr : n.role = rLearner
    · have : ¬ n.status = sActive := fun hst => (this.mpr hst) hr
      simp [hs, hr, this]
    · have : n.status = sActive := this.mp hr
      simp [hs, hr, this]

/-- the reachable discrepancy: a join request carrying status Active yields a *learner* that `voters()`
    counts (total_voters, vote requests) while the commit filter leaves it out -/
theorem active_learner_counted_as_voter :
    let v := (applyChange { nodes := [⟨1, 1, 3⟩] } (.add 2 sActive)).1
    (voters 1 v.nodes).map (·.id) = [2] ∧ isVoterTarget (replicationPeers 1 v.nodes) 2 = false ∧
      ¬ Consistent 1 v.nodes := by
  refine ⟨by decide, by decide, ?_⟩
  intro h
  have := h ⟨2, 4, 3⟩ (by decide) (by decide)
  have h2 := this.mpr rfl
  exact h2 rfl

end DEngine.C27
