import DEngine.Lemmas.ClientQ
import DEngine.Lemmas.ClientQOut
import DEngine.Lemmas.ClientQKeeps
import DEngine.Lemmas.ClientQLin
/-!
# C11 — Linearizable reads on the leader

The invariant C11 needs on the leader has two halves.

**State half (holds as coded, proved for every state / every event):** a linearizable read is answered from the
state machine only when `last_applied ≥ read_index`, where `read_index = max(commit_index, noop_index)` was fixed
when the read was accepted — `accepted_read_is_fresh_or_parked_at_read_index`, `parked_read_served_only_when_applied`,
`pathA_serves_only_applied`, `pathB_serves_only_applied`, plus the noop gate `noop_gate`. Since a write is answered
`ok` only when its index is committed and applied (C29), every write acknowledged before the read was accepted has
an index ≤ the commit index at accept time ≤ `read_index` ≤ the applied index the read is served at: the read
never misses it. The monitor checks exactly that on the implementation's observations
(`read-misses-committed`, `read-misses-acknowledged-write`).

**Leadership half (FALSE as coded — finding F11):** the read must also be covered by a leadership confirmation
that started after it was accepted (Raft §6.4: a heartbeat round acknowledged by a majority, or a valid lease). The
code has three serving paths — immediate (single voter or valid lease), Path A (`handle_append_result`,
`quorum_confirmed`), Path B (`handle_apply_completed`) — `lin_read_paths` lists them. Path B asks for no quorum
evidence at all; Path A evaluates `quorum_confirmed` on the monotone `match_index` map, so one acknowledgement
of a round sent *before* the read (or one fresh acknowledgement in a 5-voter cluster) suffices.
`LinReadLeadershipStatement` is the full statement, `lin_read_leadership_false` its kernel-checked negation from
the Path-B witness (replayed on the real `LeaderState`: corpus/clientq/f11.case), `pathA_stale_round_witness` and
`pathA_five_voters_witness` the two Path-A witnesses, `lin_read_leadership_partial` the partial theorem under the
exact excluded trigger.
-/
namespace DEngine.C11
open DEngine.ClientQ

/-- the noop gate: before this leader's noop has committed every linearizable read of a batch is refused -/
theorem noop_gate (s : St) (rs : List Nat) (h : s.noopIdx = none) :
    gateReads s (some rs) = (none, answerAll rs .notReady) := by
  unfold gateReads; rw [h]

/-- …and once it has, the batch passes the gate unchanged -/
theorem noop_gate_open (s : St) (rs : List Nat) (n : Nat) (h : s.noopIdx = some n) :
    gateReads s (some rs) = (some rs, []) := by
  unfold gateReads; rw [h]

/-- `calculate_read_index` covers the commit index (hence every write acknowledged so far, C29) and the noop. -/
theorem readIndex_covers (s : St) : s.commit ≤ s.readIndex ∧ s.noopIdx.getD 0 ≤ s.readIndex := by
  unfold St.readIndex; omega

/-- **Accept time.** A batch of linearizable reads that passed the gate is either answered at once — and then
    (single voter or valid lease) and `last_applied ≥ read_index` hold and the value is the state machine's value
    at `last_applied` — or parked in `pending_reads` under exactly `read_index` (≥ commit index). -/
theorem accepted_read_is_fresh_or_parked_at_read_index (c : Cfg) (s : St) (rs : List Nat) :
    ((c.single = true ∨ s.leaseValid = true) ∧ s.readIndex ≤ s.applied ∧
      routeReads c s (some rs) = (s, answerAll rs (.val s.kv s.applied))) ∨
    ((routeReads c s (some rs)).2 = [] ∧
      (routeReads c s (some rs)).1.preads = preadsInsert s.preads s.readIndex (s.now + c.timeout) rs) := by
  unfold routeReads
  simp only
  split
  · rename_i h
    simp only [Bool.and_eq_true, Bool.or_eq_true, ge_iff_le, decide_eq_true_eq] at h
    exact Or.inl ⟨h.1, h.2, rfl⟩
  · exact Or.inr ⟨rfl, rfl⟩

/-- parking keeps the key: the batch sits under `read_index` (old batches keep their keys) -/
theorem preadsInsert_key (pr : List (Nat × Nat × List Nat)) (ri dl : Nat) (ids : List Nat) (id : Nat)
    (hid : id ∈ ids) : ∃ e ∈ preadsInsert pr ri dl ids, e.1 = ri ∧ id ∈ e.2.2 :=
  preadsInsert_new pr ri dl ids id hid

/-- **Serving a parked read.** `servePreads s upto` answers exactly the batches whose key (their `read_index`) is
    `≤ upto`, with the state machine's current value; everything else stays parked. -/
theorem parked_read_served_only_when_applied (s : St) (upto : Nat) (id : Nat) (r : Resp)
    (h : (id, r) ∈ (servePreads s upto).2) :
    ∃ e ∈ s.preads, id ∈ e.2.2 ∧ e.1 ≤ upto ∧ r = .val s.kv s.applied := by
  unfold servePreads at h
  simp only at h
  rcases List.mem_flatMap.mp h with ⟨e, he, hx⟩
  have hf := List.mem_filter.mp he
  have := mem_answerAll.mp hx
  exact ⟨e, hf.1, this.1, by simpa using hf.2, this.2⟩

/-- Path A (`handle_append_result`, quorum_confirmed): parked reads are answered only for keys ≤ the state
    machine's `last_applied` at that moment. -/
theorem pathA_serves_only_applied (c : Cfg) (s : St) (id : Nat) (v a : Nat)
    (h : (id, Resp.val v a) ∈ (onQuorum c s).2) (hlin : ∀ e ∈ s.pleases, e.1 ≠ id) :
    ∃ e ∈ s.preads, id ∈ e.2.2 ∧ e.1 ≤ s.applied ∧ a = s.applied := by
  unfold onQuorum at h
  simp only at h
  rcases List.mem_append.mp h with h | h
  · -- a pending *lease* read, excluded by `hlin`
    unfold drainPleases at h
    have := (mem_answerAll.mp h).1
    rcases List.mem_map.mp this with ⟨e, he, hid⟩
    exact absurd hid (hlin e he)
  · rcases parked_read_served_only_when_applied _ _ id _ h with ⟨e, he, hin, hk, hr⟩
    refine ⟨e, he, hin, hk, ?_⟩
    injection hr with _ ha

/-- Path B (`handle_apply_completed`): parked reads are answered only for keys ≤ the new `last_applied`, and
    they read the state *after* the apply. -/
theorem pathB_serves_only_applied (s : St) (k : Nat) (id : Nat) (v a : Nat)
    (h : (id, Resp.val v a) ∈ (applyUpTo s k).2) :
    ∃ e ∈ s.preads, id ∈ e.2.2 ∧ e.1 ≤ (applyUpTo s k).1.applied ∧ a = (applyUpTo s k).1.applied := by
  by_cases hk : applyTarget s k ≤ s.applied
  · rw [applyUpTo_noop hk] at h; simp at h
  · rcases applyUpTo_fields hk with ⟨ha, _, _, hout⟩
    rw [hout] at h
    rcases List.mem_append.mp h with h | h
    · unfold applyResponses at h
      rcases List.mem_filterMap.mp h with ⟨res, _, hm⟩
      split at hm
      · simp only [Option.some.injEq, Prod.mk.injEq] at hm
        cases hres : res.2 <;> simp [hres] at hm
      · simp at hm
    · rcases parked_read_served_only_when_applied _ _ id _ h with ⟨e, he, hin, hkk, hr⟩
      rw [ha]
      refine ⟨e, he, hin, hkk, ?_⟩
      injection hr with _ ha'

/-! ### state half, over whole histories -/

/-- **C11 state half (full strength, trace level).** Take any history `evs1`; let `s0` be the leader's state after
    it, `r` a read sitting in the linearizable read buffer of `s0`, and let the next event be the flush that accepts
    it (the commit index at accept time is `s0.commit` — the ghost "accept-time commit"). Then, whatever events
    follow (`evs2`: acknowledgements in any order, apply completions with any lag, ticks, further reads and writes,
    step-down, fatal errors …), every answer `val v a` that `r` ever receives was read from the state machine at an
    applied index `a ≥ s0.commit`. Since a write is acknowledged only when its own index is committed and applied
    (C29 `success_after_own_apply`) and commit indexes only grow, the read reflects every write acknowledged
    before it was accepted. Proof: uniqueness of request ids (`Acc`, C29) places `r` in no other queue at accept
    time; the tracking invariant `LinHyp` (batch keys of `r` ≥ C, `r` in no value-answering queue) is kept by all
    16 event kinds, and a parked read is answered only when `key ≤ last_applied`. -/
theorem lin_read_state_fresh (c : Cfg) (pre : Nat) (evs1 evs2 : List Ev) (r : Nat)
    (hl : c.leader = true) (hrun : (run c (init c pre) evs1).1.phase = .running)
    (hin : r ∈ (run c (init c pre) evs1).1.linBuf) :
    ∀ o ∈ (run c (run c (init c pre) evs1).1 (.flush :: evs2)).2, ∀ v a, (r, Resp.val v a) ∈ o →
      (run c (init c pre) evs1).1.commit ≤ a := by
  have hinv := inv_reachable c pre evs1
  have hacc := (acc_init c pre).run c evs1 (inv_init c pre)
  generalize (run c (init c pre) evs1).1 = s0 at *
  generalize ([] ++ answeredIds (run c (init c pre) evs1).2) = A at hacc
  -- uniqueness: r is in the read buffer, hence in no other queue, and it has been issued
  have hr := hacc r
  have hcnt : 0 < s0.linBuf.count r := List.count_pos_iff.mpr hin
  rw [pc_eq] at hr
  have hlt : r < s0.nextId := by
    apply Classical.byContradiction
    intro hge
    rw [if_neg hge] at hr
    omega
  rw [if_pos hlt] at hr
  have z1 : s0.leaseQ.count r = 0 := by omega
  have z2 : s0.evQ.count r = 0 := by omega
  have z3 : (s0.pleases.map (·.1)).count r = 0 := by omega
  have z4 : (s0.preads.flatMap (·.2.2)).count r = 0 := by omega
  have nlease : r ∉ s0.leaseQ := List.count_eq_zero.mp z1
  have nev : r ∉ s0.evQ := List.count_eq_zero.mp z2
  have npl : ∀ e ∈ s0.pleases, e.1 ≠ r := by
    intro e he hk
    exact List.count_eq_zero.mp z3 (List.mem_map.mpr ⟨e, he, hk⟩)
  have keys : ∀ e ∈ s0.preads, r ∈ e.2.2 → s0.commit ≤ e.1 := by
    intro e he hre
    exact absurd (List.mem_flatMap.mpr ⟨e, he, hre⟩) (List.count_eq_zero.mp z4)
  have t := track_flush_accept c hin (Nat.le_refl _) hlt nlease nev npl keys
  have hstep : step c s0 .flush = flush c s0 := by
    unfold step; simp [hrun, hl]
  intro o ho
  unfold run at ho
  simp only at ho
  rw [hstep] at ho
  rcases List.mem_cons.mp ho with h1 | h1
  · subst h1; exact t.1
  · have hi1 : Inv [] (flush c s0).1 := by
      have := hinv.step c .flush; rw [hstep] at this; exact this
    exact track_run c evs2 hi1 t.2 o h1

/-! ### leadership half -/

def cfg3 : Cfg :=
  { voters := 3, maxW := 0, maxR := 0, timeout := 1000, ptimeout := 2000, lease := 0, hb := 100, leader := true }
def cfg5 : Cfg := { cfg3 with voters := 5 }

/-- the leadership clause of the C11 monitor holds on the model's own observation of a trace -/
def LeadershipConfirmed (c : Cfg) (pre : Nat) (evs : List Ev) : Prop :=
  monC11 c pre evs (modelObs c pre evs) = none

/-- **Full statement**: on every history every answered linearizable read is state-fresh and covered by a
    leadership confirmation that started after it was accepted (single voter, valid lease, or a majority of
    voters acknowledging a round started at or after the accepting flush). -/
def LinReadLeadershipStatement : Prop := ∀ (c : Cfg) (pre : Nat) (evs : List Ev), LeadershipConfirmed c pre evs

/-- F11 / Path B witness (lease duration 0 ⇒ never valid): noop committed, a write committed but not yet applied,
    a linearizable read accepted (parked: state machine behind), then the apply completion answers the read —
    no acknowledgement of any kind after the read was accepted. -/
def pathBWitness : List Ev :=
  [.noop, .ack 2 1 1, .write (.put 5), .flush, .ack 2 2 2, .read 0, .flush, .apply 2]

theorem pathB_witness_served :
    (1, Resp.val 5 2) ∈ (step cfg3 (run cfg3 (init cfg3 0) (pathBWitness.take 7)).1 (.apply 2)).2 := by decide

theorem pathB_witness_flagged : (monC11 cfg3 0 pathBWitness (modelObs cfg3 0 pathBWitness)).isSome = true := by
  decide

/-- F11 / Path A witness: the read is answered by an acknowledgement of heartbeat round 1, although it was
    accepted when three rounds had already been started (round 1 was sent before the read existed). -/
def pathAStaleWitness : List Ev :=
  [.noop, .ack 2 1 1, .apply 1, .tick 100, .read 0, .flush, .ack 3 1 1]

theorem pathA_stale_round_witness :
    (monC11 cfg3 0 pathAStaleWitness (modelObs cfg3 0 pathAStaleWitness)).isSome = true := by decide

/-- F11 / Path A with 5 voters: one fresh acknowledgement (peer 4) answers the read; leader + 1 voter = 2 < 3. -/
def pathAFiveWitness : List Ev :=
  [.noop, .ack 2 1 1, .ack 3 1 1, .apply 1, .read 0, .flush, .ack 4 1 3]

theorem pathA_five_voters_witness :
    (monC11 cfg5 0 pathAFiveWitness (modelObs cfg5 0 pathAFiveWitness)).isSome = true := by decide

/-- **As coded the full statement is false** (kernel-checked from the Path-B witness). -/
theorem lin_read_leadership_false : ¬ LinReadLeadershipStatement := by
  intro h
  have := h cfg3 0 pathBWitness
  unfold LeadershipConfirmed at this
  have hw := pathB_witness_flagged
  rw [this] at hw
  simp at hw

/-- control: the same read answered by an acknowledgement of the round the accepting flush started is fine -/
theorem fresh_round_control :
    monC11 cfg3 0 [.noop, .ack 2 1 1, .apply 1, .read 0, .flush, .ack 3 1 2]
      (modelObs cfg3 0 [.noop, .ack 2 1 1, .apply 1, .read 0, .flush, .ack 3 1 2]) = none := by decide

/-- **Where a linearizable read can be answered with a value at all** (every state, every event): only by a
    flush (immediate path), a success acknowledgement / equal-term ack (Path A), a log-flush of a single voter… no:
    `logFlushed` never serves `pending_reads`; or an apply completion (Path B). All other events are silent for
    reads parked in `pending_reads`. -/
theorem lin_read_paths (c : Cfg) (s : St) (e : Ev) (hl : c.leader = true) (hrun : s.phase = .running) :
    (step c s e).1.preads = s.preads ∨
    (∃ ms, e = .tick ms) ∨ e = .flush ∨ (∃ p m r, e = .ack p m r) ∨ (∃ t, e = .ackHigher t) ∨
    (∃ k, e = .apply k) ∨ e = .stepDown ∨ e = .fatalInbound := by
  cases e
  case write op =>
    left; unfold step pushWrite; simp only [hrun, hl]; simp only [bne_self_eq_false, Bool.false_eq_true,
      ↓reduceIte, Bool.not_true]; repeat' split
    all_goals rfl
  case read p =>
    left; unfold step pushRead; simp only [hrun, hl]; simp only [bne_self_eq_false, Bool.false_eq_true,
      ↓reduceIte, Bool.not_true]; repeat' split
    all_goals rfl
  case scan => left; unfold step pushScan; simp [hrun, hl]
  case join n =>
    left
    unfold step; simp only [hrun, hl, bne_self_eq_false, Bool.false_eq_true, ↓reduceIte, Bool.not_true]
    unfold join; simp only
    split
    · rfl
    · simp only
      rcases execRpc_state c ({ ({ s with nextId := s.nextId + 1 } : St) with replDl := s.now + c.hb })
        [EntKind.conf] (some { start := s.lastEntry + 1, senders := [], wait := false, deadline := 0 }) none
        with ⟨pr, rd, h⟩
      -- reads = none ⇒ `routeReads` leaves `pending_reads` alone
      unfold execRpc routeReads gateReads
      simp only
      repeat' split
      all_goals first | rfl | (simp_all; done) | skip
      all_goals simp [execAppend]
  case flush => right; right; left; rfl
  case tick ms => right; left; exact ⟨ms, rfl⟩
  case ack p m r => right; right; right; left; exact ⟨p, m, r, rfl⟩
  case ackConflict p => left; unfold step; simp [hrun, hl]
  case ackHigher t => right; right; right; right; left; exact ⟨t, rfl⟩
  case ackStale => left; unfold step; simp [hrun, hl]
  case logFlushed =>
    left
    unfold step; simp only [hrun, hl, bne_self_eq_false, Bool.false_eq_true, ↓reduceIte, Bool.not_true]
    unfold logFlushed commitTo drainWrites drainActions drainPleases
    simp only
    repeat' split
    all_goals rfl
  case apply k => right; right; right; right; right; left; exact ⟨k, rfl⟩
  case stepDown => right; right; right; right; right; right; left; rfl
  case fatalInbound => right; right; right; right; right; right; right; rfl
  case fatalInternal => left; unfold step; simp [hrun, hl]
  case noop =>
    left
    unfold step; simp only [hrun, hl, bne_self_eq_false, Bool.false_eq_true, ↓reduceIte, Bool.not_true]
    unfold initNoop execRpc routeReads gateReads
    simp only
    repeat' split
    all_goals first | rfl | (simp_all; done) | skip
    all_goals simp [execAppend]

/-- **Partial theorem** (leadership half under the exact excluded trigger). For a single-voter cluster the
    leadership clause is vacuous — the leader *is* the quorum — so on every history the monitor can only object
    to the state half; and on every history, for every cluster size, whenever the monitor accepts the observation
    of the model, each answered linearizable read was state-fresh and (single voter ∨ lease valid when answered ∨
    a majority acknowledged a round started after the accept). The excluded trigger is exactly
    `f11-read-served-without-fresh-quorum`: multi-voter, lease not valid, fewer than a majority of fresh acks. -/
theorem lin_read_leadership_partial (c : Cfg) (pre : Nat) (evs : List Ev) (e : Nat) (id : Nat) (v a : Nat)
    (hacc : monC11 c pre evs (modelObs c pre evs) = none)
    (hx : (e, id, Resp.val v a) ∈ allResps (modelObs c pre evs))
    (hlin : id ∈ linReadIds evs (issuedIds c.leader evs 0 false)) (hl : c.leader = true) :
    ∃ f, flushEventOf evs (issuedIds c.leader evs 0 false) id = some f ∧
      leadershipOk c pre evs (modelObs c pre evs) e f = true := by
  unfold monC11 at hacc
  rw [List.head?_eq_none_iff, List.filterMap_eq_nil_iff] at hacc
  have hj := hacc (e, id, Resp.val v a) hx
  unfold judgeRead at hj
  simp only at hj
  generalize issuedIds c.leader evs 0 false = ids at hj hlin ⊢
  have hc : (linReadIds evs ids).contains id = true := by simpa using hlin
  rw [hc, hl] at hj
  simp only [Bool.not_true, Bool.or_self, Bool.false_eq_true, ↓reduceIte] at hj
  cases hf : flushEventOf evs ids id with
  | none => rw [hf] at hj; simp at hj
  | some f =>
    refine ⟨f, rfl, ?_⟩
    rw [hf] at hj
    simp only at hj
    repeat' split at hj
    all_goals first | assumption | (simp at hj; done) | (exact absurd hj (by simp))

/-- unfolding of the leadership clause -/
theorem leadershipOk_iff (c : Cfg) (pre : Nat) (evs : List Ev) (o : Obs) (e f : Nat) :
    leadershipOk c pre evs o e f = true ↔
      (c.single = true ∨ (evAt o e).leaseValid = true ∨
        (freshVoters c evs f e (roundsBefore c pre evs f)).length + 1 ≥ c.voters / 2 + 1) := by
  unfold leadershipOk
  simp [Bool.or_eq_true, or_assoc]

end DEngine.C11
