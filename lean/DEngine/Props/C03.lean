import DEngine.Model.Elect
import DEngine.Model.ElectMon
/-!
# C03 — A node only skips vote collection when it is the only voter

`broadcastOutcome m …` is the model of `ElectionHandler::broadcast_vote_requests` on membership `m`
(`Memb` = the part of `RaftMembership` the election looks at: `voters()`, `is_single_node_cluster()` =
`initial_cluster_size == 1`, `apply_config_change`).  `Outcome.wonWithoutVotes` is the early `Ok(())` taken
without issuing a single vote request.

* `SkipOnlyIfSoleVoterStatement` — the property at full strength, over all initial configurations and all
  membership histories.  **False for the code as it is** (finding F3): `skip_only_if_sole_voter_false`,
  witness = start alone, add two learners, promote them, then hold an election.
* `skip_iff_initial_size_one` — what the code really tests.
* `skip_only_if_sole_voter_partial` — the property holds for every history that adds no voter to an initial
  configuration without other voters (the exact excluded trigger).
* `fixed_skip_only_if_sole_voter` — with the proposed repair (`voters().is_empty()` instead of
  `initial_cluster_size == 1`) the full statement holds.
-/
namespace DEngine.C03
open DEngine.Elect

/-- C03 at full strength (monitor predicate `skipOK` on the outcome and the current voters). -/
def SkipOnlyIfSoleVoterStatement : Prop :=
  ∀ (self : Nat) (initial : List MNode) (h : List Change) (term lli llt : Nat)
    (tr : Option (Nat × List Resp)),
    skipOK (broadcastOutcome ((Memb.mk' self initial).applyAll h) term lli llt tr)
      ((Memb.mk' self initial).applyAll h).voters = true

/-- witness history of F3: node 1 starts alone, learners 2 and 3 join and are promoted -/
def f3History : List Change := [.addNode 2 1, .addNode 3 1, .batchPromote [2, 3] 3]

theorem f3_witness :
    ((Memb.mk' 1 [⟨1, false, 3⟩]).applyAll f3History).voters = [2, 3] ∧
    broadcastOutcome ((Memb.mk' 1 [⟨1, false, 3⟩]).applyAll f3History) 2 0 0 none = .wonWithoutVotes := by
  decide

/-- **The code as it is violates C03** (F3). -/
theorem skip_only_if_sole_voter_false : ¬ SkipOnlyIfSoleVoterStatement := by
  intro h
  have := h 1 [⟨1, false, 3⟩] f3History 2 0 0 none
  revert this
  decide

/-- the outcome of the tally is `wonWithoutVotes` exactly when the shortcut flag is set -/
theorem tally_skip_iff (term lli llt : Nat) (single : Bool) (nV : Nat) (tr : Option (Nat × List Resp)) :
    tally term lli llt single nV tr = .wonWithoutVotes ↔ single = true := by
  unfold tally
  cases single
  · simp only [Bool.false_eq_true, if_false, iff_false]
    split
    · simp
    · split
      · simp
      · split
        · rename_i o _
          -- the loop never returns `wonWithoutVotes`
          have hl : ∀ (rs : List Resp) (s : Nat), tallyLoop term lli llt rs s ≠ .inr .wonWithoutVotes := by
            intro rs
            induction rs with
            | nil => intro s; simp [tallyLoop]
            | cons r rs ih =>
              intro s
              cases r with
              | err => simpa [tallyLoop] using ih s
              | ok g t a b =>
                cases g
                · simp only [tallyLoop]
                  split
                  · simp
                  · split
                    · simp
                    · exact ih s
                · simpa [tallyLoop] using ih (s + 1)
          intro h
          rename_i heq
          subst h
          exact hl _ _ heq
        · split <;> simp
  · simp

/-- **What the code tests**: the request-free win is taken iff the node's *initial* configuration had size 1. -/
theorem skip_iff_initial_size_one (m : Memb) (term lli llt : Nat) (tr : Option (Nat × List Resp)) :
    broadcastOutcome m term lli llt tr = .wonWithoutVotes ↔ m.initSize = 1 := by
  unfold broadcastOutcome
  rw [tally_skip_iff]
  simp [Memb.isSingleNodeCluster]

/-- the initial size never changes -/
theorem initSize_apply (m : Memb) (c : Change) : (m.apply c).1.initSize = m.initSize := by
  cases c <;> simp only [Memb.apply]
  · split <;> rfl
  · split <;> rfl

theorem initSize_applyAll (m : Memb) (h : List Change) : (m.applyAll h).initSize = m.initSize := by
  unfold Memb.applyAll
  induction h generalizing m with
  | nil => rfl
  | cons c cs ih => simp only [List.foldl_cons]; rw [ih, initSize_apply]

/-- a change that cannot create a voter: no promotion, no node added directly as `Active` -/
def addsNoVoter : Change → Bool
  | .addNode _ status => status != 3
  | .removeNode _ => true
  | .promote _ => false
  | .batchPromote _ _ => false
  | .batchRemove _ => true

/-- no node other than `self` is `Active` -/
def NoOtherVoter (m : Memb) : Prop := ∀ n ∈ m.nodes, n.id = m.self ∨ n.status ≠ 3

theorem voters_nil_of_noOtherVoter (m : Memb) (h : NoOtherVoter m) : m.voters = [] := by
  unfold Memb.voters
  rw [List.map_eq_nil_iff, List.filter_eq_nil_iff]
  intro n hn
  rcases h n hn with h1 | h1
  · simp [h1]
  · simp [h1]

theorem noOtherVoter_apply (m : Memb) (c : Change) (hc : addsNoVoter c = true) (h : NoOtherVoter m) :
    NoOtherVoter (m.apply c).1 ∧ (m.apply c).1.self = m.self := by
  cases c with
  | addNode id status =>
    simp only [Memb.apply]
    split
    · exact ⟨h, rfl⟩
    · refine ⟨?_, rfl⟩
      intro n hn
      simp only [List.mem_append, List.mem_singleton] at hn
      rcases hn with hn | hn
      · exact h n hn
      · subst hn
        right
        simpa [addsNoVoter] using hc
  | removeNode id =>
    refine ⟨?_, rfl⟩
    intro n hn
    simp only [Memb.apply, List.mem_filter] at hn
    exact h n hn.1
  | promote id => simp [addsNoVoter] at hc
  | batchPromote ids st => simp [addsNoVoter] at hc
  | batchRemove ids =>
    refine ⟨?_, rfl⟩
    intro n hn
    simp only [Memb.apply, List.mem_filter] at hn
    exact h n hn.1

theorem noOtherVoter_applyAll (m : Memb) (h : List Change) (hh : h.all addsNoVoter = true)
    (hm : NoOtherVoter m) : NoOtherVoter (m.applyAll h) := by
  unfold Memb.applyAll
  induction h generalizing m with
  | nil => exact hm
  | cons c cs ih =>
    simp only [List.all_cons, Bool.and_eq_true] at hh
    simp only [List.foldl_cons]
    exact ih _ hh.2 (noOtherVoter_apply m c hh.1 hm).1

/-- **C03, partial**: for an initial configuration without other voters and any history that adds none,
    the property holds (whatever the election does, there is no other voter). -/
theorem skip_only_if_sole_voter_partial (self : Nat) (initial : List MNode) (h : List Change)
    (hinit : ∀ n ∈ initial, n.id = self ∨ n.status ≠ 3) (hh : h.all addsNoVoter = true)
    (term lli llt : Nat) (tr : Option (Nat × List Resp)) :
    skipOK (broadcastOutcome ((Memb.mk' self initial).applyAll h) term lli llt tr)
      ((Memb.mk' self initial).applyAll h).voters = true := by
  have hv := voters_nil_of_noOtherVoter _ (noOtherVoter_applyAll (Memb.mk' self initial) h hh hinit)
  simp [skipOK, hv]

/-- non-vacuity of the partial theorem: a sole voter with a joining learner and a removal -/
example : ([Change.addNode 2 1, .removeNode 2, .batchRemove [5]]).all addsNoVoter = true ∧
    broadcastOutcome ((Memb.mk' 1 [⟨1, false, 3⟩]).applyAll [.addNode 2 1, .removeNode 2, .batchRemove [5]]) 2 0 0 none
      = .wonWithoutVotes := by decide

/-! ### the proposed repair -/

/-- `broadcast_vote_requests` with `is_single_node_cluster()` replaced by `voters().is_empty()` -/
def broadcastOutcomeFixed (m : Memb) (term lli llt : Nat) (tr : Option (Nat × List Resp)) : Outcome :=
  tally term lli llt m.voters.isEmpty m.voters.length tr

/-- **C03 in full for the repaired tally**, all configurations and histories. -/
theorem fixed_skip_only_if_sole_voter (m : Memb) (term lli llt : Nat) (tr : Option (Nat × List Resp)) :
    skipOK (broadcastOutcomeFixed m term lli llt tr) m.voters = true := by
  unfold skipOK broadcastOutcomeFixed
  by_cases hv : m.voters.isEmpty = true
  · simp [hv]
  · have : tally term lli llt m.voters.isEmpty m.voters.length tr ≠ .wonWithoutVotes := by
      intro h
      rw [tally_skip_iff] at h
      exact hv h
    simp [this]

/-- the repair does not change the outcome for a node that really is alone -/
theorem fixed_agrees_when_alone (m : Memb) (hv : m.voters = []) (hs : m.initSize = 1)
    (term lli llt : Nat) (tr : Option (Nat × List Resp)) :
    broadcastOutcomeFixed m term lli llt tr = broadcastOutcome m term lli llt tr := by
  simp [broadcastOutcomeFixed, broadcastOutcome, Memb.isSingleNodeCluster, hv, hs, tally]

end DEngine.C03
