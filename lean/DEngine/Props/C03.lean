import DEngine.Model.Elect
import DEngine.Model.ElectMon
/-!
# C03 — A node only skips vote collection when it is the only voter

`broadcastOutcome m …` is the model of `ElectionHandler::broadcast_vote_requests` on membership `m`
(`Memb` = the part of `RaftMembership` the election looks at: `voters()`, `is_single_node_cluster()`,
`initial_cluster_size`, `apply_config_change`).  `Outcome.wonWithoutVotes` is the early `Ok(())` taken without
issuing a single vote request.

History: as found, `is_single_node_cluster()` was `initial_cluster_size == 1` only and the property was false
(finding F3: start alone, add two learners, promote them, hold an election — replayed on the real code).
Fix 16342b6 made it `initial_cluster_size == 1 && voters().is_empty()`; the model follows the fixed code.

* `skip_only_if_sole_voter` — **the property at full strength**: for every initial configuration, every
  membership history, every term / log / transport result, a request-free win implies that there is no other voter.
* `skip_iff` — exactly when the shortcut is taken now.
* `multi_node_config_never_skips` — the intent of the old test is kept: a node configured with several nodes
  never takes the shortcut, even if all its peers were removed.
* `pre_fix_shortcut_was_wrong` — the predicate used before the fix violates the property on the F3 witness.
-/
namespace DEngine.C03
open DEngine.Elect

/-- witness history of F3: node 1 starts alone, learners 2 and 3 join and are promoted -/
def f3History : List Change := [.addNode 2 1, .addNode 3 1, .batchPromote [2, 3] 3]

/-- the outcome of the tally is `wonWithoutVotes` exactly when the shortcut flag is set -/
theorem tally_skip_iff (term lli llt : Nat) (single : Bool) (nV : Nat) (tr : Option (Nat × List Resp)) :
    tally term lli llt single nV tr = .wonWithoutVotes ↔ single = true := by
  unfold tally
  cases single
  · simp only [Bool.false_eq_true, if_false, iff_false]
    split
    · simp
    · split
      · simp
      · split
        · rename_i o _
          -- the loop never returns `wonWithoutVotes`
          have hl : ∀ (rs : List Resp) (s : Nat), tallyLoop term lli llt rs s ≠ .inr .wonWithoutVotes := by
            intro rs
            induction rs with
            | nil => intro s; simp [tallyLoop]
            | cons r rs ih =>
              intro s
              cases r with
              | err => simpa [tallyLoop] using ih s
              | ok g t a b =>
                cases g
                · simp only [tallyLoop]
                  split
                  · simp
                  · split
                    · simp
                    · exact ih s
                · simpa [tallyLoop] using ih (s + 1)
          intro h
          rename_i heq
          subst h
          exact hl _ _ heq
        · split <;> simp
  · simp

/-- **When the shortcut is taken** (after fix 16342b6). -/
theorem skip_iff (m : Memb) (term lli llt : Nat) (tr : Option (Nat × List Resp)) :
    broadcastOutcome m term lli llt tr = .wonWithoutVotes ↔ (m.initSize = 1 ∧ m.voters = []) := by
  unfold broadcastOutcome
  rw [tally_skip_iff]
  simp [Memb.isSingleNodeCluster, List.isEmpty_iff]

/-- **C03 at full strength**: whatever the initial configuration, the membership history, the term, the log and
    the transport do, an election won without sending a vote request happens only without any other voter. -/
theorem skip_only_if_sole_voter (self : Nat) (initial : List MNode) (h : List Change) (term lli llt : Nat)
    (tr : Option (Nat × List Resp)) :
    skipOK (broadcastOutcome ((Memb.mk' self initial).applyAll h) term lli llt tr)
      ((Memb.mk' self initial).applyAll h).voters = true := by
  unfold skipOK
  by_cases hs : broadcastOutcome ((Memb.mk' self initial).applyAll h) term lli llt tr = .wonWithoutVotes
  · have := ((skip_iff _ term lli llt tr).mp hs).2
    simp [this]
  · simp [hs]

/-- the same for any membership value (not only reachable ones) -/
theorem skip_only_if_sole_voter' (m : Memb) (term lli llt : Nat) (tr : Option (Nat × List Resp)) :
    skipOK (broadcastOutcome m term lli llt tr) m.voters = true := by
  unfold skipOK
  by_cases hs : broadcastOutcome m term lli llt tr = .wonWithoutVotes
  · have := ((skip_iff m term lli llt tr).mp hs).2
    simp [this]
  · simp [hs]

/-- regression of F3: the expanded node now has to collect votes (no transport result ⇒ no win) -/
theorem f3_regression :
    ((Memb.mk' 1 [⟨1, false, 3⟩]).applyAll f3History).voters = [2, 3] ∧
    broadcastOutcome ((Memb.mk' 1 [⟨1, false, 3⟩]).applyAll f3History) 2 0 0 none = .transportErr ∧
    broadcastOutcome ((Memb.mk' 1 [⟨1, false, 3⟩]).applyAll f3History) 2 0 0 (some (2, [.ok true 2 0 0])) = .won := by
  decide

/-- non-vacuity: a node that really is alone still wins at once -/
example : broadcastOutcome ((Memb.mk' 1 [⟨1, false, 3⟩]).applyAll [.addNode 2 1, .removeNode 2]) 2 0 0 none
    = .wonWithoutVotes := by decide

/-- the initial size never changes -/
theorem initSize_apply (m : Memb) (c : Change) : (m.apply c).1.initSize = m.initSize := by
  cases c <;> simp only [Memb.apply]
  · split <;> rfl
  · split <;> rfl

theorem initSize_applyAll (m : Memb) (h : List Change) : (m.applyAll h).initSize = m.initSize := by
  unfold Memb.applyAll
  induction h generalizing m with
  | nil => rfl
  | cons c cs ih => simp only [List.foldl_cons]; rw [ih, initSize_apply]

/-- a node configured with several nodes never takes the shortcut, whatever happens to its membership
    (the behaviour pinned by `test_network_partition_does_not_affect_cluster_size`) -/
theorem multi_node_config_never_skips (self : Nat) (initial : List MNode) (h : List Change)
    (hi : initial.length ≠ 1) (term lli llt : Nat) (tr : Option (Nat × List Resp)) :
    broadcastOutcome ((Memb.mk' self initial).applyAll h) term lli llt tr ≠ .wonWithoutVotes := by
  intro hs
  have := ((skip_iff _ term lli llt tr).mp hs).1
  rw [initSize_applyAll] at this
  exact hi this

/-- the tally as it was before the fix: shortcut keyed on the initial size only -/
def broadcastOutcomePreFix (m : Memb) (term lli llt : Nat) (tr : Option (Nat × List Resp)) : Outcome :=
  tally term lli llt (m.initSize == 1) m.voters.length tr

/-- the pre-fix predicate violated C03 (F3 witness) -/
theorem pre_fix_shortcut_was_wrong :
    skipOK (broadcastOutcomePreFix ((Memb.mk' 1 [⟨1, false, 3⟩]).applyAll f3History) 2 0 0 none)
      ((Memb.mk' 1 [⟨1, false, 3⟩]).applyAll f3History).voters = false := by decide

end DEngine.C03
