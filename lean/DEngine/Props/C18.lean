import DEngine.Model.BufLogMon
import DEngine.Lemmas.BufLogCrash
import DEngine.Props.C19
/-!
# C18 — The Raft log recovers a durable, gap-free prefix after a crash

Model: `Sys` = in-memory `BufferedRaftLog` + IO task (`batch_processor`, one `select!` iteration per arm, any arm
order) + reference store with a volatile and a durable copy; `Sys.reopen` = crash (process: volatile copy survives,
power loss: durable copy survives) followed by `BufferedRaftLog::new`.

The verdict `c18Verdict` is the monitor of the `buflog` family (`c18Walk`: gap-free, every entry at or below the
reported `durable_index` present with identical content, reloaded log = a run of consecutive entries of the log as
it was at some earlier moment) applied to the model's own run. `C18Statement` = the verdict is clean for every case.

As the code is now (fixes F7, F17, F72 = 95c6d63, F73 = 466194e, F75 = 5a41097 + 33a6e3d in) one reason is left
why the statement is **false**: `false_filestore` (F74, `FileLogStore` cuts its file by position), kernel-checked and
replayed on the real code by the corpus. The former witnesses of F72, F73, F75 are clean: `stalePending_clean`,
`restartUnsynced_clean`, `ioRace_clean`.

Positive part — `crash_recovery_partial`: over the reference store, for every well-formed operation list, **every
arm order** of the IO loop and timer ticks anywhere (`Op.validSched`: the order lists all three arms), a crash after
the run (or after any prefix of it) — process crash or power loss — reloads a gap-free log that contains every entry
at or below the reported `durable_index` with identical content and is a run of consecutive entries of an earlier
log. Proof: invariant `StoreOk` between operations (`execOp_storeOk`), `recovered_ok` at the crash.
-/
namespace DEngine.C18
open DEngine.BufLog

/-- the observations of the model's run, one per operation (what the harness prints from the real code) -/
def snapsOf (sim : Bool) : Sys → List Op → List (String × Snap)
  | _, [] => []
  | s, op :: ops => let s' := (execOp s op).1; ("", s'.buf.snap s'.store sim) :: snapsOf sim s' ops

def initSys (sim : Bool) : Sys := { keepBoundary := true, file := if sim then none else some {} }

/-- verdict of the C18 monitor on the model's run of a case -/
def c18Verdict (c : Case) : Option String := (c18Walk {} [[]] emptySnap c.ops (snapsOf c.sim (initSys (c.sim || c.rocks)) c.ops) 0).1

/-- **C18, full statement**: whatever the operations, the IO schedule and the crash points. -/
def C18Statement : Prop := ∀ c : Case, c18Verdict c = none

def e (i t p : Nat) : Entry := { index := i, term := t, payload := p }
def tcn : Sched := { clock := true, prio := [.timer, .cmd, .notify] }

/-- F72: two conflict truncations handled by the command arm, then an fsync with the stale `pending_max` -/
def stalePending : Case := { sim := true, ops :=
  [ .append [e 1 1 0, e 2 1 0, e 3 1 0], .flush {}, .fca 1 1 [e 2 2 0, e 3 2 0] {}, .fca 1 1 [e 2 3 1] {}, .flush {},
    .append [e 3 3 2], .flush {}, .crash false ] }

/-- F73: written-but-unsynced entry survives a process crash, is reported durable by `new`, lost by power loss -/
def restartUnsynced : Case := { sim := true, ops :=
  [ .append [e 1 1 0, e 2 1 0], .flush {}, .fca 1 1 [e 2 2 1] {}, .crash false, .crash true ] }

/-- F75: the timer arm wins `select!` while the ReplaceRange is queued -/
def ioRace : Case := { sim := true, ops :=
  [ .append [e 1 1 0, e 2 1 0, e 3 1 0], .flush {}, .fca 1 1 [e 2 2 1] tcn, .crash true ] }

/-- F74: `FileLogStore` (record-level model): truncation by file position keeps an earlier record of index 4 -/
def fileStore : Case := { sim := false, ops :=
  [ .append [e 1 1 0, e 2 1 0, e 3 1 0], .fca 2 1 [e 3 2 1, e 4 2 2] {}, .fca 2 1 [e 3 3 3] {}, .crash false ] }

/-- regression of F72 (fix 95c6d63 lowers `pending_max` and `durable_index` when the ReplaceRange is handled) -/
theorem stalePending_clean : c18Verdict stalePending = none := by decide +kernel
/-- regression of F73 (fix 466194e: `new` fsyncs what it finds before reporting it durable) -/
theorem restartUnsynced_clean : c18Verdict restartUnsynced = none := by decide +kernel
/-- regression of F75 (fixes 5a41097 + 33a6e3d: a queued command is applied before anything is persisted) -/
theorem ioRace_clean : c18Verdict ioRace = none := by decide +kernel
theorem fileStore_verdict : c18Verdict fileStore = some "c18-resurrected-entry" := by decide +kernel

theorem false_filestore : ¬ C18Statement := fun h => by
  have := h fileStore; rw [fileStore_verdict] at this; cases this

/-- non-vacuity of the verdict: the F17 regression (truncate below durable, re-append, flush, graceful close,
    reopen) is clean now, under both crash semantics -/
def f17Regression (power : Bool) : Case := { sim := true, ops :=
  [ .append [e 1 1 0, e 2 1 0, e 3 1 0, e 4 1 0], .flush {}, .fca 2 1 [e 3 2 1] {}, .append [e 4 2 2], .flush {},
    .crash power ] }
theorem f17_regression_clean : c18Verdict (f17Regression false) = none ∧ c18Verdict (f17Regression true) = none := by
  decide +kernel

/-! ### the positive part -/

/-- the logs seen during a run (most recent first), on top of `h` -/
def histRun : Sys → List Op → List (List Entry) → List (List Entry)
  | _, [], h => h
  | s, op :: ops, h => histRun (execOp s op).1 ops ((execOp s op).1.buf.mem :: h)

theorem storeOk_init : StoreOk ({} : Sys) [[]] :=
  { file := rfl, kb := rfl, bnd := ⟨rfl, rfl⟩, dImg := ⟨rfl, by simp, by simp⟩, queue := rfl, alive := rfl, inv := Buf.Inv.init,
    vol := ⟨Sorted.nil, by simp, by simp⟩, full := by simp, closed := by simp, dTop := by simp [Buf.top],
    pTop := by simp [Buf.top], dHist := by simp, dDur := by simp, memHist := by simp,
    histOk := by intro h hh; simp at hh; subst hh; exact ⟨0, rfl⟩ }

theorem run_storeOk : ∀ (ops : List Op) (s : Sys) (hist : List (List Entry)), StoreOk s hist → [] ∈ hist →
    wfRun s.buf.abs ops = true → ops.all Op.validSched = true →
    StoreOk (Sys.run s ops).1 (histRun s ops hist) := by
  intro ops
  induction ops with
  | nil => intro s hist h _ _ _; exact h
  | cons op ops ih =>
    intro s hist h hnil hwf hplain
    simp only [wfRun, Bool.and_eq_true] at hwf
    simp only [List.all_cons, Bool.and_eq_true] at hplain
    have hq : Quiet s := ⟨h.alive, by rw [h.queue]; simp⟩
    have hstep := execOp_refines hq h.inv hwf.1
    have hs' := execOp_storeOk h hnil hwf.1 hplain.1
    simp only [Sys.run, histRun]
    exact ih (execOp s op).1 _ hs' (List.mem_cons_of_mem _ hnil) (by rw [hstep.abs]; exact hwf.2) hplain.2

/-- **C18, positive part under the excluded triggers** (reference store). -/
theorem crash_recovery_partial (ops : List Op) (hwf : wfRun {} ops = true)
    (hplain : ops.all Op.validSched = true) (power : Bool) :
    recoveredOk (histRun {} ops [[]]) (Sys.run {} ops).1.buf.mem (Sys.run {} ops).1.buf.durable
      ((Sys.run {} ops).1.reopen power).buf.mem (Sys.run {} ops).1.store.v.ents
      (some (Sys.run {} ops).1.store.d.ents) = none :=
  recovered_ok (run_storeOk ops {} [[]] storeOk_init (by simp) (by simpa [Buf.abs] using hwf) hplain) power

/-- every crash point between two operations of such a run is covered -/
theorem crash_recovery_partial_prefix (ops : List Op) (hwf : wfRun {} ops = true)
    (hplain : ops.all Op.validSched = true) (n : Nat) (power : Bool) :
    recoveredOk (histRun {} (ops.take n) [[]]) (Sys.run {} (ops.take n)).1.buf.mem (Sys.run {} (ops.take n)).1.buf.durable
      ((Sys.run {} (ops.take n)).1.reopen power).buf.mem (Sys.run {} (ops.take n)).1.store.v.ents
      (some (Sys.run {} (ops.take n)).1.store.d.ents) = none :=
  crash_recovery_partial (ops.take n) (C19.wfRun_take ops {} n hwf)
    (by simp only [List.all_eq_true] at hplain ⊢; exact fun x hx => hplain x (List.mem_of_mem_take hx)) power

/-! ### crashes inside the run: recovery is itself the start of a run -/

/-- An operation is admissible in the state it meets: a crash always is (either kind); anything else must be
    well-formed with respect to the log as it is then — after a recovery: the recovered log — and list every arm. -/
def okOp (s : Sys) (op : Op) : Bool :=
  match op with
  | .crash _ => true
  | _ => wfOp s.buf.abs op && op.validSched

def okRun : Sys → List Op → Bool
  | _, [] => true
  | s, op :: ops => okOp s op && okRun (execOp s op).1 ops

theorem run_storeOk_crashes : ∀ (ops : List Op) (s : Sys) (hist : List (List Entry)), StoreOk s hist → [] ∈ hist →
    okRun s ops = true → StoreOk (Sys.run s ops).1 (histRun s ops hist) := by
  intro ops
  induction ops with
  | nil => intro s hist h _ _; exact h
  | cons op ops ih =>
    intro s hist h hnil hok
    simp only [okRun, Bool.and_eq_true] at hok
    simp only [Sys.run, histRun]
    refine ih (execOp s op).1 _ ?_ (List.mem_cons_of_mem _ hnil) hok.2
    cases op with
    | crash power => exact h.reopen power
    | append es => have := hok.1; simp only [okOp, Bool.and_eq_true] at this; exact execOp_storeOk h hnil this.1 this.2
    | fca a b c d => have := hok.1; simp only [okOp, Bool.and_eq_true] at this; exact execOp_storeOk h hnil this.1 this.2
    | purge a b c => have := hok.1; simp only [okOp, Bool.and_eq_true] at this; exact execOp_storeOk h hnil this.1 this.2
    | reset a => have := hok.1; simp only [okOp, Bool.and_eq_true] at this; exact execOp_storeOk h hnil this.1 this.2
    | flush a => have := hok.1; simp only [okOp, Bool.and_eq_true] at this; exact execOp_storeOk h hnil this.1 this.2
    | alloc a => have := hok.1; simp only [okOp, Bool.and_eq_true] at this; exact execOp_storeOk h hnil this.1 this.2
    | get a b => have := hok.1; simp only [okOp, Bool.and_eq_true] at this; exact execOp_storeOk h hnil this.1 this.2
    | io a => have := hok.1; simp only [okOp, Bool.and_eq_true] at this; exact execOp_storeOk h hnil this.1 this.2
    | close a => have := hok.1; simp [okOp, Op.validSched] at this

/-- **C18 over the reference store, crashes anywhere**: any number of crashes of either kind inside the run, every
    arm order; the log reloaded by the last crash passes the three clauses. -/
theorem crash_recovery_general (ops : List Op) (hok : okRun {} ops = true) (power : Bool) :
    recoveredOk (histRun {} ops [[]]) (Sys.run {} ops).1.buf.mem (Sys.run {} ops).1.buf.durable
      ((Sys.run {} ops).1.reopen power).buf.mem (Sys.run {} ops).1.store.v.ents
      (some (Sys.run {} ops).1.store.d.ents) = none :=
  recovered_ok (run_storeOk_crashes ops {} [[]] storeOk_init (by simp) hok) power

/-- non-vacuity: a process crash, more operations on the recovered log, a power loss, more operations -/
def crashesDemo : List Op :=
  [ .append [e 1 1 0, e 2 1 0], .flush {}, .fca 1 1 [e 2 2 1] {}, .crash false, .append [e 3 2 2], .io {},
    .crash true, .fca 3 2 [e 4 3 3] tcn ]

example : okRun {} crashesDemo = true ∧ (Sys.run {} crashesDemo).1.buf.mem = [e 1 1 0, e 2 2 1, e 3 2 2, e 4 3 3] := by
  decide +kernel

/-- non-vacuity: appends, a flush, a conflict truncation below `durable_index` with the timer arm meant to go first,
    a re-append, a purge with the notify arm meant to go first, an IO step with a timer tick — all hypotheses hold,
    and the log is not empty at the crash -/
def partialDemo : List Op :=
  [ .append [e 1 1 0, e 2 1 0, e 3 1 0, e 4 1 0], .flush {}, .fca 2 1 [e 3 2 1] tcn, .append [e 4 2 2],
    .purge 1 1 { prio := [.notify, .timer, .cmd] }, .io { clock := true }, .fca 4 2 [e 5 2 3, e 6 3 4] {} ]

example : wfRun {} partialDemo = true ∧ partialDemo.all Op.validSched = true ∧
    (Sys.run {} partialDemo).1.buf.mem.length = 5 ∧
    (Sys.run {} partialDemo).1.buf.durable = 4 := by decide +kernel

/-- the former F72 and F75 witnesses satisfy the hypotheses: it is covered by the theorem now -/
example : wfRun {} (stalePending.ops.take 7) = true ∧ (stalePending.ops.take 7).all Op.validSched = true ∧
    wfRun {} (ioRace.ops.take 3) = true ∧ (ioRace.ops.take 3).all Op.validSched = true := by
  decide +kernel

end DEngine.C18
