import DEngine.Model.Conf
/-!
# C34 — Accepted configurations satisfy the safety timing constraints

Every configuration accepted by `validate` (the model of `RaftConfig::validate`, tied to the code by
the `conf` correspondence on boundary-value grids) is `Safe`: lease + rtt/2 < election_timeout_min over
the *mathematical* naturals (so the `saturating_add` branch is covered, not assumed away),
min < max, non-zero heartbeat / batch / merge / per-request limits, retained ≥ 1.
-/
namespace DEngine.C34
open DEngine.Conf

theorem satAdd_toNat (a b : UInt64) :
    (satAdd a b).toNat = min (a.toNat + b.toNat) (2 ^ 64 - 1) := by
  unfold satAdd
  split
  · rename_i h
    have : min (a.toNat + b.toNat) (2 ^ 64 - 1) = 2 ^ 64 - 1 := by omega
    rw [this]; rfl
  · rename_i h
    rw [UInt64.toNat_add]
    omega

/-- Acceptance means every check's error condition is false. -/
theorem accepted_iff (c : Cfg) : validate c = none ↔ ∀ chk ∈ checks c, chk.1 = false := by
  unfold validate
  simp [List.find?_eq_none]

theorem ne_zero_of_beq_false {x : UInt64} (h : (x == 0) = false) : x.toNat ≠ 0 := by
  intro h0
  have : x = 0 := UInt64.toNat_inj.mp (by simpa using h0)
  simp [this] at h

/-- **C34 (full strength).** -/
theorem validate_sound (c : Cfg) (h : validate c = none) : Safe c := by
  rw [accepted_iff] at h
  have hlease := h (satAdd c.lease (c.rtt / 2) ≥ c.emin, "lease_vs_election") (by simp [checks])
  have hmm := h (c.emin ≥ c.emax, "election_min_max") (by simp [checks])
  have hhb := h (c.hb == 0, "heartbeat") (by simp [checks])
  have hb := h (c.maxBatch == 0, "max_batch") (by simp [checks])
  have hm := h (c.maxMerge == 0, "max_merge") (by simp [checks])
  have hp := h (c.perRepl == 0, "per_replication") (by simp [checks])
  have hr := h (c.retained < 1, "retained") (by simp [checks])
  have hsat := satAdd_toNat c.lease (c.rtt / 2)
  have hdiv : (c.rtt / 2).toNat = c.rtt.toNat / 2 := by simp [UInt64.toNat_div]
  have heminlt : c.emin.toNat < 2 ^ 64 := c.emin.toNat_lt
  have h1 : (1 : UInt64).toNat = 1 := rfl
  simp only [ge_iff_le, decide_eq_false_iff_not, UInt64.le_iff_toNat_le, UInt64.lt_iff_toNat_lt] at hlease hmm hr
  refine ⟨?_, ?_, ne_zero_of_beq_false hhb, ne_zero_of_beq_false hb, ne_zero_of_beq_false hm,
    ne_zero_of_beq_false hp, ?_⟩
  · rw [hsat, hdiv] at hlease; omega
  · omega
  · omega

/-- The lease clause on its own, in the form C12 uses. -/
theorem lease_lt_election (c : Cfg) (h : validate c = none) :
    c.lease.toNat + c.rtt.toNat / 2 < c.emin.toNat := (validate_sound c h).1

/-- Non-vacuity: the shipped defaults are accepted (so the premise is satisfiable). -/
def defaults : Cfg :=
  { learnerCatchup := 1, generalTimeout := 50, hb := 100, perRepl := 100, maxBatch := 100,
    maxMerge := 1000, emin := 500, emax := 1000, peerMon := 30, cleanupInterval := 1000,
    maxCleanup := 1, maxLogBeforeSnap := 1000, retainCount := 2, chunkSize := 1024, retained := 1,
    senderYield := 1, receiverYield := 1, pushQueue := 100, recvChunkTimeout := 10, pushMaxRetry := 3,
    lease := 250, rtt := 2, raCapacity := 512, raMaxDrain := 100, evQueue := 10240, watcherBuf := 256,
    idleFlush := 1000 }
example : validate defaults = none := by decide

/-- Rejection at the overflow boundary: lease = u64::MAX is rejected whatever emin is. -/
example : validate { defaults with
    lease := 0xFFFFFFFFFFFFFFFF, rtt := 0xFFFFFFFFFFFFFFFF,
    emin := 0xFFFFFFFFFFFFFFFE, emax := 0xFFFFFFFFFFFFFFFF } = some "lease_vs_election" := by decide

/-! ## corollaries added in the continuation session (DESIGN.md 12.10) -/
/-- Every election timeout a node can draw (`rand in [emin, emax)`) is longer than the lease window plus the
    round-trip margin: the form in which C12's lease argument consumes C34. -/
theorem lease_lt_every_timeout (c : Cfg) (h : validate c = none) (t : Nat)
    (ht : c.emin.toNat ≤ t) : c.lease.toNat + c.rtt.toNat / 2 < t :=
  Nat.lt_of_lt_of_le (validate_sound c h).1 ht

/-- The range election timeouts are drawn from is not empty, and no arithmetic on it wraps. -/
theorem election_range_nonempty (c : Cfg) (h : validate c = none) :
    ∃ t, c.emin.toNat ≤ t ∧ t < c.emax.toNat ∧ t < 2 ^ 64 :=
  ⟨c.emin.toNat, Nat.le_refl _, (validate_sound c h).2.1, c.emin.toNat_lt⟩

/-- Converse direction for the two timing clauses: a config violating either is rejected (validation is not
    merely sound but rejects exactly on these clauses — no unsafe config slips through a short-circuit). -/
theorem unsafe_timing_rejected (c : Cfg)
    (hbad : c.emin.toNat ≤ c.lease.toNat + c.rtt.toNat / 2 ∨ c.emax.toNat ≤ c.emin.toNat) :
    validate c ≠ none := by
  intro h
  have hs := validate_sound c h
  rcases hbad with hb | hb
  · have := hs.1; omega
  · have := hs.2.1; omega

/-- No false rejection on the lease clause: the validator answers `lease_vs_election` only when the lease window plus
    margin really reaches the minimum election timeout (in ℕ: saturation cannot cause a spurious rejection either). -/
theorem lease_rejection_is_genuine (c : Cfg) (h : validate c = some "lease_vs_election") :
    c.emin.toNat ≤ c.lease.toNat + c.rtt.toNat / 2 := by
  unfold validate at h
  obtain ⟨chk, hf, htag⟩ := Option.map_eq_some_iff.mp h
  have hmem := List.mem_of_find?_eq_some hf
  have htrue := List.find?_some hf
  have hsat := satAdd_toNat c.lease (c.rtt / 2)
  have hdiv : (c.rtt / 2).toNat = c.rtt.toNat / 2 := by simp [UInt64.toNat_div]
  simp only [checks, List.mem_cons, List.not_mem_nil, or_false] at hmem
  rcases hmem with h | h | h | h | h | h | h | h | h | h | h | h | h | h | h | h | h | h | h | h | h | h | h | h | h | h <;>
    subst h <;> simp at htag
  simp only [ge_iff_le, decide_eq_true_eq, UInt64.le_iff_toNat_le] at htrue
  rw [hsat, hdiv] at htrue
  have := c.emin.toNat_lt
  omega

end DEngine.C34
