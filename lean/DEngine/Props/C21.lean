import DEngine.Lemmas.Meta
/-!
# C21 — Saved term and vote are never lost or corrupted

Model: `DEngine.MetaStore` (bincode codec of `HardState`; `FileMetaStore::save_to_file` as it is now — temp file,
`sync_all`, `rename` over `hard_state.bin`, directory fsync —, the load path, the RocksDB meta store as a WAL) over the
file-system model `DEngine.Fs`. Tied to the code by the `meta` family: the real stores are run with crash-point
callbacks between their file operations, every real directory image (and every torn temp-file prefix, and the strace'd
system-call sequence) is loaded with the real load path and compared with this model.

History: until /repo ae820a7 `save_to_file` truncated `hard_state.bin` in place (`File::create` + `write_all`, no
fsync); the old-or-new statement was false (F20: a crash between truncate and write loads as "no state" — witness
`corpus/meta/f20.case`, kept as a regression case). With the fix the property holds at full strength:

* `meta_old_or_new` — from any directory whose `hard_state.bin` is clean (every completed save leaves it so:
  `save_clean`), every crash point of `save(new)` (op boundaries and every torn write of the temp file), process crash
  AND power loss: the image loads as the previously saved value or as the new one;
* `meta_old_or_new_history` — the same along every history of saves on a fresh directory;
* `meta_old_or_new_any_start` — process crash from an arbitrary directory state (e.g. the leftovers of an earlier
  crashed save);
* `meta_saved_durable` — once `save` has returned the new value survives a process crash and a power loss;
* RocksDB: `rocks_meta_old_or_new`, `rocks_meta_saved_survives_process_crash` (power loss under the hypothesis that the
  old value had been flushed).
-/
namespace DEngine.C21
open DEngine.Fs DEngine.MetaStore

theorem load_map_enc (old : Option HS) : load (old.map enc) = old := by
  cases old <;> simp [load, dec_enc]

/-- Encodings are prefix-free. -/
theorem enc_prefix_eq {a b : HS} (h : enc a <+: enc b) : a = b := by
  rcases dec_prefix b (enc a) h with h0 | h1
  · rw [dec_enc] at h0; cases h0
  · rw [dec_enc] at h1; injection h1

/-! ## File meta store -/

/-- The `hard_state.bin` states a save goes through: untouched until the rename, then the renamed (content durable,
    name not yet), then clean again. -/
def renamedMain (m : File) (new : HS) : File :=
  { vol := some (enc new), dur := m.dur, hist := m.hist ++ [m.vol] }

theorem crash_main (d : MetaDir) (new : HS) (pt : Pt) (s : MetaDir)
    (hs : (pt, s) ∈ dirCrashPts d (saveOps new)) :
    s.main = d.main ∨ s.main = renamedMain d.main new ∨ s.main = File.synced (some (enc new)) := by
  simp only [dirCrashPts, dirCrashPtsFrom, saveOps, List.mem_cons, List.mem_append, Prod.mk.injEq,
    List.nil_append, List.mem_nil_iff, or_false] at hs
  rcases hs with ⟨_, rfl⟩ | ⟨_, rfl⟩ | hs | ⟨_, rfl⟩ | ⟨_, rfl⟩ | ⟨_, rfl⟩ | ⟨_, rfl⟩ | ⟨_, rfl⟩
  · exact Or.inl rfl
  · exact Or.inl rfl
  · simp only [tornDirs, List.mem_map, List.mem_range, Prod.mk.injEq] at hs
    obtain ⟨j, _, _, rfl⟩ := hs
    exact Or.inl rfl
  · exact Or.inl rfl
  · exact Or.inl rfl
  · exact Or.inl rfl
  · right; left
    simp [MetaDir.step, File.step, File.renamedOver, File.isSynced, File.push, File.content, renamedMain]
  · right; right
    simp [MetaDir.step, File.step, File.renamedOver, File.isSynced, File.push, File.content]

theorem images_synced (b : Option Bytes) (sem : Sem) : ∀ img ∈ (File.synced b).images sem, img = b := by
  intro img h
  cases sem with
  | process => simpa [File.images, File.synced] using h
  | power =>
    cases b with
    | none =>
      simp [File.images, File.synced, File.versions, pairs, between] at h
      exact h
    | some x =>
      simp [File.images, File.synced, File.versions, pairs, between] at h
      exact h

theorem between_enc (o : Option HS) (new : HS) :
    ∀ img ∈ between (o.map enc) (some (enc new)), img = o.map enc ∨ img = some (enc new) := by
  intro img h
  cases o with
  | none => simpa [between] using h
  | some a =>
    simp only [Option.map_some, between] at h
    split at h
    · rename_i hp
      have hab : a = new := enc_prefix_eq (List.isPrefixOf_iff_prefix.mp hp)
      subst hab
      simp at h
      exact Or.inr h
    · simpa using h

theorem images_renamed (o : Option HS) (new : HS) (sem : Sem) :
    ∀ img ∈ (renamedMain (File.synced (o.map enc)) new).images sem, img = o.map enc ∨ img = some (enc new) := by
  intro img h
  cases sem with
  | process =>
    simp [File.images, renamedMain] at h
    exact Or.inr h
  | power =>
    simp only [File.images, renamedMain, File.synced, File.versions, List.nil_append, List.cons_append,
      pairs, List.mem_append, List.mem_cons, List.mem_nil_iff, or_false, List.flatMap_cons, List.flatMap_nil,
      List.append_nil] at h
    rcases h with h | h | h | h | h
    · exact Or.inl h
    · exact Or.inl h
    · exact Or.inr h
    · -- between o o
      have := images_synced (o.map enc) .power img (by
        simp only [File.images, File.synced, File.versions, List.nil_append, pairs, List.flatMap_cons,
          List.flatMap_nil, List.append_nil, List.mem_append]
        exact Or.inr h)
      exact Or.inl this
    · exact between_enc o new img h

/-- **Old-or-new, full strength**: clean directory holding `old`, any crash point of `save(new)` (incl. torn temp
    writes), both crash semantics. -/
theorem meta_old_or_new (d : MetaDir) (old : Option HS) (new : HS) (hd : d.main = File.synced (old.map enc))
    (sem : Sem) (pt : Pt) (s : MetaDir) (hs : (pt, s) ∈ dirCrashPts d (saveOps new)) :
    ∀ img ∈ s.main.images sem, load img = old ∨ load img = some new := by
  intro img himg
  have key : img = old.map enc ∨ img = some (enc new) := by
    rcases crash_main d new pt s hs with h | h | h
    · rw [h, hd] at himg; exact Or.inl (images_synced _ sem img himg)
    · rw [h, hd] at himg; exact images_renamed old new sem img himg
    · rw [h] at himg; exact Or.inr (images_synced _ sem img himg)
  rcases key with rfl | rfl
  · exact Or.inl (load_map_enc old)
  · exact Or.inr (by simp [load, dec_enc])

/-- A completed save leaves `hard_state.bin` clean, whatever the directory looked like before. -/
theorem save_clean (d : MetaDir) (new : HS) : (save d new).main = File.synced (some (enc new)) := by
  simp [save, MetaDir.run, saveOps, MetaDir.step, File.step, File.renamedOver, File.isSynced, File.push, File.content]

theorem runSaves_clean (hs : List HS) : ∀ (d : MetaDir) (o : Option HS), d.main = File.synced (o.map enc) →
    (runSaves d hs).main = File.synced ((if hs = [] then o else hs.getLast?).map enc) := by
  induction hs with
  | nil => intro d o h; simpa [runSaves] using h
  | cons h rest ih =>
    intro d o _
    have := ih (save d h) (some h) (by simp [save_clean])
    simp only [runSaves, List.foldl_cons] at this ⊢
    rw [this]
    cases rest with
    | nil => simp
    | cons r rs => simp [List.getLast?_cons_cons]

/-- **Old-or-new along every history** of saves on a fresh directory. -/
theorem meta_old_or_new_history (hist : List HS) (new : HS) (sem : Sem) (pt : Pt) (s : MetaDir)
    (hs : (pt, s) ∈ dirCrashPts (runSaves MetaDir.fresh hist) (saveOps new)) :
    ∀ img ∈ s.main.images sem, load img = hist.getLast? ∨ load img = some new := by
  have hclean := runSaves_clean hist MetaDir.fresh none rfl
  have hold : (if hist = [] then (none : Option HS) else hist.getLast?) = hist.getLast? := by
    cases hist <;> simp
  rw [hold] at hclean
  exact meta_old_or_new _ hist.getLast? new hclean sem pt s hs

/-- **Process crash from an arbitrary directory state** whose `hard_state.bin` currently shows `old` (e.g. the leftovers
    of an earlier crashed save: stale temp file, rename not yet durable). -/
theorem meta_old_or_new_any_start (d : MetaDir) (old : Option HS) (new : HS) (hv : d.main.vol = old.map enc)
    (pt : Pt) (s : MetaDir) (hs : (pt, s) ∈ dirCrashPts d (saveOps new)) :
    ∀ img ∈ s.main.images .process, load img = old ∨ load img = some new := by
  intro img himg
  simp only [File.images, List.mem_singleton] at himg
  rcases crash_main d new pt s hs with h | h | h
  · rw [himg, h, hv]; exact Or.inl (load_map_enc old)
  · rw [himg, h]; exact Or.inr (by simp [renamedMain, load, dec_enc])
  · rw [himg, h]; exact Or.inr (by simp [File.synced, load, dec_enc])

/-- **Once `save` has returned, the new value survives a process crash and a power loss** — from any directory. -/
theorem meta_saved_durable (d : MetaDir) (new : HS) (sem : Sem) :
    ∀ img ∈ (save d new).main.images sem, load img = some new := by
  intro img h
  rw [save_clean] at h
  rw [images_synced _ sem img h]
  simp [load, dec_enc]

/-- Non-vacuity: right after the rename the durable image may still be the old value while the volatile one is
    already the new one — both are possible power-loss images of that crash point. -/
example : some (enc ⟨1, none⟩) ∈ (renamedMain (File.synced (some (enc ⟨1, none⟩))) ⟨2, none⟩).images .power ∧
    some (enc ⟨2, none⟩) ∈ (renamedMain (File.synced (some (enc ⟨1, none⟩))) ⟨2, none⟩).images .power := by
  simp [renamedMain, File.synced, File.images, File.versions]

/-! ## RocksDB meta store -/

/-- **Old-or-new for the RocksDB meta store**: crash before or after the `put_cf`, process crash — or power loss
    provided the old value was made durable (`flush_wal(true)`) — loads as the old or the new value. -/
theorem rocks_meta_old_or_new (r : Rocks) (new : HS) (sem : Sem)
    (hd : sem = .power → r.durable = r.recs.length) :
    ∀ s ∈ [r, r.put new], ∀ img ∈ s.images sem,
      Rocks.loadRecs img = Rocks.loadRecs r.recs ∨ Rocks.loadRecs img = some new := by
  intro s hs img himg
  cases sem with
  | process =>
    simp only [List.mem_cons, List.mem_nil_iff, or_false] at hs
    rcases hs with rfl | rfl
    · simp [Rocks.images] at himg; simp [himg]
    · simp [Rocks.images, Rocks.put] at himg; simp [himg, Rocks.loadRecs]
  | power =>
    have hd := hd rfl
    simp only [List.mem_cons, List.mem_nil_iff, or_false] at hs
    rcases hs with rfl | rfl
    · simp only [Rocks.images, List.mem_map, List.mem_range] at himg
      obtain ⟨k, hk, rfl⟩ := himg
      have : k = 0 := by omega
      simp [this, hd]
    · simp only [Rocks.images, Rocks.put, List.mem_map, List.mem_range, List.length_append,
        List.length_singleton] at himg
      obtain ⟨k, hk, rfl⟩ := himg
      have hk' : k = 0 ∨ k = 1 := by omega
      rcases hk' with rfl | rfl
      · left; simp [hd]
      · right
        have : List.take (r.recs.length + 1) (r.recs ++ [new]) = r.recs ++ [new] :=
          List.take_of_length_le (by simp)
        simp [hd, this, Rocks.loadRecs]

theorem rocks_meta_saved_survives_process_crash (r : Rocks) (new : HS) :
    ∀ img ∈ (r.put new).images .process, Rocks.loadRecs img = some new := by
  intro img h
  simp [Rocks.images, Rocks.put] at h
  simp [h, Rocks.loadRecs]

example : ∃ r : Rocks, r.durable = r.recs.length ∧ Rocks.loadRecs r.recs = some ⟨1, none⟩ :=
  ⟨⟨[⟨1, none⟩], 1⟩, rfl, rfl⟩

end DEngine.C21
