import DEngine.Lemmas.Meta
/-!
# C21 — Saved term and vote are never lost or corrupted

Model: `DEngine.MetaStore` (bincode codec of `HardState`, the file operations of `FileMetaStore::save_to_file`, the
load path, the RocksDB meta store as a WAL) over the file-system model `DEngine.Fs`. Tied to the code by the `meta`
family: the real stores are run with crash-point callbacks between their file operations, every real image (and every
torn prefix, and the strace'd system-call sequence) is loaded with the real load path and compared with this model.

Result for the **File** meta store as it is: the full statement `MetaOldOrNewStatement` is *false* (F20):
`File::create` truncates `hard_state.bin` before the new bytes are written, so a crash in that window loads as
"no state". We prove the negation from the witness, the exact characterisation of the window
(`meta_old_or_new_partial`: outside the window old-or-new holds, inside it the state is always *missing*), that a
saved value survives a process crash (`meta_saved_survives_process_crash`), and that under *both* crash semantics and
for every history of saves a crash image never decodes to a state that was not saved (`meta_never_fabricated`).
For the **RocksDB** meta store the old-or-new statement holds (`rocks_meta_old_or_new`), for power loss under the
hypothesis that the old value had been flushed (`MetaStore::flush` = `flush_wal(true)`).
-/
namespace DEngine.C21
open DEngine.Fs DEngine.MetaStore

/-! ## File meta store -/

/-- The property at full strength for the File store: start from a file holding `old` (even fully synced), run
    `save(new)`, crash at any crash point under any semantics: the image loads as `old` or as `new`. -/
def MetaOldOrNewStatement : Prop :=
  ∀ (old : Option HS) (new : HS) (sem : Sem) (pt : Pt) (s : File),
    (pt, s) ∈ crashPts (File.synced (old.map enc)) (saveOps new) →
    ∀ img ∈ s.images sem, load img = old ∨ load img = some new

/-- The crash points of one save, spelled out. -/
theorem crashPts_save (f : File) (new : HS) :
    crashPts f (saveOps new) =
      (Pt.at 0, f) :: (Pt.at 1, f.push (some [])) ::
        (tornStates 1 (f.push (some [])) (enc new) ++
          [(Pt.at 2, (f.push (some [])).push (some (enc new))), (Pt.at 3, (f.push (some [])).push (some (enc new)))]) := by
  simp [crashPts, crashPtsFrom, saveOps, File.step, File.content, File.push]

/-- **Negation of the full statement (F20)**: old = (term 1, no vote) saved and synced, new = (term 2, no vote),
    process crash right after `File::create`: the image is the empty file, which loads as "no state". -/
theorem meta_old_or_new_fails : ¬ MetaOldOrNewStatement := by
  intro h
  have := h (some ⟨1, none⟩) ⟨2, none⟩ .process (.at 1)
    ((File.synced (some (enc ⟨1, none⟩))).push (some []))
    (by rw [crashPts_save]; simp) (some []) (by simp [File.images, File.push])
  simp [load, dec] at this

theorem load_map_enc (old : Option HS) : load (old.map enc) = old := by
  cases old <;> simp [load, dec_enc]

/-- **Partial theorem, with the excluded trigger exact.** For every file state holding `old`, every crash point of
    `save(new)` and the process-crash image: outside the window (after `File::create` returned, before `write_all`
    completed) the image loads as `old` or `new`; inside the window it *always* loads as "no state". -/
theorem meta_old_or_new_partial (f : File) (old : Option HS) (new : HS) (hf : f.vol = old.map enc)
    (pt : Pt) (s : File) (hs : (pt, s) ∈ crashPts f (saveOps new)) :
    (inWindow pt = false → load s.vol = old ∨ load s.vol = some new) ∧
    (inWindow pt = true → load s.vol = none) := by
  rw [crashPts_save] at hs
  simp only [List.mem_cons, List.mem_append, Prod.mk.injEq, List.mem_nil_iff, or_false] at hs
  rcases hs with ⟨rfl, rfl⟩ | ⟨rfl, rfl⟩ | hs | ⟨rfl, rfl⟩ | ⟨rfl, rfl⟩
  · simp [inWindow, hf, load_map_enc]
  · simp [inWindow, File.push, load, dec_nil]
  · simp only [tornStates, List.mem_map, List.mem_range, Prod.mk.injEq] at hs
    obtain ⟨j, hj, rfl, rfl⟩ := hs
    have : dec ((enc new).take j) = none :=
      dec_strict_prefix new _ (List.take_prefix _ _) (by simp [List.length_take]; omega)
    simp [inWindow, File.step, File.push, File.content, load, this]
  · simp [inWindow, File.push, load, dec_enc]
  · simp [inWindow, File.push, load, dec_enc]

/-- Non-vacuity: a crash point inside and one outside the window exist for a concrete save. -/
example : (Pt.at 1, (File.synced (some (enc ⟨1, none⟩))).push (some [])) ∈
    crashPts (File.synced (some (enc ⟨1, none⟩))) (saveOps ⟨2, none⟩) ∧ inWindow (Pt.at 1) = true ∧
    inWindow (Pt.at 2) = false := by
  rw [crashPts_save]; simp [inWindow]

/-- **Once `save` has returned, the new value survives a process crash** (whatever the file held before). -/
theorem meta_saved_survives_process_crash (f : File) (new : HS) :
    ∀ img ∈ (save f new).images .process, load img = some new := by
  intro img h
  simp [save, File.run, saveOps, File.step, File.push, File.images, File.content] at h
  simp [h, load, dec_enc]

example : load ((save File.absent ⟨7, some ⟨3, 7, true⟩⟩).vol) = some ⟨7, some ⟨3, 7, true⟩⟩ := by
  simpa [File.images] using meta_saved_survives_process_crash File.absent ⟨7, some ⟨3, 7, true⟩⟩

/-! ### Both crash semantics, every history: an image never decodes to a state that was not saved -/

/-- A version is harmless w.r.t. the saved states `H`: absent, empty, or a prefix of the encoding of a saved state. -/
def Good (H : List HS) (v : Option Bytes) : Prop :=
  v = none ∨ ∃ p, v = some p ∧ (p = [] ∨ ∃ h ∈ H, p <+: enc h)

theorem good_load {H : List HS} {v : Option Bytes} (g : Good H v) :
    load v = none ∨ ∃ h ∈ H, load v = some h := by
  rcases g with rfl | ⟨p, rfl, rfl | ⟨h, hH, hp⟩⟩
  · simp [load]
  · simp [load, dec_nil]
  · rcases dec_prefix h p hp with h0 | h1
    · exact Or.inl (by simp [load, h0])
    · exact Or.inr ⟨h, hH, by simp [load, h1]⟩

theorem good_prefix {H : List HS} (y p : Bytes) (g : Good H (some y)) (hp : p <+: y) : Good H (some p) := by
  rcases g with h | ⟨q, hq, rfl | ⟨h, hH, hq'⟩⟩
  · simp at h
  · injection hq with hq; subst hq
    exact Or.inr ⟨p, rfl, Or.inl (List.prefix_nil.mp hp)⟩
  · injection hq with hq; subst hq
    exact Or.inr ⟨p, rfl, Or.inr ⟨h, hH, hp.trans hq'⟩⟩

theorem good_mono {H H' : List HS} (hsub : ∀ h ∈ H, h ∈ H') {v : Option Bytes} (g : Good H v) : Good H' v := by
  rcases g with h | ⟨p, hp, h | ⟨h, hH, hq⟩⟩
  · exact Or.inl h
  · exact Or.inr ⟨p, hp, Or.inl h⟩
  · exact Or.inr ⟨p, hp, Or.inr ⟨h, hsub h hH, hq⟩⟩

/-- Invariant of the File meta store: every version since the last sync is harmless. -/
def Inv (H : List HS) (f : File) : Prop := ∀ v ∈ f.versions, Good H v

theorem inv_crashPts (H : List HS) (f : File) (h : HS) (hi : Inv H f) (pt : Pt) (s : File)
    (hs : (pt, s) ∈ crashPts f (saveOps h)) : Inv (H ++ [h]) s := by
  have hi' : Inv (H ++ [h]) f := fun v hv => good_mono (by simp +contextual) (hi v hv)
  have gnil : Good (H ++ [h]) (some []) := Or.inr ⟨[], rfl, Or.inl rfl⟩
  have gpre : ∀ j, Good (H ++ [h]) (some ((enc h).take j)) := fun j =>
    Or.inr ⟨_, rfl, Or.inr ⟨h, by simp, List.take_prefix _ _⟩⟩
  have gfull : Good (H ++ [h]) (some (enc h)) := Or.inr ⟨_, rfl, Or.inr ⟨h, by simp, List.prefix_refl _⟩⟩
  rw [crashPts_save] at hs
  simp only [List.mem_cons, List.mem_append, Prod.mk.injEq, List.mem_nil_iff, or_false] at hs
  rcases hs with ⟨rfl, rfl⟩ | ⟨rfl, rfl⟩ | hs | ⟨rfl, rfl⟩ | ⟨rfl, rfl⟩
  · exact hi'
  · intro v hv
    simp only [versions_push, List.mem_append, List.mem_singleton] at hv
    rcases hv with hv | rfl
    · exact hi' v hv
    · exact gnil
  · simp only [tornStates, List.mem_map, List.mem_range, Prod.mk.injEq] at hs
    obtain ⟨j, _, rfl, rfl⟩ := hs
    intro v hv
    simp only [File.step, versions_push, List.mem_append, List.mem_singleton] at hv
    rcases hv with (hv | rfl) | rfl
    · exact hi' v hv
    · exact gnil
    · simpa [File.content, File.push] using gpre j
  · intro v hv
    simp only [versions_push, List.mem_append, List.mem_singleton] at hv
    rcases hv with (hv | rfl) | rfl
    · exact hi' v hv
    · exact gnil
    · exact gfull
  · intro v hv
    simp only [versions_push, List.mem_append, List.mem_singleton] at hv
    rcases hv with (hv | rfl) | rfl
    · exact hi' v hv
    · exact gnil
    · exact gfull

theorem save_mem_crashPts (f : File) (h : HS) : (Pt.at 3, save f h) ∈ crashPts f (saveOps h) := by
  rw [crashPts_save]
  simp [save, File.run, saveOps, File.step, File.push, File.content]

theorem inv_runSaves (hs : List HS) : ∀ (H : List HS) (f : File), Inv H f → Inv (H ++ hs) (runSaves f hs) := by
  induction hs with
  | nil => intro H f hi; simpa [runSaves] using hi
  | cons h rest ih =>
    intro H f hi
    have h1 : Inv (H ++ [h]) (save f h) := inv_crashPts H f h hi _ _ (save_mem_crashPts f h)
    have := ih (H ++ [h]) (save f h) h1
    simpa [runSaves, List.append_assoc] using this

theorem inv_absent : Inv [] File.absent := by
  intro v hv
  simp [File.versions, File.absent] at hv
  exact Or.inl hv

/-- **No fabricated state, full strength**: after any history of saves on a fresh store, a crash at any crash point of
    a further `save(new)` — process crash or power loss (no fsync is ever issued, so every unsynced version and every
    torn append is a possible image) — loads as "no state" or as one of the states that were actually saved. -/
theorem meta_never_fabricated (hist : List HS) (new : HS) (sem : Sem) (pt : Pt) (s : File)
    (hs : (pt, s) ∈ crashPts (runSaves File.absent hist) (saveOps new)) :
    ∀ img ∈ s.images sem, load img = none ∨ ∃ h ∈ hist ++ [new], load img = some h := by
  have hinv : Inv (hist ++ [new]) s :=
    inv_crashPts hist _ new (by simpa using inv_runSaves hist [] File.absent inv_absent) pt s hs
  intro img himg
  exact good_load (images_of_versions (Good (hist ++ [new])) s hinv (fun y p => good_prefix y p) sem img himg)

/-- Non-vacuity + the power-loss half of F20: after two completed saves a power-loss image may be the absent file. -/
example : none ∈ (runSaves File.absent [⟨1, none⟩, ⟨2, none⟩]).images .power := by
  simp [runSaves, save, File.run, saveOps, File.step, File.push, File.images, File.versions, File.absent]

/-! ## RocksDB meta store -/

/-- **Old-or-new for the RocksDB meta store**: crash before or after the `put_cf`, process crash — or power loss
    provided the old value was made durable (`flush_wal(true)`) — loads as the old or the new value. -/
theorem rocks_meta_old_or_new (r : Rocks) (new : HS) (sem : Sem)
    (hd : sem = .power → r.durable = r.recs.length) :
    ∀ s ∈ [r, r.put new], ∀ img ∈ s.images sem,
      Rocks.loadRecs img = Rocks.loadRecs r.recs ∨ Rocks.loadRecs img = some new := by
  intro s hs img himg
  cases sem with
  | process =>
    simp only [List.mem_cons, List.mem_nil_iff, or_false] at hs
    rcases hs with rfl | rfl
    · simp [Rocks.images] at himg; simp [himg]
    · simp [Rocks.images, Rocks.put] at himg; simp [himg, Rocks.loadRecs]
  | power =>
    have hd := hd rfl
    simp only [List.mem_cons, List.mem_nil_iff, or_false] at hs
    rcases hs with rfl | rfl
    · simp only [Rocks.images, List.mem_map, List.mem_range] at himg
      obtain ⟨k, hk, rfl⟩ := himg
      have : k = 0 := by omega
      simp [this, hd]
    · simp only [Rocks.images, Rocks.put, List.mem_map, List.mem_range, List.length_append,
        List.length_singleton] at himg
      obtain ⟨k, hk, rfl⟩ := himg
      have hk' : k = 0 ∨ k = 1 := by omega
      rcases hk' with rfl | rfl
      · left; simp [hd]
      · right
        have : List.take (r.recs.length + 1) (r.recs ++ [new]) = r.recs ++ [new] :=
          List.take_of_length_le (by simp)
        simp [hd, this, Rocks.loadRecs]

theorem rocks_meta_saved_survives_process_crash (r : Rocks) (new : HS) :
    ∀ img ∈ (r.put new).images .process, Rocks.loadRecs img = some new := by
  intro img h
  simp [Rocks.images, Rocks.put] at h
  simp [h, Rocks.loadRecs]

example : ∃ r : Rocks, r.durable = r.recs.length ∧ Rocks.loadRecs r.recs = some ⟨1, none⟩ :=
  ⟨⟨[⟨1, none⟩], 1⟩, rfl, rfl⟩

end DEngine.C21
