import DEngine.Lemmas.Commit
/-!
# C09 — Leaders commit only current-term entries backed by a voter majority

Model: `DEngine.Commit` (tied to `BufferedRaftLog::calculate_majority_matched_index`,
`LeaderState::{calculate_new_commit_index, update_match_index, update_next_index, update_peer_index,
handle_append_result, handle_log_flushed, handle_membership_applied}` by the `commit` correspondence).

* `majority_index_sound` — the arithmetic of `calculate_majority_matched_index`, for **every** match
  vector of every length: a returned `N` is an index of the leader's log, carries the current term,
  is `≥` the old commit index and is reached by a strict majority of the vector *it was given*
  (own last index included).
* `learners_never_counted`, `learner_ack_never_commits` — entries of learners / strangers in
  `match_index` never influence the result; their acknowledgements never move the commit index.
* `stale_ack_harmless` — under arbitrary operation sequences (out-of-order success / conflict acks,
  stale terms, flushes, membership flips) `match_index` only grows, `next_index ≥ match_index + 1`
  is invariant, the commit index only grows.
* `single_voter_commit` — the flush path of a single-voter leader commits exactly its last index.
* `commit_quorum` (= `CommitQuorumStatement`, the property as stated) — whenever the leader computes a
  new commit index `N`, a strict majority of the voters of its cached configuration, itself
  included, is known to hold `N` (voters that never acknowledged count with match index 0).
* **Defect F30 (fixed by /repo 6ed8b1f).** Before the fix the vector handed to the median was built
  from the *keys present* in `match_index`, and `update_match_index(peer, 0)` stores nothing, so a
  voter that had not yet acknowledged anything was not in the vector at all: `f30_regression` keeps
  the old computation (`calcNewCommitSparse`) and its witness (3 voters, no acknowledgement, the
  leader's own flush commits) next to the proof that the current computation refuses it.
-/
namespace DEngine.C09
open DEngine.Commit DEngine.Memb

/-- **Median soundness, all vectors, all lengths.** -/
theorem majority_index_sound (term commit : Nat) (ms log : List Nat) (N : Nat)
    (h : calcMajority term commit ms log = some N) :
    1 ≤ N ∧ N ≤ log.length ∧ ms.length + 1 < 2 * countGE N (log.length :: ms) ∧
      entryTerm log N = some term ∧ commit ≤ N := by
  have hmed := median_majority (ms ++ [log.length]) (by simp)
  simp only at hmed
  have hperm : (ms ++ [log.length]).Perm (log.length :: ms) := List.perm_append_singleton _ _
  rw [countGE_perm hperm] at hmed
  unfold calcMajority at h
  simp only at h
  split at h
  · contradiction
  · rename_i hc
    split at h
    · rename_i t ht
      split at h
      · rename_i htt
        injection h with h
        have htt' : t = term := by simpa using htt
        subst htt'
        rw [h] at ht hmed hc
        have hb := entryTerm_some ht
        refine ⟨hb.1, hb.2, ?_, ht, by omega⟩
        simpa using hmed
      · contradiction
    · contradiction

/-- non-vacuity: 5 voters, matches 3,3,1,0 and own last 3: index 3 commits with 3 of 5 -/
example : calcMajority 2 1 [3, 3, 1, 0] [1, 2, 2] = some 3 := by decide
/-- an old-term entry held by everybody does not commit -/
example : calcMajority 3 0 [2, 2] [1, 1] = none := by decide

/-- `calculate_new_commit_index` returns only indexes strictly above the old commit index that pass
    `majority_index_sound` on the voter vector. -/
theorem new_commit_sound (s : Leader) (N : Nat) (h : calcNewCommit s = some N) :
    s.commit < N ∧ N ≤ s.log.length ∧ entryTerm s.log N = some s.term ∧
      (voterMatches s).length + 1 < 2 * countGE N (s.log.length :: voterMatches s) := by
  unfold calcNewCommit at h
  split at h
  · rename_i n hn
    split at h
    · injection h with h; subst h
      have := majority_index_sound _ _ _ _ _ hn
      exact ⟨by omega, this.2.1, this.2.2.2.1, this.2.2.1⟩
    · contradiction
  · contradiction

/-! ### learners -/

theorem isVoterTarget_iff (targets : List Node) (id : Nat) :
    isVoterTarget targets id = true ↔ id ∈ voterPeers targets := by
  unfold isVoterTarget voterPeers
  rw [List.any_eq_true, List.mem_map]
  constructor
  · rintro ⟨n, hn, hp⟩
    simp at hp
    exact ⟨n, List.mem_filter.mpr ⟨hn, by simpa using hp.2⟩, hp.1⟩
  · rintro ⟨n, hn, hid⟩
    have := List.mem_filter.mp hn
    exact ⟨n, this.1, by simp [hid]; simpa using this.2⟩

theorem voterMatches_insert_nonvoter (s : Leader) (id m : Nat) (h : isVoterTarget s.targets id = false) :
    voterMatches { s with matchIdx := minsert s.matchIdx id m } = voterMatches s := by
  unfold voterMatches
  simp only
  apply List.map_congr_left
  intro k hk
  rw [mgetD_minsert]
  have hne : k ≠ id := by
    intro hkid
    subst hkid
    have := (isVoterTarget_iff s.targets k).mpr hk
    rw [h] at this; cases this
  simp [hne]

/-- **Learners (and strangers) are never counted**: whatever is stored in `match_index` under an id
    that is not a voter of the cached configuration, the commit computation does not see it. -/
theorem learners_never_counted (s : Leader) (id m : Nat) (h : isVoterTarget s.targets id = false) :
    calcNewCommit { s with matchIdx := minsert s.matchIdx id m } = calcNewCommit s := by
  unfold calcNewCommit
  rw [voterMatches_insert_nonvoter s id m h]

/-- a learner: node 4 of the configuration has role Learner; its match index 9 changes nothing -/
def exLearner : Leader :=
  { term := 1, commit := 0, log := [1], view := { nodes := [] },
    targets := [⟨2, 1, 3⟩, ⟨3, 1, 3⟩, ⟨4, 4, 1⟩], matchIdx := [(2, 0), (3, 0)] }
example : calcNewCommit { exLearner with matchIdx := minsert exLearner.matchIdx 4 9 } = none ∧
    isVoterTarget exLearner.targets 4 = false := by decide

/-! ### index bookkeeping under arbitrary acknowledgement sequences -/

/-- `next_index ≥ match_index + 1` wherever a next index is stored -/
def NextFloor (nx mt : IdxMap) : Prop := ∀ id n, mget nx id = some n → mgetD mt id + 1 ≤ n

def MatchLe (a b : IdxMap) : Prop := ∀ id, mgetD a id ≤ mgetD b id

theorem MatchLe.refl (a : IdxMap) : MatchLe a a := fun _ => Nat.le_refl _
theorem MatchLe.trans {a b c : IdxMap} (h1 : MatchLe a b) (h2 : MatchLe b c) : MatchLe a c :=
  fun id => Nat.le_trans (h1 id) (h2 id)

theorem updateNext_spec (s : Leader) (id x : Nat) :
    (updateNext s id x).matchIdx = s.matchIdx ∧
    (∀ id', mget (updateNext s id x).nextIdx id' =
      if id' = id then some (max x (mgetD s.matchIdx id + 1)) else mget s.nextIdx id') := by
  refine ⟨rfl, ?_⟩
  intro id'
  simp only [updateNext]
  rw [mget_minsert]

theorem updateNext_floor (s : Leader) (id x : Nat) (h : NextFloor s.nextIdx s.matchIdx) :
    NextFloor (updateNext s id x).nextIdx (updateNext s id x).matchIdx := by
  intro id' n hn
  have hs := updateNext_spec s id x
  rw [hs.1]
  rw [hs.2] at hn
  by_cases hid : id' = id
  · subst hid
    simp at hn
    omega
  · simp [hid] at hn
    exact h id' n hn

theorem updateMatch_spec (s : Leader) (id m : Nat) :
    (updateMatch s id m).nextIdx = s.nextIdx ∧
    (∀ id', mgetD (updateMatch s id m).matchIdx id' =
      if id' = id then max m (mgetD s.matchIdx id) else mgetD s.matchIdx id') := by
  unfold updateMatch
  split
  · rename_i hgt
    refine ⟨rfl, ?_⟩
    intro id'
    simp only
    rw [mgetD_minsert]
    by_cases hid : id' = id
    · simp [hid]; omega
    · simp [hid]
  · rename_i hle
    refine ⟨rfl, ?_⟩
    intro id'
    by_cases hid : id' = id
    · subst hid; simp; omega
    · simp [hid]

theorem updateMatch_le (s : Leader) (id m : Nat) : MatchLe s.matchIdx (updateMatch s id m).matchIdx := by
  intro id'
  rw [(updateMatch_spec s id m).2]
  by_cases hid : id' = id
  · subst hid; simp; omega
  · simp [hid]

theorem updatePeerIndex_fields (s : Leader) (id : Nat) (u : PeerUpdate) :
    let s' := updatePeerIndex s id u
    s'.term = s.term ∧ s'.commit = s.commit ∧ s'.log = s.log ∧ s'.view = s.view ∧ s'.targets = s.targets ∧
      s'.pending = s.pending ∧ s'.catchup = s.catchup ∧ s'.singleVoter = s.singleVoter ∧ s'.self = s.self := by
  simp only [updatePeerIndex]
  cases u.matchIndex <;> cases u.success <;> simp [updateNext, updateMatch] <;> split <;> simp

/-- One `update_peer_index`: `match_index` only grows and the floor invariant is kept — also for a
    stale success (`m` below the stored match) and for a conflict hint below the stored match. -/
theorem updatePeerIndex_inv (s : Leader) (id : Nat) (u : PeerUpdate)
    (hu : ∀ m, u.matchIndex = some m → u.success = true ∧ m + 1 ≤ u.nextIndex)
    (h : NextFloor s.nextIdx s.matchIdx) :
    let s' := updatePeerIndex s id u
    NextFloor s'.nextIdx s'.matchIdx ∧ MatchLe s.matchIdx s'.matchIdx := by
  intro s'
  -- the state after the next-index update
  let s1 := if u.success then updateNext s id (max u.nextIndex ((mget s.nextIdx id).getD 1))
            else updateNext s id u.nextIndex
  have hs1m : s1.matchIdx = s.matchIdx := by
    simp only [s1]; split <;> rfl
  have hs1f : NextFloor s1.nextIdx s1.matchIdx := by
    simp only [s1]; split <;> exact updateNext_floor _ _ _ h
  have hs' : s' = match u.matchIndex with
      | some m => updateMatch s1 id m
      | none => s1 := rfl
  cases hm : u.matchIndex with
  | none =>
    rw [hm] at hs'
    simp only at hs'
    rw [hs']
    exact ⟨hs1f, by rw [hs1m]; exact MatchLe.refl _⟩
  | some m =>
    rw [hm] at hs'
    simp only at hs'
    rw [hs']
    refine ⟨?_, by rw [← hs1m]; exact updateMatch_le s1 id m⟩
    intro id' n hn
    have hspec := updateMatch_spec s1 id m
    rw [hspec.1] at hn
    rw [hspec.2]
    by_cases hid : id' = id
    · subst hid
      simp
      have hold := hs1f id' n hn
      -- the stored next index is ≥ m + 1 when the update was a success
      by_cases hsucc : u.success = true
      · have hmn := (hu m hm).2
        have hnx : mget s1.nextIdx id' = some (max (max u.nextIndex ((mget s.nextIdx id').getD 1)) (mgetD s.matchIdx id' + 1)) := by
          simp only [s1, hsucc, if_true]
          rw [(updateNext_spec s id' _).2]; simp
        rw [hnx] at hn
        injection hn with hn
        omega
      · exact absurd (hu m hm).1 hsucc
    · simp [hid]
      exact hs1f id' n hn

theorem matchLe_updatePeerIndex (s : Leader) (id : Nat) (u : PeerUpdate) :
    MatchLe s.matchIdx (updatePeerIndex s id u).matchIdx := by
  simp only [updatePeerIndex]
  cases u.matchIndex with
  | none => simp only; split <;> exact MatchLe.refl _
  | some m =>
    simp only
    split
    · exact updateMatch_le (updateNext s id _) id m
    · exact updateMatch_le (updateNext s id _) id m

/-- what the bookkeeping theorems say about one transition -/
structure StepOk (s s' : Leader) : Prop where
  floor : NextFloor s.nextIdx s.matchIdx → NextFloor s'.nextIdx s'.matchIdx
  matchMono : MatchLe s.matchIdx s'.matchIdx
  commitMono : s.commit ≤ s'.commit

theorem StepOk.rfl' (s : Leader) : StepOk s s := ⟨id, MatchLe.refl _, Nat.le_refl _⟩

theorem StepOk.of_same_idx {s s' : Leader} (hm : s'.matchIdx = s.matchIdx) (hn : s'.nextIdx = s.nextIdx)
    (hc : s.commit ≤ s'.commit) : StepOk s s' :=
  ⟨by rw [hm, hn]; exact id, by rw [hm]; exact MatchLe.refl _, hc⟩

theorem learnerCheck_fields (s : Leader) :
    (learnerCheck s).1.matchIdx = s.matchIdx ∧ (learnerCheck s).1.nextIdx = s.nextIdx ∧
    (learnerCheck s).1.commit = s.commit ∧ (learnerCheck s).1.term = s.term ∧
    (learnerCheck s).1.log = s.log ∧ (learnerCheck s).1.targets = s.targets := by
  unfold learnerCheck
  simp only
  split <;> split <;> simp

theorem afterUpdate_ok (s : Leader) (peer : Nat) (u : PeerUpdate)
    (hu : ∀ m, u.matchIndex = some m → u.success = true ∧ m + 1 ≤ u.nextIndex) :
    StepOk s (afterUpdate s peer u).1 := by
  have hinv := updatePeerIndex_inv s peer u hu
  have hf := updatePeerIndex_fields s peer u
  simp only at hinv hf
  -- r2: state after the optional learner check
  let r2 := if !isVoterTarget s.targets peer then learnerCheck (updatePeerIndex s peer u)
            else (updatePeerIndex s peer u, [])
  have hr2 : r2.1.matchIdx = (updatePeerIndex s peer u).matchIdx ∧ r2.1.nextIdx = (updatePeerIndex s peer u).nextIdx ∧
      r2.1.commit = s.commit := by
    simp only [r2]
    split
    · have := learnerCheck_fields (updatePeerIndex s peer u)
      exact ⟨this.1, this.2.1, by rw [this.2.2.1, hf.2.1]⟩
    · exact ⟨rfl, rfl, hf.2.1⟩
  have hshape : (afterUpdate s peer u).1 = r2.1 ∨
      ∃ n, calcNewCommit r2.1 = some n ∧ (afterUpdate s peer u).1 = { r2.1 with commit := n } := by
    simp only [afterUpdate]
    split
    · split
      · rename_i n hn; exact Or.inr ⟨n, hn, rfl⟩
      · exact Or.inl rfl
    · exact Or.inl rfl
  rcases hshape with h | ⟨n, hn, h⟩
  · rw [h]
    exact ⟨fun hfl => by rw [hr2.1, hr2.2.1]; exact (hinv hfl).1,
           fun id => by rw [hr2.1]; exact (matchLe_updatePeerIndex s peer u) id,
           by rw [hr2.2.2]; exact Nat.le_refl _⟩
  · rw [h]
    have hs := new_commit_sound r2.1 n hn
    refine ⟨fun hfl => by simp only; rw [hr2.1, hr2.2.1]; exact (hinv hfl).1,
            fun id => by simp only; rw [hr2.1]; exact (matchLe_updatePeerIndex s peer u) id, ?_⟩
    simp only
    have := hs.1
    rw [hr2.2.2] at this
    omega

theorem handleAppendResult_ok (s : Leader) (peer t : Nat) (r : AckResult) :
    StepOk s (handleAppendResult s peer t r).1 := by
  unfold handleAppendResult
  split
  · exact StepOk.rfl' s
  · split
    · exact StepOk.of_same_idx rfl rfl (Nat.le_refl _)
    · cases r with
      | success m =>
        exact afterUpdate_ok s peer _ (by intro m' hm'; simp at hm'; subst hm'; exact ⟨rfl, Nat.le_refl _⟩)
      | conflict ct ci =>
        exact afterUpdate_ok s peer _ (by intro m' hm'; simp at hm')
      | higherTerm t' =>
        simp only
        split
        · exact StepOk.of_same_idx rfl rfl (Nat.le_refl _)
        · exact StepOk.rfl' s

theorem handleLogFlushed_ok (s : Leader) (d : Nat) (out : Leader × List String × String)
    (h : handleLogFlushed s d = some out) : StepOk s out.1 := by
  unfold handleLogFlushed at h
  split at h
  · split at h
    · contradiction
    · split at h
      · rename_i hgt
        injection h with h; subst h
        exact StepOk.of_same_idx rfl rfl (by simp only; omega)
      · injection h with h; subst h; exact StepOk.rfl' s
  · split at h
    · rename_i n hn
      injection h with h; subst h
      have := (new_commit_sound s n hn).1
      exact StepOk.of_same_idx rfl rfl (by simp only; omega)
    · injection h with h; subst h; exact StepOk.rfl' s

theorem updateMatch_zero (s : Leader) (id : Nat) : updateMatch s id 0 = s := by
  unfold updateMatch; simp

theorem initPeers_ok (ids : List Nat) : ∀ (s : Leader), StepOk s (initPeers s ids) ∧ (initPeers s ids).commit = s.commit := by
  induction ids with
  | nil => intro s; exact ⟨StepOk.rfl' s, rfl⟩
  | cons id rest ih =>
    intro s
    have hstep : initPeers s (id :: rest) = initPeers (updateNext s id (s.log.length + 1)) rest := by
      simp [initPeers, List.foldl_cons, updateMatch_zero]
    rw [hstep]
    have h1 := ih (updateNext s id (s.log.length + 1))
    refine ⟨⟨fun hfl => h1.1.floor (updateNext_floor s id _ hfl), ?_, ?_⟩, ?_⟩
    · exact h1.1.matchMono
    · have := h1.1.commitMono; simpa [updateNext] using this
    · rw [h1.2]; rfl

theorem handleChange_ok (s : Leader) (c : Change) : StepOk s (handleChange s c).1 := by
  unfold handleChange
  simp only
  split
  · exact StepOk.of_same_idx rfl rfl (Nat.le_refl _)
  · have h := initPeers_ok
      (((refreshMetadata { s with view := (applyChange s.view c).1 }).targets.filter
        fun n => !(s.targets.any fun o => o.id == n.id)).map (·.id))
      (refreshMetadata { s with view := (applyChange s.view c).1 })
    exact ⟨fun hfl => h.1.floor hfl, h.1.matchMono, by have := h.1.commitMono; simpa [refreshMetadata] using this⟩

theorem step_ok (s : Leader) (op : Op) (out : Leader × List String × String) (h : step s op = some out) :
    StepOk s out.1 := by
  cases op with
  | ack p t r => simp [step] at h; subst h; exact handleAppendResult_ok s p t r
  | flushed d => exact handleLogFlushed_ok s d out (by simpa [step] using h)
  | append n => simp [step] at h; subst h; exact StepOk.of_same_idx rfl rfl (Nat.le_refl _)
  | change c => simp [step] at h; subst h; exact handleChange_ok s c
  | bad => simp [step] at h; subst h; exact StepOk.rfl' s

/-- **Stale / out-of-order acknowledgements are harmless**: for *every* operation sequence,
    `match_index` never retreats, `next_index ≥ match_index + 1` stays invariant and the commit index
    never retreats. -/
theorem stale_ack_harmless (ops : List Op) : ∀ (s s' : Leader), run s ops = some s' →
    (NextFloor s.nextIdx s.matchIdx → NextFloor s'.nextIdx s'.matchIdx) ∧
    MatchLe s.matchIdx s'.matchIdx ∧ s.commit ≤ s'.commit := by
  induction ops with
  | nil => intro s s' h; simp [run] at h; subst h; exact ⟨id, MatchLe.refl _, Nat.le_refl _⟩
  | cons op rest ih =>
    intro s s' h
    simp only [run] at h
    split at h
    · contradiction
    · rename_i s1 ev tag hs
      have h1 := step_ok s op (s1, ev, tag) hs
      have h2 := ih s1 s' h
      exact ⟨fun hfl => h2.1 (h1.floor hfl), MatchLe.trans h1.matchMono h2.2.1, Nat.le_trans h1.commitMono h2.2.2⟩

/-- the invariant holds right after becoming leader -/
theorem initLeader_floor (term commit catchup : Nat) (log : List Nat) (nodes : List Node) :
    NextFloor (initLeader term commit catchup log nodes).nextIdx (initLeader term commit catchup log nodes).matchIdx := by
  have h := (initPeers_ok (nodes.map (·.id))
    { term := term, commit := 0, log := log, view := { nodes := nodes }, catchup := catchup }).1.floor
    (by intro id n hn; simp [mget] at hn)
  unfold initLeader
  simp only
  split <;> exact h

/-- non-vacuity: a stale success (match 1 after 3) and a conflict hint below the match -/
example : (run (initLeader 2 0 1 [1, 2, 2] [⟨1, 1, 3⟩, ⟨2, 1, 3⟩, ⟨3, 1, 3⟩])
    [.ack 2 2 (.success 3), .ack 2 2 (.success 1), .ack 2 2 (.conflict none (some 1))]).map
    (fun s => (mgetD s.matchIdx 2, mget s.nextIdx 2)) = some (3, some 4) := by decide

/-! ### learner acknowledgements -/

/-- **An acknowledgement of a peer that is not a voter of the cached configuration never moves the
    commit index** (success, conflict, any term, any match value). -/
theorem learner_ack_never_commits (s : Leader) (peer t : Nat) (r : AckResult)
    (h : isVoterTarget s.targets peer = false) : (handleAppendResult s peer t r).1.commit = s.commit := by
  have key : ∀ u, (afterUpdate s peer u).1.commit = s.commit := by
    intro u
    simp only [afterUpdate, h]
    simp
    have hf := updatePeerIndex_fields s peer u
    have hl := learnerCheck_fields (updatePeerIndex s peer u)
    rw [hl.2.2.1]; exact hf.2.1
  unfold handleAppendResult
  split
  · rfl
  · split
    · rfl
    · cases r with
      | success m => exact key _
      | conflict ct ci => exact key _
      | higherTerm t' => simp only; split <;> rfl

/-! ### single voter -/

/-- **Flush path of a single-voter leader**: the commit index moves exactly to the last log index,
    and only forward. -/
theorem single_voter_commit (s : Leader) (d : Nat) (out : Leader × List String × String)
    (hs : s.singleVoter = true) (h : handleLogFlushed s d = some out) :
    (out.1.commit = s.log.length ∧ s.commit < s.log.length) ∨ out.1 = s := by
  unfold handleLogFlushed at h
  rw [if_pos hs] at h
  split at h
  · contradiction
  · split at h
    · injection h with h; subst h; exact Or.inl ⟨rfl, by assumption⟩
    · injection h with h; subst h; exact Or.inr rfl

/-- the cached flag is exactly "no other node is Active": the leader alone is the quorum -/
theorem single_voter_iff (s : Leader) :
    (refreshMetadata s).singleVoter = true ↔ voters s.self s.view.nodes = [] := by
  simp [refreshMetadata, List.length_eq_zero_iff]

example : (handleLogFlushed (refreshMetadata { term := 2, commit := 1, log := [1, 1, 2], view := { nodes := [⟨1, 1, 3⟩, ⟨2, 4, 1⟩] } }) 3).map
    (fun o => o.1.commit) = some 3 := by decide

/-! ### the quorum over the *configuration's* voters (the property as stated) -/

/-- **The property as stated**: whenever the leader (in any state reachable from becoming leader)
    computes a new commit index `N`, a strict majority of the voters of its cached configuration —
    itself included — is known to hold `N`, `N` is an entry of its current term inside its log. -/
def CommitQuorumStatement : Prop :=
  ∀ (term commit cu : Nat) (log : List Nat) (nodes : List Node) (ops : List Op) (s : Leader) (N : Nat),
    run (initLeader term commit cu log nodes) ops = some s →
    calcNewCommit s = some N →
    (voterPeers s.targets).length + 1 < 2 * holders N (voterPeers s.targets) s.matchIdx ∧
      entryTerm s.log N = some s.term ∧ s.commit < N ∧ N ≤ s.log.length

/-- for every leader state (reachable or not) -/
theorem commit_quorum (s : Leader) (N : Nat) (h : calcNewCommit s = some N) :
    (voterPeers s.targets).length + 1 < 2 * holders N (voterPeers s.targets) s.matchIdx ∧
      entryTerm s.log N = some s.term ∧ s.commit < N ∧ N ≤ s.log.length := by
  have hs := new_commit_sound s N h
  have hlen : (voterMatches s).length = (voterPeers s.targets).length := by
    unfold voterMatches; rw [List.length_map]
  have hcnt : countGE N (s.log.length :: voterMatches s) = holders N (voterPeers s.targets) s.matchIdx := by
    rw [countGE_cons]
    unfold holders voterMatches
    have : N ≤ s.log.length := hs.2.1
    simp [this]
  refine ⟨?_, hs.2.2.1, hs.1, hs.2.1⟩
  rw [← hcnt, ← hlen]
  exact hs.2.2.2

theorem commit_quorum_statement : CommitQuorumStatement :=
  fun _ _ _ _ _ _ s N _ h => commit_quorum s N h

/-- every commit-index move of every step obeys it: an acknowledgement / flush that moves the commit
    index of a multi-voter leader moves it to an index with a voter majority -/
theorem flush_commit_quorum (s : Leader) (d : Nat) (out : Leader × List String × String)
    (hs : s.singleVoter = false) (h : handleLogFlushed s d = some out) (hmove : out.1.commit ≠ s.commit) :
    (voterPeers s.targets).length + 1 < 2 * holders out.1.commit (voterPeers s.targets) s.matchIdx ∧
      entryTerm s.log out.1.commit = some s.term := by
  unfold handleLogFlushed at h
  simp [hs] at h
  split at h
  · rename_i n hn
    injection h with h; subst h
    have := commit_quorum s n hn
    exact ⟨this.1, this.2.1⟩
  · injection h with h; subst h; exact absurd rfl hmove

/-- non-vacuity: 5 voters, 3 of 5 hold index 3 -/
def exTracked : Leader :=
  { term := 2, commit := 1, log := [1, 2, 2], view := { nodes := [] },
    targets := [⟨2, 1, 3⟩, ⟨3, 1, 3⟩, ⟨4, 1, 3⟩, ⟨5, 1, 3⟩, ⟨6, 4, 1⟩],
    matchIdx := [(2, 3), (3, 3), (4, 1), (6, 3)] }
example : calcNewCommit exTracked = some 3 := by decide
/-- … and with one holder less (2 of 5, the learner 6 does not help) nothing commits -/
example : calcNewCommit { exTracked with matchIdx := [(2, 3), (4, 1), (6, 3)] } = none := by decide

/-- what the monitor checks on an observed commit-index move, as a proposition about a leader state -/
def CommitJustified (s' : Leader) : Prop :=
  (voterPeers s'.targets).length + 1 < 2 * holders s'.commit (voterPeers s'.targets) s'.matchIdx ∧
    entryTerm s'.log s'.commit = some s'.term ∧ s'.commit ≤ s'.log.length

theorem afterUpdate_commit_justified (s : Leader) (peer : Nat) (u : PeerUpdate)
    (hmove : (afterUpdate s peer u).1.commit ≠ s.commit) : CommitJustified (afterUpdate s peer u).1 := by
  have hf := updatePeerIndex_fields s peer u
  simp only at hf
  let r2 := if !isVoterTarget s.targets peer then learnerCheck (updatePeerIndex s peer u)
            else (updatePeerIndex s peer u, [])
  have hr2c : r2.1.commit = s.commit := by
    simp only [r2]
    split
    · rw [(learnerCheck_fields _).2.2.1]; exact hf.2.1
    · exact hf.2.1
  have hshape : (afterUpdate s peer u).1 = r2.1 ∨
      ∃ n, calcNewCommit r2.1 = some n ∧ (afterUpdate s peer u).1 = { r2.1 with commit := n } := by
    simp only [afterUpdate]
    split
    · split
      · rename_i n hn; exact Or.inr ⟨n, hn, rfl⟩
      · exact Or.inl rfl
    · exact Or.inl rfl
  rcases hshape with h | ⟨n, hn, h⟩
  · rw [h, hr2c] at hmove; exact absurd rfl hmove
  · rw [h]
    have := commit_quorum r2.1 n hn
    exact ⟨this.1, this.2.1, this.2.2.2⟩

/-- **Every commit-index move caused by an acknowledgement is justified in the state right after the
    step** — this is, clause for clause, what the `commit` monitor (`Commit.judge`) evaluates on the
    implementation's observed state. -/
theorem ack_commit_justified (s : Leader) (peer t : Nat) (r : AckResult)
    (hmove : (handleAppendResult s peer t r).1.commit ≠ s.commit) :
    CommitJustified (handleAppendResult s peer t r).1 := by
  unfold handleAppendResult at hmove ⊢
  split
  · rename_i h; simp [h] at hmove
  · rename_i h1
    split
    · rename_i h2; simp [h1, h2] at hmove
    · rename_i h2
      simp only [h1, h2, if_false] at hmove
      cases r with
      | success m => exact afterUpdate_commit_justified s peer _ hmove
      | conflict ct ci => exact afterUpdate_commit_justified s peer _ hmove
      | higherTerm t' =>
        simp only at hmove ⊢
        split
        · rename_i h3; simp [h3] at hmove
        · rename_i h3; simp [h3] at hmove

/-- the same for the flush path of a multi-voter leader -/
theorem flush_commit_justified (s : Leader) (d : Nat) (out : Leader × List String × String)
    (hs : s.singleVoter = false) (h : handleLogFlushed s d = some out) (hmove : out.1.commit ≠ s.commit) :
    CommitJustified out.1 := by
  unfold handleLogFlushed at h
  simp [hs] at h
  split at h
  · rename_i n hn
    injection h with h; subst h
    have := commit_quorum s n hn
    exact ⟨this.1, this.2.1, this.2.2.2⟩
  · injection h with h; subst h; exact absurd rfl hmove

example : CommitJustified (handleAppendResult
    (initLeader 2 0 1 [1, 2] [⟨1, 1, 3⟩, ⟨2, 1, 3⟩, ⟨3, 1, 3⟩]) 2 2 (.success 2)).1 ∧
    (handleAppendResult (initLeader 2 0 1 [1, 2] [⟨1, 1, 3⟩, ⟨2, 1, 3⟩, ⟨3, 1, 3⟩]) 2 2 (.success 2)).1.commit = 2 := by
  unfold CommitJustified; decide

/-! ### regression of defect F30 (fixed by /repo 6ed8b1f) -/

/-- `calculate_new_commit_index` as it was before the fix: median over the entries present -/
def calcNewCommitSparse (s : Leader) : Option Nat :=
  match calcMajority s.term s.commit (voterMatchesSparse s) s.log with
  | some n => if n > s.commit then some n else none
  | none => none

/-- witness: three voters, nobody has acknowledged anything, one current-term entry -/
def f30Witness : Leader := initLeader 1 0 1 [1] [⟨1, 1, 3⟩, ⟨2, 1, 3⟩, ⟨3, 1, 3⟩]

/-- The old computation committed index 1 with 1 of 3 voters; the current one refuses. -/
theorem f30_regression :
    calcNewCommitSparse f30Witness = some 1 ∧
    ¬ ((voterPeers f30Witness.targets).length + 1 < 2 * holders 1 (voterPeers f30Witness.targets) f30Witness.matchIdx) ∧
    calcNewCommit f30Witness = none := by decide

end DEngine.C09
