import DEngine.Lemmas.ElectObs
import DEngine.Model.ElectMon
/-!
# C01 — Election safety: at most one leader per term

Cluster model: `DEngine.Elect.Cluster` / `step` / `run` (Model/ElectCluster.lean).  Its per-node steps are the
functions of Model/Elect.lean, which the `elect` correspondence compares with the real `ElectionHandler`, role
states, `Raft::handle_internal_event`, the `SharedState` persister and `Drop for Raft`.
`(run c ls).leaders` is the ghost list of every `BecomeLeader(node, term)` that happened.

History: as found, the property was false three independent ways, each replayed on three real Raft cores:
F1 (`BecomeFollower` reset the vote without a term change — fixed 65007c0), F2 (hard state saved only in `Drop`
— fixed c4109f0), F3 (single-node shortcut keyed on `initial_cluster_size` — fixed 16342b6).  The model follows
the fixed code; the three witness schedules are kept as regressions (`f1_regression` …).

* `election_safety` — **at most one `BecomeLeader` per term on every schedule** (message loss, duplication,
  reordering, forged-stale vote requests, split votes, step-downs, crashes at any point incl. inside an
  election, restarts; unbounded length, any cluster size) of a cluster with static membership, under the
  environment assumptions `envB` only: nobody forges grants or AppendEntries, node id 0 does not exist, every
  tally is taken against the configured voter list.  Proved by the inductive invariant `Inv`
  (Lemmas/ElectInv.lean, preserved by all 16 step kinds: `inv_step`) and `quorum_intersect`.
* `no_two_leaders_same_term` — the same in terms of roles.
* `tally_counts_all_voters` — F4 refuted: a win needs a strict majority of *all* peer ids the transport reports,
  and the real transport reports every configured voter (correspondence kind `svr`).
* Outside this theorem: changing membership (C26 / F5), and a node restarted with a configuration file that
  no longer matches the cluster (F25, C28) — both break the hypothesis "tally against the configured voters".
-/
namespace DEngine.C01
open DEngine.Elect

def leaderPairs (c : Cluster) : List (Nat × Nat) := c.leaders.map fun x => (x.1, x.2.1)

/-- a freshly booted cluster: no votes cast, nobody leads, nothing in flight -/
structure Fresh (c : Cluster) : Prop where
  leaders : c.leaders = []
  grants : c.grants = []
  fv : ∀ p t, c.fv p t = none
  flight : ∀ p, c.flight p = none
  node : ∀ p, (c.proc p).node.id = p ∧ (c.proc p).node.vf = none ∧ (c.proc p).node.role ≠ .leader
  down : ∀ p, (c.proc p).up = false → Down (c.proc p)

theorem inv_of_fresh (V : List Nat) (c : Cluster) (h : Fresh c) : Inv V c := by
  refine ⟨fun p => (h.node p).1, ?_, ?_, ?_, h.down, ?_, ?_, ?_, ?_⟩
  · intro p t x hx; rw [h.fv] at hx; cases hx
  · intro p _; exact h.fv _ _
  · intro p v hv; rw [(h.node p).2.1] at hv; cases hv
  · intro p x t hm; rw [h.grants] at hm; cases hm
  · intro n t Q hm; rw [h.leaders] at hm; cases hm
  · intro p hr; exact absurd hr (h.node p).2.2
  · intro p f hf; rw [h.flight] at hf; cases hf

/-- the configured voter set is what the node's membership reports (static membership) -/
def membStaticB (V : List Nat) (p : Nat) (m : Memb) : Bool :=
  V.contains p && decide m.voters.Nodup && m.voters.all (fun j => V.contains j && j != p)
    && (m.voters.length + 1 == V.length)

/-- environment assumptions (decidable, evaluated in the state a step starts from) -/
def envB (V : List Nat) (c : Cluster) : Label → Bool
  | .voteReq _ r => r.cand != 0
  | .appendEntries _ t l => c.isLeaderAt l t
  | .start p => p != 0
  | .scripted _ r => !isGrant r
  | .finish p _ => membStaticB V p (c.proc p).memb
  | _ => true

def traceAll (P : Cluster → Label → Bool) : Cluster → List Label → Bool
  | _, [] => true
  | c, l :: ls => P c l && traceAll P (step c l) ls

theorem membGood_of (V : List Nat) (p : Nat) (m : Memb) (h : membStaticB V p m = true) : MembGood V p m := by
  simp only [membStaticB, Bool.and_eq_true, decide_eq_true_eq, List.all_eq_true, beq_iff_eq, bne_iff_ne,
    List.contains_iff_mem] at h
  obtain ⟨⟨⟨h1, h2⟩, h3⟩, h4⟩ := h
  exact ⟨h1, h2, fun j hj => h3 j hj, h4⟩

theorem safe_of (V : List Nat) (c : Cluster) (l : Label) (he : envB V c l = true) : Safe V c l := by
  cases l with
  | voteReq p r => simpa [Safe, envB] using he
  | appendEntries p t l => simpa [Safe, envB] using he
  | start p => simpa [Safe, envB] using he
  | scripted p r => simpa [Safe, envB] using he
  | finish p ok => exact membGood_of V _ _ he
  | stepDown _ => trivial
  | crash _ => trivial
  | restart _ => trivial
  | heartbeat _ _ => trivial
  | timeout _ => trivial
  | deliver _ _ => trivial
  | higherTerm _ _ => trivial
  | noopCommitted _ => trivial
  | logChange _ _ _ => trivial
  | confChange _ _ => trivial
  | stop _ => trivial

theorem safeTrace_of (V : List Nat) : ∀ (ls : List Label) (c : Cluster),
    traceAll (envB V) c ls = true → SafeTrace V c ls
  | [], _, _ => trivial
  | l :: ls, c, he => by
    simp only [traceAll, Bool.and_eq_true] at he
    exact ⟨safe_of V c l he.1, safeTrace_of V ls _ he.2⟩

theorem leadersOK_of_inv {V : List Nat} {c : Cluster} (h : Inv V c) : leadersOK (leaderPairs c) = true := by
  unfold leadersOK leaderPairs
  simp only [List.all_eq_true, List.mem_map, Bool.or_eq_true, Bool.not_eq_true', beq_eq_false_iff_ne, beq_iff_eq]
  rintro _ ⟨⟨n, t, Q⟩, h1, rfl⟩ _ ⟨⟨m, t', Q'⟩, h2, rfl⟩
  simp only
  by_cases ht : t = t'
  · subst ht
    exact Or.inr (h.unique_leader ⟨Q, h1⟩ ⟨Q', h2⟩)
  · exact Or.inl ht

/-- **C01 at full strength**: every schedule, the environment assumptions only. -/
theorem election_safety (V : List Nat) (c0 : Cluster) (ls : List Label) (h0 : Fresh c0)
    (he : traceAll (envB V) c0 ls = true) : leadersOK (leaderPairs (run c0 ls)) = true :=
  leadersOK_of_inv (inv_run ls (inv_of_fresh V c0 h0) (safeTrace_of V ls c0 he))

/-- the same in terms of roles: two nodes that are `Leader` with the same current term are the same node -/
theorem no_two_leaders_same_term (V : List Nat) (c0 : Cluster) (ls : List Label) (h0 : Fresh c0)
    (he : traceAll (envB V) c0 ls = true) (p q : Nat)
    (hp : ((run c0 ls).proc p).node.role = .leader) (hq : ((run c0 ls).proc q).node.role = .leader)
    (ht : ((run c0 ls).proc p).node.term = ((run c0 ls).proc q).node.term) : p = q := by
  have h := inv_run ls (inv_of_fresh V c0 h0) (safeTrace_of V ls c0 he)
  have h1 := h.r p hp
  have h2 := h.r q hq
  rw [ht] at h1
  exact h.unique_leader h1 h2

/-! ### witnesses -/

def members3 : List MNode := [⟨1, false, 3⟩, ⟨2, false, 3⟩, ⟨3, false, 3⟩]

/-- freshly booted cluster; node `i` was configured with `initialOf i` and currently sees `membOf i` -/
def freshCluster (initialOf : Nat → List MNode) (membOf : Nat → Memb) : Cluster :=
  { proc := fun i => { node := bootNode i false none 0 0 [], up := true, image := none,
                       memb := membOf i, initial := initialOf i, startLearner := false },
    flight := fun _ => none, leaders := [], grants := [], fv := fun _ _ => none }

theorem fresh_freshCluster (i : Nat → List MNode) (m : Nat → Memb) : Fresh (freshCluster i m) :=
  ⟨rfl, rfl, fun _ _ => rfl, fun _ => rfl, fun _ => ⟨rfl, rfl, by simp [freshCluster, bootNode]⟩,
   fun _ h => by simp [freshCluster] at h⟩

def c3 : Cluster := freshCluster (fun _ => members3) (fun i => Memb.mk' i members3)

/-- F1: node 1 wins term 2 with node 2's vote, steps down in term 2 (leader noop timeout), node 3 then wins
    term 2 with node 1's second vote. -/
def f1Trace : List Label :=
  [.timeout 1, .start 1, .deliver 1 2, .finish 1 true, .stepDown 1, .timeout 3, .start 3, .deliver 3 1, .finish 3 true]

/-- F2: node 2 votes for node 1 in term 2, crashes, restarts without its vote and votes for node 3 in term 2. -/
def f2Trace : List Label :=
  [.timeout 1, .start 1, .deliver 1 2, .finish 1 true, .crash 2, .restart 2, .timeout 3, .start 3, .deliver 3 2,
   .finish 3 true]

/-- F3: node 1 was started alone (`initial_cluster_size = 1`) and expanded to three voters; node 2 wins term 2
    with node 3's vote, node 1 then wins term 2 without asking anybody. -/
def c3expanded : Cluster :=
  freshCluster (fun i => if i = 1 then [⟨1, false, 3⟩] else members3)
    (fun i => if i = 1 then (Memb.mk' 1 [⟨1, false, 3⟩]).applyAll [.addNode 2 1, .addNode 3 1, .batchPromote [2, 3] 3]
              else Memb.mk' i members3)
def f3Trace : List Label :=
  [.timeout 2, .start 2, .deliver 2 3, .finish 2 true, .timeout 1, .start 1, .finish 1 true]

/-- regressions: on the fixed code the three former witness schedules elect one leader per term -/
theorem f1_regression : leaderPairs (run c3 f1Trace) = [(1, 2)] := by decide
theorem f2_regression : leaderPairs (run c3 f2Trace) = [(1, 2)] := by decide
theorem f3_regression : leaderPairs (run c3expanded f3Trace) = [(2, 2)] := by decide

/-- non-vacuity of `election_safety`: the former witness schedules (a same-term step-down, a crash of a voter, an
    expanded single-node start) and a schedule with a split vote, a lost reply, a duplicated request, a crash
    inside an election and two elections all satisfy the hypotheses. -/
def okTrace : List Label :=
  [.timeout 1, .timeout 2, .start 1, .start 2, .deliver 1 3, .deliver 2 3, .scripted 2 .err, .finish 2 true,
   .finish 1 true, .heartbeat 1 3, .voteReq 3 ⟨2, 2, 0, 0⟩, .stop 3, .restart 3, .higherTerm 1 3, .timeout 2,
   .start 2, .deliver 2 1, .deliver 2 3, .finish 2 true, .noopCommitted 2, .timeout 3, .start 3, .crash 3,
   .restart 3, .stepDown 2]
example : traceAll (envB [1, 2, 3]) c3 okTrace = true ∧ leaderPairs (run c3 okTrace) = [(2, 3), (1, 2)] ∧
    traceAll (envB [1, 2, 3]) c3 f1Trace = true ∧ traceAll (envB [1, 2, 3]) c3 f2Trace = true ∧
    traceAll (envB [1, 2, 3]) c3expanded f3Trace = true := by decide

/-! ### F4 refuted -/

/-- a won tally counted grants from a strict majority of `nPeerIds + 1`; `nPeerIds` is the size of
    `VoteResult.peer_ids`, which the real transport fills with every configured voter, reachable or not. -/
theorem tally_counts_all_voters (term lli llt nV np : Nat) (rs : List Resp)
    (h : tally term lli llt false nV (some (np, rs)) = .won) : np + 1 < 2 * (1 + countGranted rs) := by
  have hok : (tally term lli llt false nV (some (np, rs))).isOk = true := by rw [h]; rfl
  rcases tally_ok hok with ⟨_, hs⟩ | ⟨_, _, np', rs', heq, hc⟩
  · cases hs
  · cases heq; exact hc

end DEngine.C01
