/-
  C10 — Acknowledged writes are durable and visible.

  Statement (properties.jsonl): once a put / delete / CAS is acknowledged as successful, its effect shows in every
  later linearizable read; it survives leader changes and the crash / restart of any minority of voters; a graceful stop
  and restart of the whole cluster preserves it.

  At the level of this family (cluster model, no state machine) "acknowledged" = the leader answered the client with
  success (`handle_apply_completed` for an index in `pending_write_apply`); ghost `Cluster.acked`.

  Proved (all reachable states, no hypothesis):
    `ack_implies_committed`          a write is answered with success only when a commit of the answering leader (recorded by
                                     `recordCommit`, i.e. a commit-index advance computed by `calculate_new_commit_index`)
                                     covers its entry — invariant `WInv` over the client-write queues, preserved by every step;
    `acked_stays_committed`          ... and stays covered in every later state (commits are never forgotten);
    `graceful_restart_preserves_log` stop + start of a node gives back exactly the same log, term and vote.
  Corollary with the inherited, NAMED hypothesis:
    `acked_write_visible`            under H_leaderCompleteness (C05) every later-term leader holds the acknowledged entry —
                                     from there C06 (apply) + C11 (read index) give visibility to linearizable reads.
  Without the inherited hypothesis, over the benign sub-relation (no F8 / F9 trigger):
    `acked_write_visible_benign`     a write answered with success is in the log of every later-term leader
                                     (`C05.leader_completeness_partial`).
  The inherited hypothesis is false for the code as it is (C05: F8 acknowledgement before persistence, F9 reset wipe):
    `acked_write_lost`               kernel-checked negation of the unconditional statement: an acknowledged write is
                                     absent from a later leader (witness replayed on the real code,
                                     corpus/cluster/f8_acked_write_lost.case).
-/
import DEngine.Lemmas.ClusterWritesStep
import DEngine.Props.C05
namespace DEngine.C10
open DEngine.Cluster DEngine.C04

theorem reachable_winv {n cap : Nat} {c : Cluster} (hr : Reachable n cap c) : WInv c := by
  induction hr with
  | init => exact winv_init n cap
  | step e _ ih => exact step_winv ih e

/-- A write is answered with success only if a recorded commit of the answering leader covers its entry. -/
theorem ack_implies_committed {n cap : Nat} {c : Cluster} (hr : Reachable n cap c) :
    ∀ a ∈ c.acked, committedB c a.1 a.2 = true :=
  (reachable_winv hr).acked

/-- commits and acknowledgements are never forgotten -/
theorem step_history_mono (c : Cluster) (e : Event) :
    (∀ p ∈ c.commits, p ∈ (step c e).1.commits) ∧ (∀ a ∈ c.acked, a ∈ (step c e).1.acked) := by
  cases e <;> simp only [step]
  case tick i => unfold stepTick; dsimp only; split <;> (try split) <;> (try split) <;> exact ⟨fun _ h => h, fun _ h => h⟩
  case voteReq a b => unfold stepVoteReq; dsimp only; split <;> (try split) <;> exact ⟨fun _ h => h, fun _ h => h⟩
  case voteResp a b => unfold stepVoteResp; dsimp only; split <;> (try split) <;> (try split) <;> exact ⟨fun _ h => h, fun _ h => h⟩
  case voteEnd i => unfold stepVoteEnd; dsimp only; split <;> (try split) <;> (try split) <;> exact ⟨fun _ h => h, fun _ h => h⟩
  case write i x => unfold stepWrite; dsimp only; split <;> (try split) <;> exact ⟨fun _ h => h, fun _ h => h⟩
  case deliverAe m => unfold stepDeliverAe; dsimp only; split <;> (try split) <;> (try split) <;> exact ⟨fun _ h => h, fun _ h => h⟩
  case deliverResp m =>
    unfold stepDeliverResp; dsimp only
    split
    · split
      · exact ⟨fun _ h => h, fun _ h => h⟩
      · split
        · exact ⟨fun _ h => h, fun _ h => h⟩
        · refine ⟨fun p hp => recordCommit_commits_sub _ _ _ p hp, fun a ha => ?_⟩
          unfold recordCommit; split <;> exact ha
    · exact ⟨fun _ h => h, fun _ h => h⟩
  case drop m => exact ⟨fun _ h => h, fun _ h => h⟩
  case dup m => unfold stepDup; split <;> exact ⟨fun _ h => h, fun _ h => h⟩
  case streamErr l p => unfold stepStreamErr; dsimp only; split <;> (try split) <;> (try split) <;> exact ⟨fun _ h => h, fun _ h => h⟩
  case streamClosed l p => unfold stepStreamClosed; dsimp only; split <;> (try split) <;> (try split) <;> exact ⟨fun _ h => h, fun _ h => h⟩
  case logFlushed i =>
    unfold stepLogFlushed; dsimp only
    split
    · exact ⟨fun _ h => h, fun _ h => h⟩
    · split
      · refine ⟨fun p hp => recordCommit_commits_sub _ _ _ p hp, fun a ha => ?_⟩
        unfold recordCommit; split <;> exact ha
      · exact ⟨fun _ h => h, fun _ h => h⟩
  case applyCompleted i k =>
    unfold stepApplyCompleted; dsimp only
    split
    · exact ⟨fun _ h => h, fun _ h => h⟩
    · split
      · exact ⟨fun _ h => h, fun a ha => List.mem_append_left _ ha⟩
      · exact ⟨fun _ h => h, fun _ h => h⟩
  case crash i k => unfold stepDown'; dsimp only; split <;> (try split) <;> exact ⟨fun _ h => h, fun _ h => h⟩
  case stop i => unfold stepDown'; dsimp only; split <;> (try split) <;> exact ⟨fun _ h => h, fun _ h => h⟩
  case start i => unfold stepStart; dsimp only; split <;> exact ⟨fun _ h => h, fun _ h => h⟩
  case nop => exact ⟨fun _ h => h, fun _ h => h⟩

theorem run_history_mono : ∀ (es : List Event) (c : Cluster),
    (∀ p ∈ c.commits, p ∈ (run c es).commits) ∧ (∀ a ∈ c.acked, a ∈ (run c es).acked) := by
  intro es
  induction es with
  | nil => intro c; exact ⟨fun _ h => h, fun _ h => h⟩
  | cons e es ih =>
    intro c
    have h1 := step_history_mono c e
    have h2 := ih (step c e).1
    exact ⟨fun p hp => h2.1 p (h1.1 p hp), fun a ha => h2.2 a (h1.2 a ha)⟩

/-- An acknowledged write stays covered by a recorded commit in every later state. -/
theorem acked_stays_committed {n cap : Nat} {c : Cluster} (hr : Reachable n cap c) (es : List Event) :
    ∀ a ∈ c.acked, committedB (run c es) a.1 a.2 = true := by
  intro a ha
  exact committedB_mono (run_history_mono es c).1 (ack_implies_committed hr a ha)

/-- H_leaderCompleteness (C05, named): every current leader of a later term holds every committed entry. -/
def H_leaderCompleteness (c : Cluster) : Prop :=
  ∀ e t j, committedB c e t = true → (c.nodes j).role = .leader → t < (c.nodes j).term → e ∈ (c.nodes j).log

/-- Corollary: an acknowledged write is in the log of every later-term leader of every later state in which leader
    completeness holds. -/
theorem acked_write_visible {n cap : Nat} {c : Cluster} (hr : Reachable n cap c) (es : List Event)
    (hlc : H_leaderCompleteness (run c es)) :
    ∀ a ∈ c.acked, ∀ j, ((run c es).nodes j).role = .leader → a.2 < ((run c es).nodes j).term →
      a.1 ∈ ((run c es).nodes j).log := by
  intro a ha j hrole hterm
  exact hlc a.1 a.2 j (acked_stays_committed hr es a ha) hrole hterm

/-- A graceful stop followed by a start gives back the same log, term and vote. -/
theorem graceful_restart_preserves_log (c : Cluster) (i : NodeId) (hv : c.valid i = true) (hup : (c.nodes i).up = true)
    (hnb : (c.nodes i).blocked = false) :
    let c' := (step (step c (.stop i)).1 (.start i)).1
    (c'.nodes i).log = (c.nodes i).log ∧ (c'.nodes i).term = (c.nodes i).term ∧ (c'.nodes i).vote = (c.nodes i).vote ∧
      (c'.nodes i).up = true := by
  intro c'
  have h1 : (step c (.stop i)).1 = { c with nodes := setNode c.nodes i (downNode (c.nodes i) none) } := by
    simp [step, stepDown', hv, hup, hnb]
  have hn : (step c (.stop i)).1.nodes i = downNode (c.nodes i) none := by rw [h1]; simp
  have hvalid : (step c (.stop i)).1.valid i = true := by rw [h1]; exact hv
  have hc' : c' = (stepStart (step c (.stop i)).1 i).1 := rfl
  rw [hc']
  unfold stepStart
  simp [hn, hvalid, downNode]

-- ------------------------------------------------------------------------------------------ negation witness
def AckedDurableStatement : Prop :=
  ∀ n cap c, Reachable n cap c → H_electionSafety c →
    ∀ a ∈ c.acked, ∀ j, (c.nodes j).role = .leader → a.2 < (c.nodes j).term → a.1 ∈ (c.nodes j).log

/-- F8 with the client in the picture: the write (key 7) is answered with success, then the acknowledger crashes before
    the entry is written, the leader crashes, and the new leader of term 3 does not hold the acknowledged entry. -/
def ackedLostSchedule : List Event :=
  [.tick 1, .tick 1, .voteReq 1 2, .voteResp 1 2, .voteEnd 1, .deliverAe 1, .deliverResp 3, .stop 2, .start 2,
   .write 1 7, .deliverAe 4, .deliverResp 6, .applyCompleted 1 2, .crash 2 1, .start 2, .crash 1 0, .tick 2, .tick 2,
   .voteReq 2 3, .voteResp 2 3, .voteEnd 2]

theorem acked_write_lost : ¬ AckedDurableStatement := by
  intro h
  have hr := reachable_run 3 2 ackedLostSchedule _ Reachable.init
  have hes : H_electionSafety (run (Cluster.init 3 2) ackedLostSchedule) := by decide +kernel
  have := h 3 2 _ hr hes (⟨2, 2, 8⟩, 2) (by decide +kernel) 2 (by decide +kernel) (by decide +kernel)
  revert this
  decide +kernel

-- non-vacuity: a reachable state with an acknowledged write
example : (run (Cluster.init 3 2) (ackedLostSchedule.take 13)).acked = [(⟨2, 2, 8⟩, 2)] := by decide +kernel


/-- C10 without the inherited hypothesis, over the benign sub-relation (no F8 / F9 trigger, `C05.ReachableB`): a write
    answered with success is in the log of every node that leads in a later term (`C05.leader_completeness_partial`). -/
theorem acked_write_visible_benign {n cap : Nat} {c : Cluster} (hr : C05.ReachableB n cap c) :
    ∀ a ∈ c.acked, ∀ j, (c.nodes j).role = .leader → a.2 < (c.nodes j).term → a.1 ∈ (c.nodes j).log := by
  intro a ha j hrole hlt
  exact C05.leader_completeness_partial hr a.1 a.2 j
    (ack_implies_committed (C05.reachableB_reachable hr) a ha) hrole hlt

/-- H_leaderCompleteness holds in every state reachable by benign steps -/
theorem leaderCompleteness_benign {n cap : Nat} {c : Cluster} (hr : C05.ReachableB n cap c) : H_leaderCompleteness c :=
  C05.leader_completeness_partial hr

end DEngine.C10
