import DEngine.Lemmas.Repl
/-!
# C08 — AppendEntries requests are contiguous and keep logs gap-free

Model: `DEngine/Model/Repl.lean` (tied to the code by the `repl` correspondence: real
`ReplicationHandler::prepare_batch_requests` / `retrieve_to_be_synced_logs_for_peers` / `build_append_request`
on a real `BufferedRaftLog`, real follower path through `Raft::process_inbound_events`).

* `request_contiguous` (full strength, all logs / next indexes / caps / new entries / raw helper outputs):
  every request built has entry indexes `prev+1, prev+2, …` — true since fix F6 (`contigRun`).
  `raw_helper_still_gapped` keeps the old F6 witness visible: the helper output the repo's own test pins is
  gapped, the request built from it is not.
* `request_progress`: the F6 truncation never starves a peer — if the leader holds the entry at `next`, the
  request is non-empty and starts at `next`.
* `request_complete_uncapped`: when the cap does not bite (`lag < cap`) the request carries every entry from
  `next` on, legacy and new (nothing is dropped by the truncation); `request_carries_new` for a caught-up peer.
* `accept_keeps_gapfree`: a gap-free follower log stays gap-free under every path of
  `filter_out_conflicts_and_append` when the request is contiguous.
* "never discards entries that agree with the leader": the full statement `AgreeingKeptStatement` is FALSE as
  coded — the `prev = (0,0)` reset path wipes the whole log, then appends only what the (capped) request
  carries (finding F9 seen from C08). `agreeing_kept_refuted` is the kernel-checked negation from a concrete
  witness; `agreeing_kept_partial` proves the statement for every request with `prev ≠ (0,0)`.
-/
namespace DEngine.C08
open DEngine.Repl

/-! ## Leader side -/

/-- **C08 (request side, full strength).** Whatever the log, the peer's next index, the cap and the new
    entries (i.e. whatever `raw` the helper produced), the request's entries are indexed
    `prev+1 … prev+len`. -/
theorem request_contiguous (l : Log) (term commit me : Nat) (next? : Option Nat) (raw : List Entry) :
    (buildReq l term commit me next? raw).ents.map (·.index) =
      List.range' ((buildReq l term commit me next? raw).prev + 1) (buildReq l term commit me next? raw).ents.length := by
  rw [← contigFrom_map_index]
  exact contigRun_contig _ _

theorem buildReq_contig (l : Log) (term commit me : Nat) (next? : Option Nat) (raw : List Entry) :
    (buildReq l term commit me next? raw).contig = true := contigRun_contig _ _

/-- Every request that `prepare_batch_requests` emits is contiguous — for all logs, next maps, caps, targets
    and new payloads. -/
theorem prepare_requests_contiguous (l : Log) (nextId cap term commit me : Nat) (nextMap : List (Nat × Nat))
    (targets : List Nat) (newPays : List Nat) :
    ∀ p ∈ (prepare l nextId cap term commit me nextMap targets newPays).2.1, ∀ r, p.2 = some r →
      r.ents.map (·.index) = List.range' (r.prev + 1) r.ents.length := by
  intro p hp r hr
  simp only [prepare] at hp
  split at hp
  · simp at hp
  · rw [List.mem_map] at hp
    obtain ⟨id, _, hid⟩ := hp
    split at hid
    · subst hid; simp at hr
    · subst hid
      simp only [Option.some.injEq] at hr
      subst hr
      exact request_contiguous _ _ _ _ _ _

/-- The speculative next index the leader stores is exactly one past the last entry sent. -/
theorem specNext_after_last (l : Log) (term commit me : Nat) (next? : Option Nat) (raw : List Entry)
    (hne : (buildReq l term commit me next? raw).ents ≠ []) :
    specNext (buildReq l term commit me next? raw) = lastOf (buildReq l term commit me next? raw).ents + 1 := by
  have h := buildReq_contig l term commit me next? raw
  have := lastOf_contig h hne
  unfold specNext
  have hlen : 0 < (buildReq l term commit me next? raw).ents.length := List.length_pos_iff.mpr hne
  omega

/-- The helper itself still returns a gapped list on the repo's own test vector (log 1..3, next 1, cap 2,
    one new entry 4): `[1,2,4]` — and the request built from it is `[1,2]` (old F6 witness). -/
theorem raw_helper_still_gapped :
    let l : Log := appendE {} [⟨1,1,101⟩, ⟨2,1,102⟩, ⟨3,1,103⟩]
    let l' := appendE l [⟨4,1,901⟩]
    (rawFor l' 3 2 1 [⟨4,1,901⟩]).map (·.index) = [1, 2, 4] ∧
    ((buildReq l' 1 0 1 (some 1) (rawFor l' 3 2 1 [⟨4,1,901⟩])).ents.map (·.index)) = [1, 2] := by
  decide

/-! ### Progress: the truncation does not starve a peer -/

theorem filter_range_contig {f : Nat} {es : List Entry} (h : contigFrom f es = true) (a b : Nat) :
    contigFrom (max a f) (es.filter (fun e => decide (a ≤ e.index) && decide (e.index ≤ b))) = true := by
  induction es generalizing f with
  | nil => rfl
  | cons x xs ih =>
    have hc := (contigFrom_cons f x xs).mp h
    by_cases hk : a ≤ x.index ∧ x.index ≤ b
    · have hx : (decide (a ≤ x.index) && decide (x.index ≤ b)) = true := by simp [hk]
      simp only [List.filter_cons, hx, ↓reduceIte, contigFrom_cons]
      refine ⟨by omega, ?_⟩
      have := ih hc.2
      have e : max a (f + 1) = max a f + 1 := by omega
      rw [e] at this; exact this
    · have hx : (decide (a ≤ x.index) && decide (x.index ≤ b)) = false := by
        simp only [Bool.and_eq_false_iff, decide_eq_false_iff_not]; omega
      simp only [List.filter_cons, hx]
      by_cases hlt : x.index < a
      · have := ih hc.2
        have e : max a (f + 1) = max a f := by omega
        rw [e] at this; simpa using this
      · have hrest : xs.filter (fun e => decide (a ≤ e.index) && decide (e.index ≤ b)) = [] := by
          rw [List.filter_eq_nil_iff]
          intro y hy
          have := contigFrom_index_ge hc.2 y hy
          simp only [Bool.and_eq_true, decide_eq_true_eq]; omega
        simp [hrest, contigFrom]

/-- If the leader's (gap-free) log holds the entry at the peer's `next` and the cap is ≥ 1, the request is
    non-empty and its first entry is `next`: the entries cut off by fix F6 are not lost, `next_index` simply
    reaches them later. -/
theorem request_progress (l : Log) (term commit me nx lastBefore cap : Nat) (newEs : List Entry)
    (hg : gapFree l.ents = true) (hcap : 1 ≤ cap) (h1 : 1 ≤ nx)
    (hin : ∃ e ∈ l.ents, e.index = nx) (hle : nx ≤ lastBefore) :
    ∃ e rest, (buildReq l term commit me (some nx) (rawFor l lastBefore cap nx newEs)).ents = e :: rest ∧
      e.index = nx := by
  obtain ⟨e0, he0, hi0⟩ := hin
  have hleg : contigFrom nx (legacyFor l lastBefore cap nx) = true := by
    unfold legacyFor
    rw [if_pos hle]
    have hf := filter_range_contig (gapFree_iff _ |>.mp hg) nx
      (if lastBefore - nx ≥ cap then nx + cap - 1 else lastBefore)
    have hfirst : firstOf l.ents ≤ nx := by
      have := contigFrom_index_ge (gapFree_iff _ |>.mp hg) e0 he0; omega
    have e : max nx (firstOf l.ents) = nx := by omega
    rw [e] at hf
    exact hf
  have hmem : e0 ∈ legacyFor l lastBefore cap nx := by
    unfold legacyFor rangeEntries
    rw [if_pos hle, List.mem_filter]
    refine ⟨he0, ?_⟩
    simp only [Bool.and_eq_true, decide_eq_true_eq]
    split <;> omega
  have hrun : (buildReq l term commit me (some nx) (rawFor l lastBefore cap nx newEs)).ents =
      legacyFor l lastBefore cap nx ++ contigRun (nx + (legacyFor l lastBefore cap nx).length) newEs := by
    have hp : nx - 1 + 1 = nx := by omega
    simp only [buildReq, rawFor, hp]
    exact contigRun_append_left hleg _
  rw [hrun]
  cases hl : legacyFor l lastBefore cap nx with
  | nil => rw [hl] at hmem; simp at hmem
  | cons x xs =>
    rw [hl] at hleg
    exact ⟨x, xs ++ contigRun (nx + (x :: xs).length) newEs, rfl, ((contigFrom_cons _ _ _).mp hleg).1⟩

/-- new entries directly at `next` (peer fully caught up): the request carries them from the first one. -/
theorem request_carries_new (l : Log) (term commit me nx lastBefore cap : Nat) (e : Entry) (rest : List Entry)
    (h1 : 1 ≤ nx) (hlt : lastBefore < nx) (he : e.index = nx) :
    ∃ rest', (buildReq l term commit me (some nx) (rawFor l lastBefore cap nx (e :: rest))).ents = e :: rest' := by
  have hleg : legacyFor l lastBefore cap nx = [] := by
    unfold legacyFor; rw [if_neg (by omega)]
  have hp : nx - 1 + 1 = nx := by omega
  simp only [buildReq, rawFor, hleg, List.nil_append, hp, contigRun, he, beq_self_eq_true, ↓reduceIte]
  exact ⟨_, rfl⟩

theorem filter_ge_contig {f : Nat} {es : List Entry} (h : contigFrom f es = true) (a : Nat) :
    contigFrom (max a f) (es.filter (fun e => decide (a ≤ e.index))) = true := by
  induction es generalizing f with
  | nil => rfl
  | cons x xs ih =>
    have hc := (contigFrom_cons f x xs).mp h
    by_cases hk : a ≤ x.index
    · have hx : decide (a ≤ x.index) = true := by simp [hk]
      simp only [List.filter_cons, hx, ↓reduceIte, contigFrom_cons]
      refine ⟨by omega, ?_⟩
      have := ih hc.2
      have e : max a (f + 1) = max a f + 1 := by omega
      rw [e] at this; exact this
    · have hx : decide (a ≤ x.index) = false := by simp [hk]
      simp only [List.filter_cons, hx]
      have := ih hc.2
      have e : max a (f + 1) = max a f := by omega
      rw [e] at this; simpa using this

/-- **Nothing is lost when the cap does not bite**: with `lag < cap`, the request carries every entry of the
    leader's log from `next` on (legacy and new), i.e. exactly `filter (next ≤ index)`. -/
theorem request_complete_uncapped (old newEs : List Entry) (l : Log) (term commit me nx cap : Nat)
    (hl : l.ents = old ++ newEs) (hg : gapFree l.ents = true) (hold : old ≠ [])
    (h1 : 1 ≤ nx) (hfirst : firstOf old ≤ nx) (hle : nx ≤ lastOf old) (hunc : lastOf old - nx < cap) :
    (buildReq l term commit me (some nx) (rawFor l (lastOf old) cap nx newEs)).ents =
      l.ents.filter (fun e => decide (nx ≤ e.index)) := by
  have hcf := (gapFree_iff _).mp hg
  rw [hl] at hcf
  have hf : firstOf (old ++ newEs) = firstOf old := firstOf_append_of_ne _ hold
  rw [hf] at hcf
  obtain ⟨hco, hcn⟩ := (contigFrom_append _ _ _).mp hcf
  have hlo := lastOf_contig hco hold
  have hpos : 0 < old.length := List.length_pos_iff.mpr hold
  -- the legacy part is everything of `old` from nx on; the new entries all lie above
  have hleg : legacyFor l (lastOf old) cap nx = old.filter (fun e => decide (nx ≤ e.index)) := by
    unfold legacyFor rangeEntries
    rw [if_pos hle, if_neg (by omega), hl, List.filter_append]
    have h2 : newEs.filter (fun e => decide (nx ≤ e.index) && decide (e.index ≤ lastOf old)) = [] := by
      rw [List.filter_eq_nil_iff]
      intro y hy
      have := contigFrom_index_ge hcn y hy
      simp only [Bool.and_eq_true, decide_eq_true_eq]; omega
    rw [h2, List.append_nil]
    apply List.filter_congr
    intro y hy
    have := contigFrom_index_lt hco y hy
    have h3 : decide (y.index ≤ lastOf old) = true := by simp; omega
    simp [h3]
  have hnew : newEs.filter (fun e => decide (nx ≤ e.index)) = newEs := by
    rw [List.filter_eq_self]
    intro y hy
    have := contigFrom_index_ge hcn y hy
    simp; omega
  have hraw : rawFor l (lastOf old) cap nx newEs = l.ents.filter (fun e => decide (nx ≤ e.index)) := by
    unfold rawFor
    rw [hleg, hl, List.filter_append, hnew]
  have hcontig : contigFrom nx (l.ents.filter (fun e => decide (nx ≤ e.index))) = true := by
    have := filter_ge_contig ((gapFree_iff _).mp hg) nx
    rw [hl, hf] at this
    have e : max nx (firstOf old) = nx := by omega
    rw [e, ← hl] at this; exact this
  have hp : nx - 1 + 1 = nx := by omega
  simp only [buildReq, hraw, hp]
  exact contigRun_of_contig hcontig

/-! ## Follower side -/

/-- Where the request attaches: the follower log is empty, or `prev` lies inside it / right before it. -/
def attaches (l : Log) (prev : Nat) : Prop :=
  l.ents = [] ∨ (l.firstIdx ≤ prev + 1 ∧ prev ≤ l.lastIdx)

theorem lastIdx_pos_of_ne {l : Log} (h1 : ∀ e ∈ l.ents, 1 ≤ e.index) (hne : l.ents ≠ []) : 1 ≤ l.lastIdx := by
  unfold Log.lastIdx lastOf
  cases h : l.ents.getLast? with
  | none => simp [List.getLast?_eq_none_iff] at h; exact absurd h hne
  | some e => exact h1 e (List.mem_of_getLast? h)

theorem lastIdx_nil {l : Log} (h : l.ents = []) : l.lastIdx = 0 := by simp [Log.lastIdx, lastOf, h]

/-- Gap-freeness through every path of `filter_out_conflicts_and_append`. -/
theorem filterAppend_gapFree (l : Log) (prev prevTerm : Nat) (es : List Entry)
    (hg : gapFree l.ents = true) (h1 : ∀ e ∈ l.ents, 1 ≤ e.index)
    (hc : contigFrom (prev + 1) es = true) (hj : attaches l prev) :
    gapFree (filterAppend l prev prevTerm es).1.ents = true := by
  -- a tail that starts right behind the log
  have happ : ∀ (e : Entry) (rest : List Entry), e ∈ es → l.lastIdx < e.index →
      (∀ x ∈ es, x.index < e.index → x.index ≤ l.lastIdx) → contigFrom e.index (e :: rest) = true →
      gapFree (l.ents ++ e :: rest) = true := by
    intro e rest he hgt hbef hct
    apply gapFree_append hg hct _ h1
    by_cases hne : l.ents = []
    · exact Or.inl hne
    · right
      rcases hj with hj | hj
      · exact absurd hj hne
      · have hll : l.lastIdx = lastOf l.ents := rfl
        exact tail_starts_after hc (by omega) he (by omega) (by intro x hx hlt; have := hbef x hx hlt; omega)
  unfold filterAppend
  split
  · -- reset
    simp only [appendE_ents, resetL_ents, List.nil_append]
    exact gapFree_of_contigFrom hc
  · split
    · exact hg
    · dsimp only
      split
      · -- fast path
        split
        · exact hg
        · rename_i hne
          cases hd : es.dropWhile (fun e => decide (e.index ≤ l.lastIdx)) with
          | nil => simp [hd] at hne
          | cons e rest =>
            obtain ⟨hct, _, hpe, hmem, hbef, _⟩ := dropWhile_contig hc hd
            simp only [appendE_ents]
            apply happ e rest hmem (by simpa using hpe) _ hct
            intro x hx hlt
            simpa using hbef x hx hlt
      · -- slow path
        unfold slowPath
        split
        · exact hg
        · rename_i e rest hd
          obtain ⟨hct, hge, hpe, hmem, hbef, _⟩ := dropWhile_contig hc hd
          split
          · rename_i hle
            -- conflict: truncate from e.index, append the tail
            simp only [appendE_ents, removeFrom_ents]
            have hne : l.ents ≠ [] := by
              intro h0; have := lastIdx_nil h0; omega
            rcases hj with hj | hj
            · exact absurd hj hne
            · have hcf := (gapFree_iff _).mp hg
              have hl := lastOf_contig hcf hne
              have hpos : 0 < l.ents.length := List.length_pos_iff.mpr hne
              have hlast : l.lastIdx = firstOf l.ents + l.ents.length - 1 := hl
              have hfirst : l.firstIdx = firstOf l.ents := rfl
              obtain ⟨hf1, hf2⟩ := filter_lt_contig hcf e.index (by omega) (by omega)
              apply gapFree_of_contigFrom (s := firstOf l.ents)
              rw [contigFrom_append]
              refine ⟨hf1, ?_⟩
              rw [hf2]
              have : firstOf l.ents + (e.index - firstOf l.ents) = e.index := by omega
              rw [this]; exact hct
          · rename_i hgt
            simp only [appendE_ents]
            apply happ e rest hmem (by omega) _ hct
            intro x hx hlt
            have := hbef x hx hlt
            simp only [diverges, Bool.not_eq_true', Bool.or_eq_false_iff, decide_eq_false_iff_not] at this
            omega

/-- A well-formed log (`Log.wf`) that answers `entry_term(prev) = Some(_)` has `prev` inside it, right before
    it (purge boundary), or is empty. -/
theorem attaches_of_entryTerm {l : Log} (hwf : l.wf = true) {prev t : Nat}
    (h : l.entryTerm prev = some t) : attaches l prev := by
  unfold attaches
  by_cases hne : l.ents = []
  · exact Or.inl hne
  · right
    simp only [Log.wf, Bool.and_eq_true, Bool.or_eq_true, List.isEmpty_iff, decide_eq_true_eq, beq_iff_eq] at hwf
    obtain ⟨⟨hg, h1⟩, hb⟩ := hwf
    have h1 : 1 ≤ l.firstIdx := by rcases h1 with h | h; exact absurd h hne; exact h
    have hcf := (gapFree_iff _).mp hg
    have hl : l.lastIdx = firstOf l.ents + l.ents.length - 1 := lastOf_contig hcf hne
    have hpos : 0 < l.ents.length := List.length_pos_iff.mpr hne
    have hfirst : l.firstIdx = firstOf l.ents := rfl
    unfold Log.entryTerm at h
    split at h
    · split at h
      · rename_i hp
        simp only [Bool.and_eq_true, decide_eq_true_eq, beq_iff_eq] at hp
        rcases hb with hb | hb
        · rcases hb with hb | hb
          · omega
          · exact absurd hb hne
        · omega
      · simp at h
    · rename_i hr
      simp only [Bool.or_eq_true, beq_iff_eq, decide_eq_true_eq, not_or, Nat.not_lt] at hr
      omega

theorem wf_index_pos {l : Log} (hwf : l.wf = true) : ∀ e ∈ l.ents, 1 ≤ e.index := by
  intro e he
  simp only [Log.wf, Bool.and_eq_true, Bool.or_eq_true, List.isEmpty_iff, decide_eq_true_eq] at hwf
  obtain ⟨⟨hg, h1⟩, _⟩ := hwf
  rcases h1 with h | h
  · rw [h] at he; simp at he
  · have := contigFrom_index_ge ((gapFree_iff _).mp hg) e he
    have : l.firstIdx = firstOf l.ents := rfl
    omega

theorem wf_gapFree {l : Log} (hwf : l.wf = true) : gapFree l.ents = true := by
  simp only [Log.wf, Bool.and_eq_true] at hwf
  exact hwf.1.1

/-- **C08 (follower side, gap-freeness, full strength).** For every well-formed follower log and every
    contiguous request — accepted on any of the four paths, or rejected — the follower's log is gap-free
    afterwards. -/
theorem accept_keeps_gapfree (l : Log) (prev prevTerm : Nat) (es : List Entry)
    (hwf : l.wf = true) (hc : contigFrom (prev + 1) es = true) :
    gapFree (filterAppend l prev prevTerm es).1.ents = true := by
  by_cases hacc : l.entryTerm prev = some prevTerm
  · exact filterAppend_gapFree l prev prevTerm es (wf_gapFree hwf) (wf_index_pos hwf) hc
      (attaches_of_entryTerm hwf hacc)
  · unfold filterAppend
    split
    · simp only [appendE_ents, resetL_ents, List.nil_append]
      exact gapFree_of_contigFrom hc
    · have : (l.entryTerm prev != some prevTerm) = true := by simpa using hacc
      simp only [this, ↓reduceIte]
      exact wf_gapFree hwf

/-- The same through the whole follower workflow (`handle_append_entries_request_workflow`): after any
    contiguous request — accepted, conflicting or stale — the follower's log is gap-free. -/
theorem follower_step_gapfree (st : FState) (r : Req) (hwf : st.log.wf = true) (hc : r.contig = true) :
    gapFree (stepReq st r).1.log.ents = true := by
  unfold stepReq stepReqT
  split
  · exact wf_gapFree hwf
  · simp only [handleAppend]
    split
    · split
      · exact wf_gapFree hwf
      · exact accept_keeps_gapfree _ _ _ _ hwf hc
    · exact wf_gapFree hwf

/-! ### Agreeing entries are never discarded -/

/-- The statement at full strength (any prev, including the virtual `prev = (0,0)`). -/
def AgreeingKeptStatement : Prop :=
  ∀ (l : Log) (prev prevTerm : Nat) (es : List Entry), l.wf = true → contigFrom (prev + 1) es = true →
    (prev = 0 ∧ prevTerm = 0 ∨ l.entryTerm prev = some prevTerm) → es ≠ [] →
    agreeKept l prev es (filterAppend l prev prevTerm es).1 = true

/-- **Refuted as coded** (F9 seen from C08): follower log 1..4 (term 1), request `prev=(0,0)` carrying only
    entry 1 (identical to the follower's): entries 2..4 — which agree with the leader as far as the request
    tells — are wiped by the reset path. -/
theorem agreeing_kept_refuted : ¬ AgreeingKeptStatement := by
  intro h
  have := h (appendE {} [⟨1,1,101⟩, ⟨2,1,102⟩, ⟨3,1,103⟩, ⟨4,1,104⟩]) 0 0 [⟨1,1,101⟩]
    (by decide) (by decide) (by decide) (by decide)
  revert this
  decide

/-- **C08 (follower side, agreement, partial: every `prev ≠ (0,0)`).** Entries at or below `prev`, and
    entries that agree with the leader as far as the request tells, survive; only the reset path is excluded. -/
theorem agreeing_kept_partial (l : Log) (prev prevTerm : Nat) (es : List Entry)
    (hnv : ¬ (prev = 0 ∧ prevTerm = 0)) (hc : contigFrom (prev + 1) es = true) :
    agreeKept l prev es (filterAppend l prev prevTerm es).1 = true := by
  have keepAll : ∀ (l' : Log), (∀ e ∈ l.ents, e ∈ l'.ents) → agreeKept l prev es l' = true := by
    intro l' hk
    simp only [agreeKept, List.all_eq_true, Bool.or_eq_true, Bool.not_eq_true']
    intro e he
    right
    rw [List.contains_iff_mem]
    exact hk e he
  unfold filterAppend
  split
  · rename_i h; simp only [Bool.and_eq_true, beq_iff_eq] at h; exact absurd h hnv
  · split
    · exact keepAll l (fun _ h => h)
    · dsimp only
      split
      · split
        · exact keepAll l (fun _ h => h)
        · exact keepAll _ (fun e h => by simp [appendE_ents, h])
      · unfold slowPath
        split
        · exact keepAll l (fun _ h => h)
        · rename_i d rest hd
          obtain ⟨_, hge, hpe, hmem, _, _⟩ := dropWhile_contig hc hd
          split
          · rename_i hle
            simp only [agreeKept, List.all_eq_true, Bool.or_eq_true, Bool.not_eq_true']
            intro e he
            by_cases hlt : e.index < d.index
            · right
              rw [List.contains_iff_mem, appendE_ents, removeFrom_ents]
              exact List.mem_append_left _ (List.mem_filter.mpr ⟨he, by simpa using hlt⟩)
            · left
              simp only [Bool.or_eq_false_iff, decide_eq_false_iff_not]
              refine ⟨by omega, ?_⟩
              -- the diverging request entry `d` is at or below `e` and is not matched by the follower
              simp only [agreesUpTo]
              rw [Bool.eq_false_iff]
              intro hall
              rw [List.all_eq_true] at hall
              have := hall d hmem
              simp only [diverges, Bool.not_eq_false', Bool.or_eq_true, decide_eq_true_eq, bne_iff_ne, ne_eq] at hpe
              simp only [Bool.or_eq_true, Bool.not_eq_true', decide_eq_false_iff_not, beq_iff_eq] at this
              rcases this with h | h
              · omega
              · rcases hpe with h' | h'
                · omega
                · exact h' h
          · exact keepAll _ (fun e h => by simp [appendE_ents, h])

/-! ## Non-vacuity -/

/-- a diverged follower (stale tail 4,5 of term 1) accepting a contiguous request that truncates it. -/
example :
    let l : Log := appendE {} [⟨1,1,101⟩, ⟨2,1,102⟩, ⟨3,1,103⟩, ⟨4,1,104⟩, ⟨5,1,105⟩]
    l.wf = true ∧ contigFrom 4 [⟨4,2,204⟩, ⟨5,2,205⟩, ⟨6,2,206⟩] = true ∧
    (filterAppend l 3 1 [⟨4,2,204⟩, ⟨5,2,205⟩, ⟨6,2,206⟩]).2.2 = "slow-conflict" ∧
    (filterAppend l 3 1 [⟨4,2,204⟩, ⟨5,2,205⟩, ⟨6,2,206⟩]).1.ents.map (·.index) = [1, 2, 3, 4, 5, 6] := by
  decide

/-- capped catch-up with new entries (the F6 situation): lag 3 ≥ cap 2, one new entry. -/
example :
    let l : Log := appendE {} [⟨1,1,101⟩, ⟨2,1,102⟩, ⟨3,1,103⟩, ⟨4,1,901⟩]
    (buildReq l 1 0 1 (some 1) (rawFor l 3 2 1 [⟨4,1,901⟩])).ents.map (·.index) = [1, 2] ∧
    specNext (buildReq l 1 0 1 (some 1) (rawFor l 3 2 1 [⟨4,1,901⟩])) = 3 := by
  decide

end DEngine.C08
