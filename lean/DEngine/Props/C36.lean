import DEngine.Lemmas.Repl
/-!
# C36 — Merging queued AppendEntries does not change the outcome

Model: `procAcc` / `processQ` (raft.rs `process_inbound_events` + `merge_append_entries`, then
`handle_append_entries_request_workflow`, ONE response fanned out to all merged senders) against
`processSeq` (every request handled on its own). Tied to the real `Raft::process_inbound_events` by the
`repl` correspondence (hook `verif_process_inbound`).

Premise `mergeable`: the code merges the whole queue (`allMerge`) and the queue is what one leader sends in
one term over an ordered stream (`chainWF`: every request contiguous, prev terms consistent with the chain —
the merge rule never looks at `prev_log_term` —, entry terms and leader commit non-decreasing); the follower
log is well-formed.

* `merge_equiv`      — **full strength since fix F50 (commit c57f05e)**: for every `mergeable` queue whose first
  request is accepted, merged and one-at-a-time processing give the same log, term, commit index, and
  `ackEquiv` acknowledgements (every sender gets a success, the merged ack carries the match position of the
  LAST sequential ack, so the leader's `update_peer_index` fold gives the same match/next). No hypothesis about
  tails behind the chain is needed any more: the follower commit rule and the heartbeat ack now use
  `prev + len` (index of last new entry), not the follower's whole last index.
  The old F50 witness (follower 1..10 with stale tail 7..10, queue `prev=5 [6] commit=9`,
  `prev=6 [7 (term 2)] commit=9`: 9 vs 7 before the fix) is kept below as a kernel-checked regression example
  and in `corpus/repl/f50_merge_stale_tail.case`.
* `merge_equiv_log`  — the log/term part on its own.
* `merge_rejected`   — first request rejected: merged processing = that one rejection for everybody.
* `no_merge_literal` — queues the code does not merge at all are processed literally one at a time.
* `per_sender_equality_refuted` — the literal reading "each sender receives the same ack" is false by design
  (first sender of a merged pair gets the match position of the pair's end, and the pre-adoption term).
-/
namespace DEngine.C36
open DEngine.Repl

/-! ## the merged queue is one request -/

theorem mergeAll_prev (acc : Req) (rest : List (Req × Nat)) :
    (mergeAll acc rest).prev = acc.prev ∧ (mergeAll acc rest).prevTerm = acc.prevTerm ∧
      (mergeAll acc rest).term = acc.term := by
  induction rest generalizing acc with
  | nil => exact ⟨rfl, rfl, rfl⟩
  | cons p rest ih =>
    obtain ⟨r, k⟩ := p
    have := ih (mergeReq acc r)
    simpa [mergeAll, mergeReq_prev, mergeReq_prevTerm, mergeReq_term] using this

/-- `process_inbound_events` on a queue that the merge loop swallows whole = one workflow run on the merged
    request, its response fanned out to every sender. -/
theorem procAcc_allMerge (maxMerge : Nat) (st : FState) (acc : Req) (n np : Nat) (rest : List (Req × Nat))
    (h : allMerge maxMerge acc np rest = true) :
    (procAcc maxMerge st acc n np rest).1 = (stepReq st (mergeAll acc rest)).1 ∧
    (procAcc maxMerge st acc n np rest).2.1 =
      List.replicate (n + sumSenders rest) (stepReq st (mergeAll acc rest)).2 := by
  induction rest generalizing acc n np with
  | nil => simp [procAcc, mergeAll, sumSenders, stepReq]
  | cons p rest ih =>
    obtain ⟨r, k⟩ := p
    simp only [allMerge, Bool.and_eq_true] at h
    have := ih (mergeReq acc r) (n + k) (np + r.ents.length) h.2
    simp only [procAcc, h.1, ↓reduceIte, mergeAll, sumSenders]
    rw [this.1, this.2]
    exact ⟨rfl, by rw [Nat.add_assoc]⟩

/-! ## the chain hypotheses, step by step -/

/-- `ChainStep` for every request of the queue, `acc` growing as the merge loop grows it. -/
def ChainOK (l : Log) (acc : Req) : List (Req × Nat) → Prop
  | [] => True
  | (r, _) :: rest =>
    ChainStep l acc r ∧ r.term = acc.term ∧ acc.commit ≤ r.commit ∧ ChainOK l (mergeReq acc r) rest

theorem contig_merge {acc r : Req} (ha : acc.contig = true) (hr : r.contig = true)
    (hc : r.prev = acc.prev + acc.ents.length) : (mergeReq acc r).contig = true := by
  unfold Req.contig at *
  rw [mergeReq_ents, mergeReq_prev, contigFrom_append]
  refine ⟨ha, ?_⟩
  have : acc.prev + 1 + acc.ents.length = r.prev + 1 := by omega
  rw [this]; exact hr

theorem chainOK_of (maxMerge : Nat) (l : Log) (acc : Req) (np : Nat) (rest : List (Req × Nat))
    (hseg : segOK l = true) (hwf : l.wf = true)
    (hacc : (acc.prev = 0 ∧ acc.prevTerm = 0) ∨ l.entryTerm acc.prev = some acc.prevTerm)
    (hnp : np = acc.prev + acc.ents.length) (hca : acc.contig = true)
    (hm : allMerge maxMerge acc np rest = true) (hw : chainWF acc rest = true) : ChainOK l acc rest := by
  induction rest generalizing acc np with
  | nil => trivial
  | cons p rest ih =>
    obtain ⟨r, k⟩ := p
    simp only [allMerge, canMerge, Bool.and_eq_true, beq_iff_eq, Bool.not_eq_true', decide_eq_false_iff_not] at hm
    simp only [chainWF, Bool.and_eq_true, decide_eq_true_eq] at hw
    obtain ⟨⟨⟨hprev, hterm⟩, _⟩, hrest⟩ := hm
    obtain ⟨⟨⟨⟨hcr, hpt⟩, hcommit⟩, hmono⟩, hwrest⟩ := hw
    have hchain : r.prev = acc.prev + acc.ents.length := by omega
    refine ⟨⟨hseg, hwf, hacc, hca, hcr, hchain, hpt, hmono⟩, hterm.symm, hcommit, ?_⟩
    apply ih (mergeReq acc r) (np + r.ents.length) hacc _ (contig_merge hca hcr hchain) hrest hwrest
    rw [mergeReq_ents, mergeReq_prev, List.length_append]; omega

/-! ## one-at-a-time processing of the chain, in closed form -/

/-- log and term after handling the chain one request at a time. -/
theorem seq_log (l : Log) (acc : Req) (rest : List (Req × Nat)) (s : FState)
    (hc : ChainOK l acc rest) (hlog : s.log = logAfter l acc) (hterm : s.term = acc.term) :
    (processSeq s rest).1.log = logAfter l (mergeAll acc rest) ∧ (processSeq s rest).1.term = acc.term ∧
      (processSeq s rest).2.all Ack.isSuccess = true := by
  induction rest generalizing acc s with
  | nil => exact ⟨hlog, hterm, rfl⟩
  | cons p rest ih =>
    obtain ⟨r, k⟩ := p
    obtain ⟨hstep, hrt, _, hrest⟩ := hc
    have hm := logAfter_merge hstep
    have hacc : Accepts s r := ⟨by omega, by rw [hlog]; exact hm.1⟩
    have hs := stepReq_accepted hacc
    have := ih (mergeReq acc r) (stepReq s r).1 hrest (by rw [hs, hlog]; exact hm.2.symm) (by rw [hs]; exact hrt)
    simp only [processSeq, mergeAll]
    refine ⟨this.1, this.2.1, ?_⟩
    rw [List.all_append, this.2.2, hs]
    simp [Ack.isSuccess]

/-- the commit rule composes along the chain (`e' = e + n`, leader commit non-decreasing). -/
theorem commitAfter_merge (c0 : Nat) (acc r : Req) (hc : acc.commit ≤ r.commit)
    (hch : r.prev = acc.prev + acc.ents.length) :
    commitAfter (commitAfter c0 acc) r = commitAfter c0 (mergeReq acc r) := by
  unfold commitAfter
  rw [mergeReq_commit, mergeReq_prev, mergeReq_ents, List.length_append, hch]
  simp only [Nat.max_def, Nat.min_def]
  repeat' split
  all_goals omega

/-- commit index after handling the chain one request at a time. -/
theorem seq_commit (l : Log) (c0 : Nat) (acc : Req) (rest : List (Req × Nat)) (s : FState)
    (hc : ChainOK l acc rest) (hlog : s.log = logAfter l acc) (hterm : s.term = acc.term)
    (hcommit : s.commit = commitAfter c0 acc) :
    (processSeq s rest).1.commit = commitAfter c0 (mergeAll acc rest) := by
  induction rest generalizing acc s with
  | nil => exact hcommit
  | cons p rest ih =>
    obtain ⟨r, k⟩ := p
    obtain ⟨hstep, hrt, hcm, hrest⟩ := hc
    have hm := logAfter_merge hstep
    have hacc : Accepts s r := ⟨by omega, by rw [hlog]; exact hm.1⟩
    have hs := stepReq_accepted hacc
    simp only [processSeq, mergeAll]
    apply ih (mergeReq acc r) (stepReq s r).1 hrest (by rw [hs, hlog]; exact hm.2.symm) (by rw [hs]; exact hrt)
    rw [hs, hcommit]
    exact commitAfter_merge c0 acc r hcm hstep.chain

/-! ## acknowledgements -/

/-- the match position reported for `acc ⊕ r` is the one `r` gets after `acc`. -/
theorem matchAfter_merge {l : Log} {acc r : Req} (h : ChainStep l acc r) :
    matchAfter l (mergeReq acc r) = matchAfter (logAfter l acc) r := by
  have hm := logAfter_merge h
  by_cases hE2 : r.ents = []
  · by_cases hE1 : acc.ents = []
    · -- heartbeats only: same prev, same prev term
      have hprev : r.prev = acc.prev := by have := h.chain; simp [hE1] at this; exact this
      have hpt : r.prevTerm = acc.prevTerm := by
        have := h.pt; simp only [prevTermOK, hE1, List.getLast?_nil, beq_iff_eq] at this; exact this
      simp [matchAfter, mergeReq_ents, hE1, hE2, prevId, mergeReq_prev, mergeReq_prevTerm, hprev, hpt]
    · -- a heartbeat behind entries is acknowledged with the position of the last entry
      cases hx : acc.ents.getLast? with
      | none => exact absurd (List.getLast?_eq_none_iff.mp hx) hE1
      | some x =>
        have hxi : x.index = acc.prev + acc.ents.length := by
          have := lastOf_contig (show contigFrom (acc.prev + 1) acc.ents = true from h.contigA) hE1
          simp only [lastOf, hx] at this
          have hpos : 0 < acc.ents.length := List.length_pos_iff.mpr hE1
          omega
        have hpt : r.prevTerm = x.term := by
          have := h.pt; simp only [prevTermOK, hx, beq_iff_eq] at this; exact this
        have hpos : 0 < acc.ents.length := List.length_pos_iff.mpr hE1
        have hrp : r.prev > 0 := by have := h.chain; omega
        have hack := filterAppend_ack l acc.prev acc.prevTerm acc.ents h.accA
        have hemp1 : acc.ents.isEmpty = false := by simpa using hE1
        simp only [matchAfter, mergeReq_ents, mergeReq_prev, mergeReq_prevTerm, hE2, List.append_nil,
          List.isEmpty_nil, ↓reduceIte, hemp1, Bool.false_eq_true, hack, hx, Option.map_some, prevId, idOf,
          hpt, h.chain, hxi]
        rw [if_pos (by omega)]
  · have hemp2 : r.ents.isEmpty = false := by simpa using hE2
    have hemp12 : (acc.ents ++ r.ents).isEmpty = false := by simp [hE2]
    have h1 := filterAppend_ack l acc.prev acc.prevTerm (acc.ents ++ r.ents) h.accA
    have h2 := filterAppend_ack (logAfter l acc) r.prev r.prevTerm r.ents
      (by rcases hm.1 with h' | h'; exact Or.inl h'; exact Or.inr h')
    simp only [matchAfter, mergeReq_ents, mergeReq_prev, mergeReq_prevTerm, hemp2, hemp12, Bool.false_eq_true,
      ↓reduceIte, h1, h2]
    cases hr : r.ents with
    | nil => exact absurd hr hE2
    | cons y ys => rw [getLast?_suffix_cons]

/-- match position of the last ack of one-at-a-time processing. -/
theorem seq_lastAck (l : Log) (acc : Req) (rest : List (Req × Nat)) (s : FState) (hne : rest ≠ [])
    (hk : ∀ p ∈ rest, 0 < p.2)
    (hc : ChainOK l acc rest) (hlog : s.log = logAfter l acc) (hterm : s.term = acc.term) :
    (processSeq s rest).2.getLast?.bind Ack.matchId = matchAfter l (mergeAll acc rest) := by
  induction rest generalizing acc s with
  | nil => exact absurd rfl hne
  | cons p rest ih =>
    obtain ⟨r, k⟩ := p
    obtain ⟨hstep, hrt, _, hrest⟩ := hc
    have hm := logAfter_merge hstep
    have hacc : Accepts s r := ⟨by omega, by rw [hlog]; exact hm.1⟩
    have hs := stepReq_accepted hacc
    have hk0 : 0 < k := hk (r, k) List.mem_cons_self
    cases rest with
    | nil =>
      have hma := matchAfter_merge hstep
      simp only [processSeq, mergeAll, List.append_nil, hs]
      rw [hma, hlog]
      obtain ⟨k', rfl⟩ : ∃ k', k = k' + 1 := ⟨k - 1, by omega⟩
      simp [List.replicate_succ', Ack.matchId]
    | cons q rest' =>
      have := ih (mergeReq acc r) (stepReq s r).1 (by simp) (fun p hp => hk p (List.mem_cons_of_mem _ hp)) hrest
        (by rw [hs, hlog]; exact hm.2.symm) (by rw [hs]; exact hrt)
      simp only [processSeq, mergeAll] at this ⊢
      rw [List.getLast?_append]
      rw [← this]
      cases hgl : (List.replicate q.2 (stepReq (stepReq s r).1 q.1).2 ++
          (processSeq (stepReq (stepReq s r).1 q.1).1 rest').2).getLast? with
      | none =>
        have hq0 : 0 < q.2 := hk q (List.mem_cons_of_mem _ List.mem_cons_self)
        rw [List.getLast?_eq_none_iff] at hgl
        have : (List.replicate q.2 (stepReq (stepReq s r).1 q.1).2).length = 0 := by
          have := congrArg List.length hgl; simp at this; omega
        simp at this; omega
      | some a => rfl

/-! ## the theorems -/

theorem processSeq_cons (st : FState) (r : Req) (k : Nat) (rest : List (Req × Nat)) :
    (processSeq st ((r, k) :: rest)).2 =
      List.replicate k (stepReq st r).2 ++ (processSeq (stepReq st r).1 rest).2 := rfl

theorem sumSenders_pos {rest : List (Req × Nat)} (hne : rest ≠ []) (hk : ∀ p ∈ rest, 0 < p.2) :
    0 < sumSenders rest := by
  cases rest with
  | nil => exact absurd rfl hne
  | cons p rest =>
    obtain ⟨r, k⟩ := p
    have := hk (r, k) List.mem_cons_self
    simp only [sumSenders] at this ⊢; omega

/-- the queue `(r, k) :: rest` as the merge loop and one-at-a-time processing see it. -/
theorem processQ_merged (maxMerge : Nat) (st : FState) (r : Req) (k : Nat) (rest : List (Req × Nat))
    (hm : mergeable maxMerge st r rest = true) :
    (processQ maxMerge st ((r, k) :: rest)).1 = (stepReq st (mergeAll r rest)).1 ∧
    (processQ maxMerge st ((r, k) :: rest)).2.1 =
      List.replicate (k + sumSenders rest) (stepReq st (mergeAll r rest)).2 := by
  simp only [mergeable, Bool.and_eq_true] at hm
  exact procAcc_allMerge maxMerge st r k _ rest hm.1.1.1.1.1

theorem accepts_mergeAll {st : FState} {r : Req} (rest : List (Req × Nat)) (h : Accepts st r) :
    Accepts st (mergeAll r rest) := by
  obtain ⟨h1, h2, h3⟩ := mergeAll_prev r rest
  unfold Accepts at *
  rw [h1, h2, h3]; exact h

theorem chainOK_of_mergeable {maxMerge : Nat} {st : FState} {r : Req} {rest : List (Req × Nat)}
    (hm : mergeable maxMerge st r rest = true) (hacc : Accepts st r) : ChainOK st.log r rest := by
  simp only [mergeable, Bool.and_eq_true] at hm
  obtain ⟨⟨⟨⟨⟨hall, hc⟩, _⟩, hw⟩, hwf⟩, hseg⟩ := hm
  exact chainOK_of maxMerge st.log r _ rest hseg hwf hacc.2 rfl hc hall hw

/-- **C36, log and term (full strength for `mergeable` queues whose first request is accepted).** -/
theorem merge_equiv_log (maxMerge : Nat) (st : FState) (r : Req) (k : Nat) (rest : List (Req × Nat))
    (hm : mergeable maxMerge st r rest = true) (hacc : Accepts st r) :
    (processQ maxMerge st ((r, k) :: rest)).1.log = (processSeq st ((r, k) :: rest)).1.log ∧
    (processQ maxMerge st ((r, k) :: rest)).1.term = (processSeq st ((r, k) :: rest)).1.term := by
  have hq := processQ_merged maxMerge st r k rest hm
  have hc := chainOK_of_mergeable hm hacc
  have hs1 := stepReq_accepted hacc
  have hsM := stepReq_accepted (accepts_mergeAll rest hacc)
  have hseq := seq_log st.log r rest (stepReq st r).1 hc (by rw [hs1]) (by rw [hs1])
  simp only [processSeq]
  rw [hq.1, hsM, hseq.1, hseq.2.1]
  exact ⟨rfl, (mergeAll_prev r rest).2.2⟩

/-- **C36 (full strength): log, term, commit index and acknowledgements** are the same merged or one at a
    time, for every `mergeable` queue whose first request is accepted (every event carrying ≥ 1 sender). -/
theorem merge_equiv (maxMerge : Nat) (st : FState) (r : Req) (k : Nat) (rest : List (Req × Nat))
    (hk : 0 < k ∧ ∀ p ∈ rest, 0 < p.2)
    (hm : mergeable maxMerge st r rest = true) (hacc : Accepts st r) :
    (processQ maxMerge st ((r, k) :: rest)).1.log = (processSeq st ((r, k) :: rest)).1.log ∧
    (processQ maxMerge st ((r, k) :: rest)).1.term = (processSeq st ((r, k) :: rest)).1.term ∧
    (processQ maxMerge st ((r, k) :: rest)).1.commit = (processSeq st ((r, k) :: rest)).1.commit ∧
    ackEquiv (processQ maxMerge st ((r, k) :: rest)).2.1 (processSeq st ((r, k) :: rest)).2 = true := by
  have hl := merge_equiv_log maxMerge st r k rest hm hacc
  have hq := processQ_merged maxMerge st r k rest hm
  have hc := chainOK_of_mergeable hm hacc
  have hs1 := stepReq_accepted hacc
  have hsM := stepReq_accepted (accepts_mergeAll rest hacc)
  have hseq := seq_log st.log r rest (stepReq st r).1 hc (by rw [hs1]) (by rw [hs1])
  have hcm := seq_commit st.log st.commit r rest (stepReq st r).1 hc (by rw [hs1]) (by rw [hs1]) (by rw [hs1])
  refine ⟨hl.1, hl.2, ?_, ?_⟩
  · simp only [processSeq]
    rw [hq.1, hsM, hcm]
  · -- acknowledgements
    have hlen : ∀ (s : FState) (q : List (Req × Nat)), (processSeq s q).2.length = sumSenders q := by
      intro s q
      induction q generalizing s with
      | nil => rfl
      | cons p q ih => obtain ⟨r', k'⟩ := p; simp [processSeq, sumSenders, ih]
    simp only [ackEquiv, Bool.and_eq_true, beq_iff_eq]
    refine ⟨⟨⟨?_, ?_⟩, ?_⟩, ?_⟩
    · rw [hq.2, hlen]; simp [sumSenders]
    · rw [hq.2, hsM]; simp [Ack.isSuccess]
    · simp only [processSeq, List.all_append, Bool.and_eq_true]
      exact ⟨by rw [hs1]; simp [Ack.isSuccess], hseq.2.2⟩
    · rw [hq.2, hsM]
      have hpos : ¬ (k + sumSenders rest = 0) := by omega
      simp only [List.all_replicate, hpos, ↓reduceIte, beq_iff_eq, Ack.matchId]
      by_cases hr : rest = []
      · subst hr
        obtain ⟨k', hk'⟩ : ∃ k', k = k' + 1 := ⟨k - 1, by omega⟩
        simp [processSeq, mergeAll, hs1, hk', List.replicate_succ', Ack.matchId]
      · have hla := seq_lastAck st.log r rest (stepReq st r).1 hr hk.2 hc (by rw [hs1]) (by rw [hs1])
        rw [processSeq_cons, List.getLast?_append, ← hla]
        cases hgl : (processSeq (stepReq st r).1 rest).2.getLast? with
        | none =>
          rw [List.getLast?_eq_none_iff] at hgl
          have h1 := hlen (stepReq st r).1 rest
          rw [hgl] at h1
          have h2 := sumSenders_pos hr hk.2
          simp at h1; omega
        | some a => rfl

/-- First request rejected (stale term or log conflict): the merged request is rejected in exactly the same
    way, every sender receives that response, and the state is the one after that single rejection. -/
theorem merge_rejected (maxMerge : Nat) (st : FState) (r : Req) (k : Nat) (rest : List (Req × Nat))
    (hall : allMerge maxMerge r (r.prev + r.ents.length) rest = true) (hrej : ¬ Accepts st r) :
    (processQ maxMerge st ((r, k) :: rest)).1 = (stepReq st r).1 ∧
    (processQ maxMerge st ((r, k) :: rest)).2.1 = List.replicate (k + sumSenders rest) (stepReq st r).2 := by
  have hq := procAcc_allMerge maxMerge st r k _ rest hall
  obtain ⟨h1, h2, h3⟩ := mergeAll_prev r rest
  have hsame : stepReq st (mergeAll r rest) = stepReq st r := by
    have hrejM : ¬ Accepts st (mergeAll r rest) := by unfold Accepts at *; rw [h1, h2, h3]; exact hrej
    have e1 : ¬ (checkLegal st.term (mergeAll r rest) st.log).1.isSuccess = true :=
      fun h => hrejM ((checkLegal_success_iff _ _ _).mp h)
    have e2 : ¬ (checkLegal st.term r st.log).1.isSuccess = true :=
      fun h => hrej ((checkLegal_success_iff _ _ _).mp h)
    have hchk : checkLegal st.term (mergeAll r rest) st.log = checkLegal st.term r st.log := by
      unfold checkLegal; rw [h1, h2, h3]
    unfold stepReq stepReqT
    rw [h3]
    split
    · rfl
    · simp only [handleAppend, e1, e2, Bool.false_eq_true, ↓reduceIte, hchk]
  simp only [processQ]
  rw [hq.1, hq.2, hsame]
  exact ⟨rfl, rfl⟩

/-- Queues in which no request is merged with its predecessor are handled literally one at a time: same
    state, same ack for every sender. -/
theorem no_merge_literal (maxMerge : Nat) (st : FState) (r : Req) (k : Nat) (rest : List (Req × Nat))
    (h : noMerge maxMerge r rest = true) :
    (processQ maxMerge st ((r, k) :: rest)).1 = (processSeq st ((r, k) :: rest)).1 ∧
    (processQ maxMerge st ((r, k) :: rest)).2.1 = (processSeq st ((r, k) :: rest)).2 := by
  simp only [processQ]
  induction rest generalizing st r k with
  | nil => simp [procAcc, processSeq, stepReq]
  | cons p rest ih =>
    obtain ⟨r', k'⟩ := p
    simp only [noMerge, Bool.and_eq_true, Bool.not_eq_true'] at h
    have := ih (stepReq st r).1 r' k' h.2
    simp only [procAcc, h.1, Bool.false_eq_true, ↓reduceIte]
    simp only [processSeq, stepReq_fst, stepReq_snd] at this ⊢
    exact ⟨this.1, by rw [this.2]⟩

/-! ## the old F50 witness, now a regression example -/

/-- follower of term 2, commit 3, log 1..10 all term 1 (7..10 is a stale tail: the leader's 7.. are term 2). -/
def wStaleTail : FState :=
  { term := 2, commit := 3,
    log := appendE {} [⟨1,1,101⟩, ⟨2,1,102⟩, ⟨3,1,103⟩, ⟨4,1,104⟩, ⟨5,1,105⟩, ⟨6,1,106⟩, ⟨7,1,107⟩, ⟨8,1,108⟩,
                        ⟨9,1,109⟩, ⟨10,1,110⟩] }
/-- leader (term 2, log 1..6 term 1, 7.. term 2, commit 9, cap 1): `prev=5 [6]`, then `prev=6 [7 (term 2)]`. -/
def wR1 : Req := { term := 2, leader := 1, prev := 5, prevTerm := 1, commit := 9, ents := [⟨6,1,106⟩] }
def wR2 : Req := { term := 2, leader := 1, prev := 6, prevTerm := 1, commit := 9, ents := [⟨7,2,207⟩] }

/-- Before fix F50 one-at-a-time processing ended with commit = 9 on a log ending at 7 (stale 7..9 were
    committed, then truncated) while merged processing ended with commit = 7. Now both give 7, and the
    intermediate commit index after the first request is 6 = prev + len. -/
example : (processQ 1000 wStaleTail [(wR1, 1), (wR2, 1)]).1.commit = 7 ∧
          (processSeq wStaleTail [(wR1, 1), (wR2, 1)]).1.commit = 7 ∧
          (stepReq wStaleTail wR1).1.commit = 6 ∧
          (processSeq wStaleTail [(wR1, 1), (wR2, 1)]).1.log.lastIdx = 7 := by decide

/-- a trailing heartbeat is acknowledged with the position it verified, (6,1), not the follower's whole last
    log id (10,1) — merged or not. -/
example :
    (processSeq wStaleTail [(wR1, 1), ({ wR1 with prev := 6, ents := [] }, 1)]).2 =
      [.success 2 (some (6, 1)), .success 2 (some (6, 1))] := by decide

/-! ## what is false by design -/

/-- The literal reading — every sender receives the very response it would have received alone — is false
    by design even in the most benign case (empty follower, two abutting requests, term adoption): sender 1
    gets the match position of the pair's end; sender 2 gets the pre-adoption term. -/
def PerSenderEqualityStatement : Prop :=
  ∀ (maxMerge : Nat) (st : FState) (r : Req) (k : Nat) (rest : List (Req × Nat)),
    mergeable maxMerge st r rest = true → Accepts st r →
    (processQ maxMerge st ((r, k) :: rest)).2.1 = (processSeq st ((r, k) :: rest)).2

theorem per_sender_equality_refuted : ¬ PerSenderEqualityStatement := by
  intro h
  have := h 1000 { term := 1, commit := 0, log := {} }
    { term := 2, leader := 1, prev := 0, prevTerm := 0, commit := 0, ents := [⟨1,2,101⟩] } 1
    [({ term := 2, leader := 1, prev := 1, prevTerm := 2, commit := 0, ents := [⟨2,2,102⟩] }, 1)]
    (by decide) (by decide)
  revert this
  decide

/-! ## Non-vacuity -/

/-- a pipelined queue of three requests (entries, heartbeat, entries) on a lagging follower satisfies every
    hypothesis of `merge_equiv`, and is really merged. -/
example :
    let st : FState := { term := 2, commit := 1, log := appendE {} [⟨1,1,101⟩, ⟨2,1,102⟩] }
    let r1 : Req := { term := 2, leader := 1, prev := 2, prevTerm := 1, commit := 2, ents := [⟨3,1,103⟩, ⟨4,2,104⟩] }
    let r2 : Req := { term := 2, leader := 1, prev := 4, prevTerm := 2, commit := 3, ents := [] }
    let r3 : Req := { term := 2, leader := 1, prev := 4, prevTerm := 2, commit := 5, ents := [⟨5,2,105⟩] }
    mergeable 1000 st r1 [(r2, 1), (r3, 1)] = true ∧ Accepts st r1 ∧
    (processQ 1000 st [(r1, 1), (r2, 1), (r3, 1)]).1.commit = 5 := by
  refine ⟨by decide, ⟨by decide, Or.inr (by decide)⟩, by decide⟩

/-! ## content of the merged request (continuation session, DESIGN.md 12.10) -/
/-- the merged request carries every queued entry exactly once, in queue order: merging neither drops, duplicates
    nor reorders entries -/
theorem mergeAll_ents (acc : Req) (rest : List (Req × Nat)) :
    (mergeAll acc rest).ents = acc.ents ++ (rest.map (·.1.ents)).flatten := by
  induction rest generalizing acc with
  | nil => simp [mergeAll]
  | cons p rest ih =>
    obtain ⟨r, k⟩ := p
    simp [mergeAll, ih, mergeReq_ents, List.append_assoc]

/-- the merged commit index is at least every queued request's commit index and is one of them (or the front's) -/
theorem mergeAll_commit_ge (acc : Req) (rest : List (Req × Nat)) :
    acc.commit ≤ (mergeAll acc rest).commit ∧ ∀ p ∈ rest, p.1.commit ≤ (mergeAll acc rest).commit := by
  induction rest generalizing acc with
  | nil => simp [mergeAll]
  | cons p rest ih =>
    obtain ⟨r, k⟩ := p
    obtain ⟨h1, h2⟩ := ih (mergeReq acc r)
    rw [mergeReq_commit] at h1
    refine ⟨by simp only [mergeAll]; omega, ?_⟩
    intro q hq
    rcases List.mem_cons.mp hq with h | h
    · subst h; simp only [mergeAll]; omega
    · exact h2 q h

end DEngine.C36
