import DEngine.Model.KV
import DEngine.Lemmas.KV
import DEngine.Lemmas.KVScan
/-!
# C22 — Key-value commands have the documented semantics on every engine

Reference semantics: `refRun : Store → List Cmd → Store × List Bool` on `Store = Key → Option Val`
(put / delete always succeed; CAS succeeds exactly when the current value equals the expected one, with
absent matching absent).

* `file_apply_refines_ref`  — the model of `FileStateMachine::apply_chunk` (key-scoped `base`, `delta`
  overlay, outcomes precomputed before the memory update) gives, for every chunk that passes the ordering
  assert and every state, the contents and flags of the reference semantics.
* `rocks_apply_refines_ref` — same for `RocksDBStateMachine::apply_chunk` (indexed write batch,
  read-your-writes, one atomic `write_wbwi`).
* `engines_agree`           — hence both engines agree on contents and flags.
* `chunking_irrelevant_file / _rocks` — any split of an ordered entry list into apply batches gives the same
  contents, flags and `last_applied` as one batch.
* `panic_iff_unordered_*`   — the only way `apply_chunk` does not return is the documented ordering assert.
* reads: `get`, `get_multi` return the reference store's values (position by position); `scan_prefix`
  returns exactly the bindings of the reference store whose key has the prefix (File: every prefix;
  RocksDB: every non-empty prefix, see C25 for the empty-prefix divergence).
-/
namespace DEngine.C22
open DEngine.KV

/-! ## File engine -/

theorem fileAbs_eq_dataView (st : FileSt) : fileAbs st = dataView st.data := rfl

theorem file_pre_correct (st : FileSt) (chunk : List Entry) :
    filePre (fileBase st.data chunk) [] chunk = casFlags (dataView st.data) (chunk.map (·.cmd)) := by
  apply filePre_eq_casFlags (dataView st.data)
  refine ⟨?_, ?_, ?_⟩
  · intro k x hx; simp [AMap.get] at hx
  · intro k _; rfl
  · intro k hk; rw [fileBase_get st.data chunk k hk]; rfl

/-- **File engine refines the reference semantics** (contents + per-entry flags + last_applied),
    for every state and every chunk accepted by the ordering assert. -/
theorem file_apply_refines_ref (st : FileSt) (chunk : List Entry) (h : ordered none chunk = true) :
    ∃ st', fileApplyChunk st chunk = some (st', (refRun (fileAbs st) (chunk.map (·.cmd))).2) ∧
      fileAbs st' = (refRun (fileAbs st) (chunk.map (·.cmd))).1 ∧
      (st'.laIndex, st'.laTerm) = (highest chunk).getD (st.laIndex, st.laTerm) := by
  have hp := file_pre_correct st chunk
  have h3 := filePhase3_refines chunk st.data
  simp only at h3
  unfold fileApplyChunk
  simp only [h, Bool.not_true, Bool.false_eq_true, if_false, hp]
  rw [fileAbs_eq_dataView, ← h3.2, ← h3.1]
  cases hh : highest chunk with
  | none => exact ⟨_, rfl, rfl, rfl⟩
  | some it => obtain ⟨i, t⟩ := it; exact ⟨_, rfl, rfl, rfl⟩

theorem panic_iff_unordered_file (st : FileSt) (chunk : List Entry) :
    fileApplyChunk st chunk = none ↔ ordered none chunk = false := by
  constructor
  · intro hn
    cases ho : ordered none chunk with
    | false => rfl
    | true =>
      obtain ⟨st', h1, _⟩ := file_apply_refines_ref st chunk ho
      rw [h1] at hn; cases hn
  · intro ho; simp [fileApplyChunk, ho]

/-! ## RocksDB engine -/

theorem rocksAbs_eq (st : RocksSt) : rocksAbs st = batchView st.db [] := rfl

/-- **RocksDB engine refines the reference semantics.** -/
theorem rocks_apply_refines_ref (st : RocksSt) (chunk : List Entry) (h : ordered none chunk = true) :
    ∃ st', rocksApplyChunk st chunk = some (st', (refRun (rocksAbs st) (chunk.map (·.cmd))).2) ∧
      rocksAbs st' = (refRun (rocksAbs st) (chunk.map (·.cmd))).1 ∧
      (st'.laIndex, st'.laTerm) = (highest chunk).getD (st.laIndex, st.laTerm) := by
  obtain ⟨b', res, h1, h2, h3⟩ := rocksLoop_refines st.db chunk [] none h
  have hview : rocksAbs { db := writeBatch st.db b', laIndex := 0, laTerm := 0 }
      = (refRun (rocksAbs st) (chunk.map (·.cmd))).1 := by
    rw [rocksAbs_eq st, ← h2]
    funext k
    show (writeBatch st.db b').get k = _
    rw [get_writeBatch]; rfl
  unfold rocksApplyChunk
  simp only [h1]
  rw [rocksAbs_eq st, ← h3, ← rocksAbs_eq st, ← hview]
  cases hh : highest chunk with
  | none => exact ⟨_, rfl, rfl, rfl⟩
  | some it => obtain ⟨i, t⟩ := it; exact ⟨_, rfl, rfl, rfl⟩

theorem panic_iff_unordered_rocks (st : RocksSt) (chunk : List Entry) :
    rocksApplyChunk st chunk = none ↔ ordered none chunk = false := by
  constructor
  · intro hn
    cases ho : ordered none chunk with
    | false => rfl
    | true =>
      obtain ⟨st', h1, _⟩ := rocks_apply_refines_ref st chunk ho
      rw [h1] at hn; cases hn
  · intro ho; simp [rocksApplyChunk, rocksLoop_none_of_unordered st.db chunk [] none ho]

/-- **The two engines agree** on flags, contents and last_applied whenever they start from states with the
    same contents. -/
theorem engines_agree (fs : FileSt) (rs : RocksSt) (chunk : List Entry)
    (hsame : fileAbs fs = rocksAbs rs) (hla : (fs.laIndex, fs.laTerm) = (rs.laIndex, rs.laTerm))
    (h : ordered none chunk = true) :
    ∃ fs' rs' flags, fileApplyChunk fs chunk = some (fs', flags) ∧ rocksApplyChunk rs chunk = some (rs', flags) ∧
      fileAbs fs' = rocksAbs rs' ∧ (fs'.laIndex, fs'.laTerm) = (rs'.laIndex, rs'.laTerm) := by
  obtain ⟨fs', f1, f2, f3⟩ := file_apply_refines_ref fs chunk h
  obtain ⟨rs', r1, r2, r3⟩ := rocks_apply_refines_ref rs chunk h
  refine ⟨fs', rs', _, f1, ?_, ?_, ?_⟩
  · rw [hsame]; exact r1
  · rw [f2, r2, hsame]
  · rw [f3, r3, hla]

/-! ## chunking -/

theorem file_chunks_refine : ∀ (css : List (List Entry)) (st : FileSt),
    ordered none css.flatten = true →
    ∃ st', fileApplyChunks st css = some (st', (refRun (fileAbs st) (css.flatten.map (·.cmd))).2) ∧
      fileAbs st' = (refRun (fileAbs st) (css.flatten.map (·.cmd))).1 ∧
      (st'.laIndex, st'.laTerm) = (highest css.flatten).getD (st.laIndex, st.laTerm) := by
  intro css
  induction css with
  | nil => intro st _; exact ⟨st, rfl, rfl, rfl⟩
  | cons c cs ih =>
    intro st h
    simp only [List.flatten_cons] at h ⊢
    rw [ordered_append] at h
    simp only [Bool.and_eq_true] at h
    obtain ⟨st1, a1, a2, a3⟩ := file_apply_refines_ref st c h.1
    obtain ⟨st2, b1, b2, b3⟩ := ih st1 (ordered_weaken _ _ h.2)
    refine ⟨st2, ?_, ?_, ?_⟩
    · simp only [fileApplyChunks, a1, b1, Option.map_some, List.map_append]
      rw [refRun_append]
      rw [a2]
    · simp only [List.map_append] at *
      rw [refRun_append, b2, a2]
    · rw [b3, highest_append]
      by_cases hcs : cs.flatten = []
      · simp [hcs, highest, a3]
      · simp only [hcs, if_false]
        cases hh : highest cs.flatten with
        | some x => rfl
        | none =>
          exfalso
          cases hf : cs.flatten with
          | nil => exact hcs hf
          | cons e es =>
            rw [hf] at hh
            clear hf
            induction es generalizing e with
            | nil => simp [highest] at hh
            | cons e' es' ih2 => exact ih2 e' (by simpa [highest] using hh)

/-- **Chunking is irrelevant (File engine):** any split `css` of an ordered entry list into apply batches
    gives the same flags, contents and last_applied as applying the whole list as one batch. -/
theorem chunking_irrelevant_file (st : FileSt) (css : List (List Entry))
    (h : ordered none css.flatten = true) :
    ∃ st1 st2 flags, fileApplyChunks st css = some (st1, flags) ∧
      fileApplyChunk st css.flatten = some (st2, flags) ∧
      fileAbs st1 = fileAbs st2 ∧ (st1.laIndex, st1.laTerm) = (st2.laIndex, st2.laTerm) := by
  obtain ⟨st1, a1, a2, a3⟩ := file_chunks_refine css st h
  obtain ⟨st2, b1, b2, b3⟩ := file_apply_refines_ref st css.flatten h
  exact ⟨st1, st2, _, a1, b1, by rw [a2, b2], by rw [a3, b3]⟩

theorem rocks_chunks_refine : ∀ (css : List (List Entry)) (st : RocksSt),
    ordered none css.flatten = true →
    ∃ st', rocksApplyChunks st css = some (st', (refRun (rocksAbs st) (css.flatten.map (·.cmd))).2) ∧
      rocksAbs st' = (refRun (rocksAbs st) (css.flatten.map (·.cmd))).1 ∧
      (st'.laIndex, st'.laTerm) = (highest css.flatten).getD (st.laIndex, st.laTerm) := by
  intro css
  induction css with
  | nil => intro st _; exact ⟨st, rfl, rfl, rfl⟩
  | cons c cs ih =>
    intro st h
    simp only [List.flatten_cons] at h ⊢
    rw [ordered_append] at h
    simp only [Bool.and_eq_true] at h
    obtain ⟨st1, a1, a2, a3⟩ := rocks_apply_refines_ref st c h.1
    obtain ⟨st2, b1, b2, b3⟩ := ih st1 (ordered_weaken _ _ h.2)
    refine ⟨st2, ?_, ?_, ?_⟩
    · simp only [rocksApplyChunks, a1, b1, Option.map_some, List.map_append]
      rw [refRun_append]
      rw [a2]
    · simp only [List.map_append] at *
      rw [refRun_append, b2, a2]
    · rw [b3, highest_append]
      by_cases hcs : cs.flatten = []
      · simp [hcs, highest, a3]
      · simp only [hcs, if_false]
        cases hh : highest cs.flatten with
        | some x => rfl
        | none =>
          exfalso
          cases hf : cs.flatten with
          | nil => exact hcs hf
          | cons e es =>
            rw [hf] at hh
            clear hf
            induction es generalizing e with
            | nil => simp [highest] at hh
            | cons e' es' ih2 => exact ih2 e' (by simpa [highest] using hh)

/-- **Chunking is irrelevant (RocksDB engine).** -/
theorem chunking_irrelevant_rocks (st : RocksSt) (css : List (List Entry))
    (h : ordered none css.flatten = true) :
    ∃ st1 st2 flags, rocksApplyChunks st css = some (st1, flags) ∧
      rocksApplyChunk st css.flatten = some (st2, flags) ∧
      rocksAbs st1 = rocksAbs st2 ∧ (st1.laIndex, st1.laTerm) = (st2.laIndex, st2.laTerm) := by
  obtain ⟨st1, a1, a2, a3⟩ := rocks_chunks_refine css st h
  obtain ⟨st2, b1, b2, b3⟩ := rocks_apply_refines_ref st css.flatten h
  exact ⟨st1, st2, _, a1, b1, by rw [a2, b2], by rw [a3, b3]⟩

/-! ## the reference semantics says what the property says -/

/-- CAS rule: succeeds exactly when current = expected (absent matches absent); on success the key holds
    the new value, on failure nothing changes; every other command succeeds. -/
theorem ref_cas_rule (s : Store) (k : Key) (e : Option Val) (v : Val) :
    ((refStep s (.cas k e v)).2 = true ↔ s k = e) ∧
    (s k = e → (refStep s (.cas k e v)).1 = s.set k (some v)) ∧
    (s k ≠ e → (refStep s (.cas k e v)).1 = s) := by
  by_cases h : s k = e <;> simp [refStep, h]

theorem ref_absent_matches_absent (s : Store) (k : Key) (v : Val) (h : s k = none) :
    refStep s (.cas k none v) = (s.set k (some v), true) := by
  simp [refStep, h]

theorem ref_empty_is_not_absent (s : Store) (k : Key) (v : Val) (h : s k = none) :
    refStep s (.cas k (some []) v) = (s, false) := by
  simp [refStep, h]

/-! ## reads -/

theorem file_get_spec (st : FileSt) (k : Key) : fileGet st k = fileAbs st k := rfl
theorem rocks_get_spec (st : RocksSt) (k : Key) : rocksGet st k = rocksAbs st k := rfl

/-- `get_multi` is positional: same length, `result[i] = store(keys[i])` (duplicates, missing keys and
    empty values included — `some []` is a value, `none` is absence). -/
theorem file_get_multi_spec (st : FileSt) (keys : List Key) :
    (fileGetMulti st keys).length = keys.length ∧
    ∀ i : Nat, (fileGetMulti st keys)[i]? = keys[i]?.map (fileAbs st) := by
  refine ⟨by simp [fileGetMulti], fun i => ?_⟩
  simp only [fileGetMulti, List.getElem?_map]; rfl

theorem rocks_get_multi_spec (st : RocksSt) (keys : List Key) :
    (rocksGetMulti st keys).length = keys.length ∧
    ∀ i : Nat, (rocksGetMulti st keys)[i]? = keys[i]?.map (rocksAbs st) := by
  refine ⟨by simp [rocksGetMulti], fun i => ?_⟩
  simp only [rocksGetMulti, List.getElem?_map]; rfl

/-- `scan_prefix` on both engines returns exactly the bindings of the reference store whose key starts with
    the prefix (RocksDB: via the iterator bounds `[prefix, prefix_successor(prefix))`, any non-empty prefix,
    0xFF bytes included), so the engines agree with each other and with the spec map.  (States reachable by
    `apply_chunk` have no duplicate keys: `C25.file_wf_apply`, `C25.rocks_wf_apply`.) -/
theorem scan_reads_agree (fs : FileSt) (rs : RocksSt) (hf : AMap.WF fs.data) (hr : AMap.WF rs.db)
    (hsame : fileAbs fs = rocksAbs rs) (p : Bytes) (hp : p ≠ []) (k : Key) (v : Val) :
    ((k, v) ∈ (fileScan fs p).1 ↔ (startsWith k p = true ∧ fileAbs fs k = some v)) ∧
    ((k, v) ∈ (rocksScan rs p).1 ↔ (startsWith k p = true ∧ fileAbs fs k = some v)) := by
  refine ⟨fileScan_exact fs hf p k v, ?_⟩
  rw [hsame]
  exact rocksScan_exact rs hr p hp k v

/-! ## non-vacuity: concrete runs (kernel-evaluated on the models) -/

def k1 : Key := [0x61]
def vx : Val := [0x78]
def vy : Val := [0x79]
/-- put k x ; cas k x→y ; cas k x→y (now stale) ; del k ; cas k none→x — all in ONE chunk. -/
def demo : List Entry :=
  [⟨1, 1, .put k1 vx none⟩, ⟨2, 1, .cas k1 (some vx) vy⟩, ⟨3, 1, .cas k1 (some vx) vy⟩,
   ⟨4, 1, .del k1⟩, ⟨5, 1, .cas k1 none vx⟩]

example : ordered none demo = true := by decide
example : (fileApplyChunk FileSt.init demo).map (·.2) = some [true, true, false, true, true] := by decide
example : (rocksApplyChunk RocksSt.init demo).map (·.2) = some [true, true, false, true, true] := by decide
example : (fileApplyChunks FileSt.init [demo.take 2, demo.drop 2]).map (·.2)
    = some [true, true, false, true, true] := by decide
example : ((fileApplyChunk FileSt.init demo).map fun r => fileGet r.1 k1) = some (some vx) := by decide
/-- unordered chunk: both models panic -/
example : fileApplyChunk FileSt.init [⟨2, 1, .noop⟩, ⟨2, 1, .noop⟩] = none := by decide
example : rocksApplyChunk RocksSt.init [⟨2, 1, .noop⟩, ⟨2, 1, .noop⟩] = none := by decide

/-! ## CAS laws of the reference semantics (continuation session, DESIGN.md 12.10) -/
/-- a failed CAS changes nothing; a successful one is exactly a put (reference semantics both engines refine) -/
theorem ref_cas_fail_is_noop (s : Store) (k : Key) (e : Option Val) (v : Val) (h : s k ≠ e) :
    refStep s (.cas k e v) = (s, false) := by
  simp [refStep, h]

theorem ref_cas_success_is_put (s : Store) (k : Key) (e : Option Val) (v : Val) (t : Option Nat) (h : s k = e) :
    (refStep s (.cas k e v)).1 = (refStep s (.put k v t)).1 := by
  simp [refStep, h]

/-- a CAS retried after it succeeded fails unless it was already a no-op (expected = new value): retrying a CAS
    cannot apply it twice with effect -/
theorem ref_cas_retry (s : Store) (k : Key) (e : Option Val) (v : Val) (h : s k = e) (hne : e ≠ some v) :
    refStep (refStep s (.cas k e v)).1 (.cas k e v) = ((refStep s (.cas k e v)).1, false) := by
  have : (s.set k (some v)) k ≠ e := by simpa [Store.set] using fun h' => hne h'.symm
  simp [refStep, h, this]

end DEngine.C22
