import DEngine.Lemmas.KvCrash
/-!
# C15 — Each committed entry is applied exactly once across crashes (engine level)

Model: `DEngine.KvCrash` — FS-level File state machine (WAL append, checkpoint = truncate+write of
`state.data`, truncate+write of `metadata.bin`, WAL clear; sync flush; Drop; `load_from_disk` + `replay_wal`)
and key-level RocksDB state machine, crash = process exit without Drop at any point between file
operations; tied to the real engines by family `kvcrash` (crash image = copy of the data directory taken at
the engine's own crash points through a guarded callback; real `new()` on the image; real re-apply of
`(last_applied, n]`).

History: F15 was confirmed on both engines (data ahead of the reported applied index; Raft re-applied
`(last_applied, n]`, changing the state with CAS) and repaired in /repo: RocksDB writes the applied index in
the same batch as the data (238f445), File `replay_wal` advances `last_applied` to the last replayed entry and
checkpoints the recovered state (18b31d1).  On the code as it is now `recover_consistent` holds for RocksDB at
every crash point and for the File engine at every crash point except the two *torn* ones inside a
checkpoint (between the truncating open and the write of `state.data` / `metadata.bin`) — F49, still open.
-/
namespace DEngine.C15
open DEngine.MiniKv DEngine.KvCrash
open DEngine.Snap (sameKv sameKv_refl sameKv_trans applyAll_congr applyAll_writes_idem applyCmd_idem isWrite)

/-- the history of a run and its crash images. -/
def hist (eng : Eng) (ops : List Op) : List Cmd := (exec ({ eng } : St) ops).cmds
def imgs (eng : Eng) (ops : List Op) : List Img := images ({ eng } : St) ops

/-- the two crash points where a file has been truncated and not yet rewritten. -/
def torn (i : Img) : Prop := i.name = "persist_data:truncated" ∨ i.name = "persist_metadata:truncated"

/-- **recover_consistent** — for both engines, every op sequence (applies, checkpoints, flushes, graceful
reopen, time-triggered checkpoints) and EVERY crash point that is not torn: after reopen the contents
are those of applying entries `1..n` exactly once (`n` = entries whose apply had started) and the reported
applied index IS `n`: `state = fold apply ∅ (cmds.take last_applied)`. -/
theorem recover_consistent (eng : Eng) (ops : List Op) (i : Img) (hi : i ∈ imgs eng ops) (ht : ¬ torn i) :
    sameKv (recover eng i).1 (ref (hist eng ops) (recover eng i).2) ∧ (recover eng i).2 = i.n ∧
      i.n ≤ (hist eng ops).length := by
  unfold imgs at hi
  unfold hist
  have h := images_ok ops ({ eng } : St) (good_init eng) i hi
  obtain ⟨hn, h⟩ := h
  rcases h with h | ⟨hf, hr⟩
  · exact absurd (Or.inl h) ht
  · cases eng with
    | file =>
      obtain ⟨sh, hwm⟩ := hf rfl
      obtain ⟨h1, h2⟩ := recover_file_shape sh
      have hl : (((exec ({ eng := .file } : St) ops).cmds).take i.n).length = i.n := by
        rw [List.length_take]; exact Nat.min_eq_left hn
      rw [hl, ref_take _ _ _ (Nat.le_refl _)] at h1
      have hla : (recover .file i).2 = i.n := by
        rw [h2]
        split
        · rename_i he
          have : i.wal = [] := by simpa using he
          rcases hwm this with h | h
          · exact h
          · exact absurd (Or.inr h) ht
        · rfl
      rw [hla]; exact ⟨h1, rfl, hn⟩
    | rocks =>
      obtain ⟨h1, h2⟩ := hr rfl
      have hla : (recover .rocks i).2 = i.n := h2
      rw [hla]; exact ⟨h1, rfl, hn⟩

/-- **exactly-once**: Raft has nothing to re-apply (`last_applied = n`), so restart + re-application of
`(last_applied, n]` leaves exactly the state of applying `1..n` once — CAS included. -/
theorem exactly_once (eng : Eng) (ops : List Op) (i : Img) (hi : i ∈ imgs eng ops) (ht : ¬ torn i) :
    sameKv (reapply (hist eng ops) (recover eng i).1 (recover eng i).2 i.n) (ref (hist eng ops) i.n) := by
  obtain ⟨h1, h2, _⟩ := recover_consistent eng ops i hi ht
  unfold reapply
  rw [h2] at h1 ⊢
  simp only [List.drop_take, Nat.sub_self, List.take_zero]
  exact h1

/-! ## Full-strength statement over ALL crash points and its negation (F49) -/

def RecoverConsistentStatement : Prop :=
  ∀ (eng : Eng) (ops : List Op) (j : Nat) (i : Img), (imgs eng ops)[j]? = some i → ∀ k,
    get (recover eng i).1 k = get (ref (hist eng ops) (recover eng i).2) k

/-- F49 (File): crash between the truncating open and the write of `state.data` inside a checkpoint: the
data file is empty and the WAL only holds the entries since the previous checkpoint ⇒ everything
checkpointed earlier is gone (here key 1) while the node reports both entries applied. -/
def tornOps : List Op := [.apply (.put 1 1 none), .ckpt, .apply (.put 2 2 none), .ckpt]

theorem recover_consistent_false : ¬ RecoverConsistentStatement := by
  intro h
  have := h .file tornOps 10 ((imgs .file tornOps)[10]'(by decide)) (List.getElem?_eq_getElem _) 1
  revert this; decide

theorem torn_checkpoint_loses_data :
    ∃ (h : 10 < (imgs .file tornOps).length),
      get (recover .file (imgs .file tornOps)[10]).1 1 = none ∧ (recover .file (imgs .file tornOps)[10]).2 = 2 ∧
      get (ref (hist .file tornOps) 2) 1 = some 1 := by
  refine ⟨by decide, by decide⟩

/-- F49, second torn point: `metadata.bin` truncated while the WAL is already empty ⇒ applied index 0 over
current data. -/
theorem torn_metadata_resets_index :
    let ops : List Op := [.apply (.put 1 1 none), .ckpt, .ckpt]
    ∃ (h : 10 < (imgs .file ops).length),
      (recover .file (imgs .file ops)[10]).2 = 0 ∧ get (recover .file (imgs .file ops)[10]).1 1 = some 1 := by
  refine ⟨by decide, by decide⟩

/-! ## The old F15 witnesses, now repaired (regression) -/

/-- checkpoint at index 1 with k=1, then `2: CAS 2→3` (fails), `3: CAS 1→2` ⇒ k=2; crash. -/
def witnessOps : List Op :=
  [.apply (.put 1 1 none), .ckpt, .apply (.cas 1 (some 2) 3), .apply (.cas 1 (some 1) 2)]

/-- File: reopen ⇒ k=2 and `last_applied = 3` (was 1): nothing is re-applied, k stays 2 (was 3). -/
theorem f15_file_fixed :
    ∃ (h : 10 < (imgs .file witnessOps).length),
      (recover .file (imgs .file witnessOps)[10]).2 = 3 ∧
      get (reapply (hist .file witnessOps) (recover .file (imgs .file witnessOps)[10]).1
        (recover .file (imgs .file witnessOps)[10]).2 3) 1 = some 2 := by
  refine ⟨by decide, by decide⟩

/-- RocksDB: same with `flush` instead of the checkpoint. -/
theorem f15_rocks_fixed :
    let ops : List Op := [.apply (.put 1 1 none), .flush, .apply (.cas 1 (some 2) 3), .apply (.cas 1 (some 1) 2)]
    ∃ (h : 3 < (imgs .rocks ops).length),
      (recover .rocks (imgs .rocks ops)[3]).2 = 3 ∧
      get (reapply (hist .rocks ops) (recover .rocks (imgs .rocks ops)[3]).1
        (recover .rocks (imgs .rocks ops)[3]).2 3) 1 = some 2 := by
  refine ⟨by decide, by decide⟩

/-! ## Non-vacuity -/

example : ∃ i ∈ imgs .file witnessOps, ¬ torn i ∧ i.n = 3 := by
  refine ⟨(imgs .file witnessOps)[10]'(by decide), List.getElem_mem _, ?_, by decide⟩
  intro h; rcases h with h | h <;> revert h <;> decide

end DEngine.C15
