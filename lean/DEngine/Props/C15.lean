import DEngine.Lemmas.KvCrash
/-!
# C15 — Each committed entry is applied exactly once across crashes (engine level)

Model: `DEngine.KvCrash` — FS-level File state machine (WAL append, checkpoint = truncate+write of
`state.data`, truncate+write of `metadata.bin`, WAL clear; sync flush; Drop; `load_from_disk` + `replay_wal`)
and key-level RocksDB state machine (`write_wbwi` durable, applied index only persisted by
flush/close/drop), crash = process exit without Drop at any point between file operations; tied to the real
engines by family `kvcrash` (crash image = copy of the data directory taken at the engine's own crash
points through a guarded callback; real `new()` on the image; real re-apply of `(last_applied, n]`).

Decided on the real code: **F15 is real on both engines.** The data always reflects every entry whose
apply started, the persisted applied index lags behind it (File: until the next checkpoint's
metadata write; RocksDB: until flush/close), and WAL replay does not advance it.  Raft then re-applies
`(last_applied, n]` on a state that already contains those entries; with CAS in that range the state
changes.  What IS true (for every op sequence and every crash point) is proved below.
-/
namespace DEngine.C15
open DEngine.MiniKv DEngine.KvCrash
open DEngine.Snap (sameKv sameKv_refl sameKv_trans applyAll_congr applyAll_writes_idem applyCmd_idem isWrite)

/-- the history of a run and its crash images. -/
def hist (eng : Eng) (ops : List Op) : List Cmd := (exec ({ eng } : St) ops).cmds
def imgs (eng : Eng) (ops : List Op) : List Img := images ({ eng } : St) ops

/-- the entries Raft re-applies after recovering image `i`. -/
def reappliedRange (cmds : List Cmd) (i : Img) : List Cmd := (cmds.take i.n).drop i.dMeta

/-- **Recovered contents are current** — for every engine, every op sequence (applies, checkpoints, flushes,
graceful reopen, time-triggered checkpoints) and EVERY crash point except the one between the truncating
open and the write of `state.data`: the recovered contents are those of applying entries `1..n` exactly
once (`n` = entries started), the recovered applied index is the persisted one and is `≤ n`. -/
theorem recovered_contents_current (eng : Eng) (ops : List Op) (i : Img) (hi : i ∈ imgs eng ops)
    (ht : i.name ≠ "persist_data:truncated") :
    sameKv (recover eng i).1 (ref (hist eng ops) i.n) ∧ (recover eng i).2 = i.dMeta ∧
      i.dMeta ≤ i.n ∧ i.n ≤ (hist eng ops).length := by
  unfold imgs at hi
  unfold hist
  have h := images_ok ops ({ eng } : St) (good_init eng) i hi
  obtain ⟨hn, h⟩ := h
  rcases h with h | ⟨hf, hr⟩
  · exact absurd h ht
  · cases eng with
    | file =>
      have sh := hf rfl
      obtain ⟨h1, h2⟩ := recover_file_shape sh
      have hl : (((exec ({ eng := .file } : St) ops).cmds).take i.n).length = i.n := by
        rw [List.length_take]; exact Nat.min_eq_left hn
      refine ⟨?_, h2, ?_, hn⟩
      · rw [hl, ref_take _ _ _ (Nat.le_refl _)] at h1; exact h1
      · have := sh.meta_le; rw [hl] at this; exact this
    | rocks =>
      obtain ⟨h1, h2⟩ := hr rfl
      exact ⟨h1, rfl, h2, hn⟩

/-- **recover_consistent (`_partial`).** If the persisted index equals the number of started entries
(crash right after a completed checkpoint / flush / graceful close, before the next apply), the recovered
state is `fold apply ∅ (cmds.take last_applied)`. -/
theorem recover_consistent_partial (eng : Eng) (ops : List Op) (i : Img) (hi : i ∈ imgs eng ops)
    (ht : i.name ≠ "persist_data:truncated") (hcur : i.dMeta = i.n) :
    sameKv (recover eng i).1 (ref (hist eng ops) (recover eng i).2) := by
  obtain ⟨h1, h2, _, _⟩ := recovered_contents_current eng ops i hi ht
  rw [h2, hcur]; exact h1

/-- **exactly-once, exact condition (`_partial`).** After restart, re-applying `(last_applied, n]` yields the
exactly-once state iff that range is a no-op on the state at `n`. -/
theorem exactly_once_partial (eng : Eng) (ops : List Op) (i : Img) (hi : i ∈ imgs eng ops)
    (ht : i.name ≠ "persist_data:truncated")
    (hidem : sameKv (applyAll (ref (hist eng ops) i.n) (reappliedRange (hist eng ops) i))
      (ref (hist eng ops) i.n)) :
    sameKv (reapply (hist eng ops) (recover eng i).1 (recover eng i).2 i.n) (ref (hist eng ops) i.n) := by
  obtain ⟨h1, h2, _, _⟩ := recovered_contents_current eng ops i hi ht
  unfold reapply
  rw [h2]
  exact sameKv_trans (applyAll_congr h1 _) hidem

/-- no CAS in the re-applied range ⇒ exactly-once. -/
theorem exactly_once_no_cas (eng : Eng) (ops : List Op) (i : Img) (hi : i ∈ imgs eng ops)
    (ht : i.name ≠ "persist_data:truncated")
    (hw : ∀ c ∈ reappliedRange (hist eng ops) i, isWrite c = true) :
    sameKv (reapply (hist eng ops) (recover eng i).1 (recover eng i).2 i.n) (ref (hist eng ops) i.n) := by
  obtain ⟨_, _, hle, _⟩ := recovered_contents_current eng ops i hi ht
  apply exactly_once_partial eng ops i hi ht
  rw [ref_split (hist eng ops) i.dMeta i.n hle]
  exact applyAll_writes_idem _ hw _

/-- at most one entry to re-apply ⇒ exactly-once (a single command is idempotent on its own result). -/
theorem exactly_once_one_entry (eng : Eng) (ops : List Op) (i : Img) (hi : i ∈ imgs eng ops)
    (ht : i.name ≠ "persist_data:truncated") (h1 : (reappliedRange (hist eng ops) i).length ≤ 1) :
    sameKv (reapply (hist eng ops) (recover eng i).1 (recover eng i).2 i.n) (ref (hist eng ops) i.n) := by
  obtain ⟨_, _, hle, _⟩ := recovered_contents_current eng ops i hi ht
  apply exactly_once_partial eng ops i hi ht
  rw [ref_split (hist eng ops) i.dMeta i.n hle]
  unfold reappliedRange at h1 ⊢
  match hW : (List.take i.n (hist eng ops)).drop i.dMeta, h1 with
  | [], _ => exact sameKv_refl _
  | [c], _ =>
    show sameKv (applyCmd (applyCmd _ c).1 c).1 (applyCmd _ c).1
    rw [applyCmd_idem]; exact sameKv_refl _
  | _ :: _ :: _, h => simp at h

/-! ## Full-strength statements and their negations (witnesses replayed on the real engines) -/

def RecoverConsistentStatement : Prop :=
  ∀ (eng : Eng) (ops : List Op) (j : Nat) (i : Img), (imgs eng ops)[j]? = some i → ∀ k,
    get (recover eng i).1 k = get (ref (hist eng ops) (recover eng i).2) k

def ExactlyOnceStatement : Prop :=
  ∀ (eng : Eng) (ops : List Op) (j : Nat) (i : Img), (imgs eng ops)[j]? = some i → ∀ k,
    get (reapply (hist eng ops) (recover eng i).1 (recover eng i).2 i.n) k = get (ref (hist eng ops) i.n) k

/-- checkpoint at index 1 with k=1, then `2: CAS 2→3` (fails), `3: CAS 1→2` ⇒ k=2; crash. -/
def witnessOps : List Op :=
  [.apply (.put 1 1 none), .ckpt, .apply (.cas 1 (some 2) 3), .apply (.cas 1 (some 1) 2)]

/-- F15 (File): reopen ⇒ contents k=2 (WAL replayed, indexes ignored) but `last_applied = 1`. -/
theorem recover_consistent_false : ¬ RecoverConsistentStatement := by
  intro h
  have := h .file witnessOps 10 ((imgs .file witnessOps)[10]'(by decide)) (List.getElem?_eq_getElem _) 1
  revert this; decide

/-- F15 (File): Raft re-applies 2..3 on k=2: `CAS 2→3` now succeeds ⇒ k=3 ≠ 2. -/
theorem exactly_once_false : ¬ ExactlyOnceStatement := by
  intro h
  have := h .file witnessOps 10 ((imgs .file witnessOps)[10]'(by decide)) (List.getElem?_eq_getElem _) 1
  revert this; decide

/-- F15 (RocksDB): same with `flush` instead of the checkpoint. -/
theorem exactly_once_false_rocks :
    let ops : List Op := [.apply (.put 1 1 none), .flush, .apply (.cas 1 (some 2) 3), .apply (.cas 1 (some 1) 2)]
    ∃ (h : 3 < (imgs .rocks ops).length),
      get (reapply (hist .rocks ops) (recover .rocks (imgs .rocks ops)[3]).1
        (recover .rocks (imgs .rocks ops)[3]).2 3) 1 = some 3 ∧ get (ref (hist .rocks ops) 3) 1 = some 2 := by
  refine ⟨by decide, by decide⟩

/-- F49 (File): crash between the truncating open and the write of `state.data` inside a checkpoint: the
data file is empty and the WAL only holds the entries since the previous checkpoint ⇒ everything
checkpointed earlier is gone (here key 1), although the applied index says 1. -/
theorem torn_checkpoint_loses_data :
    let ops : List Op := [.apply (.put 1 1 none), .ckpt, .apply (.put 2 2 none), .ckpt]
    ∃ (h : 10 < (imgs .file ops).length),
      get (recover .file (imgs .file ops)[10]).1 1 = none ∧ (recover .file (imgs .file ops)[10]).2 = 1 ∧
      get (reapply (hist .file ops) (recover .file (imgs .file ops)[10]).1 1 2) 1 = none := by
  refine ⟨by decide, by decide⟩

/-! ## Non-vacuity -/

example : ∃ i ∈ imgs .file witnessOps, i.dMeta = i.n ∧ i.n = 1 := by
  refine ⟨(imgs .file witnessOps)[6]'(by decide), List.getElem_mem _, by decide, by decide⟩

example : ∀ c ∈ reappliedRange [Cmd.put 1 1 none, .del 1, .put 2 2 none]
    { name := "", n := 3, dData := [], dMeta := 1, wal := [] }, isWrite c = true := by decide

end DEngine.C15
