import DEngine.Lemmas.ClientQ
import DEngine.Lemmas.ClientQOut
import DEngine.Lemmas.ClientQKeeps
/-!
# C30 — No accepted request is silently dropped

"Resolved" = the request's sender has been used (an answer, possibly an error) or dropped (the receiver observes
the closed channel at once; the model records `.dropped` exactly where the code drops a sender). `St.pending` is
the list of request ids whose sender still sits in one of the leader's nine queues.

Exit paths, decided on the real code (correspondence `clientq`, corpus `q4-fatal.case`):

* **step-down** (`raft.rs` BecomeFollower → `drain_read_buffer()` → the `LeaderState` is replaced):
  `stepdown_resolves_all` — every queue is empty afterwards and every id that was pending is answered in that step
  (explicitly for 7 queues; `pending_write_apply` and NodeJoin senders are *dropped* with the state).
* **deadline sweep** (`tick`): `tick_leaves_no_expired` — after any tick no entry of the four deadline-carrying queues
  is at or past its deadline. (`pending_write_apply` and the un-flushed buffers carry no deadline: they wait for
  the apply completion / the flush at the end of the same loop iteration.)
* **fatal error**: `fatal_inbound_exact` — `InboundEvent::FatalError` notifies exactly five queues and leaves
  `propose_buffer`, `pending_client_writes`, `pending_lease_reads`, `pending_commit_actions` untouched; the
  production path (`InternalEvent::FatalError`, raft.rs returns the error) touches nothing. After either the event
  loop has exited, so no tick will ever sweep what is left: the full statement `EverySenderResolvedStatement` is
  **false as coded** (finding Q4) — negation from a witness, `every_sender_resolved_partial` under the exact
  excluded trigger.
-/
namespace DEngine.C30
open DEngine.ClientQ

/-- step-down: all queues empty, phase `stepped` -/
theorem stepdown_clears_all_queues (s : St) :
    (stepDown s).1.pending = [] ∧ (stepDown s).1.phase = .stepped := by
  simp [stepDown, St.pending, St.pendW, St.pendR, St.pendJ]

/-- step-down: every pending request is answered in that very step -/
theorem stepdown_answers_every_pending (s : St) : ∀ id ∈ s.pending, id ∈ (stepDown s).2.map (·.1) := by
  intro id hid
  rw [mem_pending] at hid
  simp only [List.mem_map]
  unfold stepDown
  simp only [List.mem_append]
  rcases hid with h | h | h | h | h | h | h | h | h
  · rcases h with ⟨p, hp, rfl⟩
    exact ⟨(p.1, .notLeader), Or.inl (Or.inl (Or.inl (Or.inr (mem_answerAll.mpr ⟨List.mem_map.mpr ⟨p, hp, rfl⟩, rfl⟩)))), rfl⟩
  · rcases h with ⟨e, he, hin⟩
    exact ⟨(id, .proposeFailed), Or.inl (Or.inl (Or.inr (List.mem_flatMap.mpr ⟨e, he, mem_answerAll.mpr ⟨hin, rfl⟩⟩))), rfl⟩
  · rcases h with ⟨e, he, rfl⟩
    exact ⟨(e.2, .dropped), Or.inl (Or.inr (mem_answerAll.mpr ⟨List.mem_map.mpr ⟨e, he, rfl⟩, rfl⟩)), rfl⟩
  · exact ⟨(id, .stepDown), Or.inl (Or.inl (Or.inl (Or.inl (Or.inl (Or.inl (Or.inl (Or.inl (mem_answerAll.mpr ⟨h, rfl⟩)))))))), rfl⟩
  · exact ⟨(id, .stepDown), Or.inl (Or.inl (Or.inl (Or.inl (Or.inl (Or.inl (Or.inl (Or.inr (mem_answerAll.mpr ⟨h, rfl⟩)))))))), rfl⟩
  · exact ⟨(id, .stepDown), Or.inl (Or.inl (Or.inl (Or.inl (Or.inl (Or.inl (Or.inr (mem_answerAll.mpr ⟨h, rfl⟩))))))), rfl⟩
  · rcases h with ⟨e, he, hin⟩
    exact ⟨(id, .stepDown), Or.inl (Or.inl (Or.inl (Or.inl (Or.inl (Or.inr (List.mem_flatMap.mpr ⟨e, he, mem_answerAll.mpr ⟨hin, rfl⟩⟩)))))), rfl⟩
  · rcases h with ⟨e, he, rfl⟩
    exact ⟨(e.1, .stepDown), Or.inl (Or.inl (Or.inl (Or.inl (Or.inr (mem_answerAll.mpr ⟨List.mem_map.mpr ⟨e, he, rfl⟩, rfl⟩))))), rfl⟩
  · rcases h with ⟨e, he, hj⟩
    refine ⟨(id, .dropped), Or.inr (List.mem_filterMap.mpr ⟨e, he, ?_⟩), rfl⟩
    rcases e with ⟨k, d, a⟩
    cases a <;> simp [joinId] at hj
    subst hj; rfl

/-- **Step-down resolves everything**, in every state. -/
theorem stepdown_resolves_all (s : St) :
    (stepDown s).1.pending = [] ∧ ∀ id ∈ s.pending, id ∈ (stepDown s).2.map (·.1) :=
  ⟨(stepdown_clears_all_queues s).1, stepdown_answers_every_pending s⟩

/-! ### deadline sweep -/

theorem sweep_fields (c : Cfg) (s : St) :
    (sweep c s).1.now = s.now ∧
    (sweep c s).1.pcw = s.pcw.filter (fun e => !(s.now ≥ e.2.deadline)) ∧
    (sweep c s).1.preads = s.preads.filter (fun e => !(s.now ≥ e.2.1)) ∧
    (sweep c s).1.pleases = s.pleases.filter (fun e => !(s.now ≥ e.2)) ∧
    (sweep c s).1.pca = s.pca.filter (fun e => !(s.now ≥ e.2.1)) := by
  unfold sweep
  simp only
  split <;> exact ⟨rfl, rfl, rfl, rfl, rfl⟩

/-- **After any tick nothing deadline-carrying is at or past its deadline** (whatever the state and the
    elapsed time): the four sweeps of `tick` leave only entries whose deadline is in the future. -/
theorem tick_leaves_no_expired (c : Cfg) (s : St) (ms : Nat) :
    let t := (tick c s ms).1
    (∀ e ∈ t.pcw, t.now < e.2.deadline) ∧ (∀ e ∈ t.preads, t.now < e.2.1) ∧
    (∀ e ∈ t.pleases, t.now < e.2) ∧ (∀ e ∈ t.pca, t.now < e.2.1) := by
  unfold tick
  simp only
  rcases sweep_fields c (heartbeat c { s with now := s.now + ms }).1 with ⟨h0, h1, h2, h3, h4⟩
  rw [h0, h1, h2, h3, h4]
  refine ⟨?_, ?_, ?_, ?_⟩ <;>
  · intro e he
    have := (List.mem_filter.mp he).2
    simp at this
    omega

/-- the expired entries are answered `deadline` in that tick (writes and reads shown; lease reads and joins
    are the two remaining `filter`s of `sweep`). -/
theorem sweep_answers_expired_writes (c : Cfg) (s : St) :
    ∀ e ∈ s.pcw, s.now ≥ e.2.deadline → ∀ id ∈ e.2.senders, (id, Resp.deadline) ∈ (sweep c s).2 := by
  intro e he hd id hid
  unfold sweep
  simp only [List.mem_append]
  refine Or.inl (Or.inl (Or.inl (List.mem_flatMap.mpr ⟨e, List.mem_filter.mpr ⟨he, by simpa using hd⟩, ?_⟩)))
  exact mem_answerAll.mpr ⟨hid, rfl⟩

theorem sweep_answers_expired_reads (c : Cfg) (s : St) :
    ∀ e ∈ s.preads, s.now ≥ e.2.1 → ∀ id ∈ e.2.2, (id, Resp.deadline) ∈ (sweep c s).2 := by
  intro e he hd id hid
  unfold sweep
  simp only [List.mem_append]
  refine Or.inl (Or.inl (Or.inr (List.mem_flatMap.mpr ⟨e, List.mem_filter.mpr ⟨?_, by simpa using hd⟩, ?_⟩)))
  · exact he
  · exact mem_answerAll.mpr ⟨hid, rfl⟩

/-! ### fatal error -/

/-- **`InboundEvent::FatalError`, exactly**: five queues are notified (every id in them is answered `fatal`), four
    are left as they were. -/
theorem fatal_inbound_exact (s : St) :
    let t := (fatalInbound s).1
    t.pwa = [] ∧ t.linBuf = [] ∧ t.preads = [] ∧ t.leaseQ = [] ∧ t.evQ = [] ∧
    t.propose = s.propose ∧ t.pcw = s.pcw ∧ t.pleases = s.pleases ∧ t.pca = s.pca ∧ t.phase = .halted ∧
    (∀ e ∈ s.pwa, (e.2, Resp.fatal) ∈ (fatalInbound s).2) ∧
    (∀ id ∈ s.linBuf, (id, Resp.fatal) ∈ (fatalInbound s).2) ∧
    (∀ e ∈ s.preads, ∀ id ∈ e.2.2, (id, Resp.fatal) ∈ (fatalInbound s).2) ∧
    (∀ id ∈ s.leaseQ, (id, Resp.fatal) ∈ (fatalInbound s).2) ∧
    (∀ id ∈ s.evQ, (id, Resp.fatal) ∈ (fatalInbound s).2) := by
  unfold fatalInbound
  refine ⟨rfl, rfl, rfl, rfl, rfl, rfl, rfl, rfl, rfl, rfl, ?_, ?_, ?_, ?_, ?_⟩
  all_goals simp only [List.mem_append]
  · intro e he
    exact Or.inl (Or.inl (Or.inl (Or.inl (mem_answerAll.mpr ⟨List.mem_map.mpr ⟨e, he, rfl⟩, rfl⟩))))
  · intro id h
    exact Or.inl (Or.inl (Or.inl (Or.inr (mem_answerAll.mpr ⟨h, rfl⟩))))
  · intro e he id hid
    exact Or.inl (Or.inl (Or.inr (List.mem_flatMap.mpr ⟨e, he, mem_answerAll.mpr ⟨hid, rfl⟩⟩)))
  · intro id h
    exact Or.inl (Or.inr (mem_answerAll.mpr ⟨h, rfl⟩))
  · intro id h
    exact Or.inr (mem_answerAll.mpr ⟨h, rfl⟩)

/-- what is still pending after `InboundEvent::FatalError` -/
theorem fatal_inbound_pending (s : St) :
    (fatalInbound s).1.pending =
      s.propose.map (·.1) ++ s.pcw.flatMap (·.2.senders) ++ s.pleases.map (·.1) ++ s.pendJ := by
  simp [fatalInbound, St.pending, St.pendW, St.pendR, St.pendJ]

/-! ### no silent drop, for every event kind -/

/-- **No accepted request is silently dropped (full strength, one step).** In every state reachable by any event
    sequence, whatever the next event (push, flush, heartbeat, ack, commit advance, apply completion, tick,
    step-down, fatal, noop, join): every request whose sender sat in one of the nine queues is still in a queue
    afterwards or is answered in that step (an explicit answer, or `.dropped` where the code drops the sender). -/
theorem no_silent_drop (c : Cfg) (pre : Nat) (evs : List Ev) (e : Ev) :
    let s := (run c (init c pre) evs).1
    ∀ id ∈ s.pending, id ∈ (step c s e).1.pending ∨ id ∈ (step c s e).2.map (·.1) :=
  keeps_step c (inv_reachable c pre evs) e

/-- …and over whole histories: a request pending after `evs` is, after any continuation `more`, still pending or
    answered by one of the continuation's steps. -/
theorem no_silent_drop_history (c : Cfg) (pre : Nat) (evs more : List Ev) :
    let s := (run c (init c pre) evs).1
    ∀ id ∈ s.pending, id ∈ (run c s more).1.pending ∨ ∃ o ∈ (run c s more).2, id ∈ o.map (·.1) :=
  keeps_run c more (inv_reachable c pre evs)

/-- Acceptance: a pushed write / read / scan gets a fresh id that is answered at once (rejection, scan result,
    follower answer) or queued — it is accounted for from the first moment. -/
theorem accepted_is_queued_or_answered (c : Cfg) (s : St) :
    (∀ op, s.nextId ∈ (pushWrite c s op).1.pending ∨ s.nextId ∈ (pushWrite c s op).2.map (·.1)) ∧
    (∀ p, s.nextId ∈ (pushRead c s p).1.pending ∨ s.nextId ∈ (pushRead c s p).2.map (·.1)) ∧
    (s.nextId ∈ (pushScan c s).2.map (·.1)) := by
  refine ⟨?_, ?_, ?_⟩
  · intro op
    unfold pushWrite; simp only; repeat' split
    all_goals first
      | (right; simp; done)
      | (left; rw [mem_pending]; exact Or.inl ⟨(s.nextId, op), by simp, rfl⟩)
  · intro p
    unfold pushRead; simp only; repeat' split
    all_goals first
      | (right; simp; done)
      | (left; rw [mem_pending]; simp; done)
  · unfold pushScan; simp

/-- the three exit events after which the Raft loop never runs this leader again -/
def exitEvent : Ev → Bool
  | .stepDown | .fatalInbound | .fatalInternal => true
  | _ => false

/-- **C30, exit paths — the full statement**: after a step-down or a fatal error no accepted request is left
    pending in the core (nothing will ever sweep it). -/
def EverySenderResolvedStatement : Prop :=
  ∀ (c : Cfg) (pre : Nat) (evs : List Ev) (e : Ev), c.leader = true → exitEvent e = true →
    (step c (run c (init c pre) evs).1 e).1.pending = []

def cfg3 : Cfg :=
  { voters := 3, maxW := 0, maxR := 0, timeout := 1000, ptimeout := 2000, lease := 0, hb := 100, leader := true }

/-- Q4 witness: noop committed, one write proposed and flushed (in `pending_client_writes`), then FatalError. -/
def q4Witness : List Ev := [.noop, .ack 2 1 1, .write (.put 5), .flush]

theorem q4Witness_pending :
    (step cfg3 (run cfg3 (init cfg3 0) q4Witness).1 .fatalInbound).1.pending = [0] := by decide

/-- the production path: `InternalEvent::FatalError` leaves *everything* -/
theorem q4Witness_internal :
    (step cfg3 (run cfg3 (init cfg3 0) (q4Witness ++ [.read 0, .write (.put 6)])).1 .fatalInternal).1.pending
      = [2, 0, 1] := by decide

/-- **As coded the statement is false** (kernel-checked from the witness). -/
theorem every_sender_resolved_false : ¬ EverySenderResolvedStatement := by
  intro h
  have := h cfg3 0 q4Witness .fatalInbound rfl rfl
  rw [q4Witness_pending] at this
  exact absurd this (by decide)

/-- **Partial theorem.** In every state: a step-down resolves everything; `InboundEvent::FatalError` resolves
    everything provided the four forgotten queues are empty (the exact excluded trigger); the internal fatal path
    resolves everything only if nothing at all is pending. -/
theorem every_sender_resolved_partial (c : Cfg) (s : St) (e : Ev) (hl : c.leader = true)
    (hrun : s.phase = .running) (he : exitEvent e = true)
    (htrig : e ≠ .stepDown →
      s.propose = [] ∧ s.pcw = [] ∧ s.pleases = [] ∧ s.pendJ = [] ∧ (e = .fatalInternal → s.pending = [])) :
    (step c s e).1.pending = [] := by
  unfold step
  simp only [hrun, hl]
  cases e <;> simp [exitEvent] at he
  · exact (stepdown_clears_all_queues s).1
  · rcases htrig (by simp) with ⟨h1, h2, h3, h4, _⟩
    simp only [bne_self_eq_false, Bool.false_eq_true, ↓reduceIte, Bool.not_true]
    rw [fatal_inbound_pending, h1, h2, h3, h4]; rfl
  · rcases htrig (by simp) with ⟨_, _, _, _, h5⟩
    simp only [bne_self_eq_false, Bool.false_eq_true, ↓reduceIte, Bool.not_true]
    have := h5 rfl
    simpa [St.pending, St.pendW, St.pendR, St.pendJ] using this

/-! Non-vacuity: a trace in which every queue is populated and a step-down resolves nine requests. -/
def fullTrace : List Ev :=
  [.noop, .ack 2 1 1, .write (.put 1), .flush, .ack 2 2 2, .write (.put 2), .flush, .write (.put 3),
   .read 0, .flush, .read 1, .flush, .join 8, .read 0, .read 1, .read 2]

set_option maxRecDepth 4000 in
example : ((run cfg3 (init cfg3 0) fullTrace).1.pending).length = 9 := by decide
set_option maxRecDepth 4000 in
example : ((stepDown (run cfg3 (init cfg3 0) fullTrace).1).2.map (·.1)).length = 9 := by decide

end DEngine.C30
