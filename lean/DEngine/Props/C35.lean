import DEngine.Model.MRead
/-!
# C35 — Multi-key reads return results aligned with the requested keys

`get_multi_aligned`: on every path (engine `get_multi`, embedded fast path, embedded `cmd_tx` path with
client-side realignment of the sparse "found keys only" answer, gRPC fast path through
`fast_path_batch_read_response` + client realignment, gRPC `cmd_tx` path + client realignment), for every state
and every key list — duplicates, missing keys, empty values — whenever the call returns a vector it has one
slot per requested key, in request order, and slot `i` is `state.get(keys[i])`: `some []` for a present empty
value, `none` only for an absent key.  The only call that returns no vector is the gRPC client with an empty
key list (`grpc_rejects_only_empty`).
-/
namespace DEngine.C35
open DEngine.MRead

/-- Every entry of the sparse answer is true in the state, and every requested key that is present has its
    entry: then a last-wins hash map lookup is the state lookup. -/
theorem hmGet_of_truthful_complete (st : St) (l : List (Bytes × Bytes)) (k : Bytes)
    (htrue : ∀ e ∈ l, get st e.1 = some e.2)
    (hcomplete : ∀ v, get st k = some v → (k, v) ∈ l) :
    hmGet l k = get st k := by
  unfold hmGet
  cases hf : l.reverse.find? (fun e => e.1 == k) with
  | some e =>
    have hm : e ∈ l := List.mem_reverse.mp (List.mem_of_find?_eq_some hf)
    have hk : (e.1 == k) = true := @List.find?_some _ (fun e => e.1 == k) e l.reverse hf
    have hk' : e.1 = k := by simpa using hk
    rw [Option.map_some, ← hk', htrue e hm]
  | none =>
    rw [Option.map_none]
    cases hg : get st k with
    | none => rfl
    | some v =>
      exfalso
      have hm := hcomplete v hg
      rw [List.find?_eq_none] at hf
      have := hf (k, v) (List.mem_reverse.mpr hm)
      simp at this

theorem readFromSm_truthful (st : St) (keys : List Bytes) :
    ∀ e ∈ readFromSm st keys, get st e.1 = some e.2 := by
  intro e he
  simp only [readFromSm, List.mem_filterMap] at he
  obtain ⟨k, _, hk⟩ := he
  cases hg : get st k with
  | none => simp [hg] at hk
  | some v => simp only [hg, Option.map_some, Option.some.injEq] at hk; rw [← hk]; exact hg

theorem readFromSm_complete (st : St) (keys : List Bytes) (k : Bytes) (hk : k ∈ keys) :
    ∀ v, get st k = some v → (k, v) ∈ readFromSm st keys := by
  intro v hv
  simp only [readFromSm, List.mem_filterMap]
  exact ⟨k, hk, by simp [hv]⟩

/-- The fast-path proto response built from the engine's positional answer is the same sparse list the
    state machine handler produces. -/
theorem fastPathResp_eq (st : St) (keys : List Bytes) :
    fastPathResp keys (engineGetMulti st keys) = readFromSm st keys := by
  induction keys with
  | nil => rfl
  | cons k ks ih =>
    simp only [fastPathResp, engineGetMulti, readFromSm, List.map_cons, List.zip_cons_cons,
      List.filterMap_cons] at ih ⊢
    cases get st k with
    | none => simpa using ih
    | some v => simp only [Option.map_some]; rw [ih]

theorem realign_sparse (st : St) (keys : List Bytes) :
    realign keys (readFromSm st keys) = keys.map (get st) := by
  unfold realign
  apply List.map_congr_left
  intro k hk
  exact hmGet_of_truthful_complete st _ k (readFromSm_truthful st keys) (readFromSm_complete st keys k hk)

/-- **C35.** -/
theorem get_multi_aligned (path : Path) (st : St) (keys : List Bytes) (res : List (Option Bytes))
    (h : getMulti path st keys = some res) :
    res.length = keys.length ∧ ∀ i : Nat, res[i]? = keys[i]?.map (get st) := by
  have key : res = keys.map (get st) := by
    cases path with
    | engine => simp only [getMulti, engineGetMulti, Option.some.injEq] at h; exact h.symm
    | embFast => simp only [getMulti, embFast, engineGetMulti, Option.some.injEq] at h; exact h.symm
    | embCmd =>
      simp only [getMulti, embCmd, Option.some.injEq] at h
      rw [← h]; exact realign_sparse st keys
    | grpcFast =>
      simp only [getMulti, grpcFast] at h
      split at h
      · cases h
      · simp only [Option.some.injEq] at h
        rw [← h, fastPathResp_eq]; exact realign_sparse st keys
    | grpcCmd =>
      simp only [getMulti, grpcCmd] at h
      split at h
      · cases h
      · simp only [Option.some.injEq] at h
        rw [← h]; exact realign_sparse st keys
  subst key
  exact ⟨by simp, fun i => by simp [List.getElem?_map]⟩

/-- The only refused call is the gRPC client with an empty key list. -/
theorem grpc_rejects_only_empty (path : Path) (st : St) (keys : List Bytes) :
    getMulti path st keys = none ↔ (keys = [] ∧ (path = .grpcFast ∨ path = .grpcCmd)) := by
  cases path <;> cases keys <;> simp [getMulti, grpcFast, grpcCmd]

/-- Present-but-empty and absent stay different on the realigning paths. -/
theorem empty_value_is_not_absent (path : Path) (st : St) (k : Bytes) (res : List (Option Bytes))
    (hpresent : get st k = some []) (h : getMulti path st [k, k] = some res) :
    res = [some [], some []] := by
  obtain ⟨hl, hi⟩ := get_multi_aligned path st [k, k] res h
  match res, hl with
  | [a, b], _ =>
    have h0 := hi 0; have h1 := hi 1
    simp [hpresent] at h0 h1
    rw [h0, h1]

/-- Every read path that answers gives the same answer: the embedded and the gRPC client, fast path or command
    path, cannot be told apart by the results of a multi-key read. -/
theorem get_multi_path_independent (p q : Path) (st : St) (keys : List Bytes) (rp rq : List (Option Bytes))
    (hp : getMulti p st keys = some rp) (hq : getMulti q st keys = some rq) : rp = rq := by
  obtain ⟨lp, ip⟩ := get_multi_aligned p st keys rp hp
  obtain ⟨lq, iq⟩ := get_multi_aligned q st keys rq hq
  apply List.ext_getElem? ; intro i
  rw [ip i, iq i]

/-- A key requested twice gets the same result at both positions (whatever the path). -/
theorem get_multi_duplicates_agree (path : Path) (st : St) (keys : List Bytes) (res : List (Option Bytes))
    (h : getMulti path st keys = some res) (i j : Nat) (hij : keys[i]? = keys[j]?) : res[i]? = res[j]? := by
  obtain ⟨_, hi⟩ := get_multi_aligned path st keys res h
  rw [hi i, hi j, hij]

/-! non-vacuity: duplicates + missing + empty value on the sparse path -/
def demoSt : St := put (put [] [0x61] []) [0x62] [0x79]
example : getMulti .grpcCmd demoSt [[0x61], [0x63], [0x61], [0x62]] = some [some [], none, some [], some [0x79]] := by
  decide
example : readFromSm demoSt [[0x61], [0x63], [0x61], [0x62]] = [([0x61], []), ([0x61], []), ([0x62], [0x79])] := by
  decide

end DEngine.C35
