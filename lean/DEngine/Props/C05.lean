/-
  C05 — Committed entries are never lost.

  Statement (properties.jsonl): once an entry is committed, every leader of a later term has it in its log, and no
  node overwrites or discards it except by compacting it into a snapshot — across leader changes and the crash /
  restart of any minority of voters at any moment.

  Model: DEngine/Model/Cluster.lean; ghost `Cluster.commits` = (leader term, committed prefix) recorded whenever a
  leader's commit index advances (`recordCommit`).

  The code as it is violates both halves (each confirmed on the REAL code through the `cluster` harness, witnesses in
  corpus/cluster/, findings in known_findings.json):
    F9  H_noWipe fails:      a request with prev=(0,0) makes the follower reset its whole log and keep only the (capped)
                             entries of the request (`filter_out_conflicts_and_append` reset branch).  A new leader has
                             match_index 0 for everybody; a torn-down replication stream sets next_index := match+1 = 1
                             (`handle_peer_stream_error`), the next request is prev=(0,0) with at most `cap` entries and
                             wipes the committed tail of a follower; if the leader then crashes, a leader without the
                             committed entry is elected.
    F8  H_durableAck fails:  followers acknowledge after the memory write (MemFirst); a crash of the acknowledger before
                             the IO thread wrote the entry loses a committed entry.
  Kernel-checked negations: `leader_completeness_fails`, `no_discard_fails_on_reset`, `no_discard_fails_on_crash`.

  Proved (full strength, all reachable states / all inputs):
    `no_discard_step`          an entry disappears from a node's log in one step ONLY through a crash of that node, a
                               prev=(0,0) reset request, or a request that reaches below the entry without repeating it
                               (the step lemma for every path except reset);
    `no_discard_shared`        non-reset accept never discards an entry that the request's source log holds as well
                               (so, given leader completeness of the sender, committed entries survive every accept);
    `accept_keeps`, `accept_keeps_shared`, `log_step_cases`   the underlying path lemmas;
    `majorities_intersect`     quorum intersection;
    `grant_restricts`          vote restriction: a granted vote implies `is_target_log_more_recent`;
    `commit_recorded_prefix`   what `recordCommit` stores is a prefix of the committing leader's log (a chain).
  Proved (the first half of C05, over the sub-relation of `step` that excludes exactly the F8 and F9 triggers):
    `leader_completeness_partial`  in every state reachable by benign steps (`ReachableB`; benign = `benignB` =
                               H_durableAck ∧ H_noWipe per step, `benign_iff_hyps`: a crash discards nothing at the node
                               it hits, the delivery of a prev=(0,0) request discards nothing at its target; every other
                               event is unrestricted) every entry covered by a commit record of term t is in the log of
                               every node that leads in a later term.  No other hypothesis (election safety and log
                               matching are theorems, C04).  Proof in Lemmas/ClusterComplete*.lean (≈4500 lines):
                               `RInv` requests of a sitting leader come from its log; `GInv` shape of the ghost map;
                               `DInv` match_index / acknowledgement soundness (fix c57f05e: the acknowledgement names what
                               the request verified, `acceptOrKeep_ack`); `CInv` a commit record is backed by a strict
                               majority that held its last entry in that entry's own term (`median_majority`);
                               `HInv` such an entry stays in a log unless a later leader that did not have it took over,
                               the up-to-date check hands a voter's entries to the candidate (`up_to_date`), a winner
                               inherits from its voters; `won_logs_hold` = strong induction on the later term with
                               `quorums_meet`.
    `benignDemo_ok`            non-vacuity: a concrete benign schedule with a commit and a leader change;
    `witnesses_not_benign`     the F8 and F9 witness schedules are not benign (the hypotheses exclude exactly them).
  Still open: the second half for EVERY node (`NoDiscardStatement`) is not a theorem even for benign schedules (a follower
  that lags in term may have a committed entry overwritten by a deposed leader's request and gets it back later);
  `no_discard_committed_partial` states what does hold.
-/
import DEngine.Lemmas.ClusterKeep
import DEngine.Lemmas.ClusterCompleteFinal
import DEngine.Props.C04
namespace DEngine.C05
open DEngine.Cluster DEngine.C04

/-- `e` was covered by the commit index of a leader of term `t` -/
def committedB (c : Cluster) (e : Entry) (t : Nat) : Bool := c.commits.any fun p => p.1 == t && p.2.contains e

/-- every current leader of a later term holds every committed entry -/
def LeaderCompleteness (c : Cluster) : Prop :=
  ∀ e t j, committedB c e t = true → (c.nodes j).role = .leader → t < (c.nodes j).term → e ∈ (c.nodes j).log

def LeaderCompletenessStatement : Prop :=
  ∀ n cap c, Reachable n cap c → H_electionSafety c → LeaderCompleteness c

/-- no step makes a node that holds a committed entry lose it -/
def NoDiscardStatement : Prop :=
  ∀ n cap c (ev : Event), Reachable n cap c → H_electionSafety (step c ev).1 →
    ∀ x t j, committedB c x t = true → x ∈ (c.nodes j).log → x ∈ ((step c ev).1.nodes j).log

-- ------------------------------------------------------------------------------------------ step lemma
/-- An entry disappears from a node's log in one step only through a crash of that node, a prev=(0,0) reset
    request, or a delivered request that reaches below the entry (prev_index < its index) without repeating it. -/
theorem no_discard_step {n cap : Nat} {c : Cluster} (hr : Reachable n cap c)
    (ev : Event) (j : NodeId) (x : Entry) (hx : x ∈ (c.nodes j).log) :
    x ∈ ((step c ev).1.nodes j).log ∨ (∃ k, ev = .crash j k) ∨
      ∃ m src sid r rp, ev = .deliverAe m ∧ findMsg c m = some (.ae src j sid r rp) ∧
        ((r.prevI = 0 ∧ r.prevT = 0) ∨
          (r.prevI < x.index ∧ ∀ y ∈ r.entries, y.index = x.index → y.term ≠ x.term)) := by
  have hinv := (reachable_both hr).1
  cases log_step_cases c ev j with
  | same h => left; rw [h]; exact hx
  | append new h => left; rw [h]; exact List.mem_append_left _ hx
  | crash k keep he _ => right; left; exact ⟨k, he⟩
  | accept m src sid r rp he hfm h =>
    by_cases hreset : r.prevI = 0 ∧ r.prevT = 0
    · right; right; exact ⟨m, src, sid, r, rp, he, hfm, Or.inl hreset⟩
    · by_cases hk : x.index ≤ r.prevI ∨ ∃ y ∈ r.entries, y.index = x.index ∧ y.term = x.term
      · left
        rw [h]
        obtain ⟨y, hy, hyx⟩ := findMsg_mem hfm
        have hreq := hinv.msgs y hy r (by rw [hyx]; rfl)
        exact accept_keeps hinv.gfun (hinv.logs j) hreq hreset hx hk
      · right; right
        refine ⟨m, src, sid, r, rp, he, hfm, Or.inr ⟨?_, ?_⟩⟩
        · apply Decidable.byContradiction; intro hn; exact hk (Or.inl (by omega))
        · intro y hy hyi hyt; exact hk (Or.inr ⟨y, hy, hyi, hyt⟩)

/-- Non-reset accept never discards an entry that the request's source log `ll` holds as well. -/
theorem no_discard_shared {n cap : Nat} {c : Cluster} (hr : Reachable n cap c)
    (j : NodeId) (r : AeReq) (hreq : ChainFrom c.ghost r.prevI r.prevT r.entries) (hnr : ¬(r.prevI = 0 ∧ r.prevT = 0))
    (ll : Log) (hll : Chain c.ghost ll) (hsub : ∀ y ∈ r.entries, y ∈ ll)
    (x : Entry) (hx : x ∈ (c.nodes j).log) (hxl : x ∈ ll) :
    x ∈ (acceptEntries (c.nodes j).log r.prevI r.prevT r.entries).1 := by
  have hinv := (reachable_both hr).1
  exact accept_keeps_shared hinv.gfun (hinv.logs j) hll hsub hreq hnr hx hxl

-- ------------------------------------------------------------------------------------------ components
/-- Quorum intersection: two duplicate-free subsets of the voters, each a strict majority, share a voter. -/
theorem majorities_intersect (voters a b : List NodeId) (ha : a.Nodup) (hb : b.Nodup)
    (hav : ∀ x ∈ a, x ∈ voters) (hbv : ∀ x ∈ b, x ∈ voters)
    (hma : a.length * 2 > voters.length) (hmb : b.length * 2 > voters.length) : ∃ x, x ∈ a ∧ x ∈ b := by
  apply Decidable.byContradiction
  intro hno
  have hdis : ∀ x, x ∈ a → ∀ y, y ∈ b → x ≠ y := by
    intro x hx y hy hxy
    subst hxy
    exact hno ⟨x, hx, hy⟩
  have hnd : (a ++ b).Nodup := List.nodup_append.mpr ⟨ha, hb, hdis⟩
  have hsub : a ++ b ⊆ voters := by
    intro x hx
    rcases List.mem_append.mp hx with h | h
    · exact hav x h
    · exact hbv x h
  have := hnd.length_le_of_subset hsub
  simp at this
  omega

/-- Vote restriction: a vote is granted only to a candidate whose log is at least as up to date as the voter's
    (`is_target_log_more_recent`) and whose term is not older. -/
theorem grant_restricts (n : Node) (r : VoteReq) (h : (voteDecision n r).1 = true) :
    n.term ≤ r.term ∧ moreRecent (lastPair n.log).1 (lastPair n.log).2 r.lastIdx r.lastTerm = true := by
  unfold voteDecision at h
  simp only [] at h
  split at h
  · simp at h
  · next h1 =>
    split at h
    · simp at h
    · next h2 =>
      simp at h2
      exact ⟨by omega, h2⟩

/-- What `recordCommit` stores is the prefix of the committing leader's log up to its commit index. -/
theorem commit_recorded_prefix (c : Cluster) (i : NodeId) (b : Nat) :
    ∀ p ∈ (recordCommit c i b).commits, p ∈ c.commits ∨
      p = ((c.nodes i).term, (c.nodes i).log.filter (fun e => e.index ≤ (c.nodes i).commit)) := by
  intro p hp
  unfold recordCommit at hp
  split at hp
  · simp at hp
    rcases hp with hp | hp
    · right; exact hp
    · left; exact hp
  · left; exact hp

-- ------------------------------------------------------------------------------------------ negation witnesses
/-- F9.  Node 1 leads term 2, commits (2, t2, key 7) with node 2; node 2 is elected in term 3 (match_index 0 for all);
    the stream 2->1 is torn down, the next send fails => next_index[1] := 1; the following heartbeat is prev=(0,0)
    with cap = 1 entry and wipes node 1's log down to [1]; node 2 crashes; node 1 is elected in term 4 without the
    committed entry. -/
def f9Schedule : List Event :=
  [.tick 1, .tick 1, .voteReq 1 2, .voteResp 1 2, .voteEnd 1, .deliverAe 1, .deliverResp 3, .write 1 7, .deliverAe 4,
   .deliverResp 6, .tick 2, .tick 2, .voteReq 2 3, .voteResp 2 3, .voteEnd 2, .streamClosed 2 1, .tick 2, .tick 2,
   .deliverAe 10, .crash 2 0, .tick 1, .tick 1, .voteReq 1 3, .voteResp 1 3, .voteEnd 1]

/-- F8.  Node 2 is restarted gracefully once (its hard state is saved), then acknowledges (2, t2, key 7) from memory;
    the entry is committed; node 2 crashes before the IO thread wrote it, restarts; node 1 crashes; node 2 is elected
    in term 3 without the committed entry. -/
def f8Schedule : List Event :=
  [.tick 1, .tick 1, .voteReq 1 2, .voteResp 1 2, .voteEnd 1, .deliverAe 1, .deliverResp 3, .stop 2, .start 2,
   .write 1 7, .deliverAe 4, .deliverResp 6, .crash 2 1, .start 2, .crash 1 0, .tick 2, .tick 2, .voteReq 2 3,
   .voteResp 2 3, .voteEnd 2]

def theEntry : Entry := ⟨2, 2, 8⟩     -- index 2, term 2, client command with key 7

/-- Leader completeness is false for the code as it is, even with one leadership per term (F9 witness). -/
theorem leader_completeness_fails : ¬ LeaderCompletenessStatement := by
  intro h
  have hr := reachable_run 3 1 f9Schedule _ Reachable.init
  have hes : H_electionSafety (run (Cluster.init 3 1) f9Schedule) := by decide +kernel
  have := h 3 1 _ hr hes theEntry 2 1 (by decide +kernel) (by decide +kernel) (by decide +kernel)
  revert this
  decide +kernel

/-- ... and the same through a crashed acknowledger (F8 witness). -/
theorem leader_completeness_fails_on_crash : ¬ LeaderCompletenessStatement := by
  intro h
  have hr := reachable_run 3 2 f8Schedule _ Reachable.init
  have hes : H_electionSafety (run (Cluster.init 3 2) f8Schedule) := by decide +kernel
  have := h 3 2 _ hr hes theEntry 2 2 (by decide +kernel) (by decide +kernel) (by decide +kernel)
  revert this
  decide +kernel

/-- The reset branch discards a committed entry at a node that holds it (F9, the wipe itself). -/
theorem no_discard_fails_on_reset : ¬ NoDiscardStatement := by
  intro h
  have hr := reachable_run 3 1 (f9Schedule.take 18) _ Reachable.init
  have := h 3 1 _ (.deliverAe 10) hr (by decide +kernel) theEntry 2 1 (by decide +kernel) (by decide +kernel)
  revert this
  decide +kernel

/-- A crash of the acknowledger discards a committed entry (F8). -/
theorem no_discard_fails_on_crash : ¬ NoDiscardStatement := by
  intro h
  have hr := reachable_run 3 2 (f8Schedule.take 12) _ Reachable.init
  have := h 3 2 _ (.crash 2 1) hr (by decide +kernel) theEntry 2 2 (by decide +kernel) (by decide +kernel)
  revert this
  decide +kernel

-- ------------------------------------------------------------------------------------------ partial theorem
/-- `no_discard_committed` under the exact excluded triggers: a step that is neither a crash of the node nor the
    delivery of a prev=(0,0) request, and whose delivered request (if any) was cut out of a log that holds the entry
    (= leader completeness of the sender, H_leaderCompleteness), never discards the entry. -/
theorem no_discard_committed_partial {n cap : Nat} {c : Cluster} (hr : Reachable n cap c)
    (ev : Event) (j : NodeId) (x : Entry) (hx : x ∈ (c.nodes j).log)
    (hnocrash : ∀ k, ev ≠ .crash j k)
    (hsender : ∀ m src sid r rp, ev = .deliverAe m → findMsg c m = some (.ae src j sid r rp) →
      ¬(r.prevI = 0 ∧ r.prevT = 0) ∧ ∃ ll, Chain c.ghost ll ∧ x ∈ ll ∧ ∀ y ∈ r.entries, y ∈ ll) :
    x ∈ ((step c ev).1.nodes j).log := by
  have hinv := (reachable_both hr).1
  cases log_step_cases c ev j with
  | same h => rw [h]; exact hx
  | append new h => rw [h]; exact List.mem_append_left _ hx
  | crash k keep he _ => exact absurd he (hnocrash k)
  | accept m src sid r rp he hfm h =>
    obtain ⟨hnr, ll, hll, hxl, hsub⟩ := hsender m src sid r rp he hfm
    obtain ⟨y, hy, hyx⟩ := findMsg_mem hfm
    have hreq := hinv.msgs y hy r (by rw [hyx]; rfl)
    rw [h]
    exact accept_keeps_shared hinv.gfun (hinv.logs j) hll hsub hreq hnr hx hxl

-- non-vacuity: the hypotheses of `no_discard_step` / `no_discard_committed_partial` hold in a non-trivial state
example : Reachable 3 2 (run (Cluster.init 3 2) (f8Schedule.take 12)) ∧
    H_electionSafety (run (Cluster.init 3 2) (f8Schedule.take 12)) ∧
    theEntry ∈ ((run (Cluster.init 3 2) (f8Schedule.take 12)).nodes 2).log ∧
    committedB (run (Cluster.init 3 2) (f8Schedule.take 12)) theEntry 2 = true := by
  refine ⟨reachable_run 3 2 _ _ Reachable.init, ?_, ?_, ?_⟩ <;> decide +kernel


-- ------------------------------------------------------------------------------------------ leader completeness, proved
/-- States reachable by BENIGN steps only: every step satisfies `benignB` = H_durableAck ∧ H_noWipe
    (`benignB_iff`): a crash discards no entry of the node it hits (F8 trigger excluded) and the delivery of a
    prev=(0,0) request discards no entry of its target (F9 trigger excluded).  Every other event — timers, votes,
    deliveries in any order, loss, duplication, stream errors, writes, graceful restarts, crashes that lose nothing — is
    unrestricted. -/
inductive ReachableB (n cap : Nat) : Cluster → Prop
  | init : ReachableB n cap (Cluster.init n cap)
  | step {c : Cluster} (e : Event) : ReachableB n cap c → benignB c e = true → ReachableB n cap (step c e).1

theorem reachableB_reachable {n cap : Nat} {c : Cluster} (hr : ReachableB n cap c) : Reachable n cap c := by
  induction hr with
  | init => exact Reachable.init
  | step e _ _ ih => exact Reachable.step e ih

theorem reachableB_hist {n cap : Nat} {c : Cluster} (hr : ReachableB n cap c) : ∃ H, ReachH n cap c H := by
  induction hr with
  | init => exact ⟨{}, ReachH.init⟩
  | step e _ hb ih => obtain ⟨H, hH⟩ := ih; exact ⟨_, ReachH.step e hH hb⟩

/-- the two named hypotheses, per step, are exactly the benign predicate -/
theorem benign_iff_hyps (c : Cluster) (e : Event) : benignB c e = true ↔ H_durableAck c e ∧ H_noWipe c e :=
  benignB_iff c e

theorem committedB_mem {c : Cluster} {e : Entry} {t : Nat} (h : committedB c e t = true) :
    ∃ pre, (t, pre) ∈ c.commits ∧ e ∈ pre := by
  simp only [committedB, List.any_eq_true, Bool.and_eq_true, beq_iff_eq, List.contains_iff_mem] at h
  obtain ⟨p, hp, ht, he⟩ := h
  exact ⟨p.2, by rw [← ht]; exact hp, he⟩

/-- C05 `leader_completeness`, proved over the benign sub-relation: in every state reachable without an F8 / F9 trigger,
    every entry covered by the commit index of a leader of term t is in the log of every node that leads in a later
    term.  Proof (Lemmas/ClusterComplete*.lean): history ghost (who held which entry in the entry's own term; the log of
    every winner when it won); `DInv` match_index / acknowledgement soundness (since fix c57f05e the acknowledgement
    names what the request verified); `CInv` a commit record is backed by a strict majority (`median_majority`);
    `HInv` an entry held in its own term stays unless a later leader without it took over, the up-to-date check hands
    a voter's entries to the candidate (`up_to_date`), a winner inherits from its voters; `won_logs_hold` strong
    induction on the later term with `quorums_meet`. -/
theorem leader_completeness_partial {n cap : Nat} {c : Cluster} (hr : ReachableB n cap c) : LeaderCompleteness c := by
  intro e t j hc hrole hlt
  obtain ⟨H, hH⟩ := reachableB_hist hr
  obtain ⟨pre, hp, he⟩ := committedB_mem hc
  exact leader_completeness_benign hH t pre hp e he j hrole hlt

theorem reachableB_run {n cap : Nat} : ∀ (es : List Event) (c : Cluster), ReachableB n cap c →
    allBenign c es = true → ReachableB n cap (run c es) := by
  intro es
  induction es with
  | nil => intro c h _; exact h
  | cons e es ih =>
    intro c h hb
    simp only [allBenign, Bool.and_eq_true] at hb
    exact ih _ (ReachableB.step e h hb.1) hb.2

/-- Non-vacuity.  A benign schedule with a commit and a leader change: node 2 wins term 2, replicates its noop to node 1
    (a prev=(0,0) request delivered to an empty log: nothing to discard) and commits it; node 2 is stopped; node 1 wins
    term 3 with node 3's vote. -/
def benignDemo : List Event :=
  [.tick 2, .tick 2, .voteReq 2 1, .voteResp 2 1, .voteEnd 2, .deliverAe 1, .deliverResp 3, .stop 2,
   .tick 1, .tick 1, .voteReq 1 3, .voteResp 1 3, .voteEnd 1]

theorem benignDemo_ok :
    ReachableB 3 2 (run (Cluster.init 3 2) benignDemo) ∧
    ((run (Cluster.init 3 2) benignDemo).nodes 1).role = .leader ∧
    ((run (Cluster.init 3 2) benignDemo).nodes 1).term = 3 ∧
    committedB (run (Cluster.init 3 2) benignDemo) ⟨1, 2, 0⟩ 2 = true ∧
    (⟨1, 2, 0⟩ : Entry) ∈ ((run (Cluster.init 3 2) benignDemo).nodes 1).log := by
  refine ⟨reachableB_run benignDemo _ ReachableB.init (by decide +kernel), by decide +kernel, by decide +kernel,
    by decide +kernel, ?_⟩
  exact leader_completeness_partial (reachableB_run benignDemo _ ReachableB.init (by decide +kernel))
    ⟨1, 2, 0⟩ 2 1 (by decide +kernel) (by decide +kernel) (by decide +kernel)

/-- the F8 and F9 witness schedules are NOT benign: the hypotheses exclude exactly those triggers -/
theorem witnesses_not_benign :
    allBenign (Cluster.init 3 1) f9Schedule = false ∧ allBenign (Cluster.init 3 2) f8Schedule = false := by
  constructor <;> decide +kernel

end DEngine.C05
