/-
  C04 — Log matching.

  Statement (properties.jsonl): if two nodes' logs both contain an entry with the same index and term, that entry has
  the same payload on both, and all earlier entries are identical too — at every moment of every run (AppendEntries
  loss / duplication / reordering, leader changes, conflict truncation, stream errors, crash and restart).

  Model: DEngine/Model/Cluster.lean (`step`, the real handlers mirrored one by one; tied to the real code by the
  `cluster` correspondence family = a mini-cluster of real `Raft<T>` nodes replaying the same schedules).

  Theorems
  * `log_matching_unconditional` — for every reachable cluster state every pair of node logs satisfies `LogMatching`.
                                 No hypothesis.  = `log_matching` + `election_safety`.
  * `election_safety`          — no term ever has two leaderships in the cluster model (the former named hypothesis
                                 H_electionSafety = `FreshTerms`), by the election invariant `EInv` (recorded grants: one
                                 per voter and term, backed by the persisted vote; a won tally = a strict majority of
                                 recorded grants; two majorities meet), preserved by every step (`step_einv`).
  * `log_matching`             — the same under the hypothesis `FreshTerms` (kept: it is the statement the log part
                                 alone needs).  Proof = inductive invariant `Inv` (ghost map G, Chain, Unique) preserved by
                                 every step (`step_inv`), per-path lemmas `reset_chain`, `fast_chain`, `slow_chain`,
                                 `accept_chain`, `build_chain`, `append_chain`, `truncate_chain`.
  * `requests_match_leader_log` — every AppendEntries request in flight is a chain of created entries hanging below
                                 its (prev_index, prev_term) (what makes the follower's accept safe).
  * `logMatchingB_iff`         — the monitor run on the implementation's traces is the decidable form of `LogMatching`.
  Regression: before /repo commit c4109f0 (finding F2: hard state saved only in `Drop for Raft`) a crashed leader restarted
  with its old term and was elected again in the same term, which produced two different entries with the same
  (index, term) on the real code — corpus/cluster/f2_term_lost_in_crash.case; `f2_regression` below shows that the
  model of the fixed code keeps log matching (and H_electionSafety) on that schedule.
-/
import DEngine.Lemmas.ClusterStep
import DEngine.Lemmas.ClusterElectAll
import DEngine.Model.ClusterTrace
namespace DEngine.C04
open DEngine.Cluster

/-- Log matching between two logs: an entry with the same index and term is the same entry, and the logs agree on
    everything up to that index. -/
def LogMatching (a b : Log) : Prop :=
  ∀ e1 ∈ a, ∀ e2 ∈ b, e1.index = e2.index → e1.term = e2.term →
    e1 = e2 ∧ a.filter (fun e => e.index ≤ e1.index) = b.filter (fun e => e.index ≤ e1.index)

/-- States reachable from the initial cluster by any schedule of events (timers, deliveries in any order, loss,
    duplication, stream errors, client writes, crashes, restarts). -/
inductive Reachable (n cap : Nat) : Cluster → Prop
  | init : Reachable n cap (Cluster.init n cap)
  | step {c : Cluster} (e : Event) : Reachable n cap c → Reachable n cap (step c e).1

/-- H_electionSafety: no term has two leaderships.  Proved for every reachable state as `election_safety` below. -/
abbrev H_electionSafety (c : Cluster) : Prop := FreshTerms c.leaderTerms

theorem reachable_inv {n cap : Nat} {c : Cluster} (hr : Reachable n cap c) : H_electionSafety c → Inv c := by
  induction hr with
  | init => intro _; exact inv_init n cap
  | step e _ ih =>
    intro hf
    obtain ⟨l, hl⟩ := leaderTerms_step _ e
    have hprev : FreshTerms _ := freshTerms_suffix (by rw [← hl]; exact hf)
    exact step_inv (ih hprev) e hf

/-- two chains over a functional ghost map satisfy log matching -/
theorem chains_match {g : List GRec} (hg : GFun g) {a b : Log} (ha : Chain g a) (hb : Chain g b) :
    LogMatching a b := by
  intro e1 h1 e2 h2 hi ht
  have g1 := chain_mem_get ha h1
  have g2 := chain_mem_get hb h2
  have hk : e1.index - 1 + 1 = e1.index := by omega
  have hagree := chain_agree hg ha hb (e1.index - 1) e1 e2 g1.1 (by rw [hi]; exact g2.1) ht
  rw [hk] at hagree
  refine ⟨?_, ?_⟩
  · have h3 : (a.take e1.index)[e1.index - 1]? = some e1 := by
      rw [List.getElem?_take]; simp [g1.1]; omega
    have h4 : (b.take e1.index)[e1.index - 1]? = some e2 := by
      rw [List.getElem?_take]; simp [hi, g2.1]; omega
    rw [hagree, h4] at h3
    exact (Option.some.inj h3).symm
  · rw [filter_le_chain ha, filter_le_chain hb, hagree]

/-- C04, full statement over all reachable states. -/
theorem log_matching {n cap : Nat} {c : Cluster} (hr : Reachable n cap c) (hes : H_electionSafety c) :
    ∀ i j, LogMatching (c.nodes i).log (c.nodes j).log := by
  intro i j
  have hinv := reachable_inv hr hes
  exact chains_match hinv.gfun (hinv.logs i) (hinv.logs j)

/-- Every AppendEntries request in flight consists of created entries hanging below its (prev_index, prev_term):
    contiguous from prev_index+1, each entry recorded with its predecessor's term (C08 at the cluster level). -/
theorem requests_match_leader_log {n cap : Nat} {c : Cluster} (hr : Reachable n cap c) (hes : H_electionSafety c) :
    ∀ x ∈ c.msgs, ∀ r, aeOf x.2 = some r → ChainFrom c.ghost r.prevI r.prevT r.entries :=
  (reachable_inv hr hes).msgs

/-- Both invariants together over all reachable states: the log invariant `Inv` needs the election invariant `EInv`
    (no term re-used) and `EInv` needs `Inv` (a leader's round only sends requests built from its own log). -/
theorem reachable_both {n cap : Nat} {c : Cluster} (hr : Reachable n cap c) : Inv c ∧ EInv c := by
  induction hr with
  | init => exact ⟨inv_init n cap, einv_init n cap⟩
  | step e _ ih =>
    have he := step_einv ih.1 ih.2 e
    exact ⟨step_inv ih.1 e he.fresh, he⟩

/-- Election safety of the cluster model (C01 at the cluster level): no term ever has two leaderships.  Proved from
    the vote bookkeeping: a won tally is a strict majority of distinct voters whose grants are recorded (`won_quorum`),
    a voter grants at most one candidate per term (`guniq`, from `voteDecision` + the persisted `voted_for`), two
    majorities share a voter (`quorums_meet`).  This discharges `H_electionSafety`. -/
theorem election_safety {n cap : Nat} {c : Cluster} (hr : Reachable n cap c) : H_electionSafety c :=
  (reachable_both hr).2.fresh

/-- C04 without hypothesis: in every reachable state of the cluster model every pair of node logs matches. -/
theorem log_matching_unconditional {n cap : Nat} {c : Cluster} (hr : Reachable n cap c) :
    ∀ i j, LogMatching (c.nodes i).log (c.nodes j).log :=
  log_matching hr (election_safety hr)

/-- The monitor evaluated on the implementation's traces is the decidable form of `LogMatching`. -/
theorem logMatchingB_iff (a b : Log) : logMatchingB a b = true ↔ LogMatching a b := by
  unfold logMatchingB LogMatching
  simp only [List.all_eq_true]
  constructor
  · intro h e1 h1 e2 h2 hi ht
    have := h e1 h1 e2 h2
    simp only [hi, ht, beq_self_eq_true, Bool.and_self, if_true, Bool.and_eq_true, beq_iff_eq] at this
    refine ⟨this.1, ?_⟩
    have h2 := this.2
    rw [← hi] at h2
    exact h2
  · intro h e1 h1 e2 h2
    split
    · next hc =>
      simp at hc
      have := h e1 h1 e2 h2 hc.1 hc.2
      simp only [Bool.and_eq_true, beq_iff_eq]
      exact ⟨this.1, this.2⟩
    · rfl

-- ------------------------------------------------------------------------------------------ non-vacuity
/-- a schedule with an election, replication, a conflict-free follower and a restart -/
def demo : List Event :=
  [.tick 1, .tick 1, .voteReq 1 2, .voteResp 1 2, .voteEnd 1, .deliverAe 1, .deliverResp 3, .write 1 7,
   .deliverAe 4, .deliverAe 2, .stop 3, .start 3]

theorem reachable_run (n cap : Nat) : ∀ (es : List Event) (c : Cluster), Reachable n cap c → Reachable n cap (run c es) := by
  intro es
  induction es with
  | nil => intro c h; exact h
  | cons e es ih => intro c h; exact ih _ (Reachable.step e h)

/-- the hypotheses of `log_matching` are satisfiable by a non-trivial state: a leader with two entries, one follower
    holding both, one follower holding the first after a restart -/
example : Reachable 3 2 (run (Cluster.init 3 2) demo) ∧ H_electionSafety (run (Cluster.init 3 2) demo) ∧
    ((run (Cluster.init 3 2) demo).nodes 2).log.length = 2 ∧ ((run (Cluster.init 3 2) demo).nodes 3).log.length = 1 := by
  refine ⟨reachable_run 3 2 demo _ Reachable.init, ?_, ?_, ?_⟩
  · decide +kernel
  · decide +kernel
  · decide +kernel

-- ------------------------------------------------------------------------------------------ regression (F2, fixed)
/-- The schedule that broke log matching before the fix of F2: node 1 leads term 2 and writes (2, t2, key 7), node 2
    stores it; node 1 crashes before its last entry reaches the disk, restarts, is elected again by node 3 and appends
    its noop at index 2.  With term and vote persisted the second leadership is in term 3. -/
def f2Schedule : List Event :=
  [.tick 1, .tick 1, .voteReq 1 2, .voteResp 1 2, .voteEnd 1, .deliverAe 1, .deliverResp 3, .write 1 7, .deliverAe 4,
   .crash 1 1, .start 1, .tick 1, .tick 1, .voteReq 1 3, .voteResp 1 3, .voteEnd 1]

theorem f2_regression : H_electionSafety (run (Cluster.init 3 2) f2Schedule) ∧
    ((run (Cluster.init 3 2) f2Schedule).nodes 1).term = 3 ∧
    logMatchingB ((run (Cluster.init 3 2) f2Schedule).nodes 1).log ((run (Cluster.init 3 2) f2Schedule).nodes 2).log = true := by
  refine ⟨?_, ?_, ?_⟩ <;> decide +kernel

end DEngine.C04
