import DEngine.Lemmas.ElectPub
import DEngine.Props.C01
/-!
# C31 — Leader notifications are consistent

`Node.pubs` is the observation log of the leader-change watch of a node (`Raft::notify_leader_change` with
`send_if_modified`; newest first): every value the `watch::Sender<Option<LeaderInfo>>` was set to, over all
incarnations of the node.  The notify sites are the ones of `Raft::handle_internal_event`
(`BecomeFollower(lid)` → `(lid, current_term)`, `BecomeCandidate` / `BecomeLearner` → `None`,
`LeaderDiscovered(l, t)`, `NoopCommitted{term}`); the `elect` correspondence compares the log with the real
`watch::Receiver` sampled after every internal event.

* `notif_terms_monotone_partial` — per node, the terms of the published `Some(leader, term)` values never
  decrease, on every schedule without a crash and without a learner restart (no other hypothesis).
  The full statement is false after a crash (`notif_terms_monotone_false_F2`).
* `NotifTruthfulStatement` — every published `(leader, term)` names a node that really became leader in that
  term.  **False for the code as it is** (`notif_truthful_false_F28`): a leader that receives an AppendEntries
  of a higher term enqueues `BecomeFollower(Some(new_leader))` *before* adopting the term, so
  `{new_leader, old_term}` is published — on a schedule without any of the C01 triggers.
* `notif_truthful_partial`, `notif_one_leader_per_term_partial` — truthful, and at most one notified leader
  per term over all nodes, on every schedule that avoids the C01 triggers and the F28 trigger.
-/
namespace DEngine.C31
open DEngine.Elect DEngine.C01

/-- the values published by node `p`, chronological -/
def pubsOf (c : Cluster) (p : Nat) : List Pub := (c.proc p).node.pubs.reverse

def NoPubsYet (c : Cluster) : Prop := ∀ p, (c.proc p).node.pubs = []

/-! ### terms of one node's notifications never decrease -/

def NotifTermsMonotoneStatement : Prop :=
  ∀ (c0 : Cluster) (ls : List Label) (p : Nat), Fresh c0 → NoPubsYet c0 →
    sortedLE (pubTerms (pubsOf (run c0 ls) p)) = true

/-- node 1 leads term 2, node 2 then leads term 3 and announces itself to node 3; node 3 crashes and restarts
    with term 1; the heartbeat of the stale leader 1 (term 2) is accepted and published after `(2, 3)`. -/
def f2Notif : List Label :=
  [.timeout 1, .start 1, .deliver 1 2, .finish 1 true, .timeout 2, .start 2, .deliver 2 3, .finish 2 true,
   .heartbeat 2 3, .crash 3, .restart 3, .heartbeat 1 3]

theorem f2_notifs : pubsOf (run c3 f2Notif) 3 = [some (2, 3), some (1, 2)] := by decide

theorem noPubsYet_c3 : NoPubsYet c3 := fun _ => rfl

/-- **The code as it is violates C31** after a crash (F2: the term the node had reached is not persisted). -/
theorem notif_terms_monotone_false_F2 : ¬ NotifTermsMonotoneStatement := by
  intro h
  have := h c3 f2Notif 3 (fresh_freshCluster _ _) noPubsYet_c3
  rw [f2_notifs] at this
  revert this; decide

def noResetB (c : Cluster) : Label → Bool
  | .crash _ => false
  | .restart p => !(c.proc p).startLearner
  | _ => true

theorem noReset_of (c : Cluster) (l : Label) (h : noResetB c l = true) : NoReset c l ∧ ∀ p, l ≠ .crash p := by
  cases l <;> simp_all [noResetB, NoReset]

theorem pubOK_run : ∀ (ls : List Label) (c : Cluster), DInv c → traceAll noResetB c ls = true →
    (∀ q, PubOK (c.proc q).node) → ∀ q, PubOK ((run c ls).proc q).node
  | [], _, _, _, h => h
  | l :: ls, c, hd, hs, h => by
    simp only [traceAll, Bool.and_eq_true] at hs
    obtain ⟨hnr, hnc⟩ := noReset_of c l hs.1
    simp only [run, List.foldl_cons]
    exact pubOK_run ls (step c l) (dinv_step c hd l hnc) hs.2 (fun q => pubOK_step c hd l hnr q (h q))

theorem pubOK_of_fresh {c : Cluster} (h : Fresh c) (hp : NoPubsYet c) (q : Nat) : PubOK (c.proc q).node :=
  ⟨by rw [hp q]; trivial, fun hr => absurd hr (h.node q).2.2⟩

/-- **C31 (terms), partial**: without a crash and without a learner restart the notified terms of every node
    are non-decreasing on every schedule. -/
theorem notif_terms_monotone_partial (c0 : Cluster) (ls : List Label) (p : Nat) (h0 : Fresh c0)
    (hp : NoPubsYet c0) (hs : traceAll noResetB c0 ls = true) :
    sortedLE (pubTerms (pubsOf (run c0 ls) p)) = true :=
  sortedLE_of_pubOK (pubOK_run ls c0 h0.down hs (pubOK_of_fresh h0 hp) p)

/-! ### truthfulness and one leader per term -/

def NotifTruthfulStatement : Prop :=
  ∀ (V : List Nat) (c0 : Cluster) (ls : List Label) (p : Nat), Fresh c0 → NoPubsYet c0 →
    traceAll (envB V) c0 ls = true → traceAll noTriggerB c0 ls = true →
    pubsTruthful (pubsOf (run c0 ls) p) (leaderPairs (run c0 ls)) = true

/-- F28: node 1 leads term 2 (noop committed, `(1, 2)` published); node 2 wins term 3 with node 3's vote; its
    heartbeat reaches node 1, which is still leader of term 2: `(2, 2)` is published before `(2, 3)`. -/
def f28Trace : List Label :=
  [.timeout 1, .start 1, .deliver 1 2, .finish 1 true, .noopCommitted 1, .timeout 2, .start 2, .deliver 2 3,
   .finish 2 true, .heartbeat 2 1]

theorem f28_notifs : pubsOf (run c3 f28Trace) 1 = [some (1, 2), some (2, 2), some (2, 3)] ∧
    leaderPairs (run c3 f28Trace) = [(2, 3), (1, 2)] := by decide

/-- **The code as it is violates C31** — F28, on a schedule free of the C01 triggers. -/
theorem notif_truthful_false_F28 : ¬ NotifTruthfulStatement := by
  intro h
  have := h [1, 2, 3] c3 f28Trace 1 (fresh_freshCluster _ _) noPubsYet_c3 (by decide) (by decide)
  rw [f28_notifs.1, f28_notifs.2] at this
  revert this; decide

def noF28B (c : Cluster) : Label → Bool
  | .appendEntries p t _ => !((c.proc p).node.role == .leader && decide ((c.proc p).node.term < t))
  | .heartbeat l p => !((c.proc p).node.role == .leader && decide ((c.proc p).node.term < (c.proc l).node.term))
  | _ => true

theorem noF28_of (c : Cluster) (l : Label) (h : noF28B c l = true) : NoF28 c l := by
  cases l <;> simp_all [noF28B, NoF28] <;> (intro hr; rcases h with h | h; exact absurd hr h; exact h)

theorem noReset_of_safe {V : List Nat} {c : Cluster} {l : Label} (h : Safe V c l) :
    NoReset c l ∧ ∀ p, l ≠ .crash p := by
  cases l <;> simp_all [Safe, NoReset]

theorem tinv_run {V : List Nat} : ∀ (ls : List Label) (c : Cluster), Inv V c → (∀ q, PubOK (c.proc q).node) →
    TInv c → SafeTrace V c ls → traceAll noF28B c ls = true →
    Inv V (run c ls) ∧ TInv (run c ls)
  | [], _, h, _, ht, _, _ => ⟨h, ht⟩
  | l :: ls, c, h, hp, ht, hs, hn => by
    simp only [traceAll, Bool.and_eq_true] at hn
    obtain ⟨hnr, _⟩ := noReset_of_safe hs.1
    simp only [run, List.foldl_cons]
    exact tinv_run ls (step c l) (inv_step h l hs.1) (fun q => pubOK_step c h.d l hnr q (hp q))
      (tinv_step h hp ht l hs.1 (noF28_of c l hn.1)) hs.2 hn.2

theorem mem_leaderPairs {c : Cluster} {l t : Nat} (h : c.isL l t) : (l, t) ∈ leaderPairs c := by
  obtain ⟨Q, hQ⟩ := h
  exact List.mem_map.mpr ⟨(l, t, Q), hQ, rfl⟩

/-- **C31 (truthfulness), partial**: every notified `(leader, term)` is a recorded `BecomeLeader(leader, term)`,
    on every schedule that avoids the C01 triggers and the F28 trigger. -/
theorem notif_truthful_partial (V : List Nat) (c0 : Cluster) (ls : List Label) (p : Nat) (h0 : Fresh c0)
    (hp : NoPubsYet c0) (he : traceAll (envB V) c0 ls = true) (hn : traceAll noTriggerB c0 ls = true)
    (hf : traceAll noF28B c0 ls = true) :
    pubsTruthful (pubsOf (run c0 ls) p) (leaderPairs (run c0 ls)) = true := by
  have ht0 : TInv c0 := by intro q l t hm; rw [hp q] at hm; cases hm
  obtain ⟨_, ht⟩ := tinv_run ls c0 (inv_of_fresh V c0 h0) (pubOK_of_fresh h0 hp) ht0 (safeTrace_of V ls c0 he hn) hf
  unfold pubsTruthful pubsOf
  rw [List.all_eq_true]
  intro x hx
  cases x with
  | none => rfl
  | some lt =>
    obtain ⟨l, t⟩ := lt
    simp only [List.contains_iff_mem]
    exact mem_leaderPairs (ht p l t (List.mem_reverse.mp hx))

/-- **C31 (one leader per term), partial**: two notifications for the same term, on any two nodes, name the same
    leader. -/
theorem notif_one_leader_per_term_partial (V : List Nat) (c0 : Cluster) (ls : List Label) (h0 : Fresh c0)
    (hp : NoPubsYet c0) (he : traceAll (envB V) c0 ls = true) (hn : traceAll noTriggerB c0 ls = true)
    (hf : traceAll noF28B c0 ls = true) (p q l l' t : Nat)
    (h1 : some (l, t) ∈ pubsOf (run c0 ls) p) (h2 : some (l', t) ∈ pubsOf (run c0 ls) q) : l = l' := by
  have ht0 : TInv c0 := by intro q l t hm; rw [hp q] at hm; cases hm
  obtain ⟨hi, ht⟩ := tinv_run ls c0 (inv_of_fresh V c0 h0) (pubOK_of_fresh h0 hp) ht0 (safeTrace_of V ls c0 he hn) hf
  exact hi.unique_leader (ht p l t (List.mem_reverse.mp h1)) (ht q l' t (List.mem_reverse.mp h2))

/-- non-vacuity: `okTrace` of C01 satisfies every hypothesis and produces notifications -/
example : traceAll noF28B c3 okTrace = true ∧ traceAll noResetB c3 okTrace = true ∧
    pubsOf (run c3 okTrace) 3 = [some (1, 2)] ∧ pubsOf (run c3 okTrace) 2 = [some (2, 3)] := by decide


end DEngine.C31
