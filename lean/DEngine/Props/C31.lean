import DEngine.Lemmas.ElectPub
import DEngine.Props.C01
/-!
# C31 — Leader notifications are consistent

`Node.pubs` is the observation log of the leader-change watch of a node (`Raft::notify_leader_change` with
`send_if_modified`; newest first): every value the `watch::Sender<Option<LeaderInfo>>` was set to, over all
incarnations of the node.  The notify sites are the ones of `Raft::handle_internal_event`
(`BecomeFollower(lid)` → `(lid, current_term)`, `BecomeCandidate` / `BecomeLearner` → `None`,
`LeaderDiscovered(l, t)`, `NoopCommitted{term}`); the `elect` correspondence compares the log with the real
`watch::Receiver` sampled after every internal event.

History: as found, truthfulness was false (F28: a leader stepping down on a higher-term AppendEntries published
`{new_leader, old_term}` — fixed 05b4801) and term monotonicity was false after a crash (F2 — fixed c4109f0) and
for restarted learners (F31 — fixed b8fde38).  The model follows the fixed code; witnesses kept as regressions.

* `notif_terms_monotone` — **full strength**: per node, the terms of the published `Some(leader, term)` values
  never decrease, on every schedule (crashes, restarts, learners included); no hypothesis.
* `notif_truthful` — every published `(leader, term)` is a recorded `BecomeLeader(leader, term)`, on every
  schedule of a static-membership cluster under the C01 environment assumptions.
* `notif_one_leader_per_term` — two notifications for the same term, on any two nodes, name the same leader.
-/
namespace DEngine.C31
open DEngine.Elect DEngine.C01

/-- the values published by node `p`, chronological -/
def pubsOf (c : Cluster) (p : Nat) : List Pub := (c.proc p).node.pubs.reverse

def NoPubsYet (c : Cluster) : Prop := ∀ p, (c.proc p).node.pubs = []

/-! ### terms of one node's notifications never decrease -/

/-- former F2 witness: node 1 leads term 2, node 2 then leads term 3 and announces itself to node 3; node 3
    crashes and restarts; the heartbeat of the stale leader 1 (term 2) arrives. -/
def f2Notif : List Label :=
  [.timeout 1, .start 1, .deliver 1 2, .finish 1 true, .timeout 2, .start 2, .deliver 2 3, .finish 2 true,
   .heartbeat 2 3, .crash 3, .restart 3, .heartbeat 1 3]

/-- regression: the restarted node still knows term 3 and rejects the stale leader -/
theorem f2_notifs_regression : pubsOf (run c3 f2Notif) 3 = [some (2, 3)] := by decide

theorem noPubsYet_c3 : NoPubsYet c3 := fun _ => rfl

theorem pubOK_run : ∀ (ls : List Label) (c : Cluster), DInv c →
    (∀ q, PubOK (c.proc q).node) → ∀ q, PubOK ((run c ls).proc q).node
  | [], _, _, h => h
  | l :: ls, c, hd, h => by
    simp only [run, List.foldl_cons]
    exact pubOK_run ls (step c l) (dinv_step c hd l) (fun q => pubOK_step c hd l q (h q))

theorem pubOK_of_fresh {c : Cluster} (h : Fresh c) (hp : NoPubsYet c) (q : Nat) : PubOK (c.proc q).node :=
  ⟨by rw [hp q]; trivial, fun hr => absurd hr (h.node q).2.2⟩

/-- **C31 (terms), full strength**: on every schedule the notified terms of every node are non-decreasing. -/
theorem notif_terms_monotone (c0 : Cluster) (ls : List Label) (p : Nat) (h0 : Fresh c0) (hp : NoPubsYet c0) :
    sortedLE (pubTerms (pubsOf (run c0 ls) p)) = true :=
  sortedLE_of_pubOK (pubOK_run ls c0 h0.down (pubOK_of_fresh h0 hp) p)

/-! ### truthfulness and one leader per term -/

/-- former F28 witness: node 1 leads term 2 (noop committed, `(1, 2)` published); node 2 wins term 3 with node
    3's vote; its heartbeat reaches node 1, which is still leader of term 2. -/
def f28Trace : List Label :=
  [.timeout 1, .start 1, .deliver 1 2, .finish 1 true, .noopCommitted 1, .timeout 2, .start 2, .deliver 2 3,
   .finish 2 true, .heartbeat 2 1]

/-- regression: `(2, 2)` is no longer published -/
theorem f28_regression : pubsOf (run c3 f28Trace) 1 = [some (1, 2), some (2, 3)] ∧
    leaderPairs (run c3 f28Trace) = [(2, 3), (1, 2)] := by decide

theorem tinv_run {V : List Nat} : ∀ (ls : List Label) (c : Cluster), Inv V c → (∀ q, PubOK (c.proc q).node) →
    TInv c → SafeTrace V c ls → Inv V (run c ls) ∧ TInv (run c ls)
  | [], _, h, _, ht, _ => ⟨h, ht⟩
  | l :: ls, c, h, hp, ht, hs => by
    simp only [run, List.foldl_cons]
    exact tinv_run ls (step c l) (inv_step h l hs.1) (fun q => pubOK_step c h.d l q (hp q))
      (tinv_step h hp ht l hs.1) hs.2

theorem mem_leaderPairs {c : Cluster} {l t : Nat} (h : c.isL l t) : (l, t) ∈ leaderPairs c := by
  obtain ⟨Q, hQ⟩ := h
  exact List.mem_map.mpr ⟨(l, t, Q), hQ, rfl⟩

/-- **C31 (truthfulness)**: every notified `(leader, term)` is a recorded `BecomeLeader(leader, term)`, on every
    schedule of a static-membership cluster (C01 environment assumptions only). -/
theorem notif_truthful (V : List Nat) (c0 : Cluster) (ls : List Label) (p : Nat) (h0 : Fresh c0)
    (hp : NoPubsYet c0) (he : traceAll (envB V) c0 ls = true) :
    pubsTruthful (pubsOf (run c0 ls) p) (leaderPairs (run c0 ls)) = true := by
  have ht0 : TInv c0 := by intro q l t hm; rw [hp q] at hm; cases hm
  obtain ⟨_, ht⟩ := tinv_run ls c0 (inv_of_fresh V c0 h0) (pubOK_of_fresh h0 hp) ht0 (safeTrace_of V ls c0 he)
  unfold pubsTruthful pubsOf
  rw [List.all_eq_true]
  intro x hx
  cases x with
  | none => rfl
  | some lt =>
    obtain ⟨l, t⟩ := lt
    simp only [List.contains_iff_mem]
    exact mem_leaderPairs (ht p l t (List.mem_reverse.mp hx))

/-- **C31 (one leader per term)**: two notifications for the same term, on any two nodes, name the same leader. -/
theorem notif_one_leader_per_term (V : List Nat) (c0 : Cluster) (ls : List Label) (h0 : Fresh c0)
    (hp : NoPubsYet c0) (he : traceAll (envB V) c0 ls = true) (p q l l' t : Nat)
    (h1 : some (l, t) ∈ pubsOf (run c0 ls) p) (h2 : some (l', t) ∈ pubsOf (run c0 ls) q) : l = l' := by
  have ht0 : TInv c0 := by intro q l t hm; rw [hp q] at hm; cases hm
  obtain ⟨hi, ht⟩ := tinv_run ls c0 (inv_of_fresh V c0 h0) (pubOK_of_fresh h0 hp) ht0 (safeTrace_of V ls c0 he)
  exact hi.unique_leader (ht p l t (List.mem_reverse.mp h1)) (ht q l' t (List.mem_reverse.mp h2))

/-- non-vacuity: `okTrace` of C01 and the former F28 / F2 witnesses satisfy the hypotheses and notify -/
example : traceAll (envB [1, 2, 3]) c3 f28Trace = true ∧ traceAll (envB [1, 2, 3]) c3 f2Notif = true ∧
    pubsOf (run c3 okTrace) 3 = [some (1, 2)] := by decide

/-! ### the internal event queue (F34, fixed a9db8e0)

`runIQ` (Model/Elect.lean) is the model of `drain_internal_events` / `process_internal_events` / the draining inside
`handle_internal_event(NotifyNewCommitIndex)`; the `elect` correspondence (op `iq`) feeds the same event lists to a
real `Raft` through its real internal channel.  `runIQ false` is the rule of the code as it is (the event that follows
the merged commit notifications keeps its place), `runIQ true` the rule before the fix (it was re-sent to the channel
tail). -/

/-- leader 1 of term 2 with its noop pending, nothing published yet -/
def leader12 : Node := becomeLeader (startElection (becomeCandidate (bootNode 1 false none 0 0 [])))

/-- a higher-term reply and a commit notification are buffered, `NoopCommitted{2}` is already in the channel -/
def f34Queue : IQ := ⟨leader12, [.higherTermReply 5, .commitIdx 1], [.noopCommitted 2], []⟩

/-- the same with an announcement of the leader of term 5 queued behind the noop commit -/
def f34Queue' : IQ := ⟨leader12, [.commitIdx 1], [.noopCommitted 2, .leaderDiscovered 3 5], []⟩

/-- **F34 regression**: with the rule before the fix the node announced itself as leader after it had stepped down,
    and a notification of term 2 could follow one of term 5 (`notif_terms_monotone`'s predicate fails); with the
    rule of the code as it is both are fine. -/
theorem f34_regression :
    selfAnnounceOK 1 (runIQ true 100 20 f34Queue).log = false ∧
    selfAnnounceOK 1 (runIQ false 100 20 f34Queue).log = true ∧
    (runIQ true 100 20 f34Queue).node.pubs.reverse = [some (1, 2)] ∧
    (runIQ true 100 20 f34Queue).node.role = .follower ∧
    sortedLE (pubTerms (runIQ true 100 20 f34Queue').node.pubs.reverse) = false ∧
    sortedLE (pubTerms (runIQ false 100 20 f34Queue').node.pubs.reverse) = true := by decide

/-- merging commit notifications never reorders the other events (rule of the code as it is): the events that are
    not commit notifications are handled in exactly the order buffer ++ channel -/
theorem mergeCommits_keeps_order (fuel : Nat) (buffer channel : List IEv) :
    let r := mergeCommits false fuel buffer channel
    (r.1 ++ r.2).filter (fun e => match e with | .commitIdx _ => false | _ => true)
      = (buffer ++ channel).filter (fun e => match e with | .commitIdx _ => false | _ => true) := by
  induction fuel generalizing buffer channel with
  | zero => simp [mergeCommits]
  | succ n ih =>
    cases channel with
    | nil => simp [mergeCommits]
    | cons e rest =>
      cases e with
      | commitIdx k =>
        simp only [mergeCommits]
        have := ih buffer rest
        simp only [List.filter_append, List.filter_cons] at this ⊢
        simpa using this
      | _ => simp [mergeCommits]

end DEngine.C31
