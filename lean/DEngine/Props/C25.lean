import DEngine.Model.KV
import DEngine.Model.KVScan
import DEngine.Lemmas.KV
import DEngine.Lemmas.KVScan
/-!
# C25 — Scan results match their revision

A prefix scan returns `(entries, revision)`; the documented client rule is "apply the snapshot, then skip
watch events with `event.revision ≤ revision`".

**Sequential part (no concurrent apply).**
* `prefix_successor_tight` — the RocksDB iterator bounds `[prefix, prefix_successor(prefix))` hold exactly the
  keys with that prefix, for every prefix (trailing and all-`0xFF` prefixes included).
* `file_scan_exact`, `rocks_scan_exact` — the scan returns exactly the bindings whose key has the prefix, with
  the values of the current state, revision = `last_applied` (RocksDB: for every non-empty prefix).
* `rocks_empty_prefix_statement_false` — for the empty prefix RocksDB returns nothing although every key
  has the empty prefix (deliberate short-circuit in `scan_prefix`, pinned by the repo's own test; the File engine
  returns everything): the engines disagree. Finding FKV1, `rocks_scan_exact` is the `_partial` for it.

**Concurrent part** (any schedule of `applyData`, `applyLa`, `scanIter`, `scanRev` steps; `Model/KVScan.lean`).
Every completed scan is described by two ghost versions: the number of chunks its data contained (`dataVer`)
and the number of chunks whose `last_applied` was published when the revision was read (`laVer`).
* `file_scan_sound` — File engine, every schedule: `laVer ≤ dataVer ≤ laVer + 1`, the entries are the exact scan
  of the sequential state after `dataVer` chunks and the revision is `last_applied` after `laVer` chunks.
  So the data is never *behind* the revision (`file_scan_never_behind`).
* `rocks_scan_sound`, `rocks_scan_never_behind` — RocksDB (current code, F24 fixed: the revision is loaded before
  the iterator is created), every schedule: same description and `laVer ≤ dataVer`.
  `old_rule_never_behind_statement_false`: under the rule before the fix (iterate, then load) the schedule
  `scanBegin; applyData; applyLa; scanEnd` returned the *old* data with the *new* revision (F24, fixed).
* `exact_at_revision_statement_false_file` — the literal reading "data = state at the reported revision" is
  false for the File engine too (data may be one chunk *ahead*: `last_applied` is stored after the data lock is
  released) — harmless for the documented use, see `resync_converges`.
* `leader_scan_passthrough`, `leader_scan_exact_file/_rocks`, `non_leader_scan_rejected` — the API path
  (`push_client_cmd(ClientCmd::Scan)`): the leader hands out exactly the engine's `(entries, revision)` for every
  commit index, other roles refuse; `commit_anchored_revision_loses_update` shows what a revision taken from the
  commit index would cost.
* `resync_converges` — client side: if the scan's data contains every event with `revision ≤ scan.revision`
  (never behind; it may contain more), then snapshot + replay of the buffered events with larger revisions
  ends in exactly the final state: no update is missed, events seen twice are absorbed.
  `resync_misses_update_when_behind` — with data behind the revision an update is lost for good.
-/
namespace DEngine.C25
open DEngine.KV

/-! ## sequential exactness -/

theorem prefix_successor_tight (p k : Bytes) :
    inIterRange p (prefixSuccessor p) k = startsWith k p := DEngine.KV.prefix_successor_tight p k

/-- Documented examples of `prefix_successor`. -/
example : prefixSuccessor [0x61, 0xFF] = some [0x62] := by decide
example : prefixSuccessor [0xFF, 0xFF] = none := by decide
example : prefixSuccessor [0x2F] = some [0x30] := by decide
example : prefixSuccessor [] = none := by decide

theorem file_scan_exact (st : FileSt) (h : AMap.WF st.data) (p : Bytes) :
    (∀ k v, (k, v) ∈ (fileScan st p).1 ↔ (startsWith k p = true ∧ fileAbs st k = some v)) ∧
    (fileScan st p).2 = st.laIndex :=
  ⟨fileScan_exact st h p, rfl⟩

theorem rocks_scan_exact (st : RocksSt) (h : AMap.WF st.db) (p : Bytes) (hp : p ≠ []) :
    (∀ k v, (k, v) ∈ (rocksScan st p).1 ↔ (startsWith k p = true ∧ rocksAbs st k = some v)) ∧
    (rocksScan st p).2 = st.laIndex ∧
    (rocksScan st p).1.Pairwise (fun a b => lexLe a.1 b.1 = true) :=
  ⟨rocksScan_exact st h p hp, rocksScan_revision st p, rocksScan_sorted st p⟩

/-- Exactness for *every* prefix, as the `StateMachine::scan_prefix` doc states it. -/
def RocksScanExactStatement : Prop :=
  ∀ (st : RocksSt), AMap.WF st.db → ∀ (p : Bytes) (k : Key) (v : Val),
    (k, v) ∈ (rocksScan st p).1 ↔ (startsWith k p = true ∧ rocksAbs st k = some v)

/-- FKV1: false at the empty prefix (one key, empty prefix, RocksDB returns nothing). -/
theorem rocks_empty_prefix_statement_false : ¬ RocksScanExactStatement := by
  intro h
  have := (h { db := [([0x61], [0x78])], laIndex := 1, laTerm := 1 } (by simp [AMap.WF]) [] [0x61] [0x78]).mpr
    (by simp [startsWith, rocksAbs, rocksGet, AMap.get])
  simp [rocksScan] at this

/-- Well-formedness (no duplicate keys) holds in every reachable state. -/
theorem file_wf_apply (st st' : FileSt) (chunk : List Entry) (r : List Bool) (h : AMap.WF st.data)
    (ha : fileApplyChunk st chunk = some (st', r)) : AMap.WF st'.data := by
  rw [fileApplyMem_setLa] at ha
  cases hm : fileApplyMem st chunk with
  | none => simp [hm] at ha
  | some x =>
    obtain ⟨s1, r1⟩ := x
    simp only [hm, Option.map_some, Option.some.injEq, Prod.mk.injEq] at ha
    rw [← ha.1, fileSetLa_data]
    exact fileApplyMem_wf st s1 chunk r1 h hm

theorem rocks_wf_apply (st st' : RocksSt) (chunk : List Entry) (r : List Bool) (h : AMap.WF st.db)
    (ha : rocksApplyChunk st chunk = some (st', r)) : AMap.WF st'.db := by
  rw [rocksApplyWrite_setLa] at ha
  cases hm : rocksApplyWrite st chunk with
  | none => simp [hm] at ha
  | some x =>
    obtain ⟨s1, r1⟩ := x
    simp only [hm, Option.map_some, Option.some.injEq, Prod.mk.injEq] at ha
    rw [← ha.1, rocksSetLa_db]
    exact rocksApplyWrite_wf st s1 chunk r1 h hm

/-! ## list bookkeeping for the ghost sequence -/

theorem lastOr_eq {α : Type} (l : List α) (d : Nat) (x y : α) (hl : l.length = d + 1) (hy : l[d]? = some y) :
    lastOr l x = y := by
  unfold lastOr
  rw [List.getLast?_eq_getElem?, hl]
  simp [hy]

theorem getElem?_snoc_lt {α : Type} (l : List α) (a : α) (i : Nat) (h : i < l.length) :
    (l ++ [a])[i]? = l[i]? := List.getElem?_append_left h

theorem getElem?_snoc_eq {α : Type} (l : List α) (a : α) : (l ++ [a])[l.length]? = some a := by simp

theorem lt_of_getElem?_some {α : Type} (l : List α) (i : Nat) (x : α) (h : l[i]? = some x) : i < l.length := by
  by_cases hlt : i < l.length
  · exact hlt
  · rw [List.getElem?_eq_none (by omega)] at h; cases h

/-! ## RocksDB under concurrency -/

structure RInv (s : RSys) : Prop where
  seqLen : s.seq.length = s.dataVer + 1
  ver : s.laVer ≤ s.dataVer ∧ s.dataVer ≤ s.laVer + 1
  infl : s.inflight.isSome = true ↔ s.dataVer = s.laVer + 1
  dataOk : ∃ sq, s.seq[s.dataVer]? = some sq ∧ s.st.db = sq.db
  laOk : ∃ sq, s.seq[s.laVer]? = some sq ∧ s.st.laIndex = sq.laIndex ∧ s.st.laTerm = sq.laTerm
  inflOk : ∀ chunk, s.inflight = some chunk → ∃ sq, s.seq[s.dataVer]? = some sq ∧
    (sq.laIndex, sq.laTerm) = (highest chunk).getD (s.st.laIndex, s.st.laTerm)
  wf : ∀ sq ∈ s.seq, AMap.WF sq.db
  scanOk : ∀ p rev l, s.scan = some (p, rev, l) → p ≠ [] ∧ l ≤ s.laVer ∧
    ∃ sl, s.seq[l]? = some sl ∧ rev = sl.laIndex
  doneOk : ∀ o ∈ s.done, o.pfx ≠ [] ∧ o.laVer ≤ o.dataVer ∧
    ∃ sd sl, s.seq[o.dataVer]? = some sd ∧ s.seq[o.laVer]? = some sl ∧
      o.entries = rocksIter sd o.pfx ∧ o.revision = sl.laIndex

theorem rinv_init (st : RocksSt) (h : AMap.WF st.db) : RInv (RSys.init st) := by
  refine ⟨rfl, ⟨Nat.le_refl _, Nat.le_succ _⟩, by simp [RSys.init], ⟨st, rfl, rfl⟩, ⟨st, rfl, rfl, rfl⟩, ?_, ?_, ?_, ?_⟩
  · intro c hc; simp [RSys.init] at hc
  · intro sq hsq; simp [RSys.init] at hsq; rw [hsq]; exact h
  · intro p es d hs; simp [RSys.init] at hs
  · intro o ho; simp [RSys.init] at ho

theorem rinv_step (s s' : RSys) (e : Ev) (inv : RInv s) (hstep : rstep s e = some s') : RInv s' := by
  obtain ⟨cur, hcur, hdb⟩ := inv.dataOk
  obtain ⟨lst, hlst, hli, hlt⟩ := inv.laOk
  cases e with
  | applyData chunk =>
    simp only [rstep] at hstep
    by_cases hin : s.inflight.isSome = true
    · simp [hin] at hstep
    · simp only [hin, Bool.false_eq_true, if_false] at hstep
      have hdl : s.dataVer = s.laVer := by
        have := inv.infl; have := inv.ver; by_cases hx : s.dataVer = s.laVer + 1
        · exact absurd (inv.infl.mpr hx) hin
        · omega
      have hlast : lastOr s.seq s.st = cur := lastOr_eq s.seq s.dataVer s.st cur inv.seqLen hcur
      rw [hlast] at hstep
      cases hw : rocksApplyWrite s.st chunk with
      | none => simp [hw] at hstep
      | some w =>
        obtain ⟨st', r1⟩ := w
        cases hc : rocksApplyChunk cur chunk with
        | none => simp [hw, hc] at hstep
        | some c =>
          obtain ⟨sq', r2⟩ := c
          simp only [hw, hc, Option.some.injEq] at hstep
          subst hstep
          -- facts about the sequential successor
          have hsplit := rocksApplyWrite_setLa cur chunk
          rw [hc] at hsplit
          cases hwc : rocksApplyWrite cur chunk with
          | none => simp [hwc] at hsplit
          | some wc =>
            obtain ⟨cw, rc⟩ := wc
            simp only [hwc, Option.map_some, Option.some.injEq, Prod.mk.injEq] at hsplit
            have hcongr := rocksApplyWrite_congr s.st cur chunk hdb
            simp only [hw, hwc, Option.map_some, Option.some.injEq, Prod.mk.injEq] at hcongr
            have hsqdb : sq'.db = st'.db := by rw [hsplit.1, rocksSetLa_db]; exact hcongr.1.symm
            have hsqla := rocksSetLa_la cw chunk
            rw [← hsplit.1] at hsqla
            have hcwla := rocksApplyWrite_la cur cw chunk rc hwc
            have hstla := rocksApplyWrite_la s.st st' chunk r1 hw
            have hcurlst : cur = lst := by
              rw [hdl] at hcur; rw [hcur] at hlst; exact Option.some.inj hlst
            have hlen := inv.seqLen
            refine ⟨by simp [hlen], ⟨by have := inv.ver; simp; omega, by simp; omega⟩, ?_, ?_, ?_, ?_, ?_, ?_, ?_⟩
            · simp; omega
            · refine ⟨sq', ?_, hsqdb.symm⟩
              simp only
              rw [← hlen]; exact getElem?_snoc_eq s.seq sq'
            · refine ⟨lst, ?_, by rw [hstla.1]; exact hli, by rw [hstla.2]; exact hlt⟩
              simp only
              rw [getElem?_snoc_lt _ _ _ (lt_of_getElem?_some _ _ _ hlst)]; exact hlst
            · intro ch hch
              simp only [Option.some.injEq] at hch
              subst hch
              refine ⟨sq', by simp only; rw [← hlen]; exact getElem?_snoc_eq s.seq sq', ?_⟩
              simp only
              rw [hsqla, hcwla.1, hcwla.2, hstla.1, hstla.2, hli, hlt, hcurlst]
            · intro sq hsq
              simp only [List.mem_append, List.mem_singleton] at hsq
              rcases hsq with hsq | hsq
              · exact inv.wf sq hsq
              · rw [hsq, hsqdb]
                exact rocksApplyWrite_wf s.st st' chunk r1 (by rw [hdb]; exact inv.wf cur (List.mem_of_getElem? hcur)) hw
            · intro p rev l hs
              obtain ⟨hp, hl, sq, h1, h2⟩ := inv.scanOk p rev l hs
              exact ⟨hp, hl, sq, by simp only; rw [getElem?_snoc_lt _ _ _ (lt_of_getElem?_some _ _ _ h1)]; exact h1, h2⟩
            · intro o ho
              obtain ⟨hp, hv, sd, sl, h1, h2, h3, h4⟩ := inv.doneOk o ho
              refine ⟨hp, hv, sd, sl, ?_, ?_, h3, h4⟩
              · simp only; rw [getElem?_snoc_lt _ _ _ (lt_of_getElem?_some _ _ _ h1)]; exact h1
              · simp only; rw [getElem?_snoc_lt _ _ _ (lt_of_getElem?_some _ _ _ h2)]; exact h2
  | applyLa =>
    simp only [rstep] at hstep
    cases hin : s.inflight with
    | none => simp [hin] at hstep
    | some chunk =>
      simp only [hin, Option.some.injEq] at hstep
      subst hstep
      have hd : s.dataVer = s.laVer + 1 := inv.infl.mp (by simp [hin])
      obtain ⟨sq, hsq, hla⟩ := inv.inflOk chunk hin
      have hsl := rocksSetLa_la s.st chunk
      refine ⟨inv.seqLen, ⟨by simp; omega, by simp; omega⟩, by simp; omega, ⟨cur, hcur, by simp only; rw [rocksSetLa_db]; exact hdb⟩, ?_, ?_, inv.wf, (fun p rev l hs => by
        obtain ⟨hp, hl, sl, h1, h2⟩ := inv.scanOk p rev l hs
        exact ⟨hp, by simp only; omega, sl, h1, h2⟩), inv.doneOk⟩
      · refine ⟨sq, by simp only; rw [← hd]; exact hsq, ?_, ?_⟩
        · have := congrArg Prod.fst (hsl.trans hla.symm); exact this
        · have := congrArg Prod.snd (hsl.trans hla.symm); exact this
      · intro c hc; simp at hc
  | scanBegin p =>
    simp only [rstep] at hstep
    by_cases hc : (s.scan.isSome || p.isEmpty) = true
    · simp [hc] at hstep
    · simp only [hc, Bool.false_eq_true, if_false, Option.some.injEq] at hstep
      subst hstep
      refine ⟨inv.seqLen, inv.ver, inv.infl, inv.dataOk, inv.laOk, inv.inflOk, inv.wf, ?_, inv.doneOk⟩
      intro p' rev l hs
      simp only [Option.some.injEq, Prod.mk.injEq] at hs
      obtain ⟨rfl, rfl, rfl⟩ := hs
      refine ⟨?_, Nat.le_refl _, lst, hlst, hli⟩
      intro hp; subst hp; simp at hc
  | scanEnd =>
    simp only [rstep] at hstep
    cases hsc : s.scan with
    | none => simp [hsc] at hstep
    | some t =>
      obtain ⟨p, rev, l⟩ := t
      simp only [hsc, Option.some.injEq] at hstep
      subst hstep
      obtain ⟨hp, hl, sl, h1, h2⟩ := inv.scanOk p rev l hsc
      refine ⟨inv.seqLen, inv.ver, inv.infl, inv.dataOk, inv.laOk, inv.inflOk, inv.wf, by intro p rev l hs; simp at hs, ?_⟩
      intro o ho
      simp only [List.mem_append, List.mem_singleton] at ho
      rcases ho with ho | ho
      · exact inv.doneOk o ho
      · subst ho
        exact ⟨hp, by have := inv.ver.1; simp only; omega, cur, sl, hcur, h1, rocksIter_congr s.st cur p hdb, h2⟩

theorem rinv_run (sched : List Ev) : ∀ (s s' : RSys), RInv s → runSched rstep s sched = some s' → RInv s' := by
  induction sched with
  | nil => intro s s' inv h; simp only [runSched, Option.some.injEq] at h; rw [← h]; exact inv
  | cons e es ih =>
    intro s s' inv h
    simp only [runSched] at h
    cases hs : rstep s e with
    | none => simp [hs] at h
    | some s1 => simp only [hs] at h; exact ih s1 s' (rinv_step s s1 e inv hs) h

/-- **RocksDB (current code: revision first), every schedule**: a completed scan returns the exact scan of the
    sequential state after `dataVer` chunks with the `last_applied` index of the state after `laVer` chunks,
    and `laVer ≤ dataVer`: the data is never behind the revision. -/
theorem rocks_scan_sound (st : RocksSt) (hwf : AMap.WF st.db) (sched : List Ev) (s : RSys)
    (hrun : runSched rstep (RSys.init st) sched = some s) :
    ∀ o ∈ s.done, o.laVer ≤ o.dataVer ∧ ∃ sd sl, s.seq[o.dataVer]? = some sd ∧ s.seq[o.laVer]? = some sl ∧
      (∀ k v, (k, v) ∈ o.entries ↔ (startsWith k o.pfx = true ∧ rocksAbs sd k = some v)) ∧
      o.revision = sl.laIndex := by
  have inv := rinv_run sched _ s (rinv_init st hwf) hrun
  intro o ho
  obtain ⟨hp, hv, sd, sl, h1, h2, h3, h4⟩ := inv.doneOk o ho
  refine ⟨hv, sd, sl, h1, h2, ?_, h4⟩
  intro k v
  rw [h3]
  exact rocksScan_exact sd (inv.wf sd (List.mem_of_getElem? h1)) o.pfx hp k v

/-- **F24 repaired (full theorem, was `_partial`)**: on every schedule the RocksDB scan's data is never behind
    its revision. -/
theorem rocks_scan_never_behind (st : RocksSt) (hwf : AMap.WF st.db) (sched : List Ev) (s : RSys)
    (hrun : runSched rstep (RSys.init st) sched = some s) : ∀ o ∈ s.done, o.laVer ≤ o.dataVer :=
  fun o ho => (rocks_scan_sound st hwf sched s hrun o ho).1

def k1 : Key := [0x61]
def vx : Val := [0x78]
/-- the F24 interleaving: first read of the scan, a chunk `put a=x` (index 1) applied completely, second read -/
def f24Sched : List Ev := [.scanBegin k1, .applyData [⟨1, 1, .put k1 vx none⟩], .applyLa, .scanEnd]

def obsOfR (r : Option RSys) : List (List (Key × Val) × Nat × Nat × Nat) :=
  match r with
  | some s => s.done.map fun o => (o.entries, o.revision, o.dataVer, o.laVer)
  | none => []

/-- Current code on the F24 interleaving: the new data with the old revision 0 (ahead, harmless). -/
theorem f24_schedule_now :
    obsOfR (runSched rstep (RSys.init RocksSt.init) f24Sched) = [([(k1, vx)], 0, 1, 0)] := by decide

/-! ### the rule before the fix (kept as a statement about the OLD code, commit history: `fix:` F24) -/

def obsOfOld (r : Option ROld) : List (List (Key × Val) × Nat × Nat × Nat) :=
  match r with
  | some s => s.done.map fun o => (o.entries, o.revision, o.dataVer, o.laVer)
  | none => []

def NeverBehindRocksOldRule : Prop :=
  ∀ (st : RocksSt), AMap.WF st.db → ∀ (sched : List Ev) (s : ROld),
    runSched rstepOld { st := st } sched = some s → ∀ o ∈ s.done, o.laVer ≤ o.dataVer

/-- What the old rule returned on the F24 schedule: no entries, revision 1 — entry 1 is lost to the client. -/
theorem f24_observation_old_rule :
    obsOfOld (runSched rstepOld { st := RocksSt.init } f24Sched) = [([], 1, 0, 1)] := by decide

/-- **F24** (fixed): with "iterate, then load the revision" the data could be behind the revision. -/
theorem old_rule_never_behind_statement_false : ¬ NeverBehindRocksOldRule := by
  intro h
  cases hr : runSched rstepOld { st := RocksSt.init } f24Sched with
  | none => have := f24_observation_old_rule; rw [hr] at this; simp [obsOfOld] at this
  | some s =>
    have hobs := f24_observation_old_rule
    rw [hr] at hobs
    simp only [obsOfOld] at hobs
    have hall := h RocksSt.init (by simp [AMap.WF, RocksSt.init]) f24Sched s hr
    cases hdone : s.done with
    | nil => simp [hdone] at hobs
    | cons o rest =>
      have := hall o (by simp [hdone])
      simp only [hdone, List.map_cons, List.cons.injEq, Prod.mk.injEq] at hobs
      omega

example : AMap.WF RocksSt.init.db := by simp [AMap.WF, RocksSt.init]

/-! ## the repair on bare version counters (the argument in its smallest form)

Fix for F24 (applied): load `last_applied_index` *before* creating the iterator.  On the ghost counters
(`dataVer` = chunks visible in the data, `laVer` = chunks with published `last_applied`) the scan then records
`laVer` first and `dataVer` second; both counters only grow and `laVer ≤ dataVer` always holds, hence the data
can only be ahead of the revision — the File engine's (harmless) behaviour. -/

structure VSys where
  dataVer : Nat := 0
  laVer : Nat := 0
  inflight : Bool := false
  revRead : Option Nat := none          -- a scan that has read the revision (ghost laVer) and not yet iterated
  done : List (Nat × Nat) := []         -- (dataVer at iteration, laVer at revision read)

inductive VEv where
  | applyData | applyLa | scanRevFirst | scanIterSecond

def vstep (s : VSys) : VEv → Option VSys
  | .applyData => if s.inflight then none else some { s with dataVer := s.dataVer + 1, inflight := true }
  | .applyLa => if s.inflight then some { s with laVer := s.laVer + 1, inflight := false } else none
  | .scanRevFirst => if s.revRead.isSome then none else some { s with revRead := some s.laVer }
  | .scanIterSecond =>
    match s.revRead with
    | none => none
    | some l => some { s with revRead := none, done := s.done ++ [(s.dataVer, l)] }

def vrun : VSys → List VEv → Option VSys
  | s, [] => some s
  | s, e :: es => match vstep s e with
    | none => none
    | some s' => vrun s' es

structure VInv (s : VSys) : Prop where
  ver : s.laVer ≤ s.dataVer ∧ (s.inflight = true ↔ s.dataVer = s.laVer + 1) ∧ s.dataVer ≤ s.laVer + 1
  pend : ∀ l, s.revRead = some l → l ≤ s.laVer
  done : ∀ o ∈ s.done, o.2 ≤ o.1

theorem vinv_step (s s' : VSys) (e : VEv) (inv : VInv s) (h : vstep s e = some s') : VInv s' := by
  obtain ⟨⟨h1, h2, h3⟩, hp, hd⟩ := inv
  cases e with
  | applyData =>
    simp only [vstep] at h
    by_cases hi : s.inflight = true
    · simp [hi] at h
    · simp only [hi, Bool.false_eq_true, if_false, Option.some.injEq] at h
      subst h
      have : s.dataVer = s.laVer := by
        by_cases hx : s.dataVer = s.laVer + 1
        · exact absurd (h2.mpr hx) hi
        · omega
      exact ⟨⟨by simp; omega, by simp; omega, by simp; omega⟩, hp, hd⟩
  | applyLa =>
    simp only [vstep] at h
    by_cases hi : s.inflight = true
    · simp only [hi, if_true, Option.some.injEq] at h
      subst h
      have := h2.mp hi
      refine ⟨⟨by simp; omega, by simp; omega, by simp; omega⟩, ?_, hd⟩
      intro l hl; have := hp l hl; simp; omega
    · simp [hi] at h
  | scanRevFirst =>
    simp only [vstep] at h
    by_cases hr : s.revRead.isSome = true
    · simp [hr] at h
    · simp only [hr, Bool.false_eq_true, if_false, Option.some.injEq] at h
      subst h
      refine ⟨⟨h1, h2, h3⟩, ?_, hd⟩
      intro l hl
      simp only [Option.some.injEq] at hl
      simp only; omega
  | scanIterSecond =>
    simp only [vstep] at h
    cases hr : s.revRead with
    | none => simp [hr] at h
    | some l =>
      simp only [hr, Option.some.injEq] at h
      subst h
      refine ⟨⟨h1, h2, h3⟩, by intro l' hl'; simp at hl', ?_⟩
      intro o ho
      simp only [List.mem_append, List.mem_singleton] at ho
      rcases ho with ho | ho
      · exact hd o ho
      · subst ho
        have := hp l hr
        simp; omega

/-- With the revision read first, on every schedule, no scan is behind its revision. -/
theorem fix_revision_first_never_behind (sched : List VEv) (s : VSys) (h : vrun {} sched = some s) :
    ∀ o ∈ s.done, o.2 ≤ o.1 := by
  have hgen : ∀ (sched : List VEv) (s0 s : VSys), VInv s0 → vrun s0 sched = some s → VInv s := by
    intro sched
    induction sched with
    | nil => intro s0 s inv h; simp only [vrun, Option.some.injEq] at h; rw [← h]; exact inv
    | cons e es ih =>
      intro s0 s inv h
      simp only [vrun] at h
      cases hs : vstep s0 e with
      | none => simp [hs] at h
      | some s1 => simp only [hs] at h; exact ih s1 s (vinv_step s0 s1 e inv hs) h
  exact (hgen sched {} s ⟨⟨Nat.le_refl _, by simp, Nat.le_succ _⟩, by intro l hl; simp at hl, by intro o ho; simp at ho⟩ h).done

/-! ## File engine under concurrency -/

structure FInv (s : FSys) : Prop where
  seqLen : s.seq.length = s.dataVer + 1
  ver : s.laVer ≤ s.dataVer ∧ s.dataVer ≤ s.laVer + 1
  infl : s.inflight.isSome = true ↔ s.dataVer = s.laVer + 1
  dataOk : ∃ sq, s.seq[s.dataVer]? = some sq ∧ s.st.data = sq.data
  laOk : ∃ sq, s.seq[s.laVer]? = some sq ∧ s.st.laIndex = sq.laIndex ∧ s.st.laTerm = sq.laTerm
  inflOk : ∀ chunk, s.inflight = some chunk → ∃ sq, s.seq[s.dataVer]? = some sq ∧
    (sq.laIndex, sq.laTerm) = (highest chunk).getD (s.st.laIndex, s.st.laTerm)
  wf : ∀ sq ∈ s.seq, AMap.WF sq.data
  doneOk : ∀ o ∈ s.done, o.laVer ≤ o.dataVer ∧ o.dataVer ≤ o.laVer + 1 ∧
    ∃ sd sl, s.seq[o.dataVer]? = some sd ∧ s.seq[o.laVer]? = some sl ∧
      o.entries = (fileScan sd o.pfx).1 ∧ o.revision = sl.laIndex

theorem finv_init (st : FileSt) (h : AMap.WF st.data) : FInv (FSys.init st) := by
  refine ⟨rfl, ⟨Nat.le_refl _, Nat.le_succ _⟩, by simp [FSys.init], ⟨st, rfl, rfl⟩, ⟨st, rfl, rfl, rfl⟩, ?_, ?_, ?_⟩
  · intro c hc; simp [FSys.init] at hc
  · intro sq hsq; simp [FSys.init] at hsq; rw [hsq]; exact h
  · intro o ho; simp [FSys.init] at ho

theorem finv_step (s s' : FSys) (e : Ev) (inv : FInv s) (hstep : fstep s e = some s') : FInv s' := by
  obtain ⟨cur, hcur, hdb⟩ := inv.dataOk
  obtain ⟨lst, hlst, hli, hlt⟩ := inv.laOk
  cases e with
  | applyData chunk =>
    simp only [fstep] at hstep
    by_cases hin : s.inflight.isSome = true
    · simp [hin] at hstep
    · simp only [hin, Bool.false_eq_true, if_false] at hstep
      have hdl : s.dataVer = s.laVer := by
        have := inv.ver; by_cases hx : s.dataVer = s.laVer + 1
        · exact absurd (inv.infl.mpr hx) hin
        · omega
      have hlast : lastOr s.seq s.st = cur := lastOr_eq s.seq s.dataVer s.st cur inv.seqLen hcur
      rw [hlast] at hstep
      cases hw : fileApplyMem s.st chunk with
      | none => simp [hw] at hstep
      | some w =>
        obtain ⟨st', r1⟩ := w
        cases hc : fileApplyChunk cur chunk with
        | none => simp [hw, hc] at hstep
        | some c =>
          obtain ⟨sq', r2⟩ := c
          simp only [hw, hc, Option.some.injEq] at hstep
          subst hstep
          have hsplit := fileApplyMem_setLa cur chunk
          rw [hc] at hsplit
          cases hwc : fileApplyMem cur chunk with
          | none => simp [hwc] at hsplit
          | some wc =>
            obtain ⟨cw, rc⟩ := wc
            simp only [hwc, Option.map_some, Option.some.injEq, Prod.mk.injEq] at hsplit
            have hcongr := fileApplyMem_congr s.st cur chunk hdb
            simp only [hw, hwc, Option.map_some, Option.some.injEq, Prod.mk.injEq] at hcongr
            have hsqdb : sq'.data = st'.data := by rw [hsplit.1, fileSetLa_data]; exact hcongr.1.symm
            have hsqla := fileSetLa_la cw chunk
            rw [← hsplit.1] at hsqla
            have hcwla := fileApplyMem_la cur cw chunk rc hwc
            have hstla := fileApplyMem_la s.st st' chunk r1 hw
            have hcurlst : cur = lst := by
              rw [hdl] at hcur; rw [hcur] at hlst; exact Option.some.inj hlst
            have hlen := inv.seqLen
            refine ⟨by simp [hlen], ⟨by have := inv.ver; simp; omega, by simp; omega⟩, ?_, ?_, ?_, ?_, ?_, ?_⟩
            · simp; omega
            · refine ⟨sq', ?_, hsqdb.symm⟩
              simp only
              rw [← hlen]; exact getElem?_snoc_eq s.seq sq'
            · refine ⟨lst, ?_, by rw [hstla.1]; exact hli, by rw [hstla.2]; exact hlt⟩
              simp only
              rw [getElem?_snoc_lt _ _ _ (lt_of_getElem?_some _ _ _ hlst)]; exact hlst
            · intro ch hch
              simp only [Option.some.injEq] at hch
              subst hch
              refine ⟨sq', by simp only; rw [← hlen]; exact getElem?_snoc_eq s.seq sq', ?_⟩
              simp only
              rw [hsqla, hcwla.1, hcwla.2, hstla.1, hstla.2, hli, hlt, hcurlst]
            · intro sq hsq
              simp only [List.mem_append, List.mem_singleton] at hsq
              rcases hsq with hsq | hsq
              · exact inv.wf sq hsq
              · rw [hsq, hsqdb]
                exact fileApplyMem_wf s.st st' chunk r1 (by rw [hdb]; exact inv.wf cur (List.mem_of_getElem? hcur)) hw
            · intro o ho
              obtain ⟨v1, v2, sd, sl, h1, h2, h3, h4⟩ := inv.doneOk o ho
              refine ⟨v1, v2, sd, sl, ?_, ?_, h3, h4⟩
              · simp only; rw [getElem?_snoc_lt _ _ _ (lt_of_getElem?_some _ _ _ h1)]; exact h1
              · simp only; rw [getElem?_snoc_lt _ _ _ (lt_of_getElem?_some _ _ _ h2)]; exact h2
  | applyLa =>
    simp only [fstep] at hstep
    cases hin : s.inflight with
    | none => simp [hin] at hstep
    | some chunk =>
      simp only [hin, Option.some.injEq] at hstep
      subst hstep
      have hd : s.dataVer = s.laVer + 1 := inv.infl.mp (by simp [hin])
      obtain ⟨sq, hsq, hla⟩ := inv.inflOk chunk hin
      have hsl := fileSetLa_la s.st chunk
      refine ⟨inv.seqLen, ⟨by simp; omega, by simp; omega⟩, by simp; omega, ⟨cur, hcur, by simp only; rw [fileSetLa_data]; exact hdb⟩, ?_, ?_, inv.wf, inv.doneOk⟩
      · refine ⟨sq, by simp only; rw [← hd]; exact hsq, ?_, ?_⟩
        · have := congrArg Prod.fst (hsl.trans hla.symm); exact this
        · have := congrArg Prod.snd (hsl.trans hla.symm); exact this
      · intro c hc; simp at hc
  | scanBegin p =>
    simp only [fstep, Option.some.injEq] at hstep
    subst hstep
    refine ⟨inv.seqLen, inv.ver, inv.infl, inv.dataOk, inv.laOk, inv.inflOk, inv.wf, ?_⟩
    intro o ho
    simp only [List.mem_append, List.mem_singleton] at ho
    rcases ho with ho | ho
    · exact inv.doneOk o ho
    · subst ho
      exact ⟨inv.ver.1, inv.ver.2, cur, lst, hcur, hlst, fileScan_congr s.st cur p hdb, hli⟩
  | scanEnd => simp [fstep] at hstep

theorem finv_run (sched : List Ev) : ∀ (s s' : FSys), FInv s → runSched fstep s sched = some s' → FInv s' := by
  induction sched with
  | nil => intro s s' inv h; simp only [runSched, Option.some.injEq] at h; rw [← h]; exact inv
  | cons e es ih =>
    intro s s' inv h
    simp only [runSched] at h
    cases hs : fstep s e with
    | none => simp [hs] at h
    | some s1 => simp only [hs] at h; exact ih s1 s' (finv_step s s1 e inv hs) h

/-- **File engine, every schedule**: a scan returns exactly the prefixed bindings of the sequential state after
    `dataVer` chunks with the `last_applied` of the state after `laVer` chunks, and
    `laVer ≤ dataVer ≤ laVer + 1`: the data is never behind the revision, and at most the chunk in flight ahead. -/
theorem file_scan_sound (st : FileSt) (hwf : AMap.WF st.data) (sched : List Ev) (s : FSys)
    (hrun : runSched fstep (FSys.init st) sched = some s) :
    ∀ o ∈ s.done, o.laVer ≤ o.dataVer ∧ o.dataVer ≤ o.laVer + 1 ∧
      ∃ sd sl, s.seq[o.dataVer]? = some sd ∧ s.seq[o.laVer]? = some sl ∧
        (∀ k v, (k, v) ∈ o.entries ↔ (startsWith k o.pfx = true ∧ fileAbs sd k = some v)) ∧
        o.revision = sl.laIndex := by
  have inv := finv_run sched _ s (finv_init st hwf) hrun
  intro o ho
  obtain ⟨v1, v2, sd, sl, h1, h2, h3, h4⟩ := inv.doneOk o ho
  refine ⟨v1, v2, sd, sl, h1, h2, ?_, h4⟩
  intro k v
  rw [h3]
  exact fileScan_exact sd (inv.wf sd (List.mem_of_getElem? h1)) o.pfx k v

theorem file_scan_never_behind (st : FileSt) (hwf : AMap.WF st.data) (sched : List Ev) (s : FSys)
    (hrun : runSched fstep (FSys.init st) sched = some s) : ∀ o ∈ s.done, o.laVer ≤ o.dataVer :=
  fun o ho => (file_scan_sound st hwf sched s hrun o ho).1

/-- The literal reading: the data is the state at exactly the reported revision. -/
def ExactAtRevisionFile : Prop :=
  ∀ (st : FileSt), AMap.WF st.data → ∀ (sched : List Ev) (s : FSys),
    runSched fstep (FSys.init st) sched = some s → ∀ o ∈ s.done, o.dataVer = o.laVer

/-- File witness: the scan runs after the memory update of chunk 1 and before `update_last_applied`. -/
def fileAheadSched : List Ev := [.applyData [⟨1, 1, .put k1 vx none⟩], .scanBegin k1, .applyLa]

def obsOfF (r : Option FSys) : List (List (Key × Val) × Nat × Nat × Nat) :=
  match r with
  | some s => s.done.map fun o => (o.entries, o.revision, o.dataVer, o.laVer)
  | none => []

theorem file_ahead_observation :
    obsOfF (runSched fstep (FSys.init FileSt.init) fileAheadSched) = [([(k1, vx)], 0, 1, 0)] := by decide

/-- False for the File engine as well — in the harmless direction (data ahead of the revision). -/
theorem exact_at_revision_statement_false_file : ¬ ExactAtRevisionFile := by
  intro h
  cases hr : runSched fstep (FSys.init FileSt.init) fileAheadSched with
  | none => have := file_ahead_observation; rw [hr] at this; simp [obsOfF] at this
  | some s =>
    have hobs := file_ahead_observation
    rw [hr] at hobs
    simp only [obsOfF] at hobs
    have hall := h FileSt.init (by simp [AMap.WF, FileSt.init]) fileAheadSched s hr
    cases hdone : s.done with
    | nil => simp [hdone] at hobs
    | cons o rest =>
      have := hall o (by simp [hdone])
      simp only [hdone, List.map_cons, List.cons.injEq, Prod.mk.injEq] at hobs
      omega

/-! ## the API path (leader serves the scan inline) -/

/-- **The leader path returns exactly the engine's `(entries, revision)`**, for every commit index — so every
    engine-level theorem above carries over to `ClientCmd::Scan`; in particular the revision is the applied
    index the entries reflect, never the (possibly larger) commit index. -/
theorem leader_scan_passthrough (commitIndex : Nat) (r : List (Key × Val) × Nat) :
    roleScan .leader commitIndex r = some r := rfl

theorem non_leader_scan_rejected (role : Role) (h : role ≠ .leader) (c : Nat) (r : List (Key × Val) × Nat) :
    roleScan role c r = none := by
  cases role <;> simp_all [roleScan]

/-- Leader + File engine: exact entries, revision = `last_applied`, whatever has been committed beyond it. -/
theorem leader_scan_exact_file (st : FileSt) (h : AMap.WF st.data) (p : Bytes) (commitIndex : Nat)
    (res : List (Key × Val) × Nat) (hres : roleScan .leader commitIndex (fileScan st p) = some res) :
    (∀ k v, (k, v) ∈ res.1 ↔ (startsWith k p = true ∧ fileAbs st k = some v)) ∧ res.2 = st.laIndex := by
  simp only [roleScan, Option.some.injEq] at hres
  subst hres
  exact file_scan_exact st h p

/-- Leader + RocksDB engine (non-empty prefix). -/
theorem leader_scan_exact_rocks (st : RocksSt) (h : AMap.WF st.db) (p : Bytes) (hp : p ≠ []) (commitIndex : Nat)
    (res : List (Key × Val) × Nat) (hres : roleScan .leader commitIndex (rocksScan st p) = some res) :
    (∀ k v, (k, v) ∈ res.1 ↔ (startsWith k p = true ∧ rocksAbs st k = some v)) ∧ res.2 = st.laIndex := by
  simp only [roleScan, Option.some.injEq] at hres
  subst hres
  exact ⟨(rocks_scan_exact st h p hp).1, (rocks_scan_exact st h p hp).2.1⟩

/-- Why a revision anchored at the commit index would be wrong: entry 2 (`put a=x`) is committed but not yet
    applied; a scan answer `(entries of the applied state, revision = commit index 2)` makes the client skip
    event 2 and lose the key, whereas the pass-through answer (revision 1) keeps it. -/
theorem commit_anchored_revision_loses_update :
    let ev : WEvent := ⟨2, k1, some vx⟩
    resync Store.empty 2 [ev] k1 = none ∧ resync Store.empty 1 [ev] k1 = some vx := by
  simp [resync, replay, applyEvent, Store.set, Store.empty]

/-! ## the client side: why "never behind" is the property that matters -/

/-- **Resynchronisation converges.**  History `A ++ B ++ C` of watch events; the scan's data contains `A ++ B`
    (everything up to the reported revision `r` — that is `A` — and possibly more — `B`); the client applies the
    snapshot and then every buffered event with `revision > r`.  Result: exactly the final state. -/
theorem resync_converges (s0 : Store) (A B C : List WEvent) (r : Nat)
    (hA : ∀ e ∈ A, e.revision ≤ r) (hBC : ∀ e ∈ B ++ C, e.revision > r) :
    resync (replay s0 (A ++ B)) r (A ++ B ++ C) = replay s0 (A ++ B ++ C) := by
  unfold resync
  have hfilter : (A ++ B ++ C).filter (fun e => decide (e.revision > r)) = B ++ C := by
    rw [List.append_assoc, List.filter_append]
    have h1 : A.filter (fun e => decide (e.revision > r)) = [] := by
      rw [List.filter_eq_nil_iff]
      intro e he
      have := hA e he
      simp; omega
    have h2 : (B ++ C).filter (fun e => decide (e.revision > r)) = B ++ C := by
      rw [List.filter_eq_self]
      intro e he
      simpa using hBC e he
    rw [h1, h2]; rfl
  rw [hfilter, replay_append (replay s0 (A ++ B)) B C, replay_append s0 A B, replay_idem (replay s0 A) B,
    ← replay_append s0 A B, ← replay_append]

/-- With the data *behind* the revision (RocksDB, F24) the skipped event is lost: after the resynchronisation
    the client still does not have the key, although the final state has it. -/
theorem resync_misses_update_when_behind :
    let ev : WEvent := ⟨1, k1, some vx⟩
    resync Store.empty 1 [ev] k1 = none ∧ replay Store.empty [ev] k1 = some vx := by
  simp [resync, replay, applyEvent, Store.set, Store.empty]

end DEngine.C25
