import DEngine.Props.C01
/-!
# C02 — Votes and terms survive crashes

Same cluster model as C01 (one node of it is the "single node with a persistence image" of the property:
`Proc.image` is the content of the meta store; since fix c4109f0 every `SharedState` mutator saves the hard state
when term or vote change, `stop` = `Drop for Raft` saves it again, `crash` = no `Drop`, `restart` rebuilds the
node from the image as `NodeBuilder::build` does).  `(run c ls).grants` is the ghost list of every vote a node
cast: `(voter, candidate, term)` for each `VoteResponse{vote_granted: true}` it produced and for each self-vote of
an election it started.

History: as found, both halves were false: votes (F2 crash — fixed c4109f0, F1 same-term `BecomeFollower` —
fixed 65007c0) and terms (F2 crash, F31 learner rebuilt without hard state — fixed b8fde38).  The model follows
the fixed code; the witness schedules are kept as regressions.

Crash-point granularity.  A crash (`Label.crash`) can be placed between any two steps, also inside an election; the
handling of one request is one step.  That is faithful only because the code never exposes the intermediate point
"reply handed over, hard state not yet saved": every `SharedState` mutator saves the change it makes, and every
handler replies after its last mutation.  This order is not assumed: the `elect` harness asks, at every
`save_hard_state` call, whether the reply of the request being handled has already been delivered, and prints it per
request (`pb` saved before the reply / `pn` nothing to save / `pa` saved after the reply); the model's `persistTag`
says `pb` exactly when the hard state changed, and the C02 monitor (`persistedBeforeReplyOK`) fails on any `pa`
(`grant-replied-before-persist`): a crash at that point followed by a restart would let the node vote again in the
same term, which is exactly the schedule `[voteReq, crash, restart, voteReq]` with the first step's save dropped.

* `term_monotone` — **full strength**: on every schedule (crashes at any point, restarts, learners) the term of
  every node is non-decreasing.  No hypothesis at all beyond a consistent initial image.
* `OneVotePerTermStatement` — one candidate per (voter, term) on every schedule.  **Still false for the code as
  it is** (`one_vote_per_term_false_F32`, open finding F32): `handle_append_entries_request_workflow` overwrites
  `voted_for` with the announced leader, whose late vote request for the same term is then granted although the
  node had voted for another candidate.  (Harmless for C01: the second grantee already leads the term.)
* `one_vote_per_term_partial` — holds on every schedule (crashes included) in which no vote request is made on
  behalf of a node that is already a recorded leader of that term — the exact F32 trigger.
-/
namespace DEngine.C02
open DEngine.Elect DEngine.C01

/-! ### one vote per term -/

def OneVotePerTermStatement : Prop :=
  ∀ (V : List Nat) (c0 : Cluster) (ls : List Label), Fresh c0 → traceAll (envB V) c0 ls = true →
    votesOK (run c0 ls).grants = true

/-- F2 on one voter: node 2 grants node 1 in term 2, crashes, restarts, grants node 3 in term 2 -/
def f2Votes : List Label :=
  [.voteReq 2 ⟨2, 1, 0, 0⟩, .crash 2, .restart 2, .voteReq 2 ⟨2, 3, 0, 0⟩]

/-- F1 on one voter: node 1 wins term 2, steps down in term 2, grants node 3 in term 2 -/
def f1Votes : List Label :=
  [.timeout 1, .start 1, .deliver 1 2, .finish 1 true, .stepDown 1, .voteReq 1 ⟨2, 3, 0, 0⟩]

def members5 : List MNode := [⟨1, false, 3⟩, ⟨2, false, 3⟩, ⟨3, false, 3⟩, ⟨4, false, 3⟩, ⟨5, false, 3⟩]
def c5 : Cluster := freshCluster (fun _ => members5) (fun i => Memb.mk' i members5)

/-- F32: node 2 votes for node 1 in term 2 (1 loses: 2 of 5); node 3 wins term 2 with 4 and 5; its heartbeat
    overwrites node 2's vote; a late copy of node 3's vote request is then granted by node 2. -/
def f30Votes : List Label :=
  [.timeout 1, .start 1, .deliver 1 2, .finish 1 true, .timeout 3, .start 3, .deliver 3 4, .deliver 3 5,
   .finish 3 true, .heartbeat 3 2, .voteReq 2 ⟨2, 3, 0, 0⟩]

/-- regressions of F2 and F1: the second vote request is now denied -/
theorem f2_votes_regression : (run c3 f2Votes).grants = [(2, 1, 2)] := by decide
theorem f1_votes_regression : (run c3 f1Votes).grants = [(2, 1, 2), (1, 1, 2)] := by decide

theorem f32_votes : (run c5 f30Votes).grants = [(2, 3, 2), (5, 3, 2), (4, 3, 2), (3, 3, 2), (2, 1, 2), (1, 1, 2)] := by
  decide

/-- **The code as it is violates C02** — F32 (harmless for C01: the second grantee already leads the term). -/
theorem one_vote_per_term_false_F32 : ¬ OneVotePerTermStatement := by
  intro h
  have := h [1, 2, 3, 4, 5] c5 f30Votes (fresh_freshCluster _ _) (by decide)
  rw [f32_votes] at this
  revert this; decide

/-- no vote request on behalf of a node that is already a recorded leader of that term (the F32 trigger) -/
def noLeaderReqB (c : Cluster) : Label → Bool
  | .voteReq _ r => !c.isLeaderAt r.cand r.term
  | _ => true

/-- every recorded vote is the voter's first vote of that term -/
def JStrict (c : Cluster) : Prop := ∀ p x t, (p, x, t) ∈ c.grants → c.fv p t = some x

theorem votesOK_of_jstrict {c : Cluster} (h : JStrict c) : votesOK c.grants = true := by
  unfold votesOK
  simp only [List.all_eq_true, Bool.or_eq_true, Bool.not_eq_true', Bool.and_eq_false_iff, beq_eq_false_iff_ne,
    beq_iff_eq]
  rintro ⟨p, x, t⟩ ha ⟨p', x', t'⟩ hb
  simp only
  by_cases h1 : p = p'
  · by_cases h2 : t = t'
    · subst h1; subst h2
      have := h p x t ha
      rw [h p x' t hb] at this
      exact Or.inr (Option.some.inj this).symm
    · exact Or.inl (Or.inr h2)
  · exact Or.inl (Or.inl h1)

theorem jstrict_handleVoteReq {V : List Nat} {c : Cluster} (h : Inv V c) (hj : JStrict c) (p : Nat) (r : VoteReq)
    (hnl : ¬ c.isL r.cand r.term) : JStrict (c.handleVoteReq p r).1 := by
  have spec := onVoteReq_spec c.isL (c.proc p).node r
  unfold Cluster.handleVoteReq Cluster.setNode
  cases hg : (onVoteReq (c.proc p).node r).2.granted
  · simp only [hg, Bool.false_eq_true, if_false]; exact hj
  · simp only [hg, if_true]
    intro q x t hm
    simp only [List.mem_cons, Prod.mk.injEq] at hm
    rcases hm with ⟨h1, h2, h3⟩ | hm
    · rw [h1, h2, h3]
      rcases grant_justified h p _ r (spec.1 hg) with h4 | h4
      · exact h4
      · exact absurd h4 hnl
    · exact recordVote_keeps _ _ _ _ _ _ _ (hj q x t hm)

theorem jstrict_step {V : List Nat} {c : Cluster} (h : Inv V c) (hj : JStrict c) (l : Label)
    (hn : noLeaderReqB c l = true) : JStrict (step c l) := by
  have ite_keep : ∀ (cnd : Prop) [Decidable cnd] (A B : Cluster), A.grants = c.grants → A.fv = c.fv →
      B.grants = c.grants → B.fv = c.fv → JStrict (if cnd then A else B) := by
    intro cnd _ A B h1 h2 h3 h4
    by_cases hc : cnd
    · simp only [hc, if_true]; intro p x t hm; rw [h1] at hm; rw [h2]; exact hj p x t hm
    · simp only [hc, if_false]; intro p x t hm; rw [h3] at hm; rw [h4]; exact hj p x t hm
  cases l with
  | voteReq p r =>
    simp only [step]
    split
    · refine jstrict_handleVoteReq h hj p r ?_
      simp only [noLeaderReqB, Bool.not_eq_true'] at hn
      exact (isLeaderAt_false_iff c _ _).mp hn
    · exact hj
  | deliver cand j =>
    simp only [step]
    cases hfl : c.flight cand with
    | none => exact hj
    | some f =>
      simp only
      split
      · have fl := h.n cand f hfl
        exact jstrict_handleVoteReq h hj j (c.requestOf cand) fl.notL
      · exact hj
  | start p =>
    simp only [step]
    split
    · intro q x t hm
      simp only [List.mem_cons, Prod.mk.injEq] at hm
      rcases hm with ⟨h1, h2, h3⟩ | hm
      · rw [h1, h2, h3]
        have hnone : c.fv p ((c.proc p).node.term + 1) = none := fv_none_of_gt h p _ (Nat.lt_succ_self _)
        show recordVote c.fv p ((c.proc p).node.term + 1) p p ((c.proc p).node.term + 1) = some p
        rw [recordVote_same, hnone]
      · exact recordVote_keeps _ _ _ _ _ _ _ (hj q x t hm)
    · exact hj
  | scripted cand r =>
    simp only [step]
    cases hfl : c.flight cand with
    | none => exact hj
    | some f => simp only; split <;> exact hj
  | finish p ok =>
    simp only [step]
    cases hfl : c.flight p with
    | none => exact hj
    | some f =>
      simp only
      by_cases hup : (c.proc p).up = true
      · simp only [hup, if_true]
        exact ite_keep _ _ _ rfl rfl rfl rfl
      · simp only [hup]; exact hj
  | appendEntries p t l => simp only [step]; split <;> exact hj
  | heartbeat l p => simp only [step]; split <;> exact hj
  | timeout p => simp only [step]; split <;> exact hj
  | stepDown p => simp only [step]; split <;> exact hj
  | higherTerm p t => simp only [step]; split <;> exact hj
  | noopCommitted p =>
    simp only [step]
    split
    · split <;> exact hj
    · exact hj
  | logChange p a b => simp only [step]; split <;> exact hj
  | confChange p ch => simp only [step]; split <;> exact hj
  | stop p => simp only [step]; split <;> exact hj
  | crash p => simp only [step]; split <;> exact hj
  | restart p => simp only [step]; split <;> exact hj

theorem jstrict_run {V : List Nat} : ∀ (ls : List Label) (c : Cluster), Inv V c → JStrict c →
    SafeTrace V c ls → traceAll noLeaderReqB c ls = true → JStrict (run c ls)
  | [], _, _, hj, _, _ => hj
  | l :: ls, c, h, hj, hs, hn => by
    simp only [traceAll, Bool.and_eq_true] at hn
    simp only [run, List.foldl_cons]
    exact jstrict_run ls (step c l) (inv_step h l hs.1) (jstrict_step h hj l hn.1) hs.2 hn.2

/-- **C02 (votes), partial**: one candidate per voter and term on every schedule — crashes, restarts and
    step-downs included — without a vote request of an already established leader (F32 trigger). -/
theorem one_vote_per_term_partial (V : List Nat) (c0 : Cluster) (ls : List Label) (h0 : Fresh c0)
    (he : traceAll (envB V) c0 ls = true) (hl : traceAll noLeaderReqB c0 ls = true) :
    votesOK (run c0 ls).grants = true := by
  refine votesOK_of_jstrict (jstrict_run ls c0 (inv_of_fresh V c0 h0) ?_ (safeTrace_of V ls c0 he) hl)
  intro p x t hm
  rw [h0.grants] at hm
  cases hm

/-- non-vacuity: `okTrace` of C01 (split vote, lost reply, duplicate request, graceful restart, crash inside an
    election, step-down) and the former F1 / F2 witnesses satisfy all hypotheses -/
example : traceAll noLeaderReqB c3 okTrace = true ∧ votesOK (run c3 okTrace).grants = true ∧
    traceAll noLeaderReqB c3 f2Votes = true ∧ traceAll noLeaderReqB c3 f1Votes = true := by decide

/-! ### the current term never decreases -/

/-- the terms node `p` holds along a schedule (before the first step, and after each step) -/
def termTrace (p : Nat) : Cluster → List Label → List Nat
  | c, [] => [(c.proc p).node.term]
  | c, l :: ls => (c.proc p).node.term :: termTrace p (step c l) ls

/-- former witnesses: a term adopted from a vote request, then crash + restart (F2) / a learner's graceful
    restart (F31) -/
def f2Term : List Label := [.voteReq 2 ⟨5, 1, 0, 0⟩, .crash 2, .restart 2]
def cLearner : Cluster :=
  { c3 with proc := fun i => if i = 4 then
      { node := bootNode 4 true none 0 0 [], up := true, image := none, memb := Memb.mk' 4 members3,
        initial := members3, startLearner := true }
      else c3.proc i }
def f31Term : List Label := [.voteReq 4 ⟨7, 1, 0, 0⟩, .stop 4, .restart 4]

/-- regressions: the term survives -/
theorem f2_terms_regression : termTrace 2 c3 f2Term = [1, 5, 5, 5] := by decide
theorem f31_terms_regression : termTrace 4 cLearner f31Term = [1, 7, 7, 7] := by decide

theorem termTrace_head (p : Nat) (c : Cluster) (ls : List Label) :
    ∃ rest, termTrace p c ls = (c.proc p).node.term :: rest := by
  cases ls <;> exact ⟨_, rfl⟩

theorem sortedLE_cons {a b : Nat} {rest : List Nat} (h : a ≤ b) (hs : sortedLE (b :: rest) = true) :
    sortedLE (a :: b :: rest) = true := by
  simp [sortedLE, h, hs]

/-- **C02 (terms), full strength**: on every schedule — crashes, restarts, learners, forged messages, anything —
    the term of every node is non-decreasing.  `DInv c0`: the image of a node that is down at the start agrees
    with its last hard state (true of every freshly booted cluster). -/
theorem term_monotone : ∀ (ls : List Label) (c0 : Cluster) (p : Nat), DInv c0 →
    sortedLE (termTrace p c0 ls) = true
  | [], _, _, _ => rfl
  | l :: ls, c0, p, hd => by
    have ih := term_monotone ls (step c0 l) p (dinv_step c0 hd l)
    obtain ⟨rest, hr⟩ := termTrace_head p (step c0 l) ls
    simp only [termTrace]
    rw [hr] at ih ⊢
    exact sortedLE_cons (step_term_le c0 hd l p) ih

theorem dinv_of_fresh {c : Cluster} (h : Fresh c) : DInv c := h.down

/-- non-vacuity: `DInv` holds for the witness clusters -/
example : DInv c3 ∧ DInv cLearner := by
  constructor
  · intro p h; simp [c3, freshCluster] at h
  · intro p h
    by_cases hp : p = 4
    · subst hp; simp [cLearner] at h
    · simp [cLearner, hp, c3, freshCluster] at h

end DEngine.C02
