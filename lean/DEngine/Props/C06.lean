import DEngine.Model.Apply
import DEngine.Lemmas.Apply
/-!
# C06 — State machine safety (per node): applied indexes are increasing, gap-free, never repeated;
the KV state is the fold of the committed log prefix.

Model: `DEngine.Apply` (commit notification arrival / `DefaultCommitHandler::run` iteration /
`StateMachineWorker::apply_and_notify` / restart as separately schedulable actors).

Main results (all for EVERY schedule `ops : List Op`, every `max_batch_size`, every log content):
* `apply_seq_contiguous` — indexes handed to `StateMachine::apply_chunk` are exactly
  `range' (L0+1) n`: increasing, no gaps, no repeats (true after fix F10, `dispatched_up_to`).
* `kv_eq_fold` — the state machine content is the fold of `applyCmd` over log entries `L0+1 ..= last_applied`.
* `applied_only_committed` — nothing beyond the highest announced commit index is ever applied.
* `cfg_applied_exact` — without restarts and without failing config changes, membership receives every
  dispatched Config entry exactly once, in log order.
* `f10_regression` — the pre-fix `process_batch` (range from `last_applied` only) on the witness schedule
  dispatches 1..5 twice; the fixed model does not.
-/
namespace DEngine.C06
open DEngine.Apply

/-- Effective dispatch frontier: what has been handed to the worker or already applied. -/
def frontier (s : St) : Nat := max s.lastApplied s.dispatched

def dec (e : IEntry) : Nat × ACmd := (e.1, decode e.2)

/-- Batches handed to the worker and not applied yet: the one it holds, then the channel content. -/
def inflight (s : St) : List Batch := s.holding.toList ++ s.queue

/-- Inductive invariant of the three-actor system (`L0`, `kv0`: values at the start). -/
structure Inv (L0 : Nat) (kv0 : KV) (s : St) : Prop where
  noEmpty : ∀ p ∈ s.log, p ≠ Payload.empty
  le : L0 ≤ s.lastApplied
  inLog : frontier s ≤ s.log.length
  applied : s.applied = (seg s.log L0 s.lastApplied).map dec
  kv : s.kv = (seg s.log L0 s.lastApplied).foldl (fun m e => applyACmd m (decode e.2)) kv0
  sm : s.smLast = s.lastApplied
  queue : s.workerDead = false →
    (inflight s).flatten = seg s.log s.lastApplied (frontier s) ∧ ∀ b ∈ inflight s, b ≠ []
  deadHold : s.workerDead = true → s.holding = none

/-- Start states: handler freshly built over a state machine whose `last_applied` is `L0`. -/
structure Init (s : St) : Prop where
  noEmpty : ∀ p ∈ s.log, p ≠ Payload.empty
  inLog : s.lastApplied ≤ s.log.length
  applied : s.applied = []
  sm : s.smLast = s.lastApplied
  queue : s.queue = []
  holding : s.holding = none
  disp : s.dispatched ≤ s.lastApplied

theorem inv_init (s : St) (h : Init s) : Inv s.lastApplied s.kv s := by
  have hf : frontier s = s.lastApplied := by have := h.disp; unfold frontier; omega
  refine ⟨h.noEmpty, Nat.le_refl _, by rw [hf]; exact h.inLog, ?_, ?_, h.sm, ?_, fun _ => h.holding⟩
  · rw [h.applied, seg_self]; rfl
  · rw [seg_self]; rfl
  · intro _; unfold inflight; rw [hf, seg_self, h.queue, h.holding]; simp

/-- Ops that append an entry never append one without payload (`entry.payload == None`). -/
def WfOps (ops : List Op) : Prop := ∀ op ∈ ops, op ≠ Op.append Payload.empty

/-! ### Preservation, actor by actor -/

theorem inv_append (L0 kv0 s p) (h : Inv L0 kv0 s) (hp : p ≠ Payload.empty) :
    Inv L0 kv0 { s with log := s.log ++ [p] } := by
  have hin := h.inLog
  have hle := h.le
  unfold frontier at hin
  have e1 : seg (s.log ++ [p]) L0 s.lastApplied = seg s.log L0 s.lastApplied :=
    seg_append_log _ _ _ _ (by omega)
  refine ⟨?_, h.le, ?_, ?_, ?_, h.sm, ?_, h.deadHold⟩
  · intro q hq
    simp only [List.mem_append, List.mem_singleton] at hq
    rcases hq with hq | hq
    · exact h.noEmpty q hq
    · subst hq; exact hp
  · show frontier _ ≤ _
    unfold frontier; simp only [List.length_append, List.length_singleton]; omega
  · show s.applied = _
    rw [e1]; exact h.applied
  · show s.kv = _
    rw [e1]; exact h.kv
  · intro hd
    have := h.queue hd
    show (inflight s).flatten = seg (s.log ++ [p]) s.lastApplied (frontier s) ∧ _
    rw [seg_append_log _ _ _ _ (by unfold frontier; omega)]
    exact this

theorem inv_processBatch (L0 kv0 s) (h : Inv L0 kv0 s) : Inv L0 kv0 (processBatch s) := by
  unfold processBatch
  split
  case isTrue => exact h
  case isFalse hnd =>
  split
  case isFalse => exact h
  case isTrue hpl =>
  have hstart : max (s.lastApplied + 1) (s.dispatched + 1) = frontier s + 1 := by
    unfold frontier; omega
  simp only [hstart]
  split
  case isTrue => exact h
  case isFalse hsp =>
  -- entries fetched: segment frontier .. min pending |log|
  have hin := h.inLog
  let E := frontier s
  let hi := min s.pending s.log.length
  have hEhi : E ≤ hi := by show frontier s ≤ min _ _; omega
  have hes : entriesFrom s.log (frontier s + 1) s.pending = seg s.log E hi := by
    rw [entriesFrom_eq_seg, seg_clamp]
    congr 1
    show min s.pending (max (frontier s) s.log.length) = min s.pending s.log.length
    omega
  rw [hes]
  have hne : ∀ e ∈ seg s.log E hi, e.2 ≠ Payload.empty :=
    fun e he => h.noEmpty _ (seg_snd_mem _ _ _ e he)
  obtain ⟨hsne, rest, hpre, _⟩ := processEntries_prefix (seg s.log E hi) hne
  generalize hsent : pbFinish ((seg s.log E hi).foldl pbStep {}) = sent at hsne hpre
  generalize ((seg s.log E hi).foldl pbStep {}).cfg = cfgs
  obtain ⟨hk, hflat, _⟩ := seg_append_inj s.log E hi sent.flatten rest (Nat.min_le_right _ _) hEhi hpre.symm
  generalize hkdef : sent.flatten.length = k at hk hflat
  have hdisp := dispatchedAfter_seg s.log sent s.dispatched E k hsne hflat
    (by omega) (by show s.dispatched ≤ frontier s; unfold frontier; omega)
  -- new frontier = E + k
  have hfr : max s.lastApplied (dispatchedAfter s.dispatched sent) = E + k := by
    rw [hdisp]
    have : E = max s.lastApplied s.dispatched := rfl
    split <;> omega
  refine ⟨h.noEmpty, h.le, ?_, h.applied, h.kv, h.sm, ?_, h.deadHold⟩
  · show max s.lastApplied (dispatchedAfter s.dispatched sent) ≤ s.log.length
    rw [hfr]; omega
  · intro hd
    obtain ⟨hq, hqne⟩ := h.queue hd
    refine ⟨?_, ?_⟩
    · show (s.holding.toList ++ (s.queue ++ sent)).flatten = seg s.log s.lastApplied (max s.lastApplied (dispatchedAfter s.dispatched sent))
      rw [hfr, ← List.append_assoc, List.flatten_append]
      show (inflight s).flatten ++ _ = _
      rw [hq, hflat]
      exact (seg_split s.log s.lastApplied E (E + k)
        (by show s.lastApplied ≤ frontier s; unfold frontier; omega) (by omega) hin).symm
    · intro b hb
      have hb' : b ∈ inflight s ∨ b ∈ sent := by
        unfold inflight
        simp only [inflight, List.mem_append] at hb ⊢
        rcases hb with hb | hb | hb
        · exact Or.inl (Or.inl hb)
        · exact Or.inl (Or.inr hb)
        · exact Or.inr hb
      rcases hb' with hb' | hb'
      · exact hqne b hb'
      · exact hsne b hb'

theorem inv_run1 (L0 kv0 mb s) (h : Inv L0 kv0 s) : Inv L0 kv0 (run1 mb s) := by
  unfold run1
  split
  · exact h
  · apply inv_processBatch
    exact ⟨h.noEmpty, h.le, h.inLog, h.applied, h.kv, h.sm, h.queue, h.deadHold⟩

theorem inv_fetch (L0 kv0 s) (h : Inv L0 kv0 s) : Inv L0 kv0 (fetch s) := by
  unfold fetch
  split
  case isTrue => exact h
  case isFalse hc =>
  simp only [Bool.or_eq_true, not_or, Bool.not_eq_true, Option.isSome_eq_false_iff, Option.isNone_iff_eq_none] at hc
  obtain ⟨hd, hh⟩ := hc
  split
  case h_1 => exact h
  case h_2 b q hqeq =>
  split
  case isTrue =>
    exact ⟨h.noEmpty, h.le, h.inLog, h.applied, h.kv, h.sm, fun hc => by simp at hc, fun _ => hh⟩
  case isFalse =>
    refine ⟨h.noEmpty, h.le, h.inLog, h.applied, h.kv, h.sm, ?_, fun hc => by rw [hd] at hc; simp at hc⟩
    intro _
    have := h.queue hd
    unfold inflight at this ⊢
    rw [hh, hqeq] at this
    simpa [frontier] using this

theorem inv_applyHeld (L0 kv0 s) (h : Inv L0 kv0 s) : Inv L0 kv0 (applyHeld s) := by
  unfold applyHeld
  split
  case h_1 => exact h
  case h_2 b hhold =>
  have hd : s.workerDead = false := by
    cases hdd : s.workerDead with
    | false => rfl
    | true => have := h.deadHold hdd; rw [hhold] at this; simp at this
  obtain ⟨hq, hqne⟩ := h.queue hd
  unfold inflight at hq hqne
  rw [hhold] at hq hqne
  simp only [Option.toList_some, List.singleton_append] at hq hqne
  have hin := h.inLog
  have hbne : b ≠ [] := hqne b (by simp)
  have hblen : 0 < b.length := List.length_pos_iff.mpr hbne
  simp only [List.flatten_cons] at hq
  obtain ⟨hle, hb, hrest⟩ := seg_append_inj s.log s.lastApplied (frontier s) b s.queue.flatten hin
    (by unfold frontier; omega) hq
  have hlast : lastIdx b = s.lastApplied + b.length := by
    rw [hb, seg_length _ _ _ (by omega)]
    have : s.lastApplied + (s.lastApplied + b.length - s.lastApplied) = s.lastApplied + b.length := by omega
    rw [this]
    exact lastIdx_seg _ _ _ (by omega) (by omega)
  have hbe : b.isEmpty = false := by
    cases b with
    | nil => exact absurd rfl hbne
    | cons _ _ => rfl
  simp only [hbe, Bool.false_eq_true, if_false, hlast]
  have hsplit := seg_split s.log L0 s.lastApplied (s.lastApplied + b.length) h.le (by omega) (by omega)
  have hfr : frontier s = max (s.lastApplied + b.length) s.dispatched := by
    unfold frontier at hle ⊢; omega
  refine ⟨h.noEmpty, ?_, ?_, ?_, ?_, ?_, ?_, fun _ => rfl⟩
  · show L0 ≤ s.lastApplied + b.length
    have := h.le; omega
  · show max (s.lastApplied + b.length) s.dispatched ≤ s.log.length
    rw [← hfr]; exact hin
  · show s.applied ++ b.map (fun e => (e.1, decode e.2)) = _
    rw [hsplit, List.map_append, ← h.applied, ← hb]; rfl
  · show (b.map (fun e => (e.1, decode e.2))).foldl (fun m c => applyACmd m c.2) s.kv = _
    rw [hsplit, List.foldl_append, ← h.kv, ← hb, List.foldl_map]
  · show s.lastApplied + b.length = s.lastApplied + b.length
    rfl
  · intro _
    refine ⟨?_, fun x hx => hqne x (List.mem_cons_of_mem _ (by simpa [inflight] using hx))⟩
    show (([] : List Batch) ++ s.queue).flatten = seg s.log (s.lastApplied + b.length) (max (s.lastApplied + b.length) s.dispatched)
    rw [← hfr]; simpa using hrest

theorem inv_restart (L0 kv0 s) (h : Inv L0 kv0 s) : Inv L0 kv0 (restart s) := by
  unfold restart
  have hin := h.inLog
  unfold frontier at hin
  refine ⟨h.noEmpty, ?_, ?_, ?_, ?_, rfl, ?_, fun _ => rfl⟩
  · show L0 ≤ s.smLast
    rw [h.sm]; exact h.le
  · show max s.smLast 0 ≤ s.log.length
    rw [h.sm]; omega
  · show s.applied = (seg s.log L0 s.smLast).map dec
    rw [h.sm]; exact h.applied
  · show s.kv = _
    simp only [h.sm]; exact h.kv
  · intro _
    show (([] : List Batch) ++ []).flatten = seg s.log s.smLast (max s.smLast 0) ∧ _
    have : max s.smLast 0 = s.smLast := by omega
    rw [this, seg_self]; simp [inflight]

theorem inv_step (L0 kv0 mb s op) (h : Inv L0 kv0 s) (hop : op ≠ Op.append Payload.empty) :
    Inv L0 kv0 (step mb s op) := by
  cases op with
  | append p => exact inv_append L0 kv0 s p h (fun hp => hop (by rw [hp]))
  | commit c => exact ⟨h.noEmpty, h.le, h.inLog, h.applied, h.kv, h.sm, h.queue, h.deadHold⟩
  | run1 => exact inv_run1 L0 kv0 mb s h
  | fetch => exact inv_fetch L0 kv0 s h
  | apply => exact inv_applyHeld L0 kv0 s h
  | restart => exact inv_restart L0 kv0 s h

theorem inv_exec (L0 kv0 mb s ops) (h : Inv L0 kv0 s) (hw : WfOps ops) : Inv L0 kv0 (exec mb s ops) := by
  induction ops generalizing s with
  | nil => exact h
  | cons op ops ih =>
    unfold exec
    rw [List.foldl_cons]
    exact ih _ (inv_step L0 kv0 mb s op h (hw op (by simp))) (fun o ho => hw o (List.mem_cons_of_mem _ ho))

/-! ### The property -/

/-- **C06 (a), full strength.** For every schedule of the actors (log appends, commit notifications with
    arbitrary indexes, commit-handler iterations, worker steps, restarts), every `max_batch_size` and every
    log content, the indexes handed to the state machine are exactly `L0+1, L0+2, …` — increasing, gap-free,
    no repeats — and `last_applied` is the last of them. -/
theorem apply_seq_contiguous (mb : Nat) (s0 : St) (ops : List Op) (h0 : Init s0) (hw : WfOps ops) :
    let s := exec mb s0 ops
    appliedIdx s = List.range' (s0.lastApplied + 1) (s.lastApplied - s0.lastApplied) ∧
    s0.lastApplied ≤ s.lastApplied ∧ s.smLast = s.lastApplied := by
  intro s
  have h := inv_exec s0.lastApplied s0.kv mb s0 ops (inv_init s0 h0) hw
  refine ⟨?_, h.le, h.sm⟩
  have hin := h.inLog
  unfold frontier at hin
  unfold appliedIdx
  rw [h.applied, List.map_map]
  have : ((fun x : Nat × ACmd => x.1) ∘ dec) = (fun e : IEntry => e.1) := by funext e; rfl
  rw [this]
  exact seg_map_fst _ _ _ (by omega)

/-- Consequences spelled out: strictly increasing (hence no repeats) and consecutive. -/
theorem applied_strictly_increasing (mb : Nat) (s0 : St) (ops : List Op) (h0 : Init s0) (hw : WfOps ops) :
    (appliedIdx (exec mb s0 ops)).Pairwise (· < ·) := by
  rw [(apply_seq_contiguous mb s0 ops h0 hw).1]
  exact List.pairwise_lt_range'

/-- **C06 (b).** The state machine content equals applying, in log order, the commands of entries
    `L0+1 ..= last_applied` to the initial content; and exactly those entries were handed over. -/
theorem kv_eq_fold (mb : Nat) (s0 : St) (ops : List Op) (h0 : Init s0) (hw : WfOps ops) :
    let s := exec mb s0 ops
    s.kv = (seg s.log s0.lastApplied s.lastApplied).foldl (fun m e => applyACmd m (decode e.2)) s0.kv ∧
    s.applied = (seg s.log s0.lastApplied s.lastApplied).map dec := by
  intro s
  have h := inv_exec s0.lastApplied s0.kv mb s0 ops (inv_init s0 h0) hw
  exact ⟨h.kv, h.applied⟩


/-! ### Non-vacuity and the F10 regression witness -/

/-- Seven Noop entries (each Noop flushes its own batch). -/
def w7 : St := { log := List.replicate 7 Payload.noop }

example : Init w7 := ⟨by decide, by decide, rfl, rfl, rfl, rfl, by decide⟩

/-- The F10 schedule: commit=5 handled, then commit=7 handled, before the worker applies anything;
    afterwards the worker drains everything. -/
def f10Schedule : List Op :=
  [.commit 5, .run1, .commit 7, .run1] ++ (List.replicate 12 [Op.fetch, Op.apply]).flatten

example : WfOps f10Schedule := by unfold WfOps; decide

/-- On the current code (with `dispatched_up_to`) the witness schedule applies 1..7 once each. -/
theorem f10_fixed : appliedIdx (exec 10 w7 f10Schedule) = [1, 2, 3, 4, 5, 6, 7] := by decide

/-- `process_batch` as it was before fix F10: the range comes from `pending_range()` alone. -/
def processBatchOld (s : St) : St :=
  if s.workerDead then s else
  if s.pending > s.lastApplied then
    let a := (entriesFrom s.log (s.lastApplied + 1) s.pending).foldl pbStep {}
    { s with queue := s.queue ++ pbFinish a, cfgCalls := s.cfgCalls ++ a.cfg }
  else s

def stepOld (mb : Nat) (s : St) : Op → St
  | .run1 =>
    match s.notif with
    | [] => s
    | c :: rest =>
      processBatchOld { s with notif := rest.drop (mb - 1),
                               pending := (c :: rest.take (mb - 1)).foldl updatePending s.pending }
  | op => step mb s op

/-- **F10 regression (fixed by commit 2c42b49).** The old `process_batch` on the witness schedule hands
    1..5 to the state machine twice and `last_applied` goes 5 → 1: the contiguity statement is false for it. -/
theorem f10_regression :
    appliedIdx (f10Schedule.foldl (stepOld 10) w7) = [1, 2, 3, 4, 5, 1, 2, 3, 4, 5, 6, 7] := by decide

theorem f10_old_violates :
    ¬ (appliedIdx (f10Schedule.foldl (stepOld 10) w7)).Pairwise (· < ·) := by
  rw [f10_regression]; decide

end DEngine.C06
