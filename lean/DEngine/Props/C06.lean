import DEngine.Model.Apply
import DEngine.Lemmas.Apply
/-!
# C06 — State machine safety (per node): applied indexes are increasing, gap-free, never repeated;
the KV state is the fold of the committed log prefix.

Model: `DEngine.Apply` (commit notification arrival / `DefaultCommitHandler::run` iteration /
`StateMachineWorker::apply_and_notify` / restart as separately schedulable actors).

Main results (all for EVERY schedule `ops : List Op`, every `max_batch_size`, every log content):
* `apply_seq_contiguous` — indexes handed to `StateMachine::apply_chunk` are exactly
  `range' (L0+1) n`: increasing, no gaps, no repeats (true after fix F10, `dispatched_up_to`).
* `kv_eq_fold` — the state machine content is the fold of `applyCmd` over log entries `L0+1 ..= last_applied`.
* `applied_only_committed` — nothing beyond the highest announced commit index is ever applied.
* `cfg_applied_exact` — without restarts and without failing config changes, membership receives every
  dispatched Config entry exactly once, in log order.
* `f10_regression` — the pre-fix `process_batch` (range from `last_applied` only) on the witness schedule
  dispatches 1..5 twice; the fixed model does not.
-/
namespace DEngine.C06
open DEngine.Apply

/-- Effective dispatch frontier: what has been handed to the worker or already applied. -/
def frontier (s : St) : Nat := max s.lastApplied s.dispatched

def dec (e : IEntry) : Nat × ACmd := (e.1, decode e.2)

/-- Batches handed to the worker and not applied yet: the one it holds, then the channel content. -/
def inflight (s : St) : List Batch := s.holding.toList ++ s.queue

/-- Inductive invariant of the three-actor system (`L0`, `kv0`: values at the start). -/
structure Inv (L0 : Nat) (kv0 : KV) (B : Nat) (s : St) : Prop where
  noEmpty : ∀ p ∈ s.log, p ≠ Payload.empty
  base0 : s.base = 0
  le : L0 ≤ s.lastApplied
  inLog : frontier s ≤ s.log.length
  applied : s.applied = (seg s.log L0 s.lastApplied).map dec
  kv : s.kv = (seg s.log L0 s.lastApplied).foldl (fun m e => applyACmd m (decode e.2)) kv0
  sm : s.smLast = s.lastApplied
  queue : s.workerDead = false →
    (inflight s).flatten = seg s.log s.lastApplied (frontier s) ∧ ∀ b ∈ inflight s, b ≠ []
  deadHold : s.workerDead = true → s.holding = none
  /-- `B` bounds every commit index announced so far: nothing beyond it is dispatched. -/
  bnd : frontier s ≤ max L0 B ∧ s.pending ≤ B ∧ ∀ c ∈ s.notif, c ≤ B
  /-- `dispatched_up_to` is behind `last_applied` only while nothing has been applied since the handler was built. -/
  stale : s.startLa ≤ s.lastApplied ∧ (s.dispatched < s.lastApplied → s.lastApplied = s.startLa)

/-- Start states: handler freshly built over a state machine whose `last_applied` is `L0`. -/
structure Init (s : St) : Prop where
  noEmpty : ∀ p ∈ s.log, p ≠ Payload.empty
  base0 : s.base = 0
  inLog : s.lastApplied ≤ s.log.length
  applied : s.applied = []
  sm : s.smLast = s.lastApplied
  queue : s.queue = []
  holding : s.holding = none
  disp : s.dispatched ≤ s.lastApplied
  pending : s.pending = 0
  notif : s.notif = []
  start : s.startLa = s.lastApplied

theorem inv_init (s : St) (B : Nat) (h : Init s) : Inv s.lastApplied s.kv B s := by
  have hf : frontier s = s.lastApplied := by have := h.disp; unfold frontier; omega
  refine ⟨h.noEmpty, h.base0, Nat.le_refl _, by rw [hf]; exact h.inLog, ?_, ?_, h.sm, ?_, fun _ => h.holding,
    ⟨by rw [hf]; omega, by rw [h.pending]; omega, by rw [h.notif]; intro c hc; cases hc⟩,
    ⟨by rw [h.start]; exact Nat.le_refl _, fun _ => h.start.symm⟩⟩
  · rw [h.applied, seg_self]; rfl
  · rw [seg_self]; rfl
  · intro _; unfold inflight; rw [hf, seg_self, h.queue, h.holding]; simp

/-- Schedules covered by the theorems: no entry without payload (`entry.payload == None`) is appended and
    no snapshot is installed (see `snapshot_install_breaks_apply_order`, finding F60). -/
def okOp : Op → Bool
  | .append .empty => false
  | .snap _ => false
  | _ => true

def WfOps (ops : List Op) : Prop := ∀ op ∈ ops, okOp op = true

instance (ops : List Op) : Decidable (WfOps ops) := by unfold WfOps; exact inferInstance

theorem foldl_updatePending_le (l : List Nat) (p B : Nat) (hp : p ≤ B) (hl : ∀ c ∈ l, c ≤ B) :
    l.foldl updatePending p ≤ B := by
  induction l generalizing p with
  | nil => exact hp
  | cons c l ih =>
    rw [List.foldl_cons]
    apply ih
    · unfold updatePending; split
      · exact hl c (by simp)
      · exact hp
    · exact fun x hx => hl x (List.mem_cons_of_mem _ hx)

/-! ### Preservation, actor by actor -/

theorem inv_append (L0 kv0 B s p) (h : Inv L0 kv0 B s) (hp : p ≠ Payload.empty) :
    Inv L0 kv0 B { s with log := s.log ++ [p] } := by
  have hin := h.inLog
  have hle := h.le
  unfold frontier at hin
  have e1 : seg (s.log ++ [p]) L0 s.lastApplied = seg s.log L0 s.lastApplied :=
    seg_append_log _ _ _ _ (by omega)
  refine ⟨?_, h.base0, h.le, ?_, ?_, ?_, h.sm, ?_, h.deadHold, h.bnd, h.stale⟩
  · intro q hq
    simp only [List.mem_append, List.mem_singleton] at hq
    rcases hq with hq | hq
    · exact h.noEmpty q hq
    · subst hq; exact hp
  · show frontier _ ≤ _
    unfold frontier; simp only [List.length_append, List.length_singleton]; omega
  · show s.applied = _
    rw [e1]; exact h.applied
  · show s.kv = _
    rw [e1]; exact h.kv
  · intro hd
    have := h.queue hd
    show (inflight s).flatten = seg (s.log ++ [p]) s.lastApplied (frontier s) ∧ _
    rw [seg_append_log _ _ _ _ (by unfold frontier; omega)]
    exact this

theorem inv_processBatch (L0 kv0 B s) (h : Inv L0 kv0 B s) : Inv L0 kv0 B (processBatch s) := by
  unfold processBatch
  split
  case isTrue => exact h
  case isFalse hnd =>
  split
  case isFalse => exact h
  case isTrue hpl =>
  have hstart : max (s.lastApplied + 1) (s.dispatched + 1) = frontier s + 1 := by
    unfold frontier; omega
  simp only [hstart]
  split
  case isTrue => exact h
  case isFalse hsp =>
  -- entries fetched: segment frontier .. min pending |log|
  have hin := h.inLog
  let E := frontier s
  let hi := min s.pending s.log.length
  have hEhi : E ≤ hi := by show frontier s ≤ min _ _; omega
  have hes : entriesFrom s.log s.base (frontier s + 1) s.pending = seg s.log E hi := by
    rw [h.base0, entriesFrom_eq_seg, seg_clamp]
    congr 1
    show min s.pending (max (frontier s) s.log.length) = min s.pending s.log.length
    omega
  rw [hes]
  have hne : ∀ e ∈ seg s.log E hi, e.2 ≠ Payload.empty :=
    fun e he => h.noEmpty _ (seg_snd_mem _ _ _ e he)
  obtain ⟨hsne, rest, hpre, _⟩ := processEntries_prefix (seg s.log E hi) hne
  generalize hsent : pbFinish ((seg s.log E hi).foldl pbStep {}) = sent at hsne hpre
  generalize ((seg s.log E hi).foldl pbStep {}).cfg = cfgs
  obtain ⟨hk, hflat, _⟩ := seg_append_inj s.log E hi sent.flatten rest (Nat.min_le_right _ _) hEhi hpre.symm
  generalize hkdef : sent.flatten.length = k at hk hflat
  have hdisp := dispatchedAfter_seg s.log sent s.dispatched E k hsne hflat
    (by omega) (by show s.dispatched ≤ frontier s; unfold frontier; omega)
  -- new frontier = E + k
  have hfr : max s.lastApplied (dispatchedAfter s.dispatched sent) = E + k := by
    rw [hdisp]
    have : E = max s.lastApplied s.dispatched := rfl
    split <;> omega
  refine ⟨h.noEmpty, h.base0, h.le, ?_, h.applied, h.kv, h.sm, ?_, h.deadHold, ⟨?_, h.bnd.2⟩, ⟨h.stale.1, ?_⟩⟩
  rotate_right
  · show dispatchedAfter s.dispatched sent < s.lastApplied → s.lastApplied = s.startLa
    intro hlt
    apply h.stale.2
    rw [hdisp] at hlt
    have : E = max s.lastApplied s.dispatched := rfl
    split at hlt <;> omega
  · show max s.lastApplied (dispatchedAfter s.dispatched sent) ≤ s.log.length
    rw [hfr]; omega
  rotate_left
  · show max s.lastApplied (dispatchedAfter s.dispatched sent) ≤ max L0 B
    rw [hfr]
    have h1 := h.bnd.2.1
    have h2 : hi ≤ s.pending := Nat.min_le_left _ _
    omega
  · intro hd
    obtain ⟨hq, hqne⟩ := h.queue hd
    refine ⟨?_, ?_⟩
    · show (s.holding.toList ++ (s.queue ++ sent)).flatten = seg s.log s.lastApplied (max s.lastApplied (dispatchedAfter s.dispatched sent))
      rw [hfr, ← List.append_assoc, List.flatten_append]
      show (inflight s).flatten ++ _ = _
      rw [hq, hflat]
      exact (seg_split s.log s.lastApplied E (E + k)
        (by show s.lastApplied ≤ frontier s; unfold frontier; omega) (by omega) hin).symm
    · intro b hb
      have hb' : b ∈ inflight s ∨ b ∈ sent := by
        unfold inflight
        simp only [inflight, List.mem_append] at hb ⊢
        rcases hb with hb | hb | hb
        · exact Or.inl (Or.inl hb)
        · exact Or.inl (Or.inr hb)
        · exact Or.inr hb
      rcases hb' with hb' | hb'
      · exact hqne b hb'
      · exact hsne b hb'

theorem inv_run1 (L0 kv0 B mb s) (h : Inv L0 kv0 B s) : Inv L0 kv0 B (run1 mb s) := by
  unfold run1
  split
  · exact h
  · rename_i c rest hn
    apply inv_processBatch
    have hall : ∀ x ∈ s.notif, x ≤ B := h.bnd.2.2
    rw [hn] at hall
    refine ⟨h.noEmpty, h.base0, h.le, h.inLog, h.applied, h.kv, h.sm, h.queue, h.deadHold, ⟨h.bnd.1, ?_, ?_⟩, h.stale⟩
    · show (c :: rest.take (mb - 1)).foldl updatePending s.pending ≤ B
      apply foldl_updatePending_le _ _ _ h.bnd.2.1
      intro x hx
      simp only [List.mem_cons] at hx
      rcases hx with hx | hx
      · subst hx; exact hall _ (by simp)
      · exact hall x (List.mem_cons_of_mem _ (List.mem_of_mem_take hx))
    · intro x hx
      exact hall x (List.mem_cons_of_mem _ (List.mem_of_mem_drop hx))

theorem inv_fetch (L0 kv0 B s) (h : Inv L0 kv0 B s) : Inv L0 kv0 B (fetch s) := by
  unfold fetch
  split
  case isTrue => exact h
  case isFalse hc =>
  simp only [Bool.or_eq_true, not_or, Bool.not_eq_true, Option.isSome_eq_false_iff, Option.isNone_iff_eq_none] at hc
  obtain ⟨hd, hh⟩ := hc
  split
  case h_1 => exact h
  case h_2 b q hqeq =>
  split
  case isTrue =>
    exact ⟨h.noEmpty, h.base0, h.le, h.inLog, h.applied, h.kv, h.sm, fun hc => by simp at hc, fun _ => hh, h.bnd, h.stale⟩
  case isFalse =>
    refine ⟨h.noEmpty, h.base0, h.le, h.inLog, h.applied, h.kv, h.sm, ?_, (fun hc => by rw [hd] at hc; simp at hc), h.bnd, h.stale⟩
    intro _
    have := h.queue hd
    unfold inflight at this ⊢
    rw [hh, hqeq] at this
    simpa [frontier] using this

theorem inv_applyHeld (L0 kv0 B s) (h : Inv L0 kv0 B s) : Inv L0 kv0 B (applyHeld s) := by
  unfold applyHeld
  split
  case h_1 => exact h
  case h_2 b hhold =>
  have hd : s.workerDead = false := by
    cases hdd : s.workerDead with
    | false => rfl
    | true => have := h.deadHold hdd; rw [hhold] at this; simp at this
  obtain ⟨hq, hqne⟩ := h.queue hd
  unfold inflight at hq hqne
  rw [hhold] at hq hqne
  simp only [Option.toList_some, List.singleton_append] at hq hqne
  have hin := h.inLog
  have hbne : b ≠ [] := hqne b (by simp)
  have hblen : 0 < b.length := List.length_pos_iff.mpr hbne
  simp only [List.flatten_cons] at hq
  obtain ⟨hle, hb, hrest⟩ := seg_append_inj s.log s.lastApplied (frontier s) b s.queue.flatten hin
    (by unfold frontier; omega) hq
  have hlast : lastIdx b = s.lastApplied + b.length := by
    rw [hb, seg_length _ _ _ (by omega)]
    have : s.lastApplied + (s.lastApplied + b.length - s.lastApplied) = s.lastApplied + b.length := by omega
    rw [this]
    exact lastIdx_seg _ _ _ (by omega) (by omega)
  have hbe : b.isEmpty = false := by
    cases b with
    | nil => exact absurd rfl hbne
    | cons _ _ => rfl
  simp only [hbe, Bool.false_eq_true, if_false, hlast]
  have hsplit := seg_split s.log L0 s.lastApplied (s.lastApplied + b.length) h.le (by omega) (by omega)
  have hfr : frontier s = max (s.lastApplied + b.length) s.dispatched := by
    unfold frontier at hle ⊢; omega
  have hbnd : max (s.lastApplied + b.length) s.dispatched ≤ max L0 B := by
    rw [← hfr]; exact h.bnd.1
  have hst1 : s.startLa ≤ s.lastApplied + b.length := by have := h.stale.1; omega
  have hst2 : s.dispatched < s.lastApplied + b.length → s.lastApplied + b.length = s.startLa := by
    intro hlt
    unfold frontier at hle
    omega
  refine ⟨h.noEmpty, h.base0, ?_, ?_, ?_, ?_, ?_, ?_, fun _ => rfl, ⟨hbnd, h.bnd.2⟩, ⟨hst1, hst2⟩⟩
  · show L0 ≤ s.lastApplied + b.length
    have := h.le; omega
  · show max (s.lastApplied + b.length) s.dispatched ≤ s.log.length
    rw [← hfr]; exact hin
  · show s.applied ++ b.map (fun e => (e.1, decode e.2)) = _
    rw [hsplit, List.map_append, ← h.applied, ← hb]; rfl
  · show (b.map (fun e => (e.1, decode e.2))).foldl (fun m c => applyACmd m c.2) s.kv = _
    rw [hsplit, List.foldl_append, ← h.kv, ← hb, List.foldl_map]
  · show s.lastApplied + b.length = s.lastApplied + b.length
    rfl
  · intro _
    refine ⟨?_, fun x hx => hqne x (List.mem_cons_of_mem _ (by simpa [inflight] using hx))⟩
    show (([] : List Batch) ++ s.queue).flatten = seg s.log (s.lastApplied + b.length) (max (s.lastApplied + b.length) s.dispatched)
    rw [← hfr]; simpa using hrest

theorem inv_restart (L0 kv0 B s) (h : Inv L0 kv0 B s) : Inv L0 kv0 B (restart s) := by
  unfold restart
  have hin := h.inLog
  unfold frontier at hin
  refine ⟨h.noEmpty, h.base0, ?_, ?_, ?_, ?_, rfl, ?_, fun _ => rfl, ⟨?_, Nat.zero_le _, fun c hc => by cases hc⟩,
    ⟨Nat.le_refl _, fun _ => rfl⟩⟩
  rotate_right
  · show max s.smLast 0 ≤ max L0 B
    have := h.bnd.1
    rw [h.sm]; unfold frontier at this; omega
  · show L0 ≤ s.smLast
    rw [h.sm]; exact h.le
  · show max s.smLast 0 ≤ s.log.length
    rw [h.sm]; omega
  · show s.applied = (seg s.log L0 s.smLast).map dec
    rw [h.sm]; exact h.applied
  · show s.kv = _
    simp only [h.sm]; exact h.kv
  · intro _
    show (([] : List Batch) ++ []).flatten = seg s.log s.smLast (max s.smLast 0) ∧ _
    have : max s.smLast 0 = s.smLast := by omega
    rw [this, seg_self]; simp [inflight]

theorem inv_step (L0 kv0 B mb s op) (h : Inv L0 kv0 B s)
    (hop : okOp op = true)
    (hB : ∀ c, op = Op.commit c → c ≤ B) : Inv L0 kv0 B (step mb s op) := by
  cases op with
  | snap S => simp [okOp] at hop
  | append p => exact inv_append L0 kv0 B s p h (fun hp => by subst hp; simp [okOp] at hop)
  | commit c =>
    refine ⟨h.noEmpty, h.base0, h.le, h.inLog, h.applied, h.kv, h.sm, h.queue, h.deadHold, ⟨h.bnd.1, h.bnd.2.1, ?_⟩, h.stale⟩
    intro x hx
    have hx' : x ∈ s.notif ++ [c] := hx
    simp only [List.mem_append, List.mem_singleton] at hx'
    rcases hx' with hx' | hx'
    · exact h.bnd.2.2 x hx'
    · subst hx'; exact hB _ rfl
  | run1 => exact inv_run1 L0 kv0 B mb s h
  | fetch => exact inv_fetch L0 kv0 B s h
  | apply => exact inv_applyHeld L0 kv0 B s h
  | restart => exact inv_restart L0 kv0 B s h

theorem inv_exec (L0 kv0 B mb s ops) (h : Inv L0 kv0 B s) (hw : WfOps ops)
    (hB : ∀ c, Op.commit c ∈ ops → c ≤ B) : Inv L0 kv0 B (exec mb s ops) := by
  induction ops generalizing s with
  | nil => exact h
  | cons op ops ih =>
    unfold exec
    rw [List.foldl_cons]
    exact ih _ (inv_step L0 kv0 B mb s op h (hw op (by simp)) (fun c hc => hB c (by rw [hc]; simp)))
      (fun o ho => hw o (List.mem_cons_of_mem _ ho)) (fun c hc => hB c (List.mem_cons_of_mem _ hc))

/-- Highest commit index announced in a schedule. -/
def maxCommit : List Op → Nat
  | [] => 0
  | .commit c :: r => max c (maxCommit r)
  | _ :: r => maxCommit r

theorem le_maxCommit (ops : List Op) (c : Nat) (h : Op.commit c ∈ ops) : c ≤ maxCommit ops := by
  induction ops with
  | nil => cases h
  | cons op ops ih =>
    simp only [List.mem_cons] at h
    rcases h with h | h
    · subst h; simp [maxCommit]; omega
    · have := ih h
      cases op <;> simp [maxCommit] <;> omega

/-! ### The property -/

/-- **C06 (a), full strength.** For every schedule of the actors (log appends, commit notifications with
    arbitrary indexes, commit-handler iterations, worker steps, restarts), every `max_batch_size` and every
    log content, the indexes handed to the state machine are exactly `L0+1, L0+2, …` — increasing, gap-free,
    no repeats — and `last_applied` is the last of them. -/
theorem apply_seq_contiguous (mb : Nat) (s0 : St) (ops : List Op) (h0 : Init s0) (hw : WfOps ops) :
    let s := exec mb s0 ops
    appliedIdx s = List.range' (s0.lastApplied + 1) (s.lastApplied - s0.lastApplied) ∧
    s0.lastApplied ≤ s.lastApplied ∧ s.smLast = s.lastApplied := by
  intro s
  have h := inv_exec s0.lastApplied s0.kv (maxCommit ops) mb s0 ops (inv_init s0 _ h0) hw (le_maxCommit ops)
  refine ⟨?_, h.le, h.sm⟩
  have hin := h.inLog
  unfold frontier at hin
  unfold appliedIdx
  rw [h.applied, List.map_map]
  have : ((fun x : Nat × ACmd => x.1) ∘ dec) = (fun e : IEntry => e.1) := by funext e; rfl
  rw [this]
  exact seg_map_fst _ _ _ (by omega)

/-- Consequences spelled out: strictly increasing (hence no repeats) and consecutive. -/
theorem applied_strictly_increasing (mb : Nat) (s0 : St) (ops : List Op) (h0 : Init s0) (hw : WfOps ops) :
    (appliedIdx (exec mb s0 ops)).Pairwise (· < ·) := by
  rw [(apply_seq_contiguous mb s0 ops h0 hw).1]
  exact List.pairwise_lt_range'

/-- **C06 (b).** The state machine content equals applying, in log order, the commands of entries
    `L0+1 ..= last_applied` to the initial content; and exactly those entries were handed over. -/
theorem kv_eq_fold (mb : Nat) (s0 : St) (ops : List Op) (h0 : Init s0) (hw : WfOps ops) :
    let s := exec mb s0 ops
    s.kv = (seg s.log s0.lastApplied s.lastApplied).foldl (fun m e => applyACmd m (decode e.2)) s0.kv ∧
    s.applied = (seg s.log s0.lastApplied s.lastApplied).map dec := by
  intro s
  have h := inv_exec s0.lastApplied s0.kv (maxCommit ops) mb s0 ops (inv_init s0 _ h0) hw (le_maxCommit ops)
  exact ⟨h.kv, h.applied⟩

/-- **Only committed entries are applied**: `last_applied` (hence every applied index) never exceeds the
    highest commit index announced so far — commit notifications may arrive late, duplicated or out of
    order, but nothing is applied ahead of them. -/
theorem applied_only_committed (mb : Nat) (s0 : St) (ops : List Op) (h0 : Init s0) (hw : WfOps ops) :
    (exec mb s0 ops).lastApplied ≤ max s0.lastApplied (maxCommit ops) := by
  have h := inv_exec s0.lastApplied s0.kv (maxCommit ops) mb s0 ops (inv_init s0 _ h0) hw (le_maxCommit ops)
  have := h.bnd.1
  unfold frontier at this
  omega


/-! ### A stale read of `last_applied` inside `process_batch` is harmless -/

/-- `process_batch` reads `last_applied` (in `pending_range()`) and `dispatched_up_to` at two different
    instants; the SM worker may store a newer `last_applied` in between (or the read may be of any value
    the counter held since the handler was built). The outcome is the same as with an up-to-date read:
    the start of the dispatched range is decided by `dispatched_up_to`. -/
theorem stale_last_applied_read_harmless (L0 kv0 B s) (h : Inv L0 kv0 B s) (lread : Nat)
    (h1 : s.startLa ≤ lread) (h2 : lread ≤ s.lastApplied) :
    processBatchRead lread s = processBatch s := by
  unfold processBatchRead processBatch
  by_cases hd : s.workerDead = true
  · simp [hd]
  · simp only [hd, Bool.false_eq_true, if_false]
    by_cases hlt : s.dispatched < s.lastApplied
    · -- nothing applied since the handler was built: the read cannot be stale
      have := h.stale.2 hlt
      have : lread = s.lastApplied := by omega
      rw [this]
    · have hge : s.lastApplied ≤ s.dispatched := by omega
      have e1 : max (lread + 1) (s.dispatched + 1) = s.dispatched + 1 := by omega
      have e2 : max (s.lastApplied + 1) (s.dispatched + 1) = s.dispatched + 1 := by omega
      by_cases hp1 : s.pending > s.lastApplied
      · have hp2 : s.pending > lread := by omega
        simp only [hp1, hp2, if_true, e1, e2]
      · by_cases hp2 : s.pending > lread
        · have hsp : s.dispatched + 1 > s.pending := by omega
          simp only [hp1, hp2, if_true, if_false, e1, hsp]
        · simp only [hp1, hp2, if_false]

/-! ### Config entries reach membership exactly once, in order -/

/-- What one dispatching `process_batch` call does to the frontier and to the membership-call list. -/
theorem processBatch_effect (L0 kv0 B s) (h : Inv L0 kv0 B s) (hnd : s.workerDead = false)
    (hpl : s.pending > s.lastApplied) (hsp : ¬ frontier s + 1 > s.pending) :
    ∃ k, frontier s + k ≤ min s.pending s.log.length ∧
      frontier (processBatch s) = frontier s + k ∧
      (processBatch s).cfgCalls = s.cfgCalls ++
        ((seg s.log (frontier s) (min s.pending s.log.length)).foldl pbStep {}).cfg ∧
      cfgOf (seg s.log (frontier s) (frontier s + k)) =
        cfgOf (seg s.log (frontier s) (min s.pending s.log.length)) ∧
      (processBatch s).log = s.log := by
  have hstart : max (s.lastApplied + 1) (s.dispatched + 1) = frontier s + 1 := by
    unfold frontier; omega
  have hin := h.inLog
  have hEhi : frontier s ≤ min s.pending s.log.length := by omega
  have hes : entriesFrom s.log s.base (frontier s + 1) s.pending = seg s.log (frontier s) (min s.pending s.log.length) := by
    rw [h.base0, entriesFrom_eq_seg, seg_clamp]
    congr 1
    omega
  have hne : ∀ e ∈ seg s.log (frontier s) (min s.pending s.log.length), e.2 ≠ Payload.empty :=
    fun e he => h.noEmpty _ (seg_snd_mem _ _ _ e he)
  obtain ⟨hsne, rest, hpre, hrest⟩ := processEntries_prefix _ hne
  obtain ⟨hk, hflat, hrestseg⟩ := seg_append_inj s.log (frontier s) (min s.pending s.log.length) _ rest
    (Nat.min_le_right _ _) hEhi hpre.symm
  have hdisp := dispatchedAfter_seg s.log _ s.dispatched (frontier s) _ hsne hflat
    (by omega) (by unfold frontier; omega)
  refine ⟨_, hk, ?_, ?_, ?_, ?_⟩
  · unfold processBatch
    simp only [hnd, Bool.false_eq_true, if_false, hpl, if_true, hstart, hsp, hes]
    show max s.lastApplied (dispatchedAfter s.dispatched _) = _
    rw [hdisp]
    unfold frontier
    split <;> omega
  · unfold processBatch
    simp only [hnd, Bool.false_eq_true, if_false, hpl, if_true, hstart, hsp, hes]
  · have hnc := processEntries_rest_noconfig _ rest hne hpre
    rw [← hflat]
    conv => rhs; rw [hpre]
    rw [cfgOf_append, hnc, List.append_nil]
  · unfold processBatch
    simp only [hnd, Bool.false_eq_true, if_false, hpl, if_true, hstart, hsp, hes]

theorem applyHeld_frontier (L0 kv0 B s) (h : Inv L0 kv0 B s) : frontier (applyHeld s) = frontier s := by
  unfold applyHeld
  split
  case h_1 => rfl
  case h_2 b hhold =>
  have hd : s.workerDead = false := by
    cases hdd : s.workerDead with
    | false => rfl
    | true => have := h.deadHold hdd; rw [hhold] at this; simp at this
  obtain ⟨hq, hqne⟩ := h.queue hd
  unfold inflight at hq hqne
  rw [hhold] at hq hqne
  simp only [Option.toList_some, List.singleton_append] at hq hqne
  have hin := h.inLog
  have hbne : b ≠ [] := hqne b (by simp)
  have hblen : 0 < b.length := List.length_pos_iff.mpr hbne
  simp only [List.flatten_cons] at hq
  obtain ⟨hle, hb, _⟩ := seg_append_inj s.log s.lastApplied (frontier s) b s.queue.flatten hin
    (by unfold frontier; omega) hq
  have hlast : lastIdx b = s.lastApplied + b.length := by
    rw [hb, seg_length _ _ _ (by omega)]
    have : s.lastApplied + (s.lastApplied + b.length - s.lastApplied) = s.lastApplied + b.length := by omega
    rw [this]
    exact lastIdx_seg _ _ _ (by omega) (by omega)
  have hbe : b.isEmpty = false := by
    cases b with
    | nil => exact absurd rfl hbne
    | cons _ _ => rfl
  simp only [hbe, Bool.false_eq_true, if_false, hlast]
  unfold frontier at hle ⊢
  show max (s.lastApplied + b.length) s.dispatched = max s.lastApplied s.dispatched
  omega

/-- Schedules without restart. -/
def NoRestart (ops : List Op) : Prop := ∀ op ∈ ops, op ≠ Op.restart

/-- No config change of the schedule is rejected by membership. -/
def AllCfgOk (ops : List Op) : Prop := ∀ op ∈ ops, op ≠ Op.append (Payload.config false)

/-- Invariant for the membership-call list (`F0` = frontier at the start). -/
structure CfgInv (F0 : Nat) (s : St) : Prop where
  le : F0 ≤ frontier s
  calls : s.cfgCalls = cfgOf (seg s.log F0 (frontier s))

/-- State `process_batch` starts from in a `run` iteration that received `c` first. -/
def run1State (mb : Nat) (s : St) (c : Nat) (rest : List Nat) : St :=
  { s with notif := rest.drop (mb - 1), pending := (c :: rest.take (mb - 1)).foldl updatePending s.pending }

theorem run1_nil (mb : Nat) (s : St) (h : s.notif = []) : run1 mb s = s := by
  unfold run1; rw [h]

theorem run1_cons (mb : Nat) (s : St) (c : Nat) (rest : List Nat) (h : s.notif = c :: rest) :
    run1 mb s = processBatch (run1State mb s c rest) := by
  unfold run1 run1State; rw [h]

theorem cfginv_step (L0 kv0 B F0 mb s op) (h : Inv L0 kv0 B s) (hc : CfgInv F0 s)
    (h1 : op ≠ Op.restart) (h3 : ∀ S, op ≠ Op.snap S) :
    CfgInv F0 (step mb s op) := by
  have hin := h.inLog
  cases op with
  | restart => exact absurd rfl h1
  | snap S => exact absurd rfl (h3 S)
  | append p =>
    refine ⟨hc.le, ?_⟩
    · show s.cfgCalls = cfgOf (seg (s.log ++ [p]) F0 (frontier s))
      rw [seg_append_log _ _ _ _ hin]; exact hc.calls
  | commit c => exact ⟨hc.le, hc.calls⟩
  | fetch =>
    show CfgInv F0 (fetch s)
    unfold fetch
    split
    · exact hc
    · split
      · exact hc
      · split
        · exact ⟨hc.le, hc.calls⟩
        · exact ⟨hc.le, hc.calls⟩
  | apply =>
    show CfgInv F0 (applyHeld s)
    have hf := applyHeld_frontier L0 kv0 B s h
    have hlog : (applyHeld s).log = s.log := by unfold applyHeld; split <;> rfl
    have hcalls : (applyHeld s).cfgCalls = s.cfgCalls := by unfold applyHeld; split <;> rfl
    exact ⟨by rw [hf]; exact hc.le, by rw [hcalls, hlog, hf]; exact hc.calls⟩
  | run1 =>
    show CfgInv F0 (run1 mb s)
    cases hn : s.notif with
    | nil => rw [run1_nil mb s hn]; exact hc
    | cons c rest =>
      rw [run1_cons mb s c rest hn]
      generalize hs1 : run1State mb s c rest = s1
      unfold run1State at hs1
      have hInv1 : Inv L0 kv0 B s1 := by
        have := inv_run1 L0 kv0 B mb s h
        subst hs1
        have hall : ∀ x ∈ s.notif, x ≤ B := h.bnd.2.2
        rw [hn] at hall
        refine ⟨h.noEmpty, h.base0, h.le, h.inLog, h.applied, h.kv, h.sm, h.queue, h.deadHold, ⟨h.bnd.1, ?_, ?_⟩, h.stale⟩
        · show (c :: rest.take (mb - 1)).foldl updatePending s.pending ≤ B
          apply foldl_updatePending_le _ _ _ h.bnd.2.1
          intro x hx
          simp only [List.mem_cons] at hx
          rcases hx with hx | hx
          · subst hx; exact hall _ (by simp)
          · exact hall x (List.mem_cons_of_mem _ (List.mem_of_mem_take hx))
        · intro x hx
          exact hall x (List.mem_cons_of_mem _ (List.mem_of_mem_drop hx))
      have hc1 : CfgInv F0 s1 := by subst hs1; exact ⟨hc.le, hc.calls⟩
      -- case analysis on process_batch
      by_cases hdead : s1.workerDead = true
      · have : processBatch s1 = s1 := by unfold processBatch; simp [hdead]
        rw [this]; exact hc1
      · have hnd : s1.workerDead = false := by simpa using hdead
        by_cases hpl : s1.pending > s1.lastApplied
        · by_cases hsp : frontier s1 + 1 > s1.pending
          · have : processBatch s1 = s1 := by
              unfold processBatch
              have hstart : max (s1.lastApplied + 1) (s1.dispatched + 1) = frontier s1 + 1 := by
                unfold frontier; omega
              simp [hnd, hpl, hstart, hsp]
            rw [this]; exact hc1
          · obtain ⟨k, hk, hfr, hcalls, hcfgeq, hlog⟩ := processBatch_effect L0 kv0 B s1 hInv1 hnd hpl hsp
            have hcfg := pb_fold_cfg_all (seg s1.log (frontier s1) (min s1.pending s1.log.length)) {}
            refine ⟨by rw [hfr]; have := hc1.le; omega, ?_⟩
            rw [hcalls, hcfg, hc1.calls, hlog, hfr, ← hcfgeq]
            simp only [List.nil_append]
            rw [← cfgOf_append]
            congr 1
            exact (seg_split s1.log F0 (frontier s1) (frontier s1 + k) hc1.le (by omega)
              hInv1.inLog).symm
        · have : processBatch s1 = s1 := by unfold processBatch; simp [hnd, hpl]
          rw [this]; exact hc1

theorem cfg_exec (L0 kv0 B F0 mb) (ops : List Op) (s : St) (hi : Inv L0 kv0 B s) (hc : CfgInv F0 s)
    (hw : WfOps ops) (hnr : NoRestart ops) (hB : ∀ c, Op.commit c ∈ ops → c ≤ B) :
    CfgInv F0 (exec mb s ops) := by
  induction ops generalizing s with
  | nil => exact hc
  | cons op ops ih =>
    show CfgInv F0 (exec mb (step mb s op) ops)
    apply ih
    · exact inv_step L0 kv0 B mb s op hi (hw op (by simp)) (fun c hc => hB c (by rw [hc]; simp))
    · exact cfginv_step L0 kv0 B F0 mb s op hi hc (hnr op (by simp)) (fun S hS => by have := hw op (by simp); subst hS; simp [okOp] at this)
    · exact fun o ho => hw o (List.mem_cons_of_mem _ ho)
    · exact fun o ho => hnr o (List.mem_cons_of_mem _ ho)
    · exact fun c hc => hB c (List.mem_cons_of_mem _ hc)

/-- **Config entries are applied to membership exactly once and in log order** (restart-free schedules;
    membership may reject changes): the list of `Membership::apply_config_change` calls is exactly the
    Config entries among the dispatched log entries `L0+1 ..= frontier`, in order. After a rejected change
    `process_batch` returns early, but the tail it leaves unsent contains no Config entry
    (`processEntries_rest_noconfig`) and is re-fetched by the next call. -/
theorem cfg_applied_exact (mb : Nat) (s0 : St) (ops : List Op) (h0 : Init s0) (hw : WfOps ops)
    (hnr : NoRestart ops) (hc0 : s0.cfgCalls = []) :
    let s := exec mb s0 ops
    s.cfgCalls = cfgOf (seg s.log s0.lastApplied (frontier s)) := by
  intro s
  have hf0 : frontier s0 = s0.lastApplied := by have := h0.disp; unfold frontier; omega
  have hc0' : CfgInv s0.lastApplied s0 := by
    refine ⟨by rw [hf0]; exact Nat.le_refl _, ?_⟩
    rw [hc0, hf0, seg_self]; rfl
  exact (cfg_exec s0.lastApplied s0.kv (maxCommit ops) s0.lastApplied mb ops s0
    (inv_init s0 _ h0) hc0' hw hnr (le_maxCommit ops)).calls

/-! ### The monitor predicate holds on the model; snapshot install breaks it (F60) -/

theorem walk_number (i : Nat) (ps : List Payload) :
    walk i ((number (i + 1) ps).map dec) = some (i + ps.length) := by
  induction ps generalizing i with
  | nil => rfl
  | cons p ps ih =>
    have h := ih (i + 1)
    have e : i + 1 + ps.length = i + (ps.length + 1) := by omega
    rw [e] at h
    cases p <;> simp [number, dec, decode, walk, h]

/-- The decidable order predicate the check evaluates on the real code's observation holds on every
    snapshot-free schedule of the model. -/
theorem sm_inputs_in_order (mb : Nat) (s0 : St) (ops : List Op) (h0 : Init s0) (hw : WfOps ops) :
    walk s0.lastApplied (exec mb s0 ops).applied = some (exec mb s0 ops).lastApplied := by
  have h := inv_exec s0.lastApplied s0.kv (maxCommit ops) mb s0 ops (inv_init s0 _ h0) hw (le_maxCommit ops)
  have hin := h.inLog
  unfold frontier at hin
  rw [h.applied]
  unfold seg
  rw [walk_number]
  congr 1
  have := h.le
  simp [List.length_take, List.length_drop]; omega

/-- C06 order statement with snapshot installs allowed. -/
def OrderStatement : Prop :=
  ∀ (mb : Nat) (ops : List Op), (∀ op ∈ ops, op ≠ Op.append Payload.empty) →
    (walk 0 (exec mb {} ops).applied).isSome = true

/-- F60 witness: entries 1,2 are dispatched and held by the SM worker; a snapshot covering 1..4 is installed;
    the worker then applies the stale batch on top of the snapshot state. -/
def f60Schedule : List Op :=
  [.append (.cmd (.put 1 1)), .append (.cmd (.put 2 2)), .append (.cmd (.put 1 3)), .append (.cmd (.put 1 4)),
   .commit 2, .run1, .fetch, .snap 4, .apply]

theorem f60_effect :
    (exec 10 {} f60Schedule).applied.map (·.1) = [4, 1, 2] ∧
    (exec 10 {} f60Schedule).kv = [(2, 2), (1, 1)] ∧     -- key 1 is back to entry 1's value; the snapshot had 4
    (exec 10 {} f60Schedule).smLast = 2 := by decide

/-- F61 witness: entries 1..3 applied, then a snapshot with last_included = 1 is installed. -/
def f61Schedule : List Op :=
  [.append (.cmd (.put 1 1)), .append (.cmd (.put 2 2)), .append (.cmd (.put 3 3)),
   .commit 3, .run1, .fetch, .apply, .snap 1]

theorem f61_effect :
    (exec 10 {} f61Schedule).kv = [(1, 1)] ∧ (exec 10 {} f61Schedule).smLast = 1 ∧
    (exec 10 {} f61Schedule).lastApplied = 3 ∧ (exec 10 {} f61Schedule).dispatched = 3 ∧
    walk 0 (exec 10 {} f61Schedule).applied = none := by decide

/-- **As coded the order statement is false once snapshot installs are schedulable** (F60): installing a
    snapshot does not invalidate batches already handed to the SM worker. -/
theorem order_statement_false : ¬ OrderStatement := by
  intro h
  have := h 10 f60Schedule (by decide)
  revert this
  decide

/-! ### Non-vacuity and the F10 regression witness -/

/-- Seven Noop entries (each Noop flushes its own batch). -/
def w7 : St := { log := List.replicate 7 Payload.noop }

example : Init w7 := ⟨by decide, rfl, by decide, rfl, rfl, rfl, rfl, by decide, rfl, rfl, rfl⟩

/-- The F10 schedule: commit=5 handled, then commit=7 handled, before the worker applies anything;
    afterwards the worker drains everything. -/
def f10Schedule : List Op :=
  [.commit 5, .run1, .commit 7, .run1] ++ (List.replicate 12 [Op.fetch, Op.apply]).flatten

example : WfOps f10Schedule := by decide

/-- On the current code (with `dispatched_up_to`) the witness schedule applies 1..7 once each. -/
theorem f10_fixed : appliedIdx (exec 10 w7 f10Schedule) = [1, 2, 3, 4, 5, 6, 7] := by decide

/-- `process_batch` as it was before fix F10: the range comes from `pending_range()` alone. -/
def processBatchOld (s : St) : St :=
  if s.workerDead then s else
  if s.pending > s.lastApplied then
    let a := (entriesFrom s.log s.base (s.lastApplied + 1) s.pending).foldl pbStep {}
    { s with queue := s.queue ++ pbFinish a, cfgCalls := s.cfgCalls ++ a.cfg }
  else s

def stepOld (mb : Nat) (s : St) : Op → St
  | .run1 =>
    match s.notif with
    | [] => s
    | c :: rest =>
      processBatchOld { s with notif := rest.drop (mb - 1),
                               pending := (c :: rest.take (mb - 1)).foldl updatePending s.pending }
  | op => step mb s op

/-- **F10 regression (fixed by commit 2c42b49).** The old `process_batch` on the witness schedule hands
    1..5 to the state machine twice and `last_applied` goes 5 → 1: the contiguity statement is false for it. -/
theorem f10_regression :
    appliedIdx (f10Schedule.foldl (stepOld 10) w7) = [1, 2, 3, 4, 5, 1, 2, 3, 4, 5, 6, 7] := by decide

theorem f10_old_violates :
    ¬ (appliedIdx (f10Schedule.foldl (stepOld 10) w7)).Pairwise (· < ·) := by
  rw [f10_regression]; decide

end DEngine.C06
