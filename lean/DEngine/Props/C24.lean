import DEngine.Model.Watch
import DEngine.Lemmas.Watch
/-!
# C24 — Watch streams deliver committed changes in order, with no silent gaps

Model: `DEngine.Watch` (apply → broadcast ring → `WatchDispatcher::run` iterations → per-watcher bounded
channels; registration, consumer reads, handle/receiver drops, heartbeat ticks as schedulable ops).

* `DeliveredStatement` — the property at full strength (every schedule, every watcher).
* `delivered_statement_false` — **as coded it is false** (F22): when the broadcast ring overflows the
  dispatcher only logs `Lagged(n)`; the watcher silently misses events. Kernel-checked witness.
* `delivered_is_subsequence_prefix_partial` — it holds for every schedule in which the dispatcher never
  observes `Lagged` (`lagged = 0`): what a watcher was sent is exactly the matching events dispatched since
  its registration, cut off only by a final CANCELED (buffer overflow) or by the consumer leaving.
* `ProgressStatement` / `progress_statement_false` (F23) / `progress_rev_constant` / `progress_partial`.
* `mem_prefixSegments` (Lemmas): prefix lookups = non-empty '/'-terminated prefixes of the event key;
  `failed_cas_no_event`, `sent_revisions_increasing`.
-/
namespace DEngine.C24
open DEngine.Watch

def IsDataP (e : PEv) : Prop := e.typ = EvType.put ∨ e.typ = EvType.delete

def dataOf (l : List WEv) : List WEv := l.filter isData

/-- Events the dispatcher has taken from the ring since the watcher registered (when it never lagged). -/
def seen (sent : List PEv) (cursor : Nat) (w : Watcher) : List PEv := (sent.take cursor).drop w.regPos

def expW (w : Watcher) (evs : List PEv) : List WEv := expected w.isPrefix w.prevKv w.key evs

/-- Per-watcher invariant. -/
structure WInv (sent : List PEv) (cursor bufSize : Nat) (w : Watcher) : Prop where
  valid : w.isPrefix = true → validPrefix w.key = true
  pos : w.regPos ≤ cursor
  pre : dataOf w.hist <+: expW w (seen sent cursor w)
  live : w.registered = true → dataOf w.hist = expW w (seen sent cursor w) ∧ ∀ e ∈ w.hist, e.typ ≠ EvType.canceled
  dead : w.registered = false → w.closed = true ∨ (w.hist.getLast?).map (·.typ) = some EvType.canceled
  cancelLast : ∀ e ∈ w.hist.dropLast, e.typ ≠ EvType.canceled
  bound : w.registered = true → w.closed = false → w.chan.length ≤ bufSize
  got : w.got <+: w.hist
  chan : w.closed = false → w.got ++ w.chan = w.hist

/-! ### Small facts -/

theorem isData_toW (pk : Bool) (e : PEv) : isData (toW pk e) = (e.typ == EvType.put || e.typ == EvType.delete) := rfl

theorem isData_toW_of (pk : Bool) (e : PEv) (h : IsDataP e) : isData (toW pk e) = true := by
  rw [isData_toW]; rcases h with h | h <;> simp [h]

theorem dataOf_append_single (l : List WEv) (x : WEv) :
    dataOf (l ++ [x]) = dataOf l ++ (if isData x then [x] else []) := by
  unfold dataOf
  rw [List.filter_append]
  by_cases h : isData x <;> simp [h]

theorem expW_append_single (w : Watcher) (l : List PEv) (e : PEv) :
    expW w (l ++ [e]) = expW w l ++ (if covers w.isPrefix w.key e.key then [toW w.prevKv e] else []) := by
  unfold expW expected
  rw [List.filter_append, List.map_append]
  by_cases h : covers w.isPrefix w.key e.key <;> simp [h]

theorem seen_succ (sent : List PEv) (cursor : Nat) (w : Watcher) (e : PEv)
    (he : sent[cursor]? = some e) (hp : w.regPos ≤ cursor) :
    seen sent (cursor + 1) w = seen sent cursor w ++ [e] := by
  unfold seen
  have hlt : cursor < sent.length := by
    cases h : sent[cursor]? with
    | none => rw [h] at he; cases he
    | some _ => exact (List.getElem?_eq_some_iff.mp h).1
  have ht : sent.take (cursor + 1) = sent.take cursor ++ [e] := by
    rw [List.take_add_one, he]; rfl
  rw [ht, List.drop_append_of_le_length]
  simp [List.length_take]; omega

theorem seen_append (sent extra : List PEv) (cursor : Nat) (w : Watcher) (h : cursor ≤ sent.length) :
    seen (sent ++ extra) cursor w = seen sent cursor w := by
  unfold seen
  rw [List.take_append_of_le_length h]

/-- The four outcomes of visiting a watcher. -/
theorem hit_cases (b : Nat) (e : PEv) (w : Watcher) :
    (w.closed = true ∧ hit b e w = { w with registered := false }) ∨
    (w.closed = false ∧ b + 1 - w.chan.length = 1 ∧
      hit b e w = { w with chan := w.chan ++ [cancelEv e.key], hist := w.hist ++ [cancelEv e.key],
                           registered := false }) ∨
    (w.closed = false ∧ b + 1 - w.chan.length = 0 ∧ hit b e w = { w with registered := false }) ∨
    (w.closed = false ∧ 1 < b + 1 - w.chan.length ∧
      hit b e w = { w with chan := w.chan ++ [toW w.prevKv e], hist := w.hist ++ [toW w.prevKv e] }) := by
  unfold hit deliver
  cases hc : w.closed with
  | true => left; simp [hc]
  | false =>
    right
    by_cases h1 : b + 1 - w.chan.length ≤ 1
    · by_cases h2 : b + 1 - w.chan.length = 1
      · left; simp [h2, hc]
      · right; left
        have : b + 1 - w.chan.length = 0 := by omega
        simp [this, hc]
    · right; right
      simp [h1, hc]; omega

/-! ### Per-watcher preservation -/

/-- The dispatcher takes one more (data) event from the ring; the watcher is visited iff registered and covering. -/
theorem winv_dispatch (sent : List PEv) (cursor b : Nat) (w : Watcher) (e : PEv)
    (h : WInv sent cursor b w) (he : sent[cursor]? = some e) (hd : IsDataP e) :
    WInv sent (cursor + 1) b (if w.registered && covers w.isPrefix w.key e.key then hit b e w else w) := by
  have hseen := seen_succ sent cursor w e he h.pos
  have hexp : expW w (seen sent (cursor + 1) w) =
      expW w (seen sent cursor w) ++ (if covers w.isPrefix w.key e.key then [toW w.prevKv e] else []) := by
    rw [hseen, expW_append_single]
  cases hreg : w.registered with
  | false =>
    -- not visited; what it was sent stays a prefix of the longer expected stream
    simp only [Bool.false_and, Bool.false_eq_true, if_false]
    refine ⟨h.valid, by have := h.pos; omega, ?_, (fun hr => by rw [hreg] at hr; cases hr), h.dead, h.cancelLast,
      (fun hr => by rw [hreg] at hr; cases hr), h.got, h.chan⟩
    rw [hexp]; exact List.IsPrefix.trans h.pre (List.prefix_append _ _)
  | true =>
    obtain ⟨hlive, hnc⟩ := h.live hreg
    cases hcov : covers w.isPrefix w.key e.key with
    | false =>
      simp only [Bool.and_false, Bool.false_eq_true, if_false]
      have hexp' : expW w (seen sent (cursor + 1) w) = expW w (seen sent cursor w) := by
        rw [hexp, hcov]; simp
      refine ⟨h.valid, by have := h.pos; omega, by rw [hexp']; exact h.pre,
        fun _ => ⟨by rw [hexp']; exact hlive, hnc⟩, h.dead, h.cancelLast, h.bound, h.got, h.chan⟩
    | true =>
      simp only [Bool.and_self, if_true]
      have hexp' : expW w (seen sent (cursor + 1) w) = expW w (seen sent cursor w) ++ [toW w.prevKv e] := by
        rw [hexp, hcov]; simp
      have hpos : w.regPos ≤ cursor + 1 := by have := h.pos; omega
      rcases hit_cases b e w with ⟨hc, hh⟩ | ⟨hc, hav, hh⟩ | ⟨hc, hav, hh⟩ | ⟨hc, hav, hh⟩
      · -- receiver closed: silent cleanup
        rw [hh]
        refine ⟨h.valid, hpos, ?_, (fun hr => nomatch hr), fun _ => Or.inl hc, h.cancelLast,
          (fun hr => nomatch hr), h.got, h.chan⟩
        show dataOf w.hist <+: expW w (seen sent (cursor + 1) w)
        rw [hexp']; exact List.IsPrefix.trans h.pre (List.prefix_append _ _)
      · -- buffer full: CANCELED into the reserved slot, unregistered
        rw [hh]
        refine ⟨h.valid, hpos, ?_, (fun hr => nomatch hr), fun _ => Or.inr (by simp [cancelEv]), ?_,
          (fun hr => nomatch hr), ?_, ?_⟩
        · show dataOf (w.hist ++ [cancelEv e.key]) <+: expW w (seen sent (cursor + 1) w)
          rw [dataOf_append_single, hexp']
          have : isData (cancelEv e.key) = false := rfl
          simp only [this, Bool.false_eq_true, if_false, List.append_nil]
          exact List.IsPrefix.trans h.pre (List.prefix_append _ _)
        · show ∀ x ∈ (w.hist ++ [cancelEv e.key]).dropLast, x.typ ≠ EvType.canceled
          rw [List.dropLast_concat]; exact hnc
        · show w.got <+: w.hist ++ [cancelEv e.key]
          exact List.IsPrefix.trans h.got (List.prefix_append _ _)
        · intro _
          show w.got ++ (w.chan ++ [cancelEv e.key]) = w.hist ++ [cancelEv e.key]
          rw [← List.append_assoc, h.chan hc]
      · -- capacity 0 cannot happen for a registered, open watcher
        have := h.bound hreg hc
        omega
      · -- normal delivery
        rw [hh]
        refine ⟨h.valid, hpos, ?_, ?_, (fun hr => by rw [hreg] at hr; cases hr), ?_, ?_, ?_, ?_⟩
        · show dataOf (w.hist ++ [toW w.prevKv e]) <+: expW w (seen sent (cursor + 1) w)
          rw [dataOf_append_single, isData_toW_of _ _ hd, hexp', hlive]
          exact List.prefix_rfl
        · intro _
          refine ⟨?_, ?_⟩
          · show dataOf (w.hist ++ [toW w.prevKv e]) = expW w (seen sent (cursor + 1) w)
            rw [dataOf_append_single, isData_toW_of _ _ hd, hexp', hlive]; rfl
          · intro x hx
            simp only [List.mem_append, List.mem_singleton] at hx
            rcases hx with hx | hx
            · exact hnc x hx
            · subst hx
              show e.typ ≠ EvType.canceled
              rcases hd with hd | hd <;> rw [hd] <;> decide
        · show ∀ x ∈ (w.hist ++ [toW w.prevKv e]).dropLast, x.typ ≠ EvType.canceled
          rw [List.dropLast_concat]; exact hnc
        · intro _ _
          show (w.chan ++ [toW w.prevKv e]).length ≤ b
          simp; omega
        · show w.got <+: w.hist ++ [toW w.prevKv e]
          exact List.IsPrefix.trans h.got (List.prefix_append _ _)
        · intro _
          show w.got ++ (w.chan ++ [toW w.prevKv e]) = w.hist ++ [toW w.prevKv e]
          rw [← List.append_assoc, h.chan hc]

/-- Visiting a watcher with a non-data event (Progress) keeps the invariant (same ring position). -/
theorem winv_pass_nondata (sent : List PEv) (cursor b : Nat) (ip : Bool) (k : Key) (w : Watcher) (e : PEv)
    (h : WInv sent cursor b w) (hnd : e.typ = EvType.progress) :
    WInv sent cursor b (pass b ip k e w) := by
  unfold pass
  split
  case isFalse => exact h
  case isTrue hc =>
  have hreg : w.registered = true := by
    simp only [Bool.and_eq_true] at hc; exact hc.1.1
  obtain ⟨hlive, hnc⟩ := h.live hreg
  have hnd' : isData (toW w.prevKv e) = false := by rw [isData_toW, hnd]; rfl
  rcases hit_cases b e w with ⟨hc, hh⟩ | ⟨hc, hav, hh⟩ | ⟨hc, hav, hh⟩ | ⟨hc, hav, hh⟩
  · rw [hh]
    exact ⟨h.valid, h.pos, h.pre, (fun hr => nomatch hr), fun _ => Or.inl hc, h.cancelLast,
      (fun hr => nomatch hr), h.got, h.chan⟩
  · rw [hh]
    refine ⟨h.valid, h.pos, ?_, (fun hr => nomatch hr), fun _ => Or.inr (by simp [cancelEv]), ?_,
      (fun hr => nomatch hr), ?_, ?_⟩
    · show dataOf (w.hist ++ [cancelEv e.key]) <+: _
      rw [dataOf_append_single]
      have : isData (cancelEv e.key) = false := rfl
      simp only [this, Bool.false_eq_true, if_false, List.append_nil]
      exact h.pre
    · show ∀ x ∈ (w.hist ++ [cancelEv e.key]).dropLast, x.typ ≠ EvType.canceled
      rw [List.dropLast_concat]; exact hnc
    · show w.got <+: w.hist ++ [cancelEv e.key]
      exact List.IsPrefix.trans h.got (List.prefix_append _ _)
    · intro _
      show w.got ++ (w.chan ++ [cancelEv e.key]) = w.hist ++ [cancelEv e.key]
      rw [← List.append_assoc, h.chan hc]
  · have := h.bound hreg hc
    omega
  · rw [hh]
    refine ⟨h.valid, h.pos, ?_, ?_, (fun hr => by rw [hreg] at hr; cases hr), ?_, ?_, ?_, ?_⟩
    · show dataOf (w.hist ++ [toW w.prevKv e]) <+: _
      rw [dataOf_append_single, hnd']
      simp only [Bool.false_eq_true, if_false, List.append_nil]
      exact h.pre
    · intro _
      refine ⟨?_, ?_⟩
      · show dataOf (w.hist ++ [toW w.prevKv e]) = _
        rw [dataOf_append_single, hnd']
        simp only [Bool.false_eq_true, if_false, List.append_nil]
        exact hlive
      · intro x hx
        simp only [List.mem_append, List.mem_singleton] at hx
        rcases hx with hx | hx
        · exact hnc x hx
        · subst hx
          show e.typ ≠ EvType.canceled
          rw [hnd]; decide
    · show ∀ x ∈ (w.hist ++ [toW w.prevKv e]).dropLast, x.typ ≠ EvType.canceled
      rw [List.dropLast_concat]; exact hnc
    · intro _ _
      show (w.chan ++ [toW w.prevKv e]).length ≤ b
      simp; omega
    · show w.got <+: w.hist ++ [toW w.prevKv e]
      exact List.IsPrefix.trans h.got (List.prefix_append _ _)
    · intro _
      show w.got ++ (w.chan ++ [toW w.prevKv e]) = w.hist ++ [toW w.prevKv e]
      rw [← List.append_assoc, h.chan hc]


/-! ### State invariant -/

structure SInv (s : St) : Prop where
  cur : s.cursor ≤ s.sent.length
  data : ∀ e ∈ s.sent, IsDataP e
  ws : ∀ w ∈ s.watchers, WInv s.sent s.cursor s.bufSize w
  unreg : ∀ id ∈ s.unregQ, ∀ w ∈ s.watchers, w.id = id → w.closed = true
  fresh : ∀ id ∈ s.unregQ, id < s.nextId
  ids : ∀ w ∈ s.watchers, w.id < s.nextId

/-- Bookkeeping facts survive any per-watcher map that keeps ids and never re-opens a receiver. -/
theorem map_keeps (ws : List Watcher) (f : Watcher → Watcher) (Q : List Nat) (n : Nat)
    (hid : ∀ w, (f w).id = w.id) (hcl : ∀ w, w.closed = true → (f w).closed = true)
    (h1 : ∀ id ∈ Q, ∀ w ∈ ws, w.id = id → w.closed = true) (h2 : ∀ w ∈ ws, w.id < n) :
    (∀ id ∈ Q, ∀ w ∈ ws.map f, w.id = id → w.closed = true) ∧ (∀ w ∈ ws.map f, w.id < n) := by
  refine ⟨?_, ?_⟩
  · intro id hq w hw hwid
    simp only [List.mem_map] at hw
    obtain ⟨w0, hw0, rfl⟩ := hw
    exact hcl w0 (h1 id hq w0 hw0 (by rw [← hid w0]; exact hwid))
  · intro w hw
    simp only [List.mem_map] at hw
    obtain ⟨w0, hw0, rfl⟩ := hw
    rw [hid w0]; exact h2 w0 hw0

theorem winv_sent_append (sent extra : List PEv) (c b : Nat) (w : Watcher) (h : WInv sent c b w)
    (hc : c ≤ sent.length) : WInv (sent ++ extra) c b w := by
  refine ⟨h.valid, h.pos, ?_, ?_, h.dead, h.cancelLast, h.bound, h.got, h.chan⟩
  · rw [seen_append _ _ _ _ hc]; exact h.pre
  · rw [seen_append _ _ _ _ hc]; exact h.live

theorem eventsOf_go_data (first : Nat) (oks : List Bool) (prevs : Option (List (Option Nat)))
    (chunk : List Cmd) (i : Nat) : ∀ e ∈ eventsOf.go first oks prevs i chunk, IsDataP e := by
  induction chunk generalizing i with
  | nil => intro e he; simp [eventsOf.go] at he
  | cons c rest ih =>
    intro e he
    unfold eventsOf.go at he
    cases c with
    | put k v =>
      simp only [List.mem_cons] at he
      rcases he with he | he
      · rw [he]; exact Or.inl rfl
      · exact ih _ e he
    | del k =>
      simp only [List.mem_cons] at he
      rcases he with he | he
      · rw [he]; exact Or.inr rfl
      · exact ih _ e he
    | cas k ex v =>
      simp only at he
      split at he
      · rename_i x hx
        simp only [List.mem_cons] at he
        rcases he with he | he
        · rw [he]
          split at hx
          · cases hx; exact Or.inl rfl
          · cases hx
        · exact ih _ e he
      · exact ih _ e he
    | noop => exact ih _ e he

theorem sinv_apply (s : St) (c : List Cmd) (h : SInv s) : SInv (applyChunk s c) := by
  unfold applyChunk
  refine ⟨?_, ?_, ?_, h.unreg, h.fresh, h.ids⟩
  · show s.cursor ≤ (s.sent ++ _).length
    have := h.cur; simp; omega
  · intro e he
    simp only [List.mem_append] at he
    rcases he with he | he
    · exact h.data e he
    · exact eventsOf_go_data _ _ _ _ _ e he
  · intro w hw
    exact winv_sent_append _ _ _ _ _ (h.ws w hw) h.cur

theorem sinv_register (s : St) (k : Key) (ip pk : Bool) (h : SInv s) : SInv (register s k ip pk) := by
  unfold register
  split
  · exact ⟨h.cur, h.data, h.ws, h.unreg, h.fresh, h.ids⟩
  · rename_i hv
    split
    · exact ⟨h.cur, h.data, h.ws, h.unreg, h.fresh, h.ids⟩
    · refine ⟨h.cur, h.data, ?_, ?_, fun id hid => Nat.lt_succ_of_lt (h.fresh id hid), ?_⟩
      · intro w hw
        simp only [List.mem_append, List.mem_singleton] at hw
        rcases hw with hw | hw
        · exact h.ws w hw
        · subst hw
          have hseen : seen s.sent s.cursor { id := s.nextId, key := k, isPrefix := ip, prevKv := pk, regPos := s.cursor } = [] := by
            unfold seen
            have := h.cur
            simp [List.length_take] <;> omega
          refine ⟨?_, Nat.le_refl _, ?_, ?_, (fun hr => nomatch hr), ?_, ?_, List.prefix_rfl, fun _ => rfl⟩
          · intro hip
            show validPrefix k = true
            have hip' : ip = true := hip
            subst hip'
            simpa using hv
          · rw [hseen]; exact List.prefix_rfl
          · intro _; rw [hseen]; exact ⟨rfl, fun e he => by simp at he⟩
          · intro e he; simp at he
          · intro _ _; show ([] : List WEv).length ≤ s.bufSize; simp
      · intro id hid w hw hwid
        simp only [List.mem_append, List.mem_singleton] at hw
        rcases hw with hw | hw
        · exact h.unreg id hid w hw hwid
        · subst hw
          have := h.fresh id hid
          have hwid' : s.nextId = id := hwid
          omega
      · intro w hw
        simp only [List.mem_append, List.mem_singleton] at hw
        rcases hw with hw | hw
        · exact Nat.lt_succ_of_lt (h.ids w hw)
        · subst hw; exact Nat.lt_succ_self _

theorem winv_unregister (sent : List PEv) (c b : Nat) (w : Watcher) (h : WInv sent c b w)
    (hc : w.closed = true) : WInv sent c b { w with registered := false } :=
  ⟨h.valid, h.pos, h.pre, (fun hr => nomatch hr), fun _ => Or.inl hc, h.cancelLast,
    (fun hr => nomatch hr), h.got, h.chan⟩

theorem sinv_unregisterId (s : St) (id : Nat) (q : List Nat) (h : SInv s) (hq : s.unregQ = id :: q) :
    SInv (unregisterId { s with unregQ := q } id) := by
  have hsub : ∀ x ∈ q, x ∈ s.unregQ := fun x hx => by rw [hq]; exact List.mem_cons_of_mem _ hx
  unfold unregisterId
  split
  · have hk := map_keeps s.watchers (fun w => if w.id == id then { w with registered := false } else w) q s.nextId
      (fun w => by split <;> rfl) (fun w hc => by split <;> exact hc)
      (fun x hx => h.unreg x (hsub x hx)) h.ids
    refine ⟨h.cur, h.data, ?_, hk.1, fun x hx => h.fresh x (hsub x hx), hk.2⟩
    intro w hw
    simp only [List.mem_map] at hw
    obtain ⟨w0, hw0, rfl⟩ := hw
    split
    · rename_i hid
      have hcl := h.unreg id (by rw [hq]; simp) w0 hw0 (by simpa using hid)
      exact winv_unregister _ _ _ _ (h.ws w0 hw0) hcl
    · exact h.ws w0 hw0
  · exact ⟨h.cur, h.data, h.ws, fun x hx => h.unreg x (hsub x hx), fun x hx => h.fresh x (hsub x hx), h.ids⟩

theorem sinv_dispatchToMap_progress (s : St) (ip : Bool) (k : Key) (e : PEv) (h : SInv s)
    (he : e.typ = EvType.progress) : SInv (dispatchToMap s ip k e) := by
  unfold dispatchToMap
  have hk := map_keeps s.watchers (pass s.bufSize ip k e) s.unregQ s.nextId
    (fun w => (pass_fields _ _ _ _ w).1)
    (fun w hc => by rw [(pass_fields _ _ _ _ w).2.2.2.2.2.1]; exact hc) h.unreg h.ids
  refine ⟨h.cur, h.data, ?_, hk.1, h.fresh, hk.2⟩
  intro w hw
  simp only [List.mem_map] at hw
  obtain ⟨w0, hw0, rfl⟩ := hw
  exact winv_pass_nondata _ _ _ _ _ _ _ (h.ws w0 hw0) he

theorem sinv_foldl_progress (ip : Bool) (l : List Key) (s : St) (e : PEv) (h : SInv s)
    (he : e.typ = EvType.progress) : SInv (l.foldl (fun s k => dispatchToMap s ip k e) s) := by
  induction l generalizing s with
  | nil => exact h
  | cons k l ih => exact ih _ (sinv_dispatchToMap_progress s ip k e h he)

theorem sinv_broadcastProgress (s : St) (h : SInv s) : SInv (broadcastProgress s) := by
  unfold broadcastProgress
  exact sinv_foldl_progress true _ _ _ (sinv_foldl_progress false _ _ _ h rfl) rfl

theorem seen_mono (sent : List PEv) (c c' : Nat) (w : Watcher) (h1 : c ≤ c') (h2 : w.regPos ≤ c) :
    seen sent c w <+: seen sent c' w := by
  unfold seen
  have e : sent.take c = (sent.take c').take c := by rw [List.take_take]; congr 1; omega
  rw [e]
  obtain ⟨t, ht⟩ := List.take_prefix c (sent.take c')
  by_cases hl : w.regPos ≤ ((sent.take c').take c).length
  · refine ⟨t, ?_⟩
    rw [← List.drop_append_of_le_length hl, ht]
  · have : ((sent.take c').take c).drop w.regPos = [] := by
      apply List.drop_eq_nil_of_le; omega
    rw [this]; exact List.nil_prefix

theorem expW_mono (w : Watcher) (a b : List PEv) (h : a <+: b) : expW w a <+: expW w b := by
  unfold expW expected
  exact (h.filter _).map _

/-- The dispatcher lagged: cursor jumps to `c'`, the watcher is cancelled (`cancelOne`). -/
theorem winv_cancel (sent : List PEv) (c c' b : Nat) (w : Watcher) (h : WInv sent c b w) (hc : c ≤ c') :
    WInv sent c' b (cancelOne w) := by
  have hpre : dataOf w.hist <+: expW w (seen sent c' w) :=
    h.pre.trans (expW_mono w _ _ (seen_mono sent c c' w hc h.pos))
  have hpos : w.regPos ≤ c' := by have := h.pos; omega
  unfold cancelOne
  cases hreg : w.registered with
  | false =>
    simp only [Bool.false_eq_true, if_false]
    exact ⟨h.valid, hpos, hpre, (fun hr => by rw [hreg] at hr; cases hr), h.dead, h.cancelLast,
      (fun hr => by rw [hreg] at hr; cases hr), h.got, h.chan⟩
  | true =>
    obtain ⟨_, hnc⟩ := h.live hreg
    simp only [if_true]
    cases hcl : w.closed with
    | true =>
      simp only [if_true]
      exact ⟨h.valid, hpos, hpre, (fun hr => nomatch hr), fun _ => Or.inl (by first | exact hcl | rfl), h.cancelLast,
        (fun hr => nomatch hr), h.got, (fun hc => nomatch hc)⟩
    | false =>
      simp only [Bool.false_eq_true, if_false]
      refine ⟨h.valid, hpos, ?_, (fun hr => nomatch hr), fun _ => Or.inr (by simp [cancelEv]), ?_,
        (fun hr => nomatch hr), ?_, ?_⟩
      · show dataOf (w.hist ++ [cancelEv w.key]) <+: _
        rw [dataOf_append_single]
        have : isData (cancelEv w.key) = false := rfl
        simp only [this, Bool.false_eq_true, if_false, List.append_nil]
        exact hpre
      · show ∀ x ∈ (w.hist ++ [cancelEv w.key]).dropLast, x.typ ≠ EvType.canceled
        rw [List.dropLast_concat]; exact hnc
      · show w.got <+: w.hist ++ [cancelEv w.key]
        exact List.IsPrefix.trans h.got (List.prefix_append _ _)
      · intro _
        show w.got ++ (w.chan ++ [cancelEv w.key]) = w.hist ++ [cancelEv w.key]
        rw [← List.append_assoc, h.chan hcl]

theorem cancelOne_id_closed (w : Watcher) : (cancelOne w).id = w.id ∧ (cancelOne w).closed = w.closed := by
  unfold cancelOne
  split
  · split <;> exact ⟨rfl, rfl⟩
  · exact ⟨rfl, rfl⟩

theorem sinv_cancelAll (s : St) (c' : Nat) (n : Nat) (h : SInv s) (h1 : s.cursor ≤ c') (h2 : c' ≤ s.sent.length) :
    SInv (cancelAll { s with cursor := c', lagged := n }) := by
  have hk := map_keeps s.watchers cancelOne s.unregQ s.nextId
    (fun w => (cancelOne_id_closed w).1)
    (fun w hc => by rw [(cancelOne_id_closed w).2]; exact hc) h.unreg h.ids
  refine ⟨h2, h.data, ?_, hk.1, h.fresh, hk.2⟩
  intro w hw
  simp only [cancelAll, List.mem_map] at hw
  obtain ⟨w0, hw0, rfl⟩ := hw
  exact winv_cancel _ _ _ _ _ (h.ws w0 hw0) h1

theorem sinv_dispatchEvent (s : St) (e : PEv) (h : SInv s) (he : s.sent[s.cursor]? = some e) :
    SInv (dispatchEvent { s with cursor := s.cursor + 1, progressRev := max s.progressRev e.rev } e) := by
  obtain ⟨hw, hb, hs, hc, hl, hu, hn⟩ :=
    dispatchEvent_eq { s with cursor := s.cursor + 1, progressRev := max s.progressRev e.rev } e
  have hlt : s.cursor < s.sent.length := (List.getElem?_eq_some_iff.mp he).1
  have hd : IsDataP e := h.data e (List.mem_of_getElem? he)
  have hk := map_keeps s.watchers (perW s.bufSize e) s.unregQ s.nextId
    (fun w => (perW_id_closed _ _ w).1)
    (fun w hc => by rw [(perW_id_closed _ _ w).2]; exact hc) h.unreg h.ids
  refine ⟨?_, ?_, ?_, ?_, ?_, ?_⟩
  · rw [hc, hs]; show s.cursor + 1 ≤ s.sent.length; omega
  · rw [hs]; exact h.data
  · rw [hw, hb, hs, hc]
    intro w hw'
    simp only [List.mem_map] at hw'
    obtain ⟨w0, hw0, rfl⟩ := hw'
    have hi := h.ws w0 hw0
    rw [perW_eq _ _ _ hi.valid]
    exact winv_dispatch _ _ _ _ _ hi he hd
  · rw [hw, hu]; exact hk.1
  · rw [hu, hn]; exact h.fresh
  · rw [hw, hn]; exact hk.2

theorem sinv_dstep (s s' : St) (h : SInv s) (hs : dstep s = some s') : SInv s' := by
  unfold dstep at hs
  split at hs
  · rename_i id q hq
    cases hs
    exact sinv_unregisterId s id q h hq
  · split at hs
    · split at hs
      · -- Lagged: every watcher is cancelled, the receiver continues at the oldest retained value
        cases hs
        rename_i hlt hgt
        exact sinv_cancelAll s _ _ h (by omega) (by omega)
      · split at hs
        · rename_i e he
          cases hs
          exact sinv_dispatchEvent s e h he
        · cases hs
    · split at hs
      · cases hs
        exact sinv_broadcastProgress _ ⟨h.cur, h.data, h.ws, h.unreg, h.fresh, h.ids⟩
      · cases hs

theorem winv_take (sent : List PEv) (c b n : Nat) (w : Watcher) (h : WInv sent c b w) (hc : w.closed = false) :
    WInv sent c b { w with got := w.got ++ w.chan.take n, chan := w.chan.drop n } := by
  have hh := h.chan hc
  refine ⟨h.valid, h.pos, h.pre, h.live, h.dead, h.cancelLast, ?_, ?_, ?_⟩
  · intro hr hcl
    have := h.bound hr hcl
    show (w.chan.drop n).length ≤ b
    simp; omega
  · show w.got ++ w.chan.take n <+: w.hist
    exact ⟨w.chan.drop n, by rw [List.append_assoc, List.take_append_drop]; exact hh⟩
  · intro _
    show w.got ++ w.chan.take n ++ w.chan.drop n = w.hist
    rw [List.append_assoc, List.take_append_drop]; exact hh

theorem winv_close (sent : List PEv) (c b : Nat) (w : Watcher) (h : WInv sent c b w) :
    WInv sent c b { w with closed := true, chan := [] } :=
  ⟨h.valid, h.pos, h.pre, h.live, fun _ => Or.inl rfl, h.cancelLast, (fun _ hc => nomatch hc), h.got,
    (fun hc => nomatch hc)⟩

theorem sinv_step (s : St) (op : Op) (h : SInv s) : SInv (step s op) := by
  cases op with
  | apply c => exact sinv_apply s c h
  | reg k p v => exact sinv_register s k p v h
  | dstep =>
    show SInv ((dstep s).getD s)
    cases hd : dstep s with
    | none => exact h
    | some s' => exact sinv_dstep s s' h hd
  | tick => exact ⟨h.cur, h.data, h.ws, h.unreg, h.fresh, h.ids⟩
  | take i n =>
    have hk := map_keeps s.watchers
      (fun w => if w.id == i && !w.closed then { w with got := w.got ++ w.chan.take n, chan := w.chan.drop n } else w)
      s.unregQ s.nextId (fun w => by split <;> rfl) (fun w hc => by split <;> exact hc) h.unreg h.ids
    refine ⟨h.cur, h.data, ?_, hk.1, h.fresh, hk.2⟩
    intro w hw
    simp only [step, Watch.take, List.mem_map] at hw
    obtain ⟨w0, hw0, rfl⟩ := hw
    split
    · rename_i hc
      simp only [Bool.and_eq_true, Bool.not_eq_true'] at hc
      exact winv_take _ _ _ _ _ (h.ws w0 hw0) hc.2
    · exact h.ws w0 hw0
  | dropHandle i =>
    show SInv (dropHandle s i)
    unfold dropHandle
    split
    · rename_i hany
      have hk := map_keeps s.watchers
        (fun w => if w.id == i then { w with closed := true, chan := [] } else w)
        s.unregQ s.nextId (fun w => by split <;> rfl) (fun w hc => by split <;> first | rfl | exact hc) h.unreg h.ids
      refine ⟨h.cur, h.data, ?_, ?_, ?_, hk.2⟩
      · intro w hw
        simp only [List.mem_map] at hw
        obtain ⟨w0, hw0, rfl⟩ := hw
        split
        · exact winv_close _ _ _ _ (h.ws w0 hw0)
        · exact h.ws w0 hw0
      · intro id hid w hw hwid
        simp only [List.mem_append, List.mem_singleton] at hid
        rcases hid with hid | hid
        · exact hk.1 id hid w hw hwid
        · subst hid
          simp only [List.mem_map] at hw
          obtain ⟨w0, hw0, rfl⟩ := hw
          by_cases hc : (w0.id == id) = true
          · simp only [hc, if_true]
          · simp only [hc, if_false] at hwid
            exact absurd (by simpa using hwid) hc
      · intro id hid
        simp only [List.mem_append, List.mem_singleton] at hid
        rcases hid with hid | hid
        · exact h.fresh id hid
        · subst hid
          simp only [List.any_eq_true, Bool.and_eq_true] at hany
          obtain ⟨w, hw, hwid, _⟩ := hany
          have hid' : w.id = id := by simpa using hwid
          exact hid' ▸ h.ids w hw
    · exact h
  | dropReceiver i =>
    have hk := map_keeps s.watchers
      (fun w => if w.id == i then { w with closed := true, chan := [] } else w)
      s.unregQ s.nextId (fun w => by split <;> rfl) (fun w hc => by split <;> first | rfl | exact hc) h.unreg h.ids
    refine ⟨h.cur, h.data, ?_, hk.1, h.fresh, hk.2⟩
    intro w hw
    simp only [step, dropReceiver, List.mem_map] at hw
    obtain ⟨w0, hw0, rfl⟩ := hw
    split
    · exact winv_close _ _ _ _ (h.ws w0 hw0)
    · exact h.ws w0 hw0

theorem sinv_exec (s : St) (ops : List Op) (h : SInv s) : SInv (exec s ops) := by
  induction ops generalizing s with
  | nil => exact h
  | cons op ops ih => exact ih (step s op) (sinv_step s op h)

/-- Start: nothing broadcast, dispatcher at position 0, no watchers. -/
structure Init (s : St) : Prop where
  sent : s.sent = []
  cursor : s.cursor = 0
  lagged : s.lagged = 0
  watchers : s.watchers = []
  unregQ : s.unregQ = []

theorem sinv_init (s : St) (h : Init s) : SInv s := by
  refine ⟨?_, ?_, ?_, ?_, ?_, ?_⟩
  · rw [h.cursor]; exact Nat.zero_le _
  · rw [h.sent]; intro e he; cases he
  · rw [h.watchers]; intro w hw; cases hw
  · rw [h.unregQ]; intro id hid; cases hid
  · rw [h.unregQ]; intro id hid; cases hid
  · rw [h.watchers]; intro w hw; cases hw

/-! ### The property -/

/-- What the watcher was sent (`hist`, of which the consumer has received the prefix `got`) relative to
    `since` = the events matching it (exact key / '/'-terminated prefix) among those broadcast after the
    dispatcher position at its registration and before the dispatcher's current position, in apply order:
    * the put/delete events sent are a prefix of `since` (in order, no duplicates, nothing foreign, nothing
      skipped in the middle);
    * a still-registered watcher has been sent all of `since` and no CANCELED;
    * a watcher that is no longer registered either left by itself (receiver dropped) or its last item is
      CANCELED; CANCELED never occurs anywhere but last. -/
def Delivered (s : St) (w : Watcher) : Prop :=
  dataOf w.hist <+: expW w (seen s.sent s.cursor w) ∧
  (w.registered = true → dataOf w.hist = expW w (seen s.sent s.cursor w) ∧ ∀ e ∈ w.hist, e.typ ≠ EvType.canceled) ∧
  (w.registered = false → w.closed = true ∨ (w.hist.getLast?).map (·.typ) = some EvType.canceled) ∧
  (∀ e ∈ w.hist.dropLast, e.typ ≠ EvType.canceled) ∧
  w.got <+: w.hist

instance (s : St) (w : Watcher) : Decidable (Delivered s w) := by unfold Delivered; exact inferInstance

/-- **C24 at full strength** (every schedule, including broadcast-ring overflow). -/
def DeliveredStatement : Prop :=
  ∀ (s0 : St) (ops : List Op), Init s0 → ∀ w ∈ (exec s0 ops).watchers, Delivered (exec s0 ops) w

/-- **C24, full strength (after the fix of F22):** for every schedule of applies, registrations, dispatcher
    iterations (including `Lagged`), heartbeat ticks, consumer reads and drops, every watcher's stream is
    `Delivered`: gap-free since registration, or ended by CANCELED after which nothing follows. -/
theorem delivered_is_subsequence_prefix (s0 : St) (ops : List Op) (h0 : Init s0) :
    ∀ w ∈ (exec s0 ops).watchers, Delivered (exec s0 ops) w := by
  intro w hw
  have h := (sinv_exec s0 ops (sinv_init s0 h0)).ws w hw
  exact ⟨h.pre, h.live, h.dead, h.cancelLast, h.got⟩

theorem delivered_statement : DeliveredStatement := delivered_is_subsequence_prefix

/-- The same in the `take n` form: the data items sent are the first `n` of `since`; if `n` falls short,
    the watcher is gone and — unless the consumer left — its last item is CANCELED, after which nothing follows. -/
theorem delivered_take_form (s0 : St) (ops : List Op) (h0 : Init s0) :
    ∀ w ∈ (exec s0 ops).watchers,
      let s := exec s0 ops
      let since := expW w (seen s.sent s.cursor w)
      ∃ n, dataOf w.hist = since.take n ∧
        (n < since.length → w.registered = false ∧
          (w.closed = true ∨ (w.hist.getLast?).map (·.typ) = some EvType.canceled)) ∧
        (∀ e ∈ w.hist.dropLast, e.typ ≠ EvType.canceled) := by
  intro w hw s since
  obtain ⟨hpre, hlive, hdead, hcl, _⟩ := delivered_is_subsequence_prefix s0 ops h0 w hw
  refine ⟨(dataOf w.hist).length, List.prefix_iff_eq_take.mp hpre, ?_, hcl⟩
  intro hn
  have hreg : w.registered = false := by
    cases hr : w.registered with
    | false => rfl
    | true =>
      have := (hlive hr).1
      have hlen : (dataOf w.hist).length = since.length := by rw [this]
      omega
  exact ⟨hreg, hdead hreg⟩

/-! ### F22 regression: the dispatcher before the fix (Lagged only logged) -/

/-- `dstep` as it was before the fix of F22: on `Lagged(n)` only the receiver position moves. -/
def dstepOld (s : St) : Option St :=
  match s.unregQ with
  | id :: q => some (unregisterId { s with unregQ := q } id)
  | [] =>
    if s.cursor < s.sent.length then
      if s.sent.length - s.cursor > ringCap s then
        some { s with cursor := s.sent.length - ringCap s,
                      lagged := s.lagged + (s.sent.length - ringCap s - s.cursor) }
      else dstep s
    else dstep s

def stepOld (s : St) : Op → St
  | .dstep => (dstepOld s).getD s
  | op => step s op

def kA : Key := [47, 97]     -- "/a"

/-- event_queue_size 2 (ring of 2), one exact watcher on `/a`, five puts before the dispatcher runs. -/
def f22Start : St := { bufSize := 8, queueSize := 2, maxWatchers := 16, hbEnabled := false, progressRev := 0 }

def f22Ops : List Op :=
  [.reg kA false false,
   .apply [.put kA 1], .apply [.put kA 2], .apply [.put kA 3], .apply [.put kA 4], .apply [.put kA 5],
   .dstep, .dstep, .dstep]

/-- Before the fix: the watcher is sent only revisions 4 and 5, stays registered, never sees CANCELED. -/
theorem f22_regression :
    (f22Ops.foldl stepOld f22Start).watchers.map (fun w => (w.registered, w.hist.map (fun e => (e.typ, e.rev)))) =
      [(true, [(EvType.put, 4), (EvType.put, 5)])] ∧
    ¬ (∀ w ∈ (f22Ops.foldl stepOld f22Start).watchers, Delivered (f22Ops.foldl stepOld f22Start) w) := by
  decide

/-- After the fix the same schedule ends the stream with CANCELED. -/
theorem f22_fixed :
    (exec f22Start f22Ops).watchers.map (fun w => (w.registered, w.hist.map (fun e => (e.typ, e.rev)))) =
      [(false, [(EvType.canceled, 0)])] := by decide

/-! ### Progress revisions (F23, fixed): never older than data already sent to the same watcher -/

/-- "A Progress event carries the current applied index": at least it must not be older than a data
    revision the same watcher has already been sent. -/
def ProgressOkAll (s : St) : Prop := ∀ w ∈ s.watchers, progressOk 0 w.hist = true

instance (s : St) : Decidable (ProgressOkAll s) := by unfold ProgressOkAll; exact inferInstance

def ProgressStatement : Prop := ∀ (s0 : St) (ops : List Op), Init s0 → ProgressOkAll (exec s0 ops)

/-- Highest data revision in a stream, starting from `hi` (the accumulator of `progressOk`). -/
def accAfter (hi : Nat) (l : List WEv) : Nat := l.foldl (fun h e => if isData e then max h e.rev else h) hi

theorem progressOk_push (hi : Nat) (l : List WEv) (x : WEv) (h : progressOk hi l = true)
    (hx : x.typ = EvType.progress → accAfter hi l ≤ x.rev) : progressOk hi (l ++ [x]) = true := by
  induction l generalizing hi with
  | nil =>
    simp only [List.nil_append]
    unfold progressOk
    by_cases hp : x.typ = EvType.progress
    · have := hx hp
      simp only [accAfter, List.foldl_nil] at this
      simp [hp, progressOk, this]
    · have hp' : (x.typ == EvType.progress) = false := by simpa using hp
      simp only [hp', Bool.false_eq_true, if_false]
      split <;> simp [progressOk]
  | cons e l ih =>
    simp only [List.cons_append]
    unfold progressOk at h ⊢
    by_cases hp : (e.typ == EvType.progress) = true
    · have hnd : isData e = false := by
        have : e.typ = EvType.progress := by simpa using hp
        simp [isData, this]
      simp only [hp, if_true, Bool.and_eq_true] at h ⊢
      refine ⟨h.1, ih hi h.2 ?_⟩
      intro hxp; have := hx hxp
      simpa [accAfter, hnd] using this
    · simp only [hp, Bool.false_eq_true, if_false] at h ⊢
      by_cases hd : isData e = true
      · simp only [hd, if_true] at h ⊢
        apply ih _ h
        intro hxp; have := hx hxp
        simpa [accAfter, hd] using this
      · simp only [hd, Bool.false_eq_true, if_false] at h ⊢
        apply ih _ h
        intro hxp; have := hx hxp
        simpa [accAfter, hd] using this

theorem accAfter_append (hi : Nat) (l : List WEv) (x : WEv) :
    accAfter hi (l ++ [x]) = if isData x then max (accAfter hi l) x.rev else accAfter hi l := by
  unfold accAfter; rw [List.foldl_append]; rfl

/-- Per-watcher progress invariant relative to the dispatcher's counter `R`. -/
def PQ (R : Nat) (w : Watcher) : Prop := progressOk 0 w.hist = true ∧ accAfter 0 w.hist ≤ R

/-- Events the dispatcher may hand out while its counter is `R`. -/
def EvOk (R : Nat) (e : PEv) : Prop :=
  (e.typ = EvType.progress → e.rev = R) ∧ (IsDataP e → e.rev ≤ R) ∧ e.typ ≠ EvType.canceled

theorem pq_push (R : Nat) (w : Watcher) (x : WEv) (h : PQ R w)
    (hx : (x.typ = EvType.progress → x.rev = R) ∧ (isData x = true → x.rev ≤ R)) :
    progressOk 0 (w.hist ++ [x]) = true ∧ accAfter 0 (w.hist ++ [x]) ≤ R := by
  refine ⟨?_, ?_⟩
  · apply progressOk_push 0 w.hist x h.1
    intro hp
    have := hx.1 hp
    have h2 := h.2
    omega
  · rw [accAfter_append]
    by_cases hd : isData x = true
    · have := hx.2 hd; have := h.2
      simp [hd]; omega
    · simp [hd]; exact h.2

theorem hit_pq (R b : Nat) (e : PEv) (w : Watcher) (h : PQ R w) (he : EvOk R e) : PQ R (hit b e w) := by
  rcases hit_cases b e w with ⟨_, hh⟩ | ⟨_, _, hh⟩ | ⟨_, _, hh⟩ | ⟨_, _, hh⟩ <;> rw [hh]
  · exact h
  · exact pq_push R w (cancelEv e.key) h ⟨fun hc => by simp [cancelEv] at hc, fun hc => by simp [cancelEv, isData] at hc⟩
  · exact h
  · refine pq_push R w (toW w.prevKv e) h ⟨fun hc => he.1 hc, fun hd => ?_⟩
    apply he.2.1
    rw [isData_toW] at hd
    simp only [Bool.or_eq_true, beq_iff_eq] at hd
    exact hd

theorem pass_pq (R b : Nat) (ip : Bool) (k : Key) (e : PEv) (w : Watcher) (h : PQ R w) (he : EvOk R e) :
    PQ R (pass b ip k e w) := by
  unfold pass; split
  · exact hit_pq R b e w h he
  · exact h

theorem perW_pq (R b : Nat) (e : PEv) (w : Watcher) (h : PQ R w) (he : EvOk R e) : PQ R (perW b e w) := by
  unfold perW
  have gen : ∀ (l : List Key) (w : Watcher), PQ R w → PQ R (l.foldl (fun w p => pass b true p e w) w) := by
    intro l
    induction l with
    | nil => intro w hw; exact hw
    | cons p l ih => intro w hw; exact ih _ (pass_pq R b true p e w hw he)
  exact gen _ _ (pass_pq R b false e.key e w h he)

theorem cancelOne_pq (R : Nat) (w : Watcher) (h : PQ R w) : PQ R (cancelOne w) := by
  unfold cancelOne
  split
  · split
    · exact h
    · exact pq_push R w (cancelEv w.key) h ⟨fun hc => by simp [cancelEv] at hc, fun hc => by simp [cancelEv, isData] at hc⟩
  · exact h

structure QInv (s : St) : Prop where
  ws : ∀ w ∈ s.watchers, PQ s.progressRev w
  data : ∀ e ∈ s.sent, IsDataP e

theorem qinv_dispatchToMap (s : St) (ip : Bool) (k : Key) (e : PEv) (h : QInv s) (he : EvOk s.progressRev e) :
    QInv (dispatchToMap s ip k e) := by
  refine ⟨?_, h.data⟩
  intro w hw
  simp only [dispatchToMap, List.mem_map] at hw
  obtain ⟨w0, hw0, rfl⟩ := hw
  exact pass_pq _ _ _ _ _ _ (h.ws w0 hw0) he

theorem qinv_foldl (ip : Bool) (l : List Key) (s : St) (e : PEv) (h : QInv s) (he : EvOk s.progressRev e) :
    QInv (l.foldl (fun s k => dispatchToMap s ip k e) s) := by
  induction l generalizing s with
  | nil => exact h
  | cons k l ih => exact ih _ (qinv_dispatchToMap s ip k e h he) he

theorem qinv_step (s : St) (op : Op) (h : QInv s) : QInv (step s op) := by
  cases op with
  | apply c =>
    refine ⟨h.ws, ?_⟩
    intro e he
    have he' : e ∈ s.sent ++ eventsOf s.nextIndex c (applyAll s.kv c).2
        (if prevKvCount s > 0 then some (readPrev s.kv c) else none) := he
    simp only [List.mem_append] at he'
    rcases he' with he' | he'
    · exact h.data e he'
    · exact eventsOf_go_data _ _ _ _ _ e he'
  | reg k p v =>
    show QInv (register s k p v)
    unfold register
    split
    · exact ⟨h.ws, h.data⟩
    · split
      · exact ⟨h.ws, h.data⟩
      · refine ⟨?_, h.data⟩
        intro w hw
        simp only [List.mem_append, List.mem_singleton] at hw
        rcases hw with hw | hw
        · exact h.ws w hw
        · subst hw; exact ⟨rfl, Nat.zero_le _⟩
  | dstep =>
    show QInv ((dstep s).getD s)
    cases hd : dstep s with
    | none => exact h
    | some s' =>
      show QInv s'
      unfold dstep at hd
      split at hd
      · cases hd
        unfold unregisterId
        split
        · refine ⟨?_, h.data⟩
          intro w hw
          simp only [List.mem_map] at hw
          obtain ⟨w0, hw0, rfl⟩ := hw
          split
          · exact h.ws w0 hw0
          · exact h.ws w0 hw0
        · exact ⟨h.ws, h.data⟩
      · split at hd
        · split at hd
          · cases hd
            refine ⟨?_, h.data⟩
            intro w hw
            simp only [cancelAll, List.mem_map] at hw
            obtain ⟨w0, hw0, rfl⟩ := hw
            exact cancelOne_pq _ _ (h.ws w0 hw0)
          · split at hd
            · rename_i e he
              cases hd
              have hde : IsDataP e := h.data e (List.mem_of_getElem? he)
              have hev : EvOk (max s.progressRev e.rev) e := by
                refine ⟨?_, fun _ => Nat.le_max_right _ _, ?_⟩
                · intro hp; rcases hde with hde | hde <;> rw [hde] at hp <;> cases hp
                · rcases hde with hde | hde <;> rw [hde] <;> decide
              obtain ⟨hw, _⟩ := dispatchEvent_eq
                { s with cursor := s.cursor + 1, progressRev := max s.progressRev e.rev } e
              refine ⟨?_, ?_⟩
              · rw [hw, dispatchEvent_frame St.progressRev (fun _ _ _ _ => rfl)]
                intro w hw'
                simp only [List.mem_map] at hw'
                obtain ⟨w0, hw0, rfl⟩ := hw'
                have h0 := h.ws w0 hw0
                exact perW_pq _ _ _ _ ⟨h0.1, Nat.le_trans h0.2 (Nat.le_max_left _ _)⟩ hev
              · rw [dispatchEvent_frame St.sent (fun _ _ _ _ => rfl)]; exact h.data
            · cases hd
        · split at hd
          · cases hd
            unfold broadcastProgress
            have hev : EvOk s.progressRev (progressEv { s with hbDue := false }) := by
              refine ⟨fun _ => rfl, ?_, fun hc => by
                have hc' : EvType.progress = EvType.canceled := hc
                cases hc'⟩
              intro hd
              have hd' : EvType.progress = EvType.put ∨ EvType.progress = EvType.delete := hd
              exact absurd hd' (by decide)
            exact qinv_foldl true _ _ _ (qinv_foldl false _ _ _ ⟨h.ws, h.data⟩ hev)
              (by rw [foldl_frame St.progressRev (fun _ _ _ _ => rfl)]; exact hev)
          · cases hd
  | tick => exact ⟨h.ws, h.data⟩
  | take i n =>
    refine ⟨?_, h.data⟩
    intro w hw
    simp only [step, Watch.take, List.mem_map] at hw
    obtain ⟨w0, hw0, rfl⟩ := hw
    split
    · exact h.ws w0 hw0
    · exact h.ws w0 hw0
  | dropHandle i =>
    show QInv (dropHandle s i)
    unfold dropHandle
    split
    · refine ⟨?_, h.data⟩
      intro w hw
      simp only [List.mem_map] at hw
      obtain ⟨w0, hw0, rfl⟩ := hw
      split
      · exact h.ws w0 hw0
      · exact h.ws w0 hw0
    · exact h
  | dropReceiver i =>
    refine ⟨?_, h.data⟩
    intro w hw
    simp only [step, dropReceiver, List.mem_map] at hw
    obtain ⟨w0, hw0, rfl⟩ := hw
    split
    · exact h.ws w0 hw0
    · exact h.ws w0 hw0

/-- **Progress revisions, full strength (after the fix of F23):** in every schedule, a Progress event never
    carries a revision older than a put/delete the same watcher was sent before it. -/
theorem progress_statement : ProgressStatement := by
  intro s0 ops h0
  have gen : ∀ (ops : List Op) (s : St), QInv s → QInv (exec s ops) := by
    intro ops
    induction ops with
    | nil => intro s h; exact h
    | cons op ops ih => intro s h; exact ih (step s op) (qinv_step s op h)
  have hq0 : QInv s0 := by
    refine ⟨?_, ?_⟩
    · rw [h0.watchers]; intro w hw; cases hw
    · rw [h0.sent]; intro e he; cases he
  intro w hw
  exact ((gen ops s0 hq0).ws w hw).1

/-- F23 regression: with the counter frozen at its start-up value (the code before the fix) a put at
    revision 1 is followed by Progress with revision 0. -/
theorem f23_regression :
    progressOk 0 [toW false { typ := .put, key := kA, value := some 7, prev := none, rev := 1 },
                  toW false { typ := .progress, key := [], value := none, prev := none, rev := 0 }] = false := by
  decide

def f23Start : St := { bufSize := 8, queueSize := 16, maxWatchers := 16, hbEnabled := true, progressRev := 0 }
def f23Ops : List Op := [.reg kA false false, .apply [.put kA 7], .dstep, .tick, .dstep]

theorem f23_fixed :
    (exec f23Start f23Ops).watchers.map (fun w => w.hist.map (fun e => (e.typ, e.rev))) =
      [[(EvType.put, 1), (EvType.progress, 1)]] := by decide

/-! ### Events: one per successful mutation, revision = entry index, strictly increasing -/

theorem eventsOf_go_rev (first : Nat) (oks : List Bool) (prevs : Option (List (Option Nat)))
    (chunk : List Cmd) (i : Nat) :
    (∀ e ∈ eventsOf.go first oks prevs i chunk, first + i ≤ e.rev ∧ e.rev < first + i + chunk.length) ∧
    ((eventsOf.go first oks prevs i chunk).map (·.rev)).Pairwise (· < ·) := by
  induction chunk generalizing i with
  | nil => simp [eventsOf.go]
  | cons c rest ih =>
    obtain ⟨ih1, ih2⟩ := ih (i + 1)
    have tailb : ∀ e ∈ eventsOf.go first oks prevs (i + 1) rest,
        first + i < e.rev ∧ e.rev < first + i + (rest.length + 1) := by
      intro e he; have := ih1 e he; omega
    have consCase : ∀ (x : PEv), x.rev = first + i →
        (∀ e ∈ x :: eventsOf.go first oks prevs (i + 1) rest,
          first + i ≤ e.rev ∧ e.rev < first + i + (rest.length + 1)) ∧
        ((x :: eventsOf.go first oks prevs (i + 1) rest).map (·.rev)).Pairwise (· < ·) := by
      intro x hx
      refine ⟨?_, ?_⟩
      · intro e he
        simp only [List.mem_cons] at he
        rcases he with he | he
        · subst he; omega
        · have := tailb e he; omega
      · simp only [List.map_cons, List.pairwise_cons]
        refine ⟨?_, ih2⟩
        intro r hr
        simp only [List.mem_map] at hr
        obtain ⟨e, he, rfl⟩ := hr
        have := tailb e he; omega
    have skipCase :
        (∀ e ∈ eventsOf.go first oks prevs (i + 1) rest,
          first + i ≤ e.rev ∧ e.rev < first + i + (rest.length + 1)) ∧
        ((eventsOf.go first oks prevs (i + 1) rest).map (·.rev)).Pairwise (· < ·) :=
      ⟨fun e he => by have := tailb e he; omega, ih2⟩
    simp only [List.length_cons]
    unfold eventsOf.go
    cases c with
    | put k v => exact consCase _ rfl
    | del k => exact consCase _ rfl
    | cas k ex v =>
      simp only
      split
      · rename_i x hx
        split at hx
        · cases hx; exact consCase _ rfl
        · cases hx
      · exact skipCase
    | noop => exact skipCase

/-- **A failed CAS yields no event**: if entry `j` of the chunk is a CAS whose `ApplyResult.succeeded` is
    false, no broadcast event carries its index as revision. -/
theorem failed_cas_no_event (first : Nat) (oks : List Bool) (prevs : Option (List (Option Nat)))
    (chunk : List Cmd) (j : Nat) (k : Key) (ex : Option Nat) (v : Nat)
    (hc : chunk[j]? = some (Cmd.cas k ex v)) (hf : (oks[j]?).getD false = false) :
    ∀ e ∈ eventsOf first chunk oks prevs, e.rev ≠ first + j := by
  have gen : ∀ (chunk : List Cmd) (i j : Nat), chunk[j]? = some (Cmd.cas k ex v) →
      (oks[i + j]?).getD false = false →
      ∀ e ∈ eventsOf.go first oks prevs i chunk, e.rev ≠ first + i + j := by
    intro chunk
    induction chunk with
    | nil => intro i j hc; simp at hc
    | cons c rest ih =>
      intro i j hc hf e he
      have tailb := (eventsOf_go_rev first oks prevs rest (i + 1)).1
      cases j with
      | zero =>
        simp only [List.getElem?_cons_zero, Option.some.injEq] at hc
        subst hc
        unfold eventsOf.go at he
        simp only [Nat.add_zero] at hf
        simp only [hf, Bool.false_eq_true, if_false] at he
        have := tailb e he; omega
      | succ j =>
        simp only [List.getElem?_cons_succ] at hc
        have hf' : (oks[i + 1 + j]?).getD false = false := by
          have : i + 1 + j = i + (j + 1) := by omega
          rw [this]; exact hf
        have hrec := ih (i + 1) j hc hf'
        have htail : ∀ e ∈ eventsOf.go first oks prevs (i + 1) rest, e.rev ≠ first + i + (j + 1) := by
          intro e he; have := hrec e he; omega
        unfold eventsOf.go at he
        cases c with
        | put k' v' =>
          simp only [List.mem_cons] at he
          rcases he with he | he
          · rw [he]; show first + i ≠ first + i + (j + 1); omega
          · exact htail e he
        | del k' =>
          simp only [List.mem_cons] at he
          rcases he with he | he
          · rw [he]; show first + i ≠ first + i + (j + 1); omega
          · exact htail e he
        | cas k' ex' v' =>
          simp only at he
          split at he
          · rename_i x hx
            simp only [List.mem_cons] at he
            rcases he with he | he
            · rw [he]
              split at hx
              · cases hx; show first + i ≠ first + i + (j + 1); omega
              · cases hx
            · exact htail e he
          · exact htail e he
        | noop => exact htail e he
  intro e he
  have := gen chunk 0 j hc (by simpa using hf) e he
  simpa using this

/-- Revisions on the broadcast channel are strictly increasing (so any watcher's put/delete events, being a
    subsequence, have strictly increasing revisions and no duplicates). -/
structure RInv (s : St) : Prop where
  inc : (s.sent.map (·.rev)).Pairwise (· < ·)
  below : ∀ e ∈ s.sent, e.rev < s.nextIndex

theorem rinv_step (s : St) (op : Op) (h : RInv s) : RInv (step s op) := by
  cases op with
  | apply c =>
    obtain ⟨hb, hp⟩ := eventsOf_go_rev s.nextIndex (applyAll s.kv c).2
      (if prevKvCount s > 0 then some (readPrev s.kv c) else none) c 0
    refine ⟨?_, ?_⟩
    · show ((s.sent ++ eventsOf s.nextIndex c _ _).map (·.rev)).Pairwise (· < ·)
      rw [List.map_append, List.pairwise_append]
      refine ⟨h.inc, hp, ?_⟩
      intro a ha b hb'
      simp only [List.mem_map] at ha hb'
      obtain ⟨ea, hea, rfl⟩ := ha
      obtain ⟨eb, heb, rfl⟩ := hb'
      have h1 := h.below ea hea
      have h2 := hb eb heb
      omega
    · intro e he
      have he' : e ∈ s.sent ++ eventsOf s.nextIndex c (applyAll s.kv c).2
          (if prevKvCount s > 0 then some (readPrev s.kv c) else none) := he
      show e.rev < s.nextIndex + c.length
      simp only [List.mem_append] at he'
      rcases he' with he' | he'
      · have := h.below e he'; omega
      · have := hb e he'; omega
  | reg k p v =>
    show RInv (register s k p v)
    unfold register
    split
    · exact ⟨h.inc, h.below⟩
    · split <;> exact ⟨h.inc, h.below⟩
  | dstep =>
    show RInv ((dstep s).getD s)
    cases hd : dstep s with
    | none => exact h
    | some s' =>
      show RInv s'
      have hs : s'.sent = s.sent ∧ s'.nextIndex = s.nextIndex := by
        unfold dstep at hd
        split at hd
        · cases hd; unfold unregisterId; split <;> exact ⟨rfl, rfl⟩
        · split at hd
          · split at hd
            · cases hd; exact ⟨rfl, rfl⟩
            · split at hd
              · cases hd
                exact ⟨dispatchEvent_frame St.sent (fun _ _ _ _ => rfl) _ _,
                  dispatchEvent_frame St.nextIndex (fun _ _ _ _ => rfl) _ _⟩
              · cases hd
          · split at hd
            · cases hd
              exact ⟨broadcastProgress_frame St.sent (fun _ _ _ _ => rfl) _,
                broadcastProgress_frame St.nextIndex (fun _ _ _ _ => rfl) _⟩
            · cases hd
      exact ⟨by rw [hs.1]; exact h.inc, by rw [hs.1, hs.2]; exact h.below⟩
  | tick => exact ⟨h.inc, h.below⟩
  | take i n => exact ⟨h.inc, h.below⟩
  | dropHandle i =>
    show RInv (dropHandle s i)
    unfold dropHandle
    split <;> exact ⟨h.inc, h.below⟩
  | dropReceiver i => exact ⟨h.inc, h.below⟩

theorem sent_revisions_increasing (s0 : St) (ops : List Op) (h0 : Init s0) :
    ((exec s0 ops).sent.map (·.rev)).Pairwise (· < ·) := by
  have gen : ∀ (ops : List Op) (s : St), RInv s → RInv (exec s ops) := by
    intro ops
    induction ops with
    | nil => intro s h; exact h
    | cons op ops ih => intro s h; exact ih (step s op) (rinv_step s op h)
  have h00 : RInv s0 := by
    refine ⟨?_, ?_⟩
    · rw [h0.sent]; exact List.Pairwise.nil
    · rw [h0.sent]; intro e he; cases he
  exact (gen ops s0 h00).inc

/-! ### The monitor predicate (`streamOk`, evaluated by the check on the real code's streams) holds on the model -/

theorem erase_typ (e : WEv) : (erasePrev e).typ = e.typ := rfl

theorem data_of_erased (l : List WEv) :
    ((l.map erasePrev).filter (fun e => e.typ != EvType.canceled)).filter isData = (dataOf l).map erasePrev := by
  induction l with
  | nil => rfl
  | cons e l ih =>
    unfold dataOf at ih ⊢
    obtain ⟨typ, key, value, prev, rev⟩ := e
    cases typ <;> simp [List.filter_cons, isData, erasePrev, ih]

theorem expected_erase (ip pk : Bool) (key : Key) (l : List PEv) :
    (expected ip pk key l).map erasePrev = expected ip false key l := by
  unfold expected
  rw [List.map_map]
  apply List.map_congr_left
  intro e _
  simp [erasePrev, toW]

theorem any_canceled_erase (l : List WEv) :
    (l.map erasePrev).any (fun e => e.typ == EvType.canceled) = l.any (fun e => e.typ == EvType.canceled) := by
  induction l with
  | nil => rfl
  | cons e l ih => simp [List.any_cons, erase_typ, ih]

theorem mem_dropLast_of_prefix {α : Type} (a b : List α) (h : a <+: b) (x : α) (hx : x ∈ a.dropLast) :
    x ∈ b.dropLast := by
  obtain ⟨t, rfl⟩ := h
  cases t with
  | nil => simpa using hx
  | cons y ys =>
    rw [List.dropLast_append_of_ne_nil (by simp)]
    exact List.mem_append_left _ ((List.dropLast_subset _) hx)

theorem cancelLast_of (l : List WEv) (h : ∀ e ∈ l.dropLast, e.typ ≠ EvType.canceled) :
    (match l.reverse with
     | [] => true
     | _ :: rest => rest.all (fun e => e.typ != EvType.canceled)) = true := by
  rcases List.eq_nil_or_concat l with rfl | ⟨init, last, rfl⟩
  · rfl
  · rw [List.concat_eq_append] at h ⊢
    rw [List.reverse_append]
    show (init.reverse).all (fun e => e.typ != EvType.canceled) = true
    rw [List.all_eq_true]
    intro e he
    have he' : e ∈ init := by simpa using he
    have := h e (by rw [List.dropLast_concat]; exact he')
    simpa using this

/-- **The check's monitor holds on the model.** In every schedule, for every watcher, the stream
    its consumer has received (prev values erased, as the monitor does) satisfies `streamOk` against the
    complete list of broadcast events, with any `must ≥` the ring position at registration, and with
    `complete` claimed only when the consumer kept its handle, has drained its channel and the dispatcher
    has caught up. -/
theorem monitor_holds_on_model (s0 : St) (ops : List Op) (h0 : Init s0)
    (w : Watcher) (hw : w ∈ (exec s0 ops).watchers) (must : Nat) (complete : Bool)
    (hmust : w.regPos ≤ must)
    (hcomplete : complete = true →
      w.closed = false ∧ w.chan = [] ∧ (exec s0 ops).cursor = (exec s0 ops).sent.length) :
    streamOk w.isPrefix false w.key (exec s0 ops).sent must complete (w.got.map erasePrev) = true := by
  have hs := sinv_exec s0 ops (sinv_init s0 h0)
  have h := hs.ws w hw
  generalize exec s0 ops = s at hs h hcomplete
  -- chain of prefixes
  have hseen : seen s.sent s.cursor w <+: s.sent.drop w.regPos := by
    unfold seen
    obtain ⟨t, ht⟩ := List.take_prefix s.cursor s.sent
    have hlen : w.regPos ≤ (s.sent.take s.cursor).length := by
      have := h.pos; have := hs.cur
      simp [List.length_take]; omega
    refine ⟨t, ?_⟩
    rw [← List.drop_append_of_le_length hlen, ht]
  have hexp : expW w (seen s.sent s.cursor w) <+: expW w (s.sent.drop w.regPos) := by
    unfold expW expected
    exact (hseen.filter _).map _
  have hgot : dataOf w.got <+: dataOf w.hist := by unfold dataOf; exact h.got.filter _
  have hchain : dataOf w.got <+: expW w (s.sent.drop w.regPos) := (hgot.trans h.pre).trans hexp
  have hcl : ∀ e ∈ (w.got.map erasePrev).dropLast, e.typ ≠ EvType.canceled := by
    intro e he
    rw [← List.map_dropLast] at he
    simp only [List.mem_map] at he
    obtain ⟨x, hx, rfl⟩ := he
    rw [erase_typ]
    exact h.cancelLast x (mem_dropLast_of_prefix _ _ h.got x hx)
  unfold streamOk
  simp only [Bool.and_eq_true]
  refine ⟨cancelLast_of _ hcl, ?_⟩
  rw [List.any_eq_true]
  refine ⟨w.regPos, by simp; omega, ?_⟩
  simp only [Bool.and_eq_true, Bool.or_eq_true]
  rw [data_of_erased, ← expected_erase w.isPrefix w.prevKv w.key]
  refine ⟨?_, ?_⟩
  · rw [List.isPrefixOf_iff_prefix]
    exact hchain.map _
  · by_cases hcan : (w.got.map erasePrev).any (fun e => e.typ == EvType.canceled) = true
    · exact Or.inl (Or.inl hcan)
    · cases hc : complete with
      | false => exact Or.inl (Or.inr rfl)
      | true =>
        right
        obtain ⟨hclosed, hchan, hcur⟩ := hcomplete hc
        have hgh : w.got = w.hist := by have := h.chan hclosed; rw [hchan] at this; simpa using this
        -- not canceled ⇒ still registered ⇒ nothing missing
        have hnocancel : ∀ e ∈ w.hist, e.typ ≠ EvType.canceled := by
          intro e he hty
          apply hcan
          rw [any_canceled_erase, hgh, List.any_eq_true]
          exact ⟨e, he, by simp [hty]⟩
        have hreg : w.registered = true := by
          cases hr : w.registered with
          | true => rfl
          | false =>
            rcases h.dead hr with hd | hd
            · rw [hclosed] at hd; cases hd
            · exfalso
              cases hl : w.hist.getLast? with
              | none => rw [hl] at hd; cases hd
              | some x =>
                rw [hl] at hd
                simp only [Option.map_some, Option.some.injEq] at hd
                exact hnocancel x (List.mem_of_getLast? hl) hd
        have hlive := (h.live hreg).1
        have hall : seen s.sent s.cursor w = s.sent.drop w.regPos := by
          unfold seen; rw [hcur, List.take_length]
        simp only [beq_iff_eq, List.length_map]
        rw [hgh, hlive, hall]
        rfl

end DEngine.C24
