import DEngine.Model.ReadRoute
/-!
# C13 — Read policy routing is enforced

The quantifier of C13 is a finite product (role × server default × allow_client_override × client policy ×
API path × lease validity = 4·3·2·5·3·2 = 720 cases), so a case analysis over *all* of it is a proof, not a
sample. `route` is the model of the code as it is (tied to the real functions by the `readroute`
correspondence, which enumerates the whole product on every run).

* `nonleader_never_serves_strong` — full strength, holds as coded.
* `override_allowed_means_client_policy` — full strength, holds as coded.
* `NoOverrideMeansDefaultStatement` — the property's second sentence. **False as coded** (finding F14: the
  gRPC fast path `handle_client_read → StandaloneReadHandle::get_batch → ReadActor` and the embedded fast
  path `EmbeddedReadHandle::get_batch` never look at `allow_client_override`). We prove its negation from a
  concrete witness and `no_override_means_default_partial` under the exact excluded trigger `f14Trigger`.
-/
namespace DEngine.C13
open DEngine.ReadRoute

/-- Every statement below has the shape `∀ c : Case, P c = true` for a decidable `P`; this tactic splits the
    six finite fields and evaluates. -/
macro "all_cases" : tactic =>
  `(tactic| (intro c; rcases c with ⟨role, dflt, ovr, cli, path, lv⟩;
             cases role <;> cases dflt <;> cases ovr <;> cases path <;> cases lv <;>
             (first | (cases cli with
                       | none => decide
                       | unknown => decide
                       | some p => cases p <;> decide))))

/-- **C13, first sentence (full strength).** On every API path, a node that is not the leader — and, being
    not the leader, holds no valid lease (`become_follower` revokes it; C12) — either reports "not leader" or
    answers an *eventual* read; it never answers a linearizable or lease read from local state and never
    queues a read as if it were the leader. -/
theorem nonleader_never_serves_strong :
    ∀ c : Case, c.role ≠ .leader → c.leaseValid = false → nonLeaderOk (route c) = true := by
  have h : ∀ c : Case, (c.role != .leader && !c.leaseValid) → nonLeaderOk (route c) = true := by all_cases
  intro c hr hl
  apply h c
  simp [hl, hr]

/-- …and whenever the policy in force (client's if override is allowed, else the default) is strong, the
    non-leader's answer is exactly "not leader" — outside the F14 trigger. -/
theorem nonleader_strong_reports_not_leader :
    ∀ c : Case, c.role ≠ .leader → c.leaseValid = false → f14Trigger c = false →
      (clientPolicy c).strong = true → route c = .notLeader ∨ route c = .na := by
  have h : ∀ c : Case, (c.role != .leader && !c.leaseValid && !f14Trigger c && (clientPolicy c).strong) →
      (route c == .notLeader || route c == .na) = true := by all_cases
  intro c hr hl hf hs
  have := h c (by simp [hr, hl, hf, hs])
  simpa using this

/-- Override allowed ⇒ the client's policy (or the default if it named none) is the one in force, on every
    path and role. -/
theorem override_allowed_means_client_policy :
    ∀ c : Case, c.ovr = true → servedUnder c.role (clientPolicy c) (route c) = true := by
  have h : ∀ c : Case, c.ovr → servedUnder c.role (clientPolicy c) (route c) = true := by all_cases
  intro c ho
  exact h c ho

/-- **C13, second sentence — the full statement.** -/
def NoOverrideMeansDefaultStatement : Prop :=
  ∀ c : Case, c.ovr = false → servedUnder c.role c.dflt (route c) = true

/-- F14 witness: gRPC read on the leader, server default Linearizable, override disallowed, the client asks
    for EventualConsistency: answered from local state under the *client's* policy. -/
def f14Witness : Case :=
  { role := .leader, dflt := .lin, ovr := false, cli := .some .ev, path := .grpc, leaseValid := false }

/-- Same on a follower through the embedded client. -/
def f14WitnessEmb : Case :=
  { role := .follower, dflt := .lin, ovr := false, cli := .some .ev, path := .emb, leaseValid := false }

theorem f14Witness_route : route f14Witness = .localRead true .ev := by decide
theorem f14WitnessEmb_route : route f14WitnessEmb = .localRead true .ev := by decide

/-- **As coded the statement is false** (kernel-checked, from the witness). -/
theorem no_override_means_default_false : ¬ NoOverrideMeansDefaultStatement := by
  intro h
  have := h f14Witness rfl
  revert this
  decide

/-- **Partial theorem**: outside the exact F14 trigger the statement holds for every case — in particular on
    the whole Raft command path, for requests without a policy, for Linearizable requests, and for lease
    requests while the lease is invalid. -/
theorem no_override_means_default_partial :
    ∀ c : Case, f14Trigger c = false → c.ovr = false → servedUnder c.role c.dflt (route c) = true := by
  have h : ∀ c : Case, (!f14Trigger c && !c.ovr) → servedUnder c.role c.dflt (route c) = true := by all_cases
  intro c hf ho
  exact h c (by simp [hf, ho])

/-- The trigger is tight: *every* triggering case violates the statement (so the partial theorem excludes
    nothing it does not have to). -/
theorem f14_trigger_tight :
    ∀ c : Case, f14Trigger c = true → servedUnder c.role c.dflt (route c) = false := by
  have h : ∀ c : Case, f14Trigger c → servedUnder c.role c.dflt (route c) = false := by all_cases
  intro c hf
  exact h c hf

/-- The monitor is exactly the conjunction of the three predicates above (so a monitor `ok` on an observed
    outcome means the observed outcome satisfies the theorems' conclusions). -/
theorem monitor_ok_iff (c : Case) (o : Outcome) (hna : o ≠ .na) :
    monitorC13 c o = none ↔
      ((c.role ≠ .leader ∧ c.leaseValid = false → nonLeaderOk o = true) ∧
       (c.ovr = false → servedUnder c.role c.dflt o = true) ∧
       (c.ovr = true → servedUnder c.role (clientPolicy c) o = true)) := by
  unfold monitorC13
  have hna' : (o == Outcome.na) = false := by simpa using hna
  simp only [hna', Bool.false_eq_true, ↓reduceIte]
  cases hr : (c.role != .leader) <;> cases hl : c.leaseValid <;> cases ho : c.ovr <;>
    cases h1 : nonLeaderOk o <;> cases h2 : servedUnder c.role c.dflt o <;>
    cases h3 : servedUnder c.role (clientPolicy c) o <;> cases hf : f14Trigger c <;>
    simp_all

/-- The model passes its own monitor exactly outside the F14 trigger. -/
theorem model_monitor :
    ∀ c : Case, monitorC13 c (route c) =
      (if f14Trigger c && route c != .na then some "f14-fast-path-ignores-override" else none) := by
  all_cases

/-! Non-vacuity: the hypotheses are satisfiable by non-trivial cases, and the conclusions are not all the
    same constant. -/
example : (⟨.follower, .lin, true, .some .lease, .grpc, false⟩ : Case).role ≠ .leader ∧
    route ⟨.follower, .lin, true, .some .lease, .grpc, false⟩ = .notLeader := by decide
example : route ⟨.candidate, .lin, true, .some .ev, .raft, false⟩ = .localRead false .ev := by decide
example : route ⟨.leader, .ev, false, .some .lin, .raft, false⟩ = .leaderQ .ev := by decide
example : route ⟨.leader, .ev, true, .some .lin, .grpc, false⟩ = .leaderQ .lin := by decide
example : f14Trigger ⟨.leader, .ev, false, .some .lin, .grpc, false⟩ = false := by decide
example : f14Trigger f14Witness = true := by decide

end DEngine.C13
