import DEngine.Model.ReadRoute
/-!
# C13 — Read policy routing is enforced

The quantifier of C13 is a finite product (role × server default × allow_client_override × client policy ×
API path × lease validity = 4·3·2·5·3·2 = 720 cases), so a case analysis over *all* of it is a proof, not a
sample. `route` is the model of the code as it is (tied to the real functions by the `readroute`
correspondence, which enumerates the whole product on every run).

* `nonleader_never_serves_strong`, `nonleader_strong_reports_not_leader` — full strength.
* `override_allowed_means_client_policy` — full strength.
* `no_override_means_default` — full strength since the fix of F14 (the gRPC fast path
  `handle_client_read → StandaloneReadHandle::get_batch → ReadActor` and the embedded fast path
  `EmbeddedReadHandle::get_batch` now replace a client-supplied policy by the server default when
  `allow_client_override` is off). The old witnesses are regression cases.
-/
namespace DEngine.C13
open DEngine.ReadRoute

/-- Every statement below has the shape `∀ c : Case, P c = true` for a decidable `P`; this tactic splits the
    six finite fields and evaluates. -/
macro "all_cases" : tactic =>
  `(tactic| (intro c; rcases c with ⟨role, dflt, ovr, cli, path, lv⟩;
             cases role <;> cases dflt <;> cases ovr <;> cases path <;> cases lv <;>
             (first | (cases cli with
                       | none => decide
                       | unknown => decide
                       | some p => cases p <;> decide))))

/-- **C13, first sentence (full strength).** On every API path, a node that is not the leader — and, being
    not the leader, holds no valid lease (`become_follower` revokes it; C12) — either reports "not leader" or
    answers an *eventual* read; it never answers a linearizable or lease read from local state and never
    queues a read as if it were the leader. -/
theorem nonleader_never_serves_strong :
    ∀ c : Case, c.role ≠ .leader → c.leaseValid = false → nonLeaderOk (route c) = true := by
  have h : ∀ c : Case, (c.role != .leader && !c.leaseValid) → nonLeaderOk (route c) = true := by all_cases
  intro c hr hl
  apply h c
  simp [hl, hr]

/-- …and whenever the policy in force (client's if override is allowed, else the default) is strong, the
    non-leader's answer is exactly "not leader". -/
theorem nonleader_strong_reports_not_leader :
    ∀ c : Case, c.role ≠ .leader → c.leaseValid = false →
      (clientPolicy c).strong = true → route c = .notLeader ∨ route c = .na := by
  have h : ∀ c : Case, (c.role != .leader && !c.leaseValid && (clientPolicy c).strong) →
      (route c == .notLeader || route c == .na) = true := by all_cases
  intro c hr hl hs
  have := h c (by simp [hr, hl, hs])
  simpa using this

/-- Override allowed ⇒ the client's policy (or the default if it named none) is the one in force, on every
    path and role. -/
theorem override_allowed_means_client_policy :
    ∀ c : Case, c.ovr = true → servedUnder c.role (clientPolicy c) (route c) = true := by
  have h : ∀ c : Case, c.ovr → servedUnder c.role (clientPolicy c) (route c) = true := by all_cases
  intro c ho
  exact h c ho

/-- **C13, second sentence (full strength).** Override disallowed ⇒ on every API path, for every role, client
    policy and lease state, the read is served under the server default (locally / queued at the leader under
    exactly the default, or — strong default on a non-leader — refused with "not leader"). Holds since the fix
    "read fast paths honour allow_client_override" (finding F14, now closed). -/
theorem no_override_means_default :
    ∀ c : Case, c.ovr = false → servedUnder c.role c.dflt (route c) = true := by
  have h : ∀ c : Case, (!c.ovr) → servedUnder c.role c.dflt (route c) = true := by all_cases
  intro c ho
  exact h c (by simp [ho])

/-- the old F14 witnesses (kept as regression cases in corpus/readroute/f14.case) are now served under the
    default: the gRPC read goes to the leader's linearizable queue, the embedded read on a follower is refused -/
def f14Witness : Case :=
  { role := .leader, dflt := .lin, ovr := false, cli := .some .ev, path := .grpc, leaseValid := false }
def f14WitnessEmb : Case :=
  { role := .follower, dflt := .lin, ovr := false, cli := .some .ev, path := .emb, leaseValid := false }
theorem f14Witness_route : route f14Witness = .leaderQ .lin := by decide
theorem f14WitnessEmb_route : route f14WitnessEmb = .notLeader := by decide

/-- The monitor is exactly the conjunction of the three predicates above (so a monitor `ok` on an observed
    outcome means the observed outcome satisfies the theorems' conclusions). -/
theorem monitor_ok_iff (c : Case) (o : Outcome) (hna : o ≠ .na) :
    monitorC13 c o = none ↔
      ((c.role ≠ .leader ∧ c.leaseValid = false → nonLeaderOk o = true) ∧
       (c.ovr = false → servedUnder c.role c.dflt o = true) ∧
       (c.ovr = true → servedUnder c.role (clientPolicy c) o = true)) := by
  unfold monitorC13
  have hna' : (o == Outcome.na) = false := by simpa using hna
  simp only [hna', Bool.false_eq_true, ↓reduceIte]
  cases hr : (c.role != .leader) <;> cases hl : c.leaseValid <;> cases ho : c.ovr <;>
    cases h1 : nonLeaderOk o <;> cases h2 : servedUnder c.role c.dflt o <;>
    cases h3 : servedUnder c.role (clientPolicy c) o <;> cases hf : f14Trigger c <;>
    simp_all

/-- The model passes its own monitor on every case. -/
theorem model_monitor : ∀ c : Case, monitorC13 c (route c) = none := by
  all_cases

/-! Non-vacuity: the hypotheses are satisfiable by non-trivial cases, and the conclusions are not all the
    same constant. -/
example : (⟨.follower, .lin, true, .some .lease, .grpc, false⟩ : Case).role ≠ .leader ∧
    route ⟨.follower, .lin, true, .some .lease, .grpc, false⟩ = .notLeader := by decide
example : route ⟨.candidate, .lin, true, .some .ev, .raft, false⟩ = .localRead false .ev := by decide
example : route ⟨.leader, .ev, false, .some .lin, .raft, false⟩ = .leaderQ .ev := by decide
example : route ⟨.leader, .ev, true, .some .lin, .grpc, false⟩ = .leaderQ .lin := by decide
example : route ⟨.leader, .ev, false, .some .lease, .emb, true⟩ = .localRead true .ev := by decide

end DEngine.C13
