import DEngine.Lemmas.Repl
/-!
# C07 — Followers only mark leader-matching entries as committed (local theorems)

Model: `handleAppend` / `stepReq` (replication_handler.rs `handle_append_entries`,
`if_update_commit_index_as_follower`, role_state.rs `handle_append_entries_request_workflow`) and
`filterAppend` (buffered_raft_log.rs `filter_out_conflicts_and_append`), tied to the real code by the `repl`
correspondence. The code is the one AFTER fix F50 (commit c57f05e): the commit rule is fed
`prev_log_index + entries.len()` (index of last new entry) instead of the follower's whole last index, and
the commit index is never lowered.

* `follower_commit_eq`        — the rule as coded: `max(commit, min(leader_commit, prev + len))`.
* `follower_commit_le_last`   — it stays within the follower's log (or where it was).
* `follower_commit_mono`      — it never goes backwards (unconditional);
  `follower_commit_unchanged` — rejected requests and requests with `leader_commit ≤ commit` leave it alone.
* `conflict_hint_le_prev`     — the index a follower sends back in a conflict response is never above the
  refused `prev` (request's prev ≥ 1, inside or beyond a log without purge boundary), so
  `handle_conflict_response` can only keep or lower `next_index`.
* `accept_establishes_prefix` — if the request is cut from the leader's log `ldr`, the follower agreed with
  `ldr` up to `prev` and Log Matching holds between the two logs, then after the request (any of the four
  conflict-append paths, fast path included) the follower agrees with `ldr` up to `prev + len`.
* `follower_commit_matches`   — **no tail hypothesis any more**: whenever the request raises the commit index,
  every index up to the new commit index (above the purge boundary) holds exactly the leader's entry — whatever
  stale tail the follower still carries behind `prev + len`.
  Before F50 this needed an explicit `TailOK` hypothesis and was refuted without it; the old counterexample
  (stale same-term tail 7..10, capped request `[6]`, leader commit 9 ⇒ commit 9 over stale 7..9) is kept as a
  regression example: the follower now commits 6.
Still local (one follower, one request): the cluster-level invariant of DESIGN C07 needs the L3 model.
-/
namespace DEngine.C07
open DEngine.Repl

/-! ## the commit rule -/

/-- the rule function itself never returns more than the index it is given. -/
theorem ifUpdateCommit_le_last (c last lc c' : Nat) (h : ifUpdateCommit c last lc = some c') : c' ≤ last := by
  unfold ifUpdateCommit at h
  split at h
  · injection h with h; omega
  · simp at h

/-- **the rule as coded (since F50)**: `max(commit, min(leader_commit, index of last new entry))`. -/
theorem follower_commit_eq (st : FState) (r : Req) (hacc : Accepts st r) :
    (stepReq st r).1.commit = max st.commit (min r.commit (r.prev + r.ents.length)) := by
  rw [stepReq_accepted hacc]; rfl

/-- rejected requests, and requests whose leader commit is not ahead, leave the commit index alone. -/
theorem follower_commit_unchanged (st : FState) (r : Req) (h : ¬ Accepts st r ∨ r.commit ≤ st.commit) :
    (stepReq st r).1.commit = st.commit := by
  by_cases hacc : Accepts st r
  · rcases h with h | h
    · exact absurd hacc h
    · rw [follower_commit_eq st r hacc]
      have := Nat.min_le_left r.commit (r.prev + r.ents.length)
      exact Nat.max_eq_left (by omega)
  · exact (stepReq_rejected hacc).2

/-- **monotonicity (unconditional)**: no request ever lowers the follower's commit index. -/
theorem follower_commit_mono (st : FState) (r : Req) : st.commit ≤ (stepReq st r).1.commit := by
  by_cases hacc : Accepts st r
  · rw [follower_commit_eq st r hacc]; exact Nat.le_max_left _ _
  · rw [follower_commit_unchanged st r (Or.inl hacc)]; omega

/-- it never exceeds what the leader announced (or what it was). -/
theorem follower_commit_le_leader (st : FState) (r : Req) :
    (stepReq st r).1.commit ≤ max st.commit r.commit := by
  by_cases hacc : Accepts st r
  · rw [follower_commit_eq st r hacc]
    have := Nat.min_le_left r.commit (r.prev + r.ents.length)
    omega
  · rw [follower_commit_unchanged st r (Or.inl hacc)]; omega

/-- it never exceeds what the request verified (or what it was). -/
theorem follower_commit_le_covered (st : FState) (r : Req) :
    (stepReq st r).1.commit ≤ max st.commit (r.prev + r.ents.length) := by
  by_cases hacc : Accepts st r
  · rw [follower_commit_eq st r hacc]
    have := Nat.min_le_right r.commit (r.prev + r.ents.length)
    omega
  · rw [follower_commit_unchanged st r (Or.inl hacc)]; omega

/-- **`follower_commit_le_last`**: after an accepted well-formed request (entries, or a heartbeat whose prev
    lies inside the log) the commit index is within the follower's log, or where it already was. -/
theorem follower_commit_le_last (st : FState) (r : Req) (hacc : Accepts st r)
    (hwf : st.log.wf = true) (hseg : segOK st.log = true) (hc : r.contig = true) (hm : termsMono r.ents = true)
    (hin : r.ents ≠ [] ∨ r.prev ≤ st.log.lastIdx) :
    (stepReq st r).1.commit ≤ max st.commit (stepReq st r).1.log.lastIdx := by
  have hcov := follower_commit_le_covered st r
  have hlast : r.prev + r.ents.length ≤ (stepReq st r).1.log.lastIdx := by
    rw [stepReq_accepted hacc]
    by_cases he : r.ents = []
    · rcases hin with h | h
      · exact absurd he h
      · show r.prev + r.ents.length ≤ (logAfter st.log r).lastIdx
        simp [logAfter, he]; exact h
    · cases hx : r.ents.getLast? with
      | none => exact absurd (List.getLast?_eq_none_iff.mp hx) he
      | some x =>
        obtain ⟨hok, z, hz, hzi, _⟩ := logAfter_post hseg hwf hacc.2 hc hm hx
        have := (mem_bounds hok.gap hz).2
        show r.prev + r.ents.length ≤ lastOf (logAfter st.log r).ents
        omega
  omega

/-! ## conflict hints -/

theorem find?_first_le {f : Nat} {es : List Entry} (h : contigFrom f es = true) (p : Entry → Bool)
    {z : Entry} (hz : z ∈ es) (hp : p z = true) : ∃ y, es.find? p = some y ∧ y.index ≤ z.index ∧ y ∈ es := by
  induction es generalizing f with
  | nil => simp at hz
  | cons x xs ih =>
    have hc := (contigFrom_cons f x xs).mp h
    by_cases hx : p x = true
    · refine ⟨x, by simp [hx], ?_, List.mem_cons_self⟩
      have := contigFrom_index_ge h z hz; omega
    · rcases List.mem_cons.mp hz with rfl | hz'
      · exact absurd hp hx
      · obtain ⟨y, hy, hle, hmem⟩ := ih hc.2 hz'
        exact ⟨y, by simp [hx, hy], hle, List.mem_cons_of_mem _ hmem⟩

/-- **Conflict hints never point past `prev`** (request's `prev` inside the follower's log, or beyond its
    end): the index sent back is ≤ `prev`, so `handle_conflict_response` can only move `next_index` to or
    below the position that was just refused. -/
theorem conflict_hint_le_prev (t : Nat) (r : Req) (l : Log) (hg : gapFree l.ents = true)
    (h1 : ∀ e ∈ l.ents, 1 ≤ e.index) (hb : l.pIdx = 0) (hprev : 1 ≤ r.prev)
    (hfirst : l.ents = [] ∨ l.firstIdx ≤ r.prev)
    {tm : Nat} {ct : Option Nat} {ci : Nat} (h : (checkLegal t r l).1 = .conflict tm ct (some ci)) :
    ci ≤ r.prev := by
  unfold checkLegal at h
  split at h
  · simp at h
  · split at h
    · simp at h
    · rename_i hv
      split at h
      · rename_i t' ht
        split at h
        · simp at h
        · simp only [Ack.conflict.injEq, Option.some.injEq] at h
          obtain ⟨_, _, hci⟩ := h
          -- entry_term(prev) = some t' with no purge boundary: prev is inside the log
          unfold Log.entryTerm at ht
          split at ht
          · simp [hb] at ht
          · rename_i hr
            simp only [Bool.or_eq_true, beq_iff_eq, decide_eq_true_eq, not_or, Nat.not_lt] at hr
            cases hf : findE l.ents r.prev with
            | none => rw [hf] at ht; simp at ht
            | some z =>
              rw [hf] at ht
              simp only [Option.map_some, Option.some.injEq] at ht
              obtain ⟨hzmem, hzi⟩ := findE_some_index hf
              obtain ⟨y, hy, hle, _⟩ := find?_first_le ((gapFree_iff _).mp hg) (fun e => e.term == t') hzmem (by simp [ht])
              simp only [Log.firstIndexForTerm, hy, Option.map_some, Option.getD_some] at hci
              omega
      · rename_i ht
        simp only [Ack.conflict.injEq, Option.some.injEq] at h
        obtain ⟨_, _, hci⟩ := h
        -- entry_term(prev) = none: prev lies outside the log; the hint is last+1
        unfold Log.entryTerm at ht
        split at ht
        · rename_i hr
          simp only [Bool.or_eq_true, beq_iff_eq, decide_eq_true_eq] at hr
          have hv' : ¬ (r.prev = 0 ∧ r.prevTerm = 0) := by simpa using hv
          unfold Log.lastLogId at hci
          cases hgl : l.ents.getLast? with
          | none =>
            simp only [hgl, hb, Nat.lt_irrefl, ↓reduceIte] at hci
            -- empty log, no boundary: hint 1; prev ≥ 1 unless (0, prevTerm≠0)
            omega
          | some w =>
            simp only [hgl, idOf] at hci
            have hwl : l.lastIdx = w.index := by simp [Log.lastIdx, lastOf, hgl]
            have hne : l.ents ≠ [] := List.ne_nil_of_mem (List.mem_of_getLast? hgl)
            have hbd := gapFree_bounds hg hne
            have hp := lastOf_pos h1 hne
            rw [Log.lastIdx_eq] at hwl; rw [Log.lastIdx_eq, Log.firstIdx_eq] at hr
            have hf' : firstOf l.ents ≤ r.prev := by
              rcases hfirst with h' | h'; exact absurd h' hne; rw [Log.firstIdx_eq] at h'; exact h'
            rcases hr with (hr | hr) | hr
            · omega
            · omega
            · omega
        · rename_i hr
          cases hf : findE l.ents r.prev with
          | none => 
            -- in range but not found: impossible in a gap-free log
            simp only [Bool.or_eq_true, beq_iff_eq, decide_eq_true_eq, not_or, Nat.not_lt] at hr
            have hne : l.ents ≠ [] := by
              intro h0; have : l.lastIdx = 0 := by simp [Log.lastIdx, lastOf, h0]
              omega
            obtain ⟨z, hz, hzi, _⟩ := entryTerm_inrange hg h1 hne hr.1.2 hr.2
            have := findE_mem_contig ((gapFree_iff _).mp hg) hz
            rw [hzi, hf] at this; simp at this
          | some z => rw [hf] at ht; simp at ht

/-! ## lookups through the conflict-append paths -/

theorem findE_append_of_right_none {a b : List Entry} {i : Nat} (h : ∀ x ∈ b, x.index ≠ i) :
    findE (a ++ b) i = findE a i := by
  unfold findE
  rw [List.find?_append]
  have : b.find? (fun e => e.index == i) = none := by
    rw [List.find?_eq_none]; intro x hx; simpa using h x hx
  rw [this, Option.or_none]

theorem findE_append_of_left_none {a b : List Entry} {i : Nat} (h : ∀ x ∈ a, x.index ≠ i) :
    findE (a ++ b) i = findE b i := by
  unfold findE
  rw [List.find?_append]
  have : a.find? (fun e => e.index == i) = none := by
    rw [List.find?_eq_none]; intro x hx; simpa using h x hx
  rw [this, Option.none_or]

theorem findE_filter_lt {a : List Entry} {i d : Nat} (h : i < d) :
    findE (a.filter (fun e => e.index < d)) i = findE a i := by
  unfold findE
  rw [List.find?_filter]
  congr 1
  funext e
  by_cases he : e.index = i
  · simp [he, h]
  · simp [he]

/-- `agreeRange` spelled out. -/
theorem agreeRange_iff (ents ldr : List Entry) (lo hi : Nat) :
    agreeRange ents ldr lo hi = true ↔ ∀ i, lo < i → i ≤ hi → findE ents i = findE ldr i := by
  simp only [agreeRange, List.all_eq_true, List.mem_range, beq_iff_eq]
  constructor
  · intro h i h1 h2
    have := h (i - lo - 1) (by omega)
    have e : lo + 1 + (i - lo - 1) = i := by omega
    rwa [e] at this
  · intro h k hk
    exact h (lo + 1 + k) (by omega) (by omega)

/-- Log Matching between the follower's entries and `ldr`, spelled out. -/
theorem logMatching_iff (ents ldr : List Entry) :
    logMatching ents ldr = true ↔
      ∀ e ∈ ents, ∀ e', findE ldr e.index = some e' → e'.term = e.term → e' = e := by
  simp only [logMatching, List.all_eq_true]
  constructor
  · intro h e he e' hf ht
    have := h e he
    rw [hf] at this
    simpa [ht] using this
  · intro h e he
    cases hf : findE ldr e.index with
    | none => rfl
    | some e' =>
      by_cases ht : e'.term = e.term
      · simp [ht, h e he e' hf ht]
      · simp [ht]

/-- a request entry that does not diverge is, under Log Matching, the follower's own entry. -/
theorem nondiverging_is_own {l : Log} (hl : LogOK l) {ldr : List Entry}
    (hLM : logMatching l.ents ldr = true) {e : Entry} (hcut : findE ldr e.index = some e)
    (hnd : diverges l e = false) (hfirst : l.firstIdx ≤ e.index) (h1 : 1 ≤ e.index) :
    findE l.ents e.index = some e := by
  simp only [diverges, Bool.or_eq_false_iff, decide_eq_false_iff_not, bne_eq_false_iff_eq] at hnd
  have hne : l.ents ≠ [] := by
    intro h0; have : l.lastIdx = 0 := by simp [Log.lastIdx, lastOf, h0]
    omega
  obtain ⟨z, hz, hzi, hzt⟩ := entryTerm_inrange hl.gap hl.pos hne hfirst (by omega)
  rw [hnd.2] at hzt
  have hzterm : z.term = e.term := (Option.some.inj hzt).symm
  have hfz := findE_mem_contig ((gapFree_iff _).mp hl.gap) hz
  rw [hzi] at hfz
  have := (logMatching_iff _ _).mp hLM z hz e (by rw [hzi]; exact hcut) hzterm.symm
  rw [hfz, this]

/-- agreement with `ldr` after the slow path. -/
theorem slowPath_prefix (l : Log) (p : Nat) (es ldr : List Entry) (hl : LogOK l)
    (hc : contigFrom (p + 1) es = true) (hatt : l.ents = [] ∨ (l.firstIdx ≤ p + 1 ∧ p ≤ l.lastIdx))
    (hcut : ∀ e ∈ es, findE ldr e.index = some e) (hLM : logMatching l.ents ldr = true)
    (lo : Nat) (hpre : ∀ i, lo < i → i ≤ p → findE l.ents i = findE ldr i) :
    ∀ i, lo < i → i ≤ p + es.length → findE (slowPath l es).1.ents i = findE ldr i := by
  intro i hlo hhi
  -- entries of the request that do not diverge are the follower's own entries
  have hown : ∀ e ∈ es, diverges l e = false → findE l.ents e.index = some e := by
    intro e he hnd
    have hge := contigFrom_index_ge hc e he
    have hne : l.ents ≠ [] := by
      intro h0; have : l.lastIdx = 0 := by simp [Log.lastIdx, lastOf, h0]
      simp only [diverges, Bool.or_eq_false_iff, decide_eq_false_iff_not] at hnd; omega
    have hatt' : l.firstIdx ≤ p + 1 := by rcases hatt with h | h; exact absurd h hne; exact h.1
    exact nondiverging_is_own hl hLM (hcut e he) hnd (by omega) (by omega)
  by_cases hip : i ≤ p
  · -- at or below prev: untouched (everything the slow path removes or appends lies above prev)
    have hpre' := hpre i hlo hip
    cases hd : es.dropWhile (fun e => !diverges l e) with
    | nil => simp only [slowPath, hd]; exact hpre'
    | cons d rest =>
      obtain ⟨hct, hge, _, _, _, _⟩ := dropWhile_contig hc hd
      have hright : ∀ x ∈ d :: rest, x.index ≠ i := by
        intro x hx; have := contigFrom_index_ge hct x hx; omega
      simp only [slowPath, hd]
      split
      · rw [appendE_ents, removeFrom_ents, findE_append_of_right_none hright, findE_filter_lt (by omega)]
        exact hpre'
      · rw [appendE_ents, findE_append_of_right_none hright]; exact hpre'
  · -- inside the request: there is a request entry `e` at index i
    obtain ⟨e, he, hei⟩ := contigFrom_mem_index hc i (by omega) (by omega)
    have hcute := hcut e he
    rw [hei] at hcute
    cases hd : es.dropWhile (fun e => !diverges l e) with
    | nil =>
      have hnd := dropWhile_nil_all hd e he
      simp only [slowPath, hd]
      have := hown e he (by simpa using hnd)
      rw [hei] at this; rw [this, hcute]
    | cons d rest =>
      obtain ⟨hct, hge, hpd, hdmem, hbef, hlen⟩ := dropWhile_contig hc hd
      have hkeep_lt : ∀ x ∈ (if d.index ≤ l.lastIdx then removeFrom l d.index else l).ents, x.index < d.index := by
        intro x hx
        split at hx
        · simpa using (List.mem_filter.mp hx).2
        · rename_i hgt
          have := (mem_bounds hl.gap hx).2
          rw [Log.lastIdx_eq] at hgt; omega
      have hres : (slowPath l es).1 = appendE (if d.index ≤ l.lastIdx then removeFrom l d.index else l) (d :: rest) := by
        simp only [slowPath, hd]; split <;> rfl
      rw [hres, appendE_ents]
      by_cases hid : i < d.index
      · -- below the divergence point: the follower's own entry, which is the leader's
        have hnd := hbef e he (by omega)
        have hright : ∀ x ∈ d :: rest, x.index ≠ i := by
          intro x hx; have := contigFrom_index_ge hct x hx; omega
        rw [findE_append_of_right_none hright]
        have hfe := hown e he (by simpa using hnd)
        rw [hei] at hfe
        split
        · rw [removeFrom_ents, findE_filter_lt hid, hfe, hcute]
        · rw [hfe, hcute]
      · -- from the divergence point on: the request's entries
        have hleft : ∀ x ∈ (if d.index ≤ l.lastIdx then removeFrom l d.index else l).ents, x.index ≠ i := by
          intro x hx; have := hkeep_lt x hx; omega
        rw [findE_append_of_left_none hleft]
        have hetail : e ∈ d :: rest := by
          have hsplit : es = es.takeWhile (fun e => !diverges l e) ++ d :: rest := by
            rw [← hd, List.takeWhile_append_dropWhile]
          rw [hsplit] at he
          rcases List.mem_append.mp he with h' | h'
          · have hp := mem_takeWhile_pred h'
            have hyes : e ∈ es := List.IsPrefix.mem h' (List.takeWhile_prefix _)
            -- everything in the takeWhile part lies below d
            have hlt : e.index < d.index := by
              have hpre2 : es.takeWhile (fun e => !diverges l e) <+: es := List.takeWhile_prefix _
              obtain ⟨t, ht⟩ := hpre2
              have hct2 : contigFrom (p + 1) (es.takeWhile (fun e => !diverges l e) ++ d :: rest) = true := by
                rw [← hsplit]; exact hc
              have h3 := ((contigFrom_append _ _ _).mp hct2)
              have h4 := contigFrom_index_lt h3.1 e h'
              have h5 := ((contigFrom_cons _ _ _).mp h3.2).1
              omega
            omega
          · exact h'
        have := findE_mem_contig hct hetail
        rw [hei] at this; rw [this, hcute]

/-! ## the theorems about matching the leader -/

/-- hypotheses shared by the matching theorems: well-formed follower, request cut from the leader log `ldr`
    and accepted, Log Matching between the two logs, agreement up to `prev` (above the purge boundary). -/
structure CutOK (st : FState) (ldr : List Entry) (r : Req) : Prop where
  wf : st.log.wf = true
  seg : segOK st.log = true
  acc : Accepts st r
  contig : r.contig = true
  mono : termsMono r.ents = true
  cut : ∀ e ∈ r.ents, findE ldr e.index = some e
  lm : logMatching st.log.ents ldr = true
  pre : agreeRange st.log.ents ldr st.log.pIdx r.prev = true

/-- **Accepting a request cut from the leader's log extends the agreement to `prev + len`** — on every
    path of `filter_out_conflicts_and_append` (reset, fast, slow none/conflict/append) and for heartbeats. -/
theorem accept_establishes_prefix (st : FState) (ldr : List Entry) (r : Req) (h : CutOK st ldr r) :
    agreeRange (stepReq st r).1.log.ents ldr st.log.pIdx (r.prev + r.ents.length) = true := by
  rw [stepReq_accepted h.acc, agreeRange_iff]
  have hpre := (agreeRange_iff _ _ _ _).mp h.pre
  have hlok : LogOK st.log := ⟨(wf_parts h.wf).1, (wf_parts h.wf).2.1, h.seg⟩
  have hc : contigFrom (r.prev + 1) r.ents = true := h.contig
  intro i hlo hhi
  simp only [logAfter]
  split
  · rename_i hemp
    have : r.ents = [] := by simpa using hemp
    rw [this] at hhi
    exact hpre i hlo (by simpa using hhi)
  · by_cases hv : r.prev = 0 ∧ r.prevTerm = 0
    · -- reset path: the log is exactly the request
      have h1 : (filterAppend st.log r.prev r.prevTerm r.ents).1 = appendE (resetL st.log) r.ents := by
        simp [filterAppend, hv.1, hv.2]
      rw [h1, appendE_ents, resetL_ents, List.nil_append]
      obtain ⟨e, he, hei⟩ := contigFrom_mem_index hc i (by omega) (by omega)
      have := findE_mem_contig hc he
      rw [hei] at this
      rw [this, ← hei, h.cut e he]
    · have hacc' : st.log.entryTerm r.prev = some r.prevTerm := by
        rcases h.acc.2 with h' | h'; exact absurd h' hv; exact h'
      have hatt := att_of_entryTerm h.wf hacc'
      rw [(filterAppend_eq_slow st.log r.prev r.prevTerm r.ents hlok ⟨hc, h.mono, hatt⟩ hv hacc').1]
      exact slowPath_prefix st.log r.prev r.ents ldr hlok hc hatt h.cut h.lm st.log.pIdx hpre i hlo hhi

/-- **`follower_commit_matches`** (no tail hypothesis since F50): whenever the request raises the follower's
    commit index, every index up to the new commit index (above the purge boundary) holds exactly the
    leader's entry — no matter what the follower still holds behind `prev + len`. -/
theorem follower_commit_matches (st : FState) (ldr : List Entry) (r : Req) (h : CutOK st ldr r)
    (hnew : st.commit < (stepReq st r).1.commit) :
    agreeRange (stepReq st r).1.log.ents ldr st.log.pIdx (stepReq st r).1.commit = true := by
  have hp := (agreeRange_iff _ _ _ _).mp (accept_establishes_prefix st ldr r h)
  have hcov := follower_commit_le_covered st r
  rw [agreeRange_iff]
  intro i hlo hhi
  exact hp i hlo (by omega)

/-! ## the old counterexample, now a regression example -/

/-- leader log: 1..6 term 1, 7..10 term 2 (committed up to 9). -/
def wLdr : List Entry :=
  [⟨1,1,101⟩, ⟨2,1,102⟩, ⟨3,1,103⟩, ⟨4,1,104⟩, ⟨5,1,105⟩, ⟨6,1,106⟩, ⟨7,2,107⟩, ⟨8,2,108⟩, ⟨9,2,109⟩, ⟨10,2,110⟩]
/-- follower: agrees on 1..6, holds a stale tail 7..10 of term 1 (same term as 5,6: the fast path keeps it). -/
def wFol : FState :=
  { term := 2, commit := 3,
    log := appendE {} [⟨1,1,101⟩, ⟨2,1,102⟩, ⟨3,1,103⟩, ⟨4,1,104⟩, ⟨5,1,105⟩, ⟨6,1,106⟩, ⟨7,1,107⟩, ⟨8,1,108⟩,
                        ⟨9,1,109⟩, ⟨10,1,110⟩] }
/-- capped request (cap 1) cut from the leader log, leader commit 9. -/
def wReq : Req := { term := 2, leader := 1, prev := 5, prevTerm := 1, commit := 9, ents := [⟨6,1,106⟩] }

/-- Before F50 the follower set commit = min(9, 10) = 9 over the stale entries 7..9. Now the stale tail is
    still there (the fast path keeps it) but the commit index stops at 6 = prev + len, and everything up to
    it is the leader's. -/
example : (stepReq wFol wReq).1.commit = 6 ∧ (stepReq wFol wReq).1.log.lastIdx = 10 ∧
    findE (stepReq wFol wReq).1.log.ents 7 ≠ findE wLdr 7 ∧
    agreeRange (stepReq wFol wReq).1.log.ents wLdr 0 (stepReq wFol wReq).1.commit = true := by decide

/-! ## Non-vacuity -/

/-- a follower with a conflicting tail, request cut from the leader log that truncates it: all hypotheses
    of `follower_commit_matches` hold (tail hypothesis through its first disjunct). -/
def nvSt : FState :=
  { term := 2, commit := 2, log := appendE {} [⟨1,1,101⟩, ⟨2,1,102⟩, ⟨3,1,103⟩, ⟨4,1,104⟩, ⟨5,1,105⟩] }
def nvReq : Req :=
  { term := 3, leader := 1, prev := 3, prevTerm := 1, commit := 6, ents := [⟨4,2,104⟩, ⟨5,2,105⟩, ⟨6,3,106⟩] }
def nvLdr : List Entry := [⟨1,1,101⟩, ⟨2,1,102⟩, ⟨3,1,103⟩, ⟨4,2,104⟩, ⟨5,2,105⟩, ⟨6,3,106⟩, ⟨7,3,107⟩]

example :
    nvSt.log.wf = true ∧ segOK nvSt.log = true ∧ nvReq.contig = true ∧ termsMono nvReq.ents = true ∧
    logMatching nvSt.log.ents nvLdr = true ∧ agreeRange nvSt.log.ents nvLdr 0 3 = true ∧
    nvSt.commit < (stepReq nvSt nvReq).1.commit ∧ (stepReq nvSt nvReq).1.commit = 6 := by
  decide

end DEngine.C07
