import DEngine.Model.Codec
import DEngine.Lemmas.Codec
/-!
# C37 — Client writes are applied exactly as submitted

Chain: `WriteOperation` —`write_op_to_proto`→ `WriteCommand` —prost encode (`client_command_to_entry_payloads`)→
log bytes —prost decode + `TryFrom<WriteCommand>` (`decode_entries`)→ `Command`.

* `write_roundtrip` (full strength): for **every** operation — arbitrary key/value bytes (empty included),
  `expected ∈ {none, some [], some bs}`, every `ttl : Option UInt64` — the decoded command carries the same
  key, value, expected value, and the TTL under the documented convention "0 = no expiration"
  (`normTtl (some 0) = none`; proto comment on `ttl_secs`, doc of `WriteOperation::Insert::ttl_secs` and of
  `Command::Insert::ttl_secs`).  Only size hypothesis: byte strings shorter than 2^62 (lengths are u64 varints).
* `write_roundtrip_exact`: literally the same fields whenever `ttl ≠ some 0`.
* `cas_expected_preserved`: `none`, `some []` and `some bs` stay three different things.
* `literal_identity_statement_false`: the literal reading "ttl comes back unchanged" is false exactly at
  `ttl = some 0` (design note F27) — judged NOT a defect: the documented meaning of 0 is "no expiration",
  both client paths (embedded `Some(ttl)`, gRPC `ttl_secs`) agree on it (`grpc_write_roundtrip`).
* `grpc_write_roundtrip`: a gRPC client's `WriteCommand` converted by the server (`write_command_to_op`) and
  sent down the chain arrives as `Command::try_from` of the client's own message.
* `decode_encode_write_command`: prost decode ∘ encode = id on every `WriteCommand` with an operation.
-/
namespace DEngine.C37
open DEngine.Codec

/-! ## sizes -/

theorem encVarint_length_le : ∀ (k n : Nat), n < 128 ^ (k + 1) → (encVarint n).length ≤ k + 1 := by
  intro k
  induction k with
  | zero => intro n h; rw [encVarint_small n (by simpa using h)]; simp
  | succ k ih =>
    intro n h
    by_cases hs : n < 128
    · rw [encVarint_small n hs]; simp
    · rw [encVarint_big n hs]
      have : n / 128 < 128 ^ (k + 1) := by
        apply Nat.div_lt_of_lt_mul
        rw [Nat.pow_succ] at h
        rw [Nat.mul_comm]; exact h
      have := ih (n / 128) this
      simp only [List.length_cons]; omega

theorem encVarint_length_le_10 (n : Nat) (h : n < 2 ^ 64) : (encVarint n).length ≤ 10 :=
  encVarint_length_le 9 n (by
    have : (2 : Nat) ^ 64 ≤ 128 ^ 10 := by decide
    omega)

theorem encLenDelim_length (tag : Nat) (b : Bytes) (ht : tag * 8 + 2 < 2 ^ 64) (hb : b.length < 2 ^ 64) :
    (encLenDelim tag b).length ≤ 20 + b.length := by
  unfold encLenDelim encKey
  have h1 := encVarint_length_le_10 _ ht
  have h2 := encVarint_length_le_10 _ hb
  simp only [List.length_append]; omega

theorem encBytesField_length (tag : Nat) (b : Bytes) (ht : tag * 8 + 2 < 2 ^ 64) (hb : b.length < 2 ^ 64) :
    (encBytesField tag b).length ≤ 20 + b.length := by
  unfold encBytesField
  split
  · simp
  · exact encLenDelim_length tag b ht hb

theorem encInsert_length (i : PInsert) (hk : sized i.key) (hv : sized i.value) : (encInsert i).length < 2 ^ 64 := by
  unfold sized at hk hv
  unfold encInsert
  have h1 := encBytesField_length 1 i.key (by decide) (by omega)
  have h2 := encBytesField_length 2 i.value (by decide) (by omega)
  have h3 : (encU64Field 3 i.ttlSecs).length ≤ 20 := by
    unfold encU64Field encKey
    split
    · simp
    · have a := encVarint_length_le_10 (3 * 8 + 0) (by decide)
      have b := encVarint_length_le_10 i.ttlSecs.toNat i.ttlSecs.toNat_lt
      simp only [List.length_append]; omega
  simp only [List.length_append]
  have : (2 : Nat) ^ 62 + 2 ^ 62 + 100 < 2 ^ 64 := by decide
  omega

theorem encDelete_length (d : PDelete) (hk : sized d.key) : (encDelete d).length < 2 ^ 64 := by
  unfold sized at hk
  unfold encDelete
  have h1 := encBytesField_length 1 d.key (by decide) (by omega)
  have : (2 : Nat) ^ 62 + 100 < 2 ^ 64 := by decide
  omega

theorem encCas_length (c : PCas) (hk : sized c.key) (he : ∀ x, c.expected = some x → sized x)
    (hv : sized c.newValue) : (encCas c).length < 2 ^ 64 := by
  unfold sized at hk hv
  unfold encCas
  have h1 := encBytesField_length 1 c.key (by decide) (by omega)
  have h3 := encBytesField_length 3 c.newValue (by decide) (by omega)
  have h2 : (encOptBytesField 2 c.expected).length ≤ 20 + 2 ^ 62 := by
    cases hx : c.expected with
    | none => simp [encOptBytesField]
    | some x =>
      have := he x hx
      unfold sized at this
      have := encLenDelim_length 2 x (by decide) (by omega)
      simp only [encOptBytesField]; omega
  simp only [List.length_append]
  have : (2 : Nat) ^ 62 + 2 ^ 62 + 2 ^ 62 + 100 < 2 ^ 64 := by decide
  omega

/-! ## prost decode ∘ encode = id -/

def WriteCommand.Sized (wc : WriteCommand) : Prop :=
  match wc.operation with
  | some (.insert i) => sized i.key ∧ sized i.value
  | some (.delete d) => sized d.key
  | some (.cas c) => sized c.key ∧ (∀ x, c.expected = some x → sized x) ∧ sized c.newValue
  | none => True

/-- **prost round trip at field level**: decoding the encoding of any `WriteCommand` gives it back. -/
theorem decode_encode_write_command (wc : WriteCommand) (hs : WriteCommand.Sized wc) :
    decWriteCommand (encWriteCommand wc) = some wc := by
  obtain ⟨op⟩ := wc
  cases op with
  | none => rfl
  | some op =>
    cases op with
    | insert i =>
      simp only [WriteCommand.Sized] at hs
      have hlen := encInsert_length i hs.1 hs.2
      have hsub : decMessage mergeInsertField (encInsert i) {} = some i := by
        unfold decMessage
        have := mergeLoop_mono mergeInsertField 3 (encInsert i) {} i (decInsert_enc i hs.1 hs.2)
          ((encInsert i).length + 1)
        rw [show 3 + ((encInsert i).length + 1) = (encInsert i).length + 4 by omega] at this
        exact this
      unfold decWriteCommand decMessage encWriteCommand
      simp only
      have hstep := step_lenDelim mergeWriteCommandField 1 (encInsert i) []
        ((encLenDelim 1 (encInsert i)).length + 3) {} ⟨some (.insert i)⟩ (by omega) (by omega) hlen
        (by
          intro r
          simp only [mergeWriteCommandField, ne_eq, not_true_eq_false, if_false,
            decLenDelim_enc (encInsert i) r hlen, hsub, Option.map_some])
      simp only [List.append_nil] at hstep
      rw [show (encLenDelim 1 (encInsert i)).length + 4 = (encLenDelim 1 (encInsert i)).length + 3 + 1 by omega,
        hstep, mergeLoop_nil]
    | delete d =>
      simp only [WriteCommand.Sized] at hs
      have hlen := encDelete_length d hs
      have hsub : decMessage mergeDeleteField (encDelete d) {} = some d := by
        unfold decMessage
        have := mergeLoop_mono mergeDeleteField 3 (encDelete d) {} d (decDelete_enc d hs)
          ((encDelete d).length + 1)
        rw [show 3 + ((encDelete d).length + 1) = (encDelete d).length + 4 by omega] at this
        exact this
      unfold decWriteCommand decMessage encWriteCommand
      simp only
      have hstep := step_lenDelim mergeWriteCommandField 2 (encDelete d) []
        ((encLenDelim 2 (encDelete d)).length + 3) {} ⟨some (.delete d)⟩ (by omega) (by omega) hlen
        (by
          intro r
          simp only [mergeWriteCommandField, ne_eq, not_true_eq_false, if_false,
            decLenDelim_enc (encDelete d) r hlen, hsub, Option.map_some])
      simp only [List.append_nil] at hstep
      rw [show (encLenDelim 2 (encDelete d)).length + 4 = (encLenDelim 2 (encDelete d)).length + 3 + 1 by omega,
        hstep, mergeLoop_nil]
    | cas c =>
      simp only [WriteCommand.Sized] at hs
      have hlen := encCas_length c hs.1 hs.2.1 hs.2.2
      have hsub : decMessage mergeCasField (encCas c) {} = some c := by
        unfold decMessage
        have := mergeLoop_mono mergeCasField 3 (encCas c) {} c (decCas_enc c hs.1 hs.2.1 hs.2.2)
          ((encCas c).length + 1)
        rw [show 3 + ((encCas c).length + 1) = (encCas c).length + 4 by omega] at this
        exact this
      unfold decWriteCommand decMessage encWriteCommand
      simp only
      have hstep := step_lenDelim mergeWriteCommandField 3 (encCas c) []
        ((encLenDelim 3 (encCas c)).length + 3) {} ⟨some (.cas c)⟩ (by omega) (by omega) hlen
        (by
          intro r
          simp only [mergeWriteCommandField, ne_eq, not_true_eq_false, if_false,
            decLenDelim_enc (encCas c) r hlen, hsub, Option.map_some])
      simp only [List.append_nil] at hstep
      rw [show (encLenDelim 3 (encCas c)).length + 4 = (encLenDelim 3 (encCas c)).length + 3 + 1 by omega,
        hstep, mergeLoop_nil]

theorem writeOpToProto_sized (op : WriteOp) (h : op.Sized) : WriteCommand.Sized (writeOpToProto op) := by
  cases op <;> simpa [writeOpToProto, WriteCommand.Sized, WriteOp.Sized] using h

/-! ## the property -/

/-- **C37 (full strength, documented TTL convention).** -/
theorem write_roundtrip (op : WriteOp) (h : op.Sized) :
    decodeEntryCommand (encodeEntryPayload op) = some (expectedCommand op) := by
  unfold decodeEntryCommand encodeEntryPayload
  rw [decode_encode_write_command _ (writeOpToProto_sized op h)]
  cases op with
  | insert k v ttl =>
    cases ttl with
    | none => simp [writeOpToProto, toCommand, expectedCommand, normTtl]
    | some t =>
      by_cases ht : t = 0
      · simp [writeOpToProto, toCommand, expectedCommand, normTtl, ht]
      · simp [writeOpToProto, toCommand, expectedCommand, normTtl, ht]
  | delete k => rfl
  | cas k e v => rfl

/-- The same operation read as a command, field by field (no normalisation). -/
def asCommand : WriteOp → Command
  | .insert k v ttl => .insert k v ttl
  | .delete k => .delete k
  | .cas k e v => .cas k e v

def ttlOf : WriteOp → Option UInt64
  | .insert _ _ ttl => ttl
  | _ => none

/-- Literally unchanged whenever the TTL is not `some 0`. -/
theorem write_roundtrip_exact (op : WriteOp) (h : op.Sized) (hz : ttlOf op ≠ some 0) :
    decodeEntryCommand (encodeEntryPayload op) = some (asCommand op) := by
  rw [write_roundtrip op h]
  cases op with
  | insert k v ttl =>
    cases ttl with
    | none => rfl
    | some t =>
      have : t ≠ 0 := fun e => hz (by simp [ttlOf, e])
      simp [expectedCommand, asCommand, normTtl, this]
  | delete k => rfl
  | cas k e v => rfl

/-- CAS expected values: absent, present-but-empty and present stay distinct and unchanged. -/
theorem cas_expected_preserved (k v : Bytes) (e : Option Bytes)
    (h : (WriteOp.cas k e v).Sized) :
    decodeEntryCommand (encodeEntryPayload (.cas k e v)) = some (.cas k e v) :=
  write_roundtrip _ h

/-- The literal reading (TTL returned unchanged for *all* TTLs), kept visible. -/
def LiteralIdentityStatement : Prop :=
  ∀ op : WriteOp, op.Sized → decodeEntryCommand (encodeEntryPayload op) = some (asCommand op)

/-- It fails, and only at `ttl = some 0` (see `write_roundtrip_exact`): `put k v ttl=Some(0)` arrives as
    `ttl = None`.  By the documented convention "0 = no expiration" this is the intended meaning. -/
theorem literal_identity_statement_false : ¬ LiteralIdentityStatement := by
  intro hall
  have h := hall (.insert [0x6b] [0x76] (some 0)) (by simp [WriteOp.Sized, sized])
  rw [write_roundtrip _ (by simp [WriteOp.Sized, sized])] at h
  simp [expectedCommand, asCommand, normTtl] at h

/-- gRPC path: the server converts the client's proto message to a native operation
    (`write_command_to_op`), the leader converts it back and encodes it; what the state machine decodes
    is `Command::try_from` of the client's own message. -/
theorem grpc_write_roundtrip (wc : WriteCommand) (op : WriteOp) (hs : WriteCommand.Sized wc)
    (hop : writeCommandToOp wc = some op) :
    decodeEntryCommand (encodeEntryPayload op) = toCommand wc := by
  obtain ⟨o⟩ := wc
  cases o with
  | none => simp [writeCommandToOp] at hop
  | some o =>
    cases o with
    | insert i =>
      simp only [writeCommandToOp, Option.some.injEq] at hop
      subst hop
      rw [write_roundtrip _ (by simpa [WriteOp.Sized, WriteCommand.Sized] using hs)]
      by_cases hz : i.ttlSecs = 0 <;> simp [expectedCommand, toCommand, normTtl, hz]
    | delete d =>
      simp only [writeCommandToOp, Option.some.injEq] at hop
      subst hop
      rw [write_roundtrip _ (by simpa [WriteOp.Sized, WriteCommand.Sized] using hs)]
      rfl
    | cas c =>
      simp only [writeCommandToOp, Option.some.injEq] at hop
      subst hop
      rw [write_roundtrip _ (by simpa [WriteOp.Sized, WriteCommand.Sized] using hs)]
      rfl

/-! ## non-vacuity / concrete encodings (kernel-evaluated) -/

example : (WriteOp.insert [0x6b] [] (some 0xFFFFFFFFFFFFFFFF)).Sized := by simp [WriteOp.Sized, sized]
example : (WriteOp.cas [] (some []) []).Sized := by simp [WriteOp.Sized, sized]
/-- `cas "" (Some "") ""` is the 4 bytes `1a 02 12 00`; `cas "" None ""` is `1a 00`. -/
example : encodeEntryPayload (.cas [] (some []) []) = [0x1a, 0x02, 0x12, 0x00] := by
  simp [encodeEntryPayload, writeOpToProto, encWriteCommand, encLenDelim, encKey, encCas, encBytesField,
    encOptBytesField, encVarint_small]
example : encodeEntryPayload (.cas [] none []) = [0x1a, 0x00] := by
  simp [encodeEntryPayload, writeOpToProto, encWriteCommand, encLenDelim, encKey, encCas, encBytesField,
    encOptBytesField, encVarint_small]

/-! ## corollaries added in the continuation session (DESIGN.md 12.10) -/
theorem asCommand_injective : ∀ a b : WriteOp, asCommand a = asCommand b → a = b := by
  intro a b h
  cases a <;> cases b <;> simp_all [asCommand]

/-- No two different writes share a log encoding: the payload bytes determine the operation (TTL `some 0` excluded,
    because it is by convention the same write as `none`, see `literal_identity_statement_false`). -/
theorem encode_injective (a b : WriteOp) (ha : a.Sized) (hb : b.Sized)
    (hza : ttlOf a ≠ some 0) (hzb : ttlOf b ≠ some 0)
    (h : encodeEntryPayload a = encodeEntryPayload b) : a = b := by
  have ea := write_roundtrip_exact a ha hza
  have eb := write_roundtrip_exact b hb hzb
  rw [h, eb] at ea
  exact (asCommand_injective _ _ (Option.some.inj ea)).symm

/-- With the TTL convention: equal encodings always mean equal *effects* on the state machine. -/
theorem encode_determines_effect (a b : WriteOp) (ha : a.Sized) (hb : b.Sized)
    (h : encodeEntryPayload a = encodeEntryPayload b) : expectedCommand a = expectedCommand b := by
  have ea := write_roundtrip a ha
  have eb := write_roundtrip b hb
  rw [h, eb] at ea
  exact (Option.some.inj ea).symm

end DEngine.C37
