/-
  C05, leader completeness over the benign sub-relation: every commit record is backed by a strict majority that held
  its last entry in the entry's own term (`CInv`), hence (`won_logs_hold`) every later leader holds the whole record.
-/
import DEngine.Lemmas.ClusterCompleteD
namespace DEngine.Cluster

variable {c : Cluster} {e : Event} {H : Hist}

structure CInv (c : Cluster) (H : Hist) : Prop where
  backed : ∀ T pre, (T, pre) ∈ c.commits → Chain c.ghost pre ∧
    ∃ mk ∈ pre, mk.term = T ∧ (∀ y ∈ pre, y.index ≤ mk.index) ∧ VC c H mk

theorem cinv_init (n cap : Nat) : CInv (Cluster.init n cap) {} := ⟨by simp [Cluster.init]⟩

theorem vc_step {x : Entry} (h : VC c H x) : VC (step c e).1 (histStep c e H) x := by
  obtain ⟨Q, h1, h2, h3, h4⟩ := h
  have hn := step_n c e
  exact ⟨Q, h1, fun z hz => by rw [valid_of_n hn]; exact h2 z hz, by rw [hn]; exact h3,
    fun z hz => acc_sub c e H _ (h4 z hz)⟩

theorem filter_ge_map_length (ps : List Peer) (k : Nat) :
    ((ps.map (·.mtch)).filter (fun y => decide (y ≥ k))).length = (ps.filter (fun p => decide (p.mtch ≥ k))).length := by
  induction ps with
  | nil => rfl
  | cons p ps ih =>
    simp only [List.map_cons, List.filter_cons]
    split <;> simp [ih]

theorem step_cinv (X : Ctx c e) (d' : DInv (step c e).1 (histStep c e H)) (ci : CInv c H) :
    CInv (step c e).1 (histStep c e H) := by
  refine ⟨?_⟩
  intro T pre hp
  have old : (T, pre) ∈ c.commits → Chain (step c e).1.ghost pre ∧
      ∃ mk ∈ pre, mk.term = T ∧ (∀ y ∈ pre, y.index ≤ mk.index) ∧ VC (step c e).1 (histStep c e H) mk := by
    intro h0
    obtain ⟨hc, mk, hmk, h1, h2, h3⟩ := ci.backed T pre h0
    exact ⟨chainFrom_mono (ghost_sub c e) hc, mk, hmk, h1, h2, vc_step h3⟩
  rcases commits_step c e with hs | ⟨l, hcm, hrole, ⟨hmed, hterm⟩, hvalid⟩
  · rw [hs] at hp; exact old hp
  · rw [hcm] at hp
    rcases List.mem_cons.mp hp with hp | hp
    · obtain ⟨hT, hpre⟩ := Prod.mk.inj hp
      have hn := step_n c e
      have hchain := X.hI'.logs l
      have hlen := lastIndex_chain hchain
      obtain ⟨mk, hmkl, hmki, hmkt⟩ := entryTerm_some_mem hterm
      have hkle : ((step c e).1.nodes l).commit ≤ ((step c e).1.nodes l).log.length := by
        rw [← hmki]
        have h1 := (List.getElem?_eq_some_iff.mp (chain_mem_get hchain hmkl).1).1
        have h2 := (chain_mem_get hchain hmkl).2
        omega
      rw [hpre, hT]
      refine ⟨?_, mk, ?_, hmkt, ?_, ?_⟩
      · rw [filter_le_chain hchain]; exact chainFrom_take hchain _
      · exact List.mem_filter.mpr ⟨hmkl, by simp [hmki]⟩
      · intro y hy
        have := (List.mem_filter.mp hy).2
        simp at this; omega
      · -- the majority behind the commit index
        have hpids := d'.pids l hrole
        have hlv : c.valid l = true := hvalid
        have hl1 : 1 ≤ l ∧ l ≤ c.n := by
          simp only [Cluster.valid, Bool.and_eq_true, decide_eq_true_eq] at hlv; exact hlv
        have hplen : ((step c e).1.nodes l).peers.length + 1 = c.n := by
          have h1 : ((step c e).1.nodes l).peers.length = (peerIds l (step c e).1.n).length := by
            rw [← hpids, List.length_map]
          rw [h1, hn, peerIds_length l hl1.1 c.n, if_pos hl1.2]
          have hpos : 1 ≤ c.n := Nat.le_trans hl1.1 hl1.2
          exact Nat.sub_add_cancel hpos
        have hne : ((step c e).1.nodes l).peers.map (·.mtch) ++ [lastIndex ((step c e).1.nodes l).log] ≠ [] := by simp
        have hmaj := median_majority _ hne
        rw [(sortDesc_perm _).length_eq] at hmed
        rw [(sortDesc_perm _).length_eq, hmed] at hmaj
        simp only [List.filter_append, List.length_append, List.length_map, List.length_cons, List.length_nil] at hmaj
        have hlast : ([lastIndex ((step c e).1.nodes l).log].filter
            (fun y => decide (y ≥ ((step c e).1.nodes l).commit))).length = 1 := by
          have : lastIndex ((step c e).1.nodes l).log ≥ ((step c e).1.nodes l).commit := by rw [hlen]; exact hkle
          simp [this]
        rw [hlast, filter_ge_map_length] at hmaj
        let good := ((step c e).1.nodes l).peers.filter (fun p => decide (p.mtch ≥ ((step c e).1.nodes l).commit))
        have hgood_sub : ∀ q ∈ good, q ∈ ((step c e).1.nodes l).peers := fun q hq => (List.mem_filter.mp hq).1
        have hgood_ids : ∀ z ∈ good.map (·.id), z ∈ peerIds l (step c e).1.n := by
          intro z hz
          obtain ⟨q, hq, rfl⟩ := List.mem_map.mp hz
          rw [← hpids]; exact List.mem_map.mpr ⟨q, hgood_sub q hq, rfl⟩
        refine ⟨l :: good.map (·.id), ?_, ?_, ?_, ?_⟩
        · refine List.nodup_cons.mpr ⟨?_, ?_⟩
          · intro hz
            exact (mem_peerIds.mp (hgood_ids l hz)).2.2 rfl
          · have hsub : (good.map (·.id)).Sublist (((step c e).1.nodes l).peers.map (·.id)) :=
              List.Sublist.map _ List.filter_sublist
            rw [hpids] at hsub
            exact List.Nodup.sublist hsub (peerIds_nodup _ _)
        · intro z hz
          rcases List.mem_cons.mp hz with hz | hz
          · subst hz; rw [valid_of_n hn]; exact hlv
          · have := mem_peerIds.mp (hgood_ids z hz)
            simp only [Cluster.valid, Bool.and_eq_true, decide_eq_true_eq]
            exact ⟨this.1, this.2.1⟩
        · simp only [List.length_cons, List.length_map]
          rw [hn]
          have hg : good.length = (((step c e).1.nodes l).peers.filter
            (fun p => decide (p.mtch ≥ ((step c e).1.nodes l).commit))).length := rfl
          omega
        · intro z hz
          rcases List.mem_cons.mp hz with hz | hz
          · subst hz
            simp only [histStep]
            refine List.mem_append_right _ (mem_accNow.mpr ⟨?_, hmkl, hmkt⟩)
            rw [hn]; exact mem_voterIds hlv
          · obtain ⟨q, hq, rfl⟩ := List.mem_map.mp hz
            have hqm := (List.mem_filter.mp hq).2
            simp only [decide_eq_true_eq] at hqm
            exact (d'.mtch l hrole q (hgood_sub q hq)).2 mk hmkl (by omega) hmkt
    · exact old hp

end DEngine.Cluster
