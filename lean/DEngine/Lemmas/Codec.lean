import DEngine.Model.Codec
/-!
  Helper lemmas for M-CODEC (C37): varint / key / length-delimited round trips and one-field steps of the
  prost merge loop.
-/
namespace DEngine.Codec

/-- Largest value + 1 that a varint of at most `k` more bytes may carry when the 10th byte must be < 2. -/
def vbound : Nat → Nat
  | 0 => 0
  | 1 => 2
  | k + 2 => 128 * vbound (k + 1)

theorem vbound_10 : vbound 10 = 2 ^ 64 := by decide

theorem toUInt8_toNat (n : Nat) (h : n < 256) : (n.toUInt8).toNat = n := by
  simp [Nat.toUInt8, UInt8.toNat_ofNat']; omega

theorem encVarint_small (n : Nat) (h : n < 128) : encVarint n = [n.toUInt8] := by
  rw [encVarint]; simp [h]

theorem encVarint_big (n : Nat) (h : ¬ n < 128) :
    encVarint n = (n % 128 + 128).toUInt8 :: encVarint (n / 128) := by
  rw [encVarint]; simp [h]

theorem encVarint_ne_nil (n : Nat) : encVarint n ≠ [] := by
  by_cases h : n < 128
  · rw [encVarint_small n h]; simp
  · rw [encVarint_big n h]; simp

theorem decVarintB_enc : ∀ (k n : Nat) (rest : List UInt8), n < vbound k →
    decVarintB k (encVarint n ++ rest) = some (n, rest) := by
  intro k
  induction k with
  | zero => intro n rest h; simp [vbound] at h
  | succ k ih =>
    intro n rest h
    by_cases hs : n < 128
    · rw [encVarint_small n hs]
      have hb : (n.toUInt8).toNat = n := toUInt8_toNat n (by omega)
      have hlt : n.toUInt8 < 0x80 := by
        rw [UInt8.lt_iff_toNat_lt, hb]; exact hs
      simp only [List.cons_append, List.nil_append, decVarintB, hlt, if_true]
      by_cases hk : k = 0
      · subst hk
        simp only [vbound] at h
        have : ¬ (n.toUInt8 ≥ 2) := by
          rw [ge_iff_le, UInt8.le_iff_toNat_le, hb]; simp; omega
        simp [this, hb]
      · simp [hk, hb]
    · rw [encVarint_big n hs]
      have hb : ((n % 128 + 128).toUInt8).toNat = n % 128 + 128 := toUInt8_toNat _ (by omega)
      have hge : ¬ ((n % 128 + 128).toUInt8 < 0x80) := by
        rw [UInt8.lt_iff_toNat_lt, hb]; simp
      cases k with
      | zero => simp [vbound] at h; omega
      | succ k' =>
        simp only [vbound] at h
        have hdiv : n / 128 < vbound (k' + 1) := by omega
        simp only [List.cons_append, decVarintB, hge, if_false, ih (n / 128) rest hdiv, Option.map_some, hb]
        congr 2
        omega

/-- **varint round trip** for every u64 value. -/
theorem decVarint_enc (n : Nat) (rest : List UInt8) (h : n < 2 ^ 64) :
    decVarint (encVarint n ++ rest) = some (n, rest) := by
  unfold decVarint
  exact decVarintB_enc 10 n rest (by rw [vbound_10]; exact h)

theorem decKey_enc (tag wt : Nat) (rest : List UInt8) (ht : 1 ≤ tag) (hw : wt ≤ 5)
    (hk : tag * 8 + wt ≤ 0xFFFFFFFF) :
    decKey (encKey tag wt ++ rest) = some (tag, wt, rest) := by
  unfold decKey encKey
  rw [decVarint_enc _ _ (by omega)]
  have h1 : ¬ (tag * 8 + wt > 0xFFFFFFFF) := by omega
  have h2 : (tag * 8 + wt) % 8 = wt := by omega
  have h3 : (tag * 8 + wt) / 8 = tag := by omega
  simp only [h1, if_false, h2, h3]
  have h4 : ¬ wt > 5 := by omega
  have h5 : ¬ tag = 0 := by omega
  simp [h4, h5]

theorem decLenDelim_enc (b rest : List UInt8) (h : b.length < 2 ^ 64) :
    decLenDelim (encVarint b.length ++ (b ++ rest)) = some (b, rest) := by
  unfold decLenDelim
  rw [decVarint_enc _ _ h]
  simp

/-! ## the merge loop -/

theorem mergeLoop_nil {α : Type} (f : α → Nat → Nat → List UInt8 → Option (α × List UInt8)) (n : Nat) (m : α) :
    mergeLoop f n [] m = some m := by
  cases n <;> rfl

theorem mergeLoop_step {α : Type} (f : α → Nat → Nat → List UInt8 → Option (α × List UInt8))
    (n : Nat) (bs : List UInt8) (m : α) (h : bs ≠ []) :
    mergeLoop f (n + 1) bs m =
      match decKey bs with
      | none => none
      | some (tag, wt, rest) =>
        match f m tag wt rest with
        | none => none
        | some (m', rest') => mergeLoop f n rest' m' := by
  cases bs with
  | nil => exact absurd rfl h
  | cons b bs => rfl

theorem mergeLoop_mono {α : Type} (f : α → Nat → Nat → List UInt8 → Option (α × List UInt8)) :
    ∀ (n : Nat) (bs : List UInt8) (m r : α), mergeLoop f n bs m = some r →
      ∀ d, mergeLoop f (n + d) bs m = some r := by
  intro n
  induction n with
  | zero =>
    intro bs m r h d
    cases bs with
    | nil => rw [mergeLoop_nil] at h ⊢; exact h
    | cons b bs => simp [mergeLoop] at h
  | succ n ih =>
    intro bs m r h d
    cases bs with
    | nil => rw [mergeLoop_nil] at h ⊢; exact h
    | cons b bs =>
      have e : n + 1 + d = (n + d) + 1 := by omega
      rw [e]
      simp only [mergeLoop] at h ⊢
      cases hk : decKey (b :: bs) with
      | none => simp [hk] at h
      | some kr =>
        obtain ⟨tag, wt, rest⟩ := kr
        simp only [hk] at h ⊢
        cases hf : f m tag wt rest with
        | none => simp [hf] at h
        | some mr =>
          obtain ⟨m', rest'⟩ := mr
          simp only [hf] at h ⊢
          exact ih rest' m' r h d

theorem encLenDelim_ne_nil (tag : Nat) (b : Bytes) (rest : List UInt8) : encLenDelim tag b ++ rest ≠ [] := by
  unfold encLenDelim encKey
  have := encVarint_ne_nil (tag * 8 + 2)
  cases h : encVarint (tag * 8 + 2) with
  | nil => exact absurd h this
  | cons x xs => simp

theorem encLenDelim_assoc (tag : Nat) (b : Bytes) (rest : List UInt8) :
    encLenDelim tag b ++ rest = encKey tag 2 ++ (encVarint b.length ++ (b ++ rest)) := by
  simp [encLenDelim, List.append_assoc]

/-- One length-delimited known field of a message: generic step. -/
theorem step_lenDelim {α : Type} (f : α → Nat → Nat → List UInt8 → Option (α × List UInt8))
    (tag : Nat) (b : Bytes) (rest : List UInt8) (n : Nat) (m m' : α)
    (ht : 1 ≤ tag) (htk : tag * 8 + 2 ≤ 0xFFFFFFFF) (hb : b.length < 2 ^ 64)
    (hf : ∀ r, f m tag 2 (encVarint b.length ++ (b ++ r)) = some (m', r)) :
    mergeLoop f (n + 1) (encLenDelim tag b ++ rest) m = mergeLoop f n rest m' := by
  rw [mergeLoop_step f n _ m (encLenDelim_ne_nil tag b rest), encLenDelim_assoc,
    decKey_enc tag 2 _ ht (by omega) htk]
  simp only [hf rest]

/-! ### Insert -/

theorem insert_key_field (m : PInsert) (b : Bytes) (hb : b.length < 2 ^ 64) (r : List UInt8) :
    mergeInsertField m 1 2 (encVarint b.length ++ (b ++ r)) = some ({ m with key := b }, r) := by
  simp [mergeInsertField, mergeBytes, decLenDelim_enc b r hb]

theorem insert_value_field (m : PInsert) (b : Bytes) (hb : b.length < 2 ^ 64) (r : List UInt8) :
    mergeInsertField m 2 2 (encVarint b.length ++ (b ++ r)) = some ({ m with value := b }, r) := by
  simp [mergeInsertField, mergeBytes, decLenDelim_enc b r hb]

theorem insert_ttl_step (m : PInsert) (v : UInt64) (rest : List UInt8) (n : Nat) :
    mergeLoop mergeInsertField (n + 1) (encKey 3 0 ++ encVarint v.toNat ++ rest) m
      = mergeLoop mergeInsertField n rest { m with ttlSecs := v } := by
  have hne : encKey 3 0 ++ encVarint v.toNat ++ rest ≠ [] := by
    unfold encKey
    cases h : encVarint (3 * 8 + 0) with
    | nil => exact absurd h (encVarint_ne_nil _)
    | cons x xs => simp
  rw [mergeLoop_step _ n _ m hne, List.append_assoc, decKey_enc 3 0 _ (by omega) (by omega) (by omega)]
  have hv : v.toNat < 2 ^ 64 := v.toNat_lt
  simp only [mergeInsertField, mergeU64, ne_eq, not_true_eq_false, if_false, decVarint_enc _ _ hv,
    Option.map_some, UInt64.ofNat_toNat]

theorem decInsert_enc (i : PInsert) (hk : sized i.key) (hv : sized i.value) :
    mergeLoop mergeInsertField 3 (encInsert i) {} = some i := by
  obtain ⟨k, v, t⟩ := i
  have hk' : k.length < 2 ^ 64 := by unfold sized at hk; simp at hk; omega
  have hv' : v.length < 2 ^ 64 := by unfold sized at hv; simp at hv; omega
  unfold encInsert encBytesField encU64Field
  by_cases h1 : k = [] <;> by_cases h2 : v = [] <;> by_cases h3 : t = 0
  all_goals simp only [h1, h2, h3, List.isEmpty_nil, List.isEmpty_iff, if_true, if_false, List.nil_append,
    List.append_nil]
  · rfl
  · have := insert_ttl_step {} t [] 2
    simp only [List.append_nil] at this
    rw [this, mergeLoop_nil]
  · have := step_lenDelim mergeInsertField 2 v [] 2 {} { value := v } (by omega) (by omega) hv'
      (insert_value_field {} v hv')
    simp only [List.append_nil] at this
    rw [this, mergeLoop_nil]
  · rw [step_lenDelim mergeInsertField 2 v _ 2 {} { value := v } (by omega) (by omega) hv'
      (insert_value_field {} v hv')]
    have := insert_ttl_step { value := v } t [] 1
    simp only [List.append_nil] at this
    rw [this, mergeLoop_nil]
  · have := step_lenDelim mergeInsertField 1 k [] 2 {} { key := k } (by omega) (by omega) hk'
      (insert_key_field {} k hk')
    simp only [List.append_nil] at this
    rw [this, mergeLoop_nil]
  · rw [step_lenDelim mergeInsertField 1 k _ 2 {} { key := k } (by omega) (by omega) hk'
      (insert_key_field {} k hk')]
    have := insert_ttl_step { key := k } t [] 1
    simp only [List.append_nil] at this
    rw [this, mergeLoop_nil]
  · rw [step_lenDelim mergeInsertField 1 k _ 2 {} { key := k } (by omega) (by omega) hk'
      (insert_key_field {} k hk')]
    have := step_lenDelim mergeInsertField 2 v [] 1 { key := k } { key := k, value := v } (by omega) (by omega) hv'
      (insert_value_field { key := k } v hv')
    simp only [List.append_nil] at this
    rw [this, mergeLoop_nil]
  · rw [List.append_assoc, step_lenDelim mergeInsertField 1 k _ 2 {} { key := k } (by omega) (by omega) hk'
      (insert_key_field {} k hk')]
    rw [step_lenDelim mergeInsertField 2 v _ 1 { key := k } { key := k, value := v } (by omega) (by omega) hv'
      (insert_value_field { key := k } v hv')]
    have := insert_ttl_step { key := k, value := v } t [] 0
    simp only [List.append_nil] at this
    rw [this, mergeLoop_nil]

/-! ### Delete -/

theorem delete_key_field (m : PDelete) (b : Bytes) (hb : b.length < 2 ^ 64) (r : List UInt8) :
    mergeDeleteField m 1 2 (encVarint b.length ++ (b ++ r)) = some ({ m with key := b }, r) := by
  simp [mergeDeleteField, mergeBytes, decLenDelim_enc b r hb]

theorem decDelete_enc (d : PDelete) (hk : sized d.key) :
    mergeLoop mergeDeleteField 3 (encDelete d) {} = some d := by
  obtain ⟨k⟩ := d
  have hk' : k.length < 2 ^ 64 := by unfold sized at hk; simp at hk; omega
  unfold encDelete encBytesField
  by_cases h1 : k = []
  · simp only [h1, List.isEmpty_nil, if_true]; rfl
  · simp only [h1, List.isEmpty_iff, if_false]
    have := step_lenDelim mergeDeleteField 1 k [] 2 {} { key := k } (by omega) (by omega) hk'
      (delete_key_field {} k hk')
    simp only [List.append_nil] at this
    rw [this, mergeLoop_nil]

/-! ### CompareAndSwap -/

theorem cas_key_field (m : PCas) (b : Bytes) (hb : b.length < 2 ^ 64) (r : List UInt8) :
    mergeCasField m 1 2 (encVarint b.length ++ (b ++ r)) = some ({ m with key := b }, r) := by
  simp [mergeCasField, mergeBytes, decLenDelim_enc b r hb]

theorem cas_expected_field (m : PCas) (b : Bytes) (hb : b.length < 2 ^ 64) (r : List UInt8) :
    mergeCasField m 2 2 (encVarint b.length ++ (b ++ r)) = some ({ m with expected := some b }, r) := by
  simp [mergeCasField, mergeBytes, decLenDelim_enc b r hb]

theorem cas_value_field (m : PCas) (b : Bytes) (hb : b.length < 2 ^ 64) (r : List UInt8) :
    mergeCasField m 3 2 (encVarint b.length ++ (b ++ r)) = some ({ m with newValue := b }, r) := by
  simp [mergeCasField, mergeBytes, decLenDelim_enc b r hb]

theorem decCas_enc (c : PCas) (hk : sized c.key) (he : ∀ x, c.expected = some x → sized x)
    (hv : sized c.newValue) :
    mergeLoop mergeCasField 3 (encCas c) {} = some c := by
  obtain ⟨k, e, v⟩ := c
  have hk' : k.length < 2 ^ 64 := by unfold sized at hk; simp at hk; omega
  have hv' : v.length < 2 ^ 64 := by unfold sized at hv; simp at hv; omega
  unfold encCas encBytesField
  cases e with
  | none =>
    simp only [encOptBytesField, List.append_nil]
    by_cases h1 : k = [] <;> by_cases h3 : v = []
    all_goals simp only [h1, h3, List.isEmpty_nil, List.isEmpty_iff, if_true, if_false, List.nil_append,
      List.append_nil]
    · rfl
    · have := step_lenDelim mergeCasField 3 v [] 2 {} { newValue := v } (by omega) (by omega) hv'
        (cas_value_field {} v hv')
      simp only [List.append_nil] at this
      rw [this, mergeLoop_nil]
    · have := step_lenDelim mergeCasField 1 k [] 2 {} { key := k } (by omega) (by omega) hk'
        (cas_key_field {} k hk')
      simp only [List.append_nil] at this
      rw [this, mergeLoop_nil]
    · rw [step_lenDelim mergeCasField 1 k _ 2 {} { key := k } (by omega) (by omega) hk'
        (cas_key_field {} k hk')]
      have := step_lenDelim mergeCasField 3 v [] 1 { key := k } { key := k, newValue := v } (by omega) (by omega) hv'
        (cas_value_field { key := k } v hv')
      simp only [List.append_nil] at this
      rw [this, mergeLoop_nil]
  | some x =>
    have hx' : x.length < 2 ^ 64 := by
      have := he x rfl; unfold sized at this; omega
    simp only [encOptBytesField]
    by_cases h1 : k = [] <;> by_cases h3 : v = []
    all_goals simp only [h1, h3, List.isEmpty_nil, List.isEmpty_iff, if_true, if_false, List.nil_append,
      List.append_nil]
    · have := step_lenDelim mergeCasField 2 x [] 2 {} { expected := some x } (by omega) (by omega) hx'
        (cas_expected_field {} x hx')
      simp only [List.append_nil] at this
      rw [this, mergeLoop_nil]
    · rw [step_lenDelim mergeCasField 2 x _ 2 {} { expected := some x } (by omega) (by omega) hx'
        (cas_expected_field {} x hx')]
      have := step_lenDelim mergeCasField 3 v [] 1 { expected := some x } { expected := some x, newValue := v }
        (by omega) (by omega) hv' (cas_value_field { expected := some x } v hv')
      simp only [List.append_nil] at this
      rw [this, mergeLoop_nil]
    · rw [step_lenDelim mergeCasField 1 k _ 2 {} { key := k } (by omega) (by omega) hk'
        (cas_key_field {} k hk')]
      have := step_lenDelim mergeCasField 2 x [] 1 { key := k } { key := k, expected := some x }
        (by omega) (by omega) hx' (cas_expected_field { key := k } x hx')
      simp only [List.append_nil] at this
      rw [this, mergeLoop_nil]
    · rw [List.append_assoc, step_lenDelim mergeCasField 1 k _ 2 {} { key := k } (by omega) (by omega) hk'
        (cas_key_field {} k hk')]
      rw [step_lenDelim mergeCasField 2 x _ 1 { key := k } { key := k, expected := some x }
        (by omega) (by omega) hx' (cas_expected_field { key := k } x hx')]
      have := step_lenDelim mergeCasField 3 v [] 0 { key := k, expected := some x }
        { key := k, expected := some x, newValue := v } (by omega) (by omega) hv'
        (cas_value_field { key := k, expected := some x } v hv')
      simp only [List.append_nil] at this
      rw [this, mergeLoop_nil]

end DEngine.Codec
