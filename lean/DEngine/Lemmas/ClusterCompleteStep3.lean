/-
  C05, leader completeness: preservation of `HInv`, part 3 — an entry held in its own term stays in the log unless a
  later leader that did not have it took over (`keep`).
-/
import DEngine.Lemmas.ClusterCompleteStep3a
namespace DEngine.Cluster

variable {c : Cluster} {e : Event} {H : Hist}

theorem acceptOrKeep_fst (l : Log) (r : AeReq) :
    (acceptOrKeep l r).1 = l ∨ (acceptOrKeep l r).1 = (acceptEntries l r.prevI r.prevT r.entries).1 := by
  unfold acceptOrKeep
  split
  · left; rfl
  · right; rfl

theorem hinv_keep (X : Ctx c e) (h : HInv c H) : ∀ z x, (z, x) ∈ (histStep c e H).acc →
    x ∈ ((step c e).1.nodes z).log ∨
    ∃ t'' L, (t'', L) ∈ (histStep c e H).won ∧ x.term < t'' ∧ t'' ≤ ((step c e).1.nodes z).term ∧ x ∉ L ∧
      (t'' = ((step c e).1.nodes z).term → ∃ w, ((step c e).1.nodes z).vote = some w ∧ w.term = t'' ∧
        (t'', w.id) ∈ (step c e).1.leaderTerms) := by
  intro z x hx
  simp only [histStep, List.mem_append] at hx
  rcases hx with hold | hnew
  · have hmono := term_mono X.hE e z
    rcases h.keep z x hold with hin | ⟨t'', L, hL, hlt, hle, hnot, hcl⟩
    · -- x is in the log before the step
      rcases log_step_cases c e z with hl | ⟨new, hl⟩ | ⟨m, src, sid, r, rp, he, hfm, _⟩ | ⟨k, keep, he, _⟩
      · left; rw [hl]; exact hin
      · left; rw [hl]; exact List.mem_append_left _ hin
      · subst he
        rcases node_at_deliver c m src z sid r rp hfm with ⟨hn, _⟩ | ⟨hn, _⟩
        · left; rw [hn]; exact hin
        · rcases onAppendEntries_spec (c.nodes z) r with hs | hs
          · left; rw [hn, hs.1]; exact hin
          · obtain ⟨hterm, _, hlog, hres, hle1, hle2⟩ := hs
            obtain ⟨y0, hy0, hy0x⟩ := findMsg_mem hfm
            have hae : aeOf y0.2 = some r := by rw [hy0x]; rfl
            have hchain := X.hI.msgs y0 hy0 r hae
            by_cases h0 : r.prevI = 0 ∧ r.prevT = 0
            · left; exact ((benignB_iff _ _).mp X.hb).2 m src z sid r rp rfl hfm h0.1 h0.2 x hin
            · rcases acceptOrKeep_fst (c.nodes z).log r with hk | hk
              · left; rw [hn, hlog, hk]; exact hin
              · have hxt := h.acc_tb z x hold
                by_cases heq : r.term = x.term
                · left; rw [hn, hlog, hk]
                  exact accept_keeps_below X.hI.gfun (X.hI.logs z) hchain h0 hin
                    (fun w hw hwi => h.reqrun y0 hy0 r hae _ (X.hI.logs z) x hin heq.symm w hw hwi)
                · have hgt : x.term < r.term := by omega
                  have hmsg := X.hE.msgs y0 hy0 r hae
                  obtain ⟨L, hL⟩ := h.lt_won _ _ hmsg
                  obtain ⟨ll, hll, hsub, hwon⟩ := h.reqwon y0 hy0 r hae
                  by_cases hxL : x ∈ L
                  · left; rw [hn, hlog, hk]
                    exact accept_keeps_shared X.hI.gfun (X.hI.logs z) hll hsub hchain h0 hin (hwon L hL x hxL)
                  · right
                    refine ⟨r.term, L, won_sub c _ H _ hL, hgt, by rw [hn, hterm]; exact Nat.le_refl _, hxL, ?_⟩
                    intro _
                    exact ⟨_, by rw [hn]; exact onAppendEntries_vote _ _ _ hres, rfl, lt_sub c _ _ hmsg⟩
      · left
        exact ((benignB_iff _ _).mp X.hb).1 z k he x hin
    · -- a later leader without x had already taken over
      right
      refine ⟨t'', L, won_sub c e H _ hL, hlt, Nat.le_trans hle hmono, hnot, ?_⟩
      intro heq
      have hteq : ((step c e).1.nodes z).term = (c.nodes z).term := by omega
      obtain ⟨w, hw, hwt, hwl⟩ := hcl (by omega)
      obtain ⟨w', hw', hwt', hid⟩ := vote_step X.hE e z hteq w hw (by omega)
      refine ⟨w', hw', by omega, ?_⟩
      rcases hid with hid | hid
      · rw [hid]; exact lt_sub c e _ hwl
      · have : t'' = (c.nodes z).term := by omega
        rw [this]; exact hid
  · left; exact (mem_accNow.mp hnew).2.1

end DEngine.Cluster
