/-
  Every step of the cluster model preserves the election invariant `EInv` (given the log-matching invariant `Inv` of
  the pre-state, used only for "a leader's term is a recorded leadership").
-/
import DEngine.Lemmas.ClusterElect
import DEngine.Lemmas.ClusterWritesStep
namespace DEngine.Cluster

theorem valid_of_n {c c' : Cluster} (hn : c'.n = c.n) (i : NodeId) : c'.valid i = c.valid i := by
  simp [Cluster.valid, hn]

/-- steps that touch neither terms, votes, elections, grants nor leaderships -/
theorem einv_frame {c c' : Cluster} (h : EInv c) (hn : c'.n = c.n) (hlt : c'.leaderTerms = c.leaderTerms)
    (hg : c'.grants = c.grants)
    (hnodes : ∀ j, (c'.nodes j).term = (c.nodes j).term ∧ (c'.nodes j).vote = (c.nodes j).vote ∧
      (c'.nodes j).election = (c.nodes j).election)
    (hmsgs : ∀ x ∈ c'.msgs, ∀ r, aeOf x.2 = some r → (r.term, r.leader) ∈ c.leaderTerms) : EInv c' := by
  refine ⟨by rw [hlt]; exact h.fresh, ?_, ?_, ?_, ?_, ?_, ?_, ?_, ?_, ?_⟩
  · intro g hg'; rw [hg] at hg'; rw [(hnodes g.1).1]; exact h.gterm g hg'
  · intro g hg' ht; rw [hg] at hg'; rw [(hnodes g.1).1] at ht; rw [(hnodes g.1).2.1]; exact h.gvote g hg' ht
  · intro g1 h1 g2 h2; rw [hg] at h1 h2; exact h.guniq g1 h1 g2 h2
  · intro g hg'; rw [hg] at hg'; rw [valid_of_n hn]; exact h.gvalid g hg'
  · intro v w hv hc; rw [(hnodes v).2.1] at hv; rw [hlt]; exact h.cvote v w hv hc
  · intro x hx r hr; rw [hlt]; exact hmsgs x hx r hr
  · intro p hp; rw [hlt] at hp; rw [(hnodes p.2).1]; exact h.lterm p hp
  · intro p hp; rw [hlt] at hp; rw [hg, hn]; exact h.lquorum p hp
  · intro i el hel
    rw [(hnodes i).2.2] at hel
    have := h.elect i el hel
    unfold ElectOK at *
    rw [(hnodes i).1, valid_of_n hn, hlt, hg]
    exact this

theorem frame_update1 {c c' : Cluster} (h : EInv c) (i : NodeId) (nd' : Node) (hn : c'.n = c.n)
    (hnodes : c'.nodes = setNode c.nodes i nd') (hlt : c'.leaderTerms = c.leaderTerms) (hg : c'.grants = c.grants)
    (hnd : nd'.term = (c.nodes i).term ∧ nd'.vote = (c.nodes i).vote ∧ nd'.election = (c.nodes i).election)
    (hmsgs : ∀ x ∈ c'.msgs, ∀ r, aeOf x.2 = some r → (r.term, r.leader) ∈ c.leaderTerms) : EInv c' := by
  apply einv_frame h hn hlt hg _ hmsgs
  intro j
  rw [hnodes]
  by_cases hj : j = i
  · subst hj; simpa using hnd
  · rw [setNode_other _ _ hj]; exact ⟨rfl, rfl, rfl⟩

theorem msgs_keep {c : Cluster} (h : EInv c) : ∀ x ∈ c.msgs, ∀ r, aeOf x.2 = some r → (r.term, r.leader) ∈ c.leaderTerms :=
  h.msgs

theorem buildAppendRequest_hdr (me : NodeId) (log : Log) (term commit lb cap : Nat) (newEs : Log) (p : Peer) :
    (buildAppendRequest me log term commit lb cap newEs p).term = term ∧
      (buildAppendRequest me log term commit lb cap newEs p).leader = me := ⟨rfl, rfl⟩

/-- a replication round of a current leader -/
theorem einv_leaderRound {c : Cluster} (hI : Inv c) (h : EInv c) (i : NodeId) (p : Option Nat)
    (hrole : (c.nodes i).role = .leader) : EInv (leaderRound c i (c.nodes i) p) := by
  refine einv_frame h rfl rfl rfl ?_ ?_
  · intro j
    simp only [leaderRound, addMsgs]
    by_cases hj : j = i
    · subst hj; simp [replicate]
    · rw [setNode_other _ _ hj]; exact ⟨rfl, rfl, rfl⟩
  · intro x hx r hr
    simp only [leaderRound, addMsgs] at hx
    rcases List.mem_append.mp hx with hx | hx
    · exact h.msgs x hx r hr
    · have hm := mem_number hx
      simp only [replicate] at hm
      obtain ⟨q, hq⟩ := replicatePeers_msgs _ _ _ _ _ _ _ _ _ _ hm
      rw [hq] at hr
      cases hr
      exact hI.lead_term i hrole

/-- how the vote of a node may change when its grants stay the same -/
def VoteRelax (c : Cluster) (nd nd' : Node) : Prop :=
  nd'.vote = nd.vote ∨
  (nd'.vote = none ∧ ∀ w, nd.vote = some w → w.term < nd'.term) ∨
  (∃ l, nd'.vote = some ⟨l, nd'.term, true⟩ ∧ (nd'.term, l) ∈ c.leaderTerms)

/-- one node moves on (term never decreases, election kept or dropped, vote changes as `VoteRelax`), nothing is granted -/
theorem einv_relax {c c' : Cluster} (h : EInv c) (i : NodeId) (nd' : Node) (hn : c'.n = c.n)
    (hnodes : c'.nodes = setNode c.nodes i nd') (hlt : c'.leaderTerms = c.leaderTerms) (hg : c'.grants = c.grants)
    (hterm : (c.nodes i).term ≤ nd'.term)
    (hel : (nd'.election = (c.nodes i).election ∧ ((c.nodes i).election ≠ none → nd'.term = (c.nodes i).term)) ∨
      nd'.election = none)
    (hvote : VoteRelax c (c.nodes i) nd')
    (hmsgs : ∀ x ∈ c'.msgs, ∀ r, aeOf x.2 = some r → (r.term, r.leader) ∈ c.leaderTerms) : EInv c' := by
  have hnode : ∀ j, j ≠ i → c'.nodes j = c.nodes j := by intro j hj; rw [hnodes, setNode_other _ _ hj]
  have hnodei : c'.nodes i = nd' := by rw [hnodes]; simp
  have htm : ∀ j, (c.nodes j).term ≤ (c'.nodes j).term := by
    intro j; by_cases hj : j = i
    · subst hj; rw [hnodei]; exact hterm
    · rw [hnode j hj]; exact Nat.le_refl _
  refine ⟨by rw [hlt]; exact h.fresh, ?_, ?_, ?_, ?_, ?_, ?_, ?_, ?_, ?_⟩
  · intro g hg'; rw [hg] at hg'; exact Nat.le_trans (h.gterm g hg') (htm g.1)
  · intro g hg' ht
    rw [hg] at hg'
    by_cases hj : g.1 = i
    · rw [hj, hnodei] at ht ⊢
      have hle := h.gterm g hg'
      rw [hj] at hle
      have heq : g.2.1 = (c.nodes i).term := by omega
      obtain ⟨w, hw, hwt, hwc⟩ := h.gvote g hg' (by rw [hj]; exact heq)
      rw [hj] at hw
      rcases hvote with hv | ⟨_, hv⟩ | ⟨l, hv, _⟩
      · exact ⟨w, by rw [hv]; exact hw, hwt, hwc⟩
      · have := hv w hw; omega
      · exact ⟨_, hv, ht.symm, Or.inr rfl⟩
    · rw [hnode _ hj] at ht ⊢; exact h.gvote g hg' ht
  · intro g1 h1 g2 h2; rw [hg] at h1 h2; exact h.guniq g1 h1 g2 h2
  · intro g hg'; rw [hg] at hg'; rw [valid_of_n hn]; exact h.gvalid g hg'
  · intro v w hv hc
    rw [hlt]
    by_cases hj : v = i
    · subst hj
      rw [hnodei] at hv
      rcases hvote with hv' | ⟨hv', _⟩ | ⟨l, hv', hl⟩
      · rw [hv'] at hv; exact h.cvote v w hv hc
      · rw [hv'] at hv; cases hv
      · rw [hv'] at hv; cases hv; exact hl
    · rw [hnode _ hj] at hv; exact h.cvote v w hv hc
  · intro x hx r hr; rw [hlt]; exact hmsgs x hx r hr
  · intro p hp; rw [hlt] at hp; exact Nat.le_trans (h.lterm p hp) (htm p.2)
  · intro p hp; rw [hlt] at hp; rw [hg, hn]; exact h.lquorum p hp
  · intro j el hel'
    by_cases hj : j = i
    · subst hj
      rw [hnodei] at hel'
      rcases hel with ⟨he1, he2⟩ | he
      · rw [he1] at hel'
        have hts := he2 (by rw [hel']; simp)
        have := h.elect j el hel'
        unfold ElectOK at *
        rw [hnodei, hts, valid_of_n hn, hlt, hg]; exact this
      · rw [he] at hel'; cases hel'
    · rw [hnode _ hj] at hel'
      have := h.elect j el hel'
      unfold ElectOK at *
      rw [hnode _ hj, valid_of_n hn, hlt, hg]; exact this

-- ------------------------------------------------------------------------------------------ handler specs
theorem becomeFollower_el (n : Node) :
    (becomeFollower n).term = n.term ∧ (becomeFollower n).election = n.election ∧
      ((becomeFollower n).vote = n.vote ∨ ((becomeFollower n).vote = none ∧ ∀ w, n.vote = some w → w.term < n.term)) := by
  unfold becomeFollower
  split
  · exact ⟨rfl, rfl, Or.inl rfl⟩
  · refine ⟨rfl, rfl, ?_⟩
    cases hv : n.vote with
    | none => left; simp
    | some v =>
      simp only []
      split
      · next hlt => right; exact ⟨rfl, fun w hw => by cases hw; exact hlt⟩
      · left; rfl

theorem followerAppend_election (n : Node) (r : AeReq) : (followerAppend n r).1.election = n.election := by
  unfold followerAppend
  split
  · rfl
  · cases checkAppendLegal n.term n.log r <;> rfl

theorem followerAppend_el_stale (n : Node) (r : AeReq) (h : n.term > r.term) :
    (followerAppend n r).1.term = n.term ∧ (followerAppend n r).1.vote = n.vote := by
  unfold followerAppend
  rw [if_pos h]
  exact ⟨rfl, rfl⟩

theorem followerAppend_el_join (n : Node) (r : AeReq) (h : ¬ n.term > r.term) :
    (followerAppend n r).1.term = r.term ∧ (followerAppend n r).1.vote = some ⟨r.leader, r.term, true⟩ := by
  unfold followerAppend
  rw [if_neg h]
  have hterm : (if n.term < r.term then r.term else n.term) = r.term := by split <;> omega
  cases checkAppendLegal n.term n.log r <;> exact ⟨hterm, rfl⟩

/-- electoral effect of an AppendEntries request on any node: nothing, or the node joins the sender's term and records
    the sender as the (committed) leader of that term -/
theorem onAppendEntries_el (n : Node) (r : AeReq) :
    (onAppendEntries n r).1.election = n.election ∧
    (((onAppendEntries n r).1.term = n.term ∧ (onAppendEntries n r).1.vote = n.vote) ∨
     (n.term ≤ r.term ∧ (onAppendEntries n r).1.term = r.term ∧
        (onAppendEntries n r).1.vote = some ⟨r.leader, r.term, true⟩)) := by
  unfold onAppendEntries
  split
  · refine ⟨followerAppend_election n r, ?_⟩
    by_cases h : n.term > r.term
    · exact Or.inl (followerAppend_el_stale n r h)
    · have := followerAppend_el_join n r h
      exact Or.inr ⟨by omega, this.1, this.2⟩
  · split
    · next hge =>
      have hb := becomeFollower_el { n with term := if r.term > n.term then r.term else n.term }
      have htm : (if r.term > n.term then r.term else n.term) = r.term := by split <;> omega
      have hj := followerAppend_el_join (becomeFollower { n with term := if r.term > n.term then r.term else n.term }) r
        (by rw [hb.1]; simp only []; rw [htm]; omega)
      exact ⟨by rw [followerAppend_election, hb.2.1], Or.inr ⟨by omega, hj.1, hj.2⟩⟩
    · exact ⟨rfl, Or.inl ⟨rfl, rfl⟩⟩
  · split
    · exact ⟨rfl, Or.inl ⟨rfl, rfl⟩⟩
    · next hlt =>
      have hb := becomeFollower_el { n with term := r.term }
      have hj := followerAppend_el_join (becomeFollower { n with term := r.term }) r (by rw [hb.1]; simp)
      exact ⟨by rw [followerAppend_election, hb.2.1], Or.inr ⟨by omega, hj.1, hj.2⟩⟩

/-- electoral effect of an AppendEntries response on the leader: nothing, or it steps down into a higher term -/
theorem onAppendResponse_el (n : Node) (src rt : Nat) (res : AeResult) :
    (onAppendResponse n src rt res).1.election = n.election ∧
    (((onAppendResponse n src rt res).1.term = n.term ∧ (onAppendResponse n src rt res).1.vote = n.vote) ∨
     (n.term < (onAppendResponse n src rt res).1.term ∧
       ((onAppendResponse n src rt res).1.vote = n.vote ∨
        ((onAppendResponse n src rt res).1.vote = none ∧
          ∀ w, n.vote = some w → w.term < (onAppendResponse n src rt res).1.term)))) := by
  have hsd : ∀ t, n.term < t → (stepDown n t).election = n.election ∧ (stepDown n t).term = t ∧
      ((stepDown n t).vote = n.vote ∨ ((stepDown n t).vote = none ∧ ∀ w, n.vote = some w → w.term < t)) := by
    intro t _
    have := becomeFollower_el { n with term := t }
    exact ⟨this.2.1, this.1, this.2.2⟩
  unfold onAppendResponse
  split
  · exact ⟨rfl, Or.inl ⟨rfl, rfl⟩⟩
  · split
    · exact ⟨rfl, Or.inl ⟨rfl, rfl⟩⟩
    · split
      · next h1 h2 =>
        have := hsd rt h2
        exact ⟨this.1, Or.inr ⟨by rw [this.2.1]; exact h2, by rw [this.2.1]; exact this.2.2⟩⟩
      · split
        · have : ∀ m : Node, (applyLeaderCommit m).1.election = m.election ∧ (applyLeaderCommit m).1.term = m.term ∧
              (applyLeaderCommit m).1.vote = m.vote := by
            intro m; unfold applyLeaderCommit; split <;> exact ⟨rfl, rfl, rfl⟩
          have h3 := this { n with peers := updatePeer n.peers src fun p =>
              { p with next := max (max ((‹Option (Nat × Nat)›.getD (0, 0)).1 + 1) p.next) (p.mtch + 1),
                       mtch := if (‹Option (Nat × Nat)›.getD (0, 0)).1 > p.mtch then (‹Option (Nat × Nat)›.getD (0, 0)).1 else p.mtch } }
          exact ⟨h3.1, Or.inl ⟨h3.2.1, h3.2.2⟩⟩
        · exact ⟨rfl, Or.inl ⟨rfl, rfl⟩⟩
        · split
          · next t h4 =>
            have := hsd t h4
            exact ⟨this.1, Or.inr ⟨by rw [this.2.1]; exact h4, by rw [this.2.1]; exact this.2.2⟩⟩
          · exact ⟨rfl, Or.inl ⟨rfl, rfl⟩⟩

theorem voteDecision_granted (n : Node) (r : VoteReq) (h : (voteDecision n r).1 = true) :
    n.term ≤ r.term ∧ (n.term = r.term → ∀ w, n.vote = some w → w.term = r.term ∧ w.id = r.cand) := by
  unfold voteDecision at h
  simp only [] at h
  split at h
  · simp at h
  · next h1 =>
    split at h
    · simp at h
    · refine ⟨by omega, ?_⟩
      intro heq w hw
      have hnot : ¬ r.term > n.term := by omega
      rw [if_neg hnot, hw] at h
      simp only [] at h
      split at h
      · next hc => simp at hc; exact hc
      · simp at h

theorem handleVoteRequest_el (n : Node) (r : VoteReq) :
    n.term ≤ (handleVoteRequest n r).1.term ∧ (handleVoteRequest n r).1.election = n.election ∧
    ((handleVoteRequest n r).2.1.granted = true →
      (handleVoteRequest n r).1.term = r.term ∧ (handleVoteRequest n r).1.vote = some ⟨r.cand, r.term, false⟩ ∧
      (n.term = r.term → ∀ w, n.vote = some w → w.term = r.term ∧ w.id = r.cand)) ∧
    ((handleVoteRequest n r).2.1.granted = false → (handleVoteRequest n r).1.vote = n.vote) := by
  refine ⟨?_, rfl, ?_, ?_⟩
  · show n.term ≤ (if r.term > n.term then r.term else n.term); split <;> omega
  · intro hg
    have hg' : (voteDecision n r).1 = true := hg
    have hd := voteDecision_granted n r hg'
    refine ⟨?_, ?_, hd.2⟩
    · show (if r.term > n.term then r.term else n.term) = r.term; split <;> omega
    · show (if (voteDecision n r).1 = true then some (Vote.mk r.cand r.term false) else n.vote) = _
      rw [if_pos hg']
  · intro hg
    have hg' : (voteDecision n r).1 = false := hg
    show (if (voteDecision n r).1 = true then some (Vote.mk r.cand r.term false) else n.vote) = _
    rw [hg']; simp

/-- electoral effect of a vote request on any node -/
theorem onVoteRequest_el (n : Node) (r : VoteReq) :
    n.term ≤ (onVoteRequest n r).1.term ∧ (onVoteRequest n r).1.election = n.election ∧
    ((onVoteRequest n r).2.1.granted = true →
      (onVoteRequest n r).1.term = r.term ∧ (onVoteRequest n r).1.vote = some ⟨r.cand, r.term, false⟩ ∧
      (n.term = r.term → ∀ w, n.vote = some w → w.term = r.term → w.id = r.cand)) ∧
    ((onVoteRequest n r).2.1.granted = false →
      ((onVoteRequest n r).1.vote = n.vote ∨
       ((onVoteRequest n r).1.vote = none ∧ ∀ w, n.vote = some w → w.term < (onVoteRequest n r).1.term))) := by
  have viaBF : ∀ (hle : n.term ≤ r.term),
      n.term ≤ (handleVoteRequest (becomeFollower { n with term := r.term }) r).1.term ∧
      (handleVoteRequest (becomeFollower { n with term := r.term }) r).1.election = n.election ∧
      ((handleVoteRequest (becomeFollower { n with term := r.term }) r).2.1.granted = true →
        (handleVoteRequest (becomeFollower { n with term := r.term }) r).1.term = r.term ∧
        (handleVoteRequest (becomeFollower { n with term := r.term }) r).1.vote = some ⟨r.cand, r.term, false⟩ ∧
        (n.term = r.term → ∀ w, n.vote = some w → w.term = r.term → w.id = r.cand)) ∧
      ((handleVoteRequest (becomeFollower { n with term := r.term }) r).2.1.granted = false →
        ((handleVoteRequest (becomeFollower { n with term := r.term }) r).1.vote = n.vote ∨
         ((handleVoteRequest (becomeFollower { n with term := r.term }) r).1.vote = none ∧
           ∀ w, n.vote = some w → w.term < (handleVoteRequest (becomeFollower { n with term := r.term }) r).1.term))) := by
    intro hle
    have hb := becomeFollower_el { n with term := r.term }
    have hh := handleVoteRequest_el (becomeFollower { n with term := r.term }) r
    have hbt : (becomeFollower { n with term := r.term }).term = r.term := hb.1
    refine ⟨by have := hh.1; rw [hbt] at this; omega, by rw [hh.2.1, hb.2.1], ?_, ?_⟩
    · intro hg
      obtain ⟨h1, h2, h3⟩ := hh.2.2.1 hg
      refine ⟨h1, h2, ?_⟩
      intro _ w hw hwt
      rcases hb.2.2 with hv | ⟨_, hst⟩
      · exact (h3 hbt w (by rw [hv]; exact hw)).2
      · have := hst w hw; simp only [] at this; omega
    · intro hg
      have hv := hh.2.2.2 hg
      have hterm : (handleVoteRequest (becomeFollower { n with term := r.term }) r).1.term = r.term := by
        show (if r.term > (becomeFollower { n with term := r.term }).term then r.term
              else (becomeFollower { n with term := r.term }).term) = r.term
        rw [hbt]; simp
      rcases hb.2.2 with hv2 | ⟨hv2, hst⟩
      · left; rw [hv, hv2]
      · right; exact ⟨by rw [hv, hv2], fun w hw => by rw [hterm]; exact hst w hw⟩
  unfold onVoteRequest
  split
  · have hh := handleVoteRequest_el n r
    refine ⟨hh.1, hh.2.1, ?_, fun hg => Or.inl (hh.2.2.2 hg)⟩
    intro hg
    obtain ⟨h1, h2, h3⟩ := hh.2.2.1 hg
    exact ⟨h1, h2, fun heq w hw _ => (h3 heq w hw).2⟩
  · split
    · next hlegal =>
      have hle : n.term ≤ r.term := by
        unfold voteRequestLegal at hlegal
        simp only [] at hlegal
        split at hlegal
        · simp at hlegal
        · omega
      exact viaBF hle
    · exact ⟨Nat.le_refl _, rfl, fun hg => by simp [denied] at hg, fun _ => Or.inl rfl⟩
  · split
    · next hlt => exact viaBF (by omega)
    · exact ⟨Nat.le_refl _, rfl, fun hg => by simp [denied] at hg, fun _ => Or.inl rfl⟩

-- ------------------------------------------------------------------------------------------ grants
theorem electOK_mono {c c' : Cluster} {j : NodeId} {el : Election} (hn : c'.n = c.n)
    (hterm : (c'.nodes j).term = (c.nodes j).term) (hlt : ∀ t, (t, j) ∈ c'.leaderTerms → (t, j) ∈ c.leaderTerms)
    (hg : ∀ g ∈ c.grants, g ∈ c'.grants) (h : ElectOK c j el) : ElectOK c' j el := by
  unfold ElectOK at *
  obtain ⟨h1, h2, h3, h4, h5, h6, h7⟩ := h
  rw [hterm, valid_of_n hn]
  exact ⟨h1, h2, h3, fun t ht => h4 t (hlt t ht), hg _ h5, h6, fun x hx => ⟨(h7 x hx).1, (h7 x hx).2.1, fun hgr => hg _ ((h7 x hx).2.2 hgr)⟩⟩

/-- node `i` casts a vote for `a` in its (new) current term: one new grant -/
theorem einv_grant1 {c c' : Cluster} (h : EInv c) (i a : NodeId) (nd' : Node) (hn : c'.n = c.n)
    (hnodes : c'.nodes = setNode c.nodes i nd') (hlt : c'.leaderTerms = c.leaderTerms)
    (hg : c'.grants = (i, nd'.term, a) :: c.grants) (hvalid : c.valid i = true)
    (hterm : (c.nodes i).term ≤ nd'.term)
    (hvote : nd'.vote = some ⟨a, nd'.term, false⟩)
    (huniq : ∀ g ∈ c.grants, g.1 = i → g.2.1 = nd'.term → g.2.2 = a)
    (hel : ∀ el, nd'.election = some el → ElectOK c' i el)
    (hmsgs : ∀ x ∈ c'.msgs, ∀ r, aeOf x.2 = some r → (r.term, r.leader) ∈ c.leaderTerms) : EInv c' := by
  have hnode : ∀ j, j ≠ i → c'.nodes j = c.nodes j := by intro j hj; rw [hnodes, setNode_other _ _ hj]
  have hnodei : c'.nodes i = nd' := by rw [hnodes]; simp
  have htm : ∀ j, (c.nodes j).term ≤ (c'.nodes j).term := by
    intro j; by_cases hj : j = i
    · subst hj; rw [hnodei]; exact hterm
    · rw [hnode j hj]; exact Nat.le_refl _
  have hgsub : ∀ g ∈ c.grants, g ∈ c'.grants := by intro g hg'; rw [hg]; exact List.mem_cons_of_mem _ hg'
  refine ⟨by rw [hlt]; exact h.fresh, ?_, ?_, ?_, ?_, ?_, ?_, ?_, ?_, ?_⟩
  · intro g hg'
    rw [hg] at hg'
    rcases List.mem_cons.mp hg' with hg' | hg'
    · subst hg'; simp only []; rw [hnodei]; exact Nat.le_refl _
    · exact Nat.le_trans (h.gterm g hg') (htm g.1)
  · intro g hg' ht
    rw [hg] at hg'
    rcases List.mem_cons.mp hg' with hg' | hg'
    · subst hg'; simp only [] at ht ⊢; rw [hnodei]; exact ⟨_, hvote, rfl, Or.inl rfl⟩
    · by_cases hj : g.1 = i
      · rw [hj, hnodei] at ht ⊢
        exact ⟨_, hvote, ht.symm, Or.inl (huniq g hg' hj ht).symm⟩
      · rw [hnode _ hj] at ht ⊢; exact h.gvote g hg' ht
  · intro g1 h1 g2 h2 hv ht
    rw [hg] at h1 h2
    rcases List.mem_cons.mp h1 with h1 | h1 <;> rcases List.mem_cons.mp h2 with h2 | h2
    · subst h1; subst h2; rfl
    · subst h1; simp only [] at hv ht ⊢; exact (huniq g2 h2 hv.symm ht.symm).symm
    · subst h2; simp only [] at hv ht ⊢; exact huniq g1 h1 hv ht
    · exact h.guniq g1 h1 g2 h2 hv ht
  · intro g hg'
    rw [hg] at hg'; rw [valid_of_n hn]
    rcases List.mem_cons.mp hg' with hg' | hg'
    · subst hg'; exact hvalid
    · exact h.gvalid g hg'
  · intro v w hv hc
    rw [hlt]
    by_cases hj : v = i
    · subst hj; rw [hnodei, hvote] at hv; cases hv; cases hc
    · rw [hnode _ hj] at hv; exact h.cvote v w hv hc
  · intro x hx r hr; rw [hlt]; exact hmsgs x hx r hr
  · intro p hp; rw [hlt] at hp; exact Nat.le_trans (h.lterm p hp) (htm p.2)
  · intro p hp
    rw [hlt] at hp; rw [hn]
    obtain ⟨q, h1, h2, h3⟩ := h.lquorum p hp
    exact ⟨q, h1, fun v hv => hgsub _ (h2 v hv), h3⟩
  · intro j el hel'
    by_cases hj : j = i
    · subst hj; rw [hnodei] at hel'; exact hel el hel'
    · rw [hnode _ hj] at hel'
      exact electOK_mono hn (by rw [hnode _ hj]) (fun t ht => by rw [hlt] at ht; exact ht) hgsub (h.elect j el hel')

/-- only the election record of node `a` changes (same term) -/
theorem einv_set_election {c c' : Cluster} (h : EInv c) (a : NodeId) (el' : Option Election) (hn : c'.n = c.n)
    (hnodes : c'.nodes = setNode c.nodes a { (c.nodes a) with election := el' }) (hlt : c'.leaderTerms = c.leaderTerms)
    (hg : c'.grants = c.grants) (hmsgs : c'.msgs = c.msgs)
    (hok : ∀ el, el' = some el → ElectOK c a el) : EInv c' := by
  have hnode : ∀ j, j ≠ a → c'.nodes j = c.nodes j := by intro j hj; rw [hnodes, setNode_other _ _ hj]
  have hnodea : c'.nodes a = { (c.nodes a) with election := el' } := by rw [hnodes]; simp
  have hst : ∀ j, (c'.nodes j).term = (c.nodes j).term ∧ (c'.nodes j).vote = (c.nodes j).vote := by
    intro j; by_cases hj : j = a
    · subst hj; rw [hnodea]; exact ⟨rfl, rfl⟩
    · rw [hnode _ hj]; exact ⟨rfl, rfl⟩
  refine ⟨by rw [hlt]; exact h.fresh, ?_, ?_, ?_, ?_, ?_, ?_, ?_, ?_, ?_⟩
  · intro g hg'; rw [hg] at hg'; rw [(hst g.1).1]; exact h.gterm g hg'
  · intro g hg' ht; rw [hg] at hg'; rw [(hst g.1).1] at ht; rw [(hst g.1).2]; exact h.gvote g hg' ht
  · intro g1 h1 g2 h2; rw [hg] at h1 h2; exact h.guniq g1 h1 g2 h2
  · intro g hg'; rw [hg] at hg'; rw [valid_of_n hn]; exact h.gvalid g hg'
  · intro v w hv hc; rw [(hst v).2] at hv; rw [hlt]; exact h.cvote v w hv hc
  · intro x hx r hr; rw [hmsgs] at hx; rw [hlt]; exact h.msgs x hx r hr
  · intro p hp; rw [hlt] at hp; rw [(hst p.2).1]; exact h.lterm p hp
  · intro p hp; rw [hlt] at hp; rw [hg, hn]; exact h.lquorum p hp
  · intro j el hel'
    have hmono : ∀ el0, ElectOK c j el0 → ElectOK c' j el0 := fun el0 h0 =>
      electOK_mono hn (hst j).1 (fun t ht => by rw [hlt] at ht; exact ht) (fun g hg' => by rw [hg]; exact hg') h0
    by_cases hj : j = a
    · subst hj
      rw [hnodea] at hel'
      exact hmono el (hok el hel')
    · rw [hnode _ hj] at hel'
      exact hmono el (h.elect j el hel')

-- ------------------------------------------------------------------------------------------ BecomeLeader
theorem einv_becomeLeader {c : Cluster} (h : EInv c) (i : NodeId) (el : Election)
    (hel : (c.nodes i).election = some el) (hwon : tally c.n el.req (el.collected.map (·.2)) 1 = .won) :
    EInv { c with nodes := setNode c.nodes i (asLeader i c.n (c.nodes i)),
                  leaderTerms := ((c.nodes i).term, i) :: c.leaderTerms } := by
  have hfresh := won_term_fresh h i el hel hwon
  have hq := won_quorum h i el hel hwon
  have hnode : ∀ j, j ≠ i → setNode c.nodes i (asLeader i c.n (c.nodes i)) j = c.nodes j := fun j hj => setNode_other _ _ hj
  have hterm : ∀ j, (setNode c.nodes i (asLeader i c.n (c.nodes i)) j).term = (c.nodes j).term := by
    intro j; by_cases hj : j = i
    · subst hj; simp [asLeader]
    · rw [hnode j hj]
  refine ⟨?_, ?_, ?_, h.guniq, h.gvalid, ?_, ?_, ?_, ?_, ?_⟩
  · show FreshTerms (((c.nodes i).term, i) :: c.leaderTerms)
    unfold FreshTerms
    simp only [List.map_cons, List.nodup_cons]
    refine ⟨?_, h.fresh⟩
    intro hm
    obtain ⟨p, hp, hpt⟩ := List.mem_map.mp hm
    exact hfresh p.2 (by rw [← hpt]; exact hp)
  · intro g hg; show g.2.1 ≤ _; rw [hterm]; exact h.gterm g hg
  · intro g hg ht
    simp only [] at ht ⊢
    rw [hterm] at ht
    by_cases hj : g.1 = i
    · rw [hj]; simp only [setNode_same, asLeader]
      exact ⟨_, rfl, by rw [ht, hj], Or.inr rfl⟩
    · rw [hnode _ hj]; exact h.gvote g hg ht
  · intro v w hv hc
    simp only [] at hv ⊢
    by_cases hj : v = i
    · subst hj
      simp only [setNode_same, asLeader] at hv
      cases hv
      exact List.mem_cons_self
    · rw [hnode _ hj] at hv; exact List.mem_cons_of_mem _ (h.cvote v w hv hc)
  · intro x hx r hr; exact List.mem_cons_of_mem _ (h.msgs x hx r hr)
  · intro p hp
    simp only [] at hp ⊢
    rw [hterm]
    rcases List.mem_cons.mp hp with hp | hp
    · subst hp; exact Nat.le_refl _
    · exact h.lterm p hp
  · intro p hp
    simp only [] at hp ⊢
    rcases List.mem_cons.mp hp with hp | hp
    · subst hp; exact hq
    · exact h.lquorum p hp
  · intro j el' hel'
    simp only [] at hel'
    by_cases hj : j = i
    · subst hj; simp [asLeader] at hel'
    · rw [hnode _ hj] at hel'
      have := h.elect j el' hel'
      unfold ElectOK at *
      simp only []
      rw [hnode _ hj]
      obtain ⟨h1, h2, h3, h4, h5, h6, h7⟩ := this
      refine ⟨h1, h2, h3, ?_, h5, h6, h7⟩
      intro t ht
      rcases List.mem_cons.mp ht with ht | ht
      · cases ht; exact absurd rfl hj
      · exact h4 t ht

-- ------------------------------------------------------------------------------------------ list facts for elections
theorem nodup_insert_reply {α : Type} (A B : List (NodeId × α)) (p : NodeId) (r : α)
    (hnd : ((A ++ B).map (·.1)).Nodup) (hp : p ∉ (A ++ B).map (·.1)) :
    (((A ++ [(p, r)]) ++ B).map (·.1)).Nodup := by
  simp only [List.map_append, List.map_cons, List.map_nil] at hnd hp ⊢
  rw [List.nodup_append] at hnd ⊢
  obtain ⟨h1, h2, h3⟩ := hnd
  simp only [List.mem_append, not_or] at hp
  refine ⟨?_, h2, ?_⟩
  · rw [List.nodup_append]
    refine ⟨h1, by simp, ?_⟩
    intro a ha b hb
    simp at hb; subst hb
    intro hab; subst hab; exact hp.1 ha
  · intro a ha b hb
    rcases List.mem_append.mp ha with ha | ha
    · exact h3 a ha b hb
    · simp at ha; subst ha
      intro hab; subst hab; exact hp.2 hb

theorem nodup_move_reply {α : Type} (A B : List (NodeId × α)) (p : NodeId) (r : α)
    (hnd : ((A ++ B).map (·.1)).Nodup) (hp : (p, r) ∈ A) :
    ((A.filter (fun x => x.1 != p) ++ (B ++ [(p, r)])).map (·.1)).Nodup := by
  simp only [List.map_append, List.map_cons, List.map_nil] at hnd ⊢
  rw [List.nodup_append] at hnd
  obtain ⟨h1, h2, h3⟩ := hnd
  have hpA : p ∈ A.map (·.1) := List.mem_map.mpr ⟨(p, r), hp, rfl⟩
  rw [List.nodup_append]
  refine ⟨List.Nodup.sublist (List.Sublist.map _ List.filter_sublist) h1, ?_, ?_⟩
  · rw [List.nodup_append]
    refine ⟨h2, by simp, ?_⟩
    intro a ha b hb
    simp at hb; subst hb
    intro hab; subst hab
    exact h3 a hpA a ha rfl
  · intro a ha b hb
    obtain ⟨x, hx, hxa⟩ := List.mem_map.mp ha
    have hxf := List.mem_filter.mp hx
    rcases List.mem_append.mp hb with hb | hb
    · exact h3 a (List.mem_map.mpr ⟨x, hxf.1, hxa⟩) b hb
    · simp at hb; subst hb
      intro hab
      have := hxf.2
      simp at this
      exact this (by rw [hxa, hab])

end DEngine.Cluster
