/-
  C05, towards leader completeness: the benign sub-relation of `step` (no F8 / F9 trigger) and the counting lemma behind
  the commit rule (`calculate_majority_matched_index`: element len/2 of the descending list).
-/
import DEngine.Lemmas.ClusterElectAll
import DEngine.Lemmas.ClusterKeep
namespace DEngine.Cluster

-- ------------------------------------------------------------------------------------------ benign steps
/-- H_durableAck ∧ H_noWipe as a decidable predicate on one step: a crash, or the delivery of a prev=(0,0) request,
    discards no entry of the node it hits (in this model every entry of a log has been acknowledged: a follower answers
    in the step in which it appends, and a leader counts its own last index at once).  Every other event is benign. -/
def benignB (c : Cluster) (e : Event) : Bool :=
  match e with
  | .crash i _ => (c.nodes i).log.all fun x => ((step c e).1.nodes i).log.contains x
  | .deliverAe m =>
    match findMsg c m with
    | some (.ae _ dst _ r _) =>
      !(r.prevI == 0 && r.prevT == 0) || (c.nodes dst).log.all fun x => ((step c e).1.nodes dst).log.contains x
    | _ => true
  | _ => true

/-- H_durableAck: a crash never loses an (acknowledged) entry -/
def H_durableAck (c : Cluster) (e : Event) : Prop :=
  ∀ i k, e = .crash i k → ∀ x ∈ (c.nodes i).log, x ∈ ((step c e).1.nodes i).log

/-- H_noWipe: the delivery of a prev=(0,0) request discards nothing at its target -/
def H_noWipe (c : Cluster) (e : Event) : Prop :=
  ∀ m src dst sid r rp, e = .deliverAe m → findMsg c m = some (.ae src dst sid r rp) → r.prevI = 0 → r.prevT = 0 →
    ∀ x ∈ (c.nodes dst).log, x ∈ ((step c e).1.nodes dst).log

theorem benignB_iff (c : Cluster) (e : Event) : benignB c e = true ↔ H_durableAck c e ∧ H_noWipe c e := by
  constructor
  · intro h
    constructor
    · intro i k he x hx
      subst he
      simp only [benignB, List.all_eq_true, List.contains_iff_mem] at h
      exact h x hx
    · intro m src dst sid r rp he hf h0 h1 x hx
      subst he
      simp only [benignB, hf, h0, h1, beq_self_eq_true, Bool.and_self, Bool.not_true, Bool.false_or, List.all_eq_true,
        List.contains_iff_mem] at h
      exact h x hx
  · intro ⟨hd, hw⟩
    cases e with
    | crash i k =>
      simp only [benignB, List.all_eq_true, List.contains_iff_mem]
      exact hd i k rfl
    | deliverAe m =>
      simp only [benignB]
      split
      · next src dst sid r rp hf =>
        by_cases h0 : r.prevI = 0 ∧ r.prevT = 0
        · simp only [h0.1, h0.2, beq_self_eq_true, Bool.and_self, Bool.not_true, Bool.false_or, List.all_eq_true,
            List.contains_iff_mem]
          exact hw m src dst sid r rp rfl hf h0.1 h0.2
        · have : (r.prevI == 0 && r.prevT == 0) = false := by
            cases h1 : (r.prevI == 0 && r.prevT == 0)
            · rfl
            · simp only [Bool.and_eq_true, beq_iff_eq] at h1; exact absurd h1 h0
          simp [this]
      · rfl
    | _ => rfl

-- ------------------------------------------------------------------------------------------ descending sort
theorem insertDesc_perm (x : Nat) : ∀ l, (insertDesc x l).Perm (x :: l) := by
  intro l
  induction l with
  | nil => exact List.Perm.refl _
  | cons y ys ih =>
    simp only [insertDesc]
    split
    · exact List.Perm.refl _
    · exact (List.Perm.cons y ih).trans (List.Perm.swap x y ys)

theorem sortDesc_perm : ∀ l, (sortDesc l).Perm l := by
  intro l
  induction l with
  | nil => exact List.Perm.refl _
  | cons x xs ih => exact (insertDesc_perm x _).trans (List.Perm.cons x ih)

theorem insertDesc_sorted (x : Nat) : ∀ l, l.Pairwise (· ≥ ·) → (insertDesc x l).Pairwise (· ≥ ·) := by
  intro l
  induction l with
  | nil => intro _; simp [insertDesc]
  | cons y ys ih =>
    intro h
    simp only [insertDesc]
    have hy := List.pairwise_cons.mp h
    split
    · next hxy =>
      refine List.pairwise_cons.mpr ⟨?_, h⟩
      intro z hz
      rcases List.mem_cons.mp hz with hz | hz
      · subst hz; exact hxy
      · exact Nat.le_trans (hy.1 z hz) hxy
    · next hxy =>
      refine List.pairwise_cons.mpr ⟨?_, ih hy.2⟩
      intro z hz
      rcases List.mem_cons.mp ((insertDesc_perm x ys).mem_iff.mp hz) with hz | hz
      · subst hz; omega
      · exact hy.1 z hz

theorem sortDesc_sorted : ∀ l, (sortDesc l).Pairwise (· ≥ ·) := by
  intro l
  induction l with
  | nil => simp [sortDesc]
  | cons x xs ih => exact insertDesc_sorted x _ ih

/-- in a descending list at least i+1 elements are ≥ the element at position i -/
theorem desc_count : ∀ (s : List Nat), s.Pairwise (· ≥ ·) → ∀ i (h : i < s.length),
    i + 1 ≤ (s.filter (fun y => y ≥ s[i])).length := by
  intro s
  induction s with
  | nil => intro _ i h; simp at h
  | cons x xs ih =>
    intro hs i h
    have hx := List.pairwise_cons.mp hs
    cases i with
    | zero => simp [List.filter_cons]
    | succ i =>
      have hi : i < xs.length := by simpa using h
      have hge : x ≥ xs[i] := hx.1 _ (List.getElem_mem hi)
      simp only [List.getElem_cons_succ, List.filter_cons, hge, decide_true, if_true, List.length_cons]
      have := ih hx.2 i hi
      omega

/-- the element len/2 of the descending sort is reached by a strict majority of the list -/
theorem median_majority (xs : List Nat) (hne : xs ≠ []) :
    (xs.filter (fun y => y ≥ (sortDesc xs).getD ((sortDesc xs).length / 2) 0)).length * 2 > xs.length := by
  have hp := sortDesc_perm xs
  have hlen : (sortDesc xs).length = xs.length := hp.length_eq
  have hpos : 0 < xs.length := List.length_pos_iff.mpr hne
  have hi : (sortDesc xs).length / 2 < (sortDesc xs).length := by rw [hlen]; omega
  have hget : (sortDesc xs).getD ((sortDesc xs).length / 2) 0 = (sortDesc xs)[(sortDesc xs).length / 2] := by
    simp [List.getD, hi]
  rw [hget]
  have hc := desc_count _ (sortDesc_sorted xs) _ hi
  have hf := (hp.filter (fun y => decide (y ≥ (sortDesc xs)[(sortDesc xs).length / 2]))).length_eq
  rw [hf] at hc
  generalize (List.filter (fun y => decide (y ≥ (sortDesc xs)[(sortDesc xs).length / 2])) xs).length = k at hc ⊢
  omega

end DEngine.Cluster
