/-
  C05, towards leader completeness: pure lemmas — terms are monotone along a chain, an accept keeps what the request
  does not contradict, and the up-to-date check (`is_target_log_more_recent`) transports entries from voter to candidate.
-/
import DEngine.Lemmas.ClusterCompleteProv2
namespace DEngine.Cluster

theorem chain_mono_pos {g : List GRec} (hm : ∀ r ∈ g, r.pred ≤ r.term) {l : Log} (hl : Chain g l) :
    ∀ (j k : Nat) (a b : Entry), l[k]? = some a → l[k + j]? = some b → a.term ≤ b.term := by
  intro j
  induction j with
  | zero => intro k a b ha hb; simp at hb; rw [ha] at hb; cases hb; exact Nat.le_refl _
  | succ j ih =>
    intro k a b ha hb
    have hlt : k + j + 1 < l.length := by
      have := (List.getElem?_eq_some_iff.mp hb).1; omega
    have hm' : l[k + j]? = some l[k + j] := by
      rw [List.getElem?_eq_getElem]
    have h1 := ih k a _ ha hm'
    have hrec := (chainFrom_get hl (k := k + j + 1) (e := b) (by rw [← hb]; rfl)).2
    have hp : predTerm 0 l (k + j + 1) = (l[k + j]).term := by
      unfold predTerm
      simp [hm']
    rw [hp] at hrec
    have := hm _ hrec
    simp only [] at this
    omega

/-- terms never decrease along a chain -/
theorem chain_mono {g : List GRec} (hm : ∀ r ∈ g, r.pred ≤ r.term) {l : Log} (hl : Chain g l) {a b : Entry}
    (ha : a ∈ l) (hb : b ∈ l) (hle : a.index ≤ b.index) : a.term ≤ b.term := by
  have ga := chain_mem_get hl ha
  have gb := chain_mem_get hl hb
  have : b.index - 1 = (a.index - 1) + (b.index - a.index) := by omega
  rw [this] at gb
  exact chain_mono_pos hm hl _ _ a b ga.1 gb.1

/-- an accept keeps an entry when every request entry at or below it is already in the log -/
theorem accept_keeps_below {g : List GRec} (hg : GFun g) {l es : Log} {pi pt : Nat} (hl : Chain g l)
    (he : ChainFrom g pi pt es) (hnr : ¬(pi = 0 ∧ pt = 0)) {x : Entry} (hx : x ∈ l)
    (hbelow : ∀ w ∈ es, w.index ≤ x.index → w ∈ l) : x ∈ (acceptEntries l pi pt es).1 := by
  by_cases h1 : x.index ≤ pi
  · exact accept_keeps hg hl he hnr hx (Or.inl h1)
  · by_cases h2 : ∃ y ∈ es, y.index = x.index
    · obtain ⟨y, hy, hyi⟩ := h2
      have hyl := hbelow y hy (by omega)
      have gy := chain_mem_get hl hyl
      have gx := chain_mem_get hl hx
      rw [hyi] at gy
      have : y = x := by
        have := gy.1.symm.trans gx.1
        exact Option.some.inj this
      exact accept_keeps hg hl he hnr hx (Or.inr ⟨y, hy, hyi, by rw [this]⟩)
    · -- the request ends below x: all of it is in the log already
      have hall : ∀ w ∈ es, w.index < x.index := by
        intro w hw
        apply Decidable.byContradiction
        intro hc
        apply h2
        -- es is contiguous from pi+1 and reaches w.index ≥ x.index > pi
        obtain ⟨k, hk⟩ := List.getElem?_of_mem hw
        have hwi := (chainFrom_get he hk).1
        have hpos : x.index - pi - 1 < es.length := by
          have := (List.getElem?_eq_some_iff.mp hk).1; omega
        refine ⟨es[x.index - pi - 1], List.getElem_mem hpos, ?_⟩
        have := (chainFrom_get he (k := x.index - pi - 1) (e := es[x.index - pi - 1]) (by simp)).1
        omega
      exact accept_keeps_shared hg hl hl (fun y hy => hbelow y hy (Nat.le_of_lt (hall y hy))) he hnr hx hx

theorem lastPair_of_getLast {l : Log} {y : Entry} (h : l.getLast? = some y) : lastPair l = (y.index, y.term) := by
  simp [lastPair, lastLogId, h]

theorem lastPair_nil : lastPair [] = (0, 0) := by simp [lastPair, lastLogId]

/-- The vote restriction: if the candidate's log is at least as up-to-date as the voter's, every entry of the voter's
    log is in the candidate's log, or the candidate's log holds an entry of a later term. -/
theorem up_to_date {g : List GRec} (hg : GFun g) (hm : ∀ r ∈ g, r.pred ≤ r.term) (hpos : ∀ r ∈ g, 1 ≤ r.term)
    {Lz Lc : Log} (hz : Chain g Lz) (hc : Chain g Lc)
    (hrun : ∀ y ∈ Lc, ∀ r ∈ g, r.term = y.term → r.index ≤ y.index → (⟨r.index, r.term, r.payload⟩ : Entry) ∈ Lc)
    (hmr : moreRecent (lastPair Lz).1 (lastPair Lz).2 (lastPair Lc).1 (lastPair Lc).2 = true)
    {x : Entry} (hx : x ∈ Lz) : x ∈ Lc ∨ ∃ y ∈ Lc, x.term < y.term := by
  cases hlz : Lz.getLast? with
  | none => rw [List.getLast?_eq_none_iff] at hlz; rw [hlz] at hx; simp at hx
  | some lz =>
    have hlzm : lz ∈ Lz := List.mem_of_getLast? hlz
    have gx := chain_mem_get hz hx
    have glz := chain_mem_get hz hlzm
    have hlzlast : lz.index = Lz.length := by
      have := lastIndex_chain hz
      simp only [lastIndex, hlz] at this
      exact this
    have hxle : x.index ≤ lz.index := by
      have := (List.getElem?_eq_some_iff.mp gx.1).1; omega
    have hxt : x.term ≤ lz.term := chain_mono hm hz hx hlzm hxle
    obtain ⟨q, hq⟩ := mem_chain_rec hz hlzm
    have hlzpos : 1 ≤ lz.term := hpos _ hq
    rw [lastPair_of_getLast hlz] at hmr
    cases hlc : Lc.getLast? with
    | none =>
      rw [List.getLast?_eq_none_iff] at hlc
      rw [hlc, lastPair_nil] at hmr
      simp [moreRecent] at hmr
      omega
    | some lc =>
      have hlcm : lc ∈ Lc := List.mem_of_getLast? hlc
      rw [lastPair_of_getLast hlc] at hmr
      simp only [moreRecent, Bool.or_eq_true, decide_eq_true_eq, Bool.and_eq_true, beq_iff_eq] at hmr
      rcases hmr with h | ⟨h1, h2⟩
      · exact Or.inr ⟨lc, hlcm, by omega⟩
      · left
        have := hrun lc hlcm _ hq (by simp only []; omega) (by simp only []; omega)
        have hshare : lz ∈ Lc := by
          have e : (⟨lz.index, lz.term, lz.payload⟩ : Entry) = lz := by cases lz; rfl
          rw [e] at this; exact this
        exact chain_prefix_mem hg hz hc hlzm hshare x hx hxle

end DEngine.Cluster
