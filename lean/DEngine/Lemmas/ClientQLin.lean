import DEngine.Lemmas.ClientQCount
import DEngine.Lemmas.ClientQOut
/-!
  Tracking one linearizable read `r` (accepted when the commit index was `C`) through the M-CLIENTQ model: while it
  is parked every batch that contains it has a key ≥ `C`, it sits in no other queue, and whenever it is answered with
  a value the state machine had applied at least `C` (used by C11 `lin_read_state_fresh`).
-/
namespace DEngine.ClientQ

structure LinHyp (r C : Nat) (s : St) : Prop where
  lt : r < s.nextId
  nlin : r ∉ s.linBuf
  nlease : r ∉ s.leaseQ
  nev : r ∉ s.evQ
  npl : ∀ e ∈ s.pleases, e.1 ≠ r
  keys : ∀ e ∈ s.preads, r ∈ e.2.2 → C ≤ e.1

/-- every value answer to `r` in this output was read at an applied index ≥ `C` -/
def ValOK (r C : Nat) (o : Out) : Prop := ∀ v a, (r, Resp.val v a) ∈ o → C ≤ a

theorem ValOK.nil (r C : Nat) : ValOK r C [] := by intro v a h; simp at h
theorem ValOK.append {r C : Nat} {o1 o2 : Out} (h1 : ValOK r C o1) (h2 : ValOK r C o2) : ValOK r C (o1 ++ o2) := by
  intro v a h
  rcases List.mem_append.mp h with h | h
  · exact h1 v a h
  · exact h2 v a h
theorem ValOK.answerAll_notin {r C : Nat} {ids : List Nat} (h : r ∉ ids) (q : Resp) : ValOK r C (answerAll ids q) := by
  intro v a hx
  exact absurd (mem_answerAll.mp hx).1 h
theorem ValOK.answerAll_nonval {r C : Nat} (ids : List Nat) {q : Resp} (hq : ∀ v a, q ≠ .val v a) :
    ValOK r C (answerAll ids q) := by
  intro v a hx
  exact absurd (mem_answerAll.mp hx).2.symm (hq v a)
theorem ValOK.flatMap_nonval {r C : Nat} {α} (l : List α) (f : α → List Nat) {q : Resp} (hq : ∀ v a, q ≠ .val v a) :
    ValOK r C (l.flatMap fun e => answerAll (f e) q) := by
  intro v a hx
  rcases List.mem_flatMap.mp hx with ⟨e, _, he⟩
  exact absurd (mem_answerAll.mp he).2.symm (hq v a)
theorem ValOK.joinAnswers {r C : Nat} (l : List (Nat × Nat × CAct)) {q : Resp} (hq : ∀ v a, q ≠ .val v a) :
    ValOK r C (l.filterMap (joinAnswer q)) := by
  intro v a hx
  rcases List.mem_filterMap.mp hx with ⟨e, _, he⟩
  unfold joinAnswer at he
  cases hact : e.2.2 <;> simp [hact] at he
  exact absurd he.2 (hq v a)

/-- the state a step starts from may be replaced by one with the same tracked fields -/
theorem LinHyp.frame {r C : Nat} {s t : St} (h : LinHyp r C s) (h1 : t.nextId = s.nextId) (h2 : t.linBuf = s.linBuf)
    (h3 : t.leaseQ = s.leaseQ) (h4 : t.evQ = s.evQ) (h5 : t.pleases = s.pleases) (h6 : t.preads = s.preads) :
    LinHyp r C t :=
  ⟨by rw [h1]; exact h.lt, by rw [h2]; exact h.nlin, by rw [h3]; exact h.nlease, by rw [h4]; exact h.nev,
   by rw [h5]; exact h.npl, by rw [h6]; exact h.keys⟩

/-- a pair (value answers fine, tracking invariant kept) -/
def Tracks (r C : Nat) (s' : St) (o : Out) : Prop := ValOK r C o ∧ LinHyp r C s'

theorem track_pushWrite (c : Cfg) {r C : Nat} {s : St} (h : LinHyp r C s) (op : WOp) :
    Tracks r C (pushWrite c s op).1 (pushWrite c s op).2 := by
  unfold pushWrite; simp only; repeat' split
  all_goals
    refine ⟨?_, ⟨by have := h.lt; simp; omega, h.nlin, h.nlease, h.nev, h.npl, h.keys⟩⟩
    first | exact ValOK.nil r C | (intro v a hx; simp at hx)

theorem track_pushRead (c : Cfg) {r C : Nat} {s : St} (h : LinHyp r C s) (p : Nat) :
    Tracks r C (pushRead c s p).1 (pushRead c s p).2 := by
  have hne : r ≠ s.nextId := by have := h.lt; omega
  have hlt : r < s.nextId + 1 := by have := h.lt; omega
  unfold pushRead; simp only; repeat' split
  all_goals constructor
  all_goals first
    | exact ValOK.nil r C
    | (intro v a hx; simp at hx <;> exact absurd hx.1 hne)
    | exact ⟨hlt, h.nlin, h.nlease, h.nev, h.npl, h.keys⟩
    | exact ⟨hlt, by simp; exact ⟨h.nlin, hne⟩, h.nlease, h.nev, h.npl, h.keys⟩
    | exact ⟨hlt, h.nlin, by simp; exact ⟨h.nlease, hne⟩, h.nev, h.npl, h.keys⟩
    | exact ⟨hlt, h.nlin, h.nlease, by simp; exact ⟨h.nev, hne⟩, h.npl, h.keys⟩

theorem track_pushScan (c : Cfg) {r C : Nat} {s : St} (h : LinHyp r C s) :
    Tracks r C (pushScan c s).1 (pushScan c s).2 := by
  unfold pushScan
  refine ⟨?_, ⟨by have := h.lt; simp; omega, h.nlin, h.nlease, h.nev, h.npl, h.keys⟩⟩
  intro v a hx; simp at hx
  split at hx <;> simp at hx

theorem preadsInsert_keys_of_notin {r C : Nat} (pr : List (Nat × Nat × List Nat)) (ri dl : Nat) (ids : List Nat)
    (hnot : r ∉ ids) (hk : ∀ e ∈ pr, r ∈ e.2.2 → C ≤ e.1) :
    ∀ e ∈ preadsInsert pr ri dl ids, r ∈ e.2.2 → C ≤ e.1 := by
  induction pr with
  | nil => intro e he hr; simp [preadsInsert] at he; subst he; exact absurd hr hnot
  | cons x rest ih =>
    intro e he hr
    unfold preadsInsert at he
    split at he
    · rcases List.mem_cons.mp he with h | h
      · subst h
        simp only [List.mem_append] at hr
        rcases hr with hr | hr
        · exact hk x List.mem_cons_self hr
        · exact absurd hr hnot
      · exact hk e (List.mem_cons_of_mem _ h) hr
    · split at he
      · rcases List.mem_cons.mp he with h | h
        · subst h; exact absurd hr hnot
        · exact hk e h hr
      · rcases List.mem_cons.mp he with h | h
        · subst h; exact hk _ List.mem_cons_self hr
        · exact ih (fun e he => hk e (List.mem_cons_of_mem _ he)) e h hr

/-- `execRpc` with a read batch that does not contain `r` -/
theorem track_execRpc (c : Cfg) {r C : Nat} {s : St} (h : LinHyp r C s) (ents wm) (reads : Option (List Nat))
    (hr : ∀ rs, reads = some rs → r ∉ rs) :
    Tracks r C (execRpc c s ents wm reads).1 (execRpc c s ents wm reads).2 := by
  have hq := execRpc_queues c s ents wm reads
  simp only at hq
  rcases hq with ⟨q1, q2, q3, q4, q5, q6, q7, q8⟩
  have ha := execAppend_rest c s ents wm
  simp only at ha
  have hpre : (execAppend c s ents wm).preads = s.preads := ha.2.2.2.2.2.2.2.2.2.1
  constructor
  · -- outputs: notReady, or values for the batch (which does not contain r)
    have hout : (execRpc c s ents wm reads).2 =
        (gateReads (execAppend c s ents wm) reads).2 ++
        (routeReads c (execAppend c s ents wm) (gateReads (execAppend c s ents wm) reads).1).2 := rfl
    rw [hout]
    apply ValOK.append
    · unfold gateReads; split
      · exact ValOK.answerAll_nonval _ (by intro v a; simp)
      · exact ValOK.nil r C
    · unfold routeReads
      split
      · rename_i rs hrs
        have hnot : r ∉ rs := by
          -- the gate passes the batch through or drops it
          cases reads with
          | none => unfold gateReads at hrs; split at hrs <;> simp_all
          | some rs0 =>
            have := hr rs0 rfl
            unfold gateReads at hrs
            split at hrs
            · simp at hrs
            · rename_i h2
              simp at hrs; subst hrs; exact this
        split
        · exact ValOK.answerAll_notin hnot _
        · exact ValOK.nil r C
      · exact ValOK.nil r C
  · refine ⟨by rw [nid_execRpc]; exact h.lt, by rw [q3]; exact h.nlin, by rw [q4]; exact h.nlease,
      by rw [q5]; exact h.nev, by rw [q6]; exact h.npl, ?_⟩
    rw [q8]
    unfold routeReads
    split
    · rename_i rs hrs
      split
      · rw [hpre]; exact h.keys
      · -- parked: old batches keep their keys, the new ids do not include r
        have hnot : r ∉ rs := by
          cases reads with
          | none => unfold gateReads at hrs; split at hrs <;> simp_all
          | some rs0 =>
            have := hr rs0 rfl
            unfold gateReads at hrs
            split at hrs
            · simp at hrs
            · simp at hrs; subst hrs; exact this
        rw [hpre]
        exact preadsInsert_keys_of_notin _ _ _ _ hnot h.keys
    · rw [hpre]; exact h.keys

theorem Tracks.then {r C : Nat} {s1 s2 : St} {o1 o2 : Out} (h1 : Tracks r C s1 o1)
    (h2 : LinHyp r C s1 → Tracks r C s2 o2) : Tracks r C s2 (o1 ++ o2) :=
  ⟨h1.1.append (h2 h1.2).1, (h2 h1.2).2⟩

theorem track_processLeaseRead (c : Cfg) {r C : Nat} {s : St} (h : LinHyp r C s) (id : Nat) (hid : id ≠ r) :
    Tracks r C (processLeaseRead c s id).1 (processLeaseRead c s id).2 := by
  unfold processLeaseRead
  split
  · exact ⟨by intro v a hx; simp at hx; exact absurd hx.1.symm hid, h⟩
  · split
    · exact ⟨by intro v a hx; simp at hx; exact absurd hx.1.symm hid, h.frame rfl rfl rfl rfl rfl rfl⟩
    · apply track_execRpc c _ [] none none (by intro rs h; simp at h)
      exact ⟨h.lt, h.nlin, h.nlease, h.nev,
        by intro e he; rcases List.mem_append.mp he with he | he
           · exact h.npl e he
           · simp at he; subst he; exact hid, h.keys⟩

theorem track_processLeaseReads (c : Cfg) {r C : Nat} (ids : List Nat) (hid : r ∉ ids) :
    ∀ {s : St}, LinHyp r C s → Tracks r C (processLeaseReads c s ids).1 (processLeaseReads c s ids).2 := by
  induction ids with
  | nil => intro s h; exact ⟨ValOK.nil r C, h⟩
  | cons id rest ih =>
    intro s h
    unfold processLeaseReads
    simp only
    have hne : id ≠ r := fun e => hid (by simp [e])
    exact (track_processLeaseRead c h id hne).then (fun h1 => ih (fun hr => hid (List.mem_cons_of_mem _ hr)) h1)

theorem LinHyp.flushPropose {r C : Nat} {s : St} (h : LinHyp r C s) : LinHyp r C (flushPropose s).1 := by
  rw [flushPropose_fst]; split
  · exact h
  · exact h.frame rfl rfl rfl rfl rfl rfl

theorem flushPropose_linBuf (s : St) : (flushPropose s).1.linBuf = s.linBuf := by
  rw [flushPropose_fst]; split <;> rfl

/-- flush + update + exec for a read batch without `r` -/
theorem track_flushThenExec (c : Cfg) {r C : Nat} {s : St} (h : LinHyp r C s) (upd : St → St)
    (hupd : ∀ x : St, (upd x).nextId = x.nextId ∧ (∀ i ∈ (upd x).linBuf, i ∈ x.linBuf) ∧ (upd x).leaseQ = x.leaseQ ∧
      (upd x).evQ = x.evQ ∧ (upd x).pleases = x.pleases ∧ (upd x).preads = x.preads)
    (reads : Option (List Nat)) (hr : ∀ rs, reads = some rs → r ∉ rs) :
    Tracks r C
      (match (flushPropose s).2 with
        | some b => execRpc c (upd (flushPropose s).1) b.1 (some b.2) reads
        | none => execRpc c (upd (flushPropose s).1) [] none reads).1
      (match (flushPropose s).2 with
        | some b => execRpc c (upd (flushPropose s).1) b.1 (some b.2) reads
        | none => execRpc c (upd (flushPropose s).1) [] none reads).2 := by
  have h1 := h.flushPropose
  have u := hupd (flushPropose s).1
  have h2 : LinHyp r C (upd (flushPropose s).1) :=
    ⟨by rw [u.1]; exact h1.lt, fun hin => h1.nlin (u.2.1 r hin), by rw [u.2.2.1]; exact h1.nlease,
     by rw [u.2.2.2.1]; exact h1.nev, by rw [u.2.2.2.2.1]; exact h1.npl, by rw [u.2.2.2.2.2]; exact h1.keys⟩
  split
  · exact track_execRpc c h2 _ _ reads hr
  · exact track_execRpc c h2 _ _ reads hr

theorem track_flushMain (c : Cfg) {r C : Nat} {s : St} (h : LinHyp r C s) :
    Tracks r C (flushMain c s).1 (flushMain c s).2 := by
  unfold flushMain
  simp only
  split
  · have := track_flushThenExec c h (fun x => { x with replDl := x.now + c.hb })
      (by intro x; exact ⟨rfl, fun i hi => hi, rfl, rfl, rfl, rfl⟩) none (by intro rs h; simp at h)
    split at this
    · rename_i b hb; simp only [hb]; exact this
    · rename_i hn
      simp only [hn]
      exact ⟨ValOK.nil r C, (h.flushPropose).frame rfl rfl rfl rfl rfl rfl⟩
  · split
    · exact track_flushThenExec c h (fun x => { x with linBuf := [] })
        (by intro x; exact ⟨rfl, fun i hi => by simp at hi, rfl, rfl, rfl, rfl⟩) _
        (by
          intro rs hrs
          split at hrs
          · simp at hrs
          · simp at hrs; subst hrs; rw [flushPropose_linBuf]; exact h.nlin)
    · exact ⟨ValOK.nil r C, h⟩

theorem track_flush (c : Cfg) {r C : Nat} {s : St} (h : LinHyp r C s) :
    Tracks r C (flush c s).1 (flush c s).2 := by
  unfold flush
  simp only
  have t1 := track_flushMain c h
  have hq : LinHyp r C ({ (flushMain c s).1 with leaseQ := [] } : St) :=
    ⟨t1.2.lt, t1.2.nlin, by simp, t1.2.nev, t1.2.npl, t1.2.keys⟩
  have t2 := track_processLeaseReads c (flushMain c s).1.leaseQ t1.2.nlease hq
  refine ⟨(t1.1.append t2.1).append (ValOK.answerAll_notin t2.2.nev _), ?_⟩
  exact ⟨t2.2.lt, t2.2.nlin, t2.2.nlease, by simp, t2.2.npl, t2.2.keys⟩

theorem track_drainWrites {r C : Nat} {R : List Nat} {s : St} (hi : Inv R s) (h : LinHyp r C s) (nc : Nat) :
    Tracks r C (drainWrites s nc).1 (drainWrites s nc).2 := by
  refine ⟨?_, ?_⟩
  · rw [drainWrites_out_nil hi]; exact ValOK.nil r C
  · unfold drainWrites; exact h.frame rfl rfl rfl rfl rfl rfl

theorem track_drainActions {r C : Nat} {s : St} (h : LinHyp r C s) (nc : Nat) :
    Tracks r C (drainActions s nc).1 (drainActions s nc).2 := by
  rcases drainActions_fields s nc with ⟨_, _, _, f4, f5, f6, f7, f8, _⟩
  refine ⟨?_, ⟨by rw [nid_drainActions]; exact h.lt, by rw [f4]; exact h.nlin, by rw [f5]; exact h.nlease,
    by rw [f6]; exact h.nev, by rw [f8]; exact h.npl, by rw [f7]; exact h.keys⟩⟩
  have hout : (drainActions s nc).2 = (s.pca.filter (·.1 ≤ nc)).filterMap (joinAnswer .joinOk) := by
    unfold drainActions; rfl
  rw [hout]; exact ValOK.joinAnswers _ (by intro v a; simp)

theorem track_drainPleases {r C : Nat} {s : St} (h : LinHyp r C s) :
    Tracks r C (drainPleases s).1 (drainPleases s).2 := by
  unfold drainPleases
  refine ⟨ValOK.answerAll_notin ?_ _, ⟨h.lt, h.nlin, h.nlease, h.nev, by simp, h.keys⟩⟩
  intro hin
  rcases List.mem_map.mp hin with ⟨e, he, hk⟩
  exact h.npl e he hk

/-- Path A / Path B drain: a parked `r` is answered only if its batch key is ≤ `upto` ≤ applied -/
theorem track_servePreads {r C : Nat} {s : St} (h : LinHyp r C s) (upto : Nat) (hu : upto ≤ s.applied) :
    Tracks r C (servePreads s upto).1 (servePreads s upto).2 := by
  unfold servePreads
  refine ⟨?_, ⟨h.lt, h.nlin, h.nlease, h.nev, h.npl, fun e he => h.keys e (List.mem_filter.mp he).1⟩⟩
  intro v a hx
  rcases List.mem_flatMap.mp hx with ⟨e, he, hxe⟩
  have hf := List.mem_filter.mp he
  have hm := mem_answerAll.mp hxe
  have hk : e.1 ≤ upto := by simpa using hf.2
  have hC := h.keys e hf.1 hm.1
  have : a = s.applied := by
    have := hm.2; simp [St.readVal] at this; exact this.2
  omega

theorem track_commitTo {r C : Nat} {R : List Nat} {s : St} (hi : Inv R s) (h : LinHyp r C s) (nc : Nat)
    (h1 : s.commit ≤ nc) (h2 : nc ≤ s.log.length) : Tracks r C (commitTo s nc).1 (commitTo s nc).2 := by
  unfold commitTo
  simp only
  have hc : Inv R ({ s with commit := nc } : St) :=
    hi.shrink rfl (fun _ h => h) (fun _ h => h) (List.Sublist.refl _) (Nat.le_refl _) h1 h2
      (by have := hi.applied_le; simp; omega) hi.term_pos
  exact (track_drainWrites hc (h.frame rfl rfl rfl rfl rfl rfl) nc).then (fun h' => track_drainActions h' nc)

theorem track_advanceCommit {r C : Nat} {R : List Nat} {s : St} (hi : Inv R s) (h : LinHyp r C s) :
    Tracks r C (advanceCommit s (newCommit s)).1 (advanceCommit s (newCommit s)).2 := by
  unfold advanceCommit
  split
  · rename_i nc hnc
    have := newCommit_spec hi.term_pos hnc
    exact track_commitTo hi h nc (by omega) this.1
  · exact ⟨ValOK.nil r C, h⟩

theorem track_onQuorum (c : Cfg) {r C : Nat} {s : St} (h : LinHyp r C s) :
    Tracks r C (onQuorum c s).1 (onQuorum c s).2 := by
  unfold onQuorum
  simp only
  apply Tracks.then
  · apply track_drainPleases
    exact h.frame rfl rfl rfl rfl rfl rfl
  · intro h'
    exact track_servePreads h' _ (Nat.le_refl _)

theorem track_ackSuccess (c : Cfg) {r C : Nat} {R : List Nat} {s : St} (hi : Inv R s) (h : LinHyp r C s) (p m : Nat) :
    Tracks r C (ackSuccess c s p m).1 (ackSuccess c s p m).2 := by
  unfold ackSuccess
  split
  · exact ⟨ValOK.nil r C, h⟩
  · simp only
    have hi0 : Inv R ({ s with matchIdx := setMatch s.matchIdx (p - 2) m } : St) :=
      hi.frame rfl rfl rfl rfl rfl rfl rfl rfl
    have t1 := track_advanceCommit hi0 (h.frame rfl rfl rfl rfl rfl rfl)
    split
    · exact t1.then (fun h' => track_onQuorum c h')
    · exact t1

theorem track_ackHigherTerm {r C : Nat} {s : St} (h : LinHyp r C s) (t : Nat) :
    Tracks r C (ackHigherTerm s t).1 (ackHigherTerm s t).2 := by
  unfold ackHigherTerm
  split
  · exact ⟨ValOK.nil r C, h⟩
  · simp only [drainWritesErr]
    exact ⟨ValOK.flatMap_nonval _ _ (by intro v a; simp), h.frame rfl rfl rfl rfl rfl rfl⟩

theorem track_logFlushed (c : Cfg) {r C : Nat} {R : List Nat} {s : St} (hi : Inv R s) (h : LinHyp r C s) :
    Tracks r C (logFlushed c s).1 (logFlushed c s).2 := by
  unfold logFlushed
  simp only
  split
  · exact ⟨ValOK.nil r C, h⟩
  · rename_i n hn
    have hsp : s.commit ≤ n ∧ n ≤ s.log.length := by
      split at hn
      · split at hn
        · injection hn with hn; subst hn; simp [St.lastEntry] at *; omega
        · simp at hn
      · have := newCommit_spec hi.term_pos hn; omega
    have t1 := track_commitTo hi h n hsp.1 hsp.2
    split
    · apply Tracks.then t1
      intro h'
      apply track_drainPleases
      exact h'.frame rfl rfl rfl rfl rfl rfl
    · exact t1

theorem track_applyUpTo {r C : Nat} {s : St} (h : LinHyp r C s) (k : Nat) :
    Tracks r C (applyUpTo s k).1 (applyUpTo s k).2 := by
  by_cases hk : applyTarget s k ≤ s.applied
  · rw [applyUpTo_noop hk]; exact ⟨ValOK.nil r C, h⟩
  · have hout := (applyUpTo_fields hk).2.2.2
    have hst : (applyUpTo s k).1 = (servePreads (applyMid s k) (applyTarget s k)).1 := by
      unfold applyUpTo applyMid applyTarget at *
      simp only
      rw [if_neg hk]
    rw [hst, hout]
    have hm : LinHyp r C (applyMid s k) := by unfold applyMid; exact h.frame rfl rfl rfl rfl rfl rfl
    have t := track_servePreads hm (applyTarget s k) (by unfold applyMid; simp)
    refine ⟨ValOK.append ?_ t.1, t.2⟩
    intro v a hx
    unfold applyResponses at hx
    rcases List.mem_filterMap.mp hx with ⟨res, _, hm'⟩
    split at hm'
    · simp only [Option.some.injEq, Prod.mk.injEq] at hm'
      cases hres : res.2 <;> simp [hres] at hm'
    · simp at hm'

theorem track_sweep (c : Cfg) {r C : Nat} {s : St} (h : LinHyp r C s) :
    Tracks r C (sweep c s).1 (sweep c s).2 := by
  rcases sweep_queue_fields c s with ⟨_, _, f3, f4, f5, _, f7, f8, _⟩
  have hn : (sweep c s).1.nextId = s.nextId := nid_sweep c s
  refine ⟨?_, ⟨by rw [hn]; exact h.lt, by rw [f3]; exact h.nlin, by rw [f4]; exact h.nlease, by rw [f5]; exact h.nev,
    by rw [f8]; exact fun e he => h.npl e (List.mem_filter.mp he).1,
    by rw [f7]; exact fun e he => h.keys e (List.mem_filter.mp he).1⟩⟩
  rw [sweep_out]
  exact ((ValOK.flatMap_nonval _ _ (by intro v a; simp)).append (ValOK.flatMap_nonval _ _ (by intro v a; simp))).append
    (ValOK.answerAll_nonval _ (by intro v a; simp)) |>.append (ValOK.joinAnswers _ (by intro v a; simp))

theorem track_heartbeat (c : Cfg) {r C : Nat} {s : St} (h : LinHyp r C s) :
    Tracks r C (heartbeat c s).1 (heartbeat c s).2 := by
  unfold heartbeat
  split
  · simp only
    exact track_flushThenExec c h (fun x => { x with replDl := x.now + c.hb })
      (by intro x; exact ⟨rfl, fun i hi => hi, rfl, rfl, rfl, rfl⟩) none (by intro rs h; simp at h)
  · exact ⟨ValOK.nil r C, h⟩

theorem track_tick (c : Cfg) {r C : Nat} {s : St} (h : LinHyp r C s) (ms : Nat) :
    Tracks r C (tick c s ms).1 (tick c s ms).2 := by
  unfold tick
  simp only
  apply Tracks.then
  · apply track_heartbeat
    exact h.frame rfl rfl rfl rfl rfl rfl
  · intro h'
    exact track_sweep c h'

theorem track_stepDown {r C : Nat} {s : St} (h : LinHyp r C s) : Tracks r C (stepDown s).1 (stepDown s).2 := by
  unfold stepDown
  refine ⟨?_, ⟨h.lt, by simp, by simp, by simp, by simp, by simp⟩⟩
  have nv : ∀ v a, Resp.stepDown ≠ .val v a := by intro v a; simp
  exact ((((((((ValOK.answerAll_nonval _ nv).append (ValOK.answerAll_nonval _ nv)).append
    (ValOK.answerAll_nonval _ nv)).append (ValOK.flatMap_nonval _ _ nv)).append
    (ValOK.answerAll_nonval _ nv)).append (ValOK.answerAll_nonval _ (by intro v a; simp))).append
    (ValOK.flatMap_nonval _ _ (by intro v a; simp))).append (ValOK.answerAll_nonval _ (by intro v a; simp))).append
    (ValOK.joinAnswers _ (by intro v a; simp))

theorem track_fatalInbound {r C : Nat} {s : St} (h : LinHyp r C s) :
    Tracks r C (fatalInbound s).1 (fatalInbound s).2 := by
  unfold fatalInbound
  refine ⟨?_, ⟨h.lt, by simp, by simp, by simp, h.npl, by simp⟩⟩
  have nv : ∀ v a, Resp.fatal ≠ .val v a := by intro v a; simp
  exact ((((ValOK.answerAll_nonval _ nv).append (ValOK.answerAll_nonval _ nv)).append
    (ValOK.flatMap_nonval _ _ nv)).append (ValOK.answerAll_nonval _ nv)).append (ValOK.answerAll_nonval _ nv)

theorem track_initNoop (c : Cfg) {r C : Nat} {s : St} (h : LinHyp r C s) :
    Tracks r C (initNoop c s).1 (initNoop c s).2 := by
  unfold initNoop
  simp only
  apply track_execRpc c _ _ _ none (by intro rs h; simp at h)
  exact h.frame rfl rfl rfl rfl rfl rfl

theorem track_join (c : Cfg) {r C : Nat} {s : St} (h : LinHyp r C s) (n : Nat) :
    Tracks r C (join c s n).1 (join c s n).2 := by
  have hne : r ≠ s.nextId := by have := h.lt; omega
  have hb : LinHyp r C ({ s with nextId := s.nextId + 1 } : St) :=
    ⟨by have := h.lt; simp; omega, h.nlin, h.nlease, h.nev, h.npl, h.keys⟩
  unfold join
  simp only
  split
  · exact ⟨by intro v a hx; simp at hx, hb⟩
  · have t := track_execRpc c (hb.frame (t := { ({ s with nextId := s.nextId + 1 } : St) with replDl := s.now + c.hb })
        rfl rfl rfl rfl rfl rfl) [EntKind.conf]
        (some { start := s.lastEntry + 1, senders := [], wait := false, deadline := 0 }) none (by intro rs h; simp at h)
    exact ⟨t.1, t.2.frame rfl rfl rfl rfl rfl rfl⟩

/-- **One step** keeps the tracking invariant and answers `r` with a value only at an applied index ≥ `C`. -/
theorem track_step (c : Cfg) {r C : Nat} {R : List Nat} {s : St} (hi : Inv R s) (h : LinHyp r C s) (e : Ev) :
    Tracks r C (step c s e).1 (step c s e).2 := by
  unfold step
  split
  · exact ⟨ValOK.nil r C, h⟩
  · split
    · split
      · exact track_pushWrite c h _
      · exact track_pushRead c h _
      · exact track_pushScan c h
      · exact ⟨ValOK.nil r C, h⟩
    · split
      · exact track_pushWrite c h _
      · exact track_pushRead c h _
      · exact track_pushScan c h
      · exact track_join c h _
      · exact track_flush c h
      · exact track_tick c h _
      · exact track_ackSuccess c hi h _ _
      · exact ⟨ValOK.nil r C, h⟩
      · split
        · exact track_ackHigherTerm h _
        · split
          · exact track_ackSuccess c hi h _ _
          · exact ⟨ValOK.nil r C, h⟩
      · exact ⟨ValOK.nil r C, h⟩
      · exact track_logFlushed c hi h
      · exact track_applyUpTo h _
      · exact track_stepDown h
      · exact track_fatalInbound h
      · exact ⟨ValOK.nil r C, h.frame rfl rfl rfl rfl rfl rfl⟩
      · exact track_initNoop c h

theorem preadsInsert_keys_ge {r C : Nat} (pr : List (Nat × Nat × List Nat)) (ri dl : Nat) (ids : List Nat)
    (hri : C ≤ ri) (hk : ∀ e ∈ pr, r ∈ e.2.2 → C ≤ e.1) :
    ∀ e ∈ preadsInsert pr ri dl ids, r ∈ e.2.2 → C ≤ e.1 := by
  induction pr with
  | nil => intro e he _; simp [preadsInsert] at he; subst he; exact hri
  | cons x rest ih =>
    intro e he hr
    unfold preadsInsert at he
    split at he
    · rename_i hkey
      rcases List.mem_cons.mp he with h | h
      · subst h
        have : x.1 = ri := by simpa using hkey
        simp only; omega
      · exact hk e (List.mem_cons_of_mem _ h) hr
    · split at he
      · rcases List.mem_cons.mp he with h | h
        · subst h; exact hri
        · exact hk e h hr
      · rcases List.mem_cons.mp he with h | h
        · subst h; exact hk _ List.mem_cons_self hr
        · exact ih (fun e he => hk e (List.mem_cons_of_mem _ he)) e h hr

/-- `execRpc` accepting a read batch (which may contain `r`) while the commit index is ≥ `C` -/
theorem track_execRpc_accept (c : Cfg) {r C : Nat} {s : St} (h : LinHyp r C s) (hc : C ≤ s.commit) (ents wm)
    (reads : Option (List Nat)) : Tracks r C (execRpc c s ents wm reads).1 (execRpc c s ents wm reads).2 := by
  have hq := execRpc_queues c s ents wm reads
  simp only at hq
  rcases hq with ⟨q1, q2, q3, q4, q5, q6, q7, q8⟩
  have ha := execAppend_rest c s ents wm
  simp only at ha
  have hpre : (execAppend c s ents wm).preads = s.preads := ha.2.2.2.2.2.2.2.2.2.1
  have hcm : (execAppend c s ents wm).commit = s.commit := ha.2.2.2.1
  have hri : C ≤ (execAppend c s ents wm).readIndex := by
    have := (show (execAppend c s ents wm).commit ≤ (execAppend c s ents wm).readIndex by unfold St.readIndex; omega)
    omega
  constructor
  · have hout : (execRpc c s ents wm reads).2 =
        (gateReads (execAppend c s ents wm) reads).2 ++
        (routeReads c (execAppend c s ents wm) (gateReads (execAppend c s ents wm) reads).1).2 := rfl
    rw [hout]
    apply ValOK.append
    · unfold gateReads; split
      · exact ValOK.answerAll_nonval _ (by intro v a; simp)
      · exact ValOK.nil r C
    · unfold routeReads
      split
      · split
        · rename_i hserve
          simp only [Bool.and_eq_true, decide_eq_true_eq] at hserve
          intro v a hx
          have := (mem_answerAll.mp hx).2
          simp [St.readVal] at this
          omega
        · exact ValOK.nil r C
      · exact ValOK.nil r C
  · refine ⟨by rw [nid_execRpc]; exact h.lt, by rw [q3]; exact h.nlin, by rw [q4]; exact h.nlease,
      by rw [q5]; exact h.nev, by rw [q6]; exact h.npl, ?_⟩
    rw [q8]
    unfold routeReads
    split
    · split
      · rw [hpre]; exact h.keys
      · rw [hpre]; exact preadsInsert_keys_ge _ _ _ _ hri h.keys
    · rw [hpre]; exact h.keys

/-- **The accepting flush.** `r` sits in the linearizable read buffer (and nowhere else), the commit index is `C`:
    after `flush_cmd_buffers` the read is either answered — with a value only at an applied index ≥ `C` — or parked
    under a key ≥ `C`, and it is in no other queue. -/
theorem track_flush_accept (c : Cfg) {r C : Nat} {s : St} (hin : r ∈ s.linBuf) (hC : C ≤ s.commit)
    (hlt : r < s.nextId) (nlease : r ∉ s.leaseQ) (nev : r ∉ s.evQ) (npl : ∀ e ∈ s.pleases, e.1 ≠ r)
    (keys : ∀ e ∈ s.preads, r ∈ e.2.2 → C ≤ e.1) : Tracks r C (flush c s).1 (flush c s).2 := by
  -- flushMain on a non-empty read buffer takes the unified path
  have hne : s.linBuf.isEmpty = false := by
    cases hl : s.linBuf with
    | nil => rw [hl] at hin; simp at hin
    | cons a l => rfl
  have t1 : Tracks r C (flushMain c s).1 (flushMain c s).2 := by
    unfold flushMain
    simp only [hne, Bool.not_false, Bool.not_true, Bool.and_false, Bool.false_eq_true, ↓reduceIte, Bool.or_true]
    have hfp : LinHyp r C ({ (flushPropose s).1 with linBuf := [] } : St) := by
      rw [flushPropose_fst]
      split
      · exact ⟨hlt, by simp, nlease, nev, npl, keys⟩
      · exact ⟨hlt, by simp, nlease, nev, npl, keys⟩
    have hcm : C ≤ ({ (flushPropose s).1 with linBuf := [] } : St).commit := by
      rw [flushPropose_fst]; split <;> exact hC
    split
    · exact track_execRpc_accept c hfp hcm _ _ _
    · exact track_execRpc_accept c hfp hcm _ _ _
  unfold flush
  simp only
  have hq : LinHyp r C ({ (flushMain c s).1 with leaseQ := [] } : St) :=
    ⟨t1.2.lt, t1.2.nlin, by simp, t1.2.nev, t1.2.npl, t1.2.keys⟩
  have t2 := track_processLeaseReads c (flushMain c s).1.leaseQ t1.2.nlease hq
  refine ⟨(t1.1.append t2.1).append (ValOK.answerAll_notin t2.2.nev _), ?_⟩
  exact ⟨t2.2.lt, t2.2.nlin, t2.2.nlease, by simp, t2.2.npl, t2.2.keys⟩

theorem track_run (c : Cfg) {r C : Nat} (evs : List Ev) : ∀ {R : List Nat} {s : St}, Inv R s → LinHyp r C s →
    ∀ o ∈ (run c s evs).2, ValOK r C o := by
  induction evs with
  | nil => intro R s _ _ o ho; simp [run] at ho
  | cons e es ih =>
    intro R s hi h o ho
    unfold run at ho
    simp only at ho
    have t := track_step c hi h e
    rcases List.mem_cons.mp ho with h1 | h1
    · subst h1; exact t.1
    · exact ih (hi.step c e) t.2 o h1

end DEngine.ClientQ
