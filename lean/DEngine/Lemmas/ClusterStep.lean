/-
  Every step of the cluster model preserves the log-matching invariant `Inv` (Lemmas/ClusterInv.lean), provided the
  step does not start a second leadership in a term that already had one (`FreshTerms`, H_electionSafety).
-/
import DEngine.Lemmas.ClusterInv
namespace DEngine.Cluster

/-- updating one node quietly, messages only re-used -/
theorem inv_update1 {c c' : Cluster} (h : Inv c) (i : NodeId) (nd' : Node)
    (hn : c'.nodes = setNode c.nodes i nd') (hg : c'.ghost = c.ghost) (hlt : c'.leaderTerms = c.leaderTerms)
    (hq : QuietNode c.ghost (c.nodes i) nd')
    (hmsgs : ∀ x ∈ c'.msgs, ∀ r, aeOf x.2 = some r → ∃ y ∈ c.msgs, aeOf y.2 = some r) : Inv c' := by
  apply inv_quiet h hg hlt _ hmsgs
  intro j
  rw [hn]
  by_cases hj : j = i
  · subst hj; simpa using hq
  · rw [setNode_other _ _ hj]; exact quietNode_refl (h.logs j)

theorem msgs_same {c : Cluster} : ∀ x ∈ c.msgs, ∀ r, aeOf x.2 = some r → ∃ y ∈ c.msgs, aeOf y.2 = some r :=
  fun x hx r hr => ⟨x, hx, hr⟩

theorem inv_tick {c : Cluster} (h : Inv c) (i : NodeId) : Inv (stepTick c i).1 := by
  unfold stepTick
  (try dsimp only)
  split
  · exact h
  · split
    · exact inv_update1 h i _ rfl rfl rfl ⟨h.logs i, fun hr => by cases hr⟩ msgs_same
    · next hrole =>
      split
      · exact h
      · refine inv_update1 h i _ rfl rfl rfl ⟨h.logs i, fun hr => ?_⟩ msgs_same
        simp [startElection, hrole] at hr
    · next hrole => exact inv_leaderRound h i none hrole

theorem inv_voteReq {c : Cluster} (h : Inv c) (a b : NodeId) : Inv (stepVoteReq c a b).1 := by
  unfold stepVoteReq
  (try dsimp only)
  split
  · next el hel =>
    split
    · exact h
    · refine inv_quiet h rfl rfl ?_ msgs_same
      intro j
      show QuietNode c.ghost (c.nodes j) (setNode (setNode c.nodes b _) a _ j)
      by_cases hja : j = a
      · subst hja
        simp only [setNode_same]
        exact ⟨h.logs j, fun hr => ⟨hr, rfl, rfl⟩⟩
      · rw [setNode_other _ _ hja]
        by_cases hjb : j = b
        · subst hjb
          simp only [setNode_same]
          exact onVoteRequest_quiet _ _ (h.logs j)
        · rw [setNode_other _ _ hjb]; exact quietNode_refl (h.logs j)
  · exact h

theorem inv_voteResp {c : Cluster} (h : Inv c) (a b : NodeId) : Inv (stepVoteResp c a b).1 := by
  unfold stepVoteResp
  (try dsimp only)
  split
  · split
    · split
      · exact h
      · exact inv_update1 h a _ rfl rfl rfl ⟨h.logs a, fun hr => ⟨hr, rfl, rfl⟩⟩ msgs_same
    · exact h
  · exact h

theorem leaderRound_leaderTerms (c : Cluster) (i : NodeId) (nd : Node) (p : Option Nat) :
    (leaderRound c i nd p).leaderTerms = c.leaderTerms := rfl

theorem inv_voteEnd {c : Cluster} (h : Inv c) (i : NodeId) (hf : FreshTerms (stepVoteEnd c i).1.leaderTerms) :
    Inv (stepVoteEnd c i).1 := by
  unfold stepVoteEnd at hf ⊢
  dsimp only at hf ⊢
  cases hel : (c.nodes i).election with
  | none => simp only [hel]; exact h
  | some el =>
    simp only [hel] at hf ⊢
    by_cases hen : (!(c.valid i && (c.nodes i).up)) = true
    · rw [if_pos hen]; exact h
    · rw [if_neg hen] at hf ⊢
      cases htally : tally c.n el.req (el.collected.map (·.2)) 1 with
      | won =>
        simp only [htally] at hf ⊢
        rw [leaderRound_leaderTerms] at hf
        simp only [FreshTerms, List.map_cons, List.nodup_cons] at hf
        have hfresh : ∀ j, ((c.nodes i).term, j) ∉ c.leaderTerms := by
          intro j hj
          exact hf.1 (List.mem_map.mpr ⟨_, hj, rfl⟩)
        have hb := inv_becomeLeader h i (asLeader i c.n (c.nodes i)) rfl hfresh
        have hr := inv_leaderRound hb i (some 0) (by simp [asLeader])
        simp only [setNode_same] at hr
        -- the round starts from the cluster in which node i already is the new leader
        have heq : leaderRound { c with nodes := setNode c.nodes i (asLeader i c.n (c.nodes i)),
                                        leaderTerms := ((asLeader i c.n (c.nodes i)).term, i) :: c.leaderTerms }
              i (asLeader i c.n (c.nodes i)) (some 0)
            = leaderRound { c with leaderTerms := ((c.nodes i).term, i) :: c.leaderTerms } i
                (asLeader i c.n (c.nodes i)) (some 0) := by
          simp only [leaderRound, addMsgs, setNode_setNode]
          rfl
        rw [heq] at hr
        exact hr
      | higherTerm t =>
        simp only [htally]
        have hb := becomeFollower_spec { (c.nodes i) with election := none, term := t }
        exact inv_update1 h i _ rfl rfl rfl
          ⟨by rw [hb.2.1]; exact h.logs i, fun hr => by rw [hb.1] at hr; cases hr⟩ msgs_same
      | logConflict =>
        simp only [htally]
        exact inv_update1 h i _ rfl rfl rfl ⟨h.logs i, fun hr => ⟨hr, rfl, rfl⟩⟩ msgs_same
      | noQuorum =>
        simp only [htally]
        exact inv_update1 h i _ rfl rfl rfl ⟨h.logs i, fun hr => ⟨hr, rfl, rfl⟩⟩ msgs_same

theorem inv_write {c : Cluster} (h : Inv c) (i : NodeId) (x : Nat) : Inv (stepWrite c i x).1 := by
  unfold stepWrite
  (try dsimp only)
  split
  · exact h
  · split
    · next hrole =>
      simp at hrole
      have h1 := inv_leaderRound h i (some (x + 1)) hrole
      exact inv_update1 h1 i _ rfl rfl rfl ⟨h1.logs i, fun hr => ⟨hr, rfl, rfl⟩⟩ msgs_same
    · exact h

theorem inv_applyCompleted {c : Cluster} (h : Inv c) (i : NodeId) (k : Nat) : Inv (stepApplyCompleted c i k).1 := by
  unfold stepApplyCompleted
  (try dsimp only)
  split
  · exact h
  · split
    · exact inv_update1 h i _ rfl rfl rfl ⟨h.logs i, fun hr => ⟨hr, rfl, rfl⟩⟩ msgs_same
    · exact h

theorem findMsg_mem {c : Cluster} {m : Nat} {x : Msg} (h : findMsg c m = some x) : ∃ y ∈ c.msgs, y.2 = x := by
  unfold findMsg at h
  cases hf : c.msgs.find? (fun x => x.1 == m) with
  | none => simp [hf] at h
  | some y =>
    simp [hf] at h
    exact ⟨y, List.mem_of_find?_eq_some hf, h⟩

theorem inv_recordCommit {c : Cluster} (h : Inv c) (i : NodeId) (b : Nat) : Inv (recordCommit c i b) := by
  unfold recordCommit
  split
  · exact inv_quiet h rfl rfl (fun j => quietNode_refl (h.logs j)) msgs_same
  · exact h

theorem recordCommit_leaderTerms (c : Cluster) (i : NodeId) (b : Nat) : (recordCommit c i b).leaderTerms = c.leaderTerms := by
  unfold recordCommit; split <;> rfl

theorem recordCommit_nodes (c : Cluster) (i : NodeId) (b : Nat) : (recordCommit c i b).nodes = c.nodes := by
  unfold recordCommit; split <;> rfl

theorem inv_deliverAe {c : Cluster} (h : Inv c) (m : Nat) : Inv (stepDeliverAe c m).1 := by
  unfold stepDeliverAe
  (try dsimp only)
  split
  · next src dst sid req reply hfm =>
    split
    · exact h
    · obtain ⟨y, hy, hyx⟩ := findMsg_mem hfm
      have hreq : ChainFrom c.ghost req.prevI req.prevT req.entries := h.msgs y hy req (by rw [hyx]; rfl)
      have hq := onAppendEntries_quiet (c.nodes dst) req (h.logs dst) hreq
      split
      · refine inv_update1 h dst _ rfl rfl rfl hq ?_
        intro x hx r hr
        simp only [addMsgs, List.mem_append] at hx
        rcases hx with hx | hx
        · exact ⟨x, removeMsg_sub c m hx, hr⟩
        · simp [number] at hx; subst hx; simp [aeOf] at hr
      · refine inv_update1 h dst _ rfl rfl rfl hq ?_
        intro x hx r hr
        exact ⟨x, removeMsg_sub c m hx, hr⟩
  · exact h

theorem inv_deliverResp {c : Cluster} (h : Inv c) (m : Nat) : Inv (stepDeliverResp c m).1 := by
  unfold stepDeliverResp
  (try dsimp only)
  have hrem : Inv (removeMsg c m) :=
    inv_quiet h rfl rfl (fun j => quietNode_refl (h.logs j)) (fun x hx r hr => ⟨x, removeMsg_sub c m hx, hr⟩)
  split
  · next src dst sid rterm res hfm =>
    split
    · exact hrem
    · split
      · exact hrem
      · apply inv_recordCommit
        exact inv_update1 hrem dst _ rfl rfl rfl (onAppendResponse_quiet _ _ _ _ (hrem.logs dst)) msgs_same
  · exact h

theorem inv_dup {c : Cluster} (h : Inv c) (m : Nat) : Inv (stepDup c m).1 := by
  unfold stepDup
  (try dsimp only)
  split
  · next src dst sid req reply hfm =>
    obtain ⟨y, hy, hyx⟩ := findMsg_mem hfm
    refine inv_quiet h rfl rfl (fun j => quietNode_refl (h.logs j)) ?_
    intro x hx r hr
    simp only [addMsgs, List.mem_append] at hx
    rcases hx with hx | hx
    · exact ⟨x, hx, hr⟩
    · simp [number] at hx; subst hx
      exact ⟨y, hy, by rw [hyx]; exact hr⟩
  · exact h

theorem inv_streamErr {c : Cluster} (h : Inv c) (l p : NodeId) : Inv (stepStreamErr c l p).1 := by
  unfold stepStreamErr
  (try dsimp only)
  split
  · exact h
  · split
    · next q hq =>
      split
      · exact h
      · refine inv_update1 h l _ rfl rfl rfl ⟨h.logs l, fun hr => ⟨hr, rfl, rfl⟩⟩ ?_
        intro x hx r hr
        simp only [List.mem_map, List.mem_filter] at hx
        obtain ⟨y, ⟨hy, _⟩, hyx⟩ := hx
        refine ⟨y, hy, ?_⟩
        cases hm : y.2 with
        | ae s d sid rq rp =>
          simp only [hm] at hyx
          split at hyx <;> (subst hyx; simp_all [aeOf])
        | resp s d sid t rs =>
          simp only [hm] at hyx
          subst hyx
          rw [hm] at hr; exact hr
    · exact h

theorem inv_streamClosed {c : Cluster} (h : Inv c) (l p : NodeId) : Inv (stepStreamClosed c l p).1 := by
  unfold stepStreamClosed
  (try dsimp only)
  split
  · exact h
  · split
    · next q hq =>
      split
      · exact h
      · refine inv_update1 h l _ rfl rfl rfl ⟨h.logs l, fun hr => ⟨hr, rfl, rfl⟩⟩ ?_
        intro x hx r hr
        simp only [List.mem_map, List.mem_filter] at hx
        obtain ⟨y, ⟨hy, _⟩, hyx⟩ := hx
        refine ⟨y, hy, ?_⟩
        cases hm : y.2 with
        | ae s d sid rq rp =>
          simp only [hm] at hyx
          split at hyx <;> (subst hyx; simp_all [aeOf])
        | resp s d sid t rs =>
          simp only [hm] at hyx
          subst hyx
          rw [hm] at hr; exact hr
    · exact h

theorem inv_logFlushed {c : Cluster} (h : Inv c) (i : NodeId) : Inv (stepLogFlushed c i).1 := by
  unfold stepLogFlushed
  (try dsimp only)
  split
  · exact h
  · split
    · apply inv_recordCommit
      exact inv_update1 h i _ rfl rfl rfl (onLogFlushed_quiet _ (h.logs i)) msgs_same
    · exact inv_update1 h i _ rfl rfl rfl ⟨h.logs i, fun hr => ⟨hr, rfl, rfl⟩⟩ msgs_same

theorem inv_down {c : Cluster} (h : Inv c) (i : NodeId) (lose : Option Nat) : Inv (stepDown' c i lose).1 := by
  unfold stepDown'
  (try dsimp only)
  split
  · exact h
  · split
    · exact h
    · exact inv_update1 h i _ rfl rfl rfl (downNode_quiet _ _ (h.logs i)) msgs_same

theorem inv_start {c : Cluster} (h : Inv c) (i : NodeId) : Inv (stepStart c i).1 := by
  unfold stepStart
  (try dsimp only)
  split
  · exact h
  · exact inv_update1 h i _ rfl rfl rfl ⟨h.logs i, fun hr => by cases hr⟩ msgs_same

/-- leaderships are only ever added in front -/
theorem leaderTerms_step (c : Cluster) (e : Event) : ∃ l, (step c e).1.leaderTerms = l ++ c.leaderTerms := by
  cases e <;> simp only [step]
  case tick i =>
    unfold stepTick; (try dsimp only); split
    · exact ⟨[], rfl⟩
    · split
      · exact ⟨[], rfl⟩
      · split <;> exact ⟨[], rfl⟩
      · exact ⟨[], rfl⟩
  case voteReq a b => unfold stepVoteReq; (try dsimp only); split <;> (try split) <;> exact ⟨[], rfl⟩
  case voteResp a b => unfold stepVoteResp; (try dsimp only); split <;> (try split) <;> (try split) <;> exact ⟨[], rfl⟩
  case voteEnd i =>
    unfold stepVoteEnd
    (try dsimp only)
    split
    · split
      · exact ⟨[], rfl⟩
      · split
        · exact ⟨[((c.nodes i).term, i)], rfl⟩
        · exact ⟨[], rfl⟩
        · exact ⟨[], rfl⟩
        · exact ⟨[], rfl⟩
    · exact ⟨[], rfl⟩
  case write i x => unfold stepWrite; (try dsimp only); split <;> (try split) <;> exact ⟨[], rfl⟩
  case deliverAe m => unfold stepDeliverAe; (try dsimp only); split <;> (try split) <;> (try split) <;> exact ⟨[], rfl⟩
  case deliverResp m => unfold stepDeliverResp; (try dsimp only); split <;> (try split) <;> (try split) <;> first | exact ⟨[], rfl⟩ | exact ⟨[], by rw [recordCommit_leaderTerms]; rfl⟩
  case drop m => exact ⟨[], rfl⟩
  case dup m => unfold stepDup; (try dsimp only); split <;> exact ⟨[], rfl⟩
  case streamErr l p => unfold stepStreamErr; (try dsimp only); split <;> (try split) <;> (try split) <;> exact ⟨[], rfl⟩
  case streamClosed l p => unfold stepStreamClosed; (try dsimp only); split <;> (try split) <;> (try split) <;> exact ⟨[], rfl⟩
  case logFlushed i => unfold stepLogFlushed; (try dsimp only); split <;> (try split) <;> first | exact ⟨[], rfl⟩ | exact ⟨[], by rw [recordCommit_leaderTerms]; rfl⟩
  case applyCompleted i k => unfold stepApplyCompleted; (try dsimp only); split <;> (try split) <;> exact ⟨[], rfl⟩
  case crash i k => unfold stepDown'; (try dsimp only); split <;> (try split) <;> exact ⟨[], rfl⟩
  case stop i => unfold stepDown'; (try dsimp only); split <;> (try split) <;> exact ⟨[], rfl⟩
  case start i => unfold stepStart; (try dsimp only); split <;> exact ⟨[], rfl⟩
  case nop => exact ⟨[], rfl⟩

theorem freshTerms_suffix {l lt : List (Nat × NodeId)} (h : FreshTerms (l ++ lt)) : FreshTerms lt := by
  unfold FreshTerms at *
  rw [List.map_append] at h
  exact (List.nodup_append.mp h).2.1

/-- Every step preserves the invariant, as long as it does not re-use a leadership term. -/
theorem step_inv {c : Cluster} (h : Inv c) (e : Event) (hf : FreshTerms (step c e).1.leaderTerms) : Inv (step c e).1 := by
  cases e with
  | tick i => exact inv_tick h i
  | voteReq a b => exact inv_voteReq h a b
  | voteResp a b => exact inv_voteResp h a b
  | voteEnd i => exact inv_voteEnd h i hf
  | write i x => exact inv_write h i x
  | deliverAe m => exact inv_deliverAe h m
  | deliverResp m => exact inv_deliverResp h m
  | drop m =>
    exact inv_quiet h rfl rfl (fun j => quietNode_refl (h.logs j)) (fun x hx r hr => ⟨x, removeMsg_sub c m hx, hr⟩)
  | dup m => exact inv_dup h m
  | streamErr l p => exact inv_streamErr h l p
  | streamClosed l p => exact inv_streamClosed h l p
  | logFlushed i => exact inv_logFlushed h i
  | applyCompleted i k => exact inv_applyCompleted h i k
  | crash i k => exact inv_down h i (some k)
  | stop i => exact inv_down h i none
  | start i => exact inv_start h i
  | nop => exact h

end DEngine.Cluster
