import DEngine.Model.Fs
/-! Lemmas about the file-system model: power-loss images only contain versions and torn appends between versions. -/
namespace DEngine.Fs

theorem mem_pairs {α : Type} {a b : α} : ∀ {l : List α}, (a, b) ∈ pairs l → a ∈ l ∧ b ∈ l
  | [], h => by simp [pairs] at h
  | [_], h => by simp [pairs] at h
  | x :: y :: rest, h => by
    simp only [pairs, List.mem_cons] at h
    rcases h with h | h
    · injection h with h1 h2; subst h1; subst h2; simp
    · have := mem_pairs (l := y :: rest) h
      simp only [List.mem_cons] at this ⊢
      exact ⟨Or.inr this.1, Or.inr this.2⟩

/-- Every element of `between a b` is `a`, `b`, or a prefix of `b`'s bytes. -/
theorem mem_between {a b x : Option Bytes} (h : x ∈ between a b) :
    x = a ∨ x = b ∨ ∃ y p, b = some y ∧ x = some p ∧ p <+: y := by
  unfold between at h
  split at h
  · rename_i x' y'
    split at h
    · simp only [List.mem_map, List.mem_range] at h
      obtain ⟨k, _, rfl⟩ := h
      exact Or.inr (Or.inr ⟨y', _, rfl, rfl, List.take_prefix _ _⟩)
    · simp at h; rcases h with h | h <;> simp [h]
  · simp at h; rcases h with h | h <;> simp [h]

theorem vol_mem_versions (f : File) : f.vol ∈ f.versions := by simp [File.versions]

/-- If a predicate holds of every version and is inherited by prefixes, it holds of every crash image. -/
theorem images_of_versions (P : Option Bytes → Prop) (f : File)
    (hv : ∀ v ∈ f.versions, P v)
    (hp : ∀ y p, P (some y) → p <+: y → P (some p))
    (sem : Sem) : ∀ img ∈ f.images sem, P img := by
  intro img himg
  cases sem with
  | process =>
    simp only [File.images, List.mem_singleton] at himg
    exact himg ▸ hv _ (vol_mem_versions f)
  | power =>
    simp only [File.images, List.mem_append, List.mem_flatMap] at himg
    rcases himg with h | ⟨⟨a, b⟩, hab, hx⟩
    · exact hv _ h
    · have hm := mem_pairs hab
      rcases mem_between hx with h | h | ⟨y, p, hb, hx, hpre⟩
      · exact h ▸ hv _ hm.1
      · exact h ▸ hv _ hm.2
      · subst hx
        exact hp y p (by simpa [← hb] using hv _ hm.2) hpre

@[simp] theorem versions_push (f : File) (v : Option Bytes) : (f.push v).versions = f.versions ++ [v] := by
  simp [File.push, File.versions]

end DEngine.Fs
