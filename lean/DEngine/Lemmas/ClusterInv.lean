/-
  The inductive invariant behind log matching (C04) and its preservation by every step of the cluster model.

  Ghost map G (`Cluster.ghost`) : (index, term) ↦ (payload, predecessor term), written when a leader creates an entry.
    gfun       G is a function
    logs       every node log is a chain below (0,0) w.r.t. G
    msgs       every AppendEntries request in flight (prev + entries) is a chain below (prev_index, prev_term)
    lead_max   a current leader of term t holds every index that G has for term t (so its next append is fresh)
    lead_term / ghost_term / uniq   bookkeeping of leaderships (`Cluster.leaderTerms`)
  Hypothesis (named): `FreshTerms` — no term has two leaderships (election safety C01 + terms survive restarts C02).
-/
import DEngine.Lemmas.ClusterPaths
namespace DEngine.Cluster

def aeOf : Msg → Option AeReq
  | .ae _ _ _ r _ => some r
  | .resp _ _ _ _ _ => none

/-- H_electionSafety: at most one leadership (BecomeLeader event) per term. -/
def FreshTerms (lt : List (Nat × NodeId)) : Prop := (lt.map Prod.fst).Nodup

instance (lt : List (Nat × NodeId)) : Decidable (FreshTerms lt) := by unfold FreshTerms; infer_instance

structure Inv (c : Cluster) : Prop where
  gfun : GFun c.ghost
  logs : ∀ i, Chain c.ghost (c.nodes i).log
  msgs : ∀ x ∈ c.msgs, ∀ r, aeOf x.2 = some r → ChainFrom c.ghost r.prevI r.prevT r.entries
  lead_max : ∀ r ∈ c.ghost, ∀ i, (c.nodes i).role = .leader → (c.nodes i).term = r.term →
    r.index ≤ (c.nodes i).log.length
  lead_term : ∀ i, (c.nodes i).role = .leader → ((c.nodes i).term, i) ∈ c.leaderTerms
  ghost_term : ∀ r ∈ c.ghost, ∃ j, (r.term, j) ∈ c.leaderTerms
  uniq : ∀ t i j, (t, i) ∈ c.leaderTerms → (t, j) ∈ c.leaderTerms → i = j

theorem inv_init (n cap : Nat) : Inv (Cluster.init n cap) := by
  refine ⟨?_, ?_, ?_, ?_, ?_, ?_, ?_⟩ <;> simp [Cluster.init, GFun, ChainFrom]

-- ------------------------------------------------------------------------------------------ setNode
@[simp] theorem setNode_same (f : NodeId → Node) (i : NodeId) (x : Node) : setNode f i x i = x := by simp [setNode]
theorem setNode_other (f : NodeId → Node) {i j : NodeId} (x : Node) (h : j ≠ i) : setNode f i x j = f j := by
  simp [setNode, h]

/-- A node update that creates nothing: the log stays a chain, and a node that is leader afterwards was the same
    leader (same term, same log) before. -/
def QuietNode (g : List GRec) (nd nd' : Node) : Prop :=
  Chain g nd'.log ∧ (nd'.role = .leader → nd.role = .leader ∧ nd'.term = nd.term ∧ nd'.log = nd.log)

theorem quietNode_refl {g : List GRec} {nd : Node} (h : Chain g nd.log) : QuietNode g nd nd := ⟨h, fun hr => ⟨hr, rfl, rfl⟩⟩

/-- Steps that create no entry and no leadership preserve the invariant. -/
theorem inv_quiet {c c' : Cluster} (h : Inv c) (hg : c'.ghost = c.ghost) (hlt : c'.leaderTerms = c.leaderTerms)
    (hnodes : ∀ i, QuietNode c.ghost (c.nodes i) (c'.nodes i))
    (hmsgs : ∀ x ∈ c'.msgs, ∀ r, aeOf x.2 = some r → ∃ y ∈ c.msgs, aeOf y.2 = some r) : Inv c' := by
  refine ⟨by rw [hg]; exact h.gfun, ?_, ?_, ?_, ?_, ?_, ?_⟩
  · intro i; rw [hg]; exact (hnodes i).1
  · intro x hx r hr
    obtain ⟨y, hy, hyr⟩ := hmsgs x hx r hr
    rw [hg]; exact h.msgs y hy r hyr
  · intro r hr i hrole hterm
    rw [hg] at hr
    obtain ⟨h1, h2, h3⟩ := (hnodes i).2 hrole
    rw [h3]; exact h.lead_max r hr i h1 (by rw [← h2]; exact hterm)
  · intro i hrole
    obtain ⟨h1, h2, _⟩ := (hnodes i).2 hrole
    rw [hlt, h2]; exact h.lead_term i h1
  · intro r hr; rw [hg] at hr; rw [hlt]; exact h.ghost_term r hr
  · rw [hlt]; exact h.uniq

-- ------------------------------------------------------------------------------------------ handler specs
theorem becomeFollower_spec (n : Node) :
    (becomeFollower n).role = .follower ∧ (becomeFollower n).log = n.log ∧ (becomeFollower n).term = n.term := by
  unfold becomeFollower
  split
  · next h => simp at h; exact ⟨h, rfl, rfl⟩
  · exact ⟨rfl, rfl, rfl⟩

theorem handleVoteRequest_role (n : Node) (r : VoteReq) : (handleVoteRequest n r).1.role = n.role := rfl

theorem handleVoteRequest_log (n : Node) (r : VoteReq) : (handleVoteRequest n r).1.log = n.log := rfl

theorem onVoteRequest_quiet {g : List GRec} (n : Node) (r : VoteReq) (hc : Chain g n.log) :
    QuietNode g n (onVoteRequest n r).1 := by
  unfold onVoteRequest
  split
  · next hr =>
    refine ⟨by rw [handleVoteRequest_log]; exact hc, ?_⟩
    intro h; rw [handleVoteRequest_role, hr] at h; cases h
  · next hr =>
    split
    · have hb := becomeFollower_spec { n with term := r.term }
      refine ⟨by rw [handleVoteRequest_log, hb.2.1]; exact hc, ?_⟩
      intro h; rw [handleVoteRequest_role, hb.1] at h; cases h
    · exact ⟨hc, fun h => by rw [hr] at h; cases h⟩
  · next hr =>
    split
    · have hb := becomeFollower_spec { n with term := r.term }
      refine ⟨by rw [handleVoteRequest_log, hb.2.1]; exact hc, ?_⟩
      intro h; rw [handleVoteRequest_role, hb.1] at h; cases h
    · exact ⟨hc, fun _ => ⟨hr, rfl, rfl⟩⟩

theorem followerAppend_role (n : Node) (r : AeReq) : (followerAppend n r).1.role = n.role := by
  unfold followerAppend
  split
  · rfl
  · cases checkAppendLegal n.term n.log r <;> rfl

theorem followerAppend_log (n : Node) (r : AeReq) :
    (followerAppend n r).1.log = n.log ∨
      (followerAppend n r).1.log = (acceptEntries n.log r.prevI r.prevT r.entries).1 := by
  unfold followerAppend
  split
  · left; rfl
  · cases checkAppendLegal n.term n.log r with
    | conflict t i => left; rfl
    | higher t => left; rfl
    | success last =>
      show (acceptOrKeep n.log r).1 = n.log ∨ (acceptOrKeep n.log r).1 = _
      unfold acceptOrKeep
      split
      · left; rfl
      · right; rfl

theorem followerAppend_chain {g : List GRec} (n : Node) (r : AeReq) (hc : Chain g n.log)
    (hr : ChainFrom g r.prevI r.prevT r.entries) : Chain g (followerAppend n r).1.log := by
  rcases followerAppend_log n r with h | h
  · rw [h]; exact hc
  · rw [h]; exact accept_chain hc hr

theorem onAppendEntries_quiet {g : List GRec} (n : Node) (r : AeReq) (hc : Chain g n.log)
    (hr : ChainFrom g r.prevI r.prevT r.entries) : QuietNode g n (onAppendEntries n r).1 := by
  unfold onAppendEntries
  split
  · next hrole =>
    refine ⟨followerAppend_chain n r hc hr, ?_⟩
    intro h; rw [followerAppend_role, hrole] at h; cases h
  · next hrole =>
    split
    · have hb := becomeFollower_spec { n with term := if r.term > n.term then r.term else n.term }
      refine ⟨followerAppend_chain _ r (by rw [hb.2.1]; exact hc) hr, ?_⟩
      intro h; rw [followerAppend_role, hb.1] at h; cases h
    · exact ⟨hc, fun h => by rw [hrole] at h; cases h⟩
  · next hrole =>
    split
    · exact ⟨hc, fun _ => ⟨hrole, rfl, rfl⟩⟩
    · have hb := becomeFollower_spec { n with term := r.term }
      refine ⟨followerAppend_chain _ r (by rw [hb.2.1]; exact hc) hr, ?_⟩
      intro h; rw [followerAppend_role, hb.1] at h; cases h

theorem applyLeaderCommit_spec (n : Node) :
    (applyLeaderCommit n).1.role = n.role ∧ (applyLeaderCommit n).1.term = n.term ∧
      (applyLeaderCommit n).1.log = n.log := by
  unfold applyLeaderCommit
  split <;> exact ⟨rfl, rfl, rfl⟩

theorem stepDown_spec (n : Node) (t : Nat) : (stepDown n t).role = .follower ∧ (stepDown n t).log = n.log := by
  have := becomeFollower_spec { n with term := t }
  exact ⟨this.1, this.2.1⟩

theorem onAppendResponse_quiet {g : List GRec} (n : Node) (src rt : Nat) (res : AeResult) (hc : Chain g n.log) :
    QuietNode g n (onAppendResponse n src rt res).1 := by
  unfold onAppendResponse
  split
  · exact quietNode_refl hc
  · next hrole =>
    simp at hrole
    split
    · exact quietNode_refl hc
    · split
      · have := stepDown_spec n rt
        exact ⟨by rw [this.2]; exact hc, fun h => by rw [this.1] at h; cases h⟩
      · split
        · have := applyLeaderCommit_spec { n with peers := updatePeer n.peers src fun p =>
            { p with next := max (max ((((‹Option (Nat × Nat)›).getD (0, 0)).1) + 1) p.next) (p.mtch + 1),
                     mtch := if ((‹Option (Nat × Nat)›).getD (0, 0)).1 > p.mtch then ((‹Option (Nat × Nat)›).getD (0, 0)).1 else p.mtch } }
          refine ⟨by rw [this.2.2]; exact hc, fun _ => ⟨hrole, ?_, ?_⟩⟩
          · rw [this.2.1]
          · rw [this.2.2]
        · exact ⟨hc, fun _ => ⟨hrole, rfl, rfl⟩⟩
        · split
          · next t _ =>
            have := stepDown_spec n t
            exact ⟨by rw [this.2]; exact hc, fun h => by rw [this.1] at h; cases h⟩
          · exact quietNode_refl hc

theorem onLogFlushed_quiet {g : List GRec} (n : Node) (hc : Chain g n.log) : QuietNode g n (onLogFlushed n).1 := by
  unfold onLogFlushed
  split
  · next hrole =>
    simp at hrole
    have := applyLeaderCommit_spec n
    exact ⟨by rw [this.2.2]; exact hc, fun _ => ⟨hrole, this.2.1, this.2.2⟩⟩
  · exact quietNode_refl hc

theorem downNode_quiet {g : List GRec} (n : Node) (lose : Option Nat) (hc : Chain g n.log) :
    QuietNode g n (downNode n lose) := by
  unfold downNode
  split
  · exact ⟨truncate_chain hc _, fun h => by cases h⟩
  · exact ⟨hc, fun h => by cases h⟩

-- ------------------------------------------------------------------------------------------ messages
theorem mem_number {s : Nat} {ms : List Msg} {x : Nat × Msg} (h : x ∈ number s ms) : x.2 ∈ ms := by
  induction ms generalizing s with
  | nil => simp [number] at h
  | cons m ms ih =>
    simp [number] at h
    rcases h with h | h
    · subst h; simp
    · exact List.mem_cons_of_mem _ (ih h)

theorem removeMsg_sub (c : Cluster) (m : Nat) {x : Nat × Msg} (h : x ∈ (removeMsg c m).msgs) : x ∈ c.msgs := by
  simp [removeMsg] at h; exact h.1

/-- every request put on the wire by a replication round was built by `buildAppendRequest` from the leader's log -/
theorem replicatePeers_msgs (me : NodeId) (log : Log) (term commit lastBefore cap : Nat) (newEs : Log) :
    ∀ (ps : List Peer) (sid : Nat) (m : Msg), m ∈ (replicatePeers me log term commit lastBefore cap newEs ps sid).2.1 →
      ∃ p, aeOf m = some (buildAppendRequest me log term commit lastBefore cap newEs p) := by
  intro ps
  induction ps with
  | nil => intro sid m h; simp [replicatePeers] at h
  | cons p ps ih =>
    intro sid m h
    simp only [replicatePeers] at h
    rw [List.mem_append] at h
    rcases h with h | h
    · refine ⟨p, ?_⟩
      split at h <;> simp at h <;> (try subst h) <;> simp_all [aeOf]
    · exact ih _ m h

theorem replicate_spec (me : NodeId) (n : Node) (payload : Option Nat) (cap sid : Nat) :
    (replicate me n payload cap sid).1.log = n.log ++ newEntries n payload ∧
      (replicate me n payload cap sid).1.role = n.role ∧ (replicate me n payload cap sid).1.term = n.term := by
  simp [replicate]

-- ------------------------------------------------------------------------------------------ leader round
theorem setNode_setNode (f : NodeId → Node) (i : NodeId) (x y : Node) :
    setNode (setNode f i x) i y = setNode f i y := by
  funext j; simp [setNode]; split <;> rfl

/-- A replication round of a current leader (heartbeat, client write, noop) preserves the invariant. -/
theorem inv_leaderRound {c : Cluster} (h : Inv c) (i : NodeId) (payload : Option Nat)
    (hrole : (c.nodes i).role = .leader) : Inv (leaderRound c i (c.nodes i) payload) := by
  have hlog := h.logs i
  have hlast := lastIndex_chain hlog
  obtain ⟨hrl, hrr, hrt⟩ := replicate_spec i (c.nodes i) payload c.cap c.nextSid
  have hsub : ∀ r ∈ c.ghost, r ∈ c.ghost ++ ghostNew (c.nodes i) payload := by intro r hr; simp [hr]
  -- the leader's new log is a chain in the new ghost map
  have hnewlog : Chain (c.ghost ++ ghostNew (c.nodes i) payload) ((c.nodes i).log ++ newEntries (c.nodes i) payload) := by
    cases payload with
    | none => simpa [ghostNew, newEntries] using hlog
    | some p => exact append_chain hlog _ _
  refine ⟨?_, ?_, ?_, ?_, ?_, ?_, ?_⟩
  · -- gfun
    show GFun (c.ghost ++ ghostNew (c.nodes i) payload)
    cases payload with
    | none => simpa [ghostNew] using h.gfun
    | some p =>
      apply gfun_append h.gfun
      intro a ha hta
      have := h.lead_max a ha i hrole (by simpa using hta.symm)
      simp; omega
  · -- logs
    intro j
    show Chain (c.ghost ++ ghostNew (c.nodes i) payload) ((leaderRound c i (c.nodes i) payload).nodes j).log
    by_cases hj : j = i
    · subst hj
      simp only [leaderRound, addMsgs, setNode_same]
      rw [hrl]; exact hnewlog
    · simp only [leaderRound, addMsgs]
      rw [setNode_other _ _ hj]
      exact chainFrom_mono hsub (h.logs j)
  · -- msgs
    intro x hx r hr
    show ChainFrom (c.ghost ++ ghostNew (c.nodes i) payload) r.prevI r.prevT r.entries
    simp only [leaderRound, addMsgs] at hx
    rw [List.mem_append] at hx
    rcases hx with hx | hx
    · exact chainFrom_mono hsub (h.msgs x hx r hr)
    · have hm := mem_number hx
      simp only [replicate] at hm
      obtain ⟨p, hp⟩ := replicatePeers_msgs _ _ _ _ _ _ _ _ _ _ hm
      rw [hp] at hr
      cases hr
      apply build_chain hnewlog
      intro e he; simp [he]
  · -- lead_max
    intro r hr j hjrole hjterm
    simp only [leaderRound, addMsgs] at hr hjrole hjterm ⊢
    by_cases hj : j = i
    · subst hj
      simp only [setNode_same] at hjrole hjterm ⊢
      rw [hrl]
      rw [List.mem_append] at hr
      rcases hr with hr | hr
      · have := h.lead_max r hr j hrole (by rw [← hrt]; exact hjterm)
        simp; omega
      · cases payload with
        | none => simp [ghostNew] at hr
        | some p =>
          simp [ghostNew] at hr
          subst hr
          simp [newEntries]; omega
    · rw [setNode_other _ _ hj] at hjrole hjterm ⊢
      rw [List.mem_append] at hr
      rcases hr with hr | hr
      · exact h.lead_max r hr j hjrole hjterm
      · cases payload with
        | none => simp [ghostNew] at hr
        | some p =>
          simp [ghostNew] at hr
          subst hr
          simp at hjterm
          have h1 := h.lead_term j hjrole
          have h2 := h.lead_term i hrole
          rw [hjterm] at h1
          exact absurd (h.uniq _ _ _ h1 h2) hj
  · -- lead_term
    intro j hjrole
    simp only [leaderRound, addMsgs] at hjrole ⊢
    by_cases hj : j = i
    · subst hj
      simp only [setNode_same] at hjrole ⊢
      rw [hrt]; exact h.lead_term j hrole
    · rw [setNode_other _ _ hj] at hjrole ⊢
      exact h.lead_term j hjrole
  · -- ghost_term
    intro r hr
    simp only [leaderRound, addMsgs] at hr ⊢
    rw [List.mem_append] at hr
    rcases hr with hr | hr
    · exact h.ghost_term r hr
    · cases payload with
      | none => simp [ghostNew] at hr
      | some p =>
        simp [ghostNew] at hr
        subst hr
        exact ⟨i, h.lead_term i hrole⟩
  · simp only [leaderRound, addMsgs]; exact h.uniq

/-- `BecomeLeader` in a fresh term preserves the invariant (the round that follows is `inv_leaderRound`). -/
theorem inv_becomeLeader {c : Cluster} (h : Inv c) (i : NodeId) (nd1 : Node)
    (hlog : nd1.log = (c.nodes i).log) (hfresh : ∀ j, (nd1.term, j) ∉ c.leaderTerms) :
    Inv { c with nodes := setNode c.nodes i nd1, leaderTerms := (nd1.term, i) :: c.leaderTerms } := by
  refine ⟨h.gfun, ?_, h.msgs, ?_, ?_, ?_, ?_⟩
  · intro j
    by_cases hj : j = i
    · subst hj; simp only [setNode_same]; rw [hlog]; exact h.logs j
    · simp only []; rw [setNode_other _ _ hj]; exact h.logs j
  · intro r hr j hjrole hjterm
    by_cases hj : j = i
    · subst hj
      simp only [setNode_same] at hjterm
      obtain ⟨k, hk⟩ := h.ghost_term r hr
      rw [← hjterm] at hk
      exact absurd hk (hfresh k)
    · simp only [] at hjrole hjterm ⊢
      rw [setNode_other _ _ hj] at hjrole hjterm ⊢
      exact h.lead_max r hr j hjrole hjterm
  · intro j hjrole
    by_cases hj : j = i
    · subst hj; simp
    · simp only [] at hjrole ⊢
      rw [setNode_other _ _ hj] at hjrole ⊢
      exact List.mem_cons_of_mem _ (h.lead_term j hjrole)
  · intro r hr
    obtain ⟨k, hk⟩ := h.ghost_term r hr
    exact ⟨k, List.mem_cons_of_mem _ hk⟩
  · intro t a b ha hb
    simp only [List.mem_cons] at ha hb
    rcases ha with ha | ha <;> rcases hb with hb | hb
    · cases ha; cases hb; rfl
    · cases ha; exact absurd hb (hfresh b)
    · cases hb; exact absurd ha (hfresh a)
    · exact h.uniq t a b ha hb

end DEngine.Cluster
