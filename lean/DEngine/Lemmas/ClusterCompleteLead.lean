/-
  C05, towards leader completeness: continuity of leadership.  A node that leads after a step either led before it, in the
  same term, and only appended to its log — or it has just won an election (`leader_cont`).
-/
import DEngine.Lemmas.ClusterCompleteTerm
namespace DEngine.Cluster

theorem onAppendEntries_leader (n : Node) (r : AeReq) (h : (onAppendEntries n r).1.role = .leader) :
    (onAppendEntries n r).1 = n := by
  unfold onAppendEntries at h ⊢
  cases hr : n.role with
  | follower => simp only [hr] at h; rw [followerAppend_role, hr] at h; cases h
  | candidate =>
    simp only [hr] at h ⊢
    by_cases hc : r.term ≥ n.term
    · rw [if_pos hc, followerAppend_role, (becomeFollower_spec _).1] at h; cases h
    · rw [if_neg hc]
  | leader =>
    simp only [hr] at h ⊢
    by_cases hc : n.term ≥ r.term
    · rw [if_pos hc]
    · rw [if_neg hc, followerAppend_role, (becomeFollower_spec _).1] at h; cases h

theorem onVoteRequest_leader (n : Node) (r : VoteReq) (h : (onVoteRequest n r).1.role = .leader) :
    (onVoteRequest n r).1 = n := by
  unfold onVoteRequest at h ⊢
  cases hr : n.role with
  | follower => simp only [hr] at h; rw [handleVoteRequest_role, hr] at h; cases h
  | candidate =>
    simp only [hr] at h ⊢
    by_cases hc : voteRequestLegal n r = true
    · rw [if_pos hc, handleVoteRequest_role, (becomeFollower_spec _).1] at h; cases h
    · rw [if_neg hc]
  | leader =>
    simp only [hr] at h ⊢
    by_cases hc : n.term < r.term
    · rw [if_pos hc, handleVoteRequest_role, (becomeFollower_spec _).1] at h; cases h
    · rw [if_neg hc]

/-- the relation between the old and the new state of a node that still leads -/
def StillLeads (n n' : Node) : Prop :=
  n'.role = .leader → n.role = .leader ∧ n'.term = n.term ∧ ∃ new, n'.log = n.log ++ new

theorem stillLeads_refl (n : Node) : StillLeads n n := fun h => ⟨h, rfl, [], by simp⟩

theorem stillLeads_of_eq {n n' : Node} (hr : n'.role = n.role) (ht : n'.term = n.term) (hl : n'.log = n.log) :
    StillLeads n n' := fun h => ⟨by rw [← hr]; exact h, ht, [], by simp [hl]⟩

theorem stillLeads_of_follower {n n' : Node} (hr : n'.role ≠ .leader) : StillLeads n n' := fun h => absurd h hr

theorem onAppendResponse_stillLeads (n : Node) (src rt : Nat) (res : AeResult) :
    StillLeads n (onAppendResponse n src rt res).1 := by
  have hsd : ∀ t, StillLeads n (stepDown n t) := fun t =>
    stillLeads_of_follower (by rw [stepDown, (becomeFollower_spec _).1]; intro h; cases h)
  unfold onAppendResponse
  split
  · exact stillLeads_refl n
  · split
    · exact stillLeads_refl n
    · split
      · exact hsd _
      · split
        · simp only [applyLeaderCommit]
          split <;> exact stillLeads_of_eq rfl rfl rfl
        · exact stillLeads_of_eq rfl rfl rfl
        · split
          · exact hsd _
          · exact stillLeads_refl n

theorem onLogFlushed_stillLeads (n n0 : Node) (hr : n0.role = n.role) (ht : n0.term = n.term) (hl : n0.log = n.log) :
    StillLeads n (onLogFlushed n0).1 := by
  simp only [onLogFlushed]
  split
  · simp only [applyLeaderCommit]; split <;> exact stillLeads_of_eq hr ht hl
  · exact stillLeads_of_eq hr ht hl

theorem leaderRound_node (c : Cluster) (i : NodeId) (nd : Node) (p : Option Nat) (j : NodeId) :
    (leaderRound c i nd p).nodes j = if j = i then (replicate i nd p c.cap c.nextSid).1 else c.nodes j := by
  simp only [leaderRound, addMsgs]
  by_cases hj : j = i
  · subst hj; simp
  · rw [setNode_other _ _ hj]; simp [hj]

theorem replicate_stillLeads (me : NodeId) (n : Node) (p : Option Nat) (cap sid : Nat) :
    StillLeads n (replicate me n p cap sid).1 := by
  obtain ⟨hl, hr, ht⟩ := replicate_spec me n p cap sid
  exact fun h => ⟨by rw [← hr]; exact h, ht, _, hl⟩

/-- the step is the end of an election that node `l` wins -/
def WinsNow (c : Cluster) (e : Event) (l : NodeId) : Prop :=
  e = .voteEnd l ∧ ∃ el, (c.nodes l).election = some el ∧ tally c.n el.req (el.collected.map (·.2)) 1 = .won

/-- Continuity of leadership. -/
theorem leader_cont (c : Cluster) (e : Event) (l : NodeId) :
    StillLeads (c.nodes l) ((step c e).1.nodes l) ∨ WinsNow c e l := by
  have R := stillLeads_refl
  cases e with
  | tick i =>
    left
    simp only [step]; unfold stepTick; dsimp only
    split
    · exact R _
    · split
      · refine upd1 (P := StillLeads) R ?_ l
        exact stillLeads_of_follower (by simp)
      · split
        · exact R _
        · next hrole _ =>
          refine upd1 (P := StillLeads) R ?_ l
          exact stillLeads_of_follower (by simp [startElection, hrole])
      · rw [leaderRound_node]; split
        · next hj => subst hj; exact replicate_stillLeads _ _ _ _ _
        · exact R _
  | voteReq a b =>
    left
    simp only [step]; unfold stepVoteReq; dsimp only
    split
    · split
      · exact R _
      · show StillLeads _ (setNode (setNode c.nodes b _) a _ l)
        by_cases hla : l = a
        · subst hla
          simp only [setNode_same]
          exact stillLeads_of_eq rfl rfl rfl
        · rw [setNode_other _ _ hla]
          refine upd1 (P := StillLeads) R ?_ l
          intro h
          have heq := onVoteRequest_leader _ _ h
          rw [heq] at h ⊢
          exact R _ h
    · exact R _
  | voteResp a b =>
    left
    simp only [step]; unfold stepVoteResp; dsimp only
    split
    · split
      · split
        · exact R _
        · (refine upd1 (P := StillLeads) R ?_ l; exact stillLeads_of_eq rfl rfl rfl)
      · exact R _
    · exact R _
  | voteEnd i =>
    simp only [step]; unfold stepVoteEnd; dsimp only
    cases hel : (c.nodes i).election with
    | none => left; simp only []; exact R _
    | some el =>
      simp only []
      by_cases hen : (!(c.valid i && (c.nodes i).up)) = true
      · left; rw [if_pos hen]; exact R _
      · rw [if_neg hen]
        cases htally : tally c.n el.req (el.collected.map (·.2)) 1 with
        | won =>
          simp only []
          by_cases hl : l = i
          · right; subst hl; exact ⟨rfl, el, hel, htally⟩
          · left; rw [leaderRound_node, if_neg hl]; exact R _
        | higherTerm t =>
          left; simp only []
          refine upd1 (P := StillLeads) R ?_ l
          exact stillLeads_of_follower (by rw [(becomeFollower_spec _).1]; intro h; cases h)
        | logConflict => left; simp only []; (refine upd1 (P := StillLeads) R ?_ l; exact stillLeads_of_eq rfl rfl rfl)
        | noQuorum => left; simp only []; (refine upd1 (P := StillLeads) R ?_ l; exact stillLeads_of_eq rfl rfl rfl)
  | write i x =>
    left
    simp only [step]; unfold stepWrite; dsimp only
    split
    · exact R _
    · split
      · show StillLeads _ (setNode (leaderRound c i (c.nodes i) (some (x + 1))).nodes i _ l)
        by_cases hl : l = i
        · subst hl; simp only [setNode_same]
          rw [leaderRound_node, if_pos rfl]
          have := replicate_stillLeads l (c.nodes l) (some (x + 1)) c.cap c.nextSid
          exact fun h => this h
        · rw [setNode_other _ _ hl, leaderRound_node, if_neg hl]; exact R _
      · exact R _
  | deliverAe m =>
    left
    simp only [step]; unfold stepDeliverAe; dsimp only
    split
    · split
      · exact R _
      · next src dst sid req reply hfm _ =>
        have key : StillLeads (c.nodes l) (setNode c.nodes dst (onAppendEntries (c.nodes dst) req).1 l) := by
          refine upd1 (P := StillLeads) R ?_ l
          intro h
          have heq := onAppendEntries_leader _ _ h
          rw [heq] at h ⊢
          exact R _ h
        split
        · exact key
        · exact key
    · exact R _
  | deliverResp m =>
    left
    simp only [step]; unfold stepDeliverResp; dsimp only
    split
    · split
      · exact R _
      · split
        · exact R _
        · rw [recordCommit_nodes]
          exact upd1 (P := StillLeads) (f := (removeMsg c m).nodes) R (onAppendResponse_stillLeads _ _ _ _) l
    · exact R _
  | drop m => left; exact R _
  | dup m =>
    left
    simp only [step]; unfold stepDup; (try dsimp only)
    split <;> exact R _
  | streamErr a p =>
    left
    simp only [step]; unfold stepStreamErr; dsimp only
    split
    · exact R _
    · split
      · split
        · exact R _
        · (refine upd1 (P := StillLeads) R ?_ l; exact stillLeads_of_eq rfl rfl rfl)
      · exact R _
  | streamClosed a p =>
    left
    simp only [step]; unfold stepStreamClosed; dsimp only
    split
    · exact R _
    · split
      · split
        · exact R _
        · (refine upd1 (P := StillLeads) R ?_ l; exact stillLeads_of_eq rfl rfl rfl)
      · exact R _
  | logFlushed i =>
    left
    simp only [step]; unfold stepLogFlushed; dsimp only
    split
    · exact R _
    · split
      · rw [recordCommit_nodes]
        (refine upd1 (P := StillLeads) R ?_ l; exact onLogFlushed_stillLeads _ _ rfl rfl rfl)
      · (refine upd1 (P := StillLeads) R ?_ l; exact stillLeads_of_eq rfl rfl rfl)
  | applyCompleted i k =>
    left
    simp only [step]; unfold stepApplyCompleted; dsimp only
    split
    · exact R _
    · split
      · (refine upd1 (P := StillLeads) R ?_ l; exact stillLeads_of_eq rfl rfl rfl)
      · exact R _
  | crash i k =>
    left
    simp only [step]; unfold stepDown'; dsimp only
    split
    · exact R _
    · split
      · exact R _
      · (refine upd1 (P := StillLeads) R ?_ l; exact stillLeads_of_follower (by simp [downNode]))
  | stop i =>
    left
    simp only [step]; unfold stepDown'; dsimp only
    split
    · exact R _
    · split
      · exact R _
      · (refine upd1 (P := StillLeads) R ?_ l; exact stillLeads_of_follower (by simp [downNode]))
  | start i =>
    left
    simp only [step]; unfold stepStart; (try dsimp only)
    split
    · exact R _
    · (refine upd1 (P := StillLeads) R ?_ l; exact stillLeads_of_follower (by simp))
  | nop => left; exact R _

end DEngine.Cluster
