/-
  C05, leader completeness over the benign sub-relation: the history (who held which entry in the entry's own term; the
  log each winner had when it won) and the invariant `HInv`.
-/
import DEngine.Lemmas.ClusterCompletePure
namespace DEngine.Cluster

/-- ghost history kept beside the cluster -/
structure Hist where
  acc : List (NodeId × Entry) := []     -- (z, x): node z held x in its log while z's term was x.term
  won : List (Nat × Log) := []          -- (t, L): the winner of term t had log L when it won

/-- everything that is held in its own term right now -/
def accNow (c : Cluster) : List (NodeId × Entry) :=
  (voterIds c.n).flatMap fun z => ((c.nodes z).log.filter (fun x => x.term == (c.nodes z).term)).map (fun x => (z, x))

theorem mem_accNow {c : Cluster} {z : NodeId} {x : Entry} :
    (z, x) ∈ accNow c ↔ z ∈ voterIds c.n ∧ x ∈ (c.nodes z).log ∧ x.term = (c.nodes z).term := by
  simp only [accNow, List.mem_flatMap, List.mem_map, List.mem_filter, beq_iff_eq, Prod.mk.injEq]
  constructor
  · rintro ⟨z', hz', x', ⟨hx', ht'⟩, rfl, rfl⟩; exact ⟨hz', hx', ht'⟩
  · rintro ⟨hz, hx, ht⟩; exact ⟨z, hz, x, ⟨hx, ht⟩, rfl, rfl⟩

def histStep (c : Cluster) (e : Event) (H : Hist) : Hist :=
  { acc := H.acc ++ accNow (step c e).1,
    won := match winner c e with
      | some i => ((c.nodes i).term, (c.nodes i).log) :: H.won
      | none => H.won }

/-- some leader elected strictly between the term of `x` and `t'` did not have `x` when it won -/
def Bad (H : Hist) (x : Entry) (t' : Nat) : Prop := ∃ t'' L, (t'', L) ∈ H.won ∧ x.term < t'' ∧ t'' < t' ∧ x ∉ L

structure HInv (c : Cluster) (H : Hist) : Prop where
  acc_tb : ∀ z x, (z, x) ∈ H.acc → x.term ≤ (c.nodes z).term
  gcand : ∀ g ∈ c.grants, g.2.1 ≤ (c.nodes g.2.2).term
  lt_won : ∀ t l, (t, l) ∈ c.leaderTerms → ∃ L, (t, L) ∈ H.won
  won_lt : ∀ t L, (t, L) ∈ H.won → ∃ l, (t, l) ∈ c.leaderTerms
  wuniq : ∀ t L1 L2, (t, L1) ∈ H.won → (t, L2) ∈ H.won → L1 = L2
  lead_won : ∀ l, (c.nodes l).role = .leader → ∃ L, ((c.nodes l).term, L) ∈ H.won ∧ ∀ x ∈ L, x ∈ (c.nodes l).log
  above : ∀ l, Chain c.ghost l → ∀ y ∈ l, ∀ L, (y.term, L) ∈ H.won → ∀ x ∈ L, x ∈ l
  reqrun : ∀ m ∈ c.msgs, ∀ r, aeOf m.2 = some r → ∀ l, Chain c.ghost l → ∀ y ∈ l, y.term = r.term →
    ∀ w ∈ r.entries, w.index ≤ y.index → w ∈ l
  reqwon : ∀ m ∈ c.msgs, ∀ r, aeOf m.2 = some r → ∃ ll, Chain c.ghost ll ∧ (∀ w ∈ r.entries, w ∈ ll) ∧
    ∀ L, (r.term, L) ∈ H.won → ∀ x ∈ L, x ∈ ll
  elreq : ∀ i el, (c.nodes i).election = some el →
    (el.req.lastIdx, el.req.lastTerm) = lastPair (c.nodes i).log ∧ ∀ y ∈ (c.nodes i).log, y.term < el.req.term
  keep : ∀ z x, (z, x) ∈ H.acc → x ∈ (c.nodes z).log ∨
    ∃ t'' L, (t'', L) ∈ H.won ∧ x.term < t'' ∧ t'' ≤ (c.nodes z).term ∧ x ∉ L ∧
      (t'' = (c.nodes z).term → ∃ w, (c.nodes z).vote = some w ∧ w.term = t'' ∧ (t'', w.id) ∈ c.leaderTerms)
  elect : ∀ i el, (c.nodes i).election = some el → ∀ z, (z, el.req.term, i) ∈ c.grants → ∀ x, (z, x) ∈ H.acc →
    x.term < el.req.term → x ∈ (c.nodes i).log ∨ Bad H x el.req.term
  win : ∀ t' L, (t', L) ∈ H.won → ∃ M : List NodeId, M.Nodup ∧ (∀ z ∈ M, c.valid z = true ∧ t' ≤ (c.nodes z).term) ∧
    M.length * 2 > c.n ∧ ∀ z ∈ M, ∀ x, (z, x) ∈ H.acc → x.term < t' → x ∈ L ∨ Bad H x t'

theorem hinv_init (n cap : Nat) : HInv (Cluster.init n cap) {} := by
  refine ⟨?_, ?_, ?_, ?_, ?_, ?_, ?_, ?_, ?_, ?_, ?_, ?_, ?_⟩ <;> simp [Cluster.init]

/-- the hypotheses shared by all preservation lemmas -/
structure Ctx (c : Cluster) (e : Event) : Prop where
  hI : Inv c
  hE : EInv c
  hG : GInv c
  hR : RInv c
  hI' : Inv (step c e).1
  hE' : EInv (step c e).1
  hG' : GInv (step c e).1
  hb : benignB c e = true

theorem bad_mono {H H' : Hist} (hw : ∀ p ∈ H.won, p ∈ H'.won) {x : Entry} {t' : Nat} (h : Bad H x t') : Bad H' x t' := by
  obtain ⟨t'', L, h1, h2, h3, h4⟩ := h
  exact ⟨t'', L, hw _ h1, h2, h3, h4⟩

theorem won_sub (c : Cluster) (e : Event) (H : Hist) : ∀ p ∈ H.won, p ∈ (histStep c e H).won := by
  intro p hp
  simp only [histStep]
  split
  · exact List.mem_cons_of_mem _ hp
  · exact hp

theorem won_cases {c : Cluster} {e : Event} {H : Hist} {p : Nat × Log} (hp : p ∈ (histStep c e H).won) :
    p ∈ H.won ∨ ∃ i, winner c e = some i ∧ p = ((c.nodes i).term, (c.nodes i).log) := by
  simp only [histStep] at hp
  split at hp
  · next i hi =>
    rcases List.mem_cons.mp hp with h | h
    · exact Or.inr ⟨i, hi, h⟩
    · exact Or.inl h
  · exact Or.inl hp

theorem lt_sub (c : Cluster) (e : Event) : ∀ p ∈ c.leaderTerms, p ∈ (step c e).1.leaderTerms := by
  intro p hp
  obtain ⟨l, hl⟩ := leaderTerms_step c e
  rw [hl]; exact List.mem_append_right _ hp

end DEngine.Cluster
