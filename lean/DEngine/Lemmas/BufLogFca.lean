import DEngine.Lemmas.BufLogInv
/-!
  `filter_out_conflicts_and_append`: under the invariant and for a well-formed request, the decision taken by the
  code (fast path by `partition_point` + the `TermSegments` overlap test, slow path by `position`) is the one the
  textbook receiver rule takes on the plain log.
-/
namespace DEngine.BufLog

/-! ### `partition_point` (std's binary search) on a monotone predicate -/

theorem bsLoop_spec (f : Nat → Bool) (k : Nat) (hlo : ∀ i, i < k → f i = true) (hhi : ∀ i, k ≤ i → f i = false) :
    ∀ (fuel size base : Nat), size ≤ fuel → 1 ≤ size → (base = 0 ∨ base < k) → k ≤ base + size →
      (bsLoop f fuel size base = 0 ∨ bsLoop f fuel size base < k) ∧ k ≤ bsLoop f fuel size base + 1 := by
  intro fuel
  induction fuel with
  | zero => intro size base h1 h2; omega
  | succ fuel ih =>
    intro size base hf h1 hb hk
    unfold bsLoop
    by_cases hs : 1 < size
    · simp only [hs, if_true]
      by_cases hm : f (base + size / 2) = true
      · simp only [hm, if_true]
        have hlt : base + size / 2 < k := by
          rcases Nat.lt_or_ge (base + size / 2) k with h | h
          · exact h
          · rw [hhi _ h] at hm; cases hm
        exact ih (size - size / 2) (base + size / 2) (by omega) (by omega) (Or.inr hlt) (by omega)
      · have hm' : f (base + size / 2) = false := by simpa using hm
        simp only [hm', Bool.false_eq_true, if_false]
        have hge : k ≤ base + size / 2 := by
          rcases Nat.lt_or_ge (base + size / 2) k with h | h
          · rw [hlo _ h] at hm'; cases hm'
          · exact h
        exact ih (size - size / 2) base (by omega) (by omega) hb (by omega)
    · simp only [hs, if_false]
      exact ⟨hb, by omega⟩

theorem contigFrom_getElem? {c : Nat} {es : List Entry} (h : contigFrom c es = true) {i : Nat} {e : Entry}
    (he : es[i]? = some e) : e.index = c + i := by
  induction es generalizing c i with
  | nil => simp at he
  | cons x xs ih =>
    simp only [contigFrom_cons, Bool.and_eq_true, beq_iff_eq] at h
    cases i with
    | zero => simp at he; subst he; omega
    | succ i =>
      simp only [List.getElem?_cons_succ] at he
      have := ih h.2 he
      omega

/-- on a gap-free request starting at `c`, the overlap with a log ending at `last` is its first
    `min length (last + 1 - c)` entries -/
theorem partitionPoint_contig {c : Nat} {es : List Entry} (h : contigFrom c es = true) (last : Nat) :
    partitionPoint es (fun e => decide (e.index ≤ last)) = min es.length (last + 1 - c) := by
  unfold partitionPoint
  by_cases he : es = []
  · simp [he]
  · have hne : es.isEmpty = false := by simpa using he
    simp only [hne, Bool.false_eq_true, if_false]
    have hlen : 1 ≤ es.length := List.length_pos_iff.mpr he
    -- the predicate as a function of the position
    let f : Nat → Bool := fun i => match es[i]? with | some e => decide (e.index ≤ last) | none => false
    have hlo : ∀ i, i < min es.length (last + 1 - c) → f i = true := by
      intro i hi
      have hi' : i < es.length := by omega
      have hget : es[i]? = some es[i] := List.getElem?_eq_getElem hi'
      have := contigFrom_getElem? h hget
      simp only [f, hget]
      simp; omega
    have hhi : ∀ i, min es.length (last + 1 - c) ≤ i → f i = false := by
      intro i hi
      simp only [f]
      cases hget : es[i]? with
      | none => rfl
      | some e =>
        have := contigFrom_getElem? h hget
        have hi' : i < es.length := by
          rcases Nat.lt_or_ge i es.length with h1 | h1
          · exact h1
          · rw [List.getElem?_eq_none h1] at hget; cases hget
        simp; omega
    have hs := bsLoop_spec f _ hlo hhi es.length es.length 0 (Nat.le_refl _) hlen (Or.inl rfl) (by omega)
    show bsLoop f es.length es.length 0 + (if f (bsLoop f es.length es.length 0) = true then 1 else 0) = _
    by_cases hfb : f (bsLoop f es.length es.length 0) = true
    · simp only [hfb, if_true]
      have : bsLoop f es.length es.length 0 < min es.length (last + 1 - c) := by
        rcases Nat.lt_or_ge (bsLoop f es.length es.length 0) (min es.length (last + 1 - c)) with h1 | h1
        · exact h1
        · rw [hhi _ h1] at hfb; cases hfb
      omega
    · have hfb' : f (bsLoop f es.length es.length 0) = false := by simpa using hfb
      simp only [hfb', Bool.false_eq_true, if_false]
      have : min es.length (last + 1 - c) ≤ bsLoop f es.length es.length 0 := by
        rcases Nat.lt_or_ge (bsLoop f es.length es.length 0) (min es.length (last + 1 - c)) with h1 | h1
        · rw [hlo _ h1] at hfb'; cases hfb'
        · exact h1
      omega

/-! ### the textbook rule on the plain log -/

theorem firstNew_append_of_match {p : Plain} {xs ys : List Entry}
    (h : ∀ e ∈ xs, p.entTerm e.index = some e.term) : p.firstNew (xs ++ ys) = p.firstNew ys := by
  induction xs with
  | nil => rfl
  | cons x xs ih =>
    simp only [List.cons_append, Plain.firstNew, h x (by simp), if_true]
    exact ih (fun e he => h e (List.mem_cons_of_mem _ he))

theorem firstNew_cons_of_new {p : Plain} {y : Entry} {ys : List Entry} (h : p.entTerm y.index ≠ some y.term) :
    p.firstNew (y :: ys) = y :: ys := by
  simp [Plain.firstNew, h]

theorem plain_fca_matched {p : Plain} {prevI prevT : Nat} {es : List Entry} (hnr : ¬(prevI = 0 ∧ prevT = 0))
    (hm : p.termAt prevI = some prevT) :
    p.fca prevI prevT es = match p.firstNew es with
      | [] => (p, lastId es)
      | e :: rest => ({ p with ents := p.ents.filter (fun x => decide (x.index < e.index)) ++ (e :: rest) }, lastId es) := by
  unfold Plain.fca
  rw [if_neg hnr, if_neg (by simp [hm])]
  rfl

theorem lastId_drop {es : List Entry} {n : Nat} (h : es.drop n ≠ []) : lastId (es.drop n) = lastId es := by
  unfold lastId
  congr 1
  have hn : n < es.length := by
    rcases Nat.lt_or_ge n es.length with h1 | h1
    · exact h1
    · exact absurd (List.drop_eq_nil_of_le h1) h
  rw [List.getLast?_drop]
  simp [hn]
  omega

/-! ### the code's tests, read on the plain log -/

namespace Buf.Inv
variable {b : Buf}

/-- an in-range or beyond-the-end position: the code's divergence test is "the plain log does not hold this entry" -/
theorem diverges_iff (h : b.Inv) {e : Entry} (hmin : b.mem ≠ [] → b.minIdx ≤ e.index) (hidx : 0 < e.index) :
    (b.maxIdx < e.index ∨ b.entryTerm e.index ≠ some e.term) ↔ b.abs.entTerm e.index ≠ some e.term := by
  by_cases hne : b.mem = []
  · have : b.maxIdx = 0 := h.max_zero hne
    simp [this, hidx, Plain.entTerm, Buf.abs, hne, lookup]
  · by_cases hgt : b.maxIdx < e.index
    · have : lookup b.mem e.index = none := by
        apply lookup_eq_none_of_not_range h.contig
        have := lastIdx_contig h.contig hne
        rw [h.maxOk] at hgt
        omega
      simp [hgt, Plain.entTerm, Buf.abs, this]
    · have hmx := h.max_pos hne
      obtain ⟨x, hx, hxi⟩ := h.exists_of_range (hmin hne) (by omega) (by omega)
      have hl : lookup b.mem e.index = some x := by rw [← hxi]; exact lookup_of_mem_contig h.contig hx
      rw [h.entryTerm_eq]
      simp [hgt, Plain.termAt, Plain.entTerm, Buf.abs, hl]

/-- `position(…)` of the slow path finds the start of what the textbook rule appends -/
theorem divergePos_spec (h : b.Inv) {es : List Entry}
    (hmin : ∀ e ∈ es, (b.mem ≠ [] → b.minIdx ≤ e.index) ∧ 0 < e.index) :
    match divergePos b es with
    | none => b.abs.firstNew es = []
    | some k => k < es.length ∧ b.abs.firstNew es = es.drop k := by
  induction es with
  | nil => simp [divergePos, Plain.firstNew]
  | cons e es ih =>
    have he := hmin e (by simp)
    have hd := h.diverges_iff he.1 he.2
    simp only [divergePos]
    by_cases hdiv : b.maxIdx < e.index ∨ b.entryTerm e.index ≠ some e.term
    · simp only [hdiv, if_true]
      exact ⟨by simp, by simpa using firstNew_cons_of_new (hd.mp hdiv)⟩
    · simp only [hdiv, if_false]
      have hmatch : b.abs.entTerm e.index = some e.term := by
        by_cases hx : b.abs.entTerm e.index = some e.term
        · exact hx
        · exact absurd (hd.mpr hx) hdiv
      have := ih (fun x hx => hmin x (List.mem_cons_of_mem _ hx))
      cases hdp : divergePos b es with
      | none =>
        rw [hdp] at this
        simp [Plain.firstNew, hmatch, this]
      | some k =>
        rw [hdp] at this
        simp only [Option.map_some, List.length_cons, List.drop_succ_cons]
        exact ⟨by omega, by simp [Plain.firstNew, hmatch, this.2]⟩

end Buf.Inv

/-- What the decision of `filter_out_conflicts_and_append` must satisfy for the refinement step. -/
def FcaSpec (b : Buf) (prevI prevT : Nat) (es : List Entry) : FcaPlan → Prop
  | .reset => prevI = 0 ∧ prevT = 0
  | .mismatch => b.abs.fca prevI prevT es = (b.abs, b.lastLogId)
  | .noop => b.abs.fca prevI prevT es = (b.abs, lastId es)
  | .appendTail tail =>
    tail ≠ [] ∧ tail.length ≤ es.length ∧ lastId tail = lastId es ∧ termsPos tail = true ∧
    (∃ k, contigFrom k tail = true ∧ (∀ x ∈ b.mem, x.index < k) ∧ (b.mem ≠ [] → k = lastIdx b.mem + 1) ∧
      (b.mem = [] → k = b.purgedI + 1)) ∧
    b.abs.fca prevI prevT es = (b.abs.append tail, lastId es)
  | .replace d tail =>
    tail ≠ [] ∧ tail.length ≤ es.length ∧ lastId tail = lastId es ∧ termsPos tail = true ∧
    b.minIdx ≤ d ∧ d ≤ b.maxIdx ∧ b.mem ≠ [] ∧ contigFrom d tail = true ∧
    b.abs.fca prevI prevT es =
      ({ b.abs with ents := b.mem.filter (fun e => decide (e.index < d)) ++ tail }, lastId es)

theorem termsPos_drop {es : List Entry} (h : termsPos es = true) (n : Nat) : termsPos (es.drop n) = true := by
  simp only [termsPos, List.all_eq_true] at h ⊢
  intro x hx
  exact h x (List.mem_of_mem_drop hx)

/-- non-decreasing terms with equal ends are constant -/
theorem termsMono_const {es : List Entry} (h : termsMono es = true) {f l : Entry} (hf : es.head? = some f)
    (hl : es.getLast? = some l) (heq : f.term = l.term) : ∀ e ∈ es, e.term = f.term := by
  induction es generalizing f with
  | nil => simp
  | cons x xs ih =>
    simp only [List.head?_cons, Option.some.injEq] at hf
    subst hf
    cases xs with
    | nil => simp
    | cons y ys =>
      simp only [termsMono, Bool.and_eq_true, decide_eq_true_eq] at h
      have hl' : (y :: ys).getLast? = some l := by simpa [List.getLast?_cons_cons] using hl
      -- terms never decrease, so every later term is ≥ x.term and ≤ l.term = x.term
      have mono : ∀ (zs : List Entry) (z : Entry), termsMono (z :: zs) = true → ∀ w ∈ z :: zs, z.term ≤ w.term := by
        intro zs
        induction zs with
        | nil => intro z _ w hw; simp at hw; subst hw; exact Nat.le_refl _
        | cons a as iha =>
          intro z hz w hw
          simp only [termsMono, Bool.and_eq_true, decide_eq_true_eq] at hz
          rcases List.mem_cons.mp hw with rfl | hw
          · exact Nat.le_refl _
          · exact Nat.le_trans hz.1 (iha a hz.2 w hw)
      have hyl : y.term ≤ l.term := mono ys y h.2 l (List.mem_of_getLast? hl')
      have hxy : x.term = y.term := by omega
      have := ih (f := y) h.2 rfl hl' (by omega)
      intro e he
      rcases List.mem_cons.mp he with rfl | he
      · rfl
      · rw [this e he]; exact hxy.symm

/-- a prefix of a non-decreasing list is non-decreasing -/
theorem termsMono_take : ∀ (zs : List Entry) (n : Nat), termsMono zs = true → termsMono (zs.take n) = true := by
  intro zs
  induction zs with
  | nil => intro n _; simp [termsMono]
  | cons a as iha =>
    intro n hz
    cases n with
    | zero => simp [termsMono]
    | succ n =>
      cases as with
      | nil => simp [termsMono]
      | cons a2 as2 =>
        simp only [termsMono, Bool.and_eq_true, decide_eq_true_eq] at hz
        cases n with
        | zero => simp [termsMono]
        | succ n =>
          have := iha (n + 1) hz.2
          simp only [List.take_succ_cons] at this ⊢
          simp [termsMono, hz.1, this]

/-- if the textbook scan stops at position `k`, everything before `k` is held by the log -/
theorem firstNew_drop_match {p : Plain} : ∀ (zs : List Entry) (k : Nat), p.firstNew zs = zs.drop k → k ≤ zs.length →
    ∀ i (_ : i < k) (hi' : i < zs.length), p.entTerm (zs[i]).index = some (zs[i]).term := by
  intro zs
  induction zs with
  | nil => intro k _ _ i _ hi'; simp at hi'
  | cons z zs ihz =>
    intro k hk hkl i hi hi'
    cases k with
    | zero => omega
    | succ k =>
      simp only [Plain.firstNew, List.drop_succ_cons] at hk
      by_cases hz : p.entTerm z.index = some z.term
      · simp only [hz, if_true] at hk
        cases i with
        | zero => simpa using hz
        | succ i =>
          simp only [List.length_cons] at hkl hi'
          simpa using ihz k hk (by omega) i (by omega) (by omega)
      · simp only [hz, if_false] at hk
        have h1 : (z :: zs).length = (zs.drop k).length := by rw [hk]
        simp only [List.length_cons, List.length_drop] at h1
        omega

namespace Buf.Inv
variable {b : Buf}

/-- hypotheses shared by the pieces: the request is gap-free from `prevI + 1`, and `prev` sits inside the log or on
    the purge boundary right below it -/
structure ReqOk (b : Buf) (prevI : Nat) (es : List Entry) : Prop where
  contig : contigFrom (prevI + 1) es = true
  pos : termsPos es = true
  mono : termsMono es = true
  prevIn : b.mem ≠ [] → b.minIdx ≤ prevI + 1 ∧ prevI ≤ b.maxIdx
  prevAnchor : b.mem = [] → prevI = b.purgedI

theorem ReqOk.hmin {prevI : Nat} {es : List Entry} (r : ReqOk b prevI es) :
    ∀ e ∈ es, (b.mem ≠ [] → b.minIdx ≤ e.index) ∧ 0 < e.index := by
  intro e he
  have := contigFrom_mem r.contig he
  exact ⟨fun hne => by have := (r.prevIn hne).1; omega, by omega⟩

/-- the tail that starts at position `n` of the request, when it starts right above the end of the log -/
theorem tail_next (h : b.Inv) {prevI : Nat} {es : List Entry} (r : ReqOk b prevI es) (n : Nat) (y : Entry)
    (ys : List Entry) (hdrop : es.drop n = y :: ys) (hgt : b.maxIdx < y.index)
    (hprevent : n = 0 ∨ ∃ x, es[n - 1]? = some x ∧ x.index ≤ b.maxIdx) :
    (∀ x ∈ b.mem, x.index < y.index) ∧ (b.mem ≠ [] → y.index = lastIdx b.mem + 1) ∧
    (b.mem = [] → y.index = b.purgedI + 1) ∧ contigFrom y.index (es.drop n) = true := by
  have hcd := contigFrom_drop r.contig n
  have hyi : y.index = prevI + 1 + n := by
    rw [hdrop] at hcd
    simp only [contigFrom_cons, Bool.and_eq_true, beq_iff_eq] at hcd
    exact hcd.1
  refine ⟨?_, ?_, ?_, by rw [hyi]; exact hcd⟩
  · intro x hx
    have := (h.mem_range hx).2
    omega
  · intro hne
    have hp := r.prevIn hne
    rw [← h.maxOk]
    rcases hprevent with rfl | ⟨x, hx, hxle⟩
    · omega
    · have := contigFrom_getElem? r.contig hx
      rcases Nat.eq_zero_or_pos n with rfl | hn
      · omega
      · omega
  · intro he
    have hp := r.prevAnchor he
    have hz := h.max_zero he
    rcases hprevent with rfl | ⟨x, hx, hxle⟩
    · omega
    · have := contigFrom_getElem? r.contig hx
      have : 0 < x.index := by omega
      omega

/-- appending a tail that starts right above the end is what the textbook rule does with it -/
theorem append_spec (h : b.Inv) {prevI prevT : Nat} {es : List Entry} (r : ReqOk b prevI es)
    (hplain : b.abs.fca prevI prevT es = match b.abs.firstNew es with
      | [] => (b.abs, lastId es)
      | e :: rest => ({ b.abs with ents := b.abs.ents.filter (fun x => decide (x.index < e.index)) ++ (e :: rest) }, lastId es))
    (n : Nat) (y : Entry) (ys : List Entry) (hd : es.drop n = y :: ys) (hfn : b.abs.firstNew es = es.drop n)
    (hgt : b.maxIdx < y.index) (hprevent : n = 0 ∨ ∃ x, es[n - 1]? = some x ∧ x.index ≤ b.maxIdx) :
    FcaSpec b prevI prevT es (.appendTail (y :: ys)) := by
  obtain ⟨habove, hnext, hanchor, hctail⟩ := h.tail_next r n y ys hd hgt hprevent
  have hdne : es.drop n ≠ [] := by rw [hd]; simp
  refine ⟨by simp, ?_, ?_, ?_, ⟨y.index, ?_, habove, hnext, hanchor⟩, ?_⟩
  · have := List.length_drop (i := n) (l := es)
    rw [hd] at this; omega
  · rw [← hd]; exact lastId_drop hdne
  · rw [← hd]; exact termsPos_drop r.pos _
  · rw [← hd]; exact hctail
  · rw [hplain, hfn, hd]
    simp only [Plain.append, Buf.abs]
    have : b.mem.filter (fun x => decide (x.index < y.index)) = b.mem := by
      apply List.filter_eq_self.mpr
      intro x hx
      simpa using habove x hx
    rw [this]

theorem fcaSlow_spec (h : b.Inv) {prevI prevT : Nat} {es : List Entry} (r : ReqOk b prevI es)
    (hplain : b.abs.fca prevI prevT es = match b.abs.firstNew es with
      | [] => (b.abs, lastId es)
      | e :: rest => ({ b.abs with ents := b.abs.ents.filter (fun x => decide (x.index < e.index)) ++ (e :: rest) }, lastId es)) :
    FcaSpec b prevI prevT es (fcaSlow b es).1 := by
  have hmin := r.hmin
  have hdiv := h.divergePos_spec hmin
  unfold fcaSlow
  cases hdp : divergePos b es with
  | none =>
    rw [hdp] at hdiv
    simp only [FcaSpec]
    rw [hplain, hdiv]
  | some pos =>
    rw [hdp] at hdiv
    obtain ⟨hposlt, hfn⟩ := hdiv
    dsimp only
    cases hd : es.drop pos with
    | nil =>
      have := List.length_drop (i := pos) (l := es)
      rw [hd] at this; simp at this; omega
    | cons d rest =>
      dsimp only
      have hdne : es.drop pos ≠ [] := by rw [hd]; simp
      have hdget : es[pos]? = some d := by
        have := List.getElem?_drop (xs := es) (i := pos) (j := 0)
        rw [hd] at this
        simpa using this.symm
      have hdi := contigFrom_getElem? r.contig hdget
      have hdmem : d ∈ es := by rw [← List.take_append_drop pos es, hd]; simp
      have hlen : (d :: rest).length ≤ es.length := by
        have := List.length_drop (i := pos) (l := es)
        rw [hd] at this; omega
      by_cases hle : d.index ≤ b.maxIdx
      · rw [if_pos hle]
        simp only [FcaSpec]
        have hne : b.mem ≠ [] := by
          intro hx
          have := h.max_zero hx
          have := (hmin d hdmem).2
          omega
        refine ⟨by simp, hlen, ?_, ?_, (hmin d hdmem).1 hne, hle, hne, ?_, ?_⟩
        · rw [← hd]; exact lastId_drop hdne
        · rw [← hd]; exact termsPos_drop r.pos _
        · have := contigFrom_drop r.contig pos
          rw [hd] at this; rw [hdi]; exact this
        · rw [hplain, hfn, hd]
          rfl
      · rw [if_neg hle]
        have hgt : b.maxIdx < d.index := by omega
        have hprevent : pos = 0 ∨ ∃ x, es[pos - 1]? = some x ∧ x.index ≤ b.maxIdx := by
          rcases Nat.eq_zero_or_pos pos with h0 | h0
          · exact Or.inl h0
          · right
            have hlt : pos - 1 < es.length := by omega
            refine ⟨es[pos - 1], List.getElem?_eq_getElem hlt, ?_⟩
            have hxm : es[pos - 1] ∈ es := List.getElem_mem hlt
            have hmatch := firstNew_drop_match es pos hfn (by omega) (pos - 1) (by omega) hlt
            have hiff := h.diverges_iff (hmin _ hxm).1 (hmin _ hxm).2
            rcases Nat.lt_or_ge b.maxIdx (es[pos - 1]).index with hlt' | hge'
            · exact absurd hmatch (hiff.mp (Or.inl hlt'))
            · exact hge'
        exact h.append_spec r hplain pos d rest hd hfn hgt hprevent

theorem overlap_match (h : b.Inv) {prevI : Nat} {es : List Entry} (r : ReqOk b prevI es) (n : Nat)
    (hle : ∀ e ∈ es.take n, e.index ≤ b.maxIdx) (hsafe : overlapSafe b (es.take n) = true) :
    ∀ e ∈ es.take n, b.abs.entTerm e.index = some e.term := by
  unfold overlapSafe at hsafe
  cases hh : (es.take n).head? with
  | none =>
    intro e he
    have : es.take n = [] := List.head?_eq_none_iff.mp hh
    rw [this] at he; cases he
  | some first =>
    rw [hh] at hsafe
    obtain ⟨l, hl⟩ : ∃ l, (es.take n).getLast? = some l := by
      cases hg : (es.take n).getLast? with
      | none =>
        have := List.getLast?_eq_none_iff.mp hg
        rw [this] at hh; cases hh
      | some l => exact ⟨l, rfl⟩
    rw [hl] at hsafe
    simp only [Bool.and_eq_true, decide_eq_true_eq, beq_iff_eq] at hsafe
    obtain ⟨⟨hstart, hft⟩, hlt⟩ := hsafe
    have hconst := termsMono_const (termsMono_take es n r.mono) hh hl (by omega)
    intro e he
    have hle' := hle e he
    have hfirst_le : first.index ≤ e.index := by
      have hcf := contigFrom_take r.contig n
      have hne' : es.take n ≠ [] := by intro hx; rw [hx] at hh; cases hh
      have hf1 := firstIdx_contig hcf hne'
      simp only [firstIdx, hh] at hf1
      have := contigFrom_mem hcf he
      omega
    have hmem_e := List.mem_of_mem_take he
    have hne : b.mem ≠ [] := by
      intro hx
      have := h.max_zero hx
      have := (r.hmin e hmem_e).2
      omega
    obtain ⟨x, hx, hxi⟩ := h.exists_of_range ((r.hmin e hmem_e).1 hne) hle' (by have := h.max_pos hne; omega)
    have hxt : x.term = b.segs.lastTerm := h.seg.top x hx (by omega)
    have hl2 : lookup b.mem e.index = some x := by rw [← hxi]; exact lookup_of_mem_contig h.contig hx
    simp [Plain.entTerm, Buf.abs, hl2, hxt, hconst e he, hft]

theorem fcaMatched_spec (h : b.Inv) {prevI prevT : Nat} {es : List Entry} (r : ReqOk b prevI es)
    (hplain : b.abs.fca prevI prevT es = match b.abs.firstNew es with
      | [] => (b.abs, lastId es)
      | e :: rest => ({ b.abs with ents := b.abs.ents.filter (fun x => decide (x.index < e.index)) ++ (e :: rest) }, lastId es)) :
    FcaSpec b prevI prevT es (fcaMatched b es).1 := by
  unfold fcaMatched
  simp only
  rw [partitionPoint_contig r.contig b.maxIdx]
  generalize hn : min es.length (b.maxIdx + 1 - (prevI + 1)) = n
  have hov_le : ∀ e ∈ es.take n, e.index ≤ b.maxIdx := by
    intro e he
    obtain ⟨i, hi, hget⟩ := List.mem_take_iff_getElem.mp he
    have hi' : i < es.length := by omega
    have := contigFrom_getElem? r.contig (List.getElem?_eq_getElem hi')
    rw [hget] at this
    omega
  by_cases hsafe : overlapSafe b (es.take n) = true
  · simp only [hsafe, if_true]
    have hov_match := h.overlap_match r n hov_le hsafe
    have hfn : b.abs.firstNew es = b.abs.firstNew (es.drop n) := by
      conv => lhs; rw [← List.take_append_drop n es]
      exact firstNew_append_of_match hov_match
    cases hd : es.drop n with
    | nil =>
      simp only [List.isEmpty_nil, if_true, FcaSpec]
      rw [hplain, hfn, hd]; rfl
    | cons y ys =>
      simp only [List.isEmpty_cons, Bool.false_eq_true, if_false]
      have hskiplt : n < es.length := by
        rcases Nat.lt_or_ge n es.length with h1 | h1
        · exact h1
        · rw [List.drop_eq_nil_of_le h1] at hd; cases hd
      have hyget : es[n]? = some y := by
        have := List.getElem?_drop (xs := es) (i := n) (j := 0)
        rw [hd] at this
        simpa using this.symm
      have hyi := contigFrom_getElem? r.contig hyget
      have hygt : b.maxIdx < y.index := by omega
      have hymem : y ∈ es := by rw [← List.take_append_drop n es, hd]; simp
      have hnew : b.abs.entTerm y.index ≠ some y.term :=
        (h.diverges_iff (r.hmin y hymem).1 (r.hmin y hymem).2).mp (Or.inl hygt)
      have hprevent : n = 0 ∨ ∃ x, es[n - 1]? = some x ∧ x.index ≤ b.maxIdx := by
        rcases Nat.eq_zero_or_pos n with h0 | h0
        · exact Or.inl h0
        · right
          have hlt : n - 1 < es.length := by omega
          refine ⟨es[n - 1], List.getElem?_eq_getElem hlt, ?_⟩
          have := contigFrom_getElem? r.contig (List.getElem?_eq_getElem hlt)
          omega
      refine h.append_spec r hplain n y ys hd ?_ hygt hprevent
      rw [hfn, hd, firstNew_cons_of_new hnew]
  · have hsafe' : overlapSafe b (es.take n) = false := by simpa using hsafe
    simp only [hsafe', Bool.false_eq_true, if_false]
    exact h.fcaSlow_spec r hplain

/-- **The decision taken by the code is the textbook one.** -/
theorem fcaDecide_spec (h : b.Inv) {prevI prevT : Nat} {es : List Entry}
    (hc : contigFrom (prevI + 1) es = true) (hpos : termsPos es = true) (hmono : termsMono es = true)
    (hnr : ¬(prevI = 0 ∧ prevT = 0)) :
    FcaSpec b prevI prevT es (fcaDecide b prevI prevT es).1 := by
  unfold fcaDecide
  rw [if_neg hnr]
  by_cases hm : b.entryTerm prevI ≠ some prevT
  · rw [if_pos hm]
    simp only [FcaSpec]
    have : b.abs.termAt prevI ≠ some prevT := by rw [← h.entryTerm_eq]; exact hm
    simp [Plain.fca, hnr, this, h.lastLogId_eq]
  · rw [if_neg hm]
    have hm' : b.entryTerm prevI = some prevT := by
      by_cases hx : b.entryTerm prevI = some prevT
      · exact hx
      · exact absurd hx hm
    have hmp : b.abs.termAt prevI = some prevT := by rw [← h.entryTerm_eq]; exact hm'
    have hplain := plain_fca_matched (p := b.abs) (es := es) hnr hmp
    have r : ReqOk b prevI es := by
      refine ⟨hc, hpos, hmono, ?_, ?_⟩
      · intro hne
        unfold Buf.entryTerm at hm'
        by_cases hr : b.maxIdx = 0 ∨ prevI < b.minIdx ∨ b.maxIdx < prevI
        · simp only [hr, if_true] at hm'
          have hp : b.purgedI > 0 ∧ prevI = b.purgedI := by
            by_cases hp : b.purgedI > 0 ∧ prevI = b.purgedI
            · exact hp
            · simp [hp] at hm'
          have h1 := h.anchor hne
          have h2 := firstIdx_le_lastIdx h.contig hne
          rw [h.minOk, h.maxOk]
          omega
        · omega
      · intro he
        unfold Buf.entryTerm at hm'
        have hz := h.max_zero he
        simp only [hz, true_or, if_true] at hm'
        by_cases hp : b.purgedI > 0 ∧ prevI = b.purgedI
        · exact hp.2
        · simp [hp] at hm'
    exact h.fcaMatched_spec r hplain

end Buf.Inv

end DEngine.BufLog
